(* C10 / C02 (scheduler half) for N >= 1 kernel threads, every interleaving:
   conservation (sched_conservation) and the per-thread bypass bound under work
   stealing (yield_bounded_bypass_nthreads), over the model coq/Sched.v, in which
   a deque operation is one atomic step (the deque internals are C02_deque's job).

   Thread t owns the deques 2t+1 and 2t+2:
     FqN s t = dq s (sfrom s t)           the batch t drains (head = next pop_bottom;
                                          thieves steal at the other end)
     SqN s t = dq s (4t+3 - sfrom s t)    the batch t fills
   Who changes t's deques: t itself (schedule / SAVING re-queue push on SqN,
   load_balance pushes stolen fibers on FqN, next pops FqN), and the other
   threads' load_balance, which only removes the LAST element of one of them
   (others_only_steal).

   Differences to the one-thread invariant (SchedProofs.v): fiber states are
   plain shared variables, so a thread's knowledge about "its" fibers must be
   stable under the writes of the other threads.  The only write another thread
   can do to a fiber that this thread holds is a (possibly late) flip, which
   writes WAITING(3) to an existing fiber; so e.g. a current fiber has state
   RUNNING or WAITING at any time.  Programs: thread t only spawns fiber ids
   that it owns (own f = t), as fiber_create hands out fresh fibers. *)
From Coq Require Import List ZArith Lia Bool Arith.
From LF Require Import Conc Sched SchedProofs.
Import ListNotations.

(* ---------------- sums over 0..n-1 ---------------- *)
Fixpoint sumn (f : nat -> nat) (n : nat) : nat :=
  match n with O => 0 | S k => sumn f k + f k end.

Lemma sumn_ext f g n : (forall i, i < n -> f i = g i) -> sumn f n = sumn g n.
Proof. induction n; intros H; cbn; auto. rewrite IHn, H; auto. Qed.

Lemma sumn_upd_out (f : nat -> nat) n t v : n <= t -> sumn (upd f t v) n = sumn f n.
Proof. intros H. apply sumn_ext. intros i Hi. apply upd_other. lia. Qed.

Lemma sumn_upd (f : nat -> nat) n t v : t < n -> sumn (upd f t v) n + f t = sumn f n + v.
Proof.
  induction n; intros H; [lia|]. cbn [sumn].
  destruct (Nat.eq_dec t n) as [->|Hne].
  - rewrite sumn_upd_out by lia. rewrite upd_same. lia.
  - rewrite upd_other by lia. assert (t < n) by lia. specialize (IHn H0). lia.
Qed.

Lemma sumn_term (f : nat -> nat) n t : t < n -> f t <= sumn f n.
Proof.
  induction n; intros H; [lia|]. cbn [sumn].
  destruct (Nat.eq_dec t n) as [->|Hne]; [lia|]. assert (t < n) by lia. specialize (IHn H0). lia.
Qed.

Lemma sumn_two (f : nat -> nat) n a b : a < n -> b < n -> a <> b -> f a + f b <= sumn f n.
Proof.
  induction n; intros Ha Hb Hab; [lia|]. cbn [sumn].
  destruct (Nat.eq_dec a n) as [->|Hna]; [pose proof (sumn_term f n b); lia|].
  destruct (Nat.eq_dec b n) as [->|Hnb]; [pose proof (sumn_term f n a); lia|].
  assert (f a + f b <= sumn f n) by (apply IHn; lia). lia.
Qed.

(* ---------------- counts over all threads / all deques ---------------- *)
(* occurrences of g among the fibers held by the threads 0..n-1 *)
Definition Hcn (th : nat -> tst) (n : nat) (g : nat) : nat := sumn (fun t => cnt (held (th t)) g) n.
(* occurrences of g in the deques 1..2n *)
Definition Qcn (dqs : nat -> list nat) (n : nat) (g : nat) : nat := sumn (fun i => cnt (dqs (S i)) g) (2 * n).

Lemma Hcn_upd th n t T' g : t < n ->
  Hcn (upd th t T') n g + cnt (held (th t)) g = Hcn th n g + cnt (held T') g.
Proof.
  intros H. unfold Hcn.
  pose proof (sumn_upd (fun t => cnt (held (th t)) g) n t (cnt (held T') g) H) as E. cbn beta in E.
  rewrite <- E. f_equal. apply sumn_ext. intros i Hi. unfold upd. destruct (Nat.eqb i t); reflexivity.
Qed.

Lemma Hcn_term th n t g : t < n -> cnt (held (th t)) g <= Hcn th n g.
Proof. intros H. unfold Hcn. apply (sumn_term (fun t => cnt (held (th t)) g) n t H). Qed.

Lemma Hcn_two th n t u g : t < n -> u < n -> t <> u ->
  cnt (held (th t)) g + cnt (held (th u)) g <= Hcn th n g.
Proof. intros. unfold Hcn. apply (sumn_two (fun t => cnt (held (th t)) g) n t u); auto. Qed.

Lemma Qcn_upd dqs n d l g : 1 <= d <= 2 * n ->
  Qcn (upd dqs d l) n g + cnt (dqs d) g = Qcn dqs n g + cnt l g.
Proof.
  intros H. unfold Qcn. destruct d as [|i]; [lia|].
  pose proof (sumn_upd (fun i => cnt (dqs (S i)) g) (2 * n) i (cnt l g)) as E. cbn beta in E.
  rewrite <- E by lia. f_equal. apply sumn_ext. intros j Hj. unfold upd. cbn [Nat.eqb].
  destruct (Nat.eqb j i); reflexivity.
Qed.

Lemma Qcn_term dqs n d g : 1 <= d <= 2 * n -> cnt (dqs d) g <= Qcn dqs n g.
Proof.
  intros H. unfold Qcn. destruct d as [|i]; [lia|].
  apply (sumn_term (fun i => cnt (dqs (S i)) g) (2 * n) i). lia.
Qed.

Lemma Qcn_two dqs n d e g : 1 <= d <= 2 * n -> 1 <= e <= 2 * n -> d <> e ->
  cnt (dqs d) g + cnt (dqs e) g <= Qcn dqs n g.
Proof.
  intros Hd He Hde. unfold Qcn. destruct d as [|i]; [lia|]. destruct e as [|j]; [lia|].
  apply (sumn_two (fun i => cnt (dqs (S i)) g) (2 * n) i j); lia.
Qed.

(* ---------------- the invariant ---------------- *)
Definition FqN (s : st) (t : nat) : list nat := dq s (sfrom s t).
Definition SqN (s : st) (t : nat) : list nat := dq s (4 * t + 3 - sfrom s t).

(* a current fiber: RUNNING, or WAITING (it blocked, or a late flip hit it) *)
Definition runN (s : st) (c : nat) : Prop := c = 0 \/ fstt s c = 1%Z \/ fstt s c = 3%Z.

Definition kokN (s : st) (c : nat) (k : kont) : Prop :=
  match k with
  | KYield stv => c <> 0 /\ (stv = 1 \/ stv = 3)%Z /\ (stv = 3%Z -> fstt s c = 3%Z) /\
                  (fstt s c = 1 \/ fstt s c = 3)%Z
  | KIdle => c = 0
  | _ => False
  end.

Definition klb (s : st) (c : nat) (k : kont) : Prop :=
  (k = KIdleLB /\ c = 0) \/ (k = KBalLB /\ runN s c).

(* what thread t knows at its pc; every clause is stable under the steps of the
   other threads (lok_stable) *)
Definition lokN (N : nat) (own : nat -> nat) (s : st) (t : nat) (T : tst) : Prop :=
  let c := cur T in
  match pc T with
  | PSpawnR f => runN s c /\ 1 <= f <= N /\ own f = t
  | PSpawnW f => runN s c /\ 1 <= f <= N /\ own f = t /\ fstt s f = 0%Z
  | PSched f k =>
      (2 <= fstt s f)%Z /\
      match k with
      | KSpawn _ | KWake _ => runN s c
      | KRequeue nf => c = f /\ c <> 0 /\ (fstt s nf = 1 \/ fstt s nf = 3)%Z
      | _ => False
      end
  | PBlockW | PYRead => c <> 0 /\ (fstt s c = 1 \/ fstt s c = 3)%Z
  | PN1 k | PN6 k | PN7 k => kokN s c k
  | PN2 k => kokN s c k /\ FqN s t = []
  | PN3 k tmp => kokN s c k /\ FqN s t = [] /\ tmp = sfrom s t
  | PN4 k tmp sv => kokN s c k /\ FqN s t = [] /\ tmp = sfrom s t /\ sv = 4 * t + 3 - sfrom s t
  | PN5 k tmp => kokN s c k /\ sto s t = sfrom s t /\ tmp = 4 * t + 3 - sfrom s t
  | PN8 k x | PN9 k x => kokN s c k /\ (2 <= fstt s x)%Z
  | PY2 nf | PY3 nf => c <> 0 /\ (fstt s c = 1 \/ fstt s c = 3)%Z /\ hok s nf
  | PY4 nf ts => c <> 0 /\ hok s nf /\
                 ((ts = 0 /\ fstt s c = 3%Z) \/ (ts = c /\ (fstt s c = 2 \/ fstt s c = 3)%Z))
  | PL1 k => klb s c k
  | PL2 k i _ _ _ x => klb s c k /\ (2 <= fstt s x)%Z /\ 2 * (t + 1) <= i
  | PI1 nf => c = 0 /\ hok s nf
  | PW1 _ | PP1 _ | PF1 _ => runN s c
  | PW2 f | PP2 f => runN s c /\ fstt s f = 3%Z
  | PF2 f => runN s c /\ (1 <= fstt s f)%Z
  | Fin => runN s c
  end.

(* thread t spawns only ids <= N that it owns *)
Definition prog_okN (N : nat) (own : nat -> nat) (t : nat) (p : list op) : Prop :=
  forall f, In (OSpawn f) p -> f <= N /\ own f = t.

(* per fiber, over all threads (H = held somewhere, Q = in some deque) *)
Record fibg (N : nat) (s : st) (f : nat) : Prop := {
  n_once : Hcn (thr s) (nthr s) f + Qcn (dq s) (nthr s) f <= 1;
  n_queued : 1 <= Qcn (dq s) (nthr s) f -> (2 <= fstt s f)%Z;
  n_held : 1 <= Hcn (thr s) (nthr s) f -> (1 <= fstt s f)%Z;
  n_placed : (1 <= fstt s f)%Z -> wqz s f = 0%Z -> 1 <= Hcn (thr s) (nthr s) f + Qcn (dq s) (nthr s) f;
  n_wq : wqz s f = 1%Z -> fstt s f = 3%Z /\ Hcn (thr s) (nthr s) f + Qcn (dq s) (nthr s) f = 0;
  n_wb : (0 <= wqz s f <= 1)%Z;
  n_state : (0 <= fstt s f <= 5 /\ fstt s f <> 4)%Z;
  n_range : fstt s f <> 0%Z -> 1 <= f <= N
}.

Record InvN (N : nat) (own : nat -> nat) (s : st) : Prop := {
  m_ts : to_store s = true;
  m_from : forall t, t < nthr s -> sfrom s t = 2 * t + 1 \/ sfrom s t = 2 * t + 2;
  m_to : forall t, t < nthr s -> (forall k tmp, pc (thr s t) <> PN5 k tmp) -> sto s t = 4 * t + 3 - sfrom s t;
  m_fib : forall f, fibg N s f;
  m_prog : forall t, t < nthr s -> prog_okN N own t (prog (thr s t));
  m_loc : forall t, t < nthr s -> lokN N own s t (thr s t)
}.

(* ---------------- stability of a thread's local knowledge ---------------- *)
(* fs' differs from fs, as far as thread state T can tell, only by flips *)
Definition keeps (fs fs' : nat -> Z) (T : tst) : Prop :=
  (forall y, In y (held T) -> fs' y = fs y \/ (fs' y = 3%Z /\ (1 <= fs y)%Z)) /\
  (forall f, pc T = PSpawnW f -> fs' f = fs f) /\
  (forall f, pc T = PF2 f -> (1 <= fs' f)%Z).

Lemma lok_stable N own s s' t T :
  keeps (fstt s) (fstt s') T ->
  sfrom s' t = sfrom s t -> sto s' t = sto s t ->
  (dq s (sfrom s t) = [] -> dq s' (sfrom s t) = []) ->
  lokN N own s t T -> lokN N own s' t T.
Proof.
  intros (Kh & Ks & Kf) Ef Et Eq L.
  unfold lokN, kokN, klb, runN, hok, FqN in *. rewrite ?Ef, ?Et.
  assert (Kc : cur T <> 0 -> In (cur T) (held T)).
  { intros Hc. unfold held. destruct (cur T) eqn:Ec; [congruence|].
    destruct (pc T); try destruct k; cbn [opt In]; auto. }
  assert (Kc' : cur T = 0 \/ fstt s' (cur T) = fstt s (cur T) \/ (fstt s' (cur T) = 3%Z /\ (1 <= fstt s (cur T))%Z)).
  { destruct (Nat.eq_dec (cur T) 0); auto. }
  clear Kc. unfold held in Kh.
  destruct (pc T) eqn:Hpc;
    try (specialize (Ks _ eq_refl)); try (specialize (Kf _ eq_refl));
    try (destruct k; try contradiction); cbn [In] in Kh;
    repeat match goal with
    | H : forall y, ?a = y \/ _ -> _ |- _ => pose proof (H a (or_introl eq_refl)); clear H
    end;
    try (intuition (try subst; try lia; try congruence); fail).
Qed.

(* every fiber a thread holds exists *)
Lemma held_existsN N own s t T f : lokN N own s t T -> In f (held T) -> (1 <= fstt s f)%Z.
Proof.
  intros L Hin. unfold lokN, held, kokN, klb, runN, hok in *.
  destruct (pc T); try (destruct k; try (exfalso; tauto));
    destruct (cur T) eqn:Ec; cbn [opt In] in Hin;
    intuition (try subst; try lia; try congruence).
Qed.

(* ---------------- the next call of the program ---------------- *)
Lemma start_specN N own s t : forall p c k, prog_okN N own t p -> runN s c ->
  let T' := snd (start t c p k) in
  cur T' = c /\ prog_okN N own t (prog T') /\ lokN N own s t T' /\ held T' = opt c /\ startpc (pc T').
Proof.
  induction p as [|o r IH]; intros c k Hp Hr; cbn [start].
  - cbn. split; [reflexivity|]. split; [intros f []|]. repeat split; auto.
  - assert (Hr' : prog_okN N own t r) by (intros f Hf; apply Hp; right; exact Hf).
    assert (Hrec : forall (e0 : list Z),
               let T' := snd (let '(e, T) := start t c r (S k) in (e0 ++ e, T)) in
               cur T' = c /\ prog_okN N own t (prog T') /\ lokN N own s t T' /\ held T' = opt c /\ startpc (pc T')).
    { intros e0. specialize (IH c (S k) Hr' Hr). destruct (start t c r (S k)) as [e T]. exact IH. }
    assert (Hpl : forall pc0, startpc pc0 -> held {| pc := pc0; cur := c; prog := r; opi := k |} = opt c).
    { intros pc0 H0. unfold held; cbn. destruct pc0; try reflexivity; destruct H0. }
    assert (Hgo : forall pc0, startpc pc0 -> lokN N own s t {| pc := pc0; cur := c; prog := r; opi := k |} ->
               let T' := {| pc := pc0; cur := c; prog := r; opi := k |} in
               cur T' = c /\ prog_okN N own t (prog T') /\ lokN N own s t T' /\ held T' = opt c /\ startpc (pc T')).
    { intros pc0 H0 H1. split; [reflexivity|]. split; [exact Hr'|]. split; [exact H1|]. split; [apply Hpl|]; exact H0. }
    assert (Hc13 : c <> 0 -> (fstt s c = 1 \/ fstt s c = 3)%Z) by (unfold runN in Hr; tauto).
    destruct o; cbn [snd].
    + unfold bad_id. destruct (Nat.eqb_spec f 0) as [E|E]; [apply Hrec|].
      destruct (Nat.ltb NF f); [apply Hrec|]. cbn [orb snd]. apply Hgo; [exact I|].
      unfold lokN; cbn. destruct (Hp f (or_introl eq_refl)). split; auto. split; [lia|auto].
    + destruct (Nat.eqb_spec c 0) as [E|E]; [apply Hrec|]. apply Hgo; [exact I|]. unfold lokN; cbn. auto.
    + destruct (Nat.eqb_spec c 0) as [E|E]; [apply Hrec|]. apply Hgo; [exact I|]. unfold lokN; cbn. auto.
    + destruct (Nat.eqb_spec c 0) as [E|E]; [|apply Hrec]. apply Hgo; [exact I|]. unfold lokN, klb; cbn. auto.
    + destruct (bad_id f); [apply Hrec|]. apply Hgo; [exact I|]. unfold lokN; cbn. auto.
    + apply Hgo; [exact I|]. unfold lokN, klb; cbn. auto.
    + destruct (bad_id f); [apply Hrec|]. apply Hgo; [exact I|]. unfold lokN; cbn. auto.
    + destruct (bad_id f); [apply Hrec|]. apply Hgo; [exact I|]. unfold lokN; cbn. auto.
Qed.

Lemma finish_specN N own s t T c v : prog_okN N own t (prog T) -> runN s c ->
  let T' := snd (finish t T c v) in
  cur T' = c /\ prog_okN N own t (prog T') /\ lokN N own s t T' /\ held T' = opt c /\ startpc (pc T').
Proof.
  intros Hp Hr. unfold finish.
  pose proof (start_specN N own s t (prog T) c (S (opi T)) Hp Hr) as H.
  destruct (start t c (prog T) (S (opi T))) as [e T']. exact H.
Qed.


(* ---------------- what a write of thread t means for the others ---------------- *)
Lemma keeps_same N own s u T : lokN N own s u T -> keeps (fstt s) (fstt s) T.
Proof.
  intros L. split; [auto|]. split; [auto|]. intros f Hf. unfold lokN in L. rewrite Hf in L. tauto.
Qed.

(* t writes v >= 1 to a fiber z that it holds *)
Lemma keeps_held N own s t u z v : InvN N own s -> t < nthr s -> u < nthr s -> u <> t ->
  In z (held (thr s t)) -> (1 <= v)%Z -> keeps (fstt s) (upd (fstt s) z v) (thr s u).
Proof.
  intros I0 Ht Hu Hne Hz Hv. pose proof (m_loc N own s I0 u Hu) as Lu.
  pose proof (held_existsN N own s t _ z (m_loc N own s I0 t Ht) Hz) as Hz1.
  split; [|split].
  - intros y Hy. destruct (Nat.eq_dec y z) as [->|E]; [|left; apply upd_other; auto].
    exfalso. apply cnt_In in Hz. apply cnt_In in Hy.
    pose proof (Hcn_two (thr s) (nthr s) t u z Ht Hu (not_eq_sym Hne)).
    pose proof (n_once N s z (m_fib N own s I0 z)). lia.
  - intros f Hf. unfold lokN in Lu. rewrite Hf in Lu.
    destruct (Nat.eq_dec f z) as [->|E]; [lia|apply upd_other; auto].
  - intros f Hf. unfold lokN in Lu. rewrite Hf in Lu. unfold upd. destruct (Nat.eqb f z); lia.
Qed.

(* t, at PSpawnW z, writes to the fresh fiber z that it owns *)
Lemma keeps_spawn N own s t u z v : InvN N own s -> t < nthr s -> u < nthr s -> u <> t ->
  pc (thr s t) = PSpawnW z -> (1 <= v)%Z -> keeps (fstt s) (upd (fstt s) z v) (thr s u).
Proof.
  intros I0 Ht Hu Hne Hz Hv. pose proof (m_loc N own s I0 u Hu) as Lu.
  pose proof (m_loc N own s I0 t Ht) as Lt. unfold lokN in Lt. rewrite Hz in Lt.
  destruct Lt as (_ & _ & Hown & H0).
  split; [|split].
  - intros y Hy. destruct (Nat.eq_dec y z) as [->|E]; [|left; apply upd_other; auto].
    pose proof (held_existsN N own s u _ z Lu Hy). lia.
  - intros f Hf. unfold lokN in Lu. rewrite Hf in Lu.
    destruct (Nat.eq_dec f z) as [->|E]; [exfalso; lia|apply upd_other; auto].
  - intros f Hf. unfold lokN in Lu. rewrite Hf in Lu. unfold upd. destruct (Nat.eqb f z); lia.
Qed.

(* a flip: WAITING is written to an existing fiber *)
Lemma keeps_flip N own s u z : InvN N own s -> u < nthr s ->
  (1 <= fstt s z)%Z -> keeps (fstt s) (upd (fstt s) z 3%Z) (thr s u).
Proof.
  intros I0 Hu Hz. pose proof (m_loc N own s I0 u Hu) as Lu.
  split; [|split].
  - intros y Hy. destruct (Nat.eq_dec y z) as [->|E]; [right; rewrite upd_same; auto|left; apply upd_other; auto].
  - intros f Hf. unfold lokN in Lu. rewrite Hf in Lu.
    destruct (Nat.eq_dec f z) as [->|E]; [exfalso; lia|apply upd_other; auto].
  - intros f Hf. unfold lokN in Lu. rewrite Hf in Lu. unfold upd. destruct (Nat.eqb f z); lia.
Qed.

(* the deques of thread u are not those of thread t *)
Lemma dq_other N own s t u : InvN N own s -> t < nthr s -> u < nthr s -> u <> t ->
  sfrom s u <> 2 * t + 1 /\ sfrom s u <> 2 * t + 2 /\ 1 <= sfrom s u <= 2 * nthr s.
Proof. intros I0 Ht Hu Hne. destruct (m_from N own s I0 u Hu); lia. Qed.

(* rebuilding the invariant after a step of thread t *)
Lemma invN_mk N own s t s' T' :
  InvN N own s -> t < nthr s ->
  nthr s' = nthr s -> to_store s' = true -> thr s' = upd (thr s) t T' ->
  (forall u, u <> t -> u < nthr s ->
     sfrom s' u = sfrom s u /\ sto s' u = sto s u /\
     (dq s (sfrom s u) = [] -> dq s' (sfrom s u) = []) /\
     keeps (fstt s) (fstt s') (thr s u)) ->
  (sfrom s' t = 2 * t + 1 \/ sfrom s' t = 2 * t + 2) ->
  ((forall k tmp, pc T' <> PN5 k tmp) -> sto s' t = 4 * t + 3 - sfrom s' t) ->
  (forall f, fibg N s' f) -> prog_okN N own t (prog T') -> lokN N own s' t T' ->
  InvN N own s'.
Proof.
  intros I0 Ht En Ets Eth Hoth Hfr Hto Hfib Hp Hl.
  constructor; auto; rewrite ?En; intros u Hu; rewrite ?Eth.
  - destruct (Nat.eq_dec u t) as [->|E]; [auto|]. destruct (Hoth u E Hu) as (A & _). rewrite A. apply (m_from N own s I0 u Hu).
  - destruct (Nat.eq_dec u t) as [->|E]; [rewrite upd_same; auto|]. rewrite upd_other by auto.
    destruct (Hoth u E Hu) as (A & B & _). rewrite A, B. apply (m_to N own s I0 u Hu).
  - destruct (Nat.eq_dec u t) as [->|E]; [rewrite upd_same; auto|]. rewrite upd_other by auto.
    apply (m_prog N own s I0 u Hu).
  - destruct (Nat.eq_dec u t) as [->|E]; [rewrite upd_same; auto|]. rewrite upd_other by auto.
    destruct (Hoth u E Hu) as (A & B & C & D).
    apply (lok_stable N own s s' u _ D A B C). apply (m_loc N own s I0 u Hu).
Qed.

(* ---------------- load_balance: the scan steals at most one fiber per step,
   from the far end of a deque of another thread ---------------- *)
Lemma lb_scan_spec : forall fuel dqs n i iend lc ms rc dqs' r,
  lb_scan fuel dqs n i iend lc ms rc = (dqs', r) ->
  (r = None /\ dqs' = dqs) \/
  (exists i' lc' rc' ms' x l,
     r = Some (i', lc', rc', ms', x) /\ i <= i' < iend /\
     dqs (qid (i' mod (2 * n))) = l ++ [x] /\ dqs' = upd dqs (qid (i' mod (2 * n))) l).
Proof.
  induction fuel as [|fu IH]; intros dqs n i iend lc ms rc dqs' r H; cbn [lb_scan] in H.
  - inversion H; auto.
  - destruct (Nat.leb_spec iend i) as [Hle|Hlt]; [inversion H; auto|].
    assert (Hrec : forall rc0, lb_scan fu dqs n (S i) iend lc ms rc0 = (dqs', r) ->
              (r = None /\ dqs' = dqs) \/
              (exists i' lc' rc' ms' x l,
                 r = Some (i', lc', rc', ms', x) /\ i <= i' < iend /\
                 dqs (qid (i' mod (2 * n))) = l ++ [x] /\ dqs' = upd dqs (qid (i' mod (2 * n))) l)).
    { intros rc0 H0. destruct (IH _ _ _ _ _ _ _ _ _ H0) as [A|(i' & lc' & rc' & ms' & x & l & A & B & C & D)]; auto.
      right. exists i', lc', rc', ms', x, l. repeat split; auto; lia. }
    destruct (_ && _) in H; [|apply (Hrec _ H)].
    destruct (rev (dqs (qid (i mod (2 * n))))) as [|x rest] eqn:Er; [apply (Hrec _ H)|].
    inversion H; subst. right.
    exists i, lc, (match rc with Some r0 => r0 | None => length (dqs (qid (i mod (2 * n)))) end), ms, x, (rev rest).
    repeat split; auto; try lia.
    rewrite <- (rev_involutive (dqs (qid (i mod (2 * n))))), Er. reflexivity.
Qed.

(* the scanned deque is one of another thread *)
Lemma scan_deque t n i : t < n -> 2 * (t + 1) <= i < lb_iend t n ->
  1 <= qid (i mod (2 * n)) <= 2 * n /\ qid (i mod (2 * n)) <> 2 * t + 1 /\ qid (i mod (2 * n)) <> 2 * t + 2.
Proof.
  intros Ht [Hlo Hhi]. unfold lb_iend in Hhi. unfold qid.
  assert (Hn : 2 * n <> 0) by lia.
  pose proof (Nat.mod_upper_bound i (2 * n) Hn) as Hm.
  destruct (Nat.lt_ge_cases i (2 * n)) as [Hs|Hb].
  - rewrite Nat.mod_small by auto. lia.
  - assert (E : i mod (2 * n) = i - 2 * n).
    { replace i with ((i - 2 * n) + 1 * (2 * n)) at 1 by lia. rewrite Nat.mod_add by auto.
      apply Nat.mod_small. lia. }
    rewrite E. lia.
Qed.

(* projections of the states built by step *)
Lemma T0N_set_thr s t T' : thr (set_thr s t T') = upd (thr s) t T'. Proof. reflexivity. Qed.

Ltac neqN :=
  repeat match goal with
  | H : context [Nat.eqb ?a ?b] |- _ =>
      let E := fresh "E" in destruct (Nat.eqb_spec a b) as [E|E]; [try (is_var a; subst a); try (is_var b; subst b)|]
  | |- context [Nat.eqb ?a ?b] =>
      let E := fresh "E" in destruct (Nat.eqb_spec a b) as [E|E]; [try (is_var a; subst a); try (is_var b; subst b)|]
  end.

(* ---------------- one step of thread t preserves the invariant ---------------- *)
(* obligations of invN_mk about the other threads, for the usual shapes of the new state *)
Ltac oth_tac I0 Ht K :=
  let u := fresh "u" in let Hne := fresh "Hne" in let Hu := fresh "Hu" in
  intros u Hne Hu;
  let D := fresh "D" in pose proof (dq_other _ _ _ _ u I0 Ht Hu Hne) as D;
  split; [cbn [sfrom set_thr set_fs set_wq set_dq set_from set_to]; rewrite ?upd_other by auto; reflexivity|];
  split; [cbn [sto set_thr set_fs set_wq set_dq set_from set_to]; rewrite ?upd_other by auto; reflexivity|];
  split; [cbn [dq set_thr set_fs set_wq set_dq set_from set_to]; rewrite ?upd_other by lia; auto|];
  cbn [fstt set_thr set_fs set_wq set_dq set_from set_to]; K u Hne Hu.

Ltac hcn_eq Ht :=
  match goal with
  | |- fibg _ (set_thr ?S1 ?t ?T') ?g =>
      let E := fresh "EH" in pose proof (Hcn_upd (thr S1) (nthr S1) t T' g Ht) as E;
      let E' := fresh "ET" in pose proof (Hcn_term (thr S1) (nthr S1) t g Ht) as E';
      cbn [thr nthr set_thr set_fs set_wq set_dq set_from set_to] in E, E'
  end.
Ltac qcn_eq :=
  repeat match goal with
  | |- context [Qcn (upd ?dqs ?d ?l) ?n ?g] =>
      lazymatch goal with
      | _ : Qcn (upd dqs d l) n g + _ = _ |- _ => fail
      | _ => let E := fresh "EQ" in
             assert (E : Qcn (upd dqs d l) n g + cnt (dqs d) g = Qcn dqs n g + cnt l g)
               by (apply Qcn_upd; cbn [nthr]; lia)
      end
  end.

(* the per-fiber goal after a step: pose the count equations, expand, decide *)
Ltac fibN2 Hfib Ht Hh Hh' g :=
  let H := fresh "Hg" in pose proof (Hfib g) as H; destruct H;
  try hcn_eq Ht; try rewrite Hh in *; try rewrite Hh' in *;
  constructor;
  rewrite ?wqz_set_thr, ?wqz_set_wq, ?wqz_set_fs, ?wqz_set_dq, ?wqz_set_from, ?wqz_set_to;
  cbn [thr nthr dq fstt set_thr set_fs set_wq set_dq set_from set_to];
  qcn_eq;
  unfold runN, kokN, klb, hok in *;
  repeat match goal with H : context [held] |- _ => progress (unfold held in H; cbn [pc cur with_pc] in H) end;
  cbn [cnt] in *; rewrite ?cnt_opt in *; unfold upd in *; neqN; cbv iota in *; try lia.

Ltac fibN Hfib Ht Hh g := fibN2 Hfib Ht Hh I g.
Ltac mkN N own s t I0 Ht :=
  match goal with |- InvN _ _ (set_thr _ _ ?T') => apply (invN_mk N own s t _ T' I0 Ht) end.

Section StepN.
  Variables (N : nat) (own : nat -> nat) (s : st) (t : nat).
  Hypothesis I0 : InvN N own s.
  Hypothesis Ht : t < nthr s.

  Let Hts := m_ts N own s I0.
  Let Hfrom := m_from N own s I0 t Ht.
  Let Hfib := m_fib N own s I0.
  Let Hprog := m_prog N own s I0 t Ht.
  Let Hloc := m_loc N own s I0 t Ht.

  Lemma Hto' : (forall k tmp, pc (thr s t) <> PN5 k tmp) -> sto s t = 4 * t + 3 - sfrom s t.
  Proof. apply (m_to N own s I0 t Ht). Qed.

  (* the step only changes the stepping thread's record (and nothing the others can see) *)
  Lemma inv_thr_only T' :
    (forall k tmp, pc T' <> PN5 k tmp) -> (forall k tmp, pc (thr s t) <> PN5 k tmp) ->
    held T' = held (thr s t) -> prog_okN N own t (prog T') -> lokN N own s t T' ->
    InvN N own (set_thr s t T').
  Proof.
    intros Hn5 Hn5' Hh Hp Hl.
    apply (invN_mk N own s t (set_thr s t T') T' I0 Ht); auto.
    - oth_tac I0 Ht ltac:(fun u Hne Hu => apply (keeps_same N own s u (thr s u)); apply (m_loc N own s I0 u Hu)).
    - intros _. apply Hto'; auto.
    - intros g. pose proof (Hfib g) as []. constructor;
        cbn [thr nthr dq fstt set_thr]; rewrite ?wqz_set_thr; auto;
        pose proof (Hcn_upd (thr s) (nthr s) t T' g Ht) as E; rewrite Hh in E;
        try (intros; lia); lia.
  Qed.

  (* ... and the call finishes: the thread starts its next call with current fiber c *)
  Lemma inv_finish_only c v :
    (forall k tmp, pc (thr s t) <> PN5 k tmp) ->
    held (thr s t) = opt c -> runN s c ->
    InvN N own (set_thr s t (snd (finish t (thr s t) c v))).
  Proof.
    intros Hn5 Hh Hr.
    destruct (finish_specN N own s t (thr s t) c v Hprog Hr) as (Hc & Hp' & Hl & Hh' & Hs).
    apply inv_thr_only; auto.
    - apply startpc_not_PN5; auto.
    - congruence.
  Qed.

  Lemma stepN_PSpawnR f : pc (thr s t) = PSpawnR f -> InvN N own (fst (step s t)).
  Proof.
    intros Hpc. unfold step. rewrite Hpc.
    pose proof Hloc as L. unfold lokN in L. rewrite Hpc in L. destruct L as (Hr & Hf & Ho).
    assert (Hh : held (thr s t) = opt (cur (thr s t))) by (unfold held; rewrite Hpc; reflexivity).
    destruct (Z.eqb_spec (fstt s f) 0) as [E|E].
    - cbn [fst]. apply inv_thr_only; auto; try (rewrite Hpc; discriminate); try discriminate.
      unfold lokN; cbn. auto.
    - rewrite fst_let_finish. apply inv_finish_only; auto. rewrite Hpc; discriminate.
  Qed.

  Lemma stepN_PSpawnW f : pc (thr s t) = PSpawnW f -> InvN N own (fst (step s t)).
  Proof.
    intros Hpc. unfold step. rewrite Hpc. cbn [fst].
    pose proof Hloc as L. unfold lokN in L. rewrite Hpc in L. destruct L as (Hr & Hf & Ho & Hz).
    assert (Hh : held (thr s t) = opt (cur (thr s t))) by (unfold held; rewrite Hpc; reflexivity).
    mkN N own s t I0 Ht; [reflexivity|exact Hts|reflexivity| |exact Hfrom| | |exact Hprog|].
    - oth_tac I0 Ht ltac:(fun u Hne Hu => apply (keeps_spawn N own s t u f 2%Z I0 Ht Hu Hne Hpc); lia).
    - intros _. apply Hto'. rewrite Hpc; discriminate.
    - intros g. fibN Hfib Ht Hh g.
    - unfold lokN, runN in *; cbn. rewrite upd_same. split; [lia|].
      destruct Hr as [Hr|Hr]; auto. right. rewrite upd_other; auto. intros E; rewrite E in *; lia.
  Qed.

  Lemma own_dq : 1 <= sfrom s t <= 2 * nthr s /\ 1 <= 4 * t + 3 - sfrom s t <= 2 * nthr s /\
                 sfrom s t <> 4 * t + 3 - sfrom s t.
  Proof. destruct Hfrom; lia. Qed.

  Lemma stepN_PSched f k : pc (thr s t) = PSched f k -> InvN N own (fst (step s t)).
  Proof.
    intros Hpc. unfold step. rewrite Hpc. rewrite Hts.
    assert (Hto : sto s t = 4 * t + 3 - sfrom s t) by (apply Hto'; rewrite Hpc; discriminate).
    rewrite Hto. pose proof own_dq as (D1 & D2 & D3).
    pose proof Hloc as L. unfold lokN in L. rewrite Hpc in L. destruct L as (Hf2 & Hk).
    set (d := 4 * t + 3 - sfrom s t) in *.
    assert (Hfin : forall c v h, runN s c -> held (thr s t) = h -> cnt h f = 1 ->
              (forall g, g <> f -> cnt h g = cnt (opt c) g) -> cnt (opt c) f = 0 ->
              InvN N own (set_thr (set_dq s d (f :: dq s d)) t (snd (finish t (thr s t) c v)))).
    { intros c v h Hr Hh Hhf Hhg Hcf.
      destruct (finish_specN N own (set_dq s d (f :: dq s d)) t (thr s t) c v Hprog Hr) as (Hc & Hp' & Hl & Hh' & Hs).
      mkN N own s t I0 Ht; [reflexivity|exact Hts|reflexivity| |exact Hfrom| | |exact Hp'|exact Hl].
      - oth_tac I0 Ht ltac:(fun u Hne Hu => apply (keeps_same N own s u (thr s u)); apply (m_loc N own s I0 u Hu)).
      - intros _. exact Hto.
      - intros g. specialize (Hhg g). fibN2 Hfib Ht Hh Hh' g. }
    assert (Hone : cnt (held (thr s t)) f <= 1).
    { pose proof (Hcn_term (thr s) (nthr s) t f Ht). pose proof (n_once N s f (Hfib f)). lia. }
    assert (Hhd : held (thr s t) = match k with KRequeue nf => nf :: opt (cur (thr s t)) | _ => f :: opt (cur (thr s t)) end).
    { unfold held. rewrite Hpc. reflexivity. }
    destruct k; try contradiction; rewrite fst_let_finish.
    - apply (Hfin _ _ _ Hk Hhd); rewrite Hhd in Hone; cbn [cnt] in *; rewrite ?Nat.eqb_refl in *; try lia.
      intros g Hg. rewrite (proj2 (Nat.eqb_neq f g)) by auto. lia.
    - destruct Hk as (Hc & Hc0 & Hnf). rewrite Hc in *.
      assert (Hnf0 : nf <> 0).
      { intros E. pose proof (n_range N s nf (Hfib nf)). subst nf. lia. }
      assert (Hne : nf <> f).
      { intros E. rewrite Hhd in Hone. cbn [cnt] in Hone. rewrite cnt_opt, E, !Nat.eqb_refl in Hone.
        destruct (Nat.eqb_spec f 0); lia. }
      apply (Hfin nf _ _ (or_intror Hnf) Hhd); cbn [cnt]; rewrite ?cnt_opt.
      + rewrite Nat.eqb_refl. destruct (Nat.eqb_spec nf f); destruct (Nat.eqb_spec f 0); lia.
      + intros g Hg. rewrite !cnt_opt. destruct (Nat.eqb_spec nf g); destruct (Nat.eqb_spec f 0); destruct (Nat.eqb_spec f g);
          destruct (Nat.eqb_spec nf 0); try lia; congruence.
      + destruct (Nat.eqb_spec nf 0); destruct (Nat.eqb_spec nf f); lia.
    - apply (Hfin _ _ _ Hk Hhd); rewrite Hhd in Hone; cbn [cnt] in *; rewrite ?Nat.eqb_refl in *; try lia.
      intros g Hg. rewrite (proj2 (Nat.eqb_neq f g)) by auto. lia.
  Qed.

  (* thread t writes v to a fiber z that it holds and moves to pc P (same held fibers) *)
  Lemma inv_write_held z v T' :
    In z (held (thr s t)) -> (v = 1 \/ v = 2 \/ v = 3 \/ v = 5)%Z ->
    held T' = held (thr s t) ->
    (forall k tmp, pc T' <> PN5 k tmp) -> (forall k tmp, pc (thr s t) <> PN5 k tmp) ->
    prog_okN N own t (prog T') -> lokN N own (set_fs s z v) t T' ->
    InvN N own (set_thr (set_fs s z v) t T').
  Proof.
    intros Hz Hv Hh Hn5 Hn5' Hp Hl.
    mkN N own s t I0 Ht; [reflexivity|exact Hts|reflexivity| |exact Hfrom| | |exact Hp|exact Hl].
    - oth_tac I0 Ht ltac:(fun u Hne Hu => apply (keeps_held N own s t u z v I0 Ht Hu Hne Hz); lia).
    - intros _. apply Hto'; auto.
    - intros g. pose proof (Hfib g) as []. pose proof (Hfib z) as [].
      apply cnt_In in Hz. pose proof (Hcn_term (thr s) (nthr s) t z Ht).
      pose proof (Hcn_upd (thr s) (nthr s) t T' g Ht) as E. rewrite Hh in E.
      constructor; rewrite ?wqz_set_thr, ?wqz_set_fs; cbn [thr nthr dq fstt set_thr set_fs];
        unfold upd in *; destruct (Nat.eqb_spec g z); try subst g; try lia.
  Qed.

  Lemma stepN_PBlockW : pc (thr s t) = PBlockW -> InvN N own (fst (step s t)).
  Proof.
    intros Hpc. unfold step. rewrite Hpc. cbn [fst].
    pose proof Hloc as L. unfold lokN in L. rewrite Hpc in L. destruct L as (Hc & H13).
    assert (Hin : In (cur (thr s t)) (held (thr s t))).
    { unfold held. rewrite Hpc. destruct (cur (thr s t)); [congruence|left; reflexivity]. }
    apply inv_write_held; auto; try (rewrite Hpc; discriminate); try discriminate.
    - unfold held. rewrite Hpc. reflexivity.
    - unfold lokN; cbn. rewrite upd_same. auto.
  Qed.

  Lemma stepN_PYRead : pc (thr s t) = PYRead -> InvN N own (fst (step s t)).
  Proof.
    intros Hpc. unfold step. rewrite Hpc. cbn [fst].
    pose proof Hloc as L. unfold lokN in L. rewrite Hpc in L. destruct L as (Hc & H13).
    apply inv_thr_only; auto; try (rewrite Hpc; discriminate); try discriminate.
    - unfold held. rewrite Hpc. reflexivity.
    - unfold lokN, kokN; cbn. intuition lia.
  Qed.

  Lemma stepN_PN1 k : pc (thr s t) = PN1 k -> InvN N own (fst (step s t)).
  Proof.
    intros Hpc. unfold step. rewrite Hpc.
    pose proof Hloc as L. unfold lokN in L. rewrite Hpc in L.
    destruct (dq s (sfrom s t)) eqn:EF; cbn [fst];
      (apply inv_thr_only; auto; try (rewrite Hpc; discriminate); try discriminate;
       try (unfold held; rewrite Hpc; reflexivity); unfold lokN; cbn; auto).
  Qed.

  Lemma stepN_PN2 k : pc (thr s t) = PN2 k -> InvN N own (fst (step s t)).
  Proof.
    intros Hpc. unfold step. rewrite Hpc. cbn [fst].
    pose proof Hloc as L. unfold lokN in L. rewrite Hpc in L.
    apply inv_thr_only; auto; try (rewrite Hpc; discriminate); try discriminate.
    - unfold held. rewrite Hpc. reflexivity.
    - unfold lokN; cbn. tauto.
  Qed.

  Lemma stepN_PN3 k tmp : pc (thr s t) = PN3 k tmp -> InvN N own (fst (step s t)).
  Proof.
    intros Hpc. unfold step. rewrite Hpc. cbn [fst].
    pose proof Hloc as L. unfold lokN in L. rewrite Hpc in L.
    assert (Hto : sto s t = 4 * t + 3 - sfrom s t) by (apply Hto'; rewrite Hpc; discriminate).
    apply inv_thr_only; auto; try (rewrite Hpc; discriminate); try discriminate.
    - unfold held. rewrite Hpc. reflexivity.
    - unfold lokN; cbn. tauto.
  Qed.

  Lemma stepN_PN4 k tmp sv : pc (thr s t) = PN4 k tmp sv -> InvN N own (fst (step s t)).
  Proof.
    intros Hpc. unfold step. rewrite Hpc. cbn [fst].
    pose proof Hloc as L. unfold lokN in L. rewrite Hpc in L. destruct L as (Hk & HF & Htmp & Hsv).
    assert (Hto : sto s t = 4 * t + 3 - sfrom s t) by (apply Hto'; rewrite Hpc; discriminate).
    assert (Hh : held (thr s t) = opt (cur (thr s t))) by (unfold held; rewrite Hpc; reflexivity).
    mkN N own s t I0 Ht; [reflexivity|exact Hts|reflexivity| | | | |exact Hprog|].
    - oth_tac I0 Ht ltac:(fun u Hne Hu => apply (keeps_same N own s u (thr s u)); apply (m_loc N own s I0 u Hu)).
    - cbn [sfrom set_thr set_from]. rewrite upd_same. destruct Hfrom; lia.
    - intros H. exfalso. eapply H. reflexivity.
    - intros g. fibN Hfib Ht Hh g.
    - unfold lokN, kokN in *; cbn [pc cur with_pc sto sfrom set_from set_thr fstt]. rewrite upd_same.
      split; [exact Hk|]. destruct Hfrom; lia.
  Qed.

  Lemma stepN_PN5 k tmp : pc (thr s t) = PN5 k tmp -> InvN N own (fst (step s t)).
  Proof.
    intros Hpc. unfold step. rewrite Hpc. cbn [fst].
    pose proof Hloc as L. unfold lokN in L. rewrite Hpc in L. destruct L as (Hk & Hst & Htmp).
    assert (Hh : held (thr s t) = opt (cur (thr s t))) by (unfold held; rewrite Hpc; reflexivity).
    mkN N own s t I0 Ht; [reflexivity|exact Hts|reflexivity| |exact Hfrom| | |exact Hprog|].
    - oth_tac I0 Ht ltac:(fun u Hne Hu => apply (keeps_same N own s u (thr s u)); apply (m_loc N own s I0 u Hu)).
    - intros _. cbn [sto sfrom set_thr set_to]. rewrite upd_same. exact Htmp.
    - intros g. fibN Hfib Ht Hh g.
    - unfold lokN; cbn. exact Hk.
  Qed.

  Lemma stepN_PN6 k : pc (thr s t) = PN6 k -> InvN N own (fst (step s t)).
  Proof.
    intros Hpc. unfold step. rewrite Hpc.
    pose proof Hloc as L. unfold lokN in L. rewrite Hpc in L.
    assert (Hn5 : forall k0 tmp, pc (thr s t) <> PN5 k0 tmp) by (rewrite Hpc; discriminate).
    assert (Hh : held (thr s t) = opt (cur (thr s t))) by (unfold held; rewrite Hpc; reflexivity).
    destruct (dq s (sfrom s t)) eqn:EF.
    - unfold next_ret. destruct k; try contradiction.
      + destruct L as (Hc & H13 & H3 & Hc13).
        destruct (Z.eqb_spec st 3) as [E3|E3].
        * (* the blocked fiber is parked *)
          match goal with |- context [finish ?a ?b ?c ?d] => destruct (finish a b c d) as [e1 T1] eqn:EX end.
          cbn [fst]. replace T1 with (snd (finish t (thr s t) 0 (Zn 0))) by (rewrite EX; reflexivity).
          assert (Hr0 : runN (set_wq s (cur (thr s t)) true) 0) by (left; reflexivity).
          destruct (finish_specN N own (set_wq s (cur (thr s t)) true) t (thr s t) 0 (Zn 0) Hprog Hr0)
            as (Hc' & Hp' & Hl & Hh' & Hs).
          mkN N own s t I0 Ht; [reflexivity|exact Hts|reflexivity| |exact Hfrom| | |exact Hp'|exact Hl].
          -- oth_tac I0 Ht ltac:(fun u Hne Hu => apply (keeps_same N own s u (thr s u)); apply (m_loc N own s I0 u Hu)).
          -- intros _. apply Hto'; auto.
          -- intros g. specialize (H3 E3). fibN2 Hfib Ht Hh Hh' g.
        * match goal with |- context [finish ?a ?b ?c ?d] => destruct (finish a b c d) as [e1 T1] eqn:EX end.
          cbn [fst]. replace T1 with (snd (finish t (thr s t) (cur (thr s t)) (Zn (cur (thr s t))))) by (rewrite EX; reflexivity).
          apply inv_finish_only; auto; try (right; auto).
      + match goal with |- context [finish ?a ?b ?c ?d] => destruct (finish a b c d) as [e1 T1] eqn:EX end.
        cbn [fst]. replace T1 with (snd (finish t (thr s t) (cur (thr s t)) (Zn (cur (thr s t))))) by (rewrite EX; reflexivity).
        apply inv_finish_only; auto; try (left; exact L).
    - cbn [fst]. apply inv_thr_only; auto; try discriminate.
  Qed.

  Lemma stepN_PN7 k : pc (thr s t) = PN7 k -> InvN N own (fst (step s t)).
  Proof.
    intros Hpc. unfold step. rewrite Hpc.
    pose proof Hloc as L. unfold lokN in L. rewrite Hpc in L.
    assert (Hn5 : forall k0 tmp, pc (thr s t) <> PN5 k0 tmp) by (rewrite Hpc; discriminate).
    assert (Hh : held (thr s t) = opt (cur (thr s t))) by (unfold held; rewrite Hpc; reflexivity).
    pose proof own_dq as (D1 & D2 & D3).
    destruct (dq s (sfrom s t)) as [|x rest] eqn:EF.
    - cbn [fst]. apply inv_thr_only; auto; try discriminate.
    - cbn [fst].
      assert (Hx2 : (2 <= fstt s x)%Z).
      { apply (n_queued N s x (Hfib x)). pose proof (Qcn_term (dq s) (nthr s) (sfrom s t) x D1) as Hq.
        rewrite EF in Hq. cbn [cnt] in Hq. rewrite Nat.eqb_refl in Hq. lia. }
      mkN N own s t I0 Ht; [reflexivity|exact Hts|reflexivity| |exact Hfrom| | |exact Hprog|].
      + oth_tac I0 Ht ltac:(fun u Hne Hu => apply (keeps_same N own s u (thr s u)); apply (m_loc N own s I0 u Hu)).
      + intros _. apply Hto'; auto.
      + intros g. fibN Hfib Ht Hh g; rewrite EF in *; cbn [cnt] in *; neqN; lia.
      + unfold lokN; cbn. split; auto.
  Qed.

  Lemma stepN_PN8 k x : pc (thr s t) = PN8 k x -> InvN N own (fst (step s t)).
  Proof.
    intros Hpc. unfold step. rewrite Hpc.
    pose proof Hloc as L. unfold lokN in L. rewrite Hpc in L. destruct L as (Hk & Hx).
    assert (Hn5 : forall k0 tmp, pc (thr s t) <> PN5 k0 tmp) by (rewrite Hpc; discriminate).
    assert (Hh : held (thr s t) = x :: opt (cur (thr s t))) by (unfold held; rewrite Hpc; reflexivity).
    pose proof (n_state N s x (Hfib x)) as Hs. pose proof (n_range N s x (Hfib x)) as Hr.
    destruct (Z.eqb_spec (fstt s x) 5) as [E5|E5].
    - cbn [fst]. apply inv_thr_only; auto; try discriminate. unfold lokN; cbn. auto.
    - destruct x as [|x']; [lia|].
      unfold next_ret. destruct k; try contradiction; cbn [fst];
        (apply inv_thr_only; auto; try discriminate; unfold lokN, kokN, hok in *; cbn; intuition lia).
  Qed.

  Lemma stepN_PN9 k x : pc (thr s t) = PN9 k x -> InvN N own (fst (step s t)).
  Proof.
    intros Hpc. unfold step. rewrite Hpc. cbn [fst].
    pose proof Hloc as L. unfold lokN in L. rewrite Hpc in L. destruct L as (Hk & Hx).
    assert (Hto : sto s t = 4 * t + 3 - sfrom s t) by (apply Hto'; rewrite Hpc; discriminate).
    rewrite Hto. pose proof own_dq as (D1 & D2 & D3).
    assert (Hh : held (thr s t) = x :: opt (cur (thr s t))) by (unfold held; rewrite Hpc; reflexivity).
    mkN N own s t I0 Ht; [reflexivity|exact Hts|reflexivity| |exact Hfrom| | |exact Hprog|].
    - oth_tac I0 Ht ltac:(fun u Hne Hu => apply (keeps_same N own s u (thr s u)); apply (m_loc N own s I0 u Hu)).
    - intros _. exact Hto.
    - intros g. fibN Hfib Ht Hh g.
    - unfold lokN; cbn. exact Hk.
  Qed.

  Lemma stepN_PY2 nf : pc (thr s t) = PY2 nf -> InvN N own (fst (step s t)).
  Proof.
    intros Hpc. unfold step. rewrite Hpc.
    pose proof Hloc as L. unfold lokN in L. rewrite Hpc in L. destruct L as (Hc & H13 & Hnf).
    assert (Hn5 : forall k0 tmp, pc (thr s t) <> PN5 k0 tmp) by (rewrite Hpc; discriminate).
    assert (Hh : held (thr s t) = nf :: opt (cur (thr s t))) by (unfold held; rewrite Hpc; reflexivity).
    destruct (Z.eqb_spec (fstt s (cur (thr s t))) 1); cbn [fst];
      (apply inv_thr_only; auto; try discriminate; unfold lokN; cbn; intuition lia).
  Qed.

  Lemma cur_held : cur (thr s t) <> 0 -> In (cur (thr s t)) (held (thr s t)).
  Proof.
    intros Hc. unfold held. destruct (cur (thr s t)) eqn:Ec; [congruence|].
    destruct (pc (thr s t)); try destruct k; cbn [opt In]; auto.
  Qed.

  Lemma stepN_PY3 nf : pc (thr s t) = PY3 nf -> InvN N own (fst (step s t)).
  Proof.
    intros Hpc. unfold step. rewrite Hpc. cbn [fst].
    pose proof Hloc as L. unfold lokN in L. rewrite Hpc in L. destruct L as (Hc & H13 & Hnf).
    apply inv_write_held; auto; try (rewrite Hpc; discriminate); try discriminate.
    - apply cur_held; auto.
    - unfold held. rewrite Hpc. reflexivity.
    - unfold lokN, hok in *; cbn. rewrite upd_same. split; auto. split; [|right; auto].
      unfold upd. destruct (Nat.eqb nf (cur (thr s t))); auto.
  Qed.

  Lemma held_distinct a b l : held (thr s t) = a :: b :: l -> a <> b.
  Proof.
    intros Hh E. pose proof (Hcn_term (thr s) (nthr s) t a Ht) as H. pose proof (n_once N s a (Hfib a)).
    rewrite Hh in H. cbn [cnt] in H. rewrite <- E, !Nat.eqb_refl in H. lia.
  Qed.

  Lemma stepN_PY4 nf ts : pc (thr s t) = PY4 nf ts -> InvN N own (fst (step s t)).
  Proof.
    intros Hpc. unfold step. rewrite Hpc.
    pose proof Hloc as L. unfold lokN in L. rewrite Hpc in L. destruct L as (Hc & Hnf & Hts0).
    assert (Hn5 : forall k0 tmp, pc (thr s t) <> PN5 k0 tmp) by (rewrite Hpc; discriminate).
    assert (Hh : held (thr s t) = nf :: opt (cur (thr s t))) by (unfold held; rewrite Hpc; reflexivity).
    assert (Hne : nf <> cur (thr s t)).
    { destruct (cur (thr s t)) eqn:Ec; [congruence|]. apply (held_distinct _ _ [] Hh). }
    assert (Hin : In nf (held (thr s t))) by (rewrite Hh; left; reflexivity).
    destruct ts as [|ts'].
    - destruct Hts0 as [[_ H3]|[Habs _]]; [|congruence].
      rewrite fst_let_finish.
      assert (Hr : runN (set_wq (set_fs s nf 1) (cur (thr s t)) true) nf) by (right; left; cbn; apply upd_same).
      destruct (finish_specN N own _ t (thr s t) nf (Zn nf) Hprog Hr) as (Hc' & Hp' & Hl & Hh' & Hs).
      mkN N own s t I0 Ht; [reflexivity|exact Hts|reflexivity| |exact Hfrom| | |exact Hp'|exact Hl].
      + oth_tac I0 Ht ltac:(fun u Hne' Hu => apply (keeps_held N own s t u nf 1%Z I0 Ht Hu Hne' Hin); lia).
      + intros _. apply Hto'; auto.
      + intros g. unfold hok in Hnf. fibN2 Hfib Ht Hh Hh' g.
    - destruct Hts0 as [[Habs _]|[Hts1 H2]]; [discriminate|]. cbn [fst].
      apply inv_write_held; auto; try discriminate.
      unfold lokN; cbn. rewrite upd_same, Hts1. rewrite upd_other by auto. repeat split; auto; lia.
  Qed.

  Lemma stepN_PI1 nf : pc (thr s t) = PI1 nf -> InvN N own (fst (step s t)).
  Proof.
    intros Hpc. unfold step. rewrite Hpc.
    pose proof Hloc as L. unfold lokN in L. rewrite Hpc in L. destruct L as (Hc & Hnf).
    assert (Hn5 : forall k0 tmp, pc (thr s t) <> PN5 k0 tmp) by (rewrite Hpc; discriminate).
    assert (Hh : held (thr s t) = nf :: opt (cur (thr s t))) by (unfold held; rewrite Hpc; reflexivity).
    assert (Hin : In nf (held (thr s t))) by (rewrite Hh; left; reflexivity).
    rewrite fst_let_finish.
    assert (Hr : runN (set_fs s nf 1) nf) by (right; left; cbn; apply upd_same).
    destruct (finish_specN N own _ t (thr s t) nf (Zn nf) Hprog Hr) as (Hc' & Hp' & Hl & Hh' & Hs).
    mkN N own s t I0 Ht; [reflexivity|exact Hts|reflexivity| |exact Hfrom| | |exact Hp'|exact Hl].
    - oth_tac I0 Ht ltac:(fun u Hne' Hu => apply (keeps_held N own s t u nf 1%Z I0 Ht Hu Hne' Hin); lia).
    - intros _. apply Hto'; auto.
    - intros g. unfold hok in Hnf. rewrite Hc in *. fibN2 Hfib Ht Hh Hh' g.
  Qed.

  (* wake / park-saving: the waker takes the parked fiber out of its wait queue *)
  Lemma inv_unpark f P : (P = PW2 f \/ P = PP2 f) ->
    held (thr s t) = opt (cur (thr s t)) -> (forall k0 tmp, pc (thr s t) <> PN5 k0 tmp) ->
    runN s (cur (thr s t)) -> fstt s f = 3%Z -> inwq s f = true ->
    InvN N own (set_thr (set_wq s f false) t (with_pc (thr s t) P)).
  Proof.
    intros HP Hh Hn5 Hr E3 Ew. apply wqz_true in Ew.
    mkN N own s t I0 Ht; [reflexivity|exact Hts|reflexivity| |exact Hfrom| | |exact Hprog|].
    - oth_tac I0 Ht ltac:(fun u Hne Hu => apply (keeps_same N own s u (thr s u)); apply (m_loc N own s I0 u Hu)).
    - intros _. apply Hto'; auto.
    - intros g. destruct HP as [-> | ->]; fibN Hfib Ht Hh g.
    - destruct HP as [-> | ->]; unfold lokN; cbn; auto.
  Qed.

  Lemma stepN_PW1 f : pc (thr s t) = PW1 f -> InvN N own (fst (step s t)).
  Proof.
    intros Hpc. unfold step. rewrite Hpc.
    pose proof Hloc as L. unfold lokN in L. rewrite Hpc in L.
    assert (Hn5 : forall k0 tmp, pc (thr s t) <> PN5 k0 tmp) by (rewrite Hpc; discriminate).
    assert (Hh : held (thr s t) = opt (cur (thr s t))) by (unfold held; rewrite Hpc; reflexivity).
    destruct (Z.eqb_spec (fstt s f) 3) as [E3|E3]; destruct (inwq s f) eqn:Ew; cbn [andb];
      try (rewrite fst_let_finish; apply inv_finish_only; auto; fail).
    cbn [fst]. apply inv_unpark; auto.
  Qed.

  Lemma stepN_PP1 f : pc (thr s t) = PP1 f -> InvN N own (fst (step s t)).
  Proof.
    intros Hpc. unfold step. rewrite Hpc.
    pose proof Hloc as L. unfold lokN in L. rewrite Hpc in L.
    assert (Hn5 : forall k0 tmp, pc (thr s t) <> PN5 k0 tmp) by (rewrite Hpc; discriminate).
    assert (Hh : held (thr s t) = opt (cur (thr s t))) by (unfold held; rewrite Hpc; reflexivity).
    destruct (Z.eqb_spec (fstt s f) 3) as [E3|E3]; destruct (inwq s f) eqn:Ew; cbn [andb];
      try (rewrite fst_let_finish; apply inv_finish_only; auto; fail).
    cbn [fst]. apply inv_unpark; auto.
  Qed.

  Lemma stepN_PW2 f : pc (thr s t) = PW2 f -> InvN N own (fst (step s t)).
  Proof.
    intros Hpc. unfold step. rewrite Hpc. cbn [fst].
    pose proof Hloc as L. unfold lokN in L. rewrite Hpc in L. destruct L as (Hr & H3).
    assert (Hh : held (thr s t) = f :: opt (cur (thr s t))) by (unfold held; rewrite Hpc; reflexivity).
    assert (Hne : cur (thr s t) <> f).
    { destruct (cur (thr s t)) eqn:Ec; [intros E; pose proof (n_range N s f (Hfib f)); lia|].
      intros E. apply (held_distinct _ _ [] Hh). auto. }
    apply inv_write_held; auto; try (rewrite Hpc; discriminate); try discriminate.
    - rewrite Hh. left; reflexivity.
    - unfold lokN, runN in *; cbn. rewrite upd_same. split; [lia|]. rewrite upd_other by auto. exact Hr.
  Qed.

  Lemma stepN_PP2 f : pc (thr s t) = PP2 f -> InvN N own (fst (step s t)).
  Proof.
    intros Hpc. unfold step. rewrite Hpc. cbn [fst].
    pose proof Hloc as L. unfold lokN in L. rewrite Hpc in L. destruct L as (Hr & H3).
    assert (Hh : held (thr s t) = f :: opt (cur (thr s t))) by (unfold held; rewrite Hpc; reflexivity).
    assert (Hne : cur (thr s t) <> f).
    { destruct (cur (thr s t)) eqn:Ec; [intros E; pose proof (n_range N s f (Hfib f)); lia|].
      intros E. apply (held_distinct _ _ [] Hh). auto. }
    apply inv_write_held; auto; try (rewrite Hpc; discriminate); try discriminate.
    - rewrite Hh. left; reflexivity.
    - unfold lokN, runN in *; cbn. rewrite upd_same. split; [lia|]. rewrite upd_other by auto. exact Hr.
  Qed.

  Lemma stepN_PF1 f : pc (thr s t) = PF1 f -> InvN N own (fst (step s t)).
  Proof.
    intros Hpc. unfold step. rewrite Hpc.
    pose proof Hloc as L. unfold lokN in L. rewrite Hpc in L.
    assert (Hn5 : forall k0 tmp, pc (thr s t) <> PN5 k0 tmp) by (rewrite Hpc; discriminate).
    assert (Hh : held (thr s t) = opt (cur (thr s t))) by (unfold held; rewrite Hpc; reflexivity).
    destruct (Z.eqb_spec (fstt s f) 5) as [E5|E5].
    - cbn [fst]. apply inv_thr_only; auto; try discriminate. unfold lokN; cbn. split; auto. lia.
    - rewrite fst_let_finish. apply inv_finish_only; auto.
  Qed.

  Lemma stepN_PF2 f : pc (thr s t) = PF2 f -> InvN N own (fst (step s t)).
  Proof.
    intros Hpc. unfold step. rewrite Hpc.
    pose proof Hloc as L. unfold lokN in L. rewrite Hpc in L. destruct L as (Hr & H1).
    assert (Hn5 : forall k0 tmp, pc (thr s t) <> PN5 k0 tmp) by (rewrite Hpc; discriminate).
    assert (Hh : held (thr s t) = opt (cur (thr s t))) by (unfold held; rewrite Hpc; reflexivity).
    rewrite fst_let_finish.
    assert (Hr' : runN (set_fs s f 3) (cur (thr s t))).
    { unfold runN in *. cbn [fstt set_fs]. unfold upd. destruct (Nat.eqb (cur (thr s t)) f); auto. }
    destruct (finish_specN N own _ t (thr s t) (cur (thr s t)) (Zn f) Hprog Hr') as (Hc' & Hp' & Hl & Hh' & Hs).
    mkN N own s t I0 Ht; [reflexivity|exact Hts|reflexivity| |exact Hfrom| | |exact Hp'|exact Hl].
    - oth_tac I0 Ht ltac:(fun u Hne Hu => apply (keeps_flip N own s u f I0 Hu H1)).
    - intros _. apply Hto'; auto.
    - intros g. fibN2 Hfib Ht Hh Hh' g.
  Qed.

  Lemma stepN_Fin : pc (thr s t) = Fin -> InvN N own (fst (step s t)).
  Proof. intros Hpc. unfold step. rewrite Hpc. exact I0. Qed.

  (* ---- load_balance ---- *)
  Lemma lb_ret_inv k dqs (S1 := {| dq := dqs; sfrom := sfrom s; sto := sto s; fstt := fstt s; inwq := inwq s;
                                   thr := thr s; nthr := nthr s; to_store := to_store s |}) :
    (forall k0 tmp, pc (thr s t) <> PN5 k0 tmp) -> klb s (cur (thr s t)) k ->
    (forall T', held T' = opt (cur (thr s t)) -> (forall k0 tmp, pc T' <> PN5 k0 tmp) ->
                prog_okN N own t (prog T') -> lokN N own S1 t T' -> InvN N own (set_thr S1 t T')) ->
    InvN N own (fst (lb_ret S1 t (thr s t) k)).
  Proof.
    intros Hn5 Hk Hmk. unfold lb_ret. destruct Hk as [[-> Hc]|[-> Hr]].
    - cbn [fst]. apply Hmk; try discriminate; auto;
        try (unfold held; cbn; rewrite Hc; reflexivity); try (unfold lokN; cbn; exact Hc).
    - match goal with |- context [finish ?a ?b ?c ?d] => destruct (finish a b c d) as [e1 T1] eqn:EX end.
      cbn [fst]. replace T1 with (snd (finish t (thr s t) (cur (thr s t)) 0%Z)) by (rewrite EX; reflexivity).
      assert (Hr' : runN S1 (cur (thr s t))) by exact Hr.
      destruct (finish_specN N own S1 t (thr s t) _ 0%Z Hprog Hr') as (Hc' & Hp' & Hl & Hh' & Hs).
      apply Hmk; auto. apply startpc_not_PN5; auto.
  Qed.

  Lemma fst_let2 {A B C} (X : A * B) (f : B -> C) : fst (let '(a, b) := X in (a, f b)) = fst X.
  Proof. destruct X; reflexivity. Qed.

  (* load_balance from a deque map dq0 = the deques after t's own push (if any):
     (a) the total count is that of s with t holding only its current fiber,
     (b) queued fibers have state >= 2, (c) only t's own deques differ from s *)
  Lemma inv_lb_scan dq0 k i lc ms rc :
    (forall g, Qcn dq0 (nthr s) g + cnt (opt (cur (thr s t))) g = Qcn (dq s) (nthr s) g + cnt (held (thr s t)) g) ->
    (forall g, 1 <= Qcn dq0 (nthr s) g -> (2 <= fstt s g)%Z) ->
    (forall d', d' <> 2 * t + 1 -> d' <> 2 * t + 2 -> dq0 d' = dq s d') ->
    (forall k0 tmp, pc (thr s t) <> PN5 k0 tmp) -> klb s (cur (thr s t)) k -> 2 * (t + 1) <= i ->
    forall dqs r, lb_scan (2 * nthr s + 60) dq0 (nthr s) i (lb_iend t (nthr s)) lc ms rc = (dqs, r) ->
    InvN N own (fst (match r with
                     | Some (i', lc', rc', ms', x) =>
                         (set_thr {| dq := dqs; sfrom := sfrom s; sto := sto s; fstt := fstt s; inwq := inwq s;
                                     thr := thr s; nthr := nthr s; to_store := to_store s |} t
                                  (with_pc (thr s t) (PL2 k i' lc' rc' ms' x)), [])
                     | None => lb_ret {| dq := dqs; sfrom := sfrom s; sto := sto s; fstt := fstt s; inwq := inwq s;
                                         thr := thr s; nthr := nthr s; to_store := to_store s |} t (thr s t) k
                     end)).
  Proof.
    intros Ha Hb Hc Hn5 Hk Hi dqs r ES.
    assert (Hto : sto s t = 4 * t + 3 - sfrom s t) by (apply Hto'; auto).
    apply lb_scan_spec in ES. destruct ES as [[-> ->]|(i' & lc' & rc' & ms' & x & l & -> & Hi' & Hdv & ->)].
    - (* nothing stolen *)
      apply lb_ret_inv; auto. intros T' Hh' Hn5' Hp' Hl'.
      mkN N own s t I0 Ht; [reflexivity|exact Hts|reflexivity| |exact Hfrom| | |exact Hp'|exact Hl'].
      + intros u Hne Hu. pose proof (dq_other N own s t u I0 Ht Hu Hne) as D.
        split; [reflexivity|]. split; [reflexivity|]. split; [cbn [dq]; rewrite Hc by lia; auto|].
        apply (keeps_same N own s u (thr s u)); apply (m_loc N own s I0 u Hu).
      + intros _. exact Hto.
      + intros g. pose proof (Hfib g) as []. specialize (Ha g). pose proof (Hb g).
        pose proof (Hcn_upd (thr s) (nthr s) t T' g Ht) as EH. rewrite Hh' in EH.
        pose proof (Hcn_term (thr s) (nthr s) t g Ht).
        constructor; rewrite ?wqz_set_thr; cbn [thr nthr dq fstt set_thr];
          repeat match goal with |- context [wqz ?S g] => progress change (wqz S g) with (wqz s g) end; try lia.
    - (* x stolen from the far end of deque dv of another thread *)
      assert (Hr : 2 * (t + 1) <= i' < lb_iend t (nthr s)) by lia.
      destruct (scan_deque t (nthr s) i' Ht Hr) as (Dv1 & Dv2 & Dv3).
      remember (qid (i' mod (2 * nthr s))) as dv eqn:Edv. cbn [fst].
      assert (Hx2 : (2 <= fstt s x)%Z).
      { apply Hb. pose proof (Qcn_term dq0 (nthr s) dv x Dv1) as Hq. rewrite Hdv, cnt_app in Hq.
        cbn [cnt] in Hq. rewrite Nat.eqb_refl in Hq. lia. }
      mkN N own s t I0 Ht; [reflexivity|exact Hts|reflexivity| |exact Hfrom| | |exact Hprog|].
      + intros u Hne Hu. pose proof (dq_other N own s t u I0 Ht Hu Hne) as D.
        split; [reflexivity|]. split; [reflexivity|]. split.
        * cbn [dq set_thr]. intros E. unfold upd. destruct (Nat.eqb_spec (sfrom s u) dv) as [E1|E1].
          -- exfalso. rewrite <- E1, Hc in Hdv by lia. rewrite E in Hdv. destruct l; discriminate.
          -- rewrite Hc by lia. exact E.
        * apply (keeps_same N own s u (thr s u)); apply (m_loc N own s I0 u Hu).
      + intros _. exact Hto.
      + intros g. pose proof (Hfib g) as []. specialize (Ha g). pose proof (Hb g) as Hbg.
        pose proof (Hcn_upd (thr s) (nthr s) t (with_pc (thr s t) (PL2 k i' lc' rc' ms' x)) g Ht) as EH.
        pose proof (Hcn_term (thr s) (nthr s) t g Ht).
        pose proof (Qcn_upd dq0 (nthr s) dv l g Dv1) as EQ. rewrite Hdv, cnt_app in EQ. cbn [cnt] in EQ.
        change (held (with_pc (thr s t) (PL2 k i' lc' rc' ms' x))) with (x :: opt (cur (thr s t))) in EH.
        cbn [cnt] in EH.
        constructor; rewrite ?wqz_set_thr; cbn [thr nthr dq fstt set_thr];
          repeat match goal with |- context [wqz ?S ?g0] => progress change (wqz S g0) with (wqz s g0) end;
          destruct (Nat.eqb_spec x g); try subst g; try lia.
      + unfold lokN; cbn. split; [exact Hk|]. split; [exact Hx2|lia].
  Qed.

  Lemma stepN_PL1 k : pc (thr s t) = PL1 k -> InvN N own (fst (step s t)).
  Proof.
    intros Hpc. unfold step. rewrite Hpc. rewrite fst_let2.
    pose proof Hloc as L. unfold lokN in L. rewrite Hpc in L.
    assert (Hn5 : forall k0 tmp, pc (thr s t) <> PN5 k0 tmp) by (rewrite Hpc; discriminate).
    assert (Hh : held (thr s t) = opt (cur (thr s t))) by (unfold held; rewrite Hpc; reflexivity).
    unfold lb_continue. cbv zeta.
    match goal with |- context [lb_scan ?a ?b ?c ?d ?e ?f ?g ?h] => destruct (lb_scan a b c d e f g h) as [dqs r] eqn:ES end.
    eapply (inv_lb_scan (dq s) k); [| | | | | |exact ES]; auto.
    - intros g. rewrite Hh. reflexivity.
    - intros g. apply (n_queued N s g (Hfib g)).
  Qed.

  Lemma stepN_PL2 k i lc rc ms x : pc (thr s t) = PL2 k i lc rc ms x -> InvN N own (fst (step s t)).
  Proof.
    intros Hpc. unfold step. rewrite Hpc. rewrite fst_let2.
    pose proof Hloc as L. unfold lokN in L. rewrite Hpc in L. destruct L as (Hk & Hx & Hi).
    assert (Hn5 : forall k0 tmp, pc (thr s t) <> PN5 k0 tmp) by (rewrite Hpc; discriminate).
    assert (Hh : held (thr s t) = x :: opt (cur (thr s t))) by (unfold held; rewrite Hpc; reflexivity).
    pose proof own_dq as (D1 & D2 & D3).
    unfold lb_continue. cbv zeta. cbn [nthr dq sfrom sto fstt inwq thr to_store set_dq].
    match goal with |- context [lb_scan ?a ?b ?c ?d ?e ?f ?g ?h] => destruct (lb_scan a b c d e f g h) as [dqs r] eqn:ES end.
    eapply (inv_lb_scan (upd (dq s) (sfrom s t) (x :: dq s (sfrom s t))) k); [| | | | | |exact ES]; auto.
    - intros g. rewrite Hh. pose proof (Qcn_upd (dq s) (nthr s) (sfrom s t) (x :: dq s (sfrom s t)) g D1) as E.
      cbn [cnt] in *. lia.
    - intros g Hg. pose proof (Qcn_upd (dq s) (nthr s) (sfrom s t) (x :: dq s (sfrom s t)) g D1) as E.
      cbn [cnt] in E. destruct (Nat.eqb_spec x g); [subst; auto|]. apply (n_queued N s g (Hfib g)). lia.
    - intros d' H1 H2. apply upd_other. destruct Hfrom; lia.
  Qed.

  Theorem stepN_inv : InvN N own (fst (step s t)).
  Proof.
    destruct (pc (thr s t)) eqn:Hpc.
    - eapply stepN_PSpawnR; eauto.
    - eapply stepN_PSpawnW; eauto.
    - eapply stepN_PSched; eauto.
    - eapply stepN_PBlockW; eauto.
    - eapply stepN_PYRead; eauto.
    - eapply stepN_PN1; eauto.
    - eapply stepN_PN2; eauto.
    - eapply stepN_PN3; eauto.
    - eapply stepN_PN4; eauto.
    - eapply stepN_PN5; eauto.
    - eapply stepN_PN6; eauto.
    - eapply stepN_PN7; eauto.
    - eapply stepN_PN8; eauto.
    - eapply stepN_PN9; eauto.
    - eapply stepN_PY2; eauto.
    - eapply stepN_PY3; eauto.
    - eapply stepN_PY4; eauto.
    - eapply stepN_PL1; eauto.
    - eapply stepN_PL2; eauto.
    - eapply stepN_PI1; eauto.
    - eapply stepN_PW1; eauto.
    - eapply stepN_PW2; eauto.
    - eapply stepN_PP1; eauto.
    - eapply stepN_PP2; eauto.
    - eapply stepN_PF1; eauto.
    - eapply stepN_PF2; eauto.
    - eapply stepN_Fin; eauto.
  Qed.
End StepN.

(* ---------------- reachability ---------------- *)
Lemma sumn_zero f n : (forall i, i < n -> f i = 0) -> sumn f n = 0.
Proof. induction n; intros H; cbn; auto. rewrite IHn, H; auto. Qed.

Definition progs_ok (N : nat) (own : nat -> nat) (progs : list (list op)) : Prop :=
  forall t, t < length progs -> prog_okN N own t (nth t progs []).

Lemma init_thr fixed progs t : t < length progs ->
  thr (fst (init fixed progs)) t = snd (start t 0 (nth t progs []) 1).
Proof.
  intros Ht. cbn [init fst thr].
  set (f := fun tp : nat * list op => start (fst tp) 0 (snd tp) 1).
  assert (Hl : length (combine (seq 0 (length progs)) progs) = length progs).
  { rewrite combine_length, seq_length. lia. }
  rewrite (nth_indep _ _ (f (0, [])) ) by (rewrite map_length, Hl; exact Ht).
  rewrite map_nth. rewrite combine_nth by (rewrite seq_length; reflexivity).
  rewrite seq_nth by exact Ht. reflexivity.
Qed.

Lemma init_invN N own progs : progs_ok N own progs -> InvN N own (fst (init true progs)).
Proof.
  intros Hp.
  assert (Hst : forall t, t < length progs ->
            let T := thr (fst (init true progs)) t in
            prog_okN N own t (prog T) /\ lokN N own (fst (init true progs)) t T /\ held T = []).
  { intros t Ht. cbv zeta. rewrite (init_thr true progs t Ht).
    assert (Hr : runN (fst (init true progs)) 0) by (left; reflexivity).
    destruct (start_specN N own (fst (init true progs)) t (nth t progs []) 0 1 (Hp t Ht) Hr) as (_ & A & B & C & _).
    auto. }
  constructor.
  - reflexivity.
  - intros t Ht. cbn. lia.
  - intros t Ht _. cbn. lia.
  - intros f.
    assert (H0 : Hcn (thr (fst (init true progs))) (nthr (fst (init true progs))) f = 0).
    { unfold Hcn. apply sumn_zero. intros i Hi. destruct (Hst i Hi) as (_ & _ & E). rewrite E. reflexivity. }
    assert (Q0 : Qcn (dq (fst (init true progs))) (nthr (fst (init true progs))) f = 0).
    { unfold Qcn. apply sumn_zero. intros i Hi. reflexivity. }
    constructor; rewrite ?H0, ?Q0; unfold wqz; cbn [init fst fstt inwq]; try lia.
  - intros t Ht. apply (Hst t Ht).
  - intros t Ht. apply (Hst t Ht).
Qed.

Lemma ready_lt s t : mstatus M s t = SReady -> t < nthr s.
Proof.
  cbn. unfold status_of. destruct (Nat.ltb_spec t (nthr s)); [auto|discriminate].
Qed.

Theorem reachable_invN N own progs s :
  progs_ok N own progs -> reachable M (fst (init true progs)) s -> InvN N own s.
Proof.
  intros Hp R. induction R as [|s t R IH Hst].
  - apply init_invN; exact Hp.
  - apply stepN_inv; auto. apply ready_lt; exact Hst.
Qed.

(* ---------------- the conservation statement for N threads ---------------- *)
(* all places: what each thread holds, then the deques 1..2n *)
Definition placesN (s : st) : list nat :=
  flat_map (fun t => held (thr s t)) (seq 0 (nthr s)) ++ flat_map (fun i => dq s (S i)) (seq 0 (2 * nthr s)).

Lemma cnt_flat_map_seq (f : nat -> list nat) n g :
  cnt (flat_map f (seq 0 n)) g = sumn (fun i => cnt (f i) g) n.
Proof.
  induction n; [reflexivity|]. rewrite seq_S, flat_map_app, cnt_app, IHn. cbn [flat_map sumn Nat.add].
  rewrite app_nil_r. reflexivity.
Qed.

Lemma cnt_placesN s g : cnt (placesN s) g = Hcn (thr s) (nthr s) g + Qcn (dq s) (nthr s) g.
Proof. unfold placesN, Hcn, Qcn. rewrite cnt_app, !cnt_flat_map_seq. reflexivity. Qed.

Definition handedN (s : st) (t nf : nat) : Prop :=
  match pc (thr s t) with
  | PY2 x | PY3 x | PY4 x _ | PI1 x => x = nf
  | _ => False
  end.

Lemma conservation_of_invN N own s : InvN N own s ->
  NoDup (placesN s) /\
  (forall f d, 1 <= d <= 2 * nthr s -> In f (dq s d) ->
     fstt s f = 2%Z \/ fstt s f = 5%Z \/ (fstt s f = 3%Z /\ inwq s f = false)) /\
  (forall f, fstt s f = 1%Z \/ fstt s f = 2%Z \/ fstt s f = 5%Z \/ (fstt s f = 3%Z /\ inwq s f = false) ->
     In f (placesN s)) /\
  (forall f, inwq s f = true -> fstt s f = 3%Z /\ ~ In f (placesN s)) /\
  (forall t nf, t < nthr s -> handedN s t nf -> fstt s nf = 2%Z \/ fstt s nf = 3%Z) /\
  (forall f, In f (placesN s) -> fstt s f <> 0%Z /\ 1 <= f <= N) /\
  (forall f, fstt s f = 0 \/ fstt s f = 1 \/ fstt s f = 2 \/ fstt s f = 3 \/ fstt s f = 5)%Z /\
  length (placesN s) <= N /\
  (forall t, t < nthr s -> (sfrom s t = 2 * t + 1 \/ sfrom s t = 2 * t + 2) /\
     ((forall k tmp, pc (thr s t) <> PN5 k tmp) -> sto s t = 4 * t + 3 - sfrom s t)).
Proof.
  intros I.
  assert (Hnd : NoDup (placesN s)).
  { apply cnt_NoDup. intros f. rewrite cnt_placesN. apply (n_once N s f (m_fib N own s I f)). }
  assert (Hrng : forall f, In f (placesN s) -> fstt s f <> 0%Z /\ 1 <= f <= N).
  { intros f Hf. apply cnt_In in Hf. rewrite cnt_placesN in Hf.
    pose proof (m_fib N own s I f) as []. assert (fstt s f <> 0%Z) by lia. auto. }
  split; [exact Hnd|].
  split. { intros f d Hd Hf. pose proof (m_fib N own s I f) as [Ho Hq Hh Hp Hw Hb Hs Hr].
           apply cnt_In in Hf. pose proof (Qcn_term (dq s) (nthr s) d f Hd).
           destruct (inwq s f) eqn:E; [apply wqz_true in E; lia|]. lia. }
  split. { intros f Hf. apply cnt_In. rewrite cnt_placesN.
           pose proof (m_fib N own s I f) as [Ho Hq Hh Hp Hw Hb Hs Hr].
           destruct (inwq s f) eqn:E; [apply wqz_true in E|apply wqz_false in E].
           - destruct (Hw E) as [H3 _]. destruct Hf as [Hf|[Hf|[Hf|[_ Hf]]]]; try lia; try discriminate.
           - assert (1 <= fstt s f)%Z by lia. specialize (Hp H E). lia. }
  split. { intros f Hf. apply wqz_true in Hf. pose proof (m_fib N own s I f) as [Ho Hq Hh Hp Hw Hb Hs Hr].
           destruct (Hw Hf) as [H3 H0]. split; auto. intros Hin. apply cnt_In in Hin.
           rewrite cnt_placesN in Hin. lia. }
  split. { intros t nf Ht Hh. pose proof (m_loc N own s I t Ht) as L. unfold handedN, lokN, hok in *.
           destruct (pc (thr s t)); try contradiction; subst; tauto. }
  split; [exact Hrng|].
  split. { intros f. pose proof (n_state N s f (m_fib N own s I f)). lia. }
  split. { apply NoDup_range_length; auto. intros f Hf. apply (Hrng f Hf). }
  intros t Ht. split; [apply (m_from N own s I t Ht)|apply (m_to N own s I t Ht)].
Qed.

(* ------------------------------------------------------------------ *)
(* Fairness under work stealing: the machine instrumented, per fiber g, with
     nbyp g = number of times the thread on whose deques g is queued (and not
              SAVING) handed out ANOTHER fiber, since g was last handed out or
              stolen;
     nstl g = number of stolen fibers that this thread's load_balance pushed in
              front of its schedule_from deque while g was queued on it (each
              one will be popped before g);
     nmx g  = the largest number of fibers that were on this thread (held by it
              or in its two deques) at any time since g was queued on it.
   All three are reset when g is handed out and when g is stolen (the interval
   "g waits on thread t" ends).  *)
Record nst := { nbase : st; nbyp : nat -> nat; nstl : nat -> nat; nmx : nat -> nat }.

Definition inqN (s : st) (t g : nat) : bool :=
  existsb (Nat.eqb g) (dq s (2 * t + 1) ++ dq s (2 * t + 2)).
Definition cntT (s : st) (t : nat) : nat :=
  length (held (thr s t)) + length (dq s (2 * t + 1)) + length (dq s (2 * t + 2)).

(* the fiber that thread t hands out in this step / steals in this step *)
Definition handout (s : st) (t : nat) : option nat :=
  match pc (thr s t) with
  | PN8 _ y => if Z.eqb (fstt s y) 5 then None else Some y
  | _ => None
  end.
Definition stolen (s s' : st) (t : nat) : option nat :=
  match pc (thr s t), pc (thr s' t) with
  | PL1 _, PL2 _ _ _ _ _ x | PL2 _ _ _ _ _ _, PL2 _ _ _ _ _ x => Some x
  | _, _ => None
  end.
Definition is_some_eq (o : option nat) (g : nat) : bool :=
  match o with Some y => Nat.eqb g y | None => false end.

Definition nstep (x : nst) (t : nat) : nst :=
  let s := nbase x in
  let s' := fst (step s t) in
  let ho := handout s t in
  let so := stolen s s' t in
  let rst g := is_some_eq ho g || is_some_eq so g in
  {| nbase := s';
     nbyp := fun g => if rst g then 0
                      else match ho with
                           | Some _ => if negb (Z.eqb (fstt s g) 5) && inqN s t g then S (nbyp x g) else nbyp x g
                           | None => nbyp x g
                           end;
     nstl := fun g => if rst g then 0
                      else match pc (thr s t) with
                           | PL2 _ _ _ _ _ _ => if inqN s t g then S (nstl x g) else nstl x g
                           | _ => nstl x g
                           end;
     nmx := fun g => if rst g then 0
                     else if inqN s' t g then Nat.max (nmx x g) (cntT s' t) else nmx x g |}.

Lemma nstep_erase x t : nbase (nstep x t) = fst (step (nbase x) t).
Proof. reflexivity. Qed.

Definition ninit (fixed : bool) (progs : list (list op)) : nst :=
  {| nbase := fst (init fixed progs); nbyp := fun _ => 0; nstl := fun _ => 0; nmx := fun _ => 0 |}.

Inductive nreach (fixed : bool) (progs : list (list op)) : nst -> Prop :=
| nr_init : nreach fixed progs (ninit fixed progs)
| nr_step x t : nreach fixed progs x -> mstatus M (nbase x) t = SReady -> nreach fixed progs (nstep x t).

Lemma nreach_base fixed progs x : nreach fixed progs x -> reachable M (fst (init fixed progs)) (nbase x).
Proof. induction 1 as [|x t R IH Hst]; [constructor|]. apply (reach_step M _ (nbase x) t IH Hst). Qed.

Lemma reachable_nreach fixed progs s :
  reachable M (fst (init fixed progs)) s -> exists x, nreach fixed progs x /\ nbase x = s.
Proof.
  induction 1 as [|s t R [x [Hx Hb]] Hst].
  - exists (ninit fixed progs). split; [constructor|reflexivity].
  - exists (nstep x t). split; [constructor; auto; rewrite Hb; exact Hst|]. cbn. rewrite Hb. reflexivity.
Qed.

Definition ngrant (x : nst) (t : nat) : nst :=
  match mstatus M (nbase x) t with SReady => nstep x t | _ => x end.
Definition nrun (x : nst) (sch : list nat) : nst := fold_left ngrant sch x.

Lemma nreach_nrun fixed progs sch : forall x, nreach fixed progs x -> nreach fixed progs (nrun x sch).
Proof.
  induction sch as [|t r IH]; intros x R; cbn; auto.
  apply IH. unfold ngrant. destruct (mstatus M (nbase x) t) eqn:E; auto. constructor; auto.
Qed.

Lemma nrun_erase sch : forall x, nbase (nrun x sch) = fst (run_sched M (nbase x) sch).
Proof.
  induction sch as [|t r IH]; intros x; cbn [nrun fold_left run_sched]; auto.
  fold (nrun (ngrant x t) r). rewrite IH. unfold ngrant, grant.
  destruct (mstatus M (nbase x) t) eqn:E.
  - cbn. destruct (run_sched M (nbase x) r); reflexivity.
  - cbn [nbase nstep]. change (mstep M (nbase x) t) with (step (nbase x) t).
    destruct (step (nbase x) t) as [s1 e1]. cbn [fst]. destruct (run_sched M s1 r); reflexivity.
  - cbn. destruct (run_sched M (nbase x) r); reflexivity.
Qed.

(* ---------------- what one step of thread u does to the shared state ---------------- *)
Ltac dmatch :=
  repeat match goal with
  | |- context [match ?b with _ => _ end] =>
      lazymatch b with context [match _ with _ => _ end] => fail | _ => destruct b end
  end.

Lemma step_frame s u t : t <> u ->
  thr (fst (step s u)) t = thr s t /\ sfrom (fst (step s u)) t = sfrom s t /\
  sto (fst (step s u)) t = sto s t.
Proof.
  intros Hne. unfold step, lb_continue, lb_ret, next_ret.
  destruct (pc (thr s u)); cbv zeta; dmatch;
    cbn [fst thr sfrom sto set_thr set_fs set_wq set_dq set_from set_to]; rewrite ?upd_other by auto; auto.
Qed.

Lemma step_nthr s u : nthr (fst (step s u)) = nthr s.
Proof.
  unfold step, lb_continue, lb_ret, next_ret.
  destruct (pc (thr s u)); cbv zeta; dmatch; reflexivity.
Qed.

Lemma finish_startpc t T c v : startpc (pc (snd (finish t T c v))).
Proof.
  unfold finish.
  assert (G : forall p k, startpc (pc (snd (start t c p k)))).
  { induction p as [|o r IH]; intros k; cbn [start]; [exact I|].
    assert (Hrec : forall e0 : list Z, startpc (pc (snd (let '(e, T) := start t c r (S k) in (e0 ++ e, T))))).
    { intros e0. specialize (IH (S k)). destruct (start t c r (S k)); exact IH. }
    destruct o; try (destruct (bad_id f)); try (destruct (Nat.eqb c 0)); try apply Hrec; exact I. }
  specialize (G (prog T) (S (opi T))). destruct (start t c (prog T) (S (opi T))). exact G.
Qed.

(* load_balance's scan from the state S0: either nothing is stolen (the call
   continues at a pc that is not PL2), or exactly one fiber x is taken from the
   far end of a deque dv of another thread and the thief is at PL2 .. x *)
Lemma lb_effect (S0 : st) u T k i lc ms rc : u < nthr S0 -> 2 * (u + 1) <= i ->
  let s' := fst (lb_continue S0 u T k i lc ms rc) in
  ((forall d, dq s' d = dq S0 d) /\ (forall k' i' a b c x, pc (thr s' u) <> PL2 k' i' a b c x) /\ popT (thr s' u) = None) \/
  (exists dv x l i' a b c, dq S0 dv = l ++ [x] /\ dq s' = upd (dq S0) dv l /\
     pc (thr s' u) = PL2 k i' a b c x /\ 1 <= dv <= 2 * nthr S0 /\ dv <> 2 * u + 1 /\ dv <> 2 * u + 2).
Proof.
  intros Hu Hi. unfold lb_continue. cbv zeta.
  destruct (lb_scan _ _ _ _ _ _ _ _) as [dqs r] eqn:ES. apply lb_scan_spec in ES.
  destruct ES as [[-> ->]|(i' & lc' & rc' & ms' & x & l & -> & Hi' & Hdv & ->)].
  - left. unfold lb_ret. destruct k;
      try match goal with |- context [finish ?a ?b ?c ?d] =>
            pose proof (finish_startpc a b c d) as B; destruct (finish a b c d) as [e1 T1]; cbn [snd] in B end;
      cbn [fst dq thr set_thr]; rewrite upd_same; (split; [reflexivity|]);
      (split; [intros k' j a b c x E; try (rewrite E in B; exact B); discriminate|]);
      try reflexivity; apply (startpc_g _ B).
  - right. assert (Hr : 2 * (u + 1) <= i' < lb_iend u (nthr S0)) by lia.
    destruct (scan_deque u (nthr S0) i' Hu Hr) as (D1 & D2 & D3).
    exists (qid (i' mod (2 * nthr S0))), x, l, i', lc', rc', ms'. cbn [fst dq thr set_thr]. rewrite upd_same.
    repeat split; auto; lia.
Qed.

Inductive dqeff (s s' : st) (u d : nat) : Prop :=
| DSame : dq s' d = dq s d -> dqeff s s' u d
| DSteal x : dq s d = dq s' d ++ [x] -> stolen s s' u = Some x ->
             d <> 2 * u + 1 -> d <> 2 * u + 2 -> 1 <= d <= 2 * nthr s -> dqeff s s' u d
| DPush f : dq s' d = f :: dq s d -> In f (held (thr s u)) ->
            ((d = sfrom s u /\ exists k i a b c, pc (thr s u) = PL2 k i a b c f) \/
             (d = 4 * u + 3 - sfrom s u /\ exists k, pc (thr s u) = PSched f k \/ pc (thr s u) = PN9 k f)) ->
            dqeff s s' u d
| DPop y k : dq s d = y :: dq s' d -> pc (thr s u) = PN7 k -> pc (thr (s') u) = PN8 k y ->
             d = sfrom s u -> dqeff s s' u d.

Lemma dq_effect N own s u d : InvN N own s -> u < nthr s -> dqeff s (fst (step s u)) u d.
Proof.
  intros I0 Hu. pose proof (m_loc N own s I0 u Hu) as L. pose proof (m_from N own s I0 u Hu) as Hf.
  pose proof (m_ts N own s I0) as Hts. pose proof (m_to N own s I0 u Hu) as Hto.
  unfold lokN in L. unfold step. destruct (pc (thr s u)) eqn:Hpc.
  all: try (apply DSame; unfold next_ret; dmatch; reflexivity).
  - (* PSched *)
    rewrite Hts, Hto by (intros ? ?; try rewrite Hpc; discriminate).
    assert (Hd : dq (fst (match k with
              | KSpawn g | KWake g => let '(e1, T') := finish u (thr s u) (cur (thr s u)) (Zn g) in
                  (set_thr (set_dq s (4 * u + 3 - sfrom s u) (f :: dq s (4 * u + 3 - sfrom s u))) u T', ev u (l_to u) 9 (Zn (4 * u + 3 - sfrom s u)) ++ e1)
              | KRequeue nf => let '(e1, T') := finish u (thr s u) nf (Zn nf) in
                  (set_thr (set_dq s (4 * u + 3 - sfrom s u) (f :: dq s (4 * u + 3 - sfrom s u))) u T', ev u (l_to u) 9 (Zn (4 * u + 3 - sfrom s u)) ++ e1)
              | _ => (set_dq s (4 * u + 3 - sfrom s u) (f :: dq s (4 * u + 3 - sfrom s u)), ev u (l_to u) 9 (Zn (4 * u + 3 - sfrom s u)))
              end)) = upd (dq s) (4 * u + 3 - sfrom s u) (f :: dq s (4 * u + 3 - sfrom s u))).
    { destruct k; dmatch; reflexivity. }
    match goal with |- dqeff _ ?S' _ _ => assert (E : dq S' d = upd (dq s) (4 * u + 3 - sfrom s u) (f :: dq s (4 * u + 3 - sfrom s u)) d) end.
    { destruct k; dmatch; reflexivity. }
    clear Hd. destruct (Nat.eq_dec d (4 * u + 3 - sfrom s u)) as [->|Hne].
    + apply (DPush _ _ _ _ f); [rewrite E, upd_same; reflexivity| |right; split; [reflexivity|exists k; left; exact Hpc]].
      unfold held. rewrite Hpc. destruct L as [_ L]. destruct k; try contradiction; try (left; reflexivity).
      destruct L as (Hc & Hc0 & _). rewrite Hc in *. destruct f; [congruence|]. right; left; reflexivity.
    + apply DSame. rewrite E. apply upd_other; auto.
  - (* PN7 *)
    destruct (dq s (sfrom s u)) as [|y rest] eqn:EF; [apply DSame; reflexivity|]. cbn [fst].
    destruct (Nat.eq_dec d (sfrom s u)) as [->|Hne].
    + apply (DPop _ _ _ _ y k); auto; cbn [dq thr set_thr set_dq]; rewrite upd_same; auto.
    + apply DSame. cbn [dq thr set_thr set_dq]. apply upd_other; auto.
  - (* PN9 *)
    rewrite Hto by (intros ? ?; try rewrite Hpc; discriminate). cbn [fst].
    destruct (Nat.eq_dec d (4 * u + 3 - sfrom s u)) as [->|Hne].
    + apply (DPush _ _ _ _ x); [cbn [dq set_thr set_dq]; rewrite upd_same; reflexivity|unfold held; rewrite Hpc; left; reflexivity|].
      right; split; [reflexivity|exists k; right; exact Hpc].
    + apply DSame. cbn [dq set_thr set_dq]. apply upd_other; auto.
  - (* PL1 *)
    rewrite fst_let2.
    destruct (lb_effect s u (thr s u) k (2 * (u + 1)) (length (dq s (sfrom s u))) 50 None Hu (Nat.le_refl _))
      as [(A & B & B')|(dv & x & l & i' & a & b & c & A & B & C & D1 & D2 & D3)].
    + apply DSame. apply A.
    + destruct (Nat.eq_dec d dv) as [->|Hne].
      * apply (DSteal _ _ _ _ x); auto; [rewrite B, upd_same; exact A|]. unfold stolen. rewrite Hpc, C. reflexivity.
      * apply DSame. rewrite B. apply upd_other; auto.
  - (* PL2 *)
    rewrite fst_let2. destruct L as (Hk & Hx & Hi).
    set (S0 := set_dq s (sfrom s u) (stolen0 :: dq s (sfrom s u))).
    assert (Hin : In stolen0 (held (thr s u))) by (unfold held; rewrite Hpc; left; reflexivity).
    assert (Hpush : (sfrom s u = sfrom s u /\ exists k0 i0 a b c, PL2 k i lc rc ms stolen0 = PL2 k0 i0 a b c stolen0)) by eauto 10.
    destruct (lb_effect S0 u (thr s u) k i (S lc) (ms - 1) (Some (rc - 1)) Hu Hi)
      as [(A & B & B')|(dv & x & l & i' & a & b & c & A & B & C & D1 & D2 & D3)].
    + destruct (Nat.eq_dec d (sfrom s u)) as [->|Hne].
      * apply (DPush _ _ _ _ stolen0); auto. rewrite A. unfold S0; cbn [dq set_dq]. apply upd_same.
        left. rewrite Hpc. exact Hpush.
      * apply DSame. rewrite A. unfold S0; cbn [dq set_dq]. apply upd_other; auto.
    + cbn [nthr S0 set_dq] in D1.
      destruct (Nat.eq_dec d (sfrom s u)) as [->|Hne].
      * apply (DPush _ _ _ _ stolen0); auto.
        -- rewrite B, upd_other by (destruct Hf; lia). unfold S0; cbn [dq set_dq]. apply upd_same.
        -- left. rewrite Hpc. exact Hpush.
      * destruct (Nat.eq_dec d dv) as [->|Hne'].
        -- apply (DSteal _ _ _ _ x); auto.
           ++ rewrite B, upd_same. unfold S0 in A; cbn [dq set_dq] in A. rewrite upd_other in A by auto. exact A.
           ++ unfold stolen. rewrite Hpc, C. reflexivity.
        -- apply DSame. rewrite B, upd_other by auto. unfold S0; cbn [dq set_dq]. apply upd_other; auto.
Qed.

(* like dmatch, but leaves the calls of finish to dfinish *)
Ltac dmatchf :=
  repeat match goal with
  | |- context [match ?b with _ => _ end] =>
      lazymatch b with
      | context [match _ with _ => _ end] => fail
      | finish _ _ _ _ => fail
      | _ => destruct b
      end
  end.
Ltac dfinish :=
  repeat match goal with
  | |- context [finish ?a ?b ?c ?d] =>
      let B := fresh "B" in pose proof (finish_startpc a b c d) as B;
      destruct (finish a b c d) as [?e1 ?T1]; cbn [snd] in B
  end.

(* sfrom of the stepping thread changes only at the swap *)
Lemma sf_effect s u :
  sfrom (fst (step s u)) u = sfrom s u \/
  exists k tmp sv, pc (thr s u) = PN4 k tmp sv /\ sfrom (fst (step s u)) u = sv.
Proof.
  unfold step, lb_continue, lb_ret, next_ret.
  destruct (pc (thr s u)) eqn:Hpc; cbv zeta;
    try (left; dmatch; reflexivity).
  right. exists k, tmp, sv. split; auto. cbn. apply upd_same.
Qed.

(* a fiber is "popped" (pc PN8) after a step of u only by u's pop_bottom *)
Lemma pop_effect N own s u y : InvN N own s -> u < nthr s -> popT (thr (fst (step s u)) u) = Some y ->
  exists k, pc (thr s u) = PN7 k /\ pc (thr (fst (step s u)) u) = PN8 k y.
Proof.
  intros I0 Hu. pose proof (m_loc N own s I0 u Hu) as L. unfold lokN in L. unfold step.
  destruct (pc (thr s u)) eqn:Hpc.
  all: rewrite ?fst_let2.
  all: try (unfold next_ret; repeat (progress (dfinish; dmatchf)); cbn [fst thr set_thr set_dq]; rewrite ?upd_same; unfold popT;
            first [ cbn [pc with_pc]; discriminate
                  | rewrite Hpc; discriminate
                  | match goal with B : startpc (pc ?T) |- _ => destruct (pc T); try contradiction; discriminate end ]; fail).
  - (* PN7 *)
    destruct (dq s (sfrom s u)) as [|z rest]; cbn [fst thr set_thr]; rewrite upd_same; unfold popT; cbn [pc with_pc];
      [discriminate|]. intros E. inversion E; subst. exists k. auto.
  - (* PN8 *)
    destruct L as [Hk _]. destruct (Z.eqb (fstt s x) 5).
    + cbn [fst thr set_thr]. rewrite upd_same. unfold popT; cbn [pc with_pc]. discriminate.
    + rewrite fst_let2. unfold next_ret, kokN in *.
      destruct k; try contradiction; destruct x; dfinish; try destruct (Z.eqb st 3);
        cbn [fst thr set_thr]; rewrite ?upd_same; unfold popT;
        first [ cbn [pc with_pc]; discriminate
              | match goal with B : startpc (pc ?T) |- _ => destruct (pc T); try contradiction; discriminate end ].
  - (* PL1 *)
    intros E.
    destruct (lb_effect s u (thr s u) k (2 * (u + 1)) (length (dq s (sfrom s u))) 50 None Hu (Nat.le_refl _))
      as [(A & B & B')|(dv & x & l & i' & a & b & c & A & B & C & D1 & D2 & D3)].
    + rewrite B' in E. discriminate.
    + unfold popT in E. rewrite C in E. discriminate.
  - (* PL2 *)
    intros E.
    assert (Hu' : u < nthr (set_dq s (sfrom s u) (stolen0 :: dq s (sfrom s u)))) by exact Hu.
    destruct L as (_ & _ & Hi).
    destruct (lb_effect _ u (thr s u) k i (S lc) (ms - 1) (Some (rc - 1)) Hu' Hi)
      as [(A & B & B')|(dv & x & l & i' & a & b & c & A & B & C & D1 & D2 & D3)].
    + rewrite B' in E. discriminate.
    + unfold popT in E. rewrite C in E. discriminate.
Qed.

Lemma lb_fstt S0 u T k i lc ms rc : fstt (fst (lb_continue S0 u T k i lc ms rc)) = fstt S0.
Proof.
  unfold lb_continue. cbv zeta. destruct (lb_scan _ _ _ _ _ _ _ _) as [dqs r].
  destruct r as [[[[[? ?] ?] ?] ?]|]; [reflexivity|]. unfold lb_ret. destruct k; dmatch; reflexivity.
Qed.

(* only park-saving writes SAVING *)
Lemma fs5_effect s u g : fstt (fst (step s u)) g = 5%Z -> fstt s g = 5%Z \/ pc (thr s u) = PP2 g.
Proof.
  intros H. unfold step in H. destruct (pc (thr s u)) eqn:Hpc.
  all: rewrite ?fst_let2 in H; rewrite ?lb_fstt in H.
  all: try (unfold next_ret in H).
  all: repeat match type of H with
       | context [match ?b with _ => _ end] =>
           lazymatch b with context [match _ with _ => _ end] => fail | _ => destruct b end
       end.
  all: cbn [fst fstt set_thr set_fs set_wq set_dq set_from set_to] in H; unfold upd in H.
  all: try (left; exact H).
  all: try (match type of H with context [Nat.eqb ?a ?b] => destruct (Nat.eqb_spec a b) end;
            [try discriminate H; subst; auto|left; exact H]).
Qed.

(* ---------------- the per-thread bypass invariant ---------------- *)
(* F / S = the deques of one thread, pd = 1 iff it has popped a fiber whose state
   it is about to examine, c = number of fibers on the thread, b / st / m = the
   ghost counters *)
Record GT (F S : list nat) (pd c : nat) (b st m : nat -> nat) : Prop := {
  gS : forall g, In g S -> b g + length F + pd + 1 <= m g + st g;
  gF : forall p g, nth_error F p = Some g -> b g + p + pd + 2 <= 2 * m g + st g;
  gC : forall g, In g F \/ In g S -> c <= m g
}.

Definition poppedN (s : st) (g : nat) : Prop := exists t, t < nthr s /\ popT (thr s t) = Some g.

Record GNinv (x : nst) : Prop := {
  q_thr : forall t, t < nthr (nbase x) ->
            GT (FqN (nbase x) t) (SqN (nbase x) t) (pendT (thr (nbase x) t)) (cntT (nbase x) t)
               (nbyp x) (nstl x) (nmx x);
  q_all : forall g, nbyp x g <= 2 * (nmx x g - 1) + nstl x g;
  q_zero : forall g, fstt (nbase x) g = 5%Z \/ (Qcn (dq (nbase x)) (nthr (nbase x)) g = 0 /\ ~ poppedN (nbase x) g) ->
             nbyp x g = 0
}.

(* the other threads: a deque may lose its last element, nothing else changes *)
Definition shrinks (l l' : list nat) : Prop := l' = l \/ exists x, l = l' ++ [x].

Lemma shrinks_In l l' g : shrinks l l' -> In g l' -> In g l.
Proof. intros [->|[x ->]] H; auto. apply in_or_app; auto. Qed.
Lemma shrinks_len l l' : shrinks l l' -> length l' <= length l.
Proof. intros [->|[x ->]]; auto. rewrite app_length. lia. Qed.
Lemma shrinks_nth l l' p g : shrinks l l' -> nth_error l' p = Some g -> nth_error l p = Some g.
Proof.
  intros [->|[x ->]] H; auto. rewrite nth_error_app1; auto. apply nth_error_Some. congruence.
Qed.

Lemma GT_frame F S pd c b st m F' S' c' b' st' m' :
  GT F S pd c b st m -> shrinks F F' -> shrinks S S' -> c' <= c ->
  (forall g, In g F' \/ In g S' -> b' g = b g /\ st' g = st g /\ m' g = m g) ->
  GT F' S' pd c' b' st' m'.
Proof.
  intros [HS HF HC] HsF HsS Hc He. constructor.
  - intros g Hg. destruct (He g (or_intror Hg)) as (-> & -> & ->).
    pose proof (HS g (shrinks_In _ _ _ HsS Hg)). pose proof (shrinks_len _ _ HsF). lia.
  - intros p g Hg. assert (Hin : In g F') by (eapply nth_error_In; eauto).
    destruct (He g (or_introl Hin)) as (-> & -> & ->). apply HF. eapply shrinks_nth; eauto.
  - intros g Hg. destruct (He g Hg) as (_ & _ & ->).
    assert (c <= m g); [|lia]. apply HC. destruct Hg; [left|right]; eapply shrinks_In; eauto.
Qed.

(* the stepping thread, when its deques do not change: the counters of the fibers
   on it may only grow in m *)
Lemma GT_same F S pd pd' c c' b st m b' st' m' :
  GT F S pd c b st m -> pd' <= pd ->
  (forall g, In g F \/ In g S -> b' g = b g /\ st g <= st' g /\ m g <= m' g /\ c' <= m' g) ->
  GT F S pd' c' b' st' m'.
Proof.
  intros [HS HF HC] Hpd Hm. constructor.
  - intros g Hg. destruct (Hm g (or_intror Hg)) as (-> & A & B & C). pose proof (HS g Hg). lia.
  - intros p g Hg. assert (Hin : In g F) by (eapply nth_error_In; eauto).
    destruct (Hm g (or_introl Hin)) as (-> & A & B & C). pose proof (HF p g Hg). lia.
  - intros g Hg. apply (Hm g Hg).
Qed.

(* schedule() / SAVING re-queue: f (counter 0) is pushed on S *)
Lemma GT_push F S c c' b st m b' st' m' f :
  GT F S 0 c b st m ->
  (forall g, In g F \/ In g S -> b' g = b g /\ st g <= st' g /\ m g <= m' g /\ c' <= m' g) ->
  b' f = 0 -> c' <= m' f -> length F + 1 <= c' ->
  GT F (f :: S) 0 c' b' st' m'.
Proof.
  intros [HS HF HC] He Hf Hcf Hl. constructor.
  - intros g [<-|Hg]; [lia|]. destruct (He g (or_intror Hg)) as (-> & E & A & B). pose proof (HS g Hg). lia.
  - intros p g Hg. assert (Hin : In g F) by (eapply nth_error_In; eauto).
    destruct (He g (or_introl Hin)) as (-> & E & A & B). pose proof (HF p g Hg). lia.
  - intros g [Hg|[<-|Hg]]; auto; [apply (He g (or_introl Hg))|apply (He g (or_intror Hg))].
Qed.

(* next(): the swap when the drained deque is empty *)
Lemma GT_swap X c c' b st m b' st' m' :
  GT [] X 0 c b st m -> length X <= c ->
  (forall g, In g X -> b' g = b g /\ st g <= st' g /\ m g <= m' g /\ c' <= m' g) ->
  GT X [] 0 c' b' st' m'.
Proof.
  intros [HS HF HC] Hl He. constructor.
  - intros g [].
  - intros p g Hg. assert (Hin : In g X) by (eapply nth_error_In; eauto).
    assert (p < length X) by (apply nth_error_Some; congruence).
    destruct (He g Hin) as (-> & E & A & B). pose proof (HS g Hin). pose proof (HC g (or_intror Hin)).
    cbn [length] in *. lia.
  - intros g [Hg|[]]. apply (He g Hg).
Qed.

(* next(): pop_bottom *)
Lemma GT_pop y F S c c' b st m b' st' m' :
  GT (y :: F) S 0 c b st m ->
  (forall g, In g F \/ In g S -> b' g = b g /\ st g <= st' g /\ m g <= m' g /\ c' <= m' g) ->
  GT F S 1 c' b' st' m'.
Proof.
  intros [HS HF HC] He. constructor.
  - intros g Hg. destruct (He g (or_intror Hg)) as (-> & A & B & C). pose proof (HS g Hg). cbn [length] in *. lia.
  - intros p g Hg. assert (Hin : In g F) by (eapply nth_error_In; eauto).
    destruct (He g (or_introl Hin)) as (-> & A & B & C). pose proof (HF (Datatypes.S p) g Hg). lia.
  - intros g Hg. apply (He g Hg).
Qed.

(* next() returns the popped fiber: the others are bypassed once more *)
Lemma GT_hand F S c c' b st m b' st' m' :
  GT F S 1 c b st m ->
  (forall g, In g F \/ In g S -> b' g <= b g + 1 /\ st g <= st' g /\ m g <= m' g /\ c' <= m' g) ->
  GT F S 0 c' b' st' m'.
Proof.
  intros [HS HF HC] He. constructor.
  - intros g Hg. destruct (He g (or_intror Hg)) as (A & E & B & C). pose proof (HS g Hg). lia.
  - intros p g Hg. assert (Hin : In g F) by (eapply nth_error_In; eauto).
    destruct (He g (or_introl Hin)) as (A & E & B & C). pose proof (HF p g Hg). lia.
  - intros g Hg. apply (He g Hg).
Qed.

(* load_balance pushes a stolen fiber x (counter 0) in front of F *)
Lemma GT_pushF F S c c' b st m b' st' m' x :
  GT F S 0 c b st m ->
  (forall g, In g F \/ In g S -> b' g = b g /\ st g + 1 <= st' g /\ m g <= m' g /\ c' <= m' g) ->
  b' x = 0 -> c' <= m' x -> 1 <= c' ->
  GT (x :: F) S 0 c' b' st' m'.
Proof.
  intros [HS HF HC] He Hx Hcx Hc1. constructor.
  - intros g Hg. destruct (He g (or_intror Hg)) as (-> & E & A & B). pose proof (HS g Hg). cbn [length]. lia.
  - intros [|p] g Hg; cbn [nth_error] in Hg.
    + inversion Hg; subst. lia.
    + assert (Hin : In g F) by (eapply nth_error_In; eauto).
      destruct (He g (or_introl Hin)) as (-> & E & A & B). pose proof (HF p g Hg). lia.
  - intros g [[<-|Hg]|Hg]; auto; [apply (He g (or_introl Hg))|apply (He g (or_intror Hg))].
Qed.

(* ---------------- exclusivity of places (from conservation) ---------------- *)
Lemma dq_excl N own s d d' g : InvN N own s -> 1 <= d <= 2 * nthr s -> 1 <= d' <= 2 * nthr s ->
  In g (dq s d) -> In g (dq s d') -> d = d'.
Proof.
  intros I Hd Hd' H1 H2. destruct (Nat.eq_dec d d'); auto. exfalso.
  apply cnt_In in H1. apply cnt_In in H2.
  pose proof (Qcn_two (dq s) (nthr s) d d' g Hd Hd' n). pose proof (n_once N s g (m_fib N own s I g)). lia.
Qed.

Lemma held_dq_excl N own s t d g : InvN N own s -> t < nthr s -> 1 <= d <= 2 * nthr s ->
  In g (held (thr s t)) -> ~ In g (dq s d).
Proof.
  intros I Ht Hd H1 H2. apply cnt_In in H1. apply cnt_In in H2.
  pose proof (Hcn_term (thr s) (nthr s) t g Ht). pose proof (Qcn_term (dq s) (nthr s) d g Hd).
  pose proof (n_once N s g (m_fib N own s I g)). lia.
Qed.

Lemma inqN_spec s t g : inqN s t g = true <-> In g (dq s (2 * t + 1)) \/ In g (dq s (2 * t + 2)).
Proof.
  unfold inqN. rewrite existsb_exists, <- in_app_iff. split.
  - intros (y & Hy & E). apply Nat.eqb_eq in E. subst. exact Hy.
  - intros H. exists g. split; auto. apply Nat.eqb_refl.
Qed.

Lemma inqN_false s t g : ~ In g (dq s (2 * t + 1)) -> ~ In g (dq s (2 * t + 2)) -> inqN s t g = false.
Proof.
  intros A B. destruct (inqN s t g) eqn:E; auto. apply inqN_spec in E. tauto.
Qed.

Lemma own_FS N own s t g : InvN N own s -> t < nthr s ->
  (In g (FqN s t) \/ In g (SqN s t) <-> In g (dq s (2 * t + 1)) \/ In g (dq s (2 * t + 2))).
Proof.
  intros I Ht. unfold FqN, SqN. destruct (m_from N own s I t Ht) as [E|E]; rewrite E.
  - replace (4 * t + 3 - (2 * t + 1)) with (2 * t + 2) by lia. tauto.
  - replace (4 * t + 3 - (2 * t + 2)) with (2 * t + 1) by lia. tauto.
Qed.

Lemma own_range N own s t : InvN N own s -> t < nthr s ->
  1 <= sfrom s t <= 2 * nthr s /\ 1 <= 4 * t + 3 - sfrom s t <= 2 * nthr s /\
  sfrom s t <> 4 * t + 3 - sfrom s t /\
  (sfrom s t = 2 * t + 1 \/ sfrom s t = 2 * t + 2) /\
  (4 * t + 3 - sfrom s t = 2 * t + 1 \/ 4 * t + 3 - sfrom s t = 2 * t + 2).
Proof. intros I Ht. destruct (m_from N own s I t Ht); lia. Qed.

Lemma cntT_FS N own s t : InvN N own s -> t < nthr s ->
  cntT s t = length (held (thr s t)) + length (FqN s t) + length (SqN s t).
Proof.
  intros I Ht. unfold cntT, FqN, SqN. destruct (m_from N own s I t Ht) as [E|E]; rewrite E.
  - replace (4 * t + 3 - (2 * t + 1)) with (2 * t + 2) by lia. lia.
  - replace (4 * t + 3 - (2 * t + 2)) with (2 * t + 1) by lia. lia.
Qed.

Lemma inqN_other N own s t u g : InvN N own s -> t < nthr s -> u < nthr s -> t <> u ->
  In g (dq s (2 * t + 1)) \/ In g (dq s (2 * t + 2)) -> inqN s u g = false.
Proof.
  intros I Ht Hu Hne Hg. apply inqN_false; intros Hq; destruct Hg as [Hg|Hg].
  - pose proof (dq_excl N own s (2 * u + 1) (2 * t + 1) g I ltac:(lia) ltac:(lia) Hq Hg). lia.
  - pose proof (dq_excl N own s (2 * u + 1) (2 * t + 2) g I ltac:(lia) ltac:(lia) Hq Hg). lia.
  - pose proof (dq_excl N own s (2 * u + 2) (2 * t + 1) g I ltac:(lia) ltac:(lia) Hq Hg). lia.
  - pose proof (dq_excl N own s (2 * u + 2) (2 * t + 2) g I ltac:(lia) ltac:(lia) Hq Hg). lia.
Qed.

Lemma sumn_pos (f : nat -> nat) n : 1 <= sumn f n -> exists i, i < n /\ 1 <= f i.
Proof.
  induction n; cbn [sumn]; intros H; [lia|].
  destruct (le_lt_dec 1 (f n)) as [A|A]; [exists n; split; auto|].
  destruct IHn as (i & Hi & Hf); [lia|]. exists i. split; auto.
Qed.

Lemma Qcn_pos dqs n g : 1 <= Qcn dqs n g -> exists d, 1 <= d <= 2 * n /\ In g (dqs d).
Proof.
  unfold Qcn. intros H. destruct (sumn_pos _ _ H) as (i & Hi & Hf). exists (S i). split; [lia|].
  apply cnt_In. exact Hf.
Qed.

(* ---------------- one step preserves the bypass invariant ---------------- *)
Section GStep.
  Variables (N : nat) (own : nat -> nat) (x : nst) (u : nat).
  Hypothesis I0 : InvN N own (nbase x).
  Hypothesis G : GNinv x.
  Hypothesis Hu : u < nthr (nbase x).
  Let s := nbase x.
  Let s' := fst (step s u).
  Let I' : InvN N own s' := stepN_inv N own s u I0 Hu.
  Let En : nthr s' = nthr s := step_nthr s u.

  Lemma handout_held y : handout s u = Some y -> In y (held (thr s u)) /\ exists k, pc (thr s u) = PN8 k y.
  Proof.
    unfold handout, held. destruct (pc (thr s u)); try discriminate.
    destruct (Z.eqb (fstt s x0) 5); [discriminate|]. intros E; inversion E; subst. split; [left; reflexivity|eauto].
  Qed.

  Lemma stolen_held y : stolen s s' u = Some y -> In y (held (thr s' u)).
  Proof.
    unfold stolen, held. destruct (pc (thr s u)); try discriminate;
      destruct (pc (thr s' u)); try discriminate; intros E; inversion E; subst; left; reflexivity.
  Qed.

  (* a fiber that is neither handed out nor stolen in this step and is not on u's
     deques keeps its counters *)
  Lemma ghost_same g :
    (forall y, handout s u = Some y -> g <> y) -> (forall y, stolen s s' u = Some y -> g <> y) ->
    inqN s u g = false -> inqN s' u g = false ->
    nbyp (nstep x u) g = nbyp x g /\ nstl (nstep x u) g = nstl x g /\ nmx (nstep x u) g = nmx x g.
  Proof.
    intros Hh Hs Hq Hq'. unfold nstep. cbn [nbyp nstl nmx]. fold s. fold s'. rewrite Hq, Hq'.
    assert (R : is_some_eq (handout s u) g || is_some_eq (stolen s s' u) g = false).
    { apply orb_false_iff. split.
      - destruct (handout s u) as [y|] eqn:E; cbn; auto. apply Nat.eqb_neq. apply Hh; auto.
      - destruct (stolen s s' u) as [y|] eqn:E; cbn; auto. apply Nat.eqb_neq. apply Hs; auto. }
    rewrite R. rewrite andb_false_r. repeat split; destruct (handout s u); auto; destruct (pc (thr s u)); auto.
  Qed.

  (* the deques of the other threads only shrink *)
  Lemma other_shrinks t d : t < nthr s -> t <> u -> (d = 2 * t + 1 \/ d = 2 * t + 2) ->
    shrinks (dq s d) (dq s' d).
  Proof.
    intros Ht Hne Hd. pose proof (own_range N own s u I0 Hu) as (A1 & A2 & A3 & A4 & A5).
    destruct (dq_effect N own s u d I0 Hu) as [E|y E _ _ _ _|f E _ [[-> _]|[-> _]]|y k E _ _ ->].
    - left; exact E.
    - right. exists y. exact E.
    - exfalso. lia.
    - exfalso. lia.
    - exfalso. lia.
  Qed.

  Lemma gn_other t : t < nthr s -> t <> u ->
    GT (FqN s' t) (SqN s' t) (pendT (thr s' t)) (cntT s' t) (nbyp (nstep x u)) (nstl (nstep x u)) (nmx (nstep x u)).
  Proof.
    intros Ht Hne. destruct (step_frame s u t Hne) as (Et & Ef & _). fold s' in Et, Ef.
    pose proof (own_range N own s t I0 Ht) as (A1 & A2 & A3 & A4 & A5).
    pose proof (own_range N own s u I0 Hu) as (B1 & B2 & B3 & B4 & B5).
    assert (HF : shrinks (FqN s t) (FqN s' t)).
    { unfold FqN. rewrite Ef. apply (other_shrinks t); auto. }
    assert (HS : shrinks (SqN s t) (SqN s' t)).
    { unfold SqN. rewrite Ef. apply (other_shrinks t); auto. }
    assert (Ht' : t < nthr s') by (rewrite En; exact Ht).
    rewrite Et. eapply GT_frame; [apply (q_thr x G t Ht)|exact HF|exact HS| |].
    - fold s. rewrite (cntT_FS N own s t I0 Ht), (cntT_FS N own s' t I' Ht'), Et.
      pose proof (shrinks_len _ _ HF). pose proof (shrinks_len _ _ HS). lia.
    - intros g Hg.
      assert (Hg0 : In g (FqN s t) \/ In g (SqN s t)).
      { destruct Hg; [left|right]; eapply shrinks_In; eauto. }
      apply (own_FS N own s t g I0 Ht) in Hg0. apply (own_FS N own s' t g I' Ht') in Hg.
      apply ghost_same.
      + intros y Hy. destruct (handout_held y Hy) as [Hin _]. intros ->.
        destruct Hg0 as [Hg0|Hg0];
          [apply (held_dq_excl N own s u (2 * t + 1) y I0 Hu ltac:(lia) Hin Hg0)
          |apply (held_dq_excl N own s u (2 * t + 2) y I0 Hu ltac:(lia) Hin Hg0)].
      + intros y Hy. pose proof (stolen_held y Hy) as Hin. intros ->.
        assert (Hu' : u < nthr s') by (rewrite En; exact Hu).
        destruct Hg as [Hg|Hg];
          [apply (held_dq_excl N own s' u (2 * t + 1) y I' Hu' ltac:(rewrite En; lia) Hin Hg)
          |apply (held_dq_excl N own s' u (2 * t + 2) y I' Hu' ltac:(rewrite En; lia) Hin Hg)].
      + apply (inqN_other N own s t u g I0 Ht Hu Hne Hg0).
      + apply (inqN_other N own s' t u g I' Ht' ltac:(rewrite En; exact Hu) Hne Hg).
  Qed.

  (* ---- the stepping thread ---- *)
  Lemma pend_pop T : pendT T = match popT T with Some _ => 1 | None => 0 end.
  Proof. unfold pendT, popT. destruct (pc T); reflexivity. Qed.

  Lemma stolen_pc y : stolen s s' u = Some y ->
    (exists k, pc (thr s u) = PL1 k) \/ (exists k i a b c z, pc (thr s u) = PL2 k i a b c z).
  Proof. unfold stolen. destruct (pc (thr s u)); try discriminate; eauto 10. Qed.

  Lemma handout_pc y : handout s u = Some y -> exists k, pc (thr s u) = PN8 k y /\ fstt s y <> 5%Z.
  Proof.
    unfold handout. destruct (pc (thr s u)); try discriminate.
    destruct (Z.eqb_spec (fstt s x0) 5); [discriminate|]. intros E; inversion E; subst. eauto.
  Qed.

  (* no deque changes unless the pc is one of schedule / pop / re-queue / load_balance *)
  Lemma dq_same_pc d :
    (forall f k, pc (thr s u) <> PSched f k) -> (forall k, pc (thr s u) <> PN7 k) ->
    (forall k y, pc (thr s u) <> PN9 k y) -> (forall k, pc (thr s u) <> PL1 k) ->
    (forall k i a b c z, pc (thr s u) <> PL2 k i a b c z) -> dq s' d = dq s d.
  Proof.
    intros H1 H2 H3 H4 H5.
    destruct (dq_effect N own s u d I0 Hu) as [E|y E Hst _ _ _|f E _ [[_ (k & i & a & b & c & Hp)]|[_ (k & [Hp|Hp])]]|y k E Hp _ _].
    - exact E.
    - exfalso. destruct (stolen_pc y Hst) as [(k & Hp)|(k & i & a & b & c & z & Hp)]; [eapply H4|eapply H5]; eauto.
    - exfalso. eapply H5; eauto.
    - exfalso. eapply H1; eauto.
    - exfalso. eapply H3; eauto.
    - exfalso. eapply H2; eauto.
  Qed.

  (* a fiber on u's deques after the step was neither handed out nor stolen in it,
     and its nmx is the maximum with u's current population *)
  Lemma own_after g : In g (dq s' (2 * u + 1)) \/ In g (dq s' (2 * u + 2)) ->
    (forall y, stolen s s' u = Some y -> g <> y) /\ inqN s' u g = true.
  Proof.
    intros Hg. split; [|apply inqN_spec; exact Hg].
    intros y Hy. pose proof (stolen_held y Hy) as Hin. intros ->.
    assert (Hu' : u < nthr s') by (rewrite En; exact Hu).
    destruct Hg as [Hg|Hg];
      [apply (held_dq_excl N own s' u (2 * u + 1) y I' Hu' ltac:(rewrite En; lia) Hin Hg)
      |apply (held_dq_excl N own s' u (2 * u + 2) y I' Hu' ltac:(rewrite En; lia) Hin Hg)].
  Qed.

  Lemma rst_false g :
    (forall y, handout s u = Some y -> g <> y) -> (forall y, stolen s s' u = Some y -> g <> y) ->
    is_some_eq (handout s u) g || is_some_eq (stolen s s' u) g = false.
  Proof.
    intros Hh Hs. apply orb_false_iff. split.
    - destruct (handout s u) as [y|] eqn:E; cbn; auto. apply Nat.eqb_neq. apply Hh; auto.
    - destruct (stolen s s' u) as [y|] eqn:E; cbn; auto. apply Nat.eqb_neq. apply Hs; auto.
  Qed.

  (* a fiber held by u (and not being examined at PN8) has bypass counter 0 *)
  Lemma held_byp0 f : In f (held (thr s u)) -> popT (thr s u) <> Some f -> nbyp x f = 0.
  Proof.
    intros Hin Hp. apply (q_zero x G). right. fold s. split.
    - apply cnt_In in Hin. pose proof (Hcn_term (thr s) (nthr s) u f Hu).
      pose proof (n_once N s f (m_fib N own s I0 f)). lia.
    - intros (t & Ht & Hpt). destruct (Nat.eq_dec t u) as [->|Hne]; [congruence|].
      assert (Hin' : In f (held (thr s t))).
      { unfold popT in Hpt. unfold held. destruct (pc (thr s t)); try discriminate. inversion Hpt; subst. left; reflexivity. }
      apply cnt_In in Hin. apply cnt_In in Hin'.
      pose proof (Hcn_two (thr s) (nthr s) t u f Ht Hu Hne). pose proof (n_once N s f (m_fib N own s I0 f)). lia.
  Qed.

  (* the ghost counters after the step, for a fiber that is not reset *)
  Lemma ghost_vals g :
    is_some_eq (handout s u) g || is_some_eq (stolen s s' u) g = false ->
    (handout s u = None -> nbyp (nstep x u) g = nbyp x g) /\
    nbyp (nstep x u) g <= nbyp x g + 1 /\
    nstl x g <= nstl (nstep x u) g /\
    ((exists k i a b c z, pc (thr s u) = PL2 k i a b c z) -> inqN s u g = true ->
       nstl (nstep x u) g = S (nstl x g)) /\
    (inqN s' u g = true -> nmx (nstep x u) g = Nat.max (nmx x g) (cntT s' u)).
  Proof.
    intros R. unfold nstep; cbn [nbyp nstl nmx]. fold s; fold s'. rewrite R.
    split; [intros ->; reflexivity|]. split.
    { destruct (handout s u); [destruct (_ && _)|]; lia. }
    split. { destruct (pc (thr s u)); try lia. destruct (inqN s u g); lia. }
    split. { intros (k & i & a & b & c & z & ->) ->. reflexivity. }
    intros ->. reflexivity.
  Qed.

  Lemma own_dq_after d g : (d = 2 * u + 1 \/ d = 2 * u + 2) -> In g (dq s' d) ->
    In g (dq s' (2 * u + 1)) \/ In g (dq s' (2 * u + 2)).
  Proof. intros [->| ->] H; auto. Qed.

  Lemma own_ghost g : In g (dq s' (2 * u + 1)) \/ In g (dq s' (2 * u + 2)) ->
    (forall y, handout s u = Some y -> g <> y) ->
    (handout s u = None -> nbyp (nstep x u) g = nbyp x g) /\
    nbyp (nstep x u) g <= nbyp x g + 1 /\
    nstl x g <= nstl (nstep x u) g /\
    ((exists k i a b c z, pc (thr s u) = PL2 k i a b c z) -> inqN s u g = true ->
       nstl (nstep x u) g = S (nstl x g)) /\
    nmx x g <= nmx (nstep x u) g /\ cntT s' u <= nmx (nstep x u) g.
  Proof.
    intros Hg Hh. destruct (own_after g Hg) as [Hs Hq].
    destruct (ghost_vals g (rst_false g Hh Hs)) as (A & B & C & D & E).
    rewrite (E Hq). repeat split; auto; lia.
  Qed.

  (* a fiber held by u that is not being handed out keeps byp = 0 when it is pushed *)
  Lemma pushed_byp0 f : In f (held (thr s u)) -> handout s u = None -> popT (thr s u) <> Some f ->
    (forall y, stolen s s' u = Some y -> f <> y) -> nbyp (nstep x u) f = 0.
  Proof.
    intros Hin Hh Hp Hs.
    assert (R : is_some_eq (handout s u) f || is_some_eq (stolen s s' u) f = false).
    { apply rst_false; auto. intros y Hy. congruence. }
    destruct (ghost_vals f R) as (A & _). rewrite (A Hh). apply held_byp0; auto.
  Qed.

  Lemma popT_after_none : (forall k, pc (thr s u) <> PN7 k) -> popT (thr s' u) = None.
  Proof.
    intros H. destruct (popT (thr s' u)) as [y|] eqn:E; auto.
    destruct (pop_effect N own s u y I0 Hu E) as (k & Hp & _). exfalso. eapply H; eauto.
  Qed.

  Notation GTu := (GT (FqN s' u) (SqN s' u) (pendT (thr s' u)) (cntT s' u)
                      (nbyp (nstep x u)) (nstl (nstep x u)) (nmx (nstep x u))).

  Lemma sf_same : (forall k tmp sv, pc (thr s u) <> PN4 k tmp sv) -> sfrom s' u = sfrom s u.
  Proof.
    intros H. destruct (sf_effect s u) as [E|(k & tmp & sv & Hp & _)]; auto. exfalso. eapply H; eauto.
  Qed.

  Lemma handout_none : (forall k y, pc (thr s u) <> PN8 k y) -> handout s u = None.
  Proof. intros H. unfold handout. destruct (pc (thr s u)) eqn:E; auto. exfalso. eapply H; eauto. Qed.

  Lemma pend_none : (forall k y, pc (thr s u) <> PN8 k y) -> pendT (thr s u) = 0.
  Proof. intros H. unfold pendT. destruct (pc (thr s u)) eqn:E; auto. exfalso. eapply H; eauto. Qed.

  (* the deques of u do not change, no swap, u is not examining a popped fiber *)
  Lemma gn_own_same :
    sfrom s' u = sfrom s u -> dq s' (sfrom s u) = dq s (sfrom s u) ->
    dq s' (4 * u + 3 - sfrom s u) = dq s (4 * u + 3 - sfrom s u) ->
    handout s u = None -> popT (thr s' u) = None -> GTu.
  Proof.
    intros Esf EF ES Hh Hp. pose proof (q_thr x G u Hu) as GU. fold s in GU.
    pose proof (own_range N own s u I0 Hu) as (A1 & A2 & A3 & A4 & A5).
    unfold FqN, SqN in *. rewrite Esf, EF, ES. rewrite pend_pop, Hp.
    eapply GT_same; [exact GU|lia|].
    intros g Hg.
    assert (Hg' : In g (dq s' (2 * u + 1)) \/ In g (dq s' (2 * u + 2))).
    { rewrite <- EF, <- ES in Hg. destruct Hg as [Hg|Hg]; [destruct A4 as [E|E]|destruct A5 as [E|E]]; rewrite E in Hg; auto. }
    destruct (own_ghost g Hg') as (B1 & B2 & B3 & B4 & B5 & B6); [intros y Hy; congruence|].
    repeat split; auto.
  Qed.

  (* what u's own deques look like after its step, for the pcs that touch them *)
  Lemma own_push f : (exists k, pc (thr s u) = PSched f k) \/ (exists k, pc (thr s u) = PN9 k f) ->
    dq s' (4 * u + 3 - sfrom s u) = f :: dq s (4 * u + 3 - sfrom s u) /\ dq s' (sfrom s u) = dq s (sfrom s u).
  Proof.
    intros Hp. pose proof (own_range N own s u I0 Hu) as (A1 & A2 & A3 & A4 & A5).
    pose proof (m_ts N own s I0) as Hts. pose proof (m_to N own s I0 u Hu) as Hto.
    unfold s'. unfold step. destruct Hp as [(k & Hpc)|(k & Hpc)]; rewrite Hpc.
    - rewrite Hts, Hto by (intros ? ?; rewrite Hpc; discriminate).
      split; destruct k; dmatch; cbn [fst dq set_thr set_dq]; rewrite ?upd_same; auto; apply upd_other; auto.
    - rewrite Hto by (intros ? ?; rewrite Hpc; discriminate). cbn [fst dq set_thr set_dq].
      split; [apply upd_same|apply upd_other; auto].
  Qed.

  Lemma own_pop k : pc (thr s u) = PN7 k ->
    (dq s (sfrom s u) = [] /\ (forall d, dq s' d = dq s d) /\ popT (thr s' u) = None) \/
    (exists y, dq s (sfrom s u) = y :: dq s' (sfrom s u) /\
               dq s' (4 * u + 3 - sfrom s u) = dq s (4 * u + 3 - sfrom s u) /\ popT (thr s' u) = Some y).
  Proof.
    intros Hpc. pose proof (own_range N own s u I0 Hu) as (A1 & A2 & A3 & A4 & A5).
    unfold s'. unfold step. rewrite Hpc. destruct (dq s (sfrom s u)) as [|y rest] eqn:EF.
    - left. cbn [fst dq thr set_thr]. rewrite upd_same. auto.
    - right. exists y. cbn [fst dq thr set_thr set_dq]. rewrite !upd_same. rewrite upd_other by auto. auto.
  Qed.

  Lemma own_lb1 k : pc (thr s u) = PL1 k ->
    dq s' (sfrom s u) = dq s (sfrom s u) /\ dq s' (4 * u + 3 - sfrom s u) = dq s (4 * u + 3 - sfrom s u).
  Proof.
    intros Hpc. pose proof (own_range N own s u I0 Hu) as (A1 & A2 & A3 & A4 & A5).
    unfold s'. unfold step. rewrite Hpc. rewrite fst_let2.
    destruct (lb_effect s u (thr s u) k (2 * (u + 1)) (length (dq s (sfrom s u))) 50 None Hu (Nat.le_refl _))
      as [(A & B & B')|(dv & y & l & i' & a & b & c & A & B & C & D1 & D2 & D3)].
    - rewrite !A. auto.
    - rewrite B. rewrite !upd_other by lia. auto.
  Qed.

  Lemma own_lb2 k i lc rc ms x0 : pc (thr s u) = PL2 k i lc rc ms x0 ->
    dq s' (sfrom s u) = x0 :: dq s (sfrom s u) /\ dq s' (4 * u + 3 - sfrom s u) = dq s (4 * u + 3 - sfrom s u).
  Proof.
    intros Hpc. pose proof (own_range N own s u I0 Hu) as (A1 & A2 & A3 & A4 & A5).
    pose proof (m_loc N own s I0 u Hu) as L. unfold lokN in L. rewrite Hpc in L. destruct L as (_ & _ & Hi).
    unfold s'. unfold step. rewrite Hpc. rewrite fst_let2.
    assert (Hu0 : u < nthr (set_dq s (sfrom s u) (x0 :: dq s (sfrom s u)))) by exact Hu.
    destruct (lb_effect _ u (thr s u) k i (S lc) (ms - 1) (Some (rc - 1)) Hu0 Hi)
      as [(A & B & B')|(dv & y & l & i' & a & b & c & A & B & C & D1 & D2 & D3)].
    - rewrite !A. cbn [dq set_dq]. rewrite upd_same, upd_other by auto. auto.
    - rewrite B. cbn [nthr set_dq] in D1. rewrite !upd_other by lia. cbn [dq set_dq].
      rewrite upd_same, upd_other by auto. auto.
  Qed.

  Lemma stolen_none : (forall k, pc (thr s u) <> PL1 k) -> (forall k i a b c z, pc (thr s u) <> PL2 k i a b c z) ->
    stolen s s' u = None.
  Proof.
    intros H1 H2. destruct (stolen s s' u) as [y|] eqn:E; auto. exfalso.
    destruct (stolen_pc y E) as [(k & Hp)|(k & i & a & b & c & z & Hp)]; [eapply H1|eapply H2]; eauto.
  Qed.

  Lemma in_own_after g : In g (dq s' (sfrom s u)) \/ In g (dq s' (4 * u + 3 - sfrom s u)) ->
    In g (dq s' (2 * u + 1)) \/ In g (dq s' (2 * u + 2)).
  Proof.
    pose proof (own_range N own s u I0 Hu) as (A1 & A2 & A3 & A4 & A5).
    intros [Hg|Hg]; [destruct A4 as [E|E]|destruct A5 as [E|E]]; rewrite E in Hg; auto.
  Qed.

  (* schedule() / SAVING re-queue *)
  Lemma gn_own_push f : (exists k, pc (thr s u) = PSched f k) \/ (exists k, pc (thr s u) = PN9 k f) -> GTu.
  Proof.
    intros Hp. destruct (own_push f Hp) as [ES EF].
    pose proof (q_thr x G u Hu) as GU. fold s in GU.
    pose proof (own_range N own s u I0 Hu) as (A1 & A2 & A3 & A4 & A5).
    assert (Hu' : u < nthr s') by (rewrite En; exact Hu).
    assert (Esf : sfrom s' u = sfrom s u) by (apply sf_same; intros ? ? ? E; destruct Hp as [(k0 & Hp0)|(k0 & Hp0)]; congruence).
    assert (Hh : handout s u = None) by (apply handout_none; intros ? ? E; destruct Hp as [(k0 & Hp0)|(k0 & Hp0)]; congruence).
    assert (Hpd : pendT (thr s u) = 0) by (apply pend_none; intros ? ? E; destruct Hp as [(k0 & Hp0)|(k0 & Hp0)]; congruence).
    assert (Hp' : popT (thr s' u) = None) by (apply popT_after_none; intros ? E; destruct Hp as [(k0 & Hp0)|(k0 & Hp0)]; congruence).
    assert (Hst : stolen s s' u = None)
      by (apply stolen_none; [intros ? E|intros ? ? ? ? ? ? E]; destruct Hp as [(k0 & Hp0)|(k0 & Hp0)]; congruence).
    assert (Hin : In f (held (thr s u))).
    { pose proof (m_loc N own s I0 u Hu) as L. unfold lokN in L. unfold held.
      destruct Hp as [(k & Hp)|(k & Hp)]; rewrite Hp in *; [|left; reflexivity].
      destruct L as [_ L]. destruct k; try contradiction; try (left; reflexivity).
      destruct L as (Hc & Hc0 & _). rewrite Hc in *. destruct f; [congruence|]. right; left; reflexivity. }
    assert (Hpf : popT (thr s u) <> Some f).
    { unfold popT. destruct Hp as [(k & Hp)|(k & Hp)]; rewrite Hp; discriminate. }
    pose proof (cntT_FS N own s' u I' Hu') as Ec. unfold FqN, SqN in *. rewrite Esf, ES, EF in *.
    rewrite pend_pop, Hp'. rewrite Hpd in GU.
    assert (Hgh : forall g, In g (dq s' (sfrom s u)) \/ In g (dq s' (4 * u + 3 - sfrom s u)) ->
              nbyp (nstep x u) g = nbyp x g /\ nstl x g <= nstl (nstep x u) g /\
              nmx x g <= nmx (nstep x u) g /\ cntT s' u <= nmx (nstep x u) g).
    { intros g Hg. destruct (own_ghost g (in_own_after g Hg)) as (B1 & B2 & B3 & B4 & B5 & B6); [intros y Hy; congruence|].
      repeat split; auto. }
    eapply GT_push; [exact GU| | | |].
    - intros g Hg. apply Hgh. rewrite ES, EF. destruct Hg; [left|right; right]; auto.
    - apply pushed_byp0; auto. intros y Hy. congruence.
    - apply Hgh. right. rewrite ES. left; reflexivity.
    - rewrite Ec. cbn [length]. lia.
  Qed.

  (* next(): pop_bottom *)
  Lemma gn_own_pop k : pc (thr s u) = PN7 k -> GTu.
  Proof.
    intros Hpc. pose proof (q_thr x G u Hu) as GU. fold s in GU.
    assert (Esf : sfrom s' u = sfrom s u) by (apply sf_same; intros ? ? ? E; congruence).
    assert (Hh : handout s u = None) by (apply handout_none; intros ? ? E; congruence).
    assert (Hpd : pendT (thr s u) = 0) by (apply pend_none; intros ? ? E; congruence).
    destruct (own_pop k Hpc) as [(EF & Ed & Hp')|(y & EF & ES & Hp')].
    - apply gn_own_same; auto.
    - unfold FqN, SqN in *. rewrite Esf, ES. rewrite pend_pop, Hp'. rewrite Hpd, EF in GU.
      eapply GT_pop; [exact GU|]. intros g Hg.
      assert (Hg' : In g (dq s' (sfrom s u)) \/ In g (dq s' (4 * u + 3 - sfrom s u))) by (rewrite ES; exact Hg).
      destruct (own_ghost g (in_own_after g Hg')) as (B1 & B2 & B3 & B4 & B5 & B6); [intros z Hz; congruence|].
      repeat split; auto.
  Qed.

  (* next() examines the popped fiber: hand-out, or SAVING re-queue *)
  Lemma gn_own_pn8 k y : pc (thr s u) = PN8 k y -> GTu.
  Proof.
    intros Hpc. pose proof (q_thr x G u Hu) as GU. fold s in GU.
    pose proof (own_range N own s u I0 Hu) as (A1 & A2 & A3 & A4 & A5).
    assert (Esf : sfrom s' u = sfrom s u) by (apply sf_same; intros ? ? ? E; congruence).
    assert (Ed : forall d, dq s' d = dq s d).
    { intros d. apply dq_same_pc; intros; congruence. }
    assert (Hp' : popT (thr s' u) = None) by (apply popT_after_none; intros ? E; congruence).
    destruct (handout s u) as [z|] eqn:Hh; [|apply gn_own_same; auto].
    destruct (handout_held z Hh) as [Hin _].
    assert (Hpd : pendT (thr s u) = 1) by (unfold pendT; rewrite Hpc; reflexivity).
    unfold FqN, SqN in *. rewrite Esf, !Ed. rewrite pend_pop, Hp'. rewrite Hpd in GU.
    eapply GT_hand; [exact GU|]. intros g Hg.
    assert (Hg' : In g (dq s' (sfrom s u)) \/ In g (dq s' (4 * u + 3 - sfrom s u))) by (rewrite !Ed; exact Hg).
    destruct (own_ghost g (in_own_after g Hg')) as (B1 & B2 & B3 & B4 & B5 & B6).
    - intros z' Hz'. rewrite Hh in Hz'. inversion Hz'; subst z'. intros ->.
      destruct Hg as [Hg|Hg];
        [apply (held_dq_excl N own s u (sfrom s u) z I0 Hu A1 Hin Hg)
        |apply (held_dq_excl N own s u (4 * u + 3 - sfrom s u) z I0 Hu A2 Hin Hg)].
    - repeat split; auto.
  Qed.

  (* next(): the swap *)
  Lemma gn_own_swap k tmp sv : pc (thr s u) = PN4 k tmp sv -> GTu.
  Proof.
    intros Hpc. pose proof (q_thr x G u Hu) as GU. fold s in GU.
    pose proof (own_range N own s u I0 Hu) as (A1 & A2 & A3 & A4 & A5).
    assert (Hu' : u < nthr s') by (rewrite En; exact Hu).
    pose proof (m_loc N own s I0 u Hu) as L. unfold lokN in L. rewrite Hpc in L. destruct L as (_ & HF & _ & Hsv).
    assert (Esf : sfrom s' u = sv).
    { destruct (sf_effect s u) as [E|(k' & tmp' & sv' & Hp & E)]; [|fold s' in E; congruence].
      exfalso. unfold s' in E. unfold step in E. rewrite Hpc in E. cbn [fst sfrom set_thr set_from] in E. rewrite upd_same in E. lia. }
    assert (Ed : forall d, dq s' d = dq s d) by (intros d; apply dq_same_pc; intros; congruence).
    assert (Hh : handout s u = None) by (apply handout_none; intros ? ? E; congruence).
    assert (Hpd : pendT (thr s u) = 0) by (apply pend_none; intros ? ? E; congruence).
    assert (Hp' : popT (thr s' u) = None) by (apply popT_after_none; intros ? E; congruence).
    pose proof (cntT_FS N own s u I0 Hu) as Ec.
    unfold FqN, SqN in *. rewrite Esf, !Ed. rewrite pend_pop, Hp'. rewrite Hpd, HF in GU. subst sv.
    replace (4 * u + 3 - (4 * u + 3 - sfrom s u)) with (sfrom s u) by lia. rewrite HF.
    eapply GT_swap; [exact GU|rewrite Ec; lia|]. intros g Hg.
    assert (Hg' : In g (dq s' (sfrom s u)) \/ In g (dq s' (4 * u + 3 - sfrom s u))) by (rewrite !Ed; auto).
    destruct (own_ghost g (in_own_after g Hg')) as (B1 & B2 & B3 & B4 & B5 & B6); [intros z Hz; congruence|].
    repeat split; auto.
  Qed.

  (* load_balance *)
  Lemma gn_own_lb1 k : pc (thr s u) = PL1 k -> GTu.
  Proof.
    intros Hpc. destruct (own_lb1 k Hpc) as [EF ES].
    apply gn_own_same; auto.
    - apply sf_same; intros ? ? ? E; congruence.
    - apply handout_none; intros ? ? E; congruence.
    - apply popT_after_none; intros ? E; congruence.
  Qed.

  Lemma gn_own_lb2 k i lc rc ms x0 : pc (thr s u) = PL2 k i lc rc ms x0 -> GTu.
  Proof.
    intros Hpc. destruct (own_lb2 k i lc rc ms x0 Hpc) as [EF ES].
    pose proof (q_thr x G u Hu) as GU. fold s in GU.
    pose proof (own_range N own s u I0 Hu) as (A1 & A2 & A3 & A4 & A5).
    assert (Hu' : u < nthr s') by (rewrite En; exact Hu).
    assert (Esf : sfrom s' u = sfrom s u) by (apply sf_same; intros ? ? ? E; congruence).
    assert (Hh : handout s u = None) by (apply handout_none; intros ? ? E; congruence).
    assert (Hpd : pendT (thr s u) = 0) by (apply pend_none; intros ? ? E; congruence).
    assert (Hp' : popT (thr s' u) = None) by (apply popT_after_none; intros ? E; congruence).
    assert (Hin : In x0 (held (thr s u))) by (unfold held; rewrite Hpc; left; reflexivity).
    pose proof (cntT_FS N own s' u I' Hu') as Ec. unfold FqN, SqN in *. rewrite Esf, ES, EF in *.
    rewrite pend_pop, Hp'. rewrite Hpd in GU.
    assert (Hx0 : In x0 (dq s' (sfrom s u))) by (rewrite EF; left; reflexivity).
    eapply GT_pushF; [exact GU| | | |].
    - intros g Hg.
      assert (Hg' : In g (dq s' (sfrom s u)) \/ In g (dq s' (4 * u + 3 - sfrom s u))).
      { rewrite EF, ES. destruct Hg; [left; right|right]; auto. }
      destruct (own_ghost g (in_own_after g Hg')) as (B1 & B2 & B3 & B4 & B5 & B6); [intros z Hz; congruence|].
      assert (Hq : inqN s u g = true).
      { apply inqN_spec. apply (own_FS N own s u g I0 Hu). exact Hg. }
      rewrite (B4 ltac:(eauto 10) Hq). repeat split; auto; lia.
    - apply pushed_byp0; auto.
      + unfold popT. rewrite Hpc. discriminate.
      + intros y Hy. pose proof (stolen_held y Hy) as Hiy. intros ->.
        apply (held_dq_excl N own s' u (sfrom s u) y I' Hu' ltac:(rewrite En; lia) Hiy Hx0).
    - destruct (own_ghost x0 (in_own_after x0 (or_introl Hx0))) as (B1 & B2 & B3 & B4 & B5 & B6); [intros z Hz; congruence|].
      exact B6.
    - rewrite Ec. cbn [length]. lia.
  Qed.

  Lemma gn_own : GTu.
  Proof.
    destruct (pc (thr s u)) eqn:Hpc.
    all: try (apply gn_own_same;
              [apply sf_same; intros ? ? ? E; congruence
              |apply dq_same_pc; intros; congruence
              |apply dq_same_pc; intros; congruence
              |apply handout_none; intros ? ? E; congruence
              |apply popT_after_none; intros ? E; congruence]; fail).
    - apply (gn_own_push f). left; eauto.
    - eapply gn_own_swap; eauto.
    - eapply gn_own_pop; eauto.
    - eapply gn_own_pn8; eauto.
    - apply (gn_own_push x0). right; eauto.
    - eapply gn_own_lb1; eauto.
    - eapply gn_own_lb2; eauto.
  Qed.

  (* the other possibilities for a counter that is not reset *)
  Lemma ghost_vals2 g :
    is_some_eq (handout s u) g || is_some_eq (stolen s s' u) g = false ->
    nmx x g <= nmx (nstep x u) g /\
    (nbyp (nstep x u) g = nbyp x g \/
     (nbyp (nstep x u) g = S (nbyp x g) /\ (exists y, handout s u = Some y) /\
      inqN s u g = true /\ fstt s g <> 5%Z)).
  Proof.
    intros R. unfold nstep; cbn [nbyp nstl nmx]. fold s; fold s'. rewrite R. split.
    - destruct (inqN s' u g); lia.
    - destruct (handout s u) as [y|]; [|left; reflexivity].
      destruct (Z.eqb_spec (fstt s g) 5); cbn [negb andb]; [left; reflexivity|].
      destruct (inqN s u g); [right; repeat split; eauto|left; reflexivity].
  Qed.

  Lemma rst_true_zero g :
    is_some_eq (handout s u) g || is_some_eq (stolen s s' u) g = true ->
    nbyp (nstep x u) g = 0 /\ nstl (nstep x u) g = 0 /\ nmx (nstep x u) g = 0.
  Proof. intros R. unfold nstep; cbn [nbyp nstl nmx]. fold s; fold s'. rewrite R. auto. Qed.

  Lemma gn_all g : nbyp (nstep x u) g <= 2 * (nmx (nstep x u) g - 1) + nstl (nstep x u) g.
  Proof.
    destruct (is_some_eq (handout s u) g || is_some_eq (stolen s s' u) g) eqn:R.
    - destruct (rst_true_zero g R) as (-> & -> & ->). lia.
    - destruct (ghost_vals g R) as (_ & _ & Hst & _). destruct (ghost_vals2 g R) as (Hm & [Hb|(Hb & (y & Hy) & Hq & H5)]).
      + pose proof (q_all x G g). lia.
      + (* g is bypassed by this hand-out: it is on u's deques, use the potential *)
        destruct (handout_pc y Hy) as (k & Hpc & _).
        pose proof (q_thr x G u Hu) as [HS HF HC]. fold s in HS, HF, HC.
        assert (Hpd : pendT (thr s u) = 1) by (unfold pendT; rewrite Hpc; reflexivity). rewrite Hpd in *.
        apply inqN_spec in Hq. apply (own_FS N own s u g I0 Hu) in Hq.
        assert (Hc1 : 1 <= cntT s u).
        { rewrite (cntT_FS N own s u I0 Hu). destruct Hq as [Hq|Hq]; apply cnt_In in Hq;
            [destruct (FqN s u)|destruct (SqN s u)]; cbn [cnt length] in *; lia. }
        pose proof (HC g Hq) as Hcg. rewrite Hb.
        destruct Hq as [Hq|Hq].
        * apply In_nth_error in Hq. destruct Hq as [p Hp]. pose proof (HF p g Hp). lia.
        * pose proof (HS g Hq). lia.
  Qed.

  Lemma gn_zero g :
    fstt s' g = 5%Z \/ (Qcn (dq s') (nthr s') g = 0 /\ ~ poppedN s' g) -> nbyp (nstep x u) g = 0.
  Proof.
    intros Hz.
    destruct (is_some_eq (handout s u) g || is_some_eq (stolen s s' u) g) eqn:R.
    { apply (rst_true_zero g R). }
    assert (Hu' : u < nthr s') by (rewrite En; exact Hu).
    destruct (ghost_vals2 g R) as (_ & [Hb|(Hb & (y & Hy) & Hq & H5)]).
    - rewrite Hb. apply orb_false_iff in R. destruct R as [R1 R2].
      destruct Hz as [Hz|[HQ HP]].
      + destruct (fs5_effect s u g Hz) as [E|E]; [apply (q_zero x G); left; exact E|].
        apply held_byp0; [unfold held; rewrite E; left; reflexivity|unfold popT; rewrite E; discriminate].
      + (* g was not queued and not popped before either, or it is SAVING *)
        destruct (Z.eq_dec (fstt s g) 5) as [E5|E5]; [apply (q_zero x G); left; exact E5|].
        apply (q_zero x G). right. fold s. split.
        * destruct (Qcn (dq s) (nthr s) g) eqn:EQ; auto. exfalso.
          destruct (Qcn_pos (dq s) (nthr s) g ltac:(lia)) as (d & Hd & Hin).
          assert (Hd' : 1 <= d <= 2 * nthr s') by (rewrite En; exact Hd).
          assert (Hno : ~ In g (dq s' d)).
          { intros Hi. apply cnt_In in Hi. pose proof (Qcn_term (dq s') (nthr s') d g Hd'). lia. }
          destruct (dq_effect N own s u d I0 Hu : dqeff s s' u d) as [E|z E Hst _ _ _|f E _ _|z k E _ Hp' _].
          -- rewrite E in Hno. auto.
          -- rewrite E in Hin. apply in_app_or in Hin. destruct Hin as [Hin|[<-|[]]]; [auto|].
             rewrite Hst in R2. cbn in R2. rewrite Nat.eqb_refl in R2. discriminate.
          -- rewrite E in Hno. apply Hno. right; exact Hin.
          -- rewrite E in Hin. destruct Hin as [<-|Hin]; [|auto].
             apply HP. exists u. split; auto. unfold popT. rewrite Hp'. reflexivity.
        * intros (t & Ht & Hpt). destruct (Nat.eq_dec t u) as [->|Hne].
          -- unfold popT in Hpt. destruct (pc (thr s u)) eqn:Hpc; try discriminate. inversion Hpt; subst x0.
             unfold handout in R1. rewrite Hpc in R1. destruct (Z.eqb_spec (fstt s g) 5); [contradiction|].
             cbn in R1. rewrite Nat.eqb_refl in R1. discriminate.
          -- apply HP. exists t. split; [rewrite En; exact Ht|].
             destruct (step_frame s u t Hne) as (Et & _). fold s' in Et. rewrite Et. exact Hpt.
    - (* bypassed now: then it is still queued and not SAVING, so the premise is false *)
      exfalso. destruct (handout_pc y Hy) as (k & Hpc & _).
      assert (Ed : forall d, dq s' d = dq s d) by (intros d; apply dq_same_pc; intros; congruence).
      apply inqN_spec in Hq. destruct Hz as [Hz|[HQ _]].
      + destruct (fs5_effect s u g Hz) as [E|E]; [contradiction|congruence].
      + destruct Hq as [Hq|Hq]; rewrite <- Ed in Hq; apply cnt_In in Hq;
          [pose proof (Qcn_term (dq s') (nthr s') (2 * u + 1) g ltac:(rewrite En; lia))
          |pose proof (Qcn_term (dq s') (nthr s') (2 * u + 2) g ltac:(rewrite En; lia))]; lia.
  Qed.

  Theorem gn_step : GNinv (nstep x u).
  Proof.
    constructor; cbn [nbase nstep]; fold s; fold s'.
    - intros t Ht. rewrite En in Ht. destruct (Nat.eq_dec t u) as [->|Hne]; [apply gn_own|apply gn_other; auto].
    - apply gn_all.
    - apply gn_zero.
  Qed.
End GStep.

Lemma ginitN progs : GNinv (ninit true progs).
Proof.
  constructor; cbn [nbase ninit nbyp nstl nmx]; auto; try lia.
  intros t Ht. unfold FqN, SqN. cbn [init fst dq]. constructor.
  - intros g [].
  - intros [|p] g H; discriminate.
  - intros g [[]|[]].
Qed.

Theorem nreach_inv N own progs x : progs_ok N own progs -> nreach true progs x ->
  InvN N own (nbase x) /\ GNinv x.
Proof.
  intros Hp R. induction R as [|x t R [IH1 IH2] Hst].
  - split; [apply init_invN; exact Hp|apply ginitN].
  - pose proof (ready_lt _ _ Hst) as Ht. split.
    + apply stepN_inv; auto.
    + apply (gn_step N own x t IH1 IH2 Ht).
Qed.

(* only thread t adds to t's deques: a step of another thread leaves each of
   them unchanged or removes its last element (a steal) *)
Lemma others_only_steal N own s u t d : InvN N own s -> u < nthr s -> t < nthr s -> t <> u ->
  (d = 2 * t + 1 \/ d = 2 * t + 2) -> shrinks (dq s d) (dq (fst (step s u)) d).
Proof. intros I Hu Ht Hne Hd. apply (other_shrinks N own {| nbase := s; nbyp := fun _ => 0; nstl := fun _ => 0; nmx := fun _ => 0 |} u I Hu t d Ht Hne Hd). Qed.

(* nmx never exceeds the number of fibers that exist *)
Lemma length_flat_map_seq (f : nat -> list nat) n : length (flat_map f (seq 0 n)) = sumn (fun i => length (f i)) n.
Proof.
  induction n; [reflexivity|]. rewrite seq_S, flat_map_app, app_length, IHn. cbn [flat_map sumn Nat.add].
  rewrite app_nil_r. reflexivity.
Qed.

Lemma cntT_le N own s t : InvN N own s -> t < nthr s -> cntT s t <= N.
Proof.
  intros I Ht. destruct (conservation_of_invN N own s I) as (_ & _ & _ & _ & _ & _ & _ & Hl & _).
  unfold placesN in Hl. rewrite app_length, !length_flat_map_seq in Hl.
  pose proof (sumn_term (fun i => length (held (thr s i))) (nthr s) t Ht) as H1. cbn beta in H1.
  pose proof (sumn_two (fun i => length (dq s (S i))) (2 * nthr s) (2 * t) (2 * t + 1) ltac:(lia) ltac:(lia) ltac:(lia)) as H2.
  cbn beta in H2. unfold cntT. replace (2 * t + 1) with (S (2 * t)) by lia. replace (2 * t + 2) with (S (2 * t + 1)) by lia. lia.
Qed.

Lemma nmx_le N own progs x g : progs_ok N own progs -> nreach true progs x -> nmx x g <= N.
Proof.
  intros Hp R. induction R as [|x t R IH Hst]; [cbn; lia|].
  destruct (nreach_inv N own progs x Hp R) as [I _]. pose proof (ready_lt _ _ Hst) as Ht.
  pose proof (stepN_inv N own (nbase x) t I Ht) as I'.
  pose proof (cntT_le N own _ t I' ltac:(rewrite step_nthr; exact Ht)).
  unfold nstep; cbn [nmx]. destruct (_ || _); [lia|]. destruct (inqN _ _ _); lia.
Qed.

(* ---------------- the statements used by Properties_C10.v ---------------- *)
Lemma bypass_bound_N N own progs x : progs_ok N own progs -> nreach true progs x ->
  (forall g, nbyp x g <= 2 * (nmx x g - 1) + nstl x g /\ nmx x g <= N) /\
  (forall t g, t < nthr (nbase x) -> In g (SqN (nbase x) t) ->
     nbyp x g + length (FqN (nbase x) t) + 1 <= nmx x g + nstl x g) /\
  (forall t p g, t < nthr (nbase x) -> nth_error (FqN (nbase x) t) p = Some g ->
     nbyp x g + p + 2 <= 2 * nmx x g + nstl x g) /\
  (forall t g, t < nthr (nbase x) -> In g (FqN (nbase x) t) \/ In g (SqN (nbase x) t) ->
     cntT (nbase x) t <= nmx x g) /\
  (forall g, fstt (nbase x) g = 5%Z \/
             (Qcn (dq (nbase x)) (nthr (nbase x)) g = 0 /\ ~ poppedN (nbase x) g) -> nbyp x g = 0).
Proof.
  intros Hp R. destruct (nreach_inv N own progs x Hp R) as [I [HT HA HZ]].
  split; [intros g; split; [apply HA|apply (nmx_le N own progs x g Hp R)]|].
  split; [intros t g Ht Hg; pose proof (gS _ _ _ _ _ _ _ (HT t Ht) g Hg); lia|].
  split; [intros t p g Ht Hg; pose proof (gF _ _ _ _ _ _ _ (HT t Ht) p g Hg); lia|].
  split; [intros t g Ht Hg; apply (gC _ _ _ _ _ _ _ (HT t Ht) g Hg)|exact HZ].
Qed.

(* a steal: the thief u holds the stolen fiber f in the local of PL2; f is in no
   deque, its counters restart, and u's next step puts it at the head (bottom) of
   u's schedule_from deque: u's next() returns it next, unless load_balance
   pushes further stolen fibers in front of it in the same call *)
Lemma stolen_on_thief N own progs x u k i lc rc ms f :
  progs_ok N own progs -> nreach true progs x -> u < nthr (nbase x) ->
  pc (thr (nbase x) u) = PL2 k i lc rc ms f ->
  Qcn (dq (nbase x)) (nthr (nbase x)) f = 0 /\ nbyp x f = 0 /\
  dq (fst (step (nbase x) u)) (sfrom (nbase x) u) = f :: dq (nbase x) (sfrom (nbase x) u) /\
  sfrom (fst (step (nbase x) u)) u = sfrom (nbase x) u.
Proof.
  intros Hp R Hu Hpc. destruct (nreach_inv N own progs x Hp R) as [I G].
  assert (Hin : In f (held (thr (nbase x) u))) by (unfold held; rewrite Hpc; left; reflexivity).
  split.
  { apply cnt_In in Hin. pose proof (Hcn_term (thr (nbase x)) (nthr (nbase x)) u f Hu).
    pose proof (n_once N _ f (m_fib N own _ I f)). lia. }
  split.
  { apply (held_byp0 N own x u I G Hu f Hin). unfold popT. rewrite Hpc. discriminate. }
  split.
  { apply (own_lb2 N own x u I Hu k i lc rc ms f Hpc). }
  apply (sf_same x u). intros ? ? ? E. congruence.
Qed.

(* the step in which f is stolen resets its counters and leaves the thief at PL2 .. f *)
Lemma steal_resets x u f : stolen (nbase x) (fst (step (nbase x) u)) u = Some f ->
  nbyp (nstep x u) f = 0 /\ nstl (nstep x u) f = 0 /\ nmx (nstep x u) f = 0 /\
  exists k i a b c, pc (thr (nbase (nstep x u)) u) = PL2 k i a b c f.
Proof.
  intros Hs. unfold nstep; cbn [nbyp nstl nmx nbase]. rewrite Hs. cbn [is_some_eq]. rewrite Nat.eqb_refl, orb_true_r.
  repeat split; auto. unfold stolen in Hs.
  destruct (pc (thr (nbase x) u)); try discriminate;
    destruct (pc (thr (fst (step (nbase x) u)) u)); try discriminate; inversion Hs; subst; eauto 10.
Qed.

(* ---------------- witnesses ---------------- *)
(* Without the allowance nstl the per-thread bound is false on the model (and on
   the real code under the harness, same trace): the harness lets a running fiber
   call load_balance at any time.  Thread 0 holds fiber 1 on its filling deque;
   fibers 2 and 3 alternate: the one running on thread 0 steals the other from
   thread 1 (it lands in front of thread 0's draining deque, which is therefore
   never empty when next() is called, so no swap), then blocks; thread 1 wakes it. *)
Definition wit_p0 : list op := [OSpawn 2; OIdle; OSpawn 1] ++ flat_map (fun _ => [OBalance; OBlock]) (seq 0 6).
Definition wit_p1 : list op := [OSpawn 3; OWake 2; OWake 3; OWake 2; OWake 3; OWake 2].
Definition wit_sch : list nat :=
  repeat 0 16 ++ repeat 1 3 ++ flat_map (fun _ => repeat 0 10 ++ repeat 1 3) (seq 0 5) ++ repeat 0 10.
Definition wit_own (f : nat) : nat := if Nat.eqb f 3 then 1 else 0.

Lemma wit_progs_ok : progs_ok 3 wit_own [wit_p0; wit_p1].
Proof.
  intros t Ht f Hf. cbn [length] in Ht.
  destruct t as [|[|t]]; [| |lia]; cbn in Hf;
    repeat (destruct Hf as [Hf|Hf]; [try discriminate Hf; inversion Hf; subst; cbn; split; auto with arith|]);
    destruct Hf.
Qed.

Lemma bypass_unconditional_witness :
  let x := nrun (ninit true [wit_p0; wit_p1]) wit_sch in
  pc (thr (nbase x) 0) = Fin /\ pc (thr (nbase x) 1) = Fin /\
  fstt (nbase x) 1 = 2%Z /\ SqN (nbase x) 0 = [1] /\ FqN (nbase x) 0 = [] /\
  nbyp x 1 = 6 /\ nmx x 1 = 3 /\ nstl x 1 = 6 /\ 2 * (nmx x 1 - 1) < nbyp x 1.
Proof. vm_compute. repeat split; try reflexivity; lia. Qed.

(* a steal actually happens: after 19 steps of the witness run thread 0 has just
   stolen fiber 3 from thread 1's deque 4 *)
Lemma steal_example :
  let x := nrun (ninit true [wit_p0; wit_p1]) (firstn 19 wit_sch) in
  let y := nrun x [0] in
  dq (nbase x) 4 = [3] /\ stolen (nbase x) (nbase y) 0 = Some 3 /\ dq (nbase y) 4 = [] /\
  (exists k i a b c, pc (thr (nbase y) 0) = PL2 k i a b c 3) /\
  FqN (nbase (nrun y [0])) 0 = [3] /\ placesN (nbase y) = [3; 2; 1].
Proof. vm_compute. repeat split; try reflexivity; eauto 10. Qed.
