(* C09: the small ASTs that tools/gen/gen_sleep.py extracts from
   src/fiber_event_native.c, src/fiber_io.c and include/fiber_event.h
   (written to coq/gen/SleepGen.v), and their evaluators.

   cexpr: C integer expressions with their C types made explicit (LP64:
   unsigned int/uint32_t/useconds_t = U32, int = I32, uint64_t/unsigned long =
   U64, long/time_t/int64_t = I64).  `eval` implements the usual arithmetic
   conversions; unsigned arithmetic wraps modulo 2^width, signed overflow and
   division by zero are undefined (None).  Division truncates toward zero.

   The statement tokens name, one by one, the statements of fiber_sleep, of the
   prologue and of the chain walk of fiber_event_wake_sleepers and of the
   timer branch of the poll loop; the translator aborts on any statement it
   does not recognise.  coq/SleepTime.v interprets them. *)
From Coq Require Import List ZArith Lia Bool.
Import ListNotations.
Local Open Scope Z_scope.

Inductive cty := U32 | I32 | U64 | I64.
Inductive cvar := VSeconds | VUseconds | VTvSec | VTvNsec.
Inductive cexpr :=
| EVar (v : cvar) (t : cty)
| EConst (n : Z) (t : cty)
| EAdd (a b : cexpr) | ESub (a b : cexpr) | EMul (a b : cexpr)
| EDiv (a b : cexpr) | EMod (a b : cexpr)
| ECast (t : cty) (a : cexpr).

Definition cty_eqb (a b : cty) : bool :=
  match a, b with U32, U32 | I32, I32 | U64, U64 | I64, I64 => true | _, _ => false end.
Definition cvar_eqb (a b : cvar) : bool :=
  match a, b with VSeconds, VSeconds | VUseconds, VUseconds | VTvSec, VTvSec | VTvNsec, VTvNsec => true
  | _, _ => false end.
Fixpoint cexpr_eqb (a b : cexpr) : bool :=
  match a, b with
  | EVar v t, EVar v' t' => cvar_eqb v v' && cty_eqb t t'
  | EConst n t, EConst n' t' => (n =? n') && cty_eqb t t'
  | EAdd x y, EAdd x' y' | ESub x y, ESub x' y' | EMul x y, EMul x' y'
  | EDiv x y, EDiv x' y' | EMod x y, EMod x' y' => cexpr_eqb x x' && cexpr_eqb y y'
  | ECast t x, ECast t' x' => cty_eqb t t' && cexpr_eqb x x'
  | _, _ => false
  end.

Definition width (t : cty) : Z := match t with U32 | I32 => 32 | U64 | I64 => 64 end.
Definition signed (t : cty) : bool := match t with I32 | I64 => true | _ => false end.
Definition tmin (t : cty) : Z := if signed t then - 2 ^ (width t - 1) else 0.
Definition tmax (t : cty) : Z := if signed t then 2 ^ (width t - 1) - 1 else 2 ^ width t - 1.
Definition in_range (t : cty) (v : Z) : bool := (tmin t <=? v) && (v <=? tmax t).

(* conversion to a type: modulo 2^width (gcc's definition for signed targets) *)
Definition conv (t : cty) (v : Z) : Z :=
  let m := v mod 2 ^ width t in
  if signed t && (2 ^ (width t - 1) <=? m) then m - 2 ^ width t else m.

(* usual arithmetic conversions (all ranks >= int, so no promotions) *)
Definition common (a b : cty) : cty :=
  match a, b with
  | U64, _ | _, U64 => U64
  | I64, _ | _, I64 => I64
  | U32, _ | _, U32 => U32
  | I32, I32 => I32
  end.

Definition env := cvar -> Z.

Definition arith (op : Z -> Z -> option Z) (x y : option (Z * cty)) : option (Z * cty) :=
  match x, y with
  | Some (a, ta), Some (b, tb) =>
      let t := common ta tb in
      match op (conv t a) (conv t b) with
      | Some r => if signed t then (if in_range t r then Some (r, t) else None)
                  else Some (r mod 2 ^ width t, t)
      | None => None
      end
  | _, _ => None
  end.

Fixpoint eval (e : env) (x : cexpr) : option (Z * cty) :=
  match x with
  | EVar v t => Some (conv t (e v), t)
  | EConst n t => if in_range t n then Some (n, t) else None
  | EAdd a b => arith (fun p q => Some (p + q)) (eval e a) (eval e b)
  | ESub a b => arith (fun p q => Some (p - q)) (eval e a) (eval e b)
  | EMul a b => arith (fun p q => Some (p * q)) (eval e a) (eval e b)
  | EDiv a b => arith (fun p q => if q =? 0 then None else Some (Z.quot p q)) (eval e a) (eval e b)
  | EMod a b => arith (fun p q => if q =? 0 then None else Some (Z.rem p q)) (eval e a) (eval e b)
  | ECast t a => match eval e a with Some (v, _) => Some (conv t v, t) | None => None end
  end.

(* value of an expression converted to the type of the object it initialises
   or of the parameter it is passed to *)
Definition eval_to (t : cty) (e : env) (x : cexpr) : option Z :=
  match eval e x with Some (v, _) => Some (conv t v) | None => None end.

(* ---------- statement tokens ---------- *)
(* fiber_sleep, after the `event_fd < 0` early return *)
Inductive sleep_stmt :=
| SComputeMs      (* const uint64_t sleep_ms = <expr>;                    *)
| SInitNode       (* waiter_el_t wake_info = {};                          *)
| SLock           (* fiber_spinlock_lock(&sleep_spinlock);                 *)
| SReadTimer      (* timer_trigger_count += fiber_event_read_timer();      *)
| SDeadline       (* const uint64_t wake_time = timer_trigger_count + sleep_ms; *)
| SSetKey         (* wake_info.wake_time = wake_time;                      *)
| SInsert         (* waiter_insert(&sleepers, &wake_info);                 *)
| SGetMgr | SGetFiber | SSetWaiter | SSetWaiting
| SUnlockLater    (* manager->spinlock_to_unlock = &sleep_spinlock;        *)
| SYield | SReturn.

(* fiber_event_wake_sleepers before the removal loop *)
Inductive wake_stmt :=
| KLock           (* fiber_spinlock_lock(&sleep_spinlock);                 *)
| KReadTimer      (* trigger_count += fiber_event_read_timer();            *)
| KAdd            (* timer_trigger_count += trigger_count;                 *)
| KDecl.          (* waiter_el_t* to_wake = NULL;                          *)

(* body of the do { } while (to_wake) chain walk *)
Inductive walk_stmt :=
| WAssert         (* assert(to_wake->waiter);                              *)
| WGetWaiter      (* fiber_t* const to_schedule = (fiber_t* )to_wake->waiter; *)
| WSaveNext       (* waiter_el_t* const next = to_wake->next;              *)
| WSetReady       (* to_schedule->state = FIBER_STATE_READY;               *)
| WSchedule       (* fiber_manager_schedule(manager, to_schedule);         *)
| WAdvanceNode    (* to_wake = to_wake->next;                              *)
| WAdvanceSaved.  (* to_wake = next;                                       *)

(* `if (the_fd == timer_fd) { ... }` of the poll loop *)
Inductive poll_stmt :=
| PDecl           (* uint64_t timer_count = 0;                             *)
| PReadTimer      (* const int ret = fibershim_read(timer_fd, &timer_count, ..); *)
| PSkipIfNone     (* if (ret != sizeof(timer_count)) { ...; continue; }    *)
| PWakeCount      (* fiber_event_wake_sleepers(manager, timer_count);      *)
| PWakeZero.      (* fiber_event_wake_sleepers(manager, 0);                *)

Definition sleep_stmt_eqb (a b : sleep_stmt) : bool :=
  match a, b with
  | SComputeMs, SComputeMs | SInitNode, SInitNode | SLock, SLock | SReadTimer, SReadTimer
  | SDeadline, SDeadline | SSetKey, SSetKey | SInsert, SInsert | SGetMgr, SGetMgr
  | SGetFiber, SGetFiber | SSetWaiter, SSetWaiter | SSetWaiting, SSetWaiting
  | SUnlockLater, SUnlockLater | SYield, SYield | SReturn, SReturn => true
  | _, _ => false
  end.
Definition wake_stmt_eqb (a b : wake_stmt) : bool :=
  match a, b with KLock, KLock | KReadTimer, KReadTimer | KAdd, KAdd | KDecl, KDecl => true | _, _ => false end.
Definition walk_stmt_eqb (a b : walk_stmt) : bool :=
  match a, b with
  | WAssert, WAssert | WGetWaiter, WGetWaiter | WSaveNext, WSaveNext | WSetReady, WSetReady
  | WSchedule, WSchedule | WAdvanceNode, WAdvanceNode | WAdvanceSaved, WAdvanceSaved => true
  | _, _ => false
  end.
Definition poll_stmt_eqb (a b : poll_stmt) : bool :=
  match a, b with
  | PDecl, PDecl | PReadTimer, PReadTimer | PSkipIfNone, PSkipIfNone | PWakeCount, PWakeCount
  | PWakeZero, PWakeZero => true
  | _, _ => false
  end.
Fixpoint list_eqb {A} (eqb : A -> A -> bool) (l1 l2 : list A) : bool :=
  match l1, l2 with
  | [], [] => true
  | a :: r1, b :: r2 => eqb a b && list_eqb eqb r1 r2
  | _, _ => false
  end.
