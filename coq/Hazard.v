(* Model of include/hazard_pointer.h + src/hazard_pointer.c (C14), driven by the
   op language of rt/h_hazard.c: one step per registered shared access.

   Records: the record of thread t has id r = S t (0 = NULL).  Nodes: node k of
   the harness array is the nat [S k] (0 = NULL) and prints as 1000+k.
   locs: 0 head; 5 the swap scheduling point; 10+j cell j;
         100r+0 / 100r+1 / 100r+10+i = record r's next / retire_threshold / slot i;
         2000+k payload of node k.
   [recs] is the list of published records in list order (head first); it is
   redundant with head/rnext (ghost, like [vals] in Ring.v) and never read by a
   step except to be extended by the successful head CAS.
   store_load_barrier() after the slot write is not a scheduling point: under
   the SC interleaving of the runtime it is a no-op.
   qsort is external: [sort] is a Section variable; the executable model uses
   insertion sort. *)
From Coq Require Import List ZArith Lia Bool Arith.
From LF Require Import Conc.
Import ListNotations.

(* ---------- binary_search of hazard_pointer.c, loop for loop ----------
   start/end are ssize_t in C (end can become -1): Z here.  Returns the result
   and the list of probed indices (middle) in order. *)
Fixpoint bs_loop (fuel : nat) (h : list nat) (needle : nat) (st en : Z) : bool * list Z :=
  match fuel with
  | O => (false, [])
  | S f =>
    if (st <=? en)%Z then
      let mid := ((st + en) / 2)%Z in
      let mv := nth (Z.to_nat mid) h 0 in
      if needle <? mv then let '(r, p) := bs_loop f h needle st (mid - 1) in (r, mid :: p)
      else if mv <? needle then let '(r, p) := bs_loop f h needle (mid + 1) en in (r, mid :: p)
      else (true, [mid])
    else (false, [])
  end.

Definition bsearch_tr (h : list nat) (needle : nat) : bool * list Z :=
  match h with
  | [] => (false, [])
  | _ => bs_loop (length h) h needle 0 (Z.of_nat (length h) - 1)
  end.

Definition bsearch (h : list nat) (needle : nat) : bool := fst (bsearch_tr h needle).

(* ---------- programs and thread state ---------- *)
Inductive op := OJoin | OProtect (s j : nat) | OClear (s : nat) | OSwap (j : nat)
              | OUse (s : nat) | OScan | ONop.

Inductive pcT := J1 | J2 | J3 | J4 | J5 | J6 | J7 | J8 | J9
               | P1 | P2 | P3 | C1 | X0 | X1 | R1 | S1 | S2 | S3 | S4 | U1 | Fin.

Record tst := {
  pc : pcT; prog : list op; opi : nat;
  joined : bool;          (* this thread's record is in the list *)
  sl : nat; cj : nat;     (* arguments of the current call: slot, cell *)
  nd : nat;               (* protect: node read from the cell; swap: fresh node *)
  cur : nat;              (* record cursor (join walk, bump walk, scan walk) *)
  chead : nat;            (* join: cur_head; scan: head *)
  cnt : nat;              (* join: threads *)
  idx : nat;              (* scan: slot index *)
  maxp : nat;             (* scan: max_pointers *)
  snap : list nat;        (* scan: plist[0..index) in read order *)
  rlist : list nat;       (* private retired list, most recently retired first *)
  held : nat -> nat       (* harness: node validated in slot i (0 = none) *)
}.

Definition set_pc (T : tst) (p : pcT) : tst :=
  {| pc := p; prog := prog T; opi := opi T; joined := joined T; sl := sl T; cj := cj T; nd := nd T;
     cur := cur T; chead := chead T; cnt := cnt T; idx := idx T; maxp := maxp T; snap := snap T;
     rlist := rlist T; held := held T |}.
Definition set_prog (T : tst) (p : list op) (k : nat) : tst :=
  {| pc := pc T; prog := p; opi := k; joined := joined T; sl := sl T; cj := cj T; nd := nd T;
     cur := cur T; chead := chead T; cnt := cnt T; idx := idx T; maxp := maxp T; snap := snap T;
     rlist := rlist T; held := held T |}.
Definition set_joined (T : tst) (b : bool) : tst :=
  {| pc := pc T; prog := prog T; opi := opi T; joined := b; sl := sl T; cj := cj T; nd := nd T;
     cur := cur T; chead := chead T; cnt := cnt T; idx := idx T; maxp := maxp T; snap := snap T;
     rlist := rlist T; held := held T |}.
Definition set_args (T : tst) (s j : nat) : tst :=
  {| pc := pc T; prog := prog T; opi := opi T; joined := joined T; sl := s; cj := j; nd := nd T;
     cur := cur T; chead := chead T; cnt := cnt T; idx := idx T; maxp := maxp T; snap := snap T;
     rlist := rlist T; held := held T |}.
Definition set_nd (T : tst) (n : nat) : tst :=
  {| pc := pc T; prog := prog T; opi := opi T; joined := joined T; sl := sl T; cj := cj T; nd := n;
     cur := cur T; chead := chead T; cnt := cnt T; idx := idx T; maxp := maxp T; snap := snap T;
     rlist := rlist T; held := held T |}.
Definition set_cur (T : tst) (c : nat) : tst :=
  {| pc := pc T; prog := prog T; opi := opi T; joined := joined T; sl := sl T; cj := cj T; nd := nd T;
     cur := c; chead := chead T; cnt := cnt T; idx := idx T; maxp := maxp T; snap := snap T;
     rlist := rlist T; held := held T |}.
Definition set_chead (T : tst) (c : nat) : tst :=
  {| pc := pc T; prog := prog T; opi := opi T; joined := joined T; sl := sl T; cj := cj T; nd := nd T;
     cur := cur T; chead := c; cnt := cnt T; idx := idx T; maxp := maxp T; snap := snap T;
     rlist := rlist T; held := held T |}.
Definition set_cnt (T : tst) (c : nat) : tst :=
  {| pc := pc T; prog := prog T; opi := opi T; joined := joined T; sl := sl T; cj := cj T; nd := nd T;
     cur := cur T; chead := chead T; cnt := c; idx := idx T; maxp := maxp T; snap := snap T;
     rlist := rlist T; held := held T |}.
Definition set_scan (T : tst) (i m : nat) (sn : list nat) : tst :=
  {| pc := pc T; prog := prog T; opi := opi T; joined := joined T; sl := sl T; cj := cj T; nd := nd T;
     cur := cur T; chead := chead T; cnt := cnt T; idx := i; maxp := m; snap := sn;
     rlist := rlist T; held := held T |}.
Definition set_rlist (T : tst) (l : list nat) : tst :=
  {| pc := pc T; prog := prog T; opi := opi T; joined := joined T; sl := sl T; cj := cj T; nd := nd T;
     cur := cur T; chead := chead T; cnt := cnt T; idx := idx T; maxp := maxp T; snap := snap T;
     rlist := l; held := held T |}.
Definition set_held (T : tst) (h : nat -> nat) : tst :=
  {| pc := pc T; prog := prog T; opi := opi T; joined := joined T; sl := sl T; cj := cj T; nd := nd T;
     cur := cur T; chead := chead T; cnt := cnt T; idx := idx T; maxp := maxp T; snap := snap T;
     rlist := rlist T; held := h |}.

Record st := {
  head : nat; recs : list nat; rnext : nat -> nat; rthr : nat -> nat;
  slot : nat -> nat -> nat;        (* record -> slot index -> node *)
  cell : nat -> nat; pool : list nat;
  kslots : nat; ncell : nat;
  thr : nat -> tst; nthr : nat
}.

Definition set_thr (s : st) (t : nat) (x : tst) : st :=
  {| head := head s; recs := recs s; rnext := rnext s; rthr := rthr s; slot := slot s; cell := cell s;
     pool := pool s; kslots := kslots s; ncell := ncell s; thr := upd (thr s) t x; nthr := nthr s |}.

(* ---------- trace ---------- *)
Local Open Scope Z_scope.
Definition nname (n : nat) : Z := match n with O => 0 | S k => 1000 + Z.of_nat k end.
Definition ev (t : nat) (loc kind val : Z) : list Z := [Z.of_nat t; loc; kind; val].
Definition retev (t : nat) (k : nat) (v : Z) : list Z := [Z.of_nat t; Z.of_nat k; 909; v].
Definition rloc (r : nat) (off : Z) : Z := 100 * Z.of_nat r + off.
Definition cloc (j : nat) : Z := 10 + Z.of_nat j.
Definition gc_events (t : nat) (l : list nat) : list Z := flat_map (fun n => ev t (nname n) 929 0) l.
Local Close Scope Z_scope.

(* ---------- starting calls ----------
   [enter] = is the call applicable, and the thread state at its first access *)
Definition enter (K C : nat) (T : tst) (o : op) : option tst :=
  match o with
  | OJoin => if joined T then None else Some (set_pc T J1)
  | OProtect s j => if joined T && (s <? K) && (j <? C) then Some (set_pc (set_args T s j) P1) else None
  | OClear s => if joined T && (s <? K) then Some (set_pc (set_args T s (cj T)) C1) else None
  | OSwap j => if joined T && (j <? C) then Some (set_pc (set_args T (sl T) j) X0) else None
  | OUse s => if joined T && (s <? K) && negb (held T s =? 0) then Some (set_pc (set_args T s (cj T)) U1) else None
  | OScan => if joined T then Some (set_pc T S1) else None
  | ONop => None
  end.

(* run on to the first access of the next applicable call; skipped calls
   return -1 inside the same grant *)
Fixpoint begin (K C t : nat) (T : tst) (p : list op) (k : nat) : tst * list Z :=
  match p with
  | [] => (set_prog (set_pc T Fin) [] k, [])
  | o :: r =>
    match enter K C T o with
    | Some T' => (set_prog T' r (S k), [])
    | None => let '(T2, e) := begin K C t T r (S k) in (T2, retev t (S k) (-1) ++ e)
    end
  end.

(* the current call returns v *)
Definition finish (K C t : nat) (T : tst) (v : Z) : tst * list Z :=
  let '(T2, e) := begin K C t T (prog T) (opi T) in (T2, retev t (opi T) v ++ e).

Definition in_pool (s : st) (n : nat) : bool := existsb (Nat.eqb n) (pool s).

Section Model.
Variable sort : list nat -> list nat.

(* what the partition loop of hazard_pointer_scan does with the retired list
   [rl] given the snapshot [sn]: (kept list, nodes passed to the gc callback in
   call order) *)
Definition scan_keep (sn rl : list nat) : list nat := rev (filter (bsearch (sort sn)) rl).
Definition scan_gc (sn rl : list nat) : list nat := filter (fun n => negb (bsearch (sort sn) n)) rl.

Definition step (s : st) (t : nat) : st * list Z :=
  let T := thr s t in
  let r := S t in
  let K := kslots s in
  let C := ncell s in
  let fin T' v := let '(T2, e) := finish K C t T' v in (set_thr s t T2, e) in
  match pc T with
  | Fin => (s, [])
  (* ---- hazard_pointer_thread_record_create_and_push ---- *)
  | J1 => (set_thr s t (set_pc (set_chead T (head s)) J2), ev t 0 22 (Z.of_nat (head s)))
  | J2 => ({| head := head s; recs := recs s; rnext := upd (rnext s) r (chead T); rthr := rthr s;
              slot := slot s; cell := cell s; pool := pool s; kslots := K; ncell := C;
              thr := upd (thr s) t (set_pc T J3); nthr := nthr s |},
           ev t (rloc r 0) 19 (Z.of_nat (chead T)))
  | J3 => let c := rnext s r in
          (set_thr s t (set_pc (set_cnt (set_cur T c) 1) (if c =? 0 then J5 else J4)),
           ev t (rloc r 0) 9 (Z.of_nat c))
  | J4 => let c := rnext s (cur T) in
          (set_thr s t (set_pc (set_cnt (set_cur T c) (S (cnt T))) (if c =? 0 then J5 else J4)),
           ev t (rloc (cur T) 0) 9 (Z.of_nat c))
  | J5 => let v := 2 * cnt T * K in
          ({| head := head s; recs := recs s; rnext := rnext s; rthr := upd (rthr s) r v;
              slot := slot s; cell := cell s; pool := pool s; kslots := K; ncell := C;
              thr := upd (thr s) t (set_pc T J6); nthr := nthr s |},
           ev t (rloc r 1) 35 (Z.of_nat v))
  | J6 => if head s =? chead T
          then ({| head := r; recs := r :: recs s; rnext := rnext s; rthr := rthr s;
                   slot := slot s; cell := cell s; pool := pool s; kslots := K; ncell := C;
                   thr := upd (thr s) t (set_pc (set_joined T true) J7); nthr := nthr s |},
                ev t 0 73 (Z.of_nat r))
          else (set_thr s t (set_pc (set_chead T (head s)) J2), ev t 0 83 (Z.of_nat (head s)))
  | J7 => let c := rnext s r in
          let e := ev t (rloc r 0) 9 (Z.of_nat c) in
          if c =? 0 then let '(s', e') := fin T 1%Z in (s', e ++ e')
          else (set_thr s t (set_pc (set_cur T c) J8), e)
  | J8 => ({| head := head s; recs := recs s; rnext := rnext s;
              rthr := upd (rthr s) (cur T) (rthr s (cur T) + 2 * K);
              slot := slot s; cell := cell s; pool := pool s; kslots := K; ncell := C;
              thr := upd (thr s) t (set_pc T J9); nthr := nthr s |},
           ev t (rloc (cur T) 1) 55 (Z.of_nat (rthr s (cur T))))
  | J9 => let c := rnext s (cur T) in
          let e := ev t (rloc (cur T) 0) 9 (Z.of_nat c) in
          if c =? 0 then let '(s', e') := fin T 1%Z in (s', e ++ e')
          else (set_thr s t (set_pc (set_cur T c) J8), e)
  (* ---- protect: read source, hazard_pointer_using, validate ---- *)
  | P1 => (set_thr s t (set_pc (set_nd T (cell s (cj T))) P2), ev t (cloc (cj T)) 22 (nname (cell s (cj T))))
  | P2 => ({| head := head s; recs := recs s; rnext := rnext s; rthr := rthr s;
              slot := upd (slot s) r (upd (slot s r) (sl T) (nd T));
              cell := cell s; pool := pool s; kslots := K; ncell := C;
              thr := upd (thr s) t (set_pc (set_held T (upd (held T) (sl T) 0)) P3); nthr := nthr s |},
           ev t (rloc r (10 + Z.of_nat (sl T))) 19 (nname (nd T)))
  | P3 => let v := cell s (cj T) in
          let e := ev t (cloc (cj T)) 22 (nname v) in
          if v =? nd T
          then let '(s', e') := fin (set_held T (upd (held T) (sl T) (nd T))) (nname (nd T)) in (s', e ++ e')
          else let '(s', e') := fin T 0%Z in (s', e ++ e')
  (* ---- hazard_pointer_done_using ---- *)
  | C1 => let T' := set_held T (upd (held T) (sl T) 0) in
          let '(T2, e') := finish K C t T' 1%Z in
          ({| head := head s; recs := recs s; rnext := rnext s; rthr := rthr s;
              slot := upd (slot s) r (upd (slot s r) (sl T) 0);
              cell := cell s; pool := pool s; kslots := K; ncell := C;
              thr := upd (thr s) t T2; nthr := nthr s |},
           ev t (rloc r (10 + Z.of_nat (sl T))) 19 0 ++ e')
  (* ---- swap: scheduling point + allocation, exchange, hazard_pointer_free ---- *)
  | X0 => let e := ev t 5 99 0 in
          match pool s with
          | [] => let '(s', e') := fin T (-1)%Z in (s', e ++ e')
          | f :: p => ({| head := head s; recs := recs s; rnext := rnext s; rthr := rthr s; slot := slot s;
                          cell := cell s; pool := p; kslots := K; ncell := C;
                          thr := upd (thr s) t (set_pc (set_nd T f) X1); nthr := nthr s |},
                       e ++ ev t (nname f) 939 0)
          end
  | X1 => let old := cell s (cj T) in
          ({| head := head s; recs := recs s; rnext := rnext s; rthr := rthr s; slot := slot s;
              cell := upd (cell s) (cj T) (nd T); pool := pool s; kslots := K; ncell := C;
              thr := upd (thr s) t (set_pc (set_rlist T (old :: rlist T)) R1); nthr := nthr s |},
           ev t (cloc (cj T)) 44 (nname old))
  | R1 => let e := ev t (rloc r 1) 25 (Z.of_nat (rthr s r)) in
          if rthr s r <=? length (rlist T)
          then (set_thr s t (set_pc T S1), e)
          else let '(s', e') := fin T (Z.of_nat (length (rlist T))) in (s', e ++ e')
  (* ---- hazard_pointer_scan ---- *)
  | S1 => (set_thr s t (set_pc (set_chead T (head s)) S2), ev t 0 25 (Z.of_nat (head s)))
  | S2 => let h := chead T in
          (set_thr s t (set_pc (set_scan (set_cur T h) 0 (rthr s h / 2) []) S3),
           ev t (rloc h 1) 25 (Z.of_nat (rthr s h)))
  | S3 => let v := slot s (cur T) (idx T) in
          let sn := if v =? 0 then snap T else snap T ++ [v] in
          (set_thr s t (set_pc (set_scan T (S (idx T)) (maxp T) sn) (if S (idx T) <? K then S3 else S4)),
           ev t (rloc (cur T) (10 + Z.of_nat (idx T))) 9 (nname v))
  | S4 => let c := rnext s (cur T) in
          let e := ev t (rloc (cur T) 0) 9 (Z.of_nat c) in
          if c =? 0
          then let keep := scan_keep (snap T) (rlist T) in
               let gcl := scan_gc (snap T) (rlist T) in
               let '(T2, e') := finish K C t (set_rlist T keep) (Z.of_nat (length keep)) in
               ({| head := head s; recs := recs s; rnext := rnext s; rthr := rthr s; slot := slot s;
                   cell := cell s; pool := rev gcl ++ pool s; kslots := K; ncell := C;
                   thr := upd (thr s) t T2; nthr := nthr s |},
                e ++ gc_events t gcl ++ e')
          else (set_thr s t (set_pc (set_scan (set_cur T c) 0 (maxp T) (snap T)) S3), e)
  (* ---- use: read the payload of the node validated in slot sl ---- *)
  | U1 => let n := held T (sl T) in
          let v := if in_pool s n then 0%Z else 1%Z in
          let '(s', e') := fin T v in
          (s', ev t (1999 + Z.of_nat n)%Z 9 v ++ e')
  end.

Definition status_of (s : st) (t : nat) : status :=
  if t <? nthr s then match pc (thr s t) with Fin => SDone | _ => SReady end else SDone.

Definition M : machine :=
  {| mstate := st; mstep := step; mstatus := status_of; mthreads := nthr |}.
End Model.

(* ---------- initial state ----------
   K slots per record, threads 0..P-1 own records 1..P (list P -> .. -> 1),
   cells 0..C-1 hold nodes 1..C, nodes C+1..NN are in the pool (C+1 on top) *)
Definition idle (j : bool) : tst :=
  {| pc := Fin; prog := []; opi := 0; joined := j; sl := 0; cj := 0; nd := 0; cur := 0; chead := 0;
     cnt := 0; idx := 0; maxp := 0; snap := []; rlist := []; held := fun _ => 0 |}.

Fixpoint down (p : nat) : list nat := match p with O => [] | S q => S q :: down q end.

Definition init (K P C NN : nat) (progs : list (list op)) : st :=
  {| head := P; recs := down P;
     rnext := fun r => if r <=? P then r - 1 else 0;
     rthr := fun r => if (1 <=? r) && (r <=? P) then 2 * P * K else 0;
     slot := fun _ _ => 0;
     cell := fun j => if j <? C then S j else 0;
     pool := seq (S C) (NN - C);
     kslots := K; ncell := C;
     thr := fun t => fst (begin K C t (idle (t <? P)) (nth t progs []) 0);
     nthr := length progs |}.

(* events of the skipped calls at the very start of each thread (threads
   start in tid order) *)
Definition init_events (K P C : nat) (progs : list (list op)) : list Z :=
  flat_map (fun t => snd (begin K C t (idle (t <? P)) (nth t progs []) 0)) (seq 0 (length progs)).

(* ---------- executable instance: insertion sort ---------- *)
Fixpoint insert (x : nat) (l : list nat) : list nat :=
  match l with
  | [] => [x]
  | y :: r => if x <=? y then x :: l else y :: insert x r
  end.
Fixpoint isort (l : list nat) : list nat :=
  match l with [] => [] | x :: r => insert x (isort r) end.

Definition dec_op (p : Z * Z) : op :=
  let a := snd p in
  let n := Z.to_nat a in
  match fst p with
  | 1%Z => OJoin
  | 6%Z => OScan
  | 2%Z => if (a <? 0)%Z then ONop else OProtect (n / 8) (n mod 8)
  | 3%Z => if (a <? 0)%Z then ONop else OClear n
  | 4%Z => if (a <? 0)%Z then ONop else OSwap n
  | 5%Z => if (a <? 0)%Z then ONop else OUse n
  | _ => ONop
  end.

(* hazard_pointer_compare (the qsort comparator of hazard_pointer_scan): the
   sign of the result = order of the two addresses as unsigned 64-bit values *)
Definition cmp64 (a b : Z) : Z :=
  match (a ?= b)%Z with Lt => (-1)%Z | Eq => 0%Z | Gt => 1%Z end.

(* comparator differential mode: params -1 ahi alo bhi blo (32-bit halves) *)
Definition cmp_case (ah al bh bl : Z) : list Z :=
  let bad v := ((v <? 0) || (4294967295 <? v))%Z in
  if bad ah || bad al || bad bh || bad bl then [(-1)%Z]
  else retev 0 0 (cmp64 (ah * 4294967296 + al) (bh * 4294967296 + bl)).

(* binary-search differential mode: needles 0..9 on the given haystack *)
Definition bs_case (h : list nat) : list Z :=
  flat_map (fun needle =>
              let '(r, probes) := bsearch_tr h needle in
              flat_map (fun m => ev 0 (500 + m)%Z 9 (Z.of_nat (nth (Z.to_nat m) h 0))) probes
              ++ retev 0 (S needle) (if r then 1 else 0)%Z)
           (seq 0 10).

Definition run_case (l : list Z) : list Z :=
  match decode_case l with
  | Some c =>
      let p i := nthZ (c_params c) i in
      if (p 0%nat =? -1)%Z then cmp_case (p 1%nat) (p 2%nat) (p 3%nat) (p 4%nat) else
      if (p 0%nat =? 0)%Z then
        let len := p 1%nat in
        if ((len <? 0) || (6 <? len) || (Z.of_nat (length (c_params c)) <? 2 + len))%Z then [(-1)%Z]
        else bs_case (map Z.to_nat (firstn (Z.to_nat len) (skipn 2 (c_params c))))
      else
      let progs := map (map dec_op) (c_progs c) in
      let p0 := p 0%nat in let p1 := p 1%nat in let p2 := p 2%nat in let p3 := p 3%nat in
      if ((p0 <? 1) || (4 <? p0) || (p1 <? 0) || (Z.of_nat (length progs) <? p1)
          || (p2 <? 1) || (8 <? p2) || (p3 <? p2) || (32 <? p3))%Z then [(-1)%Z]
      else
        let K := Z.to_nat p0 in let P := Z.to_nat p1 in
        let C := Z.to_nat p2 in let NN := Z.to_nat p3 in
        run_all (M isort) (init K P C NN progs) (init_events K P C progs) (c_sched c) (Z.to_nat (p 4%nat))
  | None => [(-1)%Z]
  end.
