(* C08 — model of the logic libfiber adds around descriptor I/O (src/fiber_io.c,
   the descriptor part of src/fiber_event_native.c).  The kernel is NOT
   modelled: the result of every real call, the outcome of every wait and the
   flag byte seen by every evaluation of should_block are oracles.

   * syntax of what the translator extracts (tools/gen/gen_shims.py ->
     gen/ShimGen.v): shim records, loop shapes, the should_block mask as an AST;
   * small-step semantics of one shim invocation (start / after_real /
     after_wake), used BOTH by the fuelled interpreter [go] the theorems are
     about AND by the replay acceptor [run_case] the check runs on recorded
     real-call results;
   * flag-byte updates of fcntl / ioctl / close / descriptor creation, with the
     array indexing made explicit ([in_range]);
   * FdWait: per-descriptor wait record {events, armed, added, waiters}.
   Stdlib only (extracted with ExtrOcamlBasic). *)
From Coq Require Import List ZArith Bool Lia.
Import ListNotations.
Open Scope Z_scope.

(* ------------------------------------------------------------------------ *)
(* syntax extracted by the translator                                        *)
(* ------------------------------------------------------------------------ *)
Inductive shim_id :=
  SRead | SReadv | SRecv | SRecvfrom | SRecvmsg | SWrite | SWritev | SSend | SSendto | SSendmsg
| SAccept | SConnect | SClose | SFcntl | SIoctl | SPipe | SSocket | SSocketpair.
Inductive dir := DirIn | DirOut | DirNone.
(* PreWaitLoop : do { if (should_block) wait; r = real } while (r retryable && should_block)
   PostFailLoop: r = real; while (r retryable && should_block) { wait; r = real }
   SingleRetry : r = real; if    (r retryable && should_block) { wait; r = real }
   SingleWait  : r = real; if    (r retryable && should_block) { wait; return SO_ERROR }
   NoWait      : r = real *)
Inductive shape := PreWaitLoop | PostFailLoop | SingleRetry | SingleWait | NoWait.
Inductive retry_errno := EAGAIN | EINPROGRESS | ENone.
Inductive sb_guard := GNotLocked | GInit | GBelowMax | GNonNeg.
Inductive mexp :=
  MFlags | MB | MW | MConst (z : Z) | MAnd (a b : mexp) | MOr (a b : mexp)
| MEq (a b : mexp) | MNe (a b : mexp) | MNot (a : mexp).

Record shim := {
  sh_id : shim_id; sh_real : shim_id; sh_dir : dir; sh_shape : shape;
  sh_dontwait : bool;          (* !(flags & MSG_DONTWAIT) is part of both conditions *)
  sh_retry : retry_errno;      (* errno class that makes the shim wait *)
  sh_newfd : bool              (* result descriptors are handed to setup_socket / marked *)
}.

Definition shim_id_code (s : shim_id) : Z :=
  match s with
  | SRead => 1 | SWrite => 2 | SRecv => 3 | SSend => 4 | SReadv => 5 | SWritev => 6
  | SRecvfrom => 7 | SSendto => 8 | SRecvmsg => 9 | SSendmsg => 10 | SAccept => 11
  | SConnect => 12 | SClose => 13 | SFcntl => 14 | SIoctl => 15 | SPipe => 16
  | SSocket => 17 | SSocketpair => 18
  end.
Definition has_flags_arg (s : shim_id) : bool :=
  match s with SRecv | SRecvfrom | SRecvmsg | SSend | SSendto | SSendmsg => true | _ => false end.
Definition expected_dir (s : shim_id) : dir :=
  match s with
  | SRead | SReadv | SRecv | SRecvfrom | SRecvmsg | SAccept => DirIn
  | SWrite | SWritev | SSend | SSendto | SSendmsg | SConnect => DirOut
  | _ => DirNone
  end.
Definition dir_eqb (a b : dir) : bool :=
  match a, b with DirIn, DirIn | DirOut, DirOut | DirNone, DirNone => true | _, _ => false end.
Definition is_loop_shape (s : shape) : bool :=
  match s with PreWaitLoop | PostFailLoop => true | _ => false end.

(* ------------------------------------------------------------------------ *)
(* flag byte and should_block                                                *)
(* ------------------------------------------------------------------------ *)
Section Flags.
  Variables B W : Z.            (* IO_FLAG_BLOCKING, IO_FLAG_WAITABLE *)

  Fixpoint meval (m : mexp) (fl : Z) : Z :=
    match m with
    | MFlags => fl | MB => B | MW => W | MConst z => z
    | MAnd a b => Z.land (meval a fl) (meval b fl)
    | MOr a b => Z.lor (meval a fl) (meval b fl)
    | MEq a b => if Z.eqb (meval a fl) (meval b fl) then 1 else 0
    | MNe a b => if Z.eqb (meval a fl) (meval b fl) then 0 else 1
    | MNot a => if Z.eqb (meval a fl) 0 then 1 else 0
    end.

  (* truth value of the mask conjunct of should_block *)
  Definition mask_true (m : mexp) (fl : Z) : bool := negb (Z.eqb (meval m fl) 0).

  (* the four values the byte can take *)
  Definition all_flag_values : list Z := [0; B; W; Z.lor B W].

  (* a mask is right when it is true exactly on BLOCKING|WAITABLE *)
  Definition mask_respects_blocking_bit (m : mexp) : bool :=
    forallb (fun fl => implb (Z.eqb (Z.land fl B) 0) (negb (mask_true m fl))) all_flag_values.
  Definition mask_blocks_when_blocking (m : mexp) : bool := mask_true m (Z.lor B W).
  Definition mask_ignores_unmanaged (m : mexp) : bool := negb (mask_true m 0) && negb (mask_true m B).

  (* updates of the byte *)
  Definition fl_setup (fl : Z) : Z := Z.lor fl (Z.lor B W).      (* setup_socket / pipe *)
  Definition fl_clear_blocking (fl : Z) : Z := Z.land fl (255 - B).  (* fcntl O_NONBLOCK, FIONBIO 1 *)
  Definition fl_set_blocking (fl : Z) : Z := Z.lor fl B.         (* FIONBIO 0 *)
  Definition fl_close (fl : Z) : Z := 0.
  (* F_SETFL v on a managed descriptor when fcntl tracks the caller's mode *)
  Definition fl_setfl (fl : Z) (nonblock : bool) : Z :=
    if nonblock then fl_clear_blocking fl else fl_set_blocking fl.
End Flags.

(* ------------------------------------------------------------------------ *)
(* one shim invocation, small-step                                           *)
(* ------------------------------------------------------------------------ *)
(* result of a real call: value, or error class
   (1 EAGAIN/EWOULDBLOCK, 2 EBADF, 3 other, 4 EINPROGRESS) *)
Inductive res := ROk (v : Z) | RErr (e : Z).
Inductive outcome :=
  FromReal (r : res)       (* returns what the last real call returned *)
| FromClosed               (* the descriptor was closed while waiting: -1 *)
| FromSoError.             (* connect: 0 / -1 with SO_ERROR after the wait *)
Inductive phase := PReal | PWait | PRet (o : outcome).

Definition retryable (k : retry_errno) (r : res) : bool :=
  match k, r with
  | EAGAIN, RErr 1 => true
  | EINPROGRESS, RErr 4 => true
  | _, _ => false
  end.

(* [dw]: the shim tests MSG_DONTWAIT and the caller passed it.
   [sb]: value of should_block(fd) at this point.
   [n] : number of real calls this invocation made before the one that returned r. *)
Definition start (sh : shim) (dw sb : bool) : phase :=
  match sh_shape sh with
  | PreWaitLoop => if negb dw && sb then PWait else PReal
  | _ => PReal
  end.

Definition after_real (sh : shim) (dw sb : bool) (n : nat) (r : res) : phase :=
  let again := retryable (sh_retry sh) r && negb dw && sb in
  match sh_shape sh with
  | PreWaitLoop | PostFailLoop => if again then PWait else PRet (FromReal r)
  | SingleRetry | SingleWait => if again && Nat.eqb n 0 then PWait else PRet (FromReal r)
  | NoWait => PRet (FromReal r)
  end.

Definition after_wake (sh : shim) (woken : bool) : phase :=
  if woken then match sh_shape sh with SingleWait => PRet FromSoError | _ => PReal end
  else PRet FromClosed.

(* fuelled interpreter over oracles *)
Record cnt := { nr : nat; nw : nat; nt : nat }.   (* real calls, waits, transitions *)
Definition cnt0 : cnt := {| nr := 0; nw := 0; nt := 0 |}.

Section Run.
  Variable sh : shim.
  Variable dw : bool.
  Variable real : nat -> res.     (* result of the k-th real call of this invocation *)
  Variable wres : nat -> bool.    (* k-th wait: true = woken by the poller, false = closed *)
  Variable sbv : nat -> bool.     (* should_block(fd) at transition k (other fibers may change the byte) *)

  Fixpoint go (fuel : nat) (ph : phase) (c : cnt) : cnt * option outcome :=
    match ph with
    | PRet o => (c, Some o)
    | PReal =>
      match fuel with
      | O => (c, None)
      | S f => go f (after_real sh dw (sbv (nt c)) (nr c) (real (nr c)))
                  {| nr := S (nr c); nw := nw c; nt := S (nt c) |}
      end
    | PWait =>
      match fuel with
      | O => (c, None)
      | S f => go f (after_wake sh (wres (nw c))) {| nr := nr c; nw := S (nw c); nt := S (nt c) |}
      end
    end.

  Definition run (fuel : nat) : cnt * option outcome :=
    go fuel (start sh dw (sbv 0)) {| nr := 0; nw := 0; nt := 1 |}.
End Run.

(* ------------------------------------------------------------------------ *)
(* entry points that index fd_info[] / wait_info[]                           *)
(* ------------------------------------------------------------------------ *)
Inductive arr := FdInfo | WaitInfo.
Definition in_range (max_fd fd : Z) : bool := (0 <=? fd) && (fd <? max_fd).
(* idx fd = None outside [0, max_fd) *)
Definition idx (max_fd fd : Z) : option nat := if in_range max_fd fd then Some (Z.to_nat fd) else None.

(* an index site: performed unconditionally when the function has no dominating
   bounds test ([bc] = false), only for an in-range index otherwise *)
Definition site (bc : bool) (a : arr) (max_fd fd : Z) : list (arr * Z) :=
  if bc then (if in_range max_fd fd then [(a, fd)] else []) else [(a, fd)].

(* fc_tracks: fcntl(F_SETFL, v) sets the caller-visible mode from v & O_NONBLOCK for every v
   (and F_GETFL reports it), instead of only recognising v == O_NONBLOCK exactly *)
Record bcheck := {
  bc_sb : bool; bc_cl : bool; bc_fdclosed : bool; bc_fc : bool; bc_io : bool;
  fc_managed : bool; io_managed : bool; fc_tracks : bool }.

Section Entry.
  Variable K : bcheck.
  Variables B W max_fd : Z.

  (* close(fd): fiber_fd_closed(fd); clear the byte; real close *)
  Definition close_sites (fd : Z) : list (arr * Z) :=
    site (bc_fdclosed K) WaitInfo max_fd fd ++ site (bc_cl K) FdInfo max_fd fd.

  (* fcntl(fd, F_SETFL, O_NONBLOCK): intercepted (no real call, returns 0) when
     the tests in front of the update pass; [fl] = byte of an in-range fd *)
  Definition fcntl_intercepts (fd fl : Z) : bool :=
    negb (fc_tracks K) &&       (* the tracking form always makes the real call *)
    (if bc_fc K then in_range max_fd fd else true) &&
    (if fc_managed K then negb (Z.eqb (Z.land fl W) 0) else true).
  Definition fcntl_sites (fd fl : Z) : list (arr * Z) :=
    if bc_fc K then (if in_range max_fd fd then [(FdInfo, fd)] else [])
    else [(FdInfo, fd)].
  Definition ioctl_intercepts (fd fl : Z) : bool :=
    (if bc_io K then in_range max_fd fd else true) &&
    (if io_managed K then negb (Z.eqb (Z.land fl W) 0) else true).
  Definition ioctl_sites (fd fl : Z) : list (arr * Z) :=
    if bc_io K then (if in_range max_fd fd then [(FdInfo, fd)] else [])
    else [(FdInfo, fd)].

  (* result of the mode-switch entry points: 0 when intercepted, the real call's otherwise *)
  Definition fcntl_result (fd fl : Z) (r : res) : res := if fcntl_intercepts fd fl then ROk 0 else r.
  Definition ioctl_result (fd fl : Z) (r : res) : res := if ioctl_intercepts fd fl then ROk 0 else r.

  (* should_block(fd): guards, then the byte *)
  Definition sb_sites (fd : Z) : list (arr * Z) := site (bc_sb K) FdInfo max_fd fd.
  Definition should_block (m : mexp) (locked inited : bool) (fd fl : Z) : bool :=
    negb locked && inited && in_range max_fd fd && mask_true B W m fl.
End Entry.

(* ------------------------------------------------------------------------ *)
(* FdWait: the per-descriptor wait record                                    *)
(* ------------------------------------------------------------------------ *)
(* interest / readiness sets as (in, out) *)
Definition ev2 := (bool * bool)%type.
Definition ev_or (a b : ev2) : ev2 := (fst a || fst b, snd a || snd b).
Definition ev_minus (a b : ev2) : ev2 := (fst a && negb (fst b), snd a && negb (snd b)).
Definition ev_empty (a : ev2) : bool := negb (fst a) && negb (snd a).
Definition ev_sub (a b : ev2) : bool := implb (fst a) (fst b) && implb (snd a) (snd b).
Definition ev_of_dir (d : dir) : ev2 :=
  match d with DirIn => (true, false) | DirOut => (false, true) | DirNone => (false, false) end.

Record fdw := {
  events : ev2;                   (* info->events & (EPOLLIN|EPOLLOUT) *)
  added : bool;                   (* info->added *)
  armed : option ev2;             (* what epoll currently watches for (ONESHOT: None after firing) *)
  waiters : list (nat * dir)      (* info->waiters, newest first; fiber id and what it waits for *)
}.
Definition fdw0 : fdw := {| events := (false, false); added := false; armed := None; waiters := [] |}.

Inductive wop :=
  WRegister (f : nat) (d : dir)    (* fiber_wait_for_event by fiber f *)
| WPoll (fired : ev2)              (* poller handles an event for this descriptor *)
| WClose.                          (* fiber_fd_closed *)

(* woken fibers with the value fiber_wait_for_event returns to them (true = success) *)
Definition wstep (wake_all : bool) (s : fdw) (o : wop) : fdw * list (nat * bool) :=
  match o with
  | WRegister f d =>
      let e := ev_or (events s) (ev_of_dir d) in
      ({| events := e; added := true; armed := Some e; waiters := (f, d) :: waiters s |}, [])
  | WPoll fired =>
      let e := ev_minus (events s) fired in
      let woken := if wake_all then waiters s else firstn 1 (waiters s) in
      let rest := if wake_all then [] else skipn 1 (waiters s) in
      ({| events := e; added := added s; armed := if ev_empty e then None else Some e; waiters := rest |},
       map (fun w => (fst w, true)) woken)
  | WClose =>
      let woken := if wake_all then waiters s else firstn 1 (waiters s) in
      let rest := if wake_all then [] else skipn 1 (waiters s) in
      ({| events := (false, false); added := false; armed := None; waiters := rest |},
       map (fun w => (fst w, false)) woken)
  end.

Fixpoint wrun (wake_all : bool) (s : fdw) (ops : list wop) : fdw * list (nat * bool) :=
  match ops with
  | [] => (s, [])
  | o :: r => let '(s1, w1) := wstep wake_all s o in
              let '(s2, w2) := wrun wake_all s1 r in (s2, w1 ++ w2)
  end.

(* ------------------------------------------------------------------------ *)
(* replay acceptor (executable entry point for the check)                    *)
(* ------------------------------------------------------------------------ *)
(* The harness records, for one kernel thread, the global sequence
     1 call start      (tid, 1, shim code, fd, argument bit)
     2 real call       (tid, 2, real code, value or -1, error class*1000+errno)
     3 epoll_ctl       (tid, 3, fd, op, events)
     4 shim return     (tid, 4, value or -1, error class, errno)
     5 new descriptor  (tid, 5, fd, 0, 0)     (after a creation call returned)
   The acceptor runs every fiber's invocation with the transition functions
   above, keeps the flag byte of every descriptor, and answers one integer per
   entry: 0 = this is what the model does next, anything else = mismatch. *)
Fixpoint decode_mask (fuel : nat) (l : list Z) : option (mexp * list Z) :=
  match fuel with
  | O => None
  | S f =>
    match l with
    | [] => None
    | t :: r =>
      let bin (k : mexp -> mexp -> mexp) :=
        match decode_mask f r with
        | Some (a, r1) => match decode_mask f r1 with Some (b, r2) => Some (k a b, r2) | None => None end
        | None => None
        end in
      match t with
      | 0 => Some (MFlags, r) | 1 => Some (MB, r) | 2 => Some (MW, r)
      | 3 => match r with z :: r1 => Some (MConst z, r1) | [] => None end
      | 4 => bin MAnd | 5 => bin MOr | 6 => bin MEq | 7 => bin MNe
      | 8 => match decode_mask f r with Some (a, r1) => Some (MNot a, r1) | None => None end
      | _ => None
      end
    end
  end.

Definition shape_of_code (z : Z) : shape :=
  match z with 0 => PreWaitLoop | 1 => PostFailLoop | 2 => SingleRetry | 3 => SingleWait | _ => NoWait end.
Definition retry_of_code (z : Z) : retry_errno := match z with 1 => EAGAIN | 4 => EINPROGRESS | _ => ENone end.
Definition dir_of_code (z : Z) : dir := match z with 1 => DirIn | 2 => DirOut | _ => DirNone end.

(* shim table of the replay: code -> (shape, dir, dontwait tested, retry class, newfd) *)
Record rshim := { r_code : Z; r_shim : shim }.

Record fiber := {
  f_tid : Z; f_shim : option shim; f_code : Z; f_fd : Z; f_arg : Z; f_dw : bool;
  f_phase : phase; f_nreal : nat; f_waiting : bool; f_closed : bool }.

Record rstate := {
  rs_flags : list (Z * Z);       (* descriptor -> flag byte (absent = 0) *)
  rs_fibers : list fiber }.

Fixpoint lookup (l : list (Z * Z)) (k : Z) : Z :=
  match l with [] => 0 | (a, b) :: r => if Z.eqb a k then b else lookup r k end.
Definition setfl (l : list (Z * Z)) (k v : Z) : list (Z * Z) :=
  (k, v) :: filter (fun p => negb (Z.eqb (fst p) k)) l.

Definition idle (t : Z) : fiber :=
  {| f_tid := t; f_shim := None; f_code := 0; f_fd := 0; f_arg := 0; f_dw := false; f_phase := PRet FromClosed;
     f_nreal := 0; f_waiting := false; f_closed := false |}.
Fixpoint getf (l : list fiber) (t : Z) : fiber :=
  match l with [] => idle t | f :: r => if Z.eqb (f_tid f) t then f else getf r t end.
Definition putf (l : list fiber) (f : fiber) : list fiber :=
  f :: filter (fun g => negb (Z.eqb (f_tid g) (f_tid f))) l.

Record rconf := {
  c_B : Z; c_W : Z; c_max : Z; c_mask : mexp; c_K : bcheck; c_shims : list rshim }.

Fixpoint find_shim (l : list rshim) (code : Z) : option shim :=
  match l with [] => None | s :: r => if Z.eqb (r_code s) code then Some (r_shim s) else find_shim r code end.

Definition res_of (v ec : Z) : res := if v <? 0 then RErr ec else ROk v.

Definition sb_now (C : rconf) (s : rstate) (fd : Z) : bool :=
  should_block (c_B C) (c_W C) (c_max C) (c_mask C) false true fd (lookup (rs_flags s) fd).

(* does a shim-level return (v, ec) agree with the model's outcome? *)
Definition outcome_ok (o : outcome) (v ec : Z) : bool :=
  match o with
  | FromReal (ROk x) => Z.eqb v x
  | FromReal (RErr e) => (v <? 0) && Z.eqb ec e
  | FromClosed => v <? 0
  | FromSoError => Z.eqb v 0 || ((v <? 0) && negb (Z.eqb ec 1))
  end.

(* mark every fiber waiting on fd as closed-meanwhile (fiber_fd_closed) *)
Definition close_waiters (wake_all : bool) (l : list fiber) (fd : Z) : list fiber :=
  map (fun f => if f_waiting f && Z.eqb (f_fd f) fd
                then {| f_tid := f_tid f; f_shim := f_shim f; f_code := f_code f; f_fd := f_fd f; f_arg := f_arg f;
                        f_dw := f_dw f; f_phase := f_phase f; f_nreal := f_nreal f; f_waiting := true; f_closed := true |}
                else f) l.

Definition with_phase (f : fiber) (p : phase) (n : nat) (waiting closed : bool) : fiber :=
  {| f_tid := f_tid f; f_shim := f_shim f; f_code := f_code f; f_fd := f_fd f; f_arg := f_arg f; f_dw := f_dw f;
     f_phase := p; f_nreal := n; f_waiting := waiting; f_closed := closed |}.

(* a fiber that was waiting and now acts again has been woken *)
Definition resolve (f : fiber) : fiber :=
  if f_waiting f then
    match f_shim f with
    | Some sh => with_phase f (after_wake sh (negb (f_closed f))) (f_nreal f) false false
    | None => f
    end
  else f.

Definition rstep (C : rconf) (s : rstate) (tid kind a b c : Z) : rstate * Z :=
  let f := resolve (getf (rs_fibers s) tid) in
  match kind with
  | 1 => (* call start: a = code, b = fd, c = argument bit *)
    match find_shim (c_shims C) a with
    | None => (s, 901)
    | Some sh =>
      let fl := lookup (rs_flags s) b in
      let inr := in_range (c_max C) b in
      let dw := sh_dontwait sh && Z.odd c in
      let mk p := {| f_tid := tid; f_shim := Some sh; f_code := a; f_fd := b; f_arg := c; f_dw := dw; f_phase := p;
                     f_nreal := 0; f_waiting := false; f_closed := false |} in
      match sh_id sh with
      | SClose =>
        let fibs := close_waiters true (rs_fibers s) b in
        let fls := if inr then setfl (rs_flags s) b 0 else rs_flags s in
        ({| rs_flags := fls; rs_fibers := putf fibs (mk PReal) |}, 0)
      | SFcntl =>
        (* c = 0 F_GETFL, 1 F_SETFL with exactly O_NONBLOCK, 2 F_SETFL without O_NONBLOCK,
           3 F_SETFL with O_NONBLOCK and other bits *)
        if fc_tracks (c_K C) then
          let managed := inr && negb (Z.eqb (Z.land fl (c_W C)) 0) in
          let fls := if managed && negb (Z.eqb c 0)
                     then setfl (rs_flags s) b (fl_setfl (c_B C) fl (negb (Z.eqb c 2))) else rs_flags s in
          ({| rs_flags := fls; rs_fibers := putf (rs_fibers s) (mk PReal) |}, 0)
        else
        (* exact form only: intercepted when the tests pass *)
        if Z.eqb c 1 && fcntl_intercepts (c_K C) (c_W C) (c_max C) b fl then
          let fls := if inr then setfl (rs_flags s) b (fl_clear_blocking (c_B C) fl) else rs_flags s in
          ({| rs_flags := fls; rs_fibers := putf (rs_fibers s) (mk (PRet (FromReal (ROk 0)))) |}, 0)
        else ({| rs_flags := rs_flags s; rs_fibers := putf (rs_fibers s) (mk PReal) |}, 0)
      | SIoctl =>
        if ioctl_intercepts (c_K C) (c_W C) (c_max C) b fl then
          let v := if Z.eqb c 0 then fl_set_blocking (c_B C) fl else fl_clear_blocking (c_B C) fl in
          let fls := if inr then setfl (rs_flags s) b v else rs_flags s in
          ({| rs_flags := fls; rs_fibers := putf (rs_fibers s) (mk (PRet (FromReal (ROk 0)))) |}, 0)
        else ({| rs_flags := rs_flags s; rs_fibers := putf (rs_fibers s) (mk PReal) |}, 0)
      | _ =>
        ({| rs_flags := rs_flags s; rs_fibers := putf (rs_fibers s) (mk (start sh dw (sb_now C s b))) |}, 0)
      end
    end
  | 2 => (* real call: a = code, b = value, c = class*1000+errno *)
    match f_shim f with
    | None => (s, 902)
    | Some sh =>
      if negb (Z.eqb a (shim_id_code (sh_real sh))) then
        (* secondary real call of descriptor creation / failure paths: not replayed *)
        (if sh_newfd sh || Z.eqb a 13 || Z.eqb a 14 then (s, 0) else (s, 903))
      else
      match f_phase f with
      | PReal =>
        let r0 := res_of b (c / 1000) in
        (* tracked F_GETFL: O_NONBLOCK is hidden while the caller-visible mode is blocking *)
        let flb := lookup (rs_flags s) (f_fd f) in
        let r := match sh_id sh, r0 with
                 | SFcntl, ROk v =>
                   if fc_tracks (c_K C) && Z.eqb (f_arg f) 0 && in_range (c_max C) (f_fd f) &&
                      negb (Z.eqb (Z.land flb (c_W C)) 0) && negb (Z.eqb (Z.land flb (c_B C)) 0) &&
                      Z.testbit v 11
                   then ROk (v - 2048) else r0
                 | _, _ => r0
                 end in
        let p := after_real sh (f_dw f) (sb_now C s (f_fd f)) (f_nreal f) r in
        ({| rs_flags := rs_flags s; rs_fibers := putf (rs_fibers s) (with_phase f p (S (f_nreal f)) false false) |}, 0)
      | PWait => (s, 120)           (* model waits here, implementation called *)
      | PRet _ => (s, 130)          (* model returns here, implementation called again *)
      end
    end
  | 3 => (* epoll_ctl: a = fd, b = op (1 ADD, 2 DEL, 3 MOD), c = events *)
    if Z.eqb b 2 then (s, 0) else
    match f_shim f with
    | None => (s, 904)
    | Some sh =>
      match f_phase f with
      | PWait =>
        let bit := match sh_dir sh with DirIn => 1 | DirOut => 4 | DirNone => 0 end in
        if Z.eqb a (f_fd f) && negb (Z.eqb (Z.land c bit) 0) && negb (Z.eqb (Z.land c 1073741824) 0) then
          ({| rs_flags := rs_flags s; rs_fibers := putf (rs_fibers s) (with_phase f PWait (f_nreal f) true false) |}, 0)
        else (s, 250)               (* wrong descriptor / direction / not ONESHOT *)
      | PReal => (s, 210)           (* model calls here, implementation waits *)
      | PRet _ => (s, 230)
      end
    end
  | 4 => (* shim return: a = value, b = class *)
    match f_shim f with
    | None => (s, 905)
    | Some sh =>
      match f_phase f with
      | PRet o =>
        if outcome_ok o a b then
          ({| rs_flags := rs_flags s; rs_fibers := putf (rs_fibers s) (idle tid) |}, 0)
        else (s, 440)               (* returns something else than the model *)
      | PReal => (s, 410)           (* model makes a real call, implementation returned *)
      | PWait => (s, 420)           (* model waits, implementation returned *)
      end
    end
  | 5 => (* new descriptor a: marked BLOCKING|WAITABLE *)
    if in_range (c_max C) a then
      ({| rs_flags := setfl (rs_flags s) a (fl_setup (c_B C) (c_W C) (lookup (rs_flags s) a));
          rs_fibers := rs_fibers s |}, 0)
    else (s, 950)
  | _ => (s, 999)
  end.

Fixpoint rrun (C : rconf) (s : rstate) (l : list Z) (fuel : nat) : list Z :=
  match fuel with
  | O => []
  | S f =>
    match l with
    | tid :: kind :: a :: b :: c :: r =>
      let '(s1, v) := rstep C s tid kind a b c in v :: rrun C s1 r f
    | _ => []
    end
  end.

Fixpoint decode_shims (n : nat) (l : list Z) : list rshim * list Z :=
  match n with
  | O => ([], l)
  | S k =>
    match l with
    | code :: sp :: d :: dwt :: rt :: nf :: r =>
      let sid := match code with
                 | 1 => SRead | 2 => SWrite | 3 => SRecv | 4 => SSend | 5 => SReadv | 6 => SWritev
                 | 7 => SRecvfrom | 8 => SSendto | 9 => SRecvmsg | 10 => SSendmsg | 11 => SAccept
                 | 12 => SConnect | 13 => SClose | 14 => SFcntl | 15 => SIoctl | 16 => SPipe
                 | 17 => SSocket | _ => SSocketpair end in
      let sh := {| sh_id := sid; sh_real := sid; sh_dir := dir_of_code d; sh_shape := shape_of_code sp;
                   sh_dontwait := Z.eqb dwt 1; sh_retry := retry_of_code rt; sh_newfd := Z.eqb nf 1 |} in
      let '(rest, r') := decode_shims k r in ({| r_code := code; r_shim := sh |} :: rest, r')
    | _ => ([], l)
    end
  end.

(* case := B W max_fd  bc_sb bc_cl bc_fdclosed bc_fc bc_io fc_managed io_managed fc_tracks
           nmask mask...  nshims (code shape dir dontwait retry newfd)...  log (5 per entry) *)
Definition run_case (l : list Z) : list Z :=
  match l with
  | B :: W :: mx :: k1 :: k2 :: k3 :: k4 :: k5 :: k6 :: k7 :: k8 :: nm :: r =>
    let b z := Z.eqb z 1 in
    let K := {| bc_sb := b k1; bc_cl := b k2; bc_fdclosed := b k3; bc_fc := b k4; bc_io := b k5;
                fc_managed := b k6; io_managed := b k7; fc_tracks := b k8 |} in
    let mtoks := firstn (Z.to_nat nm) r in
    match decode_mask (S (length mtoks)) mtoks with
    | Some (m, []) =>
      match skipn (Z.to_nat nm) r with
      | ns :: r2 =>
        let '(shs, r3) := decode_shims (Z.to_nat ns) r2 in
        let C := {| c_B := B; c_W := W; c_max := mx; c_mask := m; c_K := K; c_shims := shs |} in
        rrun C {| rs_flags := []; rs_fibers := [] |} r3 (length r3)
      | [] => [-1]
      end
    | _ => [-2]
    end
  | _ => [-3]
  end.
