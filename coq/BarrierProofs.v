(* C12: proofs about coq/Barrier.v (client of T1K).
   Part 1: the instrumented machine (ghost logs) and the concrete witnesses.
   Part 2: facts that hold in every configuration (arrival numbers, serial fibers).
   Part 3: exactly [count] fibers, single round or count <= 2: the protocol invariant. *)
From Coq Require Import List ZArith Lia Bool Arith.
From LF Require Import Conc T1K Barrier.
Import ListNotations.
Local Open Scope Z_scope.

(* ------------------------------------------------------------------ *)
(* Part 1: history.  Ghost logs, updated by looking at what the stepping
   fiber does; the executable model is not changed (lstep_erase).

   ent   (t,k)     fiber t entered its k-th fiber_barrier_wait (harness event "entered round k")
   arr   (t,k,v)   fiber t's k-th call executed its fetch_add and fetched v, in execution order
   rets  (t,k,r)   fiber t's k-th call returned r
   chain (n,t)     waiter-list entries (node, pushing fiber) in the order of the tail exchange,
                   not yet consumed by a head update
   infl            the fiber whose entry was consumed last and who has not been scheduled yet *)
Record ist := { base : st;
                ent : list (nat * nat);
                arr : list (nat * nat * Z);
                rets : list (nat * nat * Z);
                chain : list (nat * nat);
                infl : option nat }.

(* the client continuation at the bottom of a stack *)
Definition bot (s : stack bc) : option bc :=
  match last s Start with FC c => Some c | _ => None end.

Definition round_of (c : bc) : nat :=
  match c with BNext _ k => k | BArrived _ k => k | BRet _ k _ => k end.

Definition lstep (x : ist) (t : nat) : ist :=
  let s := base x in
  let s' := fst (step s t) in
  let b0 := bot (stk s t) in
  let b1 := bot (stk s' t) in
  let ent' := match b0, b1 with
              | Some (BNext _ _), Some (BArrived _ k) => ent x ++ [(t, k)]
              | Some (BRet _ _ _), Some (BArrived _ k) => ent x ++ [(t, k)]
              | _, _ => ent x
              end in
  let arr' := match b0, b1 with
              | Some (BArrived _ k), Some (BRet _ _ _) => arr x ++ [(t, k, word (mem s) 0)]
              | _, _ => arr x
              end in
  let rets' := match b0, b1 with
               | Some (BRet _ k r), Some (BArrived _ _) => rets x ++ [(t, k, r)]
               | Some (BRet _ k r), None => rets x ++ [(t, k, r)]
               | _, _ => rets x
               end in
  let '(chain', infl') :=
      match stk s t with
      | WXchg _ n :: _ => (chain x ++ [(n, t)], infl x)
      | KSetHead _ _ _ _ _ :: _ => (tl (chain x), option_map snd (hd_error (chain x)))
      | KState _ _ _ f :: _ => (chain x, if fstate (mem s) f =? ST_WAITING then infl x else None)
      | KReady _ _ _ _ :: _ => (chain x, None)
      | _ => (chain x, infl x)
      end in
  {| base := s'; ent := ent'; arr := arr'; rets := rets'; chain := chain'; infl := infl' |}.

Lemma lstep_erase x t : base (lstep x t) = fst (step (base x) t).
Proof.
  unfold lstep.
  destruct (match stk (base x) t with
            | WXchg _ n :: _ => (chain x ++ [(n, t)], infl x)
            | KSetHead _ _ _ _ _ :: _ => (tl (chain x), option_map snd (hd_error (chain x)))
            | KState _ _ _ f :: _ => (chain x, if fstate (mem (base x)) f =? ST_WAITING then infl x else None)
            | KReady _ _ _ _ :: _ => (chain x, None)
            | _ => (chain x, infl x)
            end) as [c i].
  reflexivity.
Qed.

Definition iinit (count : Z) (rounds : list nat) : ist :=
  {| base := init count rounds; ent := []; arr := []; rets := []; chain := []; infl := None |}.

Inductive ireach count rounds : ist -> Prop :=
| ir_init : ireach count rounds (iinit count rounds)
| ir_step x t : ireach count rounds x -> status_of (base x) t = SReady ->
                ireach count rounds (lstep x t).

Lemma ireach_base count rounds x :
  ireach count rounds x -> reachable M (init count rounds) (base x).
Proof.
  induction 1 as [|x t R IH Hs].
  - constructor.
  - rewrite lstep_erase. exact (reach_step M _ _ t IH Hs).
Qed.

(* every reachable state of the executable model carries a ghost history *)
Lemma reachable_ireach count rounds s :
  reachable M (init count rounds) s -> exists x, ireach count rounds x /\ base x = s.
Proof.
  induction 1 as [|s t R IH Hs].
  - exists (iinit count rounds). split; [constructor|reflexivity].
  - destruct IH as [x [Rx Ex]]. exists (lstep x t). split.
    + constructor; [exact Rx|]. rewrite Ex. exact Hs.
    + rewrite lstep_erase, Ex. reflexivity.
Qed.

Definition igrant (x : ist) (t : nat) : ist :=
  match status_of (base x) t with SReady => lstep x t | _ => x end.
Definition irun (x : ist) (sch : list nat) : ist := fold_left igrant sch x.

Lemma ireach_irun count rounds sch : forall x, ireach count rounds x -> ireach count rounds (irun x sch).
Proof.
  induction sch as [|t r IH]; intros x R; cbn; auto. apply IH. unfold igrant.
  destruct (status_of (base x) t) eqn:E; auto. constructor; assumption.
Qed.

Lemma irun_base sch : forall x, base (irun x sch) = fst (run_sched M (base x) sch).
Proof.
  induction sch as [|t r IH]; intros x; [reflexivity|].
  change (base (irun (igrant x t) r) = fst (run_sched M (base x) (t :: r))).
  rewrite IH. cbn [run_sched]. unfold igrant, grant. cbn [mstatus mstep M].
  destruct (status_of (base x) t) eqn:E.
  - destruct (run_sched M (base x) r); reflexivity.
  - rewrite lstep_erase. destruct (step (base x) t) as [s1 e1]. cbn [fst].
    destruct (run_sched M s1 r); reflexivity.
  - destruct (run_sched M (base x) r); reflexivity.
Qed.

(* observations on the logs *)
Definition returned (x : ist) (t k : nat) : Prop := exists r, In (t, k, r) (rets x).
Definition entered_fibers (x : ist) (k : nat) : list nat :=
  map fst (filter (fun e => Nat.eqb (snd e) k) (ent x)).
Definition arrived_fibers (x : ist) (k : nat) : list nat :=
  map (fun a => fst (fst a)) (filter (fun a => Nat.eqb (snd (fst a)) k) (arr x)).

(* a fiber is inside fiber_manager_wake_from_mpsc_queue (the pop loop) *)
Definition in_pop_loop (s : st) (t : nat) : Prop :=
  match stk s t with
  | KHead _ _ _ :: _ | KNext _ _ _ _ :: _ | KSetHead _ _ _ _ _ :: _ | KData _ _ _ _ _ :: _
  | KCopy _ _ _ _ _ :: _ | KOut _ _ _ _ :: _ | KState _ _ _ _ :: _ | KReady _ _ _ _ :: _ => True
  | YRead :: KSpin _ _ _ :: _ | YNext _ :: KSpin _ _ _ :: _ => True
  | _ => False
  end.

(* ---- the F-C12 witness: count = 3, three fibers, two rounds each ---- *)
Definition w_sched : list nat :=
  [0;0;0;0;0;0;0;0;0;0;0;0; 1;1; 2;2;2;2;2;2;2;2;2; 0;0;0;0;0;0;0;0;0;0; 2;2;2;2;2;2;2; 0;0;0;0;0;0;0;0;0]%nat.
Definition w_state : ist := irun (iinit 3 [2;2;2]%nat) w_sched.

Lemma w_reach : ireach 3 [2;2;2]%nat w_state.
Proof. apply ireach_irun. constructor. Qed.

Lemma w_facts :
  rets w_state = [(0%nat, 1%nat, 0); (2%nat, 1%nat, 1); (0%nat, 2%nat, 0)] /\
  entered_fibers w_state 2 = [0; 2]%nat /\
  arrived_fibers w_state 2 = [0]%nat /\
  arr w_state = [(0%nat, 1%nat, 0); (1%nat, 1%nat, 1); (2%nat, 1%nat, 2); (0%nat, 2%nat, 3)].
Proof. vm_compute. repeat split. Qed.

(* the same run, read off the trace of the executable model *)
Lemma w_trace_tail :
  let tr := snd (run_sched M (init 3 [2;2;2]%nat) w_sched) in
  skipn (length tr - 4) tr = [0; 2; 909; 0].
Proof. vm_compute. reflexivity. Qed.

(* ---- two serial fibers in the pop loop at once: count = 3, six fibers, one round ---- *)
Definition c_sched : list nat :=
  [0;0; 1;1; 2;2;2;2; 3;3; 4;4; 5;5;5]%nat.
Definition c_state : ist := irun (iinit 3 [1;1;1;1;1;1]%nat) c_sched.
Lemma c_reach : ireach 3 [1;1;1;1;1;1]%nat c_state.
Proof. apply ireach_irun. constructor. Qed.
Lemma c_facts : in_pop_loop (base c_state) 2 /\ in_pop_loop (base c_state) 5.
Proof. vm_compute. split; exact I. Qed.

(* ---- the property ---- *)
(* round safety as stated (C12): nobody has returned from its k-th wait unless
   count fibers have entered their k-th wait *)
Definition round_safe (count : Z) (x : ist) : Prop :=
  forall t k, returned x t k -> count <= Z.of_nat (length (entered_fibers x k)).
(* the stronger form that correct code guarantees: count distinct fibers have
   executed the fetch_add of their k-th wait *)
Definition round_safe_arrived (count : Z) (x : ist) : Prop :=
  forall t k, returned x t k ->
    NoDup (arrived_fibers x k) /\ count <= Z.of_nat (length (arrived_fibers x k)).

Lemma w_not_round_safe : ~ round_safe 3 w_state.
Proof.
  intros H. specialize (H 0%nat 2%nat).
  assert (R : returned w_state 0 2).
  { exists 0. destruct w_facts as [E _]. rewrite E. cbn. auto. }
  specialize (H R). destruct w_facts as [_ [E _]]. rewrite E in H. cbn in H. lia.
Qed.

(* ------------------------------------------------------------------ *)
(* Part 2: every configuration (any count, any number of fibers, any rounds).
   The stacks of the barrier client have a small number of shapes. *)
Definition slots_none (m : kmem) : Prop :=
  forall t, slot_mutex m t = None /\ slot_wait m t = None /\ slot_mpmc m t = None.

(* inside fiber_manager_yield (the continuation is below) *)
Inductive yph : stack bc -> Prop :=
| y_read : yph [YRead]
| y_next st : yph [YNext st]
| y_swread : yph [SwRead; YLoop]
| y_swready : yph [SwReady; YLoop]
| y_swdone : yph [SwDone; YLoop]
| y_mread : yph [MRead; YLoop]
| y_mflip : yph [MFlip; YLoop]
| y_asleep : yph [Asleep; YLoop]
| y_resume : yph [Resume; YLoop].

(* the push part of wait_in_mpsc_queue *)
Inductive wfr : frame bc -> Prop :=
| w_saving : wfr (WSaving 0)
| w_data : wfr (WData 0)
| w_next n : wfr (WNext 0 n)
| w_xchg n : wfr (WXchg 0 n)
| w_link p n : wfr (WLink 0 p n).

(* wake_from_mpsc_queue(waiters, c) *)
Inductive kfr (c : Z) : frame bc -> Prop :=
| k_head wc : kfr c (KHead 0 c wc)
| k_next wc h : kfr c (KNext 0 c wc h)
| k_sethead wc h nx : kfr c (KSetHead 0 c wc h nx)
| k_data wc h nx : kfr c (KData 0 c wc h nx)
| k_copy wc h d : kfr c (KCopy 0 c wc h d)
| k_out wc h : kfr c (KOut 0 c wc h)
| k_state wc f : kfr c (KState 0 c wc f)
| k_ready wc f : kfr c (KReady 0 c wc f).

Inductive Shape (count : Z) : stack bc -> Prop :=
| sh_done : Shape count []
| sh_start n : Shape count [Start; FC (BNext n 1)]
| sh_fadd n k : Shape count [WFAdd 0 1 5; FC (BArrived n k)]
| sh_wpush f n k : wfr f -> Shape count [f; FC (BRet n k 0)]
| sh_wyield y n k : yph y -> Shape count (y ++ [FC (BRet n k 0)])
| sh_k f n k : kfr (count - 1) f -> Shape count [f; FC (BRet n k 1)]
| sh_kyield y wc n k : yph y -> Shape count (y ++ [KSpin 0 (count - 1) wc; FC (BRet n k 1)]).

Definition start_stack (t n k : nat) : stack bc := snd (start t n k).

Lemma start_shape count t n k : Shape count (start_stack t n k).
Proof. destruct n; cbn; constructor. Qed.

Lemma slots_none_same m m' :
  slot_mutex m' = slot_mutex m -> slot_wait m' = slot_wait m -> slot_mpmc m' = slot_mpmc m ->
  slots_none m -> slots_none m'.
Proof. intros A B C H t. rewrite A, B, C. apply H. Qed.

Lemma wake_slots m f : slots_none m -> slots_none (wake m f).
Proof. intros H. unfold wake. destruct (blocked m f); eapply slots_none_same; eauto. Qed.
Lemma wake_word m f : word (wake m f) = word m.
Proof. unfold wake. destruct (blocked m f); reflexivity. Qed.

(* do_maintenance's deferred slots are never used by the barrier *)
Lemma run_slots_cases m t rest : slots_none m ->
  exists m' e, (run_slots bc m t rest = (m', e, Resume :: rest) \/ run_slots bc m t rest = (m', e, Asleep :: rest))
               /\ slots_none m' /\ word m' = word m.
Proof.
  intros H. unfold run_slots.
  destruct (slot_sched m t) eqn:Es.
  - set (m1 := wake (set_slot_sched m t false) t).
    assert (H1 : slots_none m1).
    { apply wake_slots. eapply slots_none_same; eauto. }
    assert (W1 : word m1 = word m) by (unfold m1; rewrite wake_word; reflexivity).
    destruct (H1 t) as (A & B & C). rewrite C, A, B. unfold sleep.
    destruct (pend m1 t) eqn:Ep; do 2 eexists; (split; [|split]).
    + right. reflexivity.
    + eapply slots_none_same; eauto.
    + exact W1.
    + left. reflexivity.
    + eapply slots_none_same; eauto.
    + exact W1.
  - destruct (H t) as (A & B & C). rewrite C, A, B. unfold sleep.
    destruct (pend m t) eqn:Ep; do 2 eexists; (split; [|split]).
    + right. reflexivity.
    + eapply slots_none_same; eauto.
    + reflexivity.
    + left. reflexivity.
    + eapply slots_none_same; eauto.
    + reflexivity.
Qed.

Lemma ret_bret count m t v n k r :
  ret bc (cret count) m t v [FC (BRet n k r)]
  = (m, retev t k r ++ fst (start t n (S k)), start_stack t n (S k)).
Proof. destruct n; reflexivity. Qed.

(* what one step of a fiber does to its stack, to the slots and to the counter *)
Definition step_ok (count : Z) (m : kmem) (t : nat) (sg : stack bc) (res : kmem * list Z * stack bc) : Prop :=
  let '(m', _, sg') := res in
  slots_none m' /\ Shape count sg' /\
  ( (bot sg' = bot sg /\ word m' 0%nat = word m 0%nat)
    \/ (exists n k, sg = [WFAdd 0 1 5; FC (BArrived n k)] /\ word m' 0%nat = word m 0%nat + 1 /\
                    bot sg' = Some (BRet n k (if (word m 0%nat + 1) mod count =? 0 then 1 else 0)))
    \/ (exists n, sg = [Start; FC (BNext n 1)] /\ word m' 0%nat = word m 0%nat /\ sg' = start_stack t n 1)
    \/ (exists n k r, bot sg = Some (BRet n k r) /\ word m' 0%nat = word m 0%nat /\ sg' = start_stack t n (S k)) ).

Ltac shape_tac :=
  first [ apply start_shape
        | solve [constructor; constructor]
        | solve [apply (sh_wyield _ [_]); constructor]
        | solve [apply (sh_wyield _ [_; _]); constructor]
        | solve [apply (sh_kyield _ [_]); constructor]
        | solve [apply (sh_kyield _ [_; _]); constructor] ].

Ltac slots_tac H :=
  first [ exact H
        | solve [eapply slots_none_same; [| | |exact H]; reflexivity]
        | solve [apply wake_slots; first [exact H | eapply slots_none_same; [| | |exact H]; reflexivity]] ].

Ltac internal_tac H :=
  split; [slots_tac H | split; [shape_tac | left; split; [reflexivity | try rewrite wake_word; reflexivity]]].

Ltac return_tac H n k r :=
  split; [slots_tac H | split; [shape_tac |
    right; right; right; exists n, k, r; split; [reflexivity | split; [try rewrite wake_word; reflexivity | reflexivity]]]].
