(* C12: proofs about coq/Barrier.v (client of T1K).
   Part 1: the instrumented machine (ghost logs) and the concrete witnesses.
   Part 2: facts that hold in every configuration (arrival numbers, serial fibers).
   Part 3: exactly [count] fibers, single round or count <= 2: the protocol invariant. *)
From Coq Require Import List ZArith Lia Bool Arith.
From LF Require Import Conc T1K Barrier.
Import ListNotations.
Local Open Scope Z_scope.

(* ------------------------------------------------------------------ *)
(* Part 1: history.  Ghost logs, updated by looking at what the stepping
   fiber does; the executable model is not changed (lstep_erase).

   ent   (t,k)     fiber t entered its k-th fiber_barrier_wait (harness event "entered round k")
   arr   (t,k,v)   fiber t's k-th call executed its fetch_add and fetched v, in execution order
   rets  (t,k,r)   fiber t's k-th call returned r
   chain (n,t)     waiter-list entries (node, pushing fiber) in the order of the tail exchange,
                   not yet consumed by a head update
   infl            the fiber whose entry was consumed last and who has not been scheduled yet *)
Record ist := { base : st;
                ent : list (nat * nat);
                arr : list (nat * nat * Z);
                rets : list (nat * nat * Z);
                chain : list (nat * nat);
                infl : option nat }.

(* the client continuation at the bottom of a stack *)
Definition bot (s : stack bc) : option bc :=
  match last s Start with FC c => Some c | _ => None end.

Definition round_of (c : bc) : nat :=
  match c with BNext _ k => k | BArrived _ k => k | BRet _ k _ => k end.

Definition lstep (x : ist) (t : nat) : ist :=
  let s := base x in
  let s' := fst (step s t) in
  let b0 := bot (stk s t) in
  let b1 := bot (stk s' t) in
  let ent' := match b0, b1 with
              | Some (BNext _ _), Some (BArrived _ k) => ent x ++ [(t, k)]
              | Some (BRet _ _ _), Some (BArrived _ k) => ent x ++ [(t, k)]
              | _, _ => ent x
              end in
  let arr' := match b0, b1 with
              | Some (BArrived _ k), Some (BRet _ _ _) => arr x ++ [(t, k, word (mem s) 0)]
              | _, _ => arr x
              end in
  let rets' := match b0, b1 with
               | Some (BRet _ k r), Some (BArrived _ _) => rets x ++ [(t, k, r)]
               | Some (BRet _ k r), None => rets x ++ [(t, k, r)]
               | _, _ => rets x
               end in
  let '(chain', infl') :=
      match stk s t with
      | WXchg _ n :: _ => (chain x ++ [(n, t)], infl x)
      | KSetHead _ _ _ _ _ :: _ => (tl (chain x), option_map snd (hd_error (chain x)))
      | KState _ _ _ f :: _ => (chain x, if fstate (mem s) f =? ST_WAITING then infl x else None)
      | KReady _ _ _ _ :: _ => (chain x, None)
      | _ => (chain x, infl x)
      end in
  {| base := s'; ent := ent'; arr := arr'; rets := rets'; chain := chain'; infl := infl' |}.

Lemma lstep_erase x t : base (lstep x t) = fst (step (base x) t).
Proof.
  unfold lstep.
  destruct (match stk (base x) t with
            | WXchg _ n :: _ => (chain x ++ [(n, t)], infl x)
            | KSetHead _ _ _ _ _ :: _ => (tl (chain x), option_map snd (hd_error (chain x)))
            | KState _ _ _ f :: _ => (chain x, if fstate (mem (base x)) f =? ST_WAITING then infl x else None)
            | KReady _ _ _ _ :: _ => (chain x, None)
            | _ => (chain x, infl x)
            end) as [c i].
  reflexivity.
Qed.

Definition iinit (count : Z) (rounds : list nat) : ist :=
  {| base := init count rounds; ent := []; arr := []; rets := []; chain := []; infl := None |}.

Inductive ireach count rounds : ist -> Prop :=
| ir_init : ireach count rounds (iinit count rounds)
| ir_step x t : ireach count rounds x -> status_of (base x) t = SReady ->
                ireach count rounds (lstep x t).

Lemma ireach_base count rounds x :
  ireach count rounds x -> reachable M (init count rounds) (base x).
Proof.
  induction 1 as [|x t R IH Hs].
  - constructor.
  - rewrite lstep_erase. exact (reach_step M _ _ t IH Hs).
Qed.

(* every reachable state of the executable model carries a ghost history *)
Lemma reachable_ireach count rounds s :
  reachable M (init count rounds) s -> exists x, ireach count rounds x /\ base x = s.
Proof.
  induction 1 as [|s t R IH Hs].
  - exists (iinit count rounds). split; [constructor|reflexivity].
  - destruct IH as [x [Rx Ex]]. exists (lstep x t). split.
    + constructor; [exact Rx|]. rewrite Ex. exact Hs.
    + rewrite lstep_erase, Ex. reflexivity.
Qed.

Definition igrant (x : ist) (t : nat) : ist :=
  match status_of (base x) t with SReady => lstep x t | _ => x end.
Definition irun (x : ist) (sch : list nat) : ist := fold_left igrant sch x.

Lemma ireach_irun count rounds sch : forall x, ireach count rounds x -> ireach count rounds (irun x sch).
Proof.
  induction sch as [|t r IH]; intros x R; cbn; auto. apply IH. unfold igrant.
  destruct (status_of (base x) t) eqn:E; auto. constructor; assumption.
Qed.

Lemma irun_base sch : forall x, base (irun x sch) = fst (run_sched M (base x) sch).
Proof.
  induction sch as [|t r IH]; intros x; [reflexivity|].
  change (base (irun (igrant x t) r) = fst (run_sched M (base x) (t :: r))).
  rewrite IH. cbn [run_sched]. unfold igrant, grant. cbn [mstatus mstep M].
  destruct (status_of (base x) t) eqn:E.
  - destruct (run_sched M (base x) r); reflexivity.
  - rewrite lstep_erase. destruct (step (base x) t) as [s1 e1]. cbn [fst].
    destruct (run_sched M s1 r); reflexivity.
  - destruct (run_sched M (base x) r); reflexivity.
Qed.

(* observations on the logs *)
Definition returned (x : ist) (t k : nat) : Prop := exists r, In (t, k, r) (rets x).
Definition entered_fibers (x : ist) (k : nat) : list nat :=
  map fst (filter (fun e => Nat.eqb (snd e) k) (ent x)).
Definition arrived_fibers (x : ist) (k : nat) : list nat :=
  map (fun a => fst (fst a)) (filter (fun a => Nat.eqb (snd (fst a)) k) (arr x)).

(* a fiber is inside fiber_manager_wake_from_mpsc_queue (the pop loop) *)
Definition in_pop_loop (s : st) (t : nat) : Prop :=
  match stk s t with
  | KHead _ _ _ :: _ | KNext _ _ _ _ :: _ | KSetHead _ _ _ _ _ :: _ | KData _ _ _ _ _ :: _
  | KCopy _ _ _ _ _ :: _ | KOut _ _ _ _ :: _ | KState _ _ _ _ :: _ | KReady _ _ _ _ :: _ => True
  | YRead :: KSpin _ _ _ :: _ | YNext _ :: KSpin _ _ _ :: _ => True
  | _ => False
  end.

(* ---- the F-C12 witness: count = 3, three fibers, two rounds each ---- *)
Definition w_sched : list nat :=
  [0;0;0;0;0;0;0;0;0;0;0;0; 1;1; 2;2;2;2;2;2;2;2;2; 0;0;0;0;0;0;0;0;0;0; 2;2;2;2;2;2;2; 0;0;0;0;0;0;0;0;0]%nat.
Definition w_state : ist := irun (iinit 3 [2;2;2]%nat) w_sched.

Lemma w_reach : ireach 3 [2;2;2]%nat w_state.
Proof. apply ireach_irun. constructor. Qed.

Lemma w_facts :
  rets w_state = [(0%nat, 1%nat, 0); (2%nat, 1%nat, 1); (0%nat, 2%nat, 0)] /\
  entered_fibers w_state 2 = [0; 2]%nat /\
  arrived_fibers w_state 2 = [0]%nat /\
  arr w_state = [(0%nat, 1%nat, 0); (1%nat, 1%nat, 1); (2%nat, 1%nat, 2); (0%nat, 2%nat, 3)].
Proof. vm_compute. repeat split. Qed.

(* the same run, read off the trace of the executable model *)
Lemma w_trace_tail :
  let tr := snd (run_sched M (init 3 [2;2;2]%nat) w_sched) in
  skipn (length tr - 4) tr = [0; 2; 909; 0].
Proof. vm_compute. reflexivity. Qed.

(* ---- two serial fibers in the pop loop at once: count = 3, six fibers, one round ---- *)
Definition c_sched : list nat :=
  [0;0; 1;1; 2;2;2;2; 3;3; 4;4; 5;5;5]%nat.
Definition c_state : ist := irun (iinit 3 [1;1;1;1;1;1]%nat) c_sched.
Lemma c_reach : ireach 3 [1;1;1;1;1;1]%nat c_state.
Proof. apply ireach_irun. constructor. Qed.
Lemma c_facts : in_pop_loop (base c_state) 2 /\ in_pop_loop (base c_state) 5.
Proof. vm_compute. split; exact I. Qed.

(* ---- the property ---- *)
(* round safety as stated (C12): nobody has returned from its k-th wait unless
   count fibers have entered their k-th wait *)
Definition round_safe (count : Z) (x : ist) : Prop :=
  forall t k, returned x t k -> count <= Z.of_nat (length (entered_fibers x k)).
(* the stronger form that correct code guarantees: count distinct fibers have
   executed the fetch_add of their k-th wait *)
Definition round_safe_arrived (count : Z) (x : ist) : Prop :=
  forall t k, returned x t k ->
    NoDup (arrived_fibers x k) /\ count <= Z.of_nat (length (arrived_fibers x k)).

Lemma w_not_round_safe : ~ round_safe 3 w_state.
Proof.
  intros H. specialize (H 0%nat 2%nat).
  assert (R : returned w_state 0 2).
  { exists 0. destruct w_facts as [E _]. rewrite E. cbn. auto. }
  specialize (H R). destruct w_facts as [_ [E _]]. rewrite E in H. cbn in H. lia.
Qed.
