(* C12: proofs about coq/Barrier.v (client of T1K).
   Part 1: the instrumented machine (ghost logs) and the concrete witnesses.
   Part 2: facts that hold in every configuration (arrival numbers, serial fibers).
   Part 3: exactly [count] fibers, single round or count <= 2: the protocol invariant. *)
From Coq Require Import List ZArith Lia Bool Arith.
From LF Require Import Conc T1K Barrier.
Import ListNotations.
Local Open Scope Z_scope.

(* ------------------------------------------------------------------ *)
(* Part 1: history.  Ghost logs, updated by looking at what the stepping
   fiber does; the executable model is not changed (lstep_erase).

   ent   (t,k)     fiber t entered its k-th fiber_barrier_wait (harness event "entered round k")
   arr   (t,k,v)   fiber t's k-th call executed its fetch_add and fetched v, in execution order
   rets  (t,k,r)   fiber t's k-th call returned r
   chain q (n,t)   entries of waiter list q (node, pushing fiber) in the order of the tail
                   exchange, not yet consumed by a head update
   infl            the fiber whose entry was consumed last and who has not been scheduled yet
   pw              fibers that arrived as non-serial fibers and have not been scheduled yet *)
Record ist := { base : st;
                ent : list (nat * nat);
                arr : list (nat * nat * Z);
                rets : list (nat * nat * Z);
                chain : nat -> list (nat * nat);
                infl : nat -> option nat;
                pw : nat -> list nat }.

(* the client continuation at the bottom of a stack *)
Definition bot (s : stack bc) : option bc :=
  match last s Start with FC c => Some c | _ => None end.

Definition round_of (c : bc) : nat :=
  match c with BNext _ k => k | BArrived _ k => k | BRet _ k _ => k end.

(* chain / infl / pw are indexed by the waiter list (object id) *)
Definition lstep (x : ist) (t : nat) : ist :=
  let s := base x in
  let s' := fst (step s t) in
  let b0 := bot (stk s t) in
  let b1 := bot (stk s' t) in
  let ent' := match b0, b1 with
              | Some (BNext _ _), Some (BArrived _ k) => ent x ++ [(t, k)]
              | Some (BRet _ _ _), Some (BArrived _ k) => ent x ++ [(t, k)]
              | _, _ => ent x
              end in
  let arr' := match b0, b1 with
              | Some (BArrived _ k), Some (BRet _ _ _) => arr x ++ [(t, k, word (mem s) 0)]
              | _, _ => arr x
              end in
  let rets' := match b0, b1 with
               | Some (BRet _ k r), Some (BArrived _ _) => rets x ++ [(t, k, r)]
               | Some (BRet _ k r), None => rets x ++ [(t, k, r)]
               | _, _ => rets x
               end in
  let chain' := match stk s t with
                | WXchg q n :: _ => upd (chain x) q (chain x q ++ [(n, t)])
                | KSetHead q _ _ _ _ :: _ => upd (chain x) q (tl (chain x q))
                | _ => chain x
                end in
  let infl' := match stk s t with
               | KSetHead q _ _ _ _ :: _ => upd (infl x) q (option_map snd (hd_error (chain x q)))
               | KState q _ _ f :: _ => if fstate (mem s) f =? ST_WAITING then infl x else upd (infl x) q None
               | KReady q _ _ _ :: _ => upd (infl x) q None
               | _ => infl x
               end in
  let pw' := match stk s t with
             | WFAdd _ _ _ :: _ =>
                 if (word (mem s) 0 + 1) mod cnt s =? 0 then pw x
                 else let q := lsel (two s) (cnt s) (word (mem s) 0) in upd (pw x) q (pw x q ++ [t])
             | KState q _ _ f :: _ => if fstate (mem s) f =? ST_WAITING then pw x
                                      else upd (pw x) q (remove Nat.eq_dec f (pw x q))
             | KReady q _ _ f :: _ => upd (pw x) q (remove Nat.eq_dec f (pw x q))
             | _ => pw x
             end in
  {| base := s'; ent := ent'; arr := arr'; rets := rets'; chain := chain'; infl := infl'; pw := pw' |}.

Lemma lstep_erase x t : base (lstep x t) = fst (step (base x) t).
Proof. reflexivity. Qed.

Definition iinit (tw : bool) (count : Z) (rounds : list nat) : ist :=
  {| base := init tw count rounds; ent := []; arr := []; rets := [];
     chain := fun _ => []; infl := fun _ => None; pw := fun _ => [] |}.

Inductive ireach (tw : bool) count rounds : ist -> Prop :=
| ir_init : ireach tw count rounds (iinit tw count rounds)
| ir_step x t : ireach tw count rounds x -> status_of (base x) t = SReady ->
                ireach tw count rounds (lstep x t).

Lemma ireach_base tw count rounds x :
  ireach tw count rounds x -> reachable M (init tw count rounds) (base x).
Proof.
  induction 1 as [|x t R IH Hs].
  - constructor.
  - rewrite lstep_erase. exact (reach_step M _ _ t IH Hs).
Qed.

(* every reachable state of the executable model carries a ghost history *)
Lemma reachable_ireach tw count rounds s :
  reachable M (init tw count rounds) s -> exists x, ireach tw count rounds x /\ base x = s.
Proof.
  induction 1 as [|s t R IH Hs].
  - exists (iinit tw count rounds). split; [constructor|reflexivity].
  - destruct IH as [x [Rx Ex]]. exists (lstep x t). split.
    + constructor; [exact Rx|]. rewrite Ex. exact Hs.
    + rewrite lstep_erase, Ex. reflexivity.
Qed.

Definition igrant (x : ist) (t : nat) : ist :=
  match status_of (base x) t with SReady => lstep x t | _ => x end.
Definition irun (x : ist) (sch : list nat) : ist := fold_left igrant sch x.

Lemma ireach_irun tw count rounds sch : forall x, ireach tw count rounds x -> ireach tw count rounds (irun x sch).
Proof.
  induction sch as [|t r IH]; intros x R; cbn; auto. apply IH. unfold igrant.
  destruct (status_of (base x) t) eqn:E; auto. constructor; assumption.
Qed.

Lemma irun_base sch : forall x, base (irun x sch) = fst (run_sched M (base x) sch).
Proof.
  induction sch as [|t r IH]; intros x; [reflexivity|].
  change (base (irun (igrant x t) r) = fst (run_sched M (base x) (t :: r))).
  rewrite IH. cbn [run_sched]. unfold igrant, grant. cbn [mstatus mstep M].
  destruct (status_of (base x) t) eqn:E.
  - destruct (run_sched M (base x) r); reflexivity.
  - rewrite lstep_erase. destruct (step (base x) t) as [s1 e1]. cbn [fst].
    destruct (run_sched M s1 r); reflexivity.
  - destruct (run_sched M (base x) r); reflexivity.
Qed.

(* observations on the logs *)
Definition returned (x : ist) (t k : nat) : Prop := exists r, In (t, k, r) (rets x).
Definition entered_fibers (x : ist) (k : nat) : list nat :=
  map fst (filter (fun e => Nat.eqb (snd e) k) (ent x)).
Definition arrived_fibers (x : ist) (k : nat) : list nat :=
  map (fun a => fst (fst a)) (filter (fun a => Nat.eqb (snd (fst a)) k) (arr x)).

(* a fiber is inside fiber_manager_wake_from_mpsc_queue (the pop loop) of waiter list q *)
Definition pop_list (sg : stack bc) : option nat :=
  match sg with
  | KHead q _ _ :: _ | KNext q _ _ _ :: _ | KSetHead q _ _ _ _ :: _ | KData q _ _ _ _ :: _
  | KCopy q _ _ _ _ :: _ | KOut q _ _ _ :: _ | KState q _ _ _ :: _ | KReady q _ _ _ :: _ => Some q
  | YRead :: KSpin q _ _ :: _ | YNext _ :: KSpin q _ _ :: _ => Some q
  | _ => None
  end.
Definition in_pop_loop (s : st) (t q : nat) : Prop := pop_list (stk s t) = Some q.

(* ---- the F-C12 witness on the ORIGINAL protocol (one list): count = 3, three fibers,
   two rounds each ---- *)
Definition w_sched : list nat :=
  [0;0;0;0;0;0;0;0;0;0;0;0; 1;1; 2;2;2;2;2;2;2;2;2; 0;0;0;0;0;0;0;0;0;0; 2;2;2;2;2;2;2; 0;0;0;0;0;0;0;0;0]%nat.
Definition w_state : ist := irun (iinit false 3 [2;2;2]%nat) w_sched.

Lemma w_reach : ireach false 3 [2;2;2]%nat w_state.
Proof. apply ireach_irun. constructor. Qed.

Lemma w_facts :
  rets w_state = [(0%nat, 1%nat, 0); (2%nat, 1%nat, 1); (0%nat, 2%nat, 0)] /\
  entered_fibers w_state 2 = [0; 2]%nat /\
  arrived_fibers w_state 2 = [0]%nat /\
  arr w_state = [(0%nat, 1%nat, 0); (1%nat, 1%nat, 1); (2%nat, 1%nat, 2); (0%nat, 2%nat, 3)].
Proof. vm_compute. repeat split. Qed.

(* the same schedule on the repaired protocol (two lists): fiber 0 sleeps in round 2
   and the serial fiber 2 of round 1 still waits for fiber 1's entry *)
Definition w_state2 : ist := irun (iinit true 3 [2;2;2]%nat) w_sched.
Lemma w_facts2 : rets w_state2 = [(0%nat, 1%nat, 0)].
Proof. vm_compute. reflexivity. Qed.

(* ---- more participants than count (F-C12b, outside the property's setting), repaired
   protocol: count = 2, six fibers, one round each: the serial fibers of groups 0 and 2
   are inside the pop loop of list 0 at the same time ---- *)
Definition c_sched : list nat :=
  [0;0; 1;1;1;1; 2;2;2;2;2;2;2; 3;3;3;3;3;3;3;3;3;3; 4;4; 5;5;5]%nat.
Definition c_state : ist := irun (iinit true 2 [1;1;1;1;1;1]%nat) c_sched.
Lemma c_reach : ireach true 2 [1;1;1;1;1;1]%nat c_state.
Proof. apply ireach_irun. constructor. Qed.
Lemma c_facts : in_pop_loop (base c_state) 1 0 /\ in_pop_loop (base c_state) 5 0.
Proof. vm_compute. split; reflexivity. Qed.

(* ---- the property ---- *)
(* round safety as stated (C12): nobody has returned from its k-th wait unless
   count fibers have entered their k-th wait *)
Definition round_safe (count : Z) (x : ist) : Prop :=
  forall t k, returned x t k -> count <= Z.of_nat (length (entered_fibers x k)).
(* the stronger form that correct code guarantees: count distinct fibers have
   executed the fetch_add of their k-th wait *)
Definition round_safe_arrived (count : Z) (x : ist) : Prop :=
  forall t k, returned x t k ->
    NoDup (arrived_fibers x k) /\ count <= Z.of_nat (length (arrived_fibers x k)).

Lemma w_not_round_safe : ~ round_safe 3 w_state.
Proof.
  intros H. specialize (H 0%nat 2%nat).
  assert (R : returned w_state 0 2).
  { exists 0. destruct w_facts as [E _]. rewrite E. cbn. auto. }
  specialize (H R). destruct w_facts as [_ [E _]]. rewrite E in H. cbn in H. lia.
Qed.

(* ------------------------------------------------------------------ *)
(* Part 2: every configuration (any count, any number of fibers, any rounds).
   The stacks of the barrier client have a small number of shapes. *)
Definition slots_none (m : kmem) : Prop :=
  forall t, slot_mutex m t = None /\ slot_wait m t = None /\ slot_mpmc m t = None.

(* inside fiber_manager_yield (the continuation is below) *)
Inductive yph : stack bc -> Prop :=
| y_read : yph [YRead]
| y_next st : yph [YNext st]
| y_swread : yph [SwRead; YLoop]
| y_swready : yph [SwReady; YLoop]
| y_swdone : yph [SwDone; YLoop]
| y_mread : yph [MRead; YLoop]
| y_mflip : yph [MFlip; YLoop]
| y_asleep : yph [Asleep; YLoop]
| y_resume : yph [Resume; YLoop].

(* the push part of wait_in_mpsc_queue(list q) *)
Inductive wfr (q : nat) : frame bc -> Prop :=
| w_saving : wfr q (WSaving q)
| w_data : wfr q (WData q)
| w_next n : wfr q (WNext q n)
| w_xchg n : wfr q (WXchg q n)
| w_link p n : wfr q (WLink q p n).

(* wake_from_mpsc_queue(list q, c) *)
Inductive kfr (q : nat) (c : Z) : frame bc -> Prop :=
| k_head wc : kfr q c (KHead q c wc)
| k_next wc h : kfr q c (KNext q c wc h)
| k_sethead wc h nx : kfr q c (KSetHead q c wc h nx)
| k_data wc h nx : kfr q c (KData q c wc h nx)
| k_copy wc h d : kfr q c (KCopy q c wc h d)
| k_out wc h : kfr q c (KOut q c wc h)
| k_state wc f : kfr q c (KState q c wc f)
| k_ready wc f : kfr q c (KReady q c wc f).

Inductive Shape (count : Z) : stack bc -> Prop :=
| sh_done : Shape count []
| sh_start n : Shape count [Start; FC (BNext n 1)]
| sh_fadd n k : Shape count [WFAdd 0 1 5; FC (BArrived n k)]
| sh_wpush q f n k : wfr q f -> Shape count [f; FC (BRet n k 0)]
| sh_wyield y n k : yph y -> Shape count (y ++ [FC (BRet n k 0)])
| sh_k q f n k : kfr q (count - 1) f -> Shape count [f; FC (BRet n k 1)]
| sh_kyield q y wc n k : yph y -> Shape count (y ++ [KSpin q (count - 1) wc; FC (BRet n k 1)]).

Definition start_stack (t n k : nat) : stack bc := snd (start t n k).

Lemma start_shape count t n k : Shape count (start_stack t n k).
Proof. destruct n; cbn; constructor. Qed.

Lemma slots_none_same m m' :
  slot_mutex m' = slot_mutex m -> slot_wait m' = slot_wait m -> slot_mpmc m' = slot_mpmc m ->
  slots_none m -> slots_none m'.
Proof. intros A B C H t. rewrite A, B, C. apply H. Qed.

Lemma wake_slots m f : slots_none m -> slots_none (wake m f).
Proof. intros H. unfold wake. destruct (blocked m f); eapply slots_none_same; eauto. Qed.
Lemma wake_word m f : word (wake m f) = word m.
Proof. unfold wake. destruct (blocked m f); reflexivity. Qed.

(* do_maintenance's deferred slots are never used by the barrier *)
Lemma run_slots_cases m t rest : slots_none m ->
  exists m' e, (run_slots bc m t rest = (m', e, Resume :: rest) \/ run_slots bc m t rest = (m', e, Asleep :: rest))
               /\ slots_none m' /\ word m' = word m.
Proof.
  intros H. unfold run_slots.
  destruct (slot_sched m t) eqn:Es.
  - set (m1 := wake (set_slot_sched m t false) t).
    assert (H1 : slots_none m1).
    { apply wake_slots. eapply slots_none_same; eauto. }
    assert (W1 : word m1 = word m) by (unfold m1; rewrite wake_word; reflexivity).
    destruct (H1 t) as (A & B & C). rewrite C, A, B. unfold sleep.
    destruct (pend m1 t) eqn:Ep; do 2 eexists; (split; [|split]).
    + right. reflexivity.
    + eapply slots_none_same; eauto.
    + exact W1.
    + left. reflexivity.
    + eapply slots_none_same; eauto.
    + exact W1.
  - destruct (H t) as (A & B & C). rewrite C, A, B. unfold sleep.
    destruct (pend m t) eqn:Ep; do 2 eexists; (split; [|split]).
    + right. reflexivity.
    + eapply slots_none_same; eauto.
    + reflexivity.
    + left. reflexivity.
    + eapply slots_none_same; eauto.
    + reflexivity.
Qed.

Lemma ret_bret tw count m t v n k r :
  ret bc (cret tw count) m t v [FC (BRet n k r)]
  = (m, retev t k r ++ fst (start t n (S k)), start_stack t n (S k)).
Proof. destruct n; reflexivity. Qed.

(* what one step of a fiber does to its stack, to the slots and to the counter *)
Definition step_ok (count : Z) (m : kmem) (t : nat) (sg : stack bc) (res : kmem * list Z * stack bc) : Prop :=
  let '(m', _, sg') := res in
  slots_none m' /\ Shape count sg' /\
  ( (bot sg' = bot sg /\ word m' 0%nat = word m 0%nat)
    \/ (exists n k, sg = [WFAdd 0 1 5; FC (BArrived n k)] /\ word m' 0%nat = word m 0%nat + 1 /\
                    bot sg' = Some (BRet n k (if (word m 0%nat + 1) mod count =? 0 then 1 else 0)))
    \/ (exists n, sg = [Start; FC (BNext n 1)] /\ word m' 0%nat = word m 0%nat /\ sg' = start_stack t n 1)
    \/ (exists n k r, bot sg = Some (BRet n k r) /\ word m' 0%nat = word m 0%nat /\ sg' = start_stack t n (S k)) ).

Ltac shape_tac :=
  first [ apply start_shape
        | solve [econstructor; econstructor]
        | solve [apply (sh_wyield _ [_]); constructor]
        | solve [apply (sh_wyield _ [_; _]); constructor]
        | solve [apply (sh_kyield _ _ [_]); constructor]
        | solve [apply (sh_kyield _ _ [_; _]); constructor] ].

Ltac slots_tac H :=
  first [ exact H
        | solve [eapply slots_none_same; [| | |exact H]; reflexivity]
        | solve [apply wake_slots; first [exact H | eapply slots_none_same; [| | |exact H]; reflexivity]] ].

Ltac internal_tac H :=
  split; [slots_tac H | split; [shape_tac | left; split; [reflexivity | try rewrite wake_word; reflexivity]]].

Ltac return_tac H n k r :=
  split; [slots_tac H | split; [shape_tac |
    right; right; right; exists n, k, r; split; [reflexivity | split; [try rewrite wake_word; reflexivity | reflexivity]]]].
Lemma ret_bnext tw count m t v n :
  ret bc (cret tw count) m t v [FC (BNext n 1)] = (m, fst (start t n 1), start_stack t n 1).
Proof. destruct n; reflexivity. Qed.

Lemma ret_kspin tw count m t v q c wc n k :
  ret bc (cret tw count) m t v [KSpin q c wc; FC (BRet n k 1)]
  = if wc <? c then (m, [], [KHead q c wc; FC (BRet n k 1)])
    else (m, retev t k 1 ++ fst (start t n (S k)), start_stack t n (S k)).
Proof. cbn [ret]. unfold kloop. destruct (wc <? c); [reflexivity|]. apply ret_bret. Qed.

Lemma ksched_cases tw count m t q c wc f e n k :
  ksched bc (cret tw count) m t q c wc f e [FC (BRet n k 1)]
  = if wc + 1 <? c then (wake m f, e ++ ev t 901 919 (Zn f), [KHead q c (wc + 1); FC (BRet n k 1)])
    else (wake m f, (e ++ ev t 901 919 (Zn f)) ++ retev t k 1 ++ fst (start t n (S k)), start_stack t n (S k)).
Proof. unfold ksched, kloop. destruct (wc + 1 <? c); [reflexivity|]. rewrite ret_bret. reflexivity. Qed.

Lemma kstep_cases tw count m t sg :
  Shape count sg -> slots_none m -> step_ok count m t sg (kstep bc (cret tw count) m t sg).
Proof.
  intros Sh H. destruct Sh as [|n|n k|q f n k Hf|y n k Hy|q f n k Hf|q y wc n k Hy].
  - (* done *) cbn. internal_tac H.
  - (* start *) cbn [kstep]. rewrite ret_bnext. cbn [step_ok].
    split; [slots_tac H | split; [shape_tac |]].
    right; right; left. exists n. repeat split.
  - (* fetch_add *) cbn [kstep ret cret].
    destruct ((word m 0%nat + 1) mod count =? 0) eqn:E; cbn [step_ok app].
    + split; [slots_tac H | split; [shape_tac |]]. right; left. exists n, k. rewrite E. repeat split.
    + split; [slots_tac H | split; [shape_tac |]]. right; left. exists n, k. rewrite E. repeat split.
  - (* push *) destruct Hf; cbn; internal_tac H.
  - (* yield inside wait *)
    destruct Hy; cbn [app kstep].
    + cbn. internal_tac H.
    + destruct ((st =? ST_WAITING) || (st =? ST_DONE) || (st =? ST_SAVING)).
      * cbn. internal_tac H.
      * rewrite ret_bret. cbn [step_ok]. return_tac H n k 0.
    + destruct (fstate m t =? ST_RUNNING); cbn; internal_tac H.
    + cbn. internal_tac H.
    + cbn. internal_tac H.
    + destruct (fstate m t =? ST_SAVING).
      * cbn. internal_tac H.
      * destruct (run_slots_cases m t [YLoop; FC (BRet n k 0)] H) as (m' & e & [E|E] & H' & W); rewrite E;
          cbn [step_ok]; (split; [exact H'|split; [shape_tac|left; split; [reflexivity|rewrite W; reflexivity]]]).
    + assert (H0 : slots_none (set_fstate m t ST_WAITING)) by slots_tac H.
      destruct (run_slots_cases _ t [YLoop; FC (BRet n k 0)] H0) as (m' & e & [E|E] & H' & W); rewrite E;
          cbn [step_ok]; (split; [exact H'|split; [shape_tac|left; split; [reflexivity|rewrite W; reflexivity]]]).
    + cbn. internal_tac H.
    + cbn. internal_tac H.
  - (* pop loop *)
    destruct Hf; cbn [kstep].
    + cbn. internal_tac H.
    + destruct (nnext m h).
      * destruct (0 <? count - 1).
        -- cbn. internal_tac H.
        -- unfold kloop. destruct (wc <? count - 1).
           ++ cbn. internal_tac H.
           ++ rewrite ret_bret. cbn [step_ok]. return_tac H n k 1.
      * cbn. internal_tac H.
    + cbn. internal_tac H.
    + cbn. internal_tac H.
    + cbn. internal_tac H.
    + cbn. internal_tac H.
    + destruct (fstate m f =? ST_WAITING).
      * cbn. internal_tac H.
      * rewrite ksched_cases. destruct (wc + 1 <? count - 1); cbn [step_ok].
        -- internal_tac H.
        -- return_tac H n k 1.
    + rewrite ksched_cases. destruct (wc + 1 <? count - 1); cbn [step_ok].
      * internal_tac H.
      * return_tac H n k 1.
  - (* yield inside the pop loop *)
    destruct Hy; cbn [app kstep].
    + cbn. internal_tac H.
    + destruct ((st =? ST_WAITING) || (st =? ST_DONE) || (st =? ST_SAVING)).
      * cbn. internal_tac H.
      * rewrite ret_kspin. destruct (wc <? count - 1); cbn [step_ok].
        -- internal_tac H.
        -- return_tac H n k 1.
    + destruct (fstate m t =? ST_RUNNING); cbn; internal_tac H.
    + cbn. internal_tac H.
    + cbn. internal_tac H.
    + destruct (fstate m t =? ST_SAVING).
      * cbn. internal_tac H.
      * destruct (run_slots_cases m t [YLoop; KSpin q (count - 1) wc; FC (BRet n k 1)] H) as (m' & e & [E|E] & H' & W); rewrite E;
          cbn [step_ok]; (split; [exact H'|split; [shape_tac|left; split; [reflexivity|rewrite W; reflexivity]]]).
    + assert (H0 : slots_none (set_fstate m t ST_WAITING)) by slots_tac H.
      destruct (run_slots_cases _ t [YLoop; KSpin q (count - 1) wc; FC (BRet n k 1)] H0) as (m' & e & [E|E] & H' & W); rewrite E;
          cbn [step_ok]; (split; [exact H'|split; [shape_tac|left; split; [reflexivity|rewrite W; reflexivity]]]).
    + cbn. internal_tac H.
    + cbn. internal_tac H.
Qed.

(* projections of lstep *)
Ltac lstep_proj x t := reflexivity.

Lemma lstep_ent x t : ent (lstep x t) =
  match bot (stk (base x) t), bot (stk (fst (step (base x) t)) t) with
  | Some (BNext _ _), Some (BArrived _ k) => ent x ++ [(t, k)]
  | Some (BRet _ _ _), Some (BArrived _ k) => ent x ++ [(t, k)]
  | _, _ => ent x
  end.
Proof. lstep_proj x t. Qed.
Lemma lstep_arr x t : arr (lstep x t) =
  match bot (stk (base x) t), bot (stk (fst (step (base x) t)) t) with
  | Some (BArrived _ k), Some (BRet _ _ _) => arr x ++ [(t, k, word (mem (base x)) 0%nat)]
  | _, _ => arr x
  end.
Proof. lstep_proj x t. Qed.
Lemma lstep_rets x t : rets (lstep x t) =
  match bot (stk (base x) t), bot (stk (fst (step (base x) t)) t) with
  | Some (BRet _ k r), Some (BArrived _ _) => rets x ++ [(t, k, r)]
  | Some (BRet _ k r), None => rets x ++ [(t, k, r)]
  | _, _ => rets x
  end.
Proof. lstep_proj x t. Qed.

Definition sbit (count v : Z) : Z := if (v + 1) mod count =? 0 then 1 else 0.

Lemma step_stk_other s t u : u <> t -> stk (fst (step s t)) u = stk s u.
Proof.
  intros N. unfold step. destruct (kstep bc (cret (two s) (cnt s)) (mem s) t (stk s t)) as [[m1 e1] s1].
  cbn. apply upd_other. exact N.
Qed.
Lemma step_cnt s t : cnt (fst (step s t)) = cnt s.
Proof. unfold step. destruct (kstep bc (cret (two s) (cnt s)) (mem s) t (stk s t)) as [[m1 e1] s1]. reflexivity. Qed.
Lemma step_nthr s t : nthr (fst (step s t)) = nthr s.
Proof. unfold step. destruct (kstep bc (cret (two s) (cnt s)) (mem s) t (stk s t)) as [[m1 e1] s1]. reflexivity. Qed.

(* the six kinds of steps, as seen on the ghost logs *)
Definition same_logs (x x' : ist) := ent x' = ent x /\ arr x' = arr x /\ rets x' = rets x.

Lemma lstep_cases count x t :
  cnt (base x) = count -> slots_none (mem (base x)) -> Shape count (stk (base x) t) ->
  let s := base x in let x' := lstep x t in let s' := base x' in
  slots_none (mem s') /\ Shape count (stk s' t) /\
  ( (bot (stk s' t) = bot (stk s t) /\ word (mem s') 0%nat = word (mem s) 0%nat /\ same_logs x x')
    \/ (exists n k, bot (stk s t) = Some (BArrived n k) /\
                    bot (stk s' t) = Some (BRet n k (sbit count (word (mem s) 0%nat))) /\
                    word (mem s') 0%nat = word (mem s) 0%nat + 1 /\
                    arr x' = arr x ++ [(t, k, word (mem s) 0%nat)] /\ ent x' = ent x /\ rets x' = rets x)
    \/ (bot (stk s t) = Some (BNext 0 1) /\ bot (stk s' t) = None /\
        word (mem s') 0%nat = word (mem s) 0%nat /\ same_logs x x')
    \/ (exists n, bot (stk s t) = Some (BNext (S n) 1) /\ bot (stk s' t) = Some (BArrived n 1) /\
                  word (mem s') 0%nat = word (mem s) 0%nat /\
                  ent x' = ent x ++ [(t, 1%nat)] /\ arr x' = arr x /\ rets x' = rets x)
    \/ (exists k r, bot (stk s t) = Some (BRet 0 k r) /\ bot (stk s' t) = None /\
                    word (mem s') 0%nat = word (mem s) 0%nat /\
                    rets x' = rets x ++ [(t, k, r)] /\ ent x' = ent x /\ arr x' = arr x)
    \/ (exists n k r, bot (stk s t) = Some (BRet (S n) k r) /\ bot (stk s' t) = Some (BArrived n (S k)) /\
                      word (mem s') 0%nat = word (mem s) 0%nat /\
                      rets x' = rets x ++ [(t, k, r)] /\ ent x' = ent x ++ [(t, S k)] /\ arr x' = arr x) ).
Proof.
  intros Hc H Sh s x' s'.
  pose proof (kstep_cases (two s) count (mem s) t (stk s t) Sh H) as K.
  assert (Es' : s' = fst (step s t)) by apply lstep_erase.
  unfold same_logs. unfold x'. rewrite lstep_ent, lstep_arr, lstep_rets. fold s. rewrite <- Es'.
  assert (Est : s' = fst (step s t)) by exact Es'.
  unfold step in Est. fold s in Hc. rewrite Hc in Est.
  destruct (kstep bc (cret (two s) count) (mem s) t (stk s t)) as [[m1 e1] s1].
  cbn [fst] in Est. unfold step_ok in K. destruct K as (K1 & K2 & K3).
  assert (Em : mem s' = m1) by (rewrite Est; reflexivity).
  assert (Ek : stk s' t = s1) by (rewrite Est; cbn; apply upd_same).
  rewrite Em, Ek. split; [exact K1|]. split; [exact K2|].
  destruct K3 as [(B & W)|[(n & k & E & W & B)|[(n & E & W & E1)|(n & k & r & B & W & E1)]]].
  - left. rewrite B. split; [reflexivity|]. split; [exact W|].
    destruct (bot (stk s t)) as [[]|]; repeat split.
  - right; left. exists n, k. rewrite E in *. cbn [bot last]. rewrite B.
    unfold sbit. repeat split; assumption.
  - rewrite E. cbn [bot last]. rewrite E1. destruct n as [|n]; cbn.
    + right; right; left. repeat split; assumption.
    + right; right; right; left. exists n. repeat split; assumption.
  - rewrite B, E1. destruct n as [|n]; cbn.
    + right; right; right; right; left. exists k, r. repeat split; assumption.
    + right; right; right; right; right. exists n, k, r. repeat split; assumption.
Qed.

Definition bot_ok (count : Z) (x : ist) (t : nat) : Prop :=
  match bot (stk (base x) t) with
  | Some (BNext n k) => (forall k' v, ~ In (t, k', v) (arr x)) /\ (forall k' r, ~ In (t, k', r) (rets x))
  | Some (BArrived n k) => In (t, k) (ent x) /\ (forall k' v, In (t, k', v) (arr x) -> (k' < k)%nat)
                           /\ (forall k' r, In (t, k', r) (rets x) -> (k' < k)%nat)
  | Some (BRet n k r) => (exists v, In (t, k, v) (arr x) /\ r = sbit count v)
                         /\ (forall k' v, In (t, k', v) (arr x) -> (k' <= k)%nat)
                         /\ (forall k' r', In (t, k', r') (rets x) -> (k' < k)%nat)
  | None => True
  end.

Record L1 (count : Z) (x : ist) : Prop := {
  l1_cnt : cnt (base x) = count;
  l1_slots : slots_none (mem (base x));
  l1_shape : forall t, Shape count (stk (base x) t);
  l1_word : word (mem (base x)) 0%nat = Z.of_nat (length (arr x));
  l1_tick : forall i t k v, nth_error (arr x) i = Some (t, k, v) -> v = Z.of_nat i;
  l1_ent : forall t k v, In (t, k, v) (arr x) -> In (t, k) (ent x);
  l1_rets : forall t k r, In (t, k, r) (rets x) -> exists v, In (t, k, v) (arr x) /\ r = sbit count v;
  l1_nodup_arr : NoDup (map fst (arr x));
  l1_nodup_rets : NoDup (map fst (rets x));
  l1_bot : forall t, bot_ok count x t
}.

Lemma init_l1 tw count rounds : L1 count (iinit tw count rounds).
Proof.
  constructor; cbn.
  - reflexivity.
  - intros t. repeat split.
  - intros t. constructor.
  - reflexivity.
  - intros i t k v E. destruct i; discriminate.
  - intros t k v [].
  - intros t k r [].
  - constructor.
  - constructor.
  - intros t. unfold bot_ok. cbn. split; intros; intros [].
Qed.

Lemma nodup_snoc {A} (l : list A) a : NoDup l -> ~ In a l -> NoDup (l ++ [a]).
Proof.
  intros N H. apply NoDup_rev in N. rewrite <- (rev_involutive (l ++ [a])). apply NoDup_rev.
  rewrite rev_app_distr. cbn. constructor; [|exact N]. rewrite <- in_rev. exact H.
Qed.

Lemma in_map_fst {A B} (l : list (A * B)) a : In a (map fst l) -> exists b, In (a, b) l.
Proof. intros H. apply in_map_iff in H. destruct H as [[a' b] [E I]]. cbn in E. subst. eauto. Qed.

Lemma bot_ok_other count x x' t u :
  u <> t -> stk (base x') u = stk (base x) u ->
  (forall k v, In (u, k, v) (arr x') <-> In (u, k, v) (arr x)) ->
  (forall k r, In (u, k, r) (rets x') <-> In (u, k, r) (rets x)) ->
  (forall k, In (u, k) (ent x) -> In (u, k) (ent x')) ->
  bot_ok count x u -> bot_ok count x' u.
Proof.
  intros N E A R En. unfold bot_ok. rewrite E.
  destruct (bot (stk (base x) u)) as [[n k|n k|n k r]|]; auto.
  - intros [H1 H2]. split; intros; rewrite ?A, ?R; auto.
  - intros (H1 & H2 & H3). split; [auto|]. split; intros k' v; rewrite ?A, ?R; eauto.
  - intros ((v & H0 & H0') & H2 & H3). split; [exists v; rewrite A; auto|].
    split; intros k' v'; rewrite ?A, ?R; eauto.
Qed.

Lemma in_snoc {A} (l : list A) a b : In a (l ++ [b]) <-> In a l \/ a = b.
Proof. rewrite in_app_iff. cbn. intuition. Qed.

Lemma l1_step count x t : L1 count x -> L1 count (lstep x t).
Proof.
  intros I. destruct I as [Ic Is Ish Iw It Ie Ir Ina Inr Ib].
  pose proof (lstep_cases count x t Ic Is (Ish t)) as K. cbv zeta in K.
  destruct K as (K1 & K2 & K3).
  assert (Eo : forall u, u <> t -> stk (base (lstep x t)) u = stk (base x) u).
  { intros u N. rewrite lstep_erase. apply step_stk_other. exact N. }
  assert (Sh' : forall u, Shape count (stk (base (lstep x t)) u)).
  { intros u. destruct (Nat.eq_dec u t) as [->|N]; [exact K2|]. rewrite Eo by exact N. apply Ish. }
  assert (Cn : cnt (base (lstep x t)) = count) by (rewrite lstep_erase, step_cnt; exact Ic).
  pose proof (Ib t) as Bt. unfold bot_ok in Bt.
  destruct K3 as [(B & W & E1 & E2 & E3)|[(n & k & B & B' & W & E2 & E1 & E3)|[(B & B' & W & E1 & E2 & E3)|
                 [(n & B & B' & W & E1 & E2 & E3)|[(k & r & B & B' & W & E3 & E1 & E2)|(n & k & r & B & B' & W & E3 & E1 & E2)]]]]].
  - (* internal *)
    constructor; try assumption; try (rewrite ?E1, ?E2, ?E3; assumption).
    + rewrite W, E2. exact Iw.
    + intros u. destruct (Nat.eq_dec u t) as [->|N].
      * unfold bot_ok. rewrite B, E1, E2, E3. exact (Ib t).
      * apply (bot_ok_other count x _ t u N (Eo u N)); try (intros; rewrite ?E1, ?E2, ?E3; tauto). apply Ib.
  - (* arrival *)
    rewrite B in Bt. destruct Bt as (Bt1 & Bt2 & Bt3).
    constructor; try assumption; try (rewrite ?E1, ?E3; assumption).
    + rewrite W, E2, Iw, app_length. cbn. lia.
    + intros i t0 k0 v0. rewrite E2. intros Hn.
      destruct (Nat.lt_ge_cases i (length (arr x))) as [L|L].
      * rewrite nth_error_app1 in Hn by exact L. eapply It; eauto.
      * rewrite nth_error_app2 in Hn by exact L.
        destruct (i - length (arr x))%nat eqn:D; cbn in Hn; [|destruct n0; discriminate].
        injection Hn as <- <- <-. rewrite Iw. f_equal. lia.
    + intros t0 k0 v0. rewrite E2, E1, in_snoc. intros [H|H]; [eauto|]. injection H as -> -> ->. exact Bt1.
    + intros t0 k0 r0. rewrite E3, E2. intros H. destruct (Ir _ _ _ H) as (v & Hv & Hr).
      exists v. rewrite in_snoc. auto.
    + rewrite E2, map_app. cbn. apply nodup_snoc; [exact Ina|].
      intros H. apply in_map_fst in H. destruct H as [v H]. specialize (Bt2 _ _ H). lia.
    + intros u. destruct (Nat.eq_dec u t) as [->|N].
      * unfold bot_ok. rewrite B', E2, E3. split; [|split].
        -- exists (word (mem (base x)) 0%nat). rewrite in_snoc. auto.
        -- intros k' v. rewrite in_snoc. intros [H|H]; [specialize (Bt2 _ _ H); lia|]. injection H as -> ->. lia.
        -- exact Bt3.
      * apply (bot_ok_other count x _ t u N (Eo u N)); try (intros; rewrite ?E1, ?E2, ?E3; tauto); [|apply Ib].
        intros k0 v0. rewrite E2, in_snoc. split; [intros [H|H]; [exact H|congruence]|auto].
  - (* start, no rounds *)
    constructor; try assumption; try (rewrite ?E1, ?E2, ?E3; assumption).
    + rewrite W, E2. exact Iw.
    + intros u. destruct (Nat.eq_dec u t) as [->|N].
      * unfold bot_ok. rewrite B'. exact I.
      * apply (bot_ok_other count x _ t u N (Eo u N)); try (intros; rewrite ?E1, ?E2, ?E3; tauto). apply Ib.
  - (* start, first round *)
    rewrite B in Bt. destruct Bt as (Bt1 & Bt2).
    constructor; try assumption; try (rewrite ?E2, ?E3; assumption).
    + rewrite W, E2. exact Iw.
    + intros t0 k0 v0. rewrite E2, E1, in_snoc. eauto.
    + intros u. destruct (Nat.eq_dec u t) as [->|N].
      * unfold bot_ok. rewrite B', E1, E2, E3. split; [rewrite in_snoc; auto|].
        split; intros k' v H; exfalso; [exact (Bt1 _ _ H)|exact (Bt2 _ _ H)].
      * apply (bot_ok_other count x _ t u N (Eo u N)); try (intros; rewrite ?E1, ?E2, ?E3; tauto); [|apply Ib].
        intros k0. rewrite E1, in_snoc. auto.
  - (* return, last round *)
    rewrite B in Bt. destruct Bt as ((v & Bv & Br) & Bt2 & Bt3).
    constructor; try assumption; try (rewrite ?E1, ?E2; assumption).
    + rewrite W, E2. exact Iw.
    + intros t0 k0 r0. rewrite E3, E2, in_snoc. intros [H|H]; [eauto|]. injection H as -> -> ->. eauto.
    + rewrite E3, map_app. cbn. apply nodup_snoc; [exact Inr|].
      intros H. apply in_map_fst in H. destruct H as [r' H]. specialize (Bt3 _ _ H). lia.
    + intros u. destruct (Nat.eq_dec u t) as [->|N].
      * unfold bot_ok. rewrite B'. exact I.
      * apply (bot_ok_other count x _ t u N (Eo u N)); try (intros; rewrite ?E1, ?E2, ?E3; tauto); [|apply Ib].
        intros k0 r0. rewrite E3, in_snoc. split; [intros [H|H]; [exact H|congruence]|auto].
  - (* return and enter the next round *)
    rewrite B in Bt. destruct Bt as ((v & Bv & Br) & Bt2 & Bt3).
    constructor; try assumption; try (rewrite ?E2; assumption).
    + rewrite W, E2. exact Iw.
    + intros t0 k0 v0. rewrite E2, E1, in_snoc. eauto.
    + intros t0 k0 r0. rewrite E3, E2, in_snoc. intros [H|H]; [eauto|]. injection H as -> -> ->. eauto.
    + rewrite E3, map_app. cbn. apply nodup_snoc; [exact Inr|].
      intros H. apply in_map_fst in H. destruct H as [r' H]. specialize (Bt3 _ _ H). lia.
    + intros u. destruct (Nat.eq_dec u t) as [->|N].
      * unfold bot_ok. rewrite B', E1, E2, E3. split; [rewrite in_snoc; auto|]. split.
        -- intros k' v' H. specialize (Bt2 _ _ H). lia.
        -- intros k' r'. rewrite in_snoc. intros [H|H]; [specialize (Bt3 _ _ H); lia|]. injection H as -> ->. lia.
      * apply (bot_ok_other count x _ t u N (Eo u N)); try (intros; rewrite ?E1, ?E2, ?E3; tauto); [| |apply Ib].
        -- intros k0 r0. rewrite E3, in_snoc. split; [intros [H|H]; [exact H|congruence]|auto].
        -- intros k0. rewrite E1, in_snoc. auto.
Qed.

Theorem ireach_l1 tw count rounds x : ireach tw count rounds x -> L1 count x.
Proof. induction 1; [apply init_l1|apply l1_step; assumption]. Qed.
Lemma sbit_cases count v : (sbit count v = 1 /\ (v + 1) mod count = 0) \/ (sbit count v = 0 /\ (v + 1) mod count <> 0).
Proof. unfold sbit. destruct ((v + 1) mod count =? 0) eqn:E; [left|right]; split; auto; lia. Qed.

Lemma one_serial_of_l1 count x : L1 count x ->
  word (mem (base x)) 0%nat = Z.of_nat (length (arr x)) /\
  (forall i t k v, nth_error (arr x) i = Some (t, k, v) -> v = Z.of_nat i) /\
  NoDup (map fst (arr x)) /\ NoDup (map fst (rets x)) /\
  (forall t k r, In (t, k, r) (rets x) ->
     exists v, In (t, k, v) (arr x) /\
               ((r = 1 /\ (v + 1) mod count = 0) \/ (r = 0 /\ (v + 1) mod count <> 0))).
Proof.
  intros I. split; [apply I|]. split; [apply I|]. split; [apply I|]. split; [apply I|].
  intros t k r H. destruct (l1_rets _ _ I _ _ _ H) as (v & Hv & ->). exists v. split; [exact Hv|].
  apply sbit_cases.
Qed.

(* components of the state after a step, from the result of kstep *)
Lemma lstep_view x t m1 e1 s1 :
  kstep bc (cret (two (base x)) (cnt (base x))) (mem (base x)) t (stk (base x) t) = (m1, e1, s1) ->
  mem (base (lstep x t)) = m1 /\ stk (base (lstep x t)) t = s1 /\
  (forall u, u <> t -> stk (base (lstep x t)) u = stk (base x) u) /\
  cnt (base (lstep x t)) = cnt (base x) /\ nthr (base (lstep x t)) = nthr (base x).
Proof.
  intros K. rewrite lstep_erase. unfold step. rewrite K. cbn.
  split; [reflexivity|]. split; [apply upd_same|]. split; [|split; reflexivity].
  intros u N. apply upd_other. exact N.
Qed.

Lemma run_slots_plain m t rest :
  slot_sched m t = false -> slot_mutex m t = None -> slot_wait m t = None -> slot_mpmc m t = None ->
  run_slots bc m t rest = match pend m t with
                          | S k => (set_pend m t k, [], Resume :: rest)
                          | O => (set_blocked m t true, [], Asleep :: rest)
                          end.
Proof. intros A B C D. unfold run_slots. rewrite A, D, B, C. unfold sleep. destruct (pend m t); reflexivity. Qed.

(* ---- nobody returns from any wait before count fetch_adds were executed ----
   (every configuration).  While the counter is below count the system is
   "simple": no serial fiber, nobody has been woken. *)
Definition simple_local (m : kmem) (u : nat) (sg : stack bc) : Prop :=
  match sg with
  | [WData _; FC _] | [WNext _ _; FC _] | [WXchg _ _; FC _] | [WLink _ _ _; FC _] => fstate m u = ST_SAVING
  | [YRead; FC _] => fstate m u = ST_SAVING
  | [YNext st; FC _] => st = ST_SAVING /\ fstate m u = ST_SAVING
  | [SwRead; YLoop; FC _] | [SwDone; YLoop; FC _] | [MRead; YLoop; FC _] => fstate m u = ST_SAVING
  | [SwReady; YLoop; FC _] => False
  | [Asleep; YLoop; FC _] => blocked m u = true
  | [Resume; YLoop; FC _] => False
  | _ => True
  end.

Record Simple (x : ist) : Prop := {
  sp_pend : forall u, pend (mem (base x)) u = O /\ slot_sched (mem (base x)) u = false;
  sp_noser : forall u n k, bot (stk (base x) u) <> Some (BRet n k 1);
  sp_local : forall u, simple_local (mem (base x)) u (stk (base x) u);
  sp_rets : rets x = []
}.

Lemma simple_init tw count rounds : Simple (iinit tw count rounds).
Proof. constructor; cbn; auto. intros; discriminate. Qed.

Lemma simple_local_frame m m' u sg :
  fstate m' u = fstate m u -> blocked m' u = blocked m u -> simple_local m u sg -> simple_local m' u sg.
Proof.
  intros A B. unfold simple_local.
  repeat match goal with |- context [match ?v with _ => _ end] => destruct v; try rewrite A; try rewrite B; auto end.
Qed.

Lemma lstep_rets_same x t :
  (forall n k r, bot (stk (base x) t) <> Some (BRet n k r)) \/
  (exists n k r, bot (stk (base (lstep x t)) t) = Some (BRet n k r)) ->
  rets (lstep x t) = rets x.
Proof.
  intros H. rewrite lstep_rets. rewrite <- lstep_erase.
  destruct (bot (stk (base x) t)) as [[n k|n k|n k r]|]; try reflexivity.
  destruct H as [H|(n' & k' & r' & H)]; [exfalso; eapply H; reflexivity|]. rewrite H. reflexivity.
Qed.

Lemma simple_finish x t m1 s1 :
  Simple x ->
  mem (base (lstep x t)) = m1 -> stk (base (lstep x t)) t = s1 ->
  (forall u, u <> t -> stk (base (lstep x t)) u = stk (base x) u) ->
  (forall u, u <> t -> fstate m1 u = fstate (mem (base x)) u /\ blocked m1 u = blocked (mem (base x)) u) ->
  (forall u, pend m1 u = O /\ slot_sched m1 u = false) ->
  simple_local m1 t s1 ->
  (forall n k, bot s1 <> Some (BRet n k 1)) ->
  ((forall n k r, bot (stk (base x) t) <> Some (BRet n k r)) \/ (exists n k r, bot s1 = Some (BRet n k r))) ->
  Simple (lstep x t).
Proof.
  intros S Em Es Eo Ef Ep Hl Hb Hr. constructor.
  - rewrite Em. exact Ep.
  - intros u. destruct (Nat.eq_dec u t) as [->|N]; [rewrite Es; apply Hb|]. rewrite Eo by exact N. apply S.
  - intros u. rewrite Em. destruct (Nat.eq_dec u t) as [->|N]; [rewrite Es; exact Hl|].
    rewrite Eo by exact N. destruct (Ef u N) as [A B]. eapply simple_local_frame; eauto. apply S.
  - rewrite lstep_rets_same; [apply S|]. rewrite Es. exact Hr.
Qed.

Ltac upd_tac := cbn; unfold upd; repeat match goal with |- context [Nat.eqb ?a ?b] => destruct (Nat.eqb_spec a b); try congruence end; auto.

Lemma simple_step count x t :
  L1 count x -> 1 <= count -> status_of (base x) t = SReady -> Simple x ->
  word (mem (base x)) 0%nat < count ->
  Simple (lstep x t) \/ count <= word (mem (base (lstep x t))) 0%nat.
Proof.
  intros L1x Hc Hst S Hw.
  pose proof (l1_cnt _ _ L1x) as Ic. pose proof (l1_slots _ _ L1x) as Is. pose proof (l1_shape _ _ L1x t) as Sh.
  destruct (kstep bc (cret (two (base x)) (cnt (base x))) (mem (base x)) t (stk (base x) t)) as [[m1 e1] s1] eqn:K.
  destruct (lstep_view x t m1 e1 s1 K) as (Em & Es & Eo & _ & _).
  rewrite Ic in K. pose proof (sp_local _ S t) as Lt. pose proof (sp_pend _ S) as Sp.
  pose proof (sp_noser _ S t) as Ns.
  set (m := mem (base x)) in *.
  remember (stk (base x) t) as sg eqn:Esg.
  destruct Sh as [|n|n k|q f n k Hf|y n k Hy|q f n k Hf|q y wc n k Hy].
  - (* done *) unfold status_of in Hst. rewrite <- Esg in Hst. destruct (t <? nthr (base x))%nat; discriminate.
  - (* start *)
    cbn [kstep] in K. rewrite ret_bnext in K. injection K as <- <- <-. left.
    apply (simple_finish x t _ _ S Em Es Eo); try (intros; upd_tac).
    + destruct n; exact I.
    + destruct n; cbn; discriminate.
    + left. rewrite <- Esg. cbn. discriminate.
  - (* fetch_add *)
    cbn [kstep ret cret] in K. fold m in K.
    destruct (Z_lt_ge_dec (word m 0%nat + 1) count) as [L|L].
    + assert (E : (word m 0%nat + 1) mod count =? 0 = false).
      { pose proof (l1_word _ _ L1x) as Hl. fold m in Hl. apply Z.eqb_neq. rewrite Z.mod_small; lia. }
      rewrite E in K. injection K as <- <- <-. left.
      apply (simple_finish x t _ _ S Em Es Eo); try (intros; upd_tac); try (intros; cbn; discriminate).
      left. rewrite <- Esg. cbn. discriminate.
    + right. rewrite Em.
      destruct ((word m 0%nat + 1) mod count =? 0); injection K as <- <- <-; cbn; unfold upd; cbn; lia.
  - (* push *)
    left.
    destruct Hf; cbn in K; injection K as <- <- <-; cbn in Lt;
      apply (simple_finish x t _ _ S Em Es Eo); try (intros; upd_tac); try discriminate;
      try (right; do 3 eexists; reflexivity).
  - (* yield *)
    left.
    destruct Hy; cbn [app] in *; cbn [simple_local] in Lt.
    + cbn in K. injection K as <- <- <-.
      apply (simple_finish x t _ _ S Em Es Eo); try (intros; upd_tac); try discriminate;
      try (right; do 3 eexists; reflexivity).
    + destruct Lt as [-> Lt]. cbn in K. injection K as <- <- <-.
      apply (simple_finish x t _ _ S Em Es Eo); try (intros; upd_tac); try discriminate;
      try (right; do 3 eexists; reflexivity).
    + cbn [kstep] in K. fold m in Lt. rewrite Lt in K. cbn in K. injection K as <- <- <-.
      apply (simple_finish x t _ _ S Em Es Eo); try (intros; upd_tac); try discriminate;
      try (right; do 3 eexists; reflexivity).
    + contradiction.
    + cbn in K. injection K as <- <- <-.
      apply (simple_finish x t _ _ S Em Es Eo); try (intros; upd_tac); try discriminate;
      try (right; do 3 eexists; reflexivity).
    + cbn [kstep] in K. fold m in Lt. rewrite Lt in K. cbn in K. injection K as <- <- <-.
      apply (simple_finish x t _ _ S Em Es Eo); try (intros; upd_tac); try discriminate;
      try (right; do 3 eexists; reflexivity).
    + cbn [kstep] in K. destruct (Sp t) as [Pt St]. destruct (Is t) as (A & B & C).
      rewrite run_slots_plain in K by (cbn; assumption). cbn in K. fold m in Pt. rewrite Pt in K.
      injection K as <- <- <-.
      apply (simple_finish x t _ _ S Em Es Eo); try (intros; upd_tac); try discriminate;
      try (right; do 3 eexists; reflexivity).
    + exfalso. unfold status_of in Hst. rewrite <- Esg in Hst. cbn [kstatus] in Hst. fold m in Hst.
      rewrite Lt in Hst. destruct (t <? nthr (base x))%nat; discriminate.
    + contradiction.
  - exfalso. apply (Ns n k). reflexivity.
  - exfalso. apply (Ns n k). destruct Hy; reflexivity.
Qed.

Lemma word_mono count x t : L1 count x ->
  word (mem (base x)) 0%nat <= word (mem (base (lstep x t))) 0%nat.
Proof.
  intros L. pose proof (lstep_cases count x t (l1_cnt _ _ L) (l1_slots _ _ L) (l1_shape _ _ L t)) as K.
  cbv zeta in K. destruct K as (_ & _ & K).
  destruct K as [(_ & W & _)|[(n & k & _ & _ & W & _)|[(_ & _ & W & _)|[(n & _ & _ & W & _)|[(k & r & _ & _ & W & _)|(n & k & r & _ & _ & W & _)]]]]]; lia.
Qed.

Lemma ireach_simple tw count rounds x : 1 <= count -> ireach tw count rounds x ->
  Simple x \/ count <= word (mem (base x)) 0%nat.
Proof.
  intros Hc R. induction R as [|x t R IH Hs].
  - left. apply simple_init.
  - pose proof (ireach_l1 _ _ _ _ R) as L. destruct IH as [S|W].
    + destruct (Z_lt_ge_dec (word (mem (base x)) 0%nat) count) as [Lt|Ge].
      * apply (simple_step count); assumption.
      * right. pose proof (word_mono count x t L). lia.
    + right. pose proof (word_mono count x t L). lia.
Qed.

(* in every configuration: a fiber has returned from a wait only if count
   fetch_adds have been executed *)
Lemma no_return_before_count tw count rounds x t k r :
  1 <= count -> ireach tw count rounds x -> In (t, k, r) (rets x) ->
  count <= Z.of_nat (length (arr x)).
Proof.
  intros Hc R H. rewrite <- (l1_word _ _ (ireach_l1 _ _ _ _ R)).
  destruct (ireach_simple tw count rounds x Hc R) as [S|W]; [|exact W].
  rewrite (sp_rets _ S) in H. destruct H.
Qed.

(* ---- one round per fiber ---- *)
Definition single_bot (c : bc) : Prop :=
  match c with
  | BNext n k => k = 1%nat /\ (n <= 1)%nat
  | BArrived n k => n = O /\ k = 1%nat
  | BRet n k _ => n = O /\ k = 1%nat
  end.

Record SR (x : ist) : Prop := {
  sr_bot : forall t c, bot (stk (base x) t) = Some c -> single_bot c;
  sr_arr : forall t k v, In (t, k, v) (arr x) -> k = 1%nat /\ (t < nthr (base x))%nat;
  sr_rets : forall t k r, In (t, k, r) (rets x) -> k = 1%nat
}.

Lemma sr_init tw count rounds : Forall (fun r => r = 1%nat) rounds -> SR (iinit tw count rounds).
Proof.
  intros F. constructor; cbn; try (intros; contradiction).
  intros t c E. injection E as <-. cbn. split; [reflexivity|].
  destruct (nth_in_or_default t rounds O) as [H|H]; [|rewrite H; lia].
  rewrite Forall_forall in F. rewrite (F _ H). lia.
Qed.

Lemma lstep_nthr x t : nthr (base (lstep x t)) = nthr (base x).
Proof. rewrite lstep_erase. apply step_nthr. Qed.

Lemma sr_step count x t : L1 count x -> status_of (base x) t = SReady -> SR x -> SR (lstep x t).
Proof.
  intros L Hs [Sb Sa Sr].
  assert (Ht : (t < nthr (base x))%nat).
  { unfold status_of in Hs. destruct (t <? nthr (base x))%nat eqn:E; [apply Nat.ltb_lt; exact E|discriminate]. }
  pose proof (lstep_cases count x t (l1_cnt _ _ L) (l1_slots _ _ L) (l1_shape _ _ L t)) as K.
  cbv zeta in K. destruct K as (_ & _ & K).
  assert (Eo : forall u, u <> t -> stk (base (lstep x t)) u = stk (base x) u).
  { intros u N. rewrite lstep_erase. apply step_stk_other. exact N. }
  assert (Bo : (forall c, bot (stk (base (lstep x t)) t) = Some c -> single_bot c) ->
               forall u c, bot (stk (base (lstep x t)) u) = Some c -> single_bot c).
  { intros H u c. destruct (Nat.eq_dec u t) as [->|N]; [apply H|rewrite Eo by exact N; apply Sb]. }
  destruct K as [(B & W & E1 & E2 & E3)|[(n & k & B & B' & W & E2 & E1 & E3)|[(B & B' & W & E1 & E2 & E3)|
                 [(n & B & B' & W & E1 & E2 & E3)|[(k & r & B & B' & W & E3 & E1 & E2)|(n & k & r & B & B' & W & E3 & E1 & E2)]]]]].
  - constructor; rewrite ?lstep_nthr, ?E2, ?E3; eauto. apply Bo. rewrite B. apply Sb.
  - pose proof (Sb t _ B) as [-> ->]. constructor; rewrite ?lstep_nthr, ?E2, ?E3; eauto.
    + apply Bo. rewrite B'. intros c E. injection E as <-. split; reflexivity.
    + intros t0 k0 v0. rewrite in_snoc. intros [H|H]; [eauto|]. injection H as -> -> ->. auto.
  - constructor; rewrite ?lstep_nthr, ?E2, ?E3; eauto. apply Bo. rewrite B'. discriminate.
  - pose proof (Sb t _ B) as [_ Hn]. constructor; rewrite ?lstep_nthr, ?E2, ?E3; eauto.
    apply Bo. rewrite B'. intros c E. injection E as <-. split; [lia|reflexivity].
  - pose proof (Sb t _ B) as [_ ->]. constructor; rewrite ?lstep_nthr, ?E2, ?E3; eauto.
    + apply Bo. rewrite B'. discriminate.
    + intros t0 k0 r0. rewrite in_snoc. intros [H|H]; [eauto|]. injection H as -> -> ->. reflexivity.
  - pose proof (Sb t _ B) as [Hn _]. discriminate.
Qed.

Lemma ireach_sr tw count rounds x :
  Forall (fun r => r = 1%nat) rounds -> ireach tw count rounds x -> SR x.
Proof.
  intros F R. induction R as [|x t R IH Hs]; [apply sr_init; exact F|].
  apply (sr_step count); auto. eapply ireach_l1; eauto.
Qed.

Lemma ireach_nthr tw count rounds x : ireach tw count rounds x -> nthr (base x) = length rounds.
Proof. induction 1; [reflexivity|]. rewrite lstep_nthr. assumption. Qed.

Lemma filter_all {A} (f : A -> bool) l : (forall a, In a l -> f a = true) -> filter f l = l.
Proof.
  induction l as [|a l IH]; intros H; cbn; [reflexivity|].
  rewrite (H a) by (left; reflexivity). f_equal. apply IH. intros b Hb. apply H. right. exact Hb.
Qed.

Lemma nodup_ffst (l : list (nat * nat * Z)) :
  (forall t k v, In (t, k, v) l -> k = 1%nat) -> NoDup (map fst l) -> NoDup (map (fun a => fst (fst a)) l).
Proof.
  induction l as [|[[t k] v] l IH]; intros H N; cbn in *; [constructor|].
  inversion N as [|? ? Hn Nl]; subst. constructor.
  - intros Hi. apply Hn. apply in_map_iff in Hi. destruct Hi as [[[t' k'] v'] [E Hi]]. cbn in E. subst t'.
    apply in_map_iff. exists (t, k', v'). split; [|exact Hi]. cbn.
    rewrite (H t k' v') by (right; exact Hi). rewrite (H t k v) by (left; reflexivity). reflexivity.
  - apply IH; [|exact Nl]. intros t' k' v' Hi. apply (H t' k' v'). right. exact Hi.
Qed.

(* exactly count fibers, one round each *)
Lemma single_round_facts tw count rounds x :
  1 <= count -> length rounds = Z.to_nat count -> Forall (fun r => r = 1%nat) rounds ->
  ireach tw count rounds x ->
  round_safe_arrived count x /\
  Z.of_nat (length (arr x)) <= count /\
  (forall t k, In (t, k, 1) (rets x) -> k = 1%nat /\ In (t, 1%nat, count - 1) (arr x)) /\
  (forall t t' k k', In (t, k, 1) (rets x) -> In (t', k', 1) (rets x) -> t = t' /\ k = k').
Proof.
  intros Hc Hn F R.
  pose proof (ireach_l1 _ _ _ _ R) as L. pose proof (ireach_sr _ _ _ _ F R) as S.
  pose proof (ireach_nthr _ _ _ _ R) as Nt.
  assert (Ek : forall t k v, In (t, k, v) (arr x) -> k = 1%nat) by (intros t k v H; apply (sr_arr _ S _ _ _ H)).
  assert (Nf : NoDup (map (fun a => fst (fst a)) (arr x))) by (apply nodup_ffst; [exact Ek|apply L]).
  assert (Len : Z.of_nat (length (arr x)) <= count).
  { assert (Hl : (length (map (fun a => fst (fst a)) (arr x)) <= length (seq 0 (nthr (base x))))%nat).
    { apply NoDup_incl_length; [exact Nf|]. intros u Hu. apply in_map_iff in Hu.
      destruct Hu as [[[t k] v] [E Hi]]. cbn in E. subst u. apply in_seq. destruct (sr_arr _ S _ _ _ Hi). lia. }
    rewrite map_length, seq_length, Nt, Hn in Hl. lia. }
  assert (Ser : forall t k, In (t, k, 1) (rets x) -> k = 1%nat /\ In (t, 1%nat, count - 1) (arr x)).
  { intros t k H. pose proof (sr_rets _ S _ _ _ H) as ->. split; [reflexivity|].
    destruct (l1_rets _ _ L _ _ _ H) as (v & Hv & Hb).
    destruct (In_nth_error _ _ Hv) as [i Hi]. pose proof (l1_tick _ _ L _ _ _ _ Hi) as ->.
    assert (Hlt : (i < length (arr x))%nat) by (apply nth_error_Some; rewrite Hi; discriminate).
    destruct (sbit_cases count (Z.of_nat i)) as [[_ Hm]|[Hm _]]; [|congruence].
    assert (Z.of_nat i + 1 = count).
    { destruct (Z.eq_dec (Z.of_nat i + 1) count) as [E|E]; [exact E|].
      rewrite Z.mod_small in Hm by lia. lia. }
    replace (count - 1) with (Z.of_nat i) by lia. exact Hv. }
  split; [|split; [exact Len|split; [exact Ser|]]].
  - intros t k [r H]. pose proof (sr_rets _ S _ _ _ H) as ->.
    pose proof (no_return_before_count tw count rounds x t 1%nat r Hc R H) as Hw.
    unfold arrived_fibers. rewrite filter_all.
    + split; [exact Nf|]. rewrite map_length. exact Hw.
    + intros [[t' k'] v'] Hi. cbn. rewrite (Ek _ _ _ Hi). reflexivity.
  - intros t t' k k' H H'. destruct (Ser _ _ H) as [-> A]. destruct (Ser _ _ H') as [-> A'].
    split; [|reflexivity].
    destruct (In_nth_error _ _ A) as [i Hi]. destruct (In_nth_error _ _ A') as [i' Hi'].
    pose proof (l1_tick _ _ L _ _ _ _ Hi). pose proof (l1_tick _ _ L _ _ _ _ Hi').
    assert (i = i') by lia. subst i'. congruence.
Qed.

Lemma entered_in x t k : In (t, k) (ent x) -> In t (entered_fibers x k).
Proof.
  intros H. unfold entered_fibers. apply in_map_iff. exists (t, k). split; [reflexivity|].
  apply filter_In. split; [exact H|]. cbn. apply Nat.eqb_refl.
Qed.

(* count = 1: every call is serial; round safety is immediate *)
Lemma round_safe_count1 tw rounds x : ireach tw 1 rounds x -> round_safe 1 x.
Proof.
  intros R t k [r H]. pose proof (ireach_l1 _ _ _ _ R) as L.
  destruct (l1_rets _ _ L _ _ _ H) as (v & Hv & _). pose proof (l1_ent _ _ L _ _ _ Hv) as He.
  apply entered_in in He. destruct (entered_fibers x k); [destruct He|]. cbn. lia.
Qed.
