(* C12: proofs about coq/Barrier.v (client of T1K).
   Part 1: the instrumented machine (ghost logs) and the concrete witnesses.
   Part 2: facts that hold in every configuration (arrival numbers, serial fibers).
   Part 3: exactly [count] fibers, single round or count <= 2: the protocol invariant. *)
From Coq Require Import List ZArith Lia Bool Arith.
From LF Require Import Conc T1K Barrier.
Import ListNotations.
Local Open Scope Z_scope.

(* ------------------------------------------------------------------ *)
(* Part 1: history.  Ghost logs, updated by looking at what the stepping
   fiber does; the executable model is not changed (lstep_erase).

   ent   (t,k)     fiber t entered its k-th fiber_barrier_wait (harness event "entered round k")
   arr   (t,k,v)   fiber t's k-th call executed its fetch_add and fetched v, in execution order
   rets  (t,k,r)   fiber t's k-th call returned r
   chain (n,t)     waiter-list entries (node, pushing fiber) in the order of the tail exchange,
                   not yet consumed by a head update
   infl            the fiber whose entry was consumed last and who has not been scheduled yet
   pw              fibers that arrived as non-serial fibers and have not been scheduled yet *)
Record ist := { base : st;
                ent : list (nat * nat);
                arr : list (nat * nat * Z);
                rets : list (nat * nat * Z);
                chain : list (nat * nat);
                infl : option nat;
                pw : list nat }.

(* the client continuation at the bottom of a stack *)
Definition bot (s : stack bc) : option bc :=
  match last s Start with FC c => Some c | _ => None end.

Definition round_of (c : bc) : nat :=
  match c with BNext _ k => k | BArrived _ k => k | BRet _ k _ => k end.

Definition lstep (x : ist) (t : nat) : ist :=
  let s := base x in
  let s' := fst (step s t) in
  let b0 := bot (stk s t) in
  let b1 := bot (stk s' t) in
  let ent' := match b0, b1 with
              | Some (BNext _ _), Some (BArrived _ k) => ent x ++ [(t, k)]
              | Some (BRet _ _ _), Some (BArrived _ k) => ent x ++ [(t, k)]
              | _, _ => ent x
              end in
  let arr' := match b0, b1 with
              | Some (BArrived _ k), Some (BRet _ _ _) => arr x ++ [(t, k, word (mem s) 0)]
              | _, _ => arr x
              end in
  let rets' := match b0, b1 with
               | Some (BRet _ k r), Some (BArrived _ _) => rets x ++ [(t, k, r)]
               | Some (BRet _ k r), None => rets x ++ [(t, k, r)]
               | _, _ => rets x
               end in
  let '(chain', infl') :=
      match stk s t with
      | WXchg _ n :: _ => (chain x ++ [(n, t)], infl x)
      | KSetHead _ _ _ _ _ :: _ => (tl (chain x), option_map snd (hd_error (chain x)))
      | KState _ _ _ f :: _ => (chain x, if fstate (mem s) f =? ST_WAITING then infl x else None)
      | KReady _ _ _ _ :: _ => (chain x, None)
      | _ => (chain x, infl x)
      end in
  let pw' := match stk s t with
             | WFAdd _ _ _ :: _ => if (word (mem s) 0 + 1) mod cnt s =? 0 then pw x else pw x ++ [t]
             | KState _ _ _ f :: _ => if fstate (mem s) f =? ST_WAITING then pw x else remove Nat.eq_dec f (pw x)
             | KReady _ _ _ f :: _ => remove Nat.eq_dec f (pw x)
             | _ => pw x
             end in
  {| base := s'; ent := ent'; arr := arr'; rets := rets'; chain := chain'; infl := infl'; pw := pw' |}.

Lemma lstep_erase x t : base (lstep x t) = fst (step (base x) t).
Proof.
  unfold lstep.
  destruct (match stk (base x) t with
            | WXchg _ n :: _ => (chain x ++ [(n, t)], infl x)
            | KSetHead _ _ _ _ _ :: _ => (tl (chain x), option_map snd (hd_error (chain x)))
            | KState _ _ _ f :: _ => (chain x, if fstate (mem (base x)) f =? ST_WAITING then infl x else None)
            | KReady _ _ _ _ :: _ => (chain x, None)
            | _ => (chain x, infl x)
            end) as [c i].
  reflexivity.
Qed.

Definition iinit (count : Z) (rounds : list nat) : ist :=
  {| base := init count rounds; ent := []; arr := []; rets := []; chain := []; infl := None; pw := [] |}.

Inductive ireach count rounds : ist -> Prop :=
| ir_init : ireach count rounds (iinit count rounds)
| ir_step x t : ireach count rounds x -> status_of (base x) t = SReady ->
                ireach count rounds (lstep x t).

Lemma ireach_base count rounds x :
  ireach count rounds x -> reachable M (init count rounds) (base x).
Proof.
  induction 1 as [|x t R IH Hs].
  - constructor.
  - rewrite lstep_erase. exact (reach_step M _ _ t IH Hs).
Qed.

(* every reachable state of the executable model carries a ghost history *)
Lemma reachable_ireach count rounds s :
  reachable M (init count rounds) s -> exists x, ireach count rounds x /\ base x = s.
Proof.
  induction 1 as [|s t R IH Hs].
  - exists (iinit count rounds). split; [constructor|reflexivity].
  - destruct IH as [x [Rx Ex]]. exists (lstep x t). split.
    + constructor; [exact Rx|]. rewrite Ex. exact Hs.
    + rewrite lstep_erase, Ex. reflexivity.
Qed.

Definition igrant (x : ist) (t : nat) : ist :=
  match status_of (base x) t with SReady => lstep x t | _ => x end.
Definition irun (x : ist) (sch : list nat) : ist := fold_left igrant sch x.

Lemma ireach_irun count rounds sch : forall x, ireach count rounds x -> ireach count rounds (irun x sch).
Proof.
  induction sch as [|t r IH]; intros x R; cbn; auto. apply IH. unfold igrant.
  destruct (status_of (base x) t) eqn:E; auto. constructor; assumption.
Qed.

Lemma irun_base sch : forall x, base (irun x sch) = fst (run_sched M (base x) sch).
Proof.
  induction sch as [|t r IH]; intros x; [reflexivity|].
  change (base (irun (igrant x t) r) = fst (run_sched M (base x) (t :: r))).
  rewrite IH. cbn [run_sched]. unfold igrant, grant. cbn [mstatus mstep M].
  destruct (status_of (base x) t) eqn:E.
  - destruct (run_sched M (base x) r); reflexivity.
  - rewrite lstep_erase. destruct (step (base x) t) as [s1 e1]. cbn [fst].
    destruct (run_sched M s1 r); reflexivity.
  - destruct (run_sched M (base x) r); reflexivity.
Qed.

(* observations on the logs *)
Definition returned (x : ist) (t k : nat) : Prop := exists r, In (t, k, r) (rets x).
Definition entered_fibers (x : ist) (k : nat) : list nat :=
  map fst (filter (fun e => Nat.eqb (snd e) k) (ent x)).
Definition arrived_fibers (x : ist) (k : nat) : list nat :=
  map (fun a => fst (fst a)) (filter (fun a => Nat.eqb (snd (fst a)) k) (arr x)).

(* a fiber is inside fiber_manager_wake_from_mpsc_queue (the pop loop) *)
Definition in_pop_loop (s : st) (t : nat) : Prop :=
  match stk s t with
  | KHead _ _ _ :: _ | KNext _ _ _ _ :: _ | KSetHead _ _ _ _ _ :: _ | KData _ _ _ _ _ :: _
  | KCopy _ _ _ _ _ :: _ | KOut _ _ _ _ :: _ | KState _ _ _ _ :: _ | KReady _ _ _ _ :: _ => True
  | YRead :: KSpin _ _ _ :: _ | YNext _ :: KSpin _ _ _ :: _ => True
  | _ => False
  end.

(* ---- the F-C12 witness: count = 3, three fibers, two rounds each ---- *)
Definition w_sched : list nat :=
  [0;0;0;0;0;0;0;0;0;0;0;0; 1;1; 2;2;2;2;2;2;2;2;2; 0;0;0;0;0;0;0;0;0;0; 2;2;2;2;2;2;2; 0;0;0;0;0;0;0;0;0]%nat.
Definition w_state : ist := irun (iinit 3 [2;2;2]%nat) w_sched.

Lemma w_reach : ireach 3 [2;2;2]%nat w_state.
Proof. apply ireach_irun. constructor. Qed.

Lemma w_facts :
  rets w_state = [(0%nat, 1%nat, 0); (2%nat, 1%nat, 1); (0%nat, 2%nat, 0)] /\
  entered_fibers w_state 2 = [0; 2]%nat /\
  arrived_fibers w_state 2 = [0]%nat /\
  arr w_state = [(0%nat, 1%nat, 0); (1%nat, 1%nat, 1); (2%nat, 1%nat, 2); (0%nat, 2%nat, 3)].
Proof. vm_compute. repeat split. Qed.

(* the same run, read off the trace of the executable model *)
Lemma w_trace_tail :
  let tr := snd (run_sched M (init 3 [2;2;2]%nat) w_sched) in
  skipn (length tr - 4) tr = [0; 2; 909; 0].
Proof. vm_compute. reflexivity. Qed.

(* ---- two serial fibers in the pop loop at once: count = 3, six fibers, one round ---- *)
Definition c_sched : list nat :=
  [0;0; 1;1; 2;2;2;2; 3;3; 4;4; 5;5;5]%nat.
Definition c_state : ist := irun (iinit 3 [1;1;1;1;1;1]%nat) c_sched.
Lemma c_reach : ireach 3 [1;1;1;1;1;1]%nat c_state.
Proof. apply ireach_irun. constructor. Qed.
Lemma c_facts : in_pop_loop (base c_state) 2 /\ in_pop_loop (base c_state) 5.
Proof. vm_compute. split; exact I. Qed.

(* ---- the property ---- *)
(* round safety as stated (C12): nobody has returned from its k-th wait unless
   count fibers have entered their k-th wait *)
Definition round_safe (count : Z) (x : ist) : Prop :=
  forall t k, returned x t k -> count <= Z.of_nat (length (entered_fibers x k)).
(* the stronger form that correct code guarantees: count distinct fibers have
   executed the fetch_add of their k-th wait *)
Definition round_safe_arrived (count : Z) (x : ist) : Prop :=
  forall t k, returned x t k ->
    NoDup (arrived_fibers x k) /\ count <= Z.of_nat (length (arrived_fibers x k)).

Lemma w_not_round_safe : ~ round_safe 3 w_state.
Proof.
  intros H. specialize (H 0%nat 2%nat).
  assert (R : returned w_state 0 2).
  { exists 0. destruct w_facts as [E _]. rewrite E. cbn. auto. }
  specialize (H R). destruct w_facts as [_ [E _]]. rewrite E in H. cbn in H. lia.
Qed.

(* ------------------------------------------------------------------ *)
(* Part 2: every configuration (any count, any number of fibers, any rounds).
   The stacks of the barrier client have a small number of shapes. *)
Definition slots_none (m : kmem) : Prop :=
  forall t, slot_mutex m t = None /\ slot_wait m t = None /\ slot_mpmc m t = None.

(* inside fiber_manager_yield (the continuation is below) *)
Inductive yph : stack bc -> Prop :=
| y_read : yph [YRead]
| y_next st : yph [YNext st]
| y_swread : yph [SwRead; YLoop]
| y_swready : yph [SwReady; YLoop]
| y_swdone : yph [SwDone; YLoop]
| y_mread : yph [MRead; YLoop]
| y_mflip : yph [MFlip; YLoop]
| y_asleep : yph [Asleep; YLoop]
| y_resume : yph [Resume; YLoop].

(* the push part of wait_in_mpsc_queue *)
Inductive wfr : frame bc -> Prop :=
| w_saving : wfr (WSaving 0)
| w_data : wfr (WData 0)
| w_next n : wfr (WNext 0 n)
| w_xchg n : wfr (WXchg 0 n)
| w_link p n : wfr (WLink 0 p n).

(* wake_from_mpsc_queue(waiters, c) *)
Inductive kfr (c : Z) : frame bc -> Prop :=
| k_head wc : kfr c (KHead 0 c wc)
| k_next wc h : kfr c (KNext 0 c wc h)
| k_sethead wc h nx : kfr c (KSetHead 0 c wc h nx)
| k_data wc h nx : kfr c (KData 0 c wc h nx)
| k_copy wc h d : kfr c (KCopy 0 c wc h d)
| k_out wc h : kfr c (KOut 0 c wc h)
| k_state wc f : kfr c (KState 0 c wc f)
| k_ready wc f : kfr c (KReady 0 c wc f).

Inductive Shape (count : Z) : stack bc -> Prop :=
| sh_done : Shape count []
| sh_start n : Shape count [Start; FC (BNext n 1)]
| sh_fadd n k : Shape count [WFAdd 0 1 5; FC (BArrived n k)]
| sh_wpush f n k : wfr f -> Shape count [f; FC (BRet n k 0)]
| sh_wyield y n k : yph y -> Shape count (y ++ [FC (BRet n k 0)])
| sh_k f n k : kfr (count - 1) f -> Shape count [f; FC (BRet n k 1)]
| sh_kyield y wc n k : yph y -> Shape count (y ++ [KSpin 0 (count - 1) wc; FC (BRet n k 1)]).

Definition start_stack (t n k : nat) : stack bc := snd (start t n k).

Lemma start_shape count t n k : Shape count (start_stack t n k).
Proof. destruct n; cbn; constructor. Qed.

Lemma slots_none_same m m' :
  slot_mutex m' = slot_mutex m -> slot_wait m' = slot_wait m -> slot_mpmc m' = slot_mpmc m ->
  slots_none m -> slots_none m'.
Proof. intros A B C H t. rewrite A, B, C. apply H. Qed.

Lemma wake_slots m f : slots_none m -> slots_none (wake m f).
Proof. intros H. unfold wake. destruct (blocked m f); eapply slots_none_same; eauto. Qed.
Lemma wake_word m f : word (wake m f) = word m.
Proof. unfold wake. destruct (blocked m f); reflexivity. Qed.

(* do_maintenance's deferred slots are never used by the barrier *)
Lemma run_slots_cases m t rest : slots_none m ->
  exists m' e, (run_slots bc m t rest = (m', e, Resume :: rest) \/ run_slots bc m t rest = (m', e, Asleep :: rest))
               /\ slots_none m' /\ word m' = word m.
Proof.
  intros H. unfold run_slots.
  destruct (slot_sched m t) eqn:Es.
  - set (m1 := wake (set_slot_sched m t false) t).
    assert (H1 : slots_none m1).
    { apply wake_slots. eapply slots_none_same; eauto. }
    assert (W1 : word m1 = word m) by (unfold m1; rewrite wake_word; reflexivity).
    destruct (H1 t) as (A & B & C). rewrite C, A, B. unfold sleep.
    destruct (pend m1 t) eqn:Ep; do 2 eexists; (split; [|split]).
    + right. reflexivity.
    + eapply slots_none_same; eauto.
    + exact W1.
    + left. reflexivity.
    + eapply slots_none_same; eauto.
    + exact W1.
  - destruct (H t) as (A & B & C). rewrite C, A, B. unfold sleep.
    destruct (pend m t) eqn:Ep; do 2 eexists; (split; [|split]).
    + right. reflexivity.
    + eapply slots_none_same; eauto.
    + reflexivity.
    + left. reflexivity.
    + eapply slots_none_same; eauto.
    + reflexivity.
Qed.

Lemma ret_bret count m t v n k r :
  ret bc (cret count) m t v [FC (BRet n k r)]
  = (m, retev t k r ++ fst (start t n (S k)), start_stack t n (S k)).
Proof. destruct n; reflexivity. Qed.

(* what one step of a fiber does to its stack, to the slots and to the counter *)
Definition step_ok (count : Z) (m : kmem) (t : nat) (sg : stack bc) (res : kmem * list Z * stack bc) : Prop :=
  let '(m', _, sg') := res in
  slots_none m' /\ Shape count sg' /\
  ( (bot sg' = bot sg /\ word m' 0%nat = word m 0%nat)
    \/ (exists n k, sg = [WFAdd 0 1 5; FC (BArrived n k)] /\ word m' 0%nat = word m 0%nat + 1 /\
                    bot sg' = Some (BRet n k (if (word m 0%nat + 1) mod count =? 0 then 1 else 0)))
    \/ (exists n, sg = [Start; FC (BNext n 1)] /\ word m' 0%nat = word m 0%nat /\ sg' = start_stack t n 1)
    \/ (exists n k r, bot sg = Some (BRet n k r) /\ word m' 0%nat = word m 0%nat /\ sg' = start_stack t n (S k)) ).

Ltac shape_tac :=
  first [ apply start_shape
        | solve [constructor; constructor]
        | solve [apply (sh_wyield _ [_]); constructor]
        | solve [apply (sh_wyield _ [_; _]); constructor]
        | solve [apply (sh_kyield _ [_]); constructor]
        | solve [apply (sh_kyield _ [_; _]); constructor] ].

Ltac slots_tac H :=
  first [ exact H
        | solve [eapply slots_none_same; [| | |exact H]; reflexivity]
        | solve [apply wake_slots; first [exact H | eapply slots_none_same; [| | |exact H]; reflexivity]] ].

Ltac internal_tac H :=
  split; [slots_tac H | split; [shape_tac | left; split; [reflexivity | try rewrite wake_word; reflexivity]]].

Ltac return_tac H n k r :=
  split; [slots_tac H | split; [shape_tac |
    right; right; right; exists n, k, r; split; [reflexivity | split; [try rewrite wake_word; reflexivity | reflexivity]]]].
Lemma ret_bnext count m t v n :
  ret bc (cret count) m t v [FC (BNext n 1)] = (m, fst (start t n 1), start_stack t n 1).
Proof. destruct n; reflexivity. Qed.

Lemma ret_kspin count m t v c wc n k :
  ret bc (cret count) m t v [KSpin 0 c wc; FC (BRet n k 1)]
  = if wc <? c then (m, [], [KHead 0 c wc; FC (BRet n k 1)])
    else (m, retev t k 1 ++ fst (start t n (S k)), start_stack t n (S k)).
Proof. cbn [ret]. unfold kloop. destruct (wc <? c); [reflexivity|]. apply ret_bret. Qed.

Lemma ksched_cases count m t c wc f e n k :
  ksched bc (cret count) m t 0 c wc f e [FC (BRet n k 1)]
  = if wc + 1 <? c then (wake m f, e ++ ev t 901 919 (Zn f), [KHead 0 c (wc + 1); FC (BRet n k 1)])
    else (wake m f, (e ++ ev t 901 919 (Zn f)) ++ retev t k 1 ++ fst (start t n (S k)), start_stack t n (S k)).
Proof. unfold ksched, kloop. destruct (wc + 1 <? c); [reflexivity|]. rewrite ret_bret. reflexivity. Qed.

Lemma kstep_cases count m t sg :
  Shape count sg -> slots_none m -> step_ok count m t sg (kstep bc (cret count) m t sg).
Proof.
  intros Sh H. destruct Sh as [|n|n k|f n k Hf|y n k Hy|f n k Hf|y wc n k Hy].
  - (* done *) cbn. internal_tac H.
  - (* start *) cbn [kstep]. rewrite ret_bnext. cbn [step_ok].
    split; [slots_tac H | split; [shape_tac |]].
    right; right; left. exists n. repeat split.
  - (* fetch_add *) cbn [kstep ret cret].
    destruct ((word m 0%nat + 1) mod count =? 0) eqn:E; cbn [step_ok app].
    + split; [slots_tac H | split; [shape_tac |]]. right; left. exists n, k. rewrite E. repeat split.
    + split; [slots_tac H | split; [shape_tac |]]. right; left. exists n, k. rewrite E. repeat split.
  - (* push *) destruct Hf; cbn; internal_tac H.
  - (* yield inside wait *)
    destruct Hy; cbn [app kstep].
    + cbn. internal_tac H.
    + destruct ((st =? ST_WAITING) || (st =? ST_DONE) || (st =? ST_SAVING)).
      * cbn. internal_tac H.
      * rewrite ret_bret. cbn [step_ok]. return_tac H n k 0.
    + destruct (fstate m t =? ST_RUNNING); cbn; internal_tac H.
    + cbn. internal_tac H.
    + cbn. internal_tac H.
    + destruct (fstate m t =? ST_SAVING).
      * cbn. internal_tac H.
      * destruct (run_slots_cases m t [YLoop; FC (BRet n k 0)] H) as (m' & e & [E|E] & H' & W); rewrite E;
          cbn [step_ok]; (split; [exact H'|split; [shape_tac|left; split; [reflexivity|rewrite W; reflexivity]]]).
    + assert (H0 : slots_none (set_fstate m t ST_WAITING)) by slots_tac H.
      destruct (run_slots_cases _ t [YLoop; FC (BRet n k 0)] H0) as (m' & e & [E|E] & H' & W); rewrite E;
          cbn [step_ok]; (split; [exact H'|split; [shape_tac|left; split; [reflexivity|rewrite W; reflexivity]]]).
    + cbn. internal_tac H.
    + cbn. internal_tac H.
  - (* pop loop *)
    destruct Hf; cbn [kstep].
    + cbn. internal_tac H.
    + destruct (nnext m h).
      * destruct (0 <? count - 1).
        -- cbn. internal_tac H.
        -- unfold kloop. destruct (wc <? count - 1).
           ++ cbn. internal_tac H.
           ++ rewrite ret_bret. cbn [step_ok]. return_tac H n k 1.
      * cbn. internal_tac H.
    + cbn. internal_tac H.
    + cbn. internal_tac H.
    + cbn. internal_tac H.
    + cbn. internal_tac H.
    + destruct (fstate m f =? ST_WAITING).
      * cbn. internal_tac H.
      * rewrite ksched_cases. destruct (wc + 1 <? count - 1); cbn [step_ok].
        -- internal_tac H.
        -- return_tac H n k 1.
    + rewrite ksched_cases. destruct (wc + 1 <? count - 1); cbn [step_ok].
      * internal_tac H.
      * return_tac H n k 1.
  - (* yield inside the pop loop *)
    destruct Hy; cbn [app kstep].
    + cbn. internal_tac H.
    + destruct ((st =? ST_WAITING) || (st =? ST_DONE) || (st =? ST_SAVING)).
      * cbn. internal_tac H.
      * rewrite ret_kspin. destruct (wc <? count - 1); cbn [step_ok].
        -- internal_tac H.
        -- return_tac H n k 1.
    + destruct (fstate m t =? ST_RUNNING); cbn; internal_tac H.
    + cbn. internal_tac H.
    + cbn. internal_tac H.
    + destruct (fstate m t =? ST_SAVING).
      * cbn. internal_tac H.
      * destruct (run_slots_cases m t [YLoop; KSpin 0 (count - 1) wc; FC (BRet n k 1)] H) as (m' & e & [E|E] & H' & W); rewrite E;
          cbn [step_ok]; (split; [exact H'|split; [shape_tac|left; split; [reflexivity|rewrite W; reflexivity]]]).
    + assert (H0 : slots_none (set_fstate m t ST_WAITING)) by slots_tac H.
      destruct (run_slots_cases _ t [YLoop; KSpin 0 (count - 1) wc; FC (BRet n k 1)] H0) as (m' & e & [E|E] & H' & W); rewrite E;
          cbn [step_ok]; (split; [exact H'|split; [shape_tac|left; split; [reflexivity|rewrite W; reflexivity]]]).
    + cbn. internal_tac H.
    + cbn. internal_tac H.
Qed.

(* projections of lstep *)
Ltac lstep_proj x t :=
  unfold lstep;
  destruct (match stk (base x) t with
            | WXchg _ n :: _ => (chain x ++ [(n, t)], infl x)
            | KSetHead _ _ _ _ _ :: _ => (tl (chain x), option_map snd (hd_error (chain x)))
            | KState _ _ _ f :: _ => (chain x, if fstate (mem (base x)) f =? ST_WAITING then infl x else None)
            | KReady _ _ _ _ :: _ => (chain x, None)
            | _ => (chain x, infl x)
            end) as [c i]; reflexivity.

Lemma lstep_ent x t : ent (lstep x t) =
  match bot (stk (base x) t), bot (stk (fst (step (base x) t)) t) with
  | Some (BNext _ _), Some (BArrived _ k) => ent x ++ [(t, k)]
  | Some (BRet _ _ _), Some (BArrived _ k) => ent x ++ [(t, k)]
  | _, _ => ent x
  end.
Proof. lstep_proj x t. Qed.
Lemma lstep_arr x t : arr (lstep x t) =
  match bot (stk (base x) t), bot (stk (fst (step (base x) t)) t) with
  | Some (BArrived _ k), Some (BRet _ _ _) => arr x ++ [(t, k, word (mem (base x)) 0%nat)]
  | _, _ => arr x
  end.
Proof. lstep_proj x t. Qed.
Lemma lstep_rets x t : rets (lstep x t) =
  match bot (stk (base x) t), bot (stk (fst (step (base x) t)) t) with
  | Some (BRet _ k r), Some (BArrived _ _) => rets x ++ [(t, k, r)]
  | Some (BRet _ k r), None => rets x ++ [(t, k, r)]
  | _, _ => rets x
  end.
Proof. lstep_proj x t. Qed.

Definition sbit (count v : Z) : Z := if (v + 1) mod count =? 0 then 1 else 0.

Lemma step_stk_other s t u : u <> t -> stk (fst (step s t)) u = stk s u.
Proof.
  intros N. unfold step. destruct (kstep bc (cret (cnt s)) (mem s) t (stk s t)) as [[m1 e1] s1].
  cbn. apply upd_other. exact N.
Qed.
Lemma step_cnt s t : cnt (fst (step s t)) = cnt s.
Proof. unfold step. destruct (kstep bc (cret (cnt s)) (mem s) t (stk s t)) as [[m1 e1] s1]. reflexivity. Qed.
Lemma step_nthr s t : nthr (fst (step s t)) = nthr s.
Proof. unfold step. destruct (kstep bc (cret (cnt s)) (mem s) t (stk s t)) as [[m1 e1] s1]. reflexivity. Qed.

(* the six kinds of steps, as seen on the ghost logs *)
Definition same_logs (x x' : ist) := ent x' = ent x /\ arr x' = arr x /\ rets x' = rets x.

Lemma lstep_cases count x t :
  cnt (base x) = count -> slots_none (mem (base x)) -> Shape count (stk (base x) t) ->
  let s := base x in let x' := lstep x t in let s' := base x' in
  slots_none (mem s') /\ Shape count (stk s' t) /\
  ( (bot (stk s' t) = bot (stk s t) /\ word (mem s') 0%nat = word (mem s) 0%nat /\ same_logs x x')
    \/ (exists n k, bot (stk s t) = Some (BArrived n k) /\
                    bot (stk s' t) = Some (BRet n k (sbit count (word (mem s) 0%nat))) /\
                    word (mem s') 0%nat = word (mem s) 0%nat + 1 /\
                    arr x' = arr x ++ [(t, k, word (mem s) 0%nat)] /\ ent x' = ent x /\ rets x' = rets x)
    \/ (bot (stk s t) = Some (BNext 0 1) /\ bot (stk s' t) = None /\
        word (mem s') 0%nat = word (mem s) 0%nat /\ same_logs x x')
    \/ (exists n, bot (stk s t) = Some (BNext (S n) 1) /\ bot (stk s' t) = Some (BArrived n 1) /\
                  word (mem s') 0%nat = word (mem s) 0%nat /\
                  ent x' = ent x ++ [(t, 1%nat)] /\ arr x' = arr x /\ rets x' = rets x)
    \/ (exists k r, bot (stk s t) = Some (BRet 0 k r) /\ bot (stk s' t) = None /\
                    word (mem s') 0%nat = word (mem s) 0%nat /\
                    rets x' = rets x ++ [(t, k, r)] /\ ent x' = ent x /\ arr x' = arr x)
    \/ (exists n k r, bot (stk s t) = Some (BRet (S n) k r) /\ bot (stk s' t) = Some (BArrived n (S k)) /\
                      word (mem s') 0%nat = word (mem s) 0%nat /\
                      rets x' = rets x ++ [(t, k, r)] /\ ent x' = ent x ++ [(t, S k)] /\ arr x' = arr x) ).
Proof.
  intros Hc H Sh s x' s'.
  pose proof (kstep_cases count (mem s) t (stk s t) Sh H) as K.
  assert (Es' : s' = fst (step s t)) by apply lstep_erase.
  unfold same_logs. unfold x'. rewrite lstep_ent, lstep_arr, lstep_rets. fold s. rewrite <- Es'.
  assert (Est : s' = fst (step s t)) by exact Es'.
  unfold step in Est. fold s in Hc. rewrite Hc in Est.
  destruct (kstep bc (cret count) (mem s) t (stk s t)) as [[m1 e1] s1].
  cbn [fst] in Est. unfold step_ok in K. destruct K as (K1 & K2 & K3).
  assert (Em : mem s' = m1) by (rewrite Est; reflexivity).
  assert (Ek : stk s' t = s1) by (rewrite Est; cbn; apply upd_same).
  rewrite Em, Ek. split; [exact K1|]. split; [exact K2|].
  destruct K3 as [(B & W)|[(n & k & E & W & B)|[(n & E & W & E1)|(n & k & r & B & W & E1)]]].
  - left. rewrite B. split; [reflexivity|]. split; [exact W|].
    destruct (bot (stk s t)) as [[]|]; repeat split.
  - right; left. exists n, k. rewrite E in *. cbn [bot last]. rewrite B.
    unfold sbit. repeat split; assumption.
  - rewrite E. cbn [bot last]. rewrite E1. destruct n as [|n]; cbn.
    + right; right; left. repeat split; assumption.
    + right; right; right; left. exists n. repeat split; assumption.
  - rewrite B, E1. destruct n as [|n]; cbn.
    + right; right; right; right; left. exists k, r. repeat split; assumption.
    + right; right; right; right; right. exists n, k, r. repeat split; assumption.
Qed.

Definition bot_ok (count : Z) (x : ist) (t : nat) : Prop :=
  match bot (stk (base x) t) with
  | Some (BNext n k) => (forall k' v, ~ In (t, k', v) (arr x)) /\ (forall k' r, ~ In (t, k', r) (rets x))
  | Some (BArrived n k) => In (t, k) (ent x) /\ (forall k' v, In (t, k', v) (arr x) -> (k' < k)%nat)
                           /\ (forall k' r, In (t, k', r) (rets x) -> (k' < k)%nat)
  | Some (BRet n k r) => (exists v, In (t, k, v) (arr x) /\ r = sbit count v)
                         /\ (forall k' v, In (t, k', v) (arr x) -> (k' <= k)%nat)
                         /\ (forall k' r', In (t, k', r') (rets x) -> (k' < k)%nat)
  | None => True
  end.

Record L1 (count : Z) (x : ist) : Prop := {
  l1_cnt : cnt (base x) = count;
  l1_slots : slots_none (mem (base x));
  l1_shape : forall t, Shape count (stk (base x) t);
  l1_word : word (mem (base x)) 0%nat = Z.of_nat (length (arr x));
  l1_tick : forall i t k v, nth_error (arr x) i = Some (t, k, v) -> v = Z.of_nat i;
  l1_ent : forall t k v, In (t, k, v) (arr x) -> In (t, k) (ent x);
  l1_rets : forall t k r, In (t, k, r) (rets x) -> exists v, In (t, k, v) (arr x) /\ r = sbit count v;
  l1_nodup_arr : NoDup (map fst (arr x));
  l1_nodup_rets : NoDup (map fst (rets x));
  l1_bot : forall t, bot_ok count x t
}.

Lemma init_l1 count rounds : L1 count (iinit count rounds).
Proof.
  constructor; cbn.
  - reflexivity.
  - intros t. repeat split.
  - intros t. constructor.
  - reflexivity.
  - intros i t k v E. destruct i; discriminate.
  - intros t k v [].
  - intros t k r [].
  - constructor.
  - constructor.
  - intros t. unfold bot_ok. cbn. split; intros; intros [].
Qed.

Lemma nodup_snoc {A} (l : list A) a : NoDup l -> ~ In a l -> NoDup (l ++ [a]).
Proof.
  intros N H. apply NoDup_rev in N. rewrite <- (rev_involutive (l ++ [a])). apply NoDup_rev.
  rewrite rev_app_distr. cbn. constructor; [|exact N]. rewrite <- in_rev. exact H.
Qed.

Lemma in_map_fst {A B} (l : list (A * B)) a : In a (map fst l) -> exists b, In (a, b) l.
Proof. intros H. apply in_map_iff in H. destruct H as [[a' b] [E I]]. cbn in E. subst. eauto. Qed.

Lemma bot_ok_other count x x' t u :
  u <> t -> stk (base x') u = stk (base x) u ->
  (forall k v, In (u, k, v) (arr x') <-> In (u, k, v) (arr x)) ->
  (forall k r, In (u, k, r) (rets x') <-> In (u, k, r) (rets x)) ->
  (forall k, In (u, k) (ent x) -> In (u, k) (ent x')) ->
  bot_ok count x u -> bot_ok count x' u.
Proof.
  intros N E A R En. unfold bot_ok. rewrite E.
  destruct (bot (stk (base x) u)) as [[n k|n k|n k r]|]; auto.
  - intros [H1 H2]. split; intros; rewrite ?A, ?R; auto.
  - intros (H1 & H2 & H3). split; [auto|]. split; intros k' v; rewrite ?A, ?R; eauto.
  - intros ((v & H0 & H0') & H2 & H3). split; [exists v; rewrite A; auto|].
    split; intros k' v'; rewrite ?A, ?R; eauto.
Qed.

Lemma in_snoc {A} (l : list A) a b : In a (l ++ [b]) <-> In a l \/ a = b.
Proof. rewrite in_app_iff. cbn. intuition. Qed.

Lemma l1_step count x t : L1 count x -> L1 count (lstep x t).
Proof.
  intros I. destruct I as [Ic Is Ish Iw It Ie Ir Ina Inr Ib].
  pose proof (lstep_cases count x t Ic Is (Ish t)) as K. cbv zeta in K.
  destruct K as (K1 & K2 & K3).
  assert (Eo : forall u, u <> t -> stk (base (lstep x t)) u = stk (base x) u).
  { intros u N. rewrite lstep_erase. apply step_stk_other. exact N. }
  assert (Sh' : forall u, Shape count (stk (base (lstep x t)) u)).
  { intros u. destruct (Nat.eq_dec u t) as [->|N]; [exact K2|]. rewrite Eo by exact N. apply Ish. }
  assert (Cn : cnt (base (lstep x t)) = count) by (rewrite lstep_erase, step_cnt; exact Ic).
  pose proof (Ib t) as Bt. unfold bot_ok in Bt.
  destruct K3 as [(B & W & E1 & E2 & E3)|[(n & k & B & B' & W & E2 & E1 & E3)|[(B & B' & W & E1 & E2 & E3)|
                 [(n & B & B' & W & E1 & E2 & E3)|[(k & r & B & B' & W & E3 & E1 & E2)|(n & k & r & B & B' & W & E3 & E1 & E2)]]]]].
  - (* internal *)
    constructor; try assumption; try (rewrite ?E1, ?E2, ?E3; assumption).
    + rewrite W, E2. exact Iw.
    + intros u. destruct (Nat.eq_dec u t) as [->|N].
      * unfold bot_ok. rewrite B, E1, E2, E3. exact (Ib t).
      * apply (bot_ok_other count x _ t u N (Eo u N)); try (intros; rewrite ?E1, ?E2, ?E3; tauto). apply Ib.
  - (* arrival *)
    rewrite B in Bt. destruct Bt as (Bt1 & Bt2 & Bt3).
    constructor; try assumption; try (rewrite ?E1, ?E3; assumption).
    + rewrite W, E2, Iw, app_length. cbn. lia.
    + intros i t0 k0 v0. rewrite E2. intros Hn.
      destruct (Nat.lt_ge_cases i (length (arr x))) as [L|L].
      * rewrite nth_error_app1 in Hn by exact L. eapply It; eauto.
      * rewrite nth_error_app2 in Hn by exact L.
        destruct (i - length (arr x))%nat eqn:D; cbn in Hn; [|destruct n0; discriminate].
        injection Hn as <- <- <-. rewrite Iw. f_equal. lia.
    + intros t0 k0 v0. rewrite E2, E1, in_snoc. intros [H|H]; [eauto|]. injection H as -> -> ->. exact Bt1.
    + intros t0 k0 r0. rewrite E3, E2. intros H. destruct (Ir _ _ _ H) as (v & Hv & Hr).
      exists v. rewrite in_snoc. auto.
    + rewrite E2, map_app. cbn. apply nodup_snoc; [exact Ina|].
      intros H. apply in_map_fst in H. destruct H as [v H]. specialize (Bt2 _ _ H). lia.
    + intros u. destruct (Nat.eq_dec u t) as [->|N].
      * unfold bot_ok. rewrite B', E2, E3. split; [|split].
        -- exists (word (mem (base x)) 0%nat). rewrite in_snoc. auto.
        -- intros k' v. rewrite in_snoc. intros [H|H]; [specialize (Bt2 _ _ H); lia|]. injection H as -> ->. lia.
        -- exact Bt3.
      * apply (bot_ok_other count x _ t u N (Eo u N)); try (intros; rewrite ?E1, ?E2, ?E3; tauto); [|apply Ib].
        intros k0 v0. rewrite E2, in_snoc. split; [intros [H|H]; [exact H|congruence]|auto].
  - (* start, no rounds *)
    constructor; try assumption; try (rewrite ?E1, ?E2, ?E3; assumption).
    + rewrite W, E2. exact Iw.
    + intros u. destruct (Nat.eq_dec u t) as [->|N].
      * unfold bot_ok. rewrite B'. exact I.
      * apply (bot_ok_other count x _ t u N (Eo u N)); try (intros; rewrite ?E1, ?E2, ?E3; tauto). apply Ib.
  - (* start, first round *)
    rewrite B in Bt. destruct Bt as (Bt1 & Bt2).
    constructor; try assumption; try (rewrite ?E2, ?E3; assumption).
    + rewrite W, E2. exact Iw.
    + intros t0 k0 v0. rewrite E2, E1, in_snoc. eauto.
    + intros u. destruct (Nat.eq_dec u t) as [->|N].
      * unfold bot_ok. rewrite B', E1, E2, E3. split; [rewrite in_snoc; auto|].
        split; intros k' v H; exfalso; [exact (Bt1 _ _ H)|exact (Bt2 _ _ H)].
      * apply (bot_ok_other count x _ t u N (Eo u N)); try (intros; rewrite ?E1, ?E2, ?E3; tauto); [|apply Ib].
        intros k0. rewrite E1, in_snoc. auto.
  - (* return, last round *)
    rewrite B in Bt. destruct Bt as ((v & Bv & Br) & Bt2 & Bt3).
    constructor; try assumption; try (rewrite ?E1, ?E2; assumption).
    + rewrite W, E2. exact Iw.
    + intros t0 k0 r0. rewrite E3, E2, in_snoc. intros [H|H]; [eauto|]. injection H as -> -> ->. eauto.
    + rewrite E3, map_app. cbn. apply nodup_snoc; [exact Inr|].
      intros H. apply in_map_fst in H. destruct H as [r' H]. specialize (Bt3 _ _ H). lia.
    + intros u. destruct (Nat.eq_dec u t) as [->|N].
      * unfold bot_ok. rewrite B'. exact I.
      * apply (bot_ok_other count x _ t u N (Eo u N)); try (intros; rewrite ?E1, ?E2, ?E3; tauto); [|apply Ib].
        intros k0 r0. rewrite E3, in_snoc. split; [intros [H|H]; [exact H|congruence]|auto].
  - (* return and enter the next round *)
    rewrite B in Bt. destruct Bt as ((v & Bv & Br) & Bt2 & Bt3).
    constructor; try assumption; try (rewrite ?E2; assumption).
    + rewrite W, E2. exact Iw.
    + intros t0 k0 v0. rewrite E2, E1, in_snoc. eauto.
    + intros t0 k0 r0. rewrite E3, E2, in_snoc. intros [H|H]; [eauto|]. injection H as -> -> ->. eauto.
    + rewrite E3, map_app. cbn. apply nodup_snoc; [exact Inr|].
      intros H. apply in_map_fst in H. destruct H as [r' H]. specialize (Bt3 _ _ H). lia.
    + intros u. destruct (Nat.eq_dec u t) as [->|N].
      * unfold bot_ok. rewrite B', E1, E2, E3. split; [rewrite in_snoc; auto|]. split.
        -- intros k' v' H. specialize (Bt2 _ _ H). lia.
        -- intros k' r'. rewrite in_snoc. intros [H|H]; [specialize (Bt3 _ _ H); lia|]. injection H as -> ->. lia.
      * apply (bot_ok_other count x _ t u N (Eo u N)); try (intros; rewrite ?E1, ?E2, ?E3; tauto); [| |apply Ib].
        -- intros k0 r0. rewrite E3, in_snoc. split; [intros [H|H]; [exact H|congruence]|auto].
        -- intros k0. rewrite E1, in_snoc. auto.
Qed.

Theorem ireach_l1 count rounds x : ireach count rounds x -> L1 count x.
Proof. induction 1; [apply init_l1|apply l1_step; assumption]. Qed.
