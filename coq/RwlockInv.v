(* C07: the inductive invariant of coq/Rwlock.v (definitions, frame lemmas, initial state).
   Ghost state (existentially quantified in [Inv]):
     gl sd     the (node, fiber) entries of side sd's waiter list, pushed (XCHG done) and
               not yet popped (head not yet advanced past them), oldest first
     grole t   what fiber t is with respect to the lock
     nown n    who owns mpsc node n                                                  *)
From Coq Require Import List ZArith Lia Bool Arith.
From LF Require Import Conc T1K Rwlock RwlockLemmas.
Import ListNotations.
Local Open Scope Z_scope.

(* phases of a fiber that announced itself as a waiter *)
Inductive wph :=
| Pre        (* counted in the word, node not yet pushed ("counted but not yet enqueued") *)
| InL        (* node pushed, not popped *)
| Popped     (* popped by the releasing fiber, wake-up not yet delivered *)
| Woken      (* wake-up delivered, not yet consumed *)
| Resumed.   (* running again inside wait_in_mpsc_queue's yield *)
Inductive role :=
| RIdle
| ROwn (sd : side)                 (* holds the lock (acquired directly or returned from the wait) *)
| RWait (sd : side) (w : wph).
Inductive owner := OFree | OList (sd : side) | OThr (t : nat) | OPop.
Record ghost := { gl : side -> list (nat * nat); grole : nat -> role; nown : nat -> owner }.

Definition side_eqb (a b : side) : bool :=
  match a, b with SR, SR | SW, SW => true | _, _ => false end.
Lemma side_eqb_refl a : side_eqb a a = true. Proof. now destruct a. Qed.
Lemma side_eqb_eq a b : side_eqb a b = true <-> a = b. Proof. destruct a, b; cbn; split; congruence. Qed.
Lemma qof_inj a b : qof a = qof b -> a = b. Proof. destruct a, b; cbn; congruence. Qed.

Definition b2z (b : bool) : Z := if b then 1 else 0.

(* admissions granted by a release CAS that the releasing fiber has still to pop *)
Definition tp (k : stack rwc) (q : nat) : Z :=
  match k with
  | KHead q' cnt wc :: _ | KNext q' cnt wc _ :: _ | KSetHead q' cnt wc _ _ :: _
  | YRead :: KSpin q' cnt wc :: _ | YNext _ :: KSpin q' cnt wc :: _ =>
      if Nat.eqb q' q then cnt - wc else 0
  | KData q' cnt wc _ _ :: _ | KCopy q' cnt wc _ _ :: _ | KOut q' cnt wc _ :: _
  | KState q' cnt wc _ :: _ | KReady q' cnt wc _ :: _ =>
      if Nat.eqb q' q then cnt - wc - 1 else 0
  | _ => 0
  end.

Definition is_popper (k : stack rwc) : Prop :=
  match k with
  | KHead _ _ _ :: _ | KNext _ _ _ _ :: _ | KSetHead _ _ _ _ _ :: _
  | YRead :: KSpin _ _ _ :: _ | YNext _ :: KSpin _ _ _ :: _
  | KData _ _ _ _ _ :: _ | KCopy _ _ _ _ _ :: _ | KOut _ _ _ _ :: _
  | KState _ _ _ _ :: _ | KReady _ _ _ _ :: _ => True
  | _ => False
  end.

(* contribution of one fiber to waiting_{readers,writers} and to reader_count / write_locked *)
Definition c_ann (sd : side) (r : role) (k : stack rwc) : Z :=
  match r with
  | RWait sd' Pre | RWait sd' InL => b2z (side_eqb sd sd')
  | _ => 0
  end - tp k (qof sd).
Definition c_own (sd : side) (r : role) (k : stack rwc) : Z :=
  match r with
  | ROwn sd' | RWait sd' Popped | RWait sd' Woken | RWait sd' Resumed => b2z (side_eqb sd sd')
  | _ => 0
  end + tp k (qof sd).

Definition counts (s : st) (g : ghost) : rwf :=
  {| f_wl := zsum (fun t => c_own SW (grole g t) (stk s t)) (nthr s);
     f_rc := zsum (fun t => c_own SR (grole g t) (stk s t)) (nthr s);
     f_wr := zsum (fun t => c_ann SR (grole g t) (stk s t)) (nthr s);
     f_ww := zsum (fun t => c_ann SW (grole g t) (stk s t)) (nthr s) |}.

(* ---------- what a fiber's stack looks like ---------- *)
Definition run_ok (m : kmem) (t : nat) : Prop :=
  fstate m t = ST_RUNNING /\ pend m t = O /\ blocked m t = false /\ fnode m t <> O.

(* a waiter between its push and its sleep *)
Definition pre_ok (m : kmem) (t : nat) (w : wph) : Prop :=
  (w = InL \/ w = Popped \/ w = Woken) /\ fstate m t = ST_SAVING /\ blocked m t = false /\
  pend m t = (match w with Woken => 1%nat | _ => O end) /\
  (w = InL -> fnode m t = O) /\ (w = Woken -> fnode m t <> O).

Definition pq (sd : side) (cnt wc : Z) : Prop := 0 <= wc < cnt.

Inductive shape (m : kmem) (t : nat) : role -> stack rwc -> Prop :=
| sh_done r : (r = RIdle \/ exists sd, r = ROwn sd) -> shape m t r []
| sh_start p : pend m t = O -> blocked m t = false -> fnode m t <> O ->
    shape m t RIdle [Start; FC (RNext p 1 HNone)]
| sh_lsnap sd p k : run_ok m t -> shape m t RIdle [WReadW 0; FC (LSnap sd p k)]
| sh_lcasw sd p k e : run_ok m t -> busy sd e = true ->
    shape m t RIdle [WCasW 0 e (announce sd e) 5; FC (LCasW sd p k)]
| sh_lcasa sd p k e : run_ok m t -> busy sd e = false ->
    shape m t RIdle [WCasW 0 e (acquire sd e) 5; FC (LCasA sd p k)]
| sh_tsnap sd p k : run_ok m t -> shape m t RIdle [WReadW 0; FC (TSnap sd p k)]
| sh_tcasa sd p k e : run_ok m t -> busy sd e = false ->
    shape m t RIdle [WCasW 0 e (acquire sd e) 5; FC (TCasA sd p k)]
| sh_gotr p k r : run_ok m t -> shape m t (ROwn SR) [CRead 0; FC (RSeen p k r)]
| sh_gotw p k r v : run_ok m t -> shape m t (ROwn SW) [CWrite 0 v; FC (WWrote p k r)]
| sh_ucheck sd p k seen : run_ok m t -> shape m t (ROwn sd) [CRead 0; FC (UCheck sd p k seen)]
| sh_usnap sd p k r : run_ok m t -> shape m t (ROwn sd) [WReadW 0; FC (USnap sd p k r)]
| sh_ucas sd p k r e n h : run_ok m t -> release sd e = (n, h) ->
    shape m t (ROwn sd) [WCasW 0 e n 5; FC (UCas sd p k r h)]
(* the releasing fiber inside wake_from_mpsc_queue *)
| sh_khead sd cnt wc p k r : run_ok m t -> pq sd cnt wc ->
    shape m t RIdle [KHead (qof sd) cnt wc; FC (UWoke p k r)]
| sh_knext sd cnt wc h p k r : run_ok m t -> pq sd cnt wc ->
    shape m t RIdle [KNext (qof sd) cnt wc h; FC (UWoke p k r)]
| sh_kspin1 sd cnt wc p k r : run_ok m t -> pq sd cnt wc ->
    shape m t RIdle [YRead; KSpin (qof sd) cnt wc; FC (UWoke p k r)]
| sh_kspin2 sd cnt wc p k r : run_ok m t -> pq sd cnt wc ->
    shape m t RIdle [YNext ST_RUNNING; KSpin (qof sd) cnt wc; FC (UWoke p k r)]
| sh_ksethead sd cnt wc h nx p k r : run_ok m t -> pq sd cnt wc ->
    shape m t RIdle [KSetHead (qof sd) cnt wc h nx; FC (UWoke p k r)]
| sh_kdata sd cnt wc h nx p k r : run_ok m t -> pq sd cnt wc ->
    shape m t RIdle [KData (qof sd) cnt wc h nx; FC (UWoke p k r)]
| sh_kcopy sd cnt wc h d p k r : run_ok m t -> pq sd cnt wc ->
    shape m t RIdle [KCopy (qof sd) cnt wc h d; FC (UWoke p k r)]
| sh_kout sd cnt wc h p k r : run_ok m t -> pq sd cnt wc ->
    shape m t RIdle [KOut (qof sd) cnt wc h; FC (UWoke p k r)]
| sh_kstate sd cnt wc f p k r : run_ok m t -> pq sd cnt wc ->
    shape m t RIdle [KState (qof sd) cnt wc f; FC (UWoke p k r)]
| sh_kready sd cnt wc f p k r : run_ok m t -> pq sd cnt wc ->
    shape m t RIdle [KReady (qof sd) cnt wc f; FC (UWoke p k r)]
(* a waiter inside wait_in_mpsc_queue *)
| sh_wsaving sd p k : run_ok m t -> shape m t (RWait sd Pre) [WSaving (qof sd); FC (LWoken sd p k)]
| sh_wdata sd p k : fstate m t = ST_SAVING -> pend m t = O -> blocked m t = false -> fnode m t <> O ->
    shape m t (RWait sd Pre) [WData (qof sd); FC (LWoken sd p k)]
| sh_wnext sd n p k : fstate m t = ST_SAVING -> pend m t = O -> blocked m t = false -> fnode m t = O ->
    shape m t (RWait sd Pre) [WNext (qof sd) n; FC (LWoken sd p k)]
| sh_wxchg sd n p k : fstate m t = ST_SAVING -> pend m t = O -> blocked m t = false -> fnode m t = O ->
    shape m t (RWait sd Pre) [WXchg (qof sd) n; FC (LWoken sd p k)]
| sh_wlink sd p0 n p k : fstate m t = ST_SAVING -> pend m t = O -> blocked m t = false -> fnode m t = O ->
    shape m t (RWait sd InL) [WLink (qof sd) p0 n; FC (LWoken sd p k)]
| sh_pyread sd w p k : pre_ok m t w -> shape m t (RWait sd w) [YRead; FC (LWoken sd p k)]
| sh_pynext sd w p k : pre_ok m t w -> shape m t (RWait sd w) [YNext ST_SAVING; FC (LWoken sd p k)]
| sh_pswread sd w p k : pre_ok m t w -> shape m t (RWait sd w) [SwRead; YLoop; FC (LWoken sd p k)]
| sh_pswdone sd w p k : pre_ok m t w -> shape m t (RWait sd w) [SwDone; YLoop; FC (LWoken sd p k)]
| sh_pmread sd w p k : pre_ok m t w -> shape m t (RWait sd w) [MRead; YLoop; FC (LWoken sd p k)]
| sh_pmflip sd w p k : pre_ok m t w -> shape m t (RWait sd w) [MFlip; YLoop; FC (LWoken sd p k)]
| sh_asleep sd w p k : (w = InL \/ w = Popped \/ w = Woken) -> pend m t = O ->
    blocked m t = (match w with Woken => false | _ => true end) ->
    (w <> Woken -> fstate m t = ST_WAITING) -> (w = InL -> fnode m t = O) -> (w = Woken -> fnode m t <> O) ->
    shape m t (RWait sd w) [Asleep; YLoop; FC (LWoken sd p k)]
| sh_resume sd p k : pend m t = O -> blocked m t = false -> fnode m t <> O ->
    shape m t (RWait sd Resumed) [Resume; YLoop; FC (LWoken sd p k)]
| sh_ryread sd p k : run_ok m t -> shape m t (RWait sd Resumed) [YRead; FC (LWoken sd p k)]
| sh_rynext sd p k : run_ok m t -> shape m t (RWait sd Resumed) [YNext ST_RUNNING; FC (LWoken sd p k)].

(* ---------- the waiter lists ---------- *)
Definition link_ok (s : st) (sd : side) (a b w : nat) : Prop :=
  match stk s w with
  | WLink q p n :: _ => p = a /\ n = b /\ nnext (mem s) a = O
  | _ => nnext (mem s) a = b
  end.

Fixpoint chain (s : st) (g : ghost) (sd : side) (a : nat) (l : list (nat * nat)) : Prop :=
  match l with
  | [] => nnext (mem s) a = O /\ qtail (mem s) (qof sd) = a
  | (b, w) :: l' =>
      b <> O /\ (w < nthr s)%nat /\ grole g w = RWait sd InL /\ ndata (mem s) b = fname w /\
      link_ok s sd a b w /\ chain s g sd b l'
  end.

Definition nodes (s : st) (g : ghost) (sd : side) : list nat := qhead (mem s) (qof sd) :: map fst (gl g sd).

(* nodes a waiter holds in its frame between taking it from fiber->mpsc_fifo_node and pushing it *)
Definition held_ok (s : st) (g : ghost) (t : nat) : Prop :=
  match stk s t with
  | WNext q n :: _ => n <> O /\ nown g n = OThr t /\ ndata (mem s) n = fname t
  | WXchg q n :: _ => n <> O /\ nown g n = OThr t /\ ndata (mem s) n = fname t /\ nnext (mem s) n = O
  | _ => True
  end.

Definition popped (s : st) (g : ghost) (q : nat) (f : nat) : Prop :=
  exists sd, q = qof sd /\ grole g f = RWait sd Popped /\ (f < nthr s)%nat.

(* what the popping fiber knows *)
Definition pop_ok (s : st) (g : ghost) (u : nat) : Prop :=
  match stk s u with
  | KNext q cnt wc h :: _ => h = qhead (mem s) q
  | KSetHead q cnt wc h nx :: _ => h = qhead (mem s) q /\ nnext (mem s) h = nx /\ nx <> O
  | KData q cnt wc h nx :: _ =>
      qhead (mem s) q = nx /\ nown g h = OPop /\ h <> O /\ exists f, popped s g q f /\ ndata (mem s) nx = fname f
  | KCopy q cnt wc h d :: _ => nown g h = OPop /\ h <> O /\ exists f, popped s g q f /\ d = fname f
  | KOut q cnt wc h :: _ => nown g h = OPop /\ h <> O /\ exists f, popped s g q f /\ ndata (mem s) h = fname f
  | KState q cnt wc f :: _ => popped s g q f /\ fnode (mem s) f <> O
  | KReady q cnt wc f :: _ => popped s g q f /\ fnode (mem s) f <> O /\ exists r, stk s f = Asleep :: r
  | _ => True
  end.

(* fiber u has popped f's entry and is on its way to schedule f *)
Definition inflight (s : st) (u f : nat) : Prop :=
  match stk s u with
  | KData _ _ _ _ nx :: _ => ndata (mem s) nx = fname f
  | KCopy _ _ _ _ d :: _ => d = fname f
  | KOut _ _ _ h :: _ => ndata (mem s) h = fname f
  | KState _ _ _ f' :: _ | KReady _ _ _ f' :: _ => f' = f
  | _ => False
  end.

Definition slots_empty (m : kmem) (t : nat) : Prop :=
  slot_sched m t = false /\ slot_mpmc m t = None /\ slot_mutex m t = None /\ slot_wait m t = None.

Record InvG (s : st) (g : ghost) : Prop := {
  i_shape : forall t, shape (mem s) t (grole g t) (stk s t);
  i_out : forall t, (nthr s <= t)%nat -> exists p, stk s t = [Start; FC (RNext p 1 HNone)];
  i_slots : forall t, slots_empty (mem s) t;
  i_word : word (mem s) O = rw_pack (counts s g);
  i_fields : fields_ok (counts s g);
  i_excl : f_wl (counts s g) = 1 -> f_rc (counts s g) = 0;
  i_held_lock : 0 < f_ww (counts s g) + f_wr (counts s g) -> 0 < f_wl (counts s g) + f_rc (counts s g);
  i_rdead : 0 < f_rc (counts s g) -> 0 < f_wr (counts s g) -> 0 < f_ww (counts s g);
  i_chain : forall sd, chain s g sd (qhead (mem s) (qof sd)) (gl g sd);
  i_nodup : forall sd, NoDup (nodes s g sd);
  i_nodupw : forall sd, NoDup (map snd (gl g sd));
  i_inl : forall sd w, grole g w = RWait sd InL -> In w (map snd (gl g sd));
  i_ownl : forall sd n, In n (nodes s g sd) -> nown g n = OList sd;
  i_ownt : forall t, fnode (mem s) t <> O -> nown g (fnode (mem s) t) = OThr t;
  i_held : forall t, held_ok s g t;
  i_pop : forall u, pop_ok s g u;
  i_one : forall u v, is_popper (stk s u) -> is_popper (stk s v) -> u = v;
  i_headnz : forall sd, qhead (mem s) (qof sd) <> O;
  i_popped : forall f sd, grole g f = RWait sd Popped -> exists u, inflight s u f
}.

Definition Inv (s : st) : Prop := exists g, InvG s g.

(* ---------- basic facts ---------- *)
Lemma tid_of_fname t : tid_of_name (fname t) = t.
Proof. unfold tid_of_name, fname, Zn. replace (1000 + Z.of_nat t - 1000) with (Z.of_nat t) by lia. apply Nat2Z.id. Qed.

Lemma fname_inj a b : fname a = fname b -> a = b.
Proof. unfold fname, Zn. lia. Qed.

Lemma shape_frame m m' t r k :
  shape m t r k -> fstate m' t = fstate m t -> pend m' t = pend m t -> blocked m' t = blocked m t ->
  fnode m' t = fnode m t -> shape m' t r k.
Proof.
  intros H E1 E2 E3 E4.
  assert (R : run_ok m t -> run_ok m' t) by (unfold run_ok; rewrite E1, E2, E3, E4; auto).
  assert (P : forall w, pre_ok m t w -> pre_ok m' t w) by (unfold pre_ok; intros w; rewrite E1, E2, E3, E4; auto).
  destruct H; try (econstructor; eauto; congruence).
  constructor; rewrite ?E1, ?E2, ?E3, ?E4; auto.
Qed.

(* the role a fiber has between two calls *)
Definition role_of_hold (h : hold) : role :=
  match h with HNone => RIdle | HRead _ => ROwn SR | HWrite => ROwn SW end.

Lemma start_shape m t p : forall k h, run_ok m t -> shape m t (role_of_hold h) (snd (start t p k h)).
Proof.
  induction p as [|o p IH]; intros k h R; cbn.
  - constructor. destruct h; cbn; eauto.
  - destruct o, h; cbn; try (specialize (IH (S k)); match goal with |- context [start t p (S k) ?h] =>
      specialize (IH h R); destruct (start t p (S k) h); exact IH end);
    try (constructor; auto).
Qed.

Lemma start_not_popper t p : forall k h, ~ is_popper (snd (start t p k h)).
Proof.
  induction p as [|o p IH]; intros k h; cbn; auto.
  destruct o, h; cbn; auto;
    try (specialize (IH (S k)); match goal with |- context [start t p (S k) ?h] =>
      specialize (IH h); destruct (start t p (S k) h); exact IH end).
Qed.

Lemma start_tp t p q : forall k h, tp (snd (start t p k h)) q = 0.
Proof.
  induction p as [|o p IH]; intros k h; cbn; auto.
  destruct o, h; cbn; auto;
    try (specialize (IH (S k)); match goal with |- context [start t p (S k) ?h] =>
      specialize (IH h); destruct (start t p (S k) h); exact IH end).
Qed.

Lemma inflight_popper s u f : inflight s u f -> is_popper (stk s u).
Proof. unfold inflight. destruct (stk s u) as [|[] ?]; cbn; tauto. Qed.

(* ---------- frame lemmas ---------- *)
Definition is_wlink (k : stack rwc) : Prop := match k with WLink _ _ _ :: _ => True | _ => False end.
Definition is_held (k : stack rwc) : Prop := match k with WNext _ _ :: _ | WXchg _ _ :: _ => True | _ => False end.
Definition is_asleep (k : stack rwc) : Prop := match k with Asleep :: _ => True | _ => False end.

Definition stk_same (s s' : st) (w : nat) : Prop :=
  stk s' w = stk s w \/ (~ is_wlink (stk s w) /\ ~ is_wlink (stk s' w)).

Lemma link_ok_frame s s' sd a b w :
  stk_same s s' w -> nnext (mem s') a = nnext (mem s) a -> link_ok s sd a b w -> link_ok s' sd a b w.
Proof.
  unfold link_ok, stk_same. intros [E|[N1 N2]] En.
  - rewrite E, En. auto.
  - destruct (stk s w) as [|[] ?] eqn:E1; destruct (stk s' w) as [|[] ?] eqn:E2; cbn in *; try tauto; rewrite En; auto.
Qed.

Lemma chain_frame s s' g g' sd : forall l a,
  chain s g sd a l ->
  (forall x, In x (a :: map fst l) -> nnext (mem s') x = nnext (mem s) x) ->
  (forall x, In x (map fst l) -> ndata (mem s') x = ndata (mem s) x) ->
  qtail (mem s') (qof sd) = qtail (mem s) (qof sd) -> nthr s' = nthr s ->
  (forall w, In w (map snd l) -> grole g' w = grole g w /\ stk_same s s' w) ->
  chain s' g' sd a l.
Proof.
  induction l as [|[b w] l IH]; intros a C Hn Hd Hq Ht Hw; cbn [chain map fst snd] in *.
  - destruct C as [C1 C2]. rewrite Hn by (left; reflexivity). rewrite Hq. auto.
  - destruct C as (C1 & C2 & C3 & C4 & C5 & C6).
    destruct (Hw w (or_introl eq_refl)) as [R1 R2].
    assert (Hn0 : nnext (mem s') a = nnext (mem s) a) by (apply Hn; left; reflexivity).
    split; [exact C1|]. split; [rewrite Ht; exact C2|]. split; [congruence|].
    split; [rewrite Hd; [exact C4|left; reflexivity]|]. split; [eapply link_ok_frame; eauto|].
    apply IH; auto.
    + intros x Hx. apply Hn. right. exact Hx.
    + intros x Hx. apply Hd. right. exact Hx.
    + intros x Hx. apply Hw. right. exact Hx.
Qed.

Lemma zsum_zero f n : (forall j, (j < n)%nat -> f j = 0) -> zsum f n = 0.
Proof. induction n; intros H; cbn; [reflexivity|]. rewrite IHn, H by (intros; try apply H; lia). reflexivity. Qed.

(* ---------- the initial state ---------- *)
Definition g0 : ghost :=
  {| gl := fun _ => [];
     grole := fun _ => RIdle;
     nown := fun n => match n with O => OFree | 1%nat => OList SW | 2%nat => OList SR | S (S (S t)) => OThr t end |}.

Lemma init_counts progs : counts (init progs) g0 = {| f_wl := 0; f_rc := 0; f_wr := 0; f_ww := 0 |}.
Proof. unfold counts. cbn. rewrite !zsum_zero; auto. Qed.

Lemma init_inv progs : Inv (init progs).
Proof.
  exists g0. constructor; try rewrite init_counts; cbn.
  - intros t. constructor; cbn; auto.
  - intros t _. eauto.
  - intros t. repeat split.
  - reflexivity.
  - unfold fields_ok; cbn. lia.
  - intros; lia.
  - lia.
  - lia.
  - intros sd; auto.
  - intros []; unfold nodes; cbn; repeat constructor; cbn; tauto.
  - intros _; constructor.
  - intros sd w H; discriminate.
  - intros [] n [<-|[]]; reflexivity.
  - reflexivity.
  - intros t. exact I.
  - intros u. exact I.
  - intros u v [].
  - intros sd; discriminate.
  - intros f sd H; discriminate.
Qed.
