(* Proofs about the ring-buffer model: an inductive invariant over every
   reachable state, for any number of threads, any programs, any schedule. *)
From Coq Require Import List ZArith Lia Bool Arith.
From LF Require Import Conc Ring.
Import ListNotations.

Definition writing (s : st) (i : nat) := exists t, pc (thr s t) = PWrite /\ hi (thr s t) = i.
Definition clearing (s : st) (i : nat) := exists t, pc (thr s t) = QClear /\ lo (thr s t) = i.

Definition local_ok (s : st) (T : tst) : Prop :=
  match pc T with
  | PWrite => low s <= hi T < high s /\ vals s (hi T) = arg T /\ arg T <> 0
  | QClear => lo T < low s /\ high s <= lo T + size s /\ rd T = vals s (lo T)
  | PCas => lo T <= low s /\ hi T <= high s /\ hi T < lo T + size s /\ arg T <> 0 /\
            (high s = hi T -> buf s (hi T mod size s) = 0)
  | PSlot => lo T <= low s /\ hi T <= high s /\ arg T <> 0
  | PHigh => lo T <= low s /\ arg T <> 0
  | PLow => arg T <> 0
  | QCas => lo T <= low s /\ lo T < hi T /\ hi T <= high s /\
            (low s = lo T -> rd T = vals s (lo T) /\ ~ writing s (lo T))
  | QSlot => lo T <= low s /\ hi T <= high s
  | QLow => hi T <= high s
  | _ => True
  end.

Record Inv (s : st) : Prop := {
  i_size : 0 < size s;
  i_ord : low s <= high s <= low s + size s;
  i_loc : forall t, local_ok s (thr s t);
  i_pw_uni : forall t u, pc (thr s t) = PWrite -> pc (thr s u) = PWrite -> hi (thr s t) = hi (thr s u) -> t = u;
  i_qc_uni : forall t u, pc (thr s t) = QClear -> pc (thr s u) = QClear -> lo (thr s t) = lo (thr s u) -> t = u;
  i_live : forall i, low s <= i < high s ->
             (writing s i /\ buf s (i mod size s) = 0) \/
             (~ writing s i /\ buf s (i mod size s) = vals s i);
  i_nz : forall i, low s <= i < high s -> vals s i <> 0;
  i_old : forall i, i < low s -> high s <= i + size s ->
             (clearing s i /\ buf s (i mod size s) = vals s i /\ vals s i <> 0) \/
             (~ clearing s i /\ buf s (i mod size s) = 0);
  i_free : forall i, high s <= i < low s + size s -> i < size s -> buf s (i mod size s) = 0
}.

Lemma mod_inj n a b : 0 < n -> a mod n = b mod n -> a <= b < a + n -> a = b.
Proof.
  intros Hn He Hr.
  assert (Ha := Nat.div_mod a n ltac:(lia)). assert (Hb := Nat.div_mod b n ltac:(lia)).
  assert (Hma := Nat.mod_upper_bound a n ltac:(lia)). assert (Hmb := Nat.mod_upper_bound b n ltac:(lia)).
  rewrite He in Ha.
  assert (a / n = b / n) by nia. nia.
Qed.

Lemma mod_neq n a b : 0 < n -> a < b < a + n -> a mod n <> b mod n.
Proof. intros Hn Hr He. apply mod_inj in He; lia. Qed.

Lemma add_size_mod a n : 0 < n -> (a + n) mod n = a mod n.
Proof. intros. rewrite <- (Nat.mul_1_l n) at 1. rewrite Nat.mod_add; lia. Qed.

Lemma pow2_pos k : 0 < 2 ^ k.
Proof. induction k; cbn; lia. Qed.

Lemma next_op_pc T : pc (next_op T) = PLow \/ pc (next_op T) = QHigh \/ pc (next_op T) = Fin.
Proof. unfold next_op. destruct (prog T) as [|[v|] r]; cbn; auto. Qed.

Lemma next_op_ok s T : local_ok s (next_op T).
Proof. unfold next_op, local_ok. destruct (prog T) as [|[v|] r]; cbn; auto. Qed.

Lemma init_inv k start progs : Inv (init k start progs).
Proof.
  assert (P := pow2_pos k).
  assert (Hpc : forall t, pc (thr (init k start progs) t) <> PWrite /\ pc (thr (init k start progs) t) <> QClear).
  { intros t. cbn. unfold idle_thread. destruct (next_op_pc {| pc := Fin; lo := 0; hi := 0; arg := 0; rd := 0; prog := nth t progs []; opi := 0 |}) as [E|[E|E]]; rewrite E; split; discriminate. }
  constructor; cbn [high low size buf vals thr init]; try lia.
  - intros t. apply next_op_ok.
  - intros t u Hx. exfalso. apply (proj1 (Hpc t)). exact Hx.
  - intros t u Hx. exfalso. apply (proj2 (Hpc t)). exact Hx.
  - intros i _ _. right. split; [|reflexivity]. intros [t [Hx _]]. apply (proj2 (Hpc t)). exact Hx.
Qed.

Ltac thr_cases u t :=
  destruct (Nat.eq_dec u t) as [->|?];
  [ rewrite ?upd_same in * | rewrite ?(upd_other _ t _ u) in * by assumption ].

Lemma writing_local s t x i :
  pc (thr s t) <> PWrite -> pc x <> PWrite -> (writing (set_thr s t x) i <-> writing s i).
Proof.
  intros H1 H2; unfold writing; cbn; split; intros [u [Hp Hh]]; exists u;
    destruct (Nat.eq_dec u t) as [->|Hne];
    rewrite ?upd_same, ?(upd_other _ t _ u) in * by assumption; try tauto; congruence.
Qed.

Lemma clearing_local s t x i :
  pc (thr s t) <> QClear -> pc x <> QClear -> (clearing (set_thr s t x) i <-> clearing s i).
Proof.
  intros H1 H2; unfold clearing; cbn; split; intros [u [Hp Hh]]; exists u;
    destruct (Nat.eq_dec u t) as [->|Hne];
    rewrite ?upd_same, ?(upd_other _ t _ u) in * by assumption; try tauto; congruence.
Qed.

Lemma local_ok_local s t x T :
  pc (thr s t) <> PWrite -> pc x <> PWrite -> (local_ok (set_thr s t x) T <-> local_ok s T).
Proof.
  intros H1 H2. unfold local_ok. destruct (pc T); cbn; try tauto.
  rewrite (writing_local s t x (lo T) H1 H2). tauto.
Qed.

(* a step that only changes thread t's private state, not entering or leaving
   the two "owning" pcs *)
Lemma local_step s t x :
  Inv s -> pc (thr s t) <> PWrite -> pc (thr s t) <> QClear ->
  pc x <> PWrite -> pc x <> QClear -> local_ok s x -> Inv (set_thr s t x).
Proof.
  intros I A1 A2 B1 B2 L. destruct I as [Is Io Il Ipw Iqc Ilive Inz Iold Ifree].
  constructor; cbn [high low size buf vals thr set_thr]; auto.
  - intros u. apply local_ok_local; auto. cbn. thr_cases u t; auto.
  - intros u v. thr_cases u t; thr_cases v t; intros; try congruence; auto.
  - intros u v. thr_cases u t; thr_cases v t; intros; try congruence; auto.
  - intros i Hi. specialize (Ilive i Hi). rewrite (writing_local s t x i A1 B1). exact Ilive.
  - intros i H1 H2. specialize (Iold i H1 H2). rewrite (clearing_local s t x i A2 B2). exact Iold.
Qed.

Lemma next_op_local s t :
  Inv s -> pc (thr s t) <> PWrite -> pc (thr s t) <> QClear -> Inv (set_thr s t (next_op (thr s t))).
Proof.
  intros I A B. apply local_step; auto.
  - destruct (next_op_pc (thr s t)) as [E|[E|E]]; rewrite E; discriminate.
  - destruct (next_op_pc (thr s t)) as [E|[E|E]]; rewrite E; discriminate.
  - apply next_op_ok.
Qed.

Lemma writing_upd s s' t x i :
  thr s' = upd (thr s) t x ->
  (writing s' i <-> (exists u, u <> t /\ pc (thr s u) = PWrite /\ hi (thr s u) = i) \/ (pc x = PWrite /\ hi x = i)).
Proof.
  intros E. unfold writing. rewrite E. split.
  - intros [u [Hp Hh]]. destruct (Nat.eq_dec u t) as [->|Hne].
    + rewrite upd_same in *. right; auto.
    + rewrite upd_other in * by assumption. left; exists u; auto.
  - intros [[u [Hne [Hp Hh]]]|[Hp Hh]].
    + exists u. rewrite upd_other by assumption; auto.
    + exists t. rewrite upd_same; auto.
Qed.

Lemma clearing_upd s s' t x i :
  thr s' = upd (thr s) t x ->
  (clearing s' i <-> (exists u, u <> t /\ pc (thr s u) = QClear /\ lo (thr s u) = i) \/ (pc x = QClear /\ lo x = i)).
Proof.
  intros E. unfold clearing. rewrite E. split.
  - intros [u [Hp Hh]]. destruct (Nat.eq_dec u t) as [->|Hne].
    + rewrite upd_same in *. right; auto.
    + rewrite upd_other in * by assumption. left; exists u; auto.
  - intros [[u [Hne [Hp Hh]]]|[Hp Hh]].
    + exists u. rewrite upd_other by assumption; auto.
    + exists t. rewrite upd_same; auto.
Qed.

Lemma writing_old s t i : (exists u, u <> t /\ pc (thr s u) = PWrite /\ hi (thr s u) = i) -> writing s i.
Proof. intros [u [_ H]]. exists u; auto. Qed.
Lemma clearing_old s t i : (exists u, u <> t /\ pc (thr s u) = QClear /\ lo (thr s u) = i) -> clearing s i.
Proof. intros [u [_ H]]. exists u; auto. Qed.

(* (1) successful CAS on high: claims index hi T *)
Lemma pcas_inv s t :
  Inv s -> pc (thr s t) = PCas -> high s = hi (thr s t) ->
  Inv {| high := S (high s); low := low s; size := size s; buf := buf s;
         vals := upd (vals s) (hi (thr s t)) (arg (thr s t));
         thr := upd (thr s) t (with_pc (thr s t) PWrite); nthr := nthr s |}.
Proof.
  intros I Hpc Hh. destruct I as [Is Io Il Ipw Iqc Ilive Inz Iold Ifree].
  set (T := thr s t) in *.
  assert (LT := Il t). fold T in LT. unfold local_ok in LT. rewrite Hpc in LT.
  destruct LT as (L1 & L2 & L3 & Lnz & L4). specialize (L4 Hh).
  set (s' := {| high := S (high s) |}).
  assert (Ethr : thr s' = upd (thr s) t (with_pc T PWrite)) by reflexivity.
  assert (NoClr : forall u, pc (thr s u) = QClear -> lo (thr s u) + size s <> high s).
  { intros u Hu E. assert (Lu := Il u). unfold local_ok in Lu. rewrite Hu in Lu. destruct Lu as (A & B & C).
    destruct (Iold (lo (thr s u)) A ltac:(lia)) as [[_ [Hb Hnz]]|[Hn _]].
    - rewrite <- Hh, <- E, add_size_mod in L4 by lia. congruence.
    - apply Hn. exists u; auto. }
  constructor; cbn [high low size buf vals thr s']; auto; try lia.
  - intros u. destruct (Nat.eq_dec u t) as [->|Hne].
    + rewrite upd_same. unfold local_ok; cbn. rewrite upd_same. repeat split; auto; lia.
    + rewrite upd_other by assumption. assert (Lu := Il u). unfold local_ok in *.
      destruct (pc (thr s u)) eqn:Hu; cbn [high low size buf vals thr s']; auto; try lia; try (intuition lia).
      * rewrite upd_other by lia. intuition lia.
      * destruct Lu as (A & B & C & D). split; [lia|split; [lia|split; [lia|]]]. intros E. specialize (D E). destruct D as [D1 D2].
        split. { rewrite upd_other by lia. exact D1. }
        intros W. apply (writing_upd s s' t _ _ Ethr) in W. destruct W as [W|[_ W]]; cbn in W; [apply D2; eapply writing_old; eauto | lia].
      * destruct Lu as (A & B & C). specialize (NoClr u Hu). repeat split; try lia. rewrite upd_other by lia. exact C.
  - intros u v. destruct (Nat.eq_dec u t) as [->|Hu]; destruct (Nat.eq_dec v t) as [->|Hv];
      rewrite ?upd_same, ?(upd_other _ t _ u), ?(upd_other _ t _ v) by assumption; cbn; auto.
    + intros _ Hv' E. assert (Lv := Il v). unfold local_ok in Lv. rewrite Hv' in Lv. lia.
    + intros Hu' _ E. assert (Lu := Il u). unfold local_ok in Lu. rewrite Hu' in Lu. lia.
  - intros u v. destruct (Nat.eq_dec u t) as [->|Hu]; destruct (Nat.eq_dec v t) as [->|Hv];
      rewrite ?upd_same, ?(upd_other _ t _ u), ?(upd_other _ t _ v) by assumption; cbn; auto; try discriminate.
  - intros i Hi. destruct (Nat.eq_dec i (hi T)) as [->|Hne].
    + left. split; [|exact L4]. apply (writing_upd s s' t _ _ Ethr). right; cbn; auto.
    + rewrite upd_other by assumption. destruct (Ilive i ltac:(lia)) as [[W B]|[W B]]; [left|right]; split; auto.
      * destruct W as [u [Hp Hhi]]. apply (writing_upd s s' t _ _ Ethr). left. exists u. repeat split; auto. intros ->. fold T in Hp. congruence.
      * intros W'. apply (writing_upd s s' t _ _ Ethr) in W'. destruct W' as [W'|[_ W']]; cbn in W'; [apply W; eapply writing_old; eauto| congruence].
  - intros i Hi. destruct (Nat.eq_dec i (hi T)) as [->|Hne].
    + rewrite upd_same. exact Lnz.
    + rewrite upd_other by assumption. apply Inz. lia.
  - intros i H1 H2. rewrite upd_other by lia. destruct (Iold i H1 ltac:(lia)) as [[C B]|[C B]]; [left|right]; split; auto.
    + destruct C as [u [Hp Hl]]. apply (clearing_upd s s' t _ _ Ethr). left. exists u; repeat split; auto. intros ->. fold T in Hp. congruence.
    + intros C'. apply (clearing_upd s s' t _ _ Ethr) in C'. destruct C' as [C'|[C' _]]; cbn in C'; [apply C; eapply clearing_old; eauto| discriminate].
  - intros i H1 H2. apply Ifree; lia.
Qed.

(* (2) the claimed slot is written *)
Lemma pwrite_inv s t :
  Inv s -> pc (thr s t) = PWrite ->
  Inv {| high := high s; low := low s; size := size s;
         buf := upd (buf s) (hi (thr s t) mod size s) (arg (thr s t));
         vals := vals s; thr := upd (thr s) t (next_op (thr s t)); nthr := nthr s |}.
Proof.
  intros I Hpc. destruct I as [Is Io Il Ipw Iqc Ilive Inz Iold Ifree].
  set (T := thr s t) in *.
  assert (LT := Il t). fold T in LT. unfold local_ok in LT. rewrite Hpc in LT.
  destruct LT as (L1 & L2 & Lnz).
  set (s' := {| high := high s |}).
  assert (Ethr : thr s' = upd (thr s) t (next_op T)) by reflexivity.
  assert (NW : pc (next_op T) <> PWrite) by (destruct (next_op_pc T) as [E|[E|E]]; rewrite E; discriminate).
  assert (NC : pc (next_op T) <> QClear) by (destruct (next_op_pc T) as [E|[E|E]]; rewrite E; discriminate).
  assert (Wr : forall i, writing s' i <-> (writing s i /\ i <> hi T)).
  { intros i. rewrite (writing_upd s s' t _ i Ethr). split.
    - intros [[u (Hne & Hp & Hh)]|[Hp _]]; [|contradiction]. split; [exists u; auto|].
      intros ->. apply Hne. apply Ipw; auto.
    - intros [[u (Hp & Hh)] Hne]. left. exists u. repeat split; auto. intros ->. fold T in Hh. congruence. }
  assert (Cl : forall i, clearing s' i <-> clearing s i).
  { intros i. rewrite (clearing_upd s s' t _ i Ethr). split.
    - intros [[u (Hne & Hp & Hh)]|[Hp _]]; [exists u; auto|contradiction].
    - intros [u (Hp & Hh)]. left. exists u. repeat split; auto. intros ->. fold T in Hp. congruence. }
  constructor; cbn [high low size buf vals thr s']; auto.
  - intros u. destruct (Nat.eq_dec u t) as [->|Hne].
    + rewrite upd_same. apply next_op_ok.
    + rewrite upd_other by assumption. assert (Lu := Il u). unfold local_ok in *.
      destruct (pc (thr s u)) eqn:Hu; cbn [high low size buf vals thr s']; auto.
      * destruct Lu as (A & B & C & D & E). repeat split; auto. intros F. rewrite upd_other; auto.
        apply not_eq_sym. apply mod_neq; lia.
      * destruct Lu as (A & B & C & D). repeat split; auto; destruct (D H) as [D1 D2]; auto.
        intros W. apply Wr in W. tauto.
  - intros u v. destruct (Nat.eq_dec u t) as [->|Hu]; destruct (Nat.eq_dec v t) as [->|Hv];
      rewrite ?upd_same, ?(upd_other _ t _ u), ?(upd_other _ t _ v) by assumption; auto; try contradiction.
  - intros u v. destruct (Nat.eq_dec u t) as [->|Hu]; destruct (Nat.eq_dec v t) as [->|Hv];
      rewrite ?upd_same, ?(upd_other _ t _ u), ?(upd_other _ t _ v) by assumption; auto; try contradiction.
  - intros i Hi. destruct (Nat.eq_dec i (hi T)) as [->|Hne].
    + right. rewrite upd_same. split; [|congruence]. intros W. apply Wr in W. tauto.
    + assert (i mod size s <> hi T mod size s).
      { destruct (Nat.lt_ge_cases i (hi T)); [apply mod_neq|apply not_eq_sym, mod_neq]; lia. }
      rewrite upd_other by assumption.
      destruct (Ilive i Hi) as [[W B]|[W B]]; [left|right]; split; auto.
      * apply Wr; auto.
      * intros W'. apply Wr in W'. tauto.
  - intros i H1 H2. rewrite upd_other by (apply mod_neq; lia).
    destruct (Iold i H1 H2) as [[C B]|[C B]]; [left|right]; split; auto.
    + apply Cl; auto.
    + intros C'. apply Cl in C'. tauto.
  - intros i H1 H2. rewrite upd_other by (apply not_eq_sym, mod_neq; lia). apply Ifree; auto.
Qed.

(* (3) successful CAS on low: claims the oldest element *)
Lemma qcas_inv s t :
  Inv s -> pc (thr s t) = QCas -> low s = lo (thr s t) ->
  Inv {| high := high s; low := S (low s); size := size s; buf := buf s; vals := vals s;
         thr := upd (thr s) t (with_pc (thr s t) QClear); nthr := nthr s |}.
Proof.
  intros I Hpc Hl. destruct I as [Is Io Il Ipw Iqc Ilive Inz Iold Ifree].
  set (T := thr s t) in *.
  assert (LT := Il t). fold T in LT. unfold local_ok in LT. rewrite Hpc in LT.
  destruct LT as (L1 & L2 & L3 & L4). destruct (L4 Hl) as [Lrd Lnw].
  set (s' := {| high := high s |}).
  assert (Ethr : thr s' = upd (thr s) t (with_pc T QClear)) by reflexivity.
  assert (Wr : forall i, writing s' i <-> writing s i).
  { intros i. rewrite (writing_upd s s' t _ i Ethr). split.
    - intros [[u (Hne & Hp & Hh)]|[Hp _]]; [exists u; auto|discriminate].
    - intros [u (Hp & Hh)]. left. exists u. repeat split; auto. intros ->. fold T in Hp. congruence. }
  assert (Cl : forall i, clearing s' i <-> (clearing s i \/ i = lo T)).
  { intros i. rewrite (clearing_upd s s' t _ i Ethr). split.
    - intros [[u (Hne & Hp & Hh)]|[_ Hp]]; [left; exists u; auto|right; cbn in Hp; auto].
    - intros [[u (Hp & Hh)]| ->]; [left|right; cbn; auto]. exists u. repeat split; auto. intros ->. fold T in Hp. congruence. }
  constructor; cbn [high low size buf vals thr s']; auto; try lia.
  - intros u. destruct (Nat.eq_dec u t) as [->|Hne].
    + rewrite upd_same. unfold local_ok; cbn. repeat split; auto; lia.
    + rewrite upd_other by assumption. assert (Lu := Il u). unfold local_ok in *.
      destruct (pc (thr s u)) eqn:Hu; cbn [high low size buf vals thr s']; auto; try lia; try (intuition lia).
      * destruct Lu as (A & B). split; auto. assert (hi (thr s u) <> low s); [|lia].
        intros E. apply Lnw. exists u. split; auto. lia.
  - intros u v. destruct (Nat.eq_dec u t) as [->|Hu]; destruct (Nat.eq_dec v t) as [->|Hv];
      rewrite ?upd_same, ?(upd_other _ t _ u), ?(upd_other _ t _ v) by assumption; cbn; auto; try discriminate.
  - intros u v. destruct (Nat.eq_dec u t) as [->|Hu]; destruct (Nat.eq_dec v t) as [->|Hv];
      rewrite ?upd_same, ?(upd_other _ t _ u), ?(upd_other _ t _ v) by assumption; cbn; auto.
    + intros _ Hv' E. assert (Lv := Il v). unfold local_ok in Lv. rewrite Hv' in Lv. lia.
    + intros Hu' _ E. assert (Lu := Il u). unfold local_ok in Lu. rewrite Hu' in Lu. lia.
  - intros i Hi. destruct (Ilive i ltac:(lia)) as [[W B]|[W B]]; [left|right]; split; auto.
    + apply Wr; auto.
    + intros W'. apply Wr in W'. tauto.
  - intros i Hi. apply Inz. lia.
  - intros i H1 H2. destruct (Nat.eq_dec i (low s)) as [->|Hne].
    + left. split; [apply Cl; right; lia|].
      destruct (Ilive (low s) ltac:(lia)) as [[W B]|[W B]].
      * exfalso. apply Lnw. rewrite <- Hl. exact W.
      * split; auto. apply Inz. lia.
    + destruct (Iold i ltac:(lia) H2) as [[C B]|[C B]]; [left|right]; split; auto.
      * apply Cl; auto.
      * intros C'. apply Cl in C'. destruct C'; [tauto|lia].
  - intros i H1 H2. apply Ifree; lia.
Qed.

(* (4) the claimed slot is cleared *)
Lemma qclear_inv s t :
  Inv s -> pc (thr s t) = QClear ->
  Inv {| high := high s; low := low s; size := size s;
         buf := upd (buf s) (lo (thr s t) mod size s) 0;
         vals := vals s; thr := upd (thr s) t (next_op (thr s t)); nthr := nthr s |}.
Proof.
  intros I Hpc. destruct I as [Is Io Il Ipw Iqc Ilive Inz Iold Ifree].
  set (T := thr s t) in *.
  assert (LT := Il t). fold T in LT. unfold local_ok in LT. rewrite Hpc in LT.
  destruct LT as (L1 & L2 & L3).
  set (s' := {| high := high s |}).
  assert (Ethr : thr s' = upd (thr s) t (next_op T)) by reflexivity.
  assert (NW : pc (next_op T) <> PWrite) by (destruct (next_op_pc T) as [E|[E|E]]; rewrite E; discriminate).
  assert (NC : pc (next_op T) <> QClear) by (destruct (next_op_pc T) as [E|[E|E]]; rewrite E; discriminate).
  assert (Wr : forall i, writing s' i <-> writing s i).
  { intros i. rewrite (writing_upd s s' t _ i Ethr). split.
    - intros [[u (Hne & Hp & Hh)]|[Hp _]]; [exists u; auto|contradiction].
    - intros [u (Hp & Hh)]. left. exists u. repeat split; auto. intros ->. fold T in Hp. congruence. }
  assert (Cl : forall i, clearing s' i <-> (clearing s i /\ i <> lo T)).
  { intros i. rewrite (clearing_upd s s' t _ i Ethr). split.
    - intros [[u (Hne & Hp & Hh)]|[Hp _]]; [|contradiction]. split; [exists u; auto|].
      intros ->. apply Hne. apply Iqc; auto.
    - intros [[u (Hp & Hh)] Hne]. left. exists u. repeat split; auto. intros ->. fold T in Hh. congruence. }
  constructor; cbn [high low size buf vals thr s']; auto.
  - intros u. destruct (Nat.eq_dec u t) as [->|Hne].
    + rewrite upd_same. apply next_op_ok.
    + rewrite upd_other by assumption. assert (Lu := Il u). unfold local_ok in *.
      destruct (pc (thr s u)) eqn:Hu; cbn [high low size buf vals thr s']; auto.
      * destruct Lu as (A & B & C & D & E). repeat split; auto. intros F.
        destruct (Nat.eq_dec (hi (thr s u) mod size s) (lo T mod size s)) as [->|Hd];
          [rewrite upd_same|rewrite upd_other]; auto.
      * destruct Lu as (A & B & C & D). repeat split; auto; destruct (D H) as [D1 D2]; auto.
        intros W. apply Wr in W. tauto.
  - intros u v. destruct (Nat.eq_dec u t) as [->|Hu]; destruct (Nat.eq_dec v t) as [->|Hv];
      rewrite ?upd_same, ?(upd_other _ t _ u), ?(upd_other _ t _ v) by assumption; auto; try contradiction.
  - intros u v. destruct (Nat.eq_dec u t) as [->|Hu]; destruct (Nat.eq_dec v t) as [->|Hv];
      rewrite ?upd_same, ?(upd_other _ t _ u), ?(upd_other _ t _ v) by assumption; auto; try contradiction.
  - intros i Hi. rewrite upd_other by (apply not_eq_sym, mod_neq; lia).
    destruct (Ilive i Hi) as [[W B]|[W B]]; [left|right]; split; auto.
    + apply Wr; auto.
    + intros W'. apply Wr in W'. tauto.
  - intros i H1 H2. destruct (Nat.eq_dec i (lo T)) as [->|Hne].
    + right. rewrite upd_same. split; auto. intros C. apply Cl in C. tauto.
    + assert (i mod size s <> lo T mod size s).
      { destruct (Nat.lt_ge_cases i (lo T)); [apply mod_neq|apply not_eq_sym, mod_neq]; lia. }
      rewrite upd_other by assumption.
      destruct (Iold i H1 H2) as [[C B]|[C B]]; [left|right]; split; auto.
      * apply Cl; auto.
      * intros C'. apply Cl in C'. tauto.
  - intros i H1 H2.
    destruct (Nat.eq_dec (i mod size s) (lo T mod size s)) as [->|Hd];
      [rewrite upd_same|rewrite upd_other]; auto.
Qed.

Lemma with_pc_pc T p : pc (with_pc T p) = p. Proof. reflexivity. Qed.

Theorem step_inv s t : Inv s -> Inv (fst (step s t)).
Proof.
  intros I. unfold step. remember (thr s t) as T eqn:HT.
  assert (LT := i_loc s I t). rewrite <- HT in LT. unfold local_ok in LT.
  destruct (pc T) eqn:Hpc; cbn [fst].
  - (* PLow *) apply local_step; auto; cbn; try congruence; try discriminate.
    unfold local_ok; cbn. split; [lia|exact LT].
  - (* PHigh *) apply local_step; auto; cbn; try congruence; try discriminate.
    unfold local_ok; cbn. destruct LT. repeat split; auto; lia.
  - (* PSlot *)
    destruct (buf s (hi T mod size s)) eqn:Hb.
    + destruct (Nat.ltb_spec (hi T - lo T) (size s)); cbn [fst].
      * apply local_step; auto; cbn; try congruence; try discriminate.
        unfold local_ok; cbn. destruct LT as (A & B & C). repeat split; auto; lia.
      * subst T; apply next_op_local; auto; congruence.
    + cbn [fst]. subst T; apply next_op_local; auto; congruence.
  - (* PCas *)
    destruct (Nat.eqb_spec (high s) (hi T)); cbn [fst].
    + subst T; apply pcas_inv; auto.
    + subst T; apply next_op_local; auto; congruence.
  - (* PWrite *) subst T; apply pwrite_inv; auto.
  - (* QHigh *) apply local_step; auto; cbn; try congruence; try discriminate.
    unfold local_ok; cbn. lia.
  - (* QLow *) apply local_step; auto; cbn; try congruence; try discriminate.
    unfold local_ok; cbn. split; [lia|exact LT].
  - (* QSlot *)
    destruct (buf s (lo T mod size s)) eqn:Hb; cbn [fst].
    + subst T; apply next_op_local; auto; congruence.
    + destruct (Nat.ltb_spec (lo T) (hi T)); cbn [fst].
      * apply local_step; auto; cbn; try congruence; try discriminate.
        unfold local_ok; cbn. destruct LT as (A & B). repeat split; auto.
        -- rewrite <- H0 in *. destruct (i_live s I (low s) ltac:(lia)) as [[W Bz]|[W Bv]]; congruence.
        -- rewrite <- H0 in *. destruct (i_live s I (low s) ltac:(lia)) as [[W Bz]|[W Bv]]; [congruence|exact W].
      * subst T; apply next_op_local; auto; congruence.
  - (* QCas *)
    destruct (Nat.eqb_spec (low s) (lo T)); cbn [fst].
    + subst T; apply qcas_inv; auto.
    + subst T; apply next_op_local; auto; congruence.
  - (* QClear *) subst T; apply qclear_inv; auto.
  - (* Fin *) exact I.
Qed.

(* ------------------------------------------------------------------ *)
(* Every reachable state of the executable machine satisfies Inv      *)
Theorem reachable_inv k start progs s :
  reachable M (init k start progs) s -> Inv s.
Proof.
  apply (invariant_ind M Inv (init k start progs)).
  - apply init_inv.
  - intros s0 t I _. apply step_inv; exact I.
Qed.

(* ------------------------------------------------------------------ *)
(* History: the machine instrumented with the log of values in the order
   the pushes took effect (successful CAS on high) and the log of values
   claimed by pops in the order they took effect (successful CAS on low). *)
Record ist := { base : st; plog : list nat; qlog : list nat; start0 : nat }.

Definition lstep (x : ist) (t : nat) : ist :=
  let s := base x in
  let T := thr s t in
  let s' := fst (step s t) in
  match pc T with
  | PCas => if high s =? hi T
            then {| base := s'; plog := plog x ++ [arg T]; qlog := qlog x; start0 := start0 x |}
            else {| base := s'; plog := plog x; qlog := qlog x; start0 := start0 x |}
  | QCas => if low s =? lo T
            then {| base := s'; plog := plog x; qlog := qlog x ++ [rd T]; start0 := start0 x |}
            else {| base := s'; plog := plog x; qlog := qlog x; start0 := start0 x |}
  | _ => {| base := s'; plog := plog x; qlog := qlog x; start0 := start0 x |}
  end.

Lemma lstep_erase x t : base (lstep x t) = fst (step (base x) t).
Proof. unfold lstep. destruct (pc (thr (base x) t)); try reflexivity;
  match goal with |- context [if ?b then _ else _] => destruct b end; reflexivity. Qed.

Definition iinit k start progs : ist :=
  {| base := init k start progs; plog := []; qlog := []; start0 := start |}.

Inductive ireach k start progs : ist -> Prop :=
| ir_init : ireach k start progs (iinit k start progs)
| ir_step x t : ireach k start progs x -> ireach k start progs (lstep x t).

Lemma ireach_base k start progs x : ireach k start progs x -> reachable M (init k start progs) (base x) \/ True.
Proof. auto. Qed.

Record LInv (x : ist) : Prop := {
  l_inv : Inv (base x);
  l_start : start0 x <= low (base x);
  l_plog : plog x = map (vals (base x)) (seq (start0 x) (high (base x) - start0 x));
  l_qlog : qlog x = map (vals (base x)) (seq (start0 x) (low (base x) - start0 x))
}.

Lemma map_seq_upd_ge (f : nat -> nat) a n j v : a + n <= j -> map (upd f j v) (seq a n) = map f (seq a n).
Proof.
  intros H. apply map_ext_in. intros i Hi. apply in_seq in Hi. apply upd_other. lia.
Qed.

Lemma seq_snoc a n : seq a (S n) = seq a n ++ [a + n].
Proof. rewrite <- Nat.add_1_r, seq_app. reflexivity. Qed.

(* vals / high / low of the successor state, by pc *)
Lemma step_vals_below s t i : Inv s -> i < high s -> vals (fst (step s t)) i = vals s i.
Proof.
  intros I Hi. unfold step. destruct (pc (thr s t)) eqn:Hpc; cbn; auto;
  repeat match goal with |- context [match ?b with _ => _ end] => destruct b eqn:?; cbn end; auto.
  apply upd_other. apply Nat.eqb_eq in Heqb. lia.
Qed.

Lemma linv_step x t : LInv x -> LInv (lstep x t).
Proof.
  intros [I Hs Hp Hq]. assert (I' := step_inv (base x) t I).
  assert (Io := i_ord _ I).
  unfold lstep. set (s := base x) in *. set (T := thr s t).
  assert (LT := i_loc s I t). fold T in LT. unfold local_ok in LT.
  destruct (pc T) eqn:Hpc.
  all: try (constructor; cbn [base plog qlog start0]; auto;
            unfold step; fold T; rewrite Hpc;
            repeat match goal with |- context [match ?b with _ => _ end] => destruct b eqn:? end;
            cbn [fst high low vals set_thr]; auto; fail).
  - (* PCas *)
    destruct (Nat.eqb_spec (high s) (hi T)) as [E|E].
    + constructor; cbn [base plog qlog start0]; auto.
      * unfold step; fold T; rewrite Hpc. rewrite (proj2 (Nat.eqb_eq _ _) E). cbn. exact Hs.
      * unfold step; fold T; rewrite Hpc. rewrite (proj2 (Nat.eqb_eq _ _) E). cbn [fst high vals].
        replace (S (high s) - start0 x) with (S (high s - start0 x)) by lia.
        rewrite seq_snoc, map_app. cbn [map].
        rewrite map_seq_upd_ge by lia. rewrite <- Hp. f_equal.
        replace (start0 x + (high s - start0 x)) with (hi T) by lia. rewrite upd_same. reflexivity.
      * unfold step; fold T; rewrite Hpc. rewrite (proj2 (Nat.eqb_eq _ _) E). cbn [fst low vals].
        rewrite map_seq_upd_ge by lia. exact Hq.
    + constructor; cbn [base plog qlog start0]; auto;
        unfold step; fold T; rewrite Hpc; rewrite (proj2 (Nat.eqb_neq _ _) E); cbn; auto.
  - (* QCas *)
    destruct (Nat.eqb_spec (low s) (lo T)) as [E|E].
    + destruct LT as (A & B & C & D). destruct (D E) as [D1 D2].
      constructor; cbn [base plog qlog start0]; auto.
      * unfold step; fold T; rewrite Hpc. rewrite (proj2 (Nat.eqb_eq _ _) E). cbn. lia.
      * unfold step; fold T; rewrite Hpc. rewrite (proj2 (Nat.eqb_eq _ _) E). cbn [fst high vals]. exact Hp.
      * unfold step; fold T; rewrite Hpc. rewrite (proj2 (Nat.eqb_eq _ _) E). cbn [fst low vals].
        replace (S (low s) - start0 x) with (S (low s - start0 x)) by lia.
        rewrite seq_snoc, map_app. cbn [map]. rewrite <- Hq. f_equal.
        replace (start0 x + (low s - start0 x)) with (lo T) by lia. rewrite D1. reflexivity.
    + constructor; cbn [base plog qlog start0]; auto;
        unfold step; fold T; rewrite Hpc; rewrite (proj2 (Nat.eqb_neq _ _) E); cbn; auto.
Qed.

Theorem ireach_linv k start progs x : ireach k start progs x -> LInv x.
Proof.
  induction 1 as [|x t R IH].
  - constructor; cbn; try apply init_inv; try lia; rewrite Nat.sub_diag; reflexivity.
  - apply linv_step; exact IH.
Qed.

Definition irun (x : ist) (sch : list nat) : ist := fold_left lstep sch x.
Lemma ireach_irun k start progs sch : forall x, ireach k start progs x -> ireach k start progs (irun x sch).
Proof. induction sch as [|t r IH]; intros x R; cbn; auto. apply IH. constructor. exact R. Qed.

(* ---------------- the statements used by Properties_C16.v ---------------- *)
Lemma bounded_of_inv s : Inv s -> low s <= high s /\ high s - low s <= size s.
Proof. intros I. destruct (i_ord s I). lia. Qed.

Lemma no_overwrite_of_inv s t :
  Inv s -> pc (thr s t) = PWrite ->
  buf s (hi (thr s t) mod size s) = 0 /\
  (forall u, pc (thr s u) = PWrite -> hi (thr s u) mod size s = hi (thr s t) mod size s -> u = t).
Proof.
  intros I Hpc. assert (LT := i_loc s I t). unfold local_ok in LT. rewrite Hpc in LT.
  destruct LT as (A & B & C). split.
  - destruct (i_live s I _ A) as [[_ Z]|[W _]]; auto. exfalso. apply W. exists t; auto.
  - intros u Hu E. assert (Lu := i_loc s I u). unfold local_ok in Lu. rewrite Hu in Lu.
    destruct Lu as (A' & _). pose proof (i_ord s I) as O. pose proof (i_size s I) as Z.
    apply (i_pw_uni s I); auto.
    destruct (Nat.le_ge_cases (hi (thr s u)) (hi (thr s t))).
    + apply mod_inj with (n := size s); auto; lia.
    + symmetry. apply mod_inj with (n := size s); auto; lia.
Qed.

Lemma clear_owns_of_inv s t :
  Inv s -> pc (thr s t) = QClear ->
  buf s (lo (thr s t) mod size s) = rd (thr s t) /\ rd (thr s t) <> 0 /\
  (forall u, pc (thr s u) = QClear -> lo (thr s u) mod size s = lo (thr s t) mod size s -> u = t).
Proof.
  intros I Hpc. assert (LT := i_loc s I t). unfold local_ok in LT. rewrite Hpc in LT.
  destruct LT as (A & B & C).
  destruct (i_old s I _ A B) as [[_ [Z1 Z2]]|[W _]].
  - split; [congruence|split; [congruence|]].
    intros u Hu E. assert (Lu := i_loc s I u). unfold local_ok in Lu. rewrite Hu in Lu.
    destruct Lu as (A' & B' & _). pose proof (i_ord s I) as O. pose proof (i_size s I) as Z.
    apply (i_qc_uni s I); auto.
    destruct (Nat.le_ge_cases (lo (thr s u)) (lo (thr s t))).
    + apply mod_inj with (n := size s); auto; lia.
    + symmetry. apply mod_inj with (n := size s); auto; lia.
  - exfalso. apply W. exists t; auto.
Qed.

Lemma fifo_of_linv x : LInv x ->
  exists rest, plog x = qlog x ++ rest /\ length rest = high (base x) - low (base x).
Proof.
  intros [I Hs Hp Hq]. destruct (i_ord _ I) as [O1 O2].
  exists (map (vals (base x)) (seq (low (base x)) (high (base x) - low (base x)))).
  split.
  - rewrite Hp, Hq, <- map_app. f_equal.
    replace (high (base x) - start0 x) with ((low (base x) - start0 x) + (high (base x) - low (base x))) by lia.
    rewrite seq_app. do 2 f_equal. lia.
  - rewrite map_length, seq_length. reflexivity.
Qed.

Lemma pop_oldest_of_linv x t : LInv x ->
  pc (thr (base x) t) = QCas -> low (base x) = lo (thr (base x) t) ->
  nth_error (plog x) (length (qlog x)) = Some (rd (thr (base x) t)) /\ rd (thr (base x) t) <> 0.
Proof.
  intros [I Hs Hp Hq] Hpc E. destruct (i_ord _ I) as [O1 O2].
  assert (LT := i_loc _ I t). unfold local_ok in LT. rewrite Hpc in LT.
  destruct LT as (A & B & C & D). destruct (D E) as [D1 D2].
  split.
  - rewrite Hq, map_length, seq_length, Hp.
    rewrite nth_error_map. rewrite nth_error_nth' with (d := 0) by (rewrite seq_length; lia).
    rewrite seq_nth by lia. cbn. f_equal. rewrite D1. f_equal. lia.
  - rewrite D1. apply (i_nz _ I). lia.
Qed.

Definition mid_claim (s : st) : Prop :=
  exists u, pc (thr s u) = PWrite \/ pc (thr s u) = QClear.

(* a trypush about to fail at its slot/size test *)
Lemma push_fail_justified s t :
  Inv s -> pc (thr s t) = PSlot ->
  (buf s (hi (thr s t) mod size s) <> 0 \/ size s <= hi (thr s t) - lo (thr s t)) ->
  high s - low s = size s          (* full right now *)
  \/ mid_claim s                   (* another call holds a claimed slot right now *)
  \/ lo (thr s t) < low s \/ hi (thr s t) < high s.  (* a call took effect since this call's reads *)
Proof.
  intros I Hpc F. assert (LT := i_loc s I t). unfold local_ok in LT. rewrite Hpc in LT.
  destruct LT as (A & B & C). destruct (i_ord s I) as [O1 O2]. pose proof (i_size s I) as Z.
  destruct (Nat.eq_dec (lo (thr s t)) (low s)) as [El|]; [|lia].
  destruct (Nat.eq_dec (hi (thr s t)) (high s)) as [Eh|]; [|lia].
  destruct (Nat.eq_dec (high s - low s) (size s)) as [|NF]; [auto|].
  destruct F as [F|F]; [|lia]. right; left.
  rewrite Eh in F.
  destruct (Nat.lt_ge_cases (high s) (size s)) as [Hlt|Hge].
  - exfalso. apply F. apply (i_free s I); lia.
  - destruct (i_old s I (high s - size s) ltac:(lia) ltac:(lia)) as [[[u [Hu _]] _]|[_ Zb]].
    + exists u; auto.
    + exfalso. apply F. rewrite <- Zb. f_equal.
      replace (high s) with ((high s - size s) + size s) at 1 by lia.
      apply add_size_mod; auto.
Qed.

Lemma pop_fail_justified s t :
  Inv s -> pc (thr s t) = QSlot ->
  (buf s (lo (thr s t) mod size s) = 0 \/ hi (thr s t) <= lo (thr s t)) ->
  high s = low s                   (* empty right now *)
  \/ mid_claim s
  \/ lo (thr s t) < low s \/ hi (thr s t) < high s.
Proof.
  intros I Hpc F. assert (LT := i_loc s I t). unfold local_ok in LT. rewrite Hpc in LT.
  destruct LT as (A & B). destruct (i_ord s I) as [O1 O2].
  destruct (Nat.eq_dec (lo (thr s t)) (low s)) as [El|]; [|lia].
  destruct (Nat.eq_dec (hi (thr s t)) (high s)) as [Eh|]; [|lia].
  destruct (Nat.eq_dec (high s) (low s)) as [|NE]; [auto|].
  destruct F as [F|F]; [|lia]. right; left. rewrite El in F.
  destruct (i_live s I (low s) ltac:(lia)) as [[[u [Hu _]] _]|[_ Zb]].
  - exists u; auto.
  - exfalso. apply (i_nz s I (low s)); [lia|congruence].
Qed.
