(* Model of include/mpmc_stack.h (C20): one step per shared access.
   loc 0 = stack.head; node n (ids 1.., 0 = NULL) has [next] at loc 98+2n.
   push        : aload head; loop { n->next = head; CAS(head: head -> n) } (on
                 failure the CAS stores the observed head into the local)
   push_timeout: the same, giving up after [tries] failed CAS
   lifo_flush  : exchange(head, NULL)
   reverse     : per node: read h->next; write h->next = fifo
   fifo_flush  : reverse(lifo_flush)
   After a flush the harness walks the returned list (one read of node->next
   and one ret event per node, then ret 0).  The weak CAS is modelled as
   strong (x86 cmpxchg).  No counter anywhere: nothing to wrap.
   Node ownership as in Lifo.v: [own] = nodes the thread holds; OPush a takes
   the node at index a mod length own; a thread without nodes skips. *)
From Coq Require Import List ZArith Lia Bool Arith.
From LF Require Import Conc.
Import ListNotations.

Inductive op := OPush (a : nat) | OPushT (a : nat) | OLifoFlush | OFifoFlush.

Inductive pcT := PLoad | PWrite | PCas | FXchg | RRead | RWrite | WRead | Fin.

(* tries: 0 = unlimited (mpmc_stack_push), n>0 = remaining tries *)
Record tst := { pc : pcT; sh : nat; node : nat; tries : nat; cur : nat; fifo : nat; nxt : nat;
                rev : bool; own : list nat; prog : list op; opi : nat }.

Record st := { head : nat; next : nat -> nat; thr : nat -> tst; nthr : nat }.

Definition retev (t i v : nat) : list Z := [Z.of_nat t; Z.of_nat i; 909%Z; Z.of_nat v].

Definition mk (p : pcT) (nd tr : nat) (rv : bool) (ow : list nat) (r : list op) (i : nat) : tst :=
  {| pc := p; sh := 0; node := nd; tries := tr; cur := 0; fifo := 0; nxt := 0; rev := rv;
     own := ow; prog := r; opi := i |}.

Fixpoint begin (t : nat) (ow : list nat) (p : list op) (i : nat) : tst * list Z :=
  match p with
  | [] => (mk Fin 0 0 false ow [] i, [])
  | OPush a :: r =>
      match ow with
      | [] => let '(T, e) := begin t ow r (S i) in (T, retev t (S i) 0 ++ e)
      | _ => (mk PLoad (nth (a mod length ow) ow 0) 0 false ow r (S i), [])
      end
  | OPushT a :: r =>
      match ow with
      | [] => let '(T, e) := begin t ow r (S i) in (T, retev t (S i) 0 ++ e)
      | _ => (mk PLoad (nth ((a mod 8) mod length ow) ow 0) (1 + a / 8) false ow r (S i), [])
      end
  | OLifoFlush :: r => (mk FXchg 0 0 false ow r (S i), [])
  | OFifoFlush :: r => (mk FXchg 0 0 true ow r (S i), [])
  end.

Definition next_op (t : nat) (T : tst) (ow : list nat) : tst * list Z := begin t ow (prog T) (opi T).

Definition set_thr (s : st) (t : nat) (x : tst) : st :=
  {| head := head s; next := next s; thr := upd (thr s) t x; nthr := nthr s |}.

Definition ev (t : nat) (loc kind : Z) (v : nat) : list Z := [Z.of_nat t; loc; kind; Z.of_nat v].
Definition nloc (n : nat) : Z := (98 + 2 * Z.of_nat n)%Z.

Definition with_pc (T : tst) (p : pcT) : tst :=
  {| pc := p; sh := sh T; node := node T; tries := tries T; cur := cur T; fifo := fifo T; nxt := nxt T;
     rev := rev T; own := own T; prog := prog T; opi := opi T |}.

Definition step (s : st) (t : nat) : st * list Z :=
  let T := thr s t in
  match pc T with
  | Fin => (s, [])
  | PLoad => (set_thr s t {| pc := PWrite; sh := head s; node := node T; tries := tries T; cur := cur T;
                             fifo := fifo T; nxt := nxt T; rev := rev T; own := own T; prog := prog T; opi := opi T |},
              ev t 0 22 (head s))
  | PWrite => ({| head := head s; next := upd (next s) (node T) (sh T);
                  thr := upd (thr s) t (with_pc T PCas); nthr := nthr s |},
               ev t (nloc (node T)) 19 (sh T))
  | PCas =>
      if head s =? sh T
      then let '(T', e) := next_op t T (remove Nat.eq_dec (node T) (own T)) in
           ({| head := node T; next := next s; thr := upd (thr s) t T'; nthr := nthr s |},
            ev t 0 73 (node T) ++ retev t (opi T) (node T) ++ e)
      else match tries T with
           | 1 => let '(T', e) := next_op t T (own T) in
                  (set_thr s t T', ev t 0 83 (head s) ++ retev t (opi T) 0 ++ e)
           | n => (set_thr s t {| pc := PWrite; sh := head s; node := node T; tries := pred n; cur := cur T;
                                  fifo := fifo T; nxt := nxt T; rev := rev T; own := own T;
                                  prog := prog T; opi := opi T |},
                   ev t 0 83 (head s))
           end
  | FXchg =>
      match head s with
      | O => let '(T', e) := next_op t T (own T) in
             ({| head := 0; next := next s; thr := upd (thr s) t T'; nthr := nthr s |},
              ev t 0 44 0 ++ retev t (opi T) 0 ++ e)
      | S _ => ({| head := 0; next := next s;
                   thr := upd (thr s) t {| pc := if rev T then RRead else WRead; sh := sh T; node := node T;
                                           tries := tries T; cur := head s; fifo := 0; nxt := 0; rev := rev T;
                                           own := own T; prog := prog T; opi := opi T |};
                   nthr := nthr s |},
                ev t 0 44 (head s))
      end
  | RRead => (set_thr s t {| pc := RWrite; sh := sh T; node := node T; tries := tries T; cur := cur T;
                             fifo := fifo T; nxt := next s (cur T); rev := rev T; own := own T;
                             prog := prog T; opi := opi T |},
              ev t (nloc (cur T)) 9 (next s (cur T)))
  | RWrite => ({| head := head s; next := upd (next s) (cur T) (fifo T);
                  thr := upd (thr s) t
                           match nxt T with
                           | O => {| pc := WRead; sh := sh T; node := node T; tries := tries T; cur := cur T;
                                     fifo := cur T; nxt := 0; rev := rev T; own := own T;
                                     prog := prog T; opi := opi T |}
                           | S _ => {| pc := RRead; sh := sh T; node := node T; tries := tries T; cur := nxt T;
                                       fifo := cur T; nxt := nxt T; rev := rev T; own := own T;
                                       prog := prog T; opi := opi T |}
                           end;
                  nthr := nthr s |},
               ev t (nloc (cur T)) 19 (fifo T))
  | WRead =>
      match next s (cur T) with
      | O => let '(T', e) := next_op t T (cur T :: own T) in
             (set_thr s t T', ev t (nloc (cur T)) 9 0 ++ retev t (opi T) (cur T) ++ retev t (opi T) 0 ++ e)
      | S _ => (set_thr s t {| pc := WRead; sh := sh T; node := node T; tries := tries T; cur := next s (cur T);
                               fifo := fifo T; nxt := nxt T; rev := rev T; own := cur T :: own T;
                               prog := prog T; opi := opi T |},
                ev t (nloc (cur T)) 9 (next s (cur T)) ++ retev t (opi T) (cur T))
      end
  end.

Definition status_of (s : st) (t : nat) : status :=
  if t <? nthr s then match pc (thr s t) with Fin => SDone | _ => SReady end else SDone.

Definition init_own (k nt t : nat) : list nat := if t <? nt then seq (t * k + 1) k else [].

Definition init (k : nat) (progs : list (list op)) : st :=
  {| head := 0; next := fun _ => 0;
     thr := fun t => fst (begin t (init_own k (length progs) t) (nth t progs []) 0);
     nthr := length progs |}.

Definition init_events (k : nat) (progs : list (list op)) : list Z :=
  flat_map (fun t => snd (begin t (init_own k (length progs) t) (nth t progs []) 0))
           (seq 0 (length progs)).

Definition M : machine :=
  {| mstate := st; mstep := step; mstatus := status_of; mthreads := nthr |}.

Definition dec_op (p : Z * Z) : op :=
  match fst p with
  | 1%Z => OPush (Z.to_nat (snd p))
  | 4%Z => OPushT (Z.to_nat (snd p))
  | 3%Z => OFifoFlush
  | _ => OLifoFlush
  end.

Definition run_case (l : list Z) : list Z :=
  match decode_case l with
  | Some c =>
      let k := Z.to_nat (nthZ (c_params c) 0) in
      let dmax := Z.to_nat (nthZ (c_params c) 1) in
      let progs := map (map dec_op) (c_progs c) in
      run_all M (init k progs) (init_events k progs) (c_sched c) dmax
  | None => [(-1)%Z]
  end.
