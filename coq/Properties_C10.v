(* C10 — fiber_yield is fair (src/fiber_scheduler_wsd.c), and the scheduler
   half of C02 (conservation).  Statements over every reachable state of the
   model coq/Sched.v (kept in lock-step with the real code by rt/h_sched.c)
   for ONE kernel thread, the repaired code (`to_store = true`: schedule()
   pushes on store_to, which is what /repo contains), ANY program of
   spawn / yield / block / wake / idle / balance / park-saving / flip calls of
   any length, any schedule.  Hypothesis on the program: the fiber ids it
   spawns are at most N (`prog_ok N prog`; ids outside 1..32 are refused by the
   model and the harness alike).  N is therefore a bound on the number of
   fibers that ever exist.

   Vocabulary (coq/SchedProofs.v):
     Fq s = dq s (sfrom s 0)      the batch being drained, head = next pop
     Sq s = dq s (3 - sfrom s 0)  the batch being filled, head = last push
            (= dq s (sto s 0) except between the two stores of the swap, pc PN5)
     held T   = the current fiber of the thread and the fibers in the locals of
                its pc (PN8/PN9 x, PY2/PY3/PY4/PI1 nf, PSched f, PW2/PP2 f, PL2 stolen)
     places s = held (thr s 0) ++ Fq s ++ Sq s
     fiber states: 0 none, 1 RUNNING, 2 READY, 3 WAITING, 5 SAVING_STATE_TO_WAIT
     inwq s f = f is parked in a wait queue outside the scheduler
     park-saving f: a waker schedules the parked fiber f with state SAVING;
     flip f: SAVING -> WAITING (the maintenance of f's successor); next()
     re-queues a popped SAVING fiber on store_to (pc PN9) and returns it only
     after the flip (then its state is WAITING and it is not in a wait queue).
   Instrumented machine `ist` = model state + ghosts (erasure: lstep_erase,
   ireach_base, reachable_ireach, irun_erase):
     byp x g = number of times next() handed out ANOTHER fiber while g was in
               the deques and not SAVING, since g was last handed out (0
               whenever g is SAVING or neither queued nor just popped); a
               hand-out is the PN8 step that does not take the SAVING branch;
               the SAVING re-queue changes no counter
     hand x  = log of the fibers handed out by next(), oldest first. *)
From Coq Require Import List ZArith Arith.
From LF Require Import Conc Sched SchedProofs SchedNProofs.
Import ListNotations.

(* Conservation (used by C02): every existing fiber is in at most one place;
   queued entries are READY, SAVING, or WAITING-after-a-flip; every fiber that
   is RUNNING, READY, SAVING, or WAITING but not parked in a wait queue has a
   place (no queued entry is ever dropped, and next() hands a fiber out at most
   once per schedule() of it, because an entry handed out leaves the deques and
   the deques never hold a fiber twice); a fiber parked in a wait queue is
   WAITING and in no place; a fiber handed out by next() is never SAVING; at
   most N fibers exist. *)
Theorem sched_conservation_1thread : forall N prog s,
  prog_ok N prog -> reachable M (fst (init true [prog])) s ->
  NoDup (places s) /\
  (forall f, In f (Fq s ++ Sq s) ->
     fstt s f = 2%Z \/ fstt s f = 5%Z \/ (fstt s f = 3%Z /\ inwq s f = false)) /\
  (forall f, fstt s f = 1%Z \/ fstt s f = 2%Z \/ fstt s f = 5%Z \/ (fstt s f = 3%Z /\ inwq s f = false) ->
     In f (places s)) /\
  (forall f, inwq s f = true -> fstt s f = 3%Z /\ ~ In f (places s)) /\
  (forall nf, handed s nf -> fstt s nf = 2%Z \/ fstt s nf = 3%Z) /\
  (forall f, In f (places s) -> fstt s f <> 0%Z /\ 1 <= f <= N) /\
  (forall f, fstt s f = 0 \/ fstt s f = 1 \/ fstt s f = 2 \/ fstt s f = 3 \/ fstt s f = 5)%Z /\
  length (places s) <= N /\
  (sfrom s 0 = 1 \/ sfrom s 0 = 2) /\
  ((forall k tmp, pc (thr s 0) <> PN5 k tmp) -> sto s 0 = 3 - sfrom s 0).
Proof. intros N prog s Hp R. exact (conservation_of_inv N s (reachable_inv N prog s Hp R)). Qed.
Print Assumptions sched_conservation_1thread.

(* Bounded bypass: in every reachable state every fiber has been bypassed at
   most 2(N-1) times since it became runnable (scheduled READY, or flipped after
   having been scheduled SAVING), however long the others keep yielding.  A
   SAVING fiber cannot be handed out; its counter is 0 until the flip, and
   re-queueing it costs nobody a bypass.  By position: a fiber in the batch
   being filled has at most N-1 bypasses minus the length of the batch being
   drained; a fiber at index p of the batch being drained has at most
   2(N-1) - p.  (The constant 2(N-1) is the one of DESIGN.md and of the monitor
   in tools/vf/props/C10.py; it is not claimed to be tight.) *)
Theorem yield_bounded_bypass : forall N prog x g,
  prog_ok N prog -> ireach true prog x ->
  byp x g <= 2 * (N - 1) /\
  (fstt (base x) g = 5%Z \/
   (~ In g (Fq (base x) ++ Sq (base x)) /\ forall k, pc (thr (base x) 0) <> PN8 k g) -> byp x g = 0) /\
  (In g (Sq (base x)) -> byp x g + length (Fq (base x)) + 1 <= N) /\
  (forall p, nth_error (Fq (base x)) p = Some g -> byp x g + p + 2 <= 2 * N).
Proof.
  intros N prog x g Hp R. split; [exact (bypass_bound N prog x g Hp R)|].
  destruct (bypass_bound_by_position N prog x Hp R) as (A & B & C).
  split; [exact (A g)|]. split; [exact (B g)|]. intros p; exact (C p g).
Qed.
Print Assumptions yield_bounded_bypass.

(* Polling loops cannot starve the fiber they wait for: from any reachable
   state in which g is queued and not SAVING (READY, or flipped), in EVERY
   continuation `sch` of the execution the fibers handed out by next() in that
   continuation (`l`) either include g or number at most 2(N-1) - byp g.  So
   whoever keeps calling fiber_yield gets g run within 2(N-1)+1 hand-outs. *)
Theorem yield_poll_loop_progress : forall N prog x g sch,
  prog_ok N prog -> ireach true prog x ->
  fstt (base x) g <> 5%Z -> In g (Fq (base x) ++ Sq (base x)) ->
  exists l, hand (irun x sch) = hand x ++ l /\
            (In g l \/ byp x g + length l <= 2 * (N - 1)).
Proof. intros N prog x g sch Hp R H5 Hq. exact (poll_progress N prog x g sch Hp R H5 Hq). Qed.
Print Assumptions yield_poll_loop_progress.

(* The pinned code (schedule() pushes on schedule_from, `init false`) violates
   the bound: spawn 1,2,3; one scheduler-loop iteration; 40 yields, run to
   completion: next() handed out 41 fibers, never fiber 1, which is READY and
   queued the whole time (bound for 3 fibers: 4).  Also read off the trace
   that the harness prints for the same case (run_all): 41 RUNNING writes,
   none to fiber 1. *)
Theorem yield_starvation_on_schedule_from :
  exists prog sch,
    let x := irun (iinit false prog) sch in
    let tr := run_all M (fst (init false [prog])) (snd (init false [prog])) [] 3000 in
    prog_ok 3 prog /\
    base x = fst (run_sched M (fst (init false [prog])) sch) /\
    pc (thr (base x) 0) = Fin /\
    fstt (base x) 1 = 2%Z /\ queued (base x) 1 /\
    ~ In 1 (hand x) /\ length (hand x) = 41 /\ byp x 1 = 41 /\
    2 * (3 - 1) < byp x 1 /\
    ~ In 1%Z (running_writes tr) /\ length (running_writes tr) = 41.
Proof.
  exists (starve_prog 40), (repeat 0 400). cbv zeta. split; [|exact starvation_witness].
  intros f H. cbn in H. repeat (destruct H as [H|H]; [inversion H; subst; auto with arith|]).
  destruct H.
Qed.
Print Assumptions yield_starvation_on_schedule_from.

(* ... and for EVERY k: spawn 1,2,3; one scheduler-loop iteration; k+1 yields,
   run to completion (15 + 9(k+1) steps) on the pinned code: next() handed out
   k+2 fibers, never fiber 1, which is READY and queued at the end with
   byp = k+2 — no bound exists.  Proved from the 2-yield cycle
   (starve_cycA / starve_cycB in SchedProofs.v). *)
Theorem yield_starvation_on_schedule_from_unbounded : forall k,
  let x := irun (iinit false (starve_prog (S k))) (repeat 0 (15 + 9 * S k)) in
  ireach false (starve_prog (S k)) x /\
  pc (thr (base x) 0) = Fin /\ fstt (base x) 1 = 2%Z /\ In 1 (Fq (base x) ++ Sq (base x)) /\
  ~ In 1 (hand x) /\ length (hand x) = S (S k) /\ byp x 1 = S (S k).
Proof.
  intros k. cbv zeta. split; [apply ireach_irun; constructor|]. exact (starvation_unbounded k).
Qed.
Print Assumptions yield_starvation_on_schedule_from_unbounded.

(* the ghosts do not influence the machine: instrumented runs erase to runs of
   Sched.M and every reachable state of Sched.M is the erasure of one *)
Theorem c10_instrumentation_erases : forall fixed prog,
  (forall x t, base (lstep x t) = fst (step (base x) t)) /\
  (forall x, ireach fixed prog x -> reachable M (fst (init fixed [prog])) (base x)) /\
  (forall s, reachable M (fst (init fixed [prog])) s -> exists x, ireach fixed prog x /\ base x = s) /\
  (forall x sch, base (irun x sch) = fst (run_sched M (base x) sch)).
Proof.
  intros fixed prog. split; [exact lstep_erase|]. split; [exact (ireach_base fixed prog)|].
  split; [exact (reachable_ireach fixed prog)|]. intros x sch; exact (irun_erase sch x).
Qed.
Print Assumptions c10_instrumentation_erases.

(* with one kernel thread load_balance has no remote queue to scan *)
Theorem c10_load_balance_1thread : forall dqs lc ms rc,
  lb_iend 0 1 = 2 /\ lb_scan (2 * 1 + 60) dqs 1 (2 * (0 + 1)) (lb_iend 0 1) lc ms rc = (dqs, None).
Proof. intros. split; [exact lb_iend_1|exact (lb_scan_1thread dqs lc ms rc)]. Qed.
Print Assumptions c10_load_balance_1thread.

(* ================= N >= 1 kernel threads, every interleaving =================
   (coq/SchedNProofs.v).  A deque operation is one atomic step of the model (the
   deque internals are C02_deque's job); fiber states are plain shared variables.
   Hypothesis on the programs (`progs_ok N own progs`): thread t only spawns
   fiber ids <= N that it owns (own f = t), as fiber_create hands out fresh
   fibers.  Thread t owns the deques 2t+1, 2t+2:
     FqN s t = dq s (sfrom s t), SqN s t = dq s (4t+3 - sfrom s t);
     placesN s = what every thread holds (current fiber and the locals of its pc,
                 including a stolen fiber at PL2) ++ all deques 1..2n. *)

(* Conservation for N threads: every fiber that is RUNNING, READY, SAVING, or
   WAITING-but-not-parked is in exactly one place (one deque of one thread, or
   held by one thread), never in two; queued fibers are READY / SAVING / flipped;
   parked fibers are in no place; a fiber handed out by any thread's next() is
   not SAVING; steals and load_balance moves preserve all this. *)
Theorem sched_conservation : forall N own progs s,
  progs_ok N own progs -> reachable M (fst (init true progs)) s ->
  NoDup (placesN s) /\
  (forall f d, 1 <= d <= 2 * nthr s -> In f (dq s d) ->
     fstt s f = 2%Z \/ fstt s f = 5%Z \/ (fstt s f = 3%Z /\ inwq s f = false)) /\
  (forall f, fstt s f = 1%Z \/ fstt s f = 2%Z \/ fstt s f = 5%Z \/ (fstt s f = 3%Z /\ inwq s f = false) ->
     In f (placesN s)) /\
  (forall f, inwq s f = true -> fstt s f = 3%Z /\ ~ In f (placesN s)) /\
  (forall t nf, t < nthr s -> handedN s t nf -> fstt s nf = 2%Z \/ fstt s nf = 3%Z) /\
  (forall f, In f (placesN s) -> fstt s f <> 0%Z /\ 1 <= f <= N) /\
  (forall f, fstt s f = 0 \/ fstt s f = 1 \/ fstt s f = 2 \/ fstt s f = 3 \/ fstt s f = 5)%Z /\
  length (placesN s) <= N /\
  (forall t, t < nthr s -> (sfrom s t = 2 * t + 1 \/ sfrom s t = 2 * t + 2) /\
     ((forall k tmp, pc (thr s t) <> PN5 k tmp) -> sto s t = 4 * t + 3 - sfrom s t)).
Proof. intros N own progs s Hp R. exact (conservation_of_invN N own s (reachable_invN N own progs s Hp R)). Qed.
Print Assumptions sched_conservation.

(* Only thread t adds to t's deques (fiber_scheduler_schedule and the SAVING
   re-queue push on the caller's store_to; load_balance pushes the stolen fiber
   on the THIEF's schedule_from): a step of another thread u leaves each deque
   of t unchanged or removes its last element. *)
Theorem sched_only_owner_adds : forall N own progs s u t d,
  progs_ok N own progs -> reachable M (fst (init true progs)) s ->
  u < nthr s -> t < nthr s -> t <> u -> (d = 2 * t + 1 \/ d = 2 * t + 2) ->
  dq (fst (step s u)) d = dq s d \/ exists x, dq s d = dq (fst (step s u)) d ++ [x].
Proof.
  intros N own progs s u t d Hp R Hu Ht Hne Hd.
  exact (others_only_steal N own s u t d (reachable_invN N own progs s Hp R) Hu Ht Hne Hd).
Qed.
Print Assumptions sched_only_owner_adds.

(* Per-thread bypass bound under work stealing.  Ghosts of the instrumented machine
   `nst` (nstep_erase / nreach_base / reachable_nreach / nrun_erase): for a fiber g
   queued on thread t's deques,
     nbyp g = number of times t's next() handed out ANOTHER fiber while g was
              queued on t and not SAVING,
     nstl g = number of stolen fibers that t's load_balance pushed in front of its
              schedule_from deque meanwhile (each is popped before g),
     nmx g  = the largest number of fibers on t (held by t or in its two deques)
              at any time meanwhile (n_t of DESIGN.md; at most N),
   all reset when g is handed out and when g is stolen (the interval ends).
   Theorem: nbyp g <= 2 (nmx g - 1) + nstl g, with the bounds by position.  Steps
   of the other threads never increase the left side and only shrink t's deques
   (sched_only_owner_adds).  The allowance nstl is necessary: see the _refuted
   theorem below.  In the runtime load_balance is only called when the thread's
   own next() has just returned NULL (fiber_manager_yield, thread_func), i.e. when
   no runnable fiber is queued on t, so there nstl g = 0 for fibers queued later. *)
Theorem yield_bounded_bypass_nthreads : forall N own progs x,
  progs_ok N own progs -> nreach true progs x ->
  (forall g, nbyp x g <= 2 * (nmx x g - 1) + nstl x g /\ nmx x g <= N) /\
  (forall t g, t < nthr (nbase x) -> In g (SqN (nbase x) t) ->
     nbyp x g + length (FqN (nbase x) t) + 1 <= nmx x g + nstl x g) /\
  (forall t p g, t < nthr (nbase x) -> nth_error (FqN (nbase x) t) p = Some g ->
     nbyp x g + p + 2 <= 2 * nmx x g + nstl x g) /\
  (forall t g, t < nthr (nbase x) -> In g (FqN (nbase x) t) \/ In g (SqN (nbase x) t) ->
     cntT (nbase x) t <= nmx x g) /\
  (forall g, fstt (nbase x) g = 5%Z \/
             (Qcn (dq (nbase x)) (nthr (nbase x)) g = 0 /\ ~ poppedN (nbase x) g) -> nbyp x g = 0).
Proof. intros N own progs x Hp R. exact (bypass_bound_N N own progs x Hp R). Qed.
Print Assumptions yield_bounded_bypass_nthreads.

(* A steal ends the interval: the step that steals f resets its counters and
   leaves the thief at PL2 .. f; there f is in no deque, and the thief's next step
   puts f at the head (bottom) of the thief's schedule_from deque, i.e. f is the
   thief's next hand-out unless the same load_balance call pushes further stolen
   fibers in front of it (at most 49). *)
Theorem stolen_fiber_runs_on_thief : forall N own progs x u,
  progs_ok N own progs -> nreach true progs x -> u < nthr (nbase x) ->
  (forall f, stolen (nbase x) (fst (step (nbase x) u)) u = Some f ->
     nbyp (nstep x u) f = 0 /\ nstl (nstep x u) f = 0 /\ nmx (nstep x u) f = 0 /\
     exists k i a b c, pc (thr (nbase (nstep x u)) u) = PL2 k i a b c f) /\
  (forall k i lc rc ms f, pc (thr (nbase x) u) = PL2 k i lc rc ms f ->
     Qcn (dq (nbase x)) (nthr (nbase x)) f = 0 /\ nbyp x f = 0 /\
     dq (fst (step (nbase x) u)) (sfrom (nbase x) u) = f :: dq (nbase x) (sfrom (nbase x) u) /\
     sfrom (fst (step (nbase x) u)) u = sfrom (nbase x) u).
Proof.
  intros N own progs x u Hp R Hu. split.
  - intros f Hf. exact (steal_resets x u f Hf).
  - intros k i lc rc ms f Hpc. exact (stolen_on_thief N own progs x u k i lc rc ms f Hp R Hu Hpc).
Qed.
Print Assumptions stolen_fiber_runs_on_thief.

(* Without the allowance the bound is FALSE on the model, and the same trace is
   produced by the real code under the harness (case in corpus/C10.txt): two
   threads, three fibers; fiber 1 READY on thread 0's store_to deque is bypassed
   6 > 2(3-1) times by thread 0's next(), with never more than 3 fibers on
   thread 0, because the fiber running on thread 0 calls load_balance (harness op
   `balance`) before each of its blocking yields and steals the other one back. *)
Theorem yield_bounded_bypass_nthreads_no_allowance_refuted :
  exists N own progs sch g,
    let x := nrun (ninit true progs) sch in
    progs_ok N own progs /\ nreach true progs x /\
    fstt (nbase x) g = 2%Z /\ In g (SqN (nbase x) 0) /\
    nmx x g = 3 /\ nbyp x g = 6 /\ 2 * (nmx x g - 1) < nbyp x g /\ nstl x g = 6.
Proof.
  exists 3, wit_own, [wit_p0; wit_p1], wit_sch, 1. cbv zeta.
  split; [exact wit_progs_ok|]. split; [apply nreach_nrun; constructor|].
  destruct bypass_unconditional_witness as (_ & _ & A & B & _ & C & D & E & F).
  rewrite B. repeat split; auto. left; reflexivity.
Qed.
Print Assumptions yield_bounded_bypass_nthreads_no_allowance_refuted.

(* the N-thread ghosts do not influence the machine *)
Theorem c10_nthread_instrumentation_erases : forall fixed progs,
  (forall x t, nbase (nstep x t) = fst (step (nbase x) t)) /\
  (forall x, nreach fixed progs x -> reachable M (fst (init fixed progs)) (nbase x)) /\
  (forall s, reachable M (fst (init fixed progs)) s -> exists x, nreach fixed progs x /\ nbase x = s) /\
  (forall x sch, nbase (nrun x sch) = fst (run_sched M (nbase x) sch)).
Proof.
  intros fixed progs. split; [exact nstep_erase|]. split; [exact (nreach_base fixed progs)|].
  split; [exact (reachable_nreach fixed progs)|]. intros x sch; exact (nrun_erase sch x).
Qed.
Print Assumptions c10_nthread_instrumentation_erases.

(* ---- non-vacuity: the hypotheses are met by concrete reachable states ---- *)
Definition ex_prog := [OSpawn 1; OSpawn 2; OSpawn 3; OIdle; OYield; OYield; OYield; OYield; OYield; OYield].

Example ex_prog_ok : prog_ok 3 ex_prog.
Proof.
  intros f H. cbn in H. repeat (destruct H as [H|H]; [inversion H; subst; auto with arith|]). destruct H.
Qed.

(* three READY fibers, all queued on the batch being filled, thread idle *)
Example ex_three_ready :
  let s := fst (run_sched M (fst (init true [ex_prog])) (repeat 0 9)) in
  reachable M (fst (init true [ex_prog])) s /\
  fstt s 1 = 2%Z /\ fstt s 2 = 2%Z /\ fstt s 3 = 2%Z /\ Sq s = [3; 2; 1] /\ Fq s = [] /\
  places s = [3; 2; 1].
Proof. split; [apply run_sched_reachable; constructor | vm_compute; repeat split; reflexivity]. Qed.

(* fiber 1 READY and queued after 2 bypasses (N = 3: bound 4), and it is
   handed out by the very next hand-out *)
Example ex_bypassed_then_run :
  let x := irun (iinit true ex_prog) (repeat 0 28) in
  ireach true ex_prog x /\ fstt (base x) 1 = 2%Z /\ In 1 (Fq (base x) ++ Sq (base x)) /\
  byp x 1 = 2 /\ hand x = [3; 2] /\
  hand (irun x (repeat 0 5)) = hand x ++ [1].
Proof.
  split; [apply ireach_irun; constructor|]. vm_compute. repeat split; try reflexivity. auto.
Qed.

(* the same program on the pinned code: fiber 1 is bypassed 7 > 4 times *)
Example ex_pinned_code_exceeds :
  let x := irun (iinit false ex_prog) (repeat 0 80) in
  ireach false ex_prog x /\ pc (thr (base x) 0) = Fin /\ fstt (base x) 1 = 2%Z /\
  byp x 1 = 7 /\ hand x = [3; 2; 3; 2; 3; 2; 3].
Proof.
  split; [apply ireach_irun; constructor|]. vm_compute. repeat split; reflexivity.
Qed.

(* a fiber held in a local of the pc: popped, about to be handed out *)
Example ex_pn8_reachable :
  let s := fst (run_sched M (fst (init true [ex_prog])) (repeat 0 17)) in
  reachable M (fst (init true [ex_prog])) s /\ pc (thr s 0) = PN8 KIdle 3 /\ places s = [3; 2; 1] /\
  Fq s = [2; 1].
Proof. split; [apply run_sched_reachable; constructor | vm_compute; repeat split; reflexivity]. Qed.

(* the SAVING path: fiber 3 blocks, is scheduled while SAVING (park-saving),
   is popped and re-queued by next() (pc PN9), flipped, and then handed out *)
Definition sv_prog := [OSpawn 1; OSpawn 2; OSpawn 3; OIdle; OBlock; OPark 3; OYield; OYield; OYield;
                       OFlip 3; OYield; OYield; OYield; OYield].

Example sv_prog_ok : prog_ok 3 sv_prog.
Proof.
  intros f H. cbn in H. repeat (destruct H as [H|H]; [inversion H; subst; auto with arith|]). destruct H.
Qed.

Example ex_saving_requeue_reachable :
  let x := irun (iinit true sv_prog) (repeat 0 57) in
  ireach true sv_prog x /\ pc (thr (base x) 0) = PN9 (KYield 1) 3 /\ fstt (base x) 3 = 5%Z /\
  places (base x) = [3; 2; 1] /\ hand x = [3; 2; 1; 2] /\
  (* the yield that popped it finds nothing else and returns to fiber 2; after the flip: *)
  let y := irun x (repeat 0 4) in
  fstt (base y) 3 = 3%Z /\ inwq (base y) 3 = false /\ Sq (base y) = [3; 1] /\ hand y = hand x /\
  hand (irun y (repeat 0 9)) = hand y ++ [3].
Proof.
  split; [apply ireach_irun; constructor|]. vm_compute. repeat split; reflexivity.
Qed.

(* two threads: thread 0 steals fiber 3 from thread 1's deque 4, holds it at PL2,
   then pushes it in front of its own schedule_from deque *)
Example ex_steal_happens :
  let x := nrun (ninit true [wit_p0; wit_p1]) (firstn 19 wit_sch) in
  let y := nrun x [0] in
  nreach true [wit_p0; wit_p1] y /\ progs_ok 3 wit_own [wit_p0; wit_p1] /\
  dq (nbase x) 4 = [3] /\ stolen (nbase x) (nbase y) 0 = Some 3 /\ dq (nbase y) 4 = [] /\
  (exists k i a b c, pc (thr (nbase y) 0) = PL2 k i a b c 3) /\
  FqN (nbase (nrun y [0])) 0 = [3] /\ placesN (nbase y) = [3; 2; 1].
Proof.
  cbv zeta. split; [repeat apply nreach_nrun; constructor|]. split; [exact wit_progs_ok|].
  exact steal_example.
Qed.
