(* C11 model "bchan": the bounded channel of include/fiber_channel.h with its
   ready signal, on the T1 machine = the ChanK client restricted to bounded
   send / receive / try_receive programs.  Harness: rt/h_bchan.c.
   case: params = dmax, power_of_2_size; ops (5, v) send v, (6,_) receive,
   (8,_) try_receive. *)
From Coq Require Import List ZArith Lia Bool Arith.
From LF Require Import Conc T1K ChanK.
Import ListNotations.
Local Open Scope Z_scope.

Definition dec_op (p : Z * Z) : cop :=
  match fst p with
  | 5 => OBSend (snd p)
  | 6 => OBRecv
  | _ => OBTry
  end.

(* size = 2^k slots *)
Definition init (k : nat) (progs : list (list cop)) : st := ChanK.init (2 ^ Z.of_nat k) progs.
Definition M : machine := ChanK.M.

Definition run_case (l : list Z) : list Z :=
  match decode_case l with
  | Some c => run_all M (init (Z.to_nat (nthZ (c_params c) 1)) (map (map dec_op) (c_progs c))) [] (c_sched c)
                      (Z.to_nat (nthZ (c_params c) 0))
  | None => [(-1)%Z]
  end.
