(* Part 1 (ghost machine, witnesses, invariant, stability) of the proofs about the join / tryjoin / detach model (coq/Join.v on coq/T1K.v):
   an instrumented machine (ghost history summaries), executable witnesses for
   what is false of the faithful model, and an inductive invariant over every
   reachable state - any number of fibers, any programs, any schedule - for
   what holds. *)
From Coq Require Import List ZArith Lia Bool Arith.
From LF Require Import Conc T1K Join.
Import ListNotations.
Local Open Scope Z_scope.

(* ------------------------------------------------------------------ *)
(* Ghost state.

   The rendezvous slot target->join_info goes through at most one cycle:
     MBNone        nobody has exchanged detach_state yet
     MBNever       the first exchange was a detach: nobody will ever sleep in the slot
     MBPending s   fiber s's exchange returned NONE; s will publish itself and sleep
     MBFull s      join_info = s (s has switched away)
     MBTaken s u   u's clear_or_wait took s out of the slot                  *)
Inductive mbox := MBNone | MBNever | MBPending (s : nat) | MBFull (s : nat) | MBTaken (s u : nat).

Record ghost := {
  mb : mbox;
  woken : bool;                 (* the fiber taken out of the slot has been scheduled *)
  gave : bool;                  (* the taker stored into the sleeping joiner's mailbox: the target its result,
                                   a (repaired) detach the FIBER_JOIN_DETACHED mark *)
  gfin : option Z;              (* Some R: the target executed its `result` store with R *)
  gsucc : list (nat * Z * option Z);
                                (* joins/tryjoins that returned SUCCESS, newest first:
                                   (fiber, result reported, gfin at the time of the return) *)
  na : nat;                     (* successes of a joiner that slept in the slot *)
  nb : nat;                     (* successes of a join/tryjoin that took the sleeper out of the slot *)
  dwr : bool;                   (* a DETACH exchanged detach_state while a joiner was registered
                                   (its exchange had returned NONE and it was still pending or in the slot) *)
  jwr : bool;                   (* a JOIN/TRYJOIN exchange returned WAIT_FOR_JOINER while a joiner was registered *)
  stolen_d : bool;              (* a detach took a sleeping JOINER out of the slot *)
  stolen_j : bool;              (* a join/tryjoin took a sleeping JOINER out of the slot *)
  gdet : bool;                  (* a detach has returned SUCCESS *)
  late : nat -> bool;           (* fiber t's join/tryjoin in progress began after a detach had returned SUCCESS *)
  bad_late : bool;              (* such a call returned SUCCESS *)
  released : bool;              (* a detach exchanged, or a join/tryjoin exchange returned NONE / WAIT_FOR_JOINER *)
  touched : bool;               (* a field of the target was accessed after free(target) *)
  jod : bool                    (* a join exchanged WAIT_TO_JOIN over DETACHED *)
}.

Record gst := { base : st; gh : ghost }.

Definition ds_of (s : st) : Z := cell (mem s) c_ds.
Definition ji_of (s : st) : Z := cell (mem s) c_ji.
Definition reclaims (s : st) : Z := cell (mem s) c_recl.

Definition is_reg (b : mbox) : bool :=
  match b with
  | MBPending (S _) | MBFull (S _) => true
  | _ => false
  end.

(* does the frame on top access a field of the target fiber? *)
Definition touches (t : nat) (f : frame jc) : bool :=
  match f with
  | CLoadC c _ | CStoreC c _ _ | CXchgC c _ _ | CWXchg c | MSetWait c _ =>
      (c =? c_ds)%nat || (c =? c_ji)%nat || (c =? c_res tgt)%nat
  | FStWrite f _ | FStRead f => (f =? tgt)%nat
  | YRead | SwRead | SwDone | MRead | SWState _ _ | Resume | Start => (t =? tgt)%nat
  | _ => false
  end.

Definition gnext (s : st) (t : nat) (g : ghost) : ghost :=
  let stkt := stk s t in
  let old := ds_of s in
  let top := match stkt with f :: _ => Some f | [] => None end in
  let top2 := match stkt with f :: FC X :: _ => Some (f, X) | _ => None end in
  let is_xchg := match top with Some (CXchgC c _ _) => (c =? c_ds)%nat | _ => false end in
  let take := match top with Some (CWXchg c) => (c =? c_ji)%nat && negb (ji_of s =? 0) | _ => false end in
  let sleeper := tid_of_name (ji_of s) in
  let succ_a := match top2 with Some (CStoreC _ _ _, JCleared _ _ v) => Some v | _ => None end in
  let succ_b := match top2 with Some (FStWrite _ _, JReady _ _ r _) => Some r | _ => None end in
  let det_ok := match top2 with
                | Some (FStWrite _ _, DReady _ _ _) => true
                | Some (CXchgC _ _ _, DX _ _) => negb ((old =? D_WFJ) || (old =? D_WTJ) || (old =? D_DET))
                | _ => false
                end in
  let kind_d := match top2 with Some (_, DX _ _) | Some (_, DTook _ _) => true | _ => false end in
  let kind_j := match top2 with Some (_, JXchg _ _) | Some (_, TrX _ _) | Some (_, JTook _ _ _) => true | _ => false end in
  {| mb := if is_xchg && (old =? D_NONE)
           then (if kind_d then MBNever else MBPending t)
           else match top with
                | Some (MSetWait c _) => if (c =? c_ji)%nat then MBFull t else mb g
                | _ => if take then MBTaken sleeper t else mb g
                end;
     woken := match top2 with
              | Some (FStWrite _ _, TReady _) | Some (FStWrite _ _, JReady _ _ _ _)
              | Some (FStWrite _ _, DReady _ _ _) => true
              | _ => woken g
              end;
     gave := match top2 with Some (CStoreC _ _ _, TGave _) | Some (CStoreC _ _ _, DSent _ _ _) => true | _ => gave g end;
     gfin := match top2 with Some (CStoreC _ v _, TStored) => Some v | _ => gfin g end;
     gsucc := match succ_a, succ_b with
              | Some v, _ => (t, v, gfin g) :: gsucc g
              | None, Some r => (t, r, gfin g) :: gsucc g
              | None, None => gsucc g
              end;
     na := match succ_a with Some _ => S (na g) | None => na g end;
     nb := match succ_b with Some _ => S (nb g) | None => nb g end;
     dwr := dwr g || (is_xchg && kind_d && is_reg (mb g));
     jwr := jwr g || (is_xchg && kind_j && (old =? D_WFJ) && is_reg (mb g));
     stolen_d := stolen_d g || (take && kind_d && negb (sleeper =? tgt)%nat);
     stolen_j := stolen_j g || (take && kind_j && negb (sleeper =? tgt)%nat);
     gdet := gdet g || det_ok;
     late := match top2 with
             | Some (CLoadC _ _, JLoaded _ _) | Some (CLoadC _ _, TrL1 _ _) => upd (late g) t (gdet g)
             | _ => late g
             end;
     bad_late := bad_late g ||
                 (match succ_a, succ_b with None, None => false | _, _ => late g t end);
     released := released g ||
                 (is_xchg && (kind_d || (kind_j && ((old =? D_NONE) || (old =? D_WFJ)))));
     touched := touched g ||
                (negb (reclaims s =? 0) && match top with Some f => touches t f | None => false end);
     jod := jod g || (is_xchg && (old =? D_DET) &&
                      match top2 with Some (_, JXchg _ _) => true | _ => false end)
  |}.

Definition istep (x : gst) (t : nat) : gst :=
  {| base := fst (step (base x) t); gh := gnext (base x) t (gh x) |}.

Definition g0 : ghost :=
  {| mb := MBNone; woken := false; gave := false; gfin := None; gsucc := []; na := O; nb := O;
     dwr := false; jwr := false; stolen_d := false; stolen_j := false; gdet := false;
     late := fun _ => false; bad_late := false; released := false; touched := false; jod := false |}.

Definition iinit (fx g : bool) (progs : list (list jop)) : gst := {| base := init fx g progs; gh := g0 |}.

Inductive ireach (fx g : bool) (progs : list (list jop)) : gst -> Prop :=
| ir_init : ireach fx g progs (iinit fx g progs)
| ir_step x t : ireach fx g progs x -> status_of (base x) t = SReady -> ireach fx g progs (istep x t).

Lemma istep_erase x t : base (istep x t) = fst (step (base x) t).
Proof. reflexivity. Qed.

Lemma ireach_reachable fx g progs x : ireach fx g progs x -> reachable M (init fx g progs) (base x).
Proof.
  induction 1; [constructor|]. cbn [istep base]. now apply (reach_step M (init fx g progs) (base x) t).
Qed.

(* run a schedule on the instrumented machine (ungranted picks are no-ops) *)
Definition igrant (x : gst) (t : nat) : gst :=
  match status_of (base x) t with SReady => istep x t | _ => x end.
Definition irun (x : gst) (sch : list nat) : gst := fold_left igrant sch x.

Lemma ireach_irun fx g progs sch : forall x, ireach fx g progs x -> ireach fx g progs (irun x sch).
Proof.
  induction sch as [|t r IH]; intros x R; cbn; auto. apply IH. unfold igrant.
  destruct (status_of (base x) t) eqn:E; auto. now constructor.
Qed.

(* observations used by the witnesses *)
Definition stack_empty (x : gst) (t : nat) : bool := match stk (base x) t with [] => true | _ => false end.
Definition spinning_cw (x : gst) (t : nat) : bool :=
  match stk (base x) t with
  | CWXchg _ :: _ | YRead :: CWSpin _ :: _ | YNext _ :: CWSpin _ :: _ => true
  | _ => false
  end.

(* ------------------------------------------------------------------ *)
(* Witnesses (vm_compute): what is false of the faithful model.          *)
Definition rep {A} (n : nat) (a : A) : list A := repeat a n.

(* F-C04a, on the model of the code BEFORE the repair 4ff1f32 (first parameter
   of iinit = false): fiber 1 blocks in fiber_join; fiber 2 detaches; the join
   returns SUCCESS / NULL although the target has not even started to finish. *)
Definition wa_progs := [[JFinish 7]; [JJoin]; [JDetach]].
Definition wa_sched := rep 10 1%nat ++ rep 4 2%nat ++ rep 6 1%nat.
Lemma witness_a :
  let x := irun (iinit false true wa_progs) wa_sched in
  gsucc (gh x) = [(1%nat, 0, None)] /\ gfin (gh x) = None /\ dwr (gh x) = true /\ jwr (gh x) = false /\
  stk (base x) 0%nat = [Start; FC (JNext [JFinish 7] 1)].
Proof. vm_compute. repeat split. Qed.

(* the same programs and schedule on the model of the repaired code: the woken
   join returns ERROR (no success is recorded, fiber 1 has returned) *)
Lemma witness_a_repaired :
  let x := irun (iinit true true wa_progs) (rep 10 1%nat ++ rep 5 2%nat ++ rep 6 1%nat) in
  gsucc (gh x) = [] /\ stack_empty x 1 = true /\ gdet (gh x) = true /\ dwr (gh x) = true.
Proof. vm_compute. repeat split. Qed.

(* F-C04c: fiber 1 blocks in fiber_join; the target finishes and exchanges
   WAIT_TO_JOIN -> WAIT_FOR_JOINER; before it picks fiber 1 out of join_info,
   fiber 2's tryjoin sees WAIT_FOR_JOINER, takes fiber 1 out of the slot and
   returns SUCCESS / 7; fiber 1 wakes and returns SUCCESS / NULL; the target
   spins forever in clear_or_wait.  No detach anywhere. *)
Definition wc_progs := [[JFinish 7]; [JJoin]; [JTry]].
Definition wc_sched := rep 10 1%nat ++ rep 4 0%nat ++ rep 7 2%nat ++ rep 7 1%nat ++ rep 40 0%nat.
Lemma witness_c :
  let x := irun (iinit true true wc_progs) wc_sched in
  gsucc (gh x) = [(1%nat, 0, Some 7); (2%nat, 7, Some 7)] /\ dwr (gh x) = false /\ jwr (gh x) = true /\
  spinning_cw x 0 = true /\ reclaims (base x) = 0.
Proof. vm_compute. repeat split. Qed.

(* F-C04b, guarded mode: the target finished first and sleeps; fiber 2's
   tryjoin has read WAIT_FOR_JOINER twice; fiber 1's join completes (SUCCESS / 7),
   the target wakes, becomes DONE and is freed; fiber 2's exchange then hits
   the freed fiber. *)
Definition wb_progs := [[JFinish 7]; [JJoin]; [JTry]].
Definition wb_sched := rep 11 0%nat ++ rep 3 2%nat ++ rep 6 1%nat ++ rep 10 0%nat ++ rep 1 2%nat.
Lemma witness_b :
  let x := irun (iinit true true wb_progs) wb_sched in
  touched (gh x) = true /\ reclaims (base x) = 1 /\ gsucc (gh x) = [(1%nat, 7, Some 7)] /\
  dwr (gh x) = false /\ jwr (gh x) = false.
Proof. vm_compute. repeat split. Qed.

(* F-C04b, second form: fiber 1 sleeps in join, the target hands over its
   result and is freed with detach_state left at WAIT_FOR_JOINER; fiber 2's
   tryjoin (begun while the handle was valid: fiber 1 has not returned yet)
   sees WAIT_FOR_JOINER, "wins" the exchange and spins forever on the empty
   join_info of the freed fiber. *)
Definition wb2_sched := rep 10 1%nat ++ rep 30 0%nat ++ rep 30 2%nat.
Lemma witness_b2 :
  let x := irun (iinit true true wb_progs) wb2_sched in
  touched (gh x) = true /\ reclaims (base x) = 1 /\ spinning_cw x 2 = true /\ gsucc (gh x) = [] /\
  dwr (gh x) = false /\ jwr (gh x) = false.
Proof. vm_compute. repeat split. Qed.

(* F-C04e (what is left of F-C04a after the repair): fiber 1 sleeps in join; the
   target finishes and exchanges WAIT_TO_JOIN -> WAIT_FOR_JOINER; before it picks
   fiber 1 out of join_info, fiber 2's detach takes fiber 1 out (marks it, wakes
   it: its join returns ERROR) and returns SUCCESS; the target spins forever in
   clear_or_wait: a detached, finished fiber that is never reclaimed. *)
Definition we_sched := rep 10 1%nat ++ rep 4 0%nat ++ rep 5 2%nat ++ rep 6 1%nat ++ rep 40 0%nat.
Lemma witness_e :
  let x := irun (iinit true true wa_progs) we_sched in
  gsucc (gh x) = [] /\ gdet (gh x) = true /\ stolen_d (gh x) = true /\ gfin (gh x) = Some 7 /\
  stack_empty x 1 = true /\ stack_empty x 2 = true /\ spinning_cw x 0 = true /\ reclaims (base x) = 0.
Proof. vm_compute. repeat split. Qed.

(* F-C04d: fiber 1's join reads NONE; fiber 2 detaches (SUCCESS); fiber 1
   exchanges WAIT_TO_JOIN over DETACHED and fails; the finishing target then
   finds WAIT_TO_JOIN and waits forever for a joiner that does not exist. *)
Definition wd_progs := [[JFinish 7]; [JJoin]; [JDetach]].
Definition wd_sched := rep 2 1%nat ++ rep 2 2%nat ++ rep 1 1%nat ++ rep 40 0%nat.
Lemma witness_d :
  let x := irun (iinit true true wd_progs) wd_sched in
  jod (gh x) = true /\ gdet (gh x) = true /\ spinning_cw x 0 = true /\ reclaims (base x) = 0 /\
  stack_empty x 1 = true /\ stack_empty x 2 = true /\ dwr (gh x) = false.
Proof. vm_compute. repeat split. Qed.

(* ------------------------------------------------------------------ *)
(* The invariant.                                                      *)
Lemma tid_fname s : tid_of_name (fname s) = s.
Proof. unfold tid_of_name, fname, Zn. replace (1000 + Z.of_nat s - 1000) with (Z.of_nat s) by lia. apply Nat2Z.id. Qed.
Lemma fname_nz s : fname s <> 0.
Proof. unfold fname, Zn. lia. Qed.
Lemma fname_eqb s : (fname s =? 0) = false.
Proof. apply Z.eqb_neq, fname_nz. Qed.

Definition gm (x : gst) : kmem := mem (base x).
Definition run (x : gst) (t : nat) : Prop :=
  fstate (gm x) t = ST_RUNNING /\ blocked (gm x) t = false /\ slot_wait (gm x) t = None.
(* the target before its result store *)
Definition tpre (x : gst) (t : nat) : Prop :=
  t = tgt -> gfin (gh x) = None /\ ds_of (base x) <> D_WFJ.
Definition idle (x : gst) (t : nat) : Prop := run x t /\ tpre x t.
Definition nostolen (x : gst) : Prop := stolen_j (gh x) = false.
(* the mailbox of a joiner that was woken holds the target's value, or the mark of a detach *)
Definition mail_val (x : gst) (t : nat) : Prop :=
  nostolen x -> exists R, gfin (gh x) = Some R /\ cell (gm x) (c_res t) = R.
Definition mail_ok (x : gst) (t : nat) : Prop :=
  nostolen x -> (exists R, gfin (gh x) = Some R /\ cell (gm x) (c_res t) = R) \/ cell (gm x) (c_res t) = SENT.
(* what the taker's store left in the mailbox of the sleeper it took *)
Definition given (x : gst) (t : nat) : Prop :=
  forall u, mb (gh x) = MBTaken t u ->
    (u = tgt -> exists R, gfin (gh x) = Some R /\ cell (gm x) (c_res t) = R) /\
    (u <> tgt -> cell (gm x) (c_res t) = SENT).
Definition taken_by_any (x : gst) (t : nat) : Prop := exists u, mb (gh x) = MBTaken t u.

(* who may sleep in the slot: continuation X of fiber t *)
Definition sleeperX (x : gst) (t : nat) (X : jc) : Prop :=
  (t = tgt /\ X = TWoke /\ gfin (gh x) <> None) \/
  (t <> tgt /\ (exists p k, X = JWoke p k) /\ na (gh x) = O /\ late (gh x) t = false).
(* who may be in clear_or_wait *)
Definition cwX (x : gst) (t : nat) (X : jc) : Prop :=
  (t = tgt /\ X = TTook /\ gfin (gh x) <> None /\ released (gh x) = true) \/
  (t <> tgt /\ (exists p k r, X = JTook p k r /\ gfin (gh x) = Some r) /\ released (gh x) = true /\
     (is_reg (mb (gh x)) = true -> jwr (gh x) = true)) \/
  (t <> tgt /\ (exists p k, X = DTook p k) /\ released (gh x) = true /\
     (is_reg (mb (gh x)) = true -> dwr (gh x) = true)).
(* the target once it is on its way to DONE *)
Definition tfin (x : gst) : Prop := gfin (gh x) <> None /\ released (gh x) = true.
Definition tdone_st (x : gst) : Prop :=
  fstate (gm x) tgt = ST_DONE /\ blocked (gm x) tgt = false /\ slot_wait (gm x) tgt = None /\
  tfin x.

Inductive tshape (x : gst) (t : nat) : stack jc -> Prop :=
| sh_start p k : blocked (gm x) t = false -> slot_wait (gm x) t = None -> tpre x t ->
    tshape x t [Start; FC (JNext p k)]
| sh_done : tshape x t []
| sh_y1 p k : idle x t -> tshape x t [YRead; FC (JYielded p k)]
| sh_y2 p k : idle x t -> tshape x t [YNext ST_RUNNING; FC (JYielded p k)]
(* target: fiber_mark_completed *)
| sh_tstore r : t = tgt -> idle x t -> tshape x t [CStoreC (c_res tgt) r 3; FC TStored]
| sh_tload : t = tgt -> run x t -> gfin (gh x) <> None -> ds_of (base x) <> D_WFJ ->
    tshape x t [CLoadC c_ds 5; FC TLoaded]
| sh_txchg : t = tgt -> run x t -> gfin (gh x) <> None -> ds_of (base x) <> D_WFJ ->
    tshape x t [CXchgC c_ds D_WFJ 5; FC TXchg]
(* set_and_wait + the yield that switches away + the resumption *)
| sh_sw X : run x t -> mb (gh x) = MBPending t -> sleeperX x t X ->
    tshape x t [SWState c_ji (fname t); FC X]
| sh_s1 X : fstate (gm x) t = ST_WAITING -> blocked (gm x) t = false ->
    slot_wait (gm x) t = Some (c_ji, fname t) -> mb (gh x) = MBPending t -> sleeperX x t X ->
    tshape x t [YRead; FC X]
| sh_s2 X : fstate (gm x) t = ST_WAITING -> blocked (gm x) t = false ->
    slot_wait (gm x) t = Some (c_ji, fname t) -> mb (gh x) = MBPending t -> sleeperX x t X ->
    tshape x t [YNext ST_WAITING; FC X]
| sh_s3 X : fstate (gm x) t = ST_WAITING -> blocked (gm x) t = false ->
    slot_wait (gm x) t = Some (c_ji, fname t) -> mb (gh x) = MBPending t -> sleeperX x t X ->
    tshape x t [SwRead; YLoop; FC X]
| sh_s4 X : fstate (gm x) t = ST_WAITING -> blocked (gm x) t = false ->
    slot_wait (gm x) t = Some (c_ji, fname t) -> mb (gh x) = MBPending t -> sleeperX x t X ->
    tshape x t [SwDone; YLoop; FC X]
| sh_s5 X : fstate (gm x) t = ST_WAITING -> blocked (gm x) t = false ->
    slot_wait (gm x) t = Some (c_ji, fname t) -> mb (gh x) = MBPending t -> sleeperX x t X ->
    tshape x t [MRead; YLoop; FC X]
| sh_s6 X : fstate (gm x) t = ST_WAITING -> blocked (gm x) t = false ->
    slot_wait (gm x) t = None -> mb (gh x) = MBPending t -> sleeperX x t X ->
    tshape x t [MSetWait c_ji (fname t); YLoop; FC X]
| sh_s7 X : slot_wait (gm x) t = None -> blocked (gm x) t = negb (woken (gh x)) ->
    ((mb (gh x) = MBFull t /\ woken (gh x) = false) \/ taken_by_any x t) ->
    (woken (gh x) = true -> t <> tgt -> mail_ok x t) ->
    (gave (gh x) = true -> given x t) ->
    sleeperX x t X ->
    tshape x t [Asleep; YLoop; FC X]
| sh_s8 X : slot_wait (gm x) t = None -> blocked (gm x) t = false -> taken_by_any x t ->
    woken (gh x) = true -> (t <> tgt -> mail_ok x t) -> sleeperX x t X ->
    tshape x t [Resume; YLoop; FC X]
| sh_s9 X : run x t -> taken_by_any x t -> woken (gh x) = true -> (t <> tgt -> mail_ok x t) -> sleeperX x t X ->
    tshape x t [YRead; FC X]
| sh_s10 X : run x t -> taken_by_any x t -> woken (gh x) = true -> (t <> tgt -> mail_ok x t) -> sleeperX x t X ->
    tshape x t [YNext ST_RUNNING; FC X]
(* clear_or_wait *)
| sh_c0 X : run x t -> cwX x t X -> tshape x t [CWXchg c_ji; FC X]
| sh_c1 X : run x t -> cwX x t X -> tshape x t [YRead; CWSpin c_ji; FC X]
| sh_c2 X : run x t -> cwX x t X -> tshape x t [YNext ST_RUNNING; CWSpin c_ji; FC X]
(* target hands its result to the joiner it took out of the slot *)
| sh_tread j : t = tgt -> run x t -> mb (gh x) = MBTaken j tgt -> woken (gh x) = false -> gave (gh x) = false ->
    j <> tgt -> tfin x -> tshape x t [CLoadC (c_res tgt) 5; FC (TReadRes j)]
| sh_tgive j v : t = tgt -> run x t -> mb (gh x) = MBTaken j tgt -> woken (gh x) = false -> gave (gh x) = false ->
    j <> tgt -> tfin x -> gfin (gh x) = Some v -> tshape x t [CStoreC (c_res j) v 5; FC (TGave j)]
| sh_tready j : t = tgt -> run x t -> mb (gh x) = MBTaken j tgt -> woken (gh x) = false -> gave (gh x) = true ->
    j <> tgt -> tfin x -> tshape x t [FStWrite j ST_READY; FC (TReady j)]
(* target: state = DONE; done_fiber = self; yield; destroyed *)
| sh_tdonew : t = tgt -> run x t -> tfin x -> tshape x t [FStWrite tgt ST_DONE; FC TDoneW]
| sh_ty1 : t = tgt -> tdone_st x -> tshape x t [FStRead tgt; FC TY1]
| sh_ty2 : t = tgt -> tdone_st x -> tshape x t [YNext ST_RUNNING; FC TY2]
| sh_ty3 : t = tgt -> tdone_st x -> tshape x t [FStRead tgt; FC TY3]
| sh_ty4 : t = tgt -> tdone_st x -> tshape x t [FStRead tgt; FC TY4]
| sh_ty5 : t = tgt -> tdone_st x -> tshape x t [FStRead tgt; FC TY5]
(* fiber_join *)
| sh_jload p k : t <> tgt -> run x t -> tshape x t [CLoadC c_ds 5; FC (JLoaded p k)]
| sh_jxchg p k : t <> tgt -> run x t -> tshape x t [CXchgC c_ds D_WTJ 5; FC (JXchg p k)]
| sh_jchk p k : t <> tgt -> run x t -> taken_by_any x t -> woken (gh x) = true -> mail_ok x t ->
    na (gh x) = O -> late (gh x) t = false -> tshape x t [CLoadC (c_res t) 5; FC (JChk p k)]
| sh_jdetd p k : t <> tgt -> run x t -> tshape x t [CStoreC (c_res t) 0 5; FC (JDetd p k)]
| sh_jmail p k : t <> tgt -> run x t -> taken_by_any x t -> woken (gh x) = true -> mail_val x t ->
    na (gh x) = O -> late (gh x) t = false -> tshape x t [CLoadC (c_res t) 5; FC (JMail p k)]
| sh_jclear p k v : t <> tgt -> run x t -> taken_by_any x t -> woken (gh x) = true ->
    (nostolen x -> gfin (gh x) = Some v) ->
    na (gh x) = O -> late (gh x) t = false -> tshape x t [CStoreC (c_res t) 0 5; FC (JCleared p k v)]
| sh_jreadres p k : t <> tgt -> run x t -> gfin (gh x) <> None -> released (gh x) = true ->
    (is_reg (mb (gh x)) = true -> jwr (gh x) = true) -> tshape x t [CLoadC (c_res tgt) 5; FC (JReadRes p k)]
| sh_jready p k r j : t <> tgt -> run x t -> mb (gh x) = MBTaken j t -> woken (gh x) = false ->
    gfin (gh x) = Some r -> nb (gh x) = O -> late (gh x) t = false ->
    (j <> tgt -> stolen_j (gh x) = true) ->
    tshape x t [FStWrite j ST_READY; FC (JReady p k r j)]
(* fiber_tryjoin *)
| sh_trl1 p k : t <> tgt -> run x t -> tshape x t [CLoadC c_ds 5; FC (TrL1 p k)]
| sh_trl2 p k : t <> tgt -> run x t -> tshape x t [CLoadC c_ds 5; FC (TrL2 p k)]
| sh_trx p k : t <> tgt -> run x t -> ds_of (base x) <> D_NONE -> tshape x t [CXchgC c_ds D_WTJ 5; FC (TrX p k)]
(* fiber_detach *)
| sh_dx p k : t <> tgt -> run x t -> tshape x t [CXchgC c_ds D_DET 5; FC (DX p k)]
| sh_dsent p k j : t <> tgt -> run x t -> mb (gh x) = MBTaken j t -> woken (gh x) = false ->
    gave (gh x) = false -> j <> tgt -> tshape x t [CStoreC (c_res j) SENT 5; FC (DSent p k j)]
| sh_dready p k j : t <> tgt -> run x t -> mb (gh x) = MBTaken j t -> woken (gh x) = false ->
    (j <> tgt -> gave (gh x) = true) ->
    tshape x t [FStWrite j ST_READY; FC (DReady p k j)].

Definition succ_ok (x : gst) (e : nat * Z * option Z) : Prop :=
  nostolen x -> snd e = Some (snd (fst e)).

Record G (x : gst) : Prop := {
  g_ds : ds_of (base x) = D_NONE \/ ds_of (base x) = D_WFJ \/ ds_of (base x) = D_WTJ \/ ds_of (base x) = D_DET;
  g_mb : match mb (gh x) with
         | MBNone => ds_of (base x) = D_NONE /\ ji_of (base x) = 0
         | MBFull s => ds_of (base x) <> D_NONE /\ ji_of (base x) = fname s
         | _ => ds_of (base x) <> D_NONE /\ ji_of (base x) = 0
         end;
  g_fin : forall R, gfin (gh x) = Some R -> cell (gm x) (c_res tgt) = R;
  g_wfj : ds_of (base x) = D_WFJ -> gfin (gh x) <> None;
  g_rel : ds_of (base x) = D_WTJ \/ ds_of (base x) = D_DET \/ mb (gh x) = MBNever \/
          (exists s u, mb (gh x) = MBTaken s u) -> released (gh x) = true;
  g_relmb : released (gh x) = true -> mb (gh x) <> MBNone;
  g_k : forall t, pend (gm x) t = O /\ slot_sched (gm x) t = false /\ slot_mutex (gm x) t = None /\
                  slot_mpmc (gm x) t = None;
  g_asleep : forall s u, mb (gh x) = MBTaken s u -> woken (gh x) = false ->
             exists X, stk (base x) s = [Asleep; YLoop; FC X];
  g_full : forall s, mb (gh x) = MBFull s -> exists X, stk (base x) s = [Asleep; YLoop; FC X];
  g_woken : woken (gh x) = true -> exists s u, mb (gh x) = MBTaken s u;
  g_gave : gave (gh x) = true -> exists s u, mb (gh x) = MBTaken s u;
  g_fx : fxd (base x) = true;
  g_taken : forall s u, mb (gh x) = MBTaken s u -> s <> u /\
            (s <> tgt -> u <> tgt -> stolen_d (gh x) = true \/ stolen_j (gh x) = true);
  g_std : stolen_d (gh x) = true -> dwr (gh x) = true;
  g_stj : stolen_j (gh x) = true -> jwr (gh x) = true;
  g_det : gdet (gh x) = true -> mb (gh x) = MBNever \/ exists s u, mb (gh x) = MBTaken s u;
  g_late : forall t, late (gh x) t = true -> gdet (gh x) = true;
  g_len : length (gsucc (gh x)) = (na (gh x) + nb (gh x))%nat;
  g_na : (na (gh x) <= 1)%nat /\ ((1 <= na (gh x))%nat -> exists s u, mb (gh x) = MBTaken s u /\ s <> tgt);
  g_nb : (nb (gh x) <= 1)%nat /\
         ((1 <= nb (gh x))%nat -> exists s u, mb (gh x) = MBTaken s u /\ (s <> tgt -> stolen_j (gh x) = true));
  g_succ : forall e, In e (gsucc (gh x)) -> succ_ok x e;
  g_badlate : bad_late (gh x) = false;
  g_recl : reclaims (base x) = 0 \/
           (reclaims (base x) = 1 /\ stk (base x) tgt = [] /\ fstate (gm x) tgt = ST_DONE /\ tfin x)
}.

Record Inv (x : gst) : Prop := {
  i_g : G x;
  i_sh : forall t, tshape x t (stk (base x) t)
}.

(* what one step of fiber t may change for the others *)
Record rely (x x' : gst) (t : nat) : Prop := {
  r_stk : forall u, u <> t -> stk (base x') u = stk (base x) u;
  r_mb : mb (gh x') = mb (gh x) \/
         (mb (gh x) = MBNone /\ (mb (gh x') = MBNever \/ mb (gh x') = MBPending t)) \/
         (mb (gh x) = MBPending t /\ mb (gh x') = MBFull t) \/
         (exists s, mb (gh x) = MBFull s /\ mb (gh x') = MBTaken s t /\ woken (gh x) = false);
  r_wk : (woken (gh x') = woken (gh x) /\ forall u, u <> t -> blocked (gm x') u = blocked (gm x) u) \/
         (woken (gh x) = false /\ woken (gh x') = true /\ mb (gh x') = mb (gh x) /\
          exists s, mb (gh x) = MBTaken s t /\ (s <> tgt -> nostolen x -> gave (gh x) = true) /\
                    blocked (gm x') s = false /\
                    forall u, u <> t -> u <> s -> blocked (gm x') u = blocked (gm x) u);
  r_fst : forall u, u <> t -> fstate (gm x') u = fstate (gm x) u \/
                              (mb (gh x) = MBTaken u t /\ woken (gh x) = false);
  r_slot : forall u, u <> t -> slot_wait (gm x') u = slot_wait (gm x) u;
  r_gfin : gfin (gh x') = gfin (gh x) \/ (t = tgt /\ gfin (gh x) = None);
  r_ds : ds_of (base x') = ds_of (base x) \/ ds_of (base x') = D_WTJ \/ ds_of (base x') = D_DET \/
         (t = tgt /\ ds_of (base x') = D_WFJ);
  r_cell : (gave (gh x') = gave (gh x) /\ forall u, u <> t -> cell (gm x') (c_res u) = cell (gm x) (c_res u)) \/
           (gave (gh x) = false /\ gave (gh x') = true /\ woken (gh x) = false /\
            exists j, mb (gh x) = MBTaken j t /\
                      ((t = tgt /\ exists R, gfin (gh x) = Some R /\ cell (gm x') (c_res j) = R) \/
                       (t <> tgt /\ cell (gm x') (c_res j) = SENT)) /\
                      forall u, u <> j -> cell (gm x') (c_res u) = cell (gm x) (c_res u));
  r_na : na (gh x') = na (gh x) \/ taken_by_any x t;
  r_nb : nb (gh x') = nb (gh x) \/ exists s, mb (gh x) = MBTaken s t;
  r_late : forall u, u <> t -> late (gh x') u = late (gh x) u;
  r_sd : stolen_d (gh x) = true -> stolen_d (gh x') = true;
  r_sj : stolen_j (gh x) = true -> stolen_j (gh x') = true;
  r_dwr : dwr (gh x) = true -> dwr (gh x') = true;
  r_jwr : jwr (gh x) = true -> jwr (gh x') = true;
  r_rel : released (gh x) = true -> released (gh x') = true
}.

Section Stable.
  Variables (x x' : gst) (t u : nat).
  Hypothesis HG : G x.
  Hypothesis HR : rely x x' t.
  Hypothesis Hut : u <> t.

  Lemma st_mb_pending : mb (gh x) = MBPending u -> mb (gh x') = MBPending u.
  Proof.
    intros H. destruct (r_mb _ _ _ HR) as [E|[[E _]|[[E _]|[s [E _]]]]]; try congruence.
  Qed.

  Lemma st_mb_taken s v : mb (gh x) = MBTaken s v -> mb (gh x') = MBTaken s v.
  Proof.
    intros H. destruct (r_mb _ _ _ HR) as [E|[[E _]|[[E _]|[s' [E _]]]]]; try congruence.
  Qed.

  Lemma st_taken_any : taken_by_any x u -> taken_by_any x' u.
  Proof. intros [v H]. exists v. now apply st_mb_taken. Qed.

  Lemma st_gfin_some R : gfin (gh x) = Some R -> gfin (gh x') = Some R.
  Proof. intros H. destruct (r_gfin _ _ _ HR) as [E|[_ E]]; congruence. Qed.

  Lemma st_gfin_nn : gfin (gh x) <> None -> gfin (gh x') <> None.
  Proof. intros H. destruct (r_gfin _ _ _ HR) as [E|[_ E]]; congruence. Qed.

  Lemma st_woken : woken (gh x) = true -> woken (gh x') = true.
  Proof. intros H. destruct (r_wk _ _ _ HR) as [[E _]|[E _]]; congruence. Qed.

  Lemma st_nostolen : nostolen x' -> nostolen x.
  Proof.
    unfold nostolen. intros B.
    destruct (stolen_j (gh x)) eqn:E; auto. rewrite (r_sj _ _ _ HR E) in B. discriminate.
  Qed.

  Lemma st_tfin : tfin x -> tfin x'.
  Proof. intros [A B]. split; [now apply st_gfin_nn | now apply (r_rel _ _ _ HR)]. Qed.

  (* u is not the fiber asleep in the slot *)
  Hypothesis Hna : forall X, stk (base x) u <> [Asleep; YLoop; FC X].

  Lemma st_fstate : fstate (gm x') u = fstate (gm x) u.
  Proof.
    destruct (r_fst _ _ _ HR u Hut) as [E|[E W]]; auto.
    destruct (g_asleep _ HG _ _ E W) as [X HX]. now apply Hna in HX.
  Qed.

  Lemma st_blocked : blocked (gm x') u = blocked (gm x) u.
  Proof.
    destruct (r_wk _ _ _ HR) as [[_ E]|[W [_ [_ [s [E [_ [_ B]]]]]]]]; auto.
    destruct (Nat.eq_dec u s) as [->|N]; auto.
    destruct (g_asleep _ HG _ _ E W) as [X HX]. now apply Hna in HX.
  Qed.

  Lemma st_run : run x u -> run x' u.
  Proof.
    intros [A [B C]]. unfold run. rewrite st_fstate, st_blocked, (r_slot _ _ _ HR u Hut). auto.
  Qed.

  Lemma st_tpre : tpre x u -> tpre x' u.
  Proof.
    intros H E. destruct (H E) as [A B]. split.
    - destruct (r_gfin _ _ _ HR) as [F|[F _]]; congruence.
    - destruct (r_ds _ _ _ HR) as [F|[F|[F|[F _]]]]; unfold D_WFJ, D_WTJ, D_DET in *; try congruence; lia.
  Qed.

  Lemma st_idle : idle x u -> idle x' u.
  Proof. intros [A B]. split; [now apply st_run | now apply st_tpre]. Qed.

  Lemma st_cell : woken (gh x) = true -> cell (gm x') (c_res u) = cell (gm x) (c_res u).
  Proof.
    intros W. destruct (r_cell _ _ _ HR) as [[_ E]|[_ [_ [W' _]]]]; auto. congruence.
  Qed.

  Lemma st_mail : woken (gh x) = true -> mail_ok x u -> mail_ok x' u.
  Proof.
    intros W H NS. destruct (H (st_nostolen NS)) as [[R [A B]]|B].
    - left. exists R. split; [now apply st_gfin_some | now rewrite st_cell].
    - right. now rewrite st_cell.
  Qed.
  Lemma st_mailv : woken (gh x) = true -> mail_val x u -> mail_val x' u.
  Proof.
    intros W H NS. destruct (H (st_nostolen NS)) as [R [A B]].
    exists R. split; [now apply st_gfin_some | now rewrite st_cell].
  Qed.
End Stable.

Section Stable2.
  Variables (x x' : gst) (t u : nat).
  Hypothesis HG : G x.
  Hypothesis HR : rely x x' t.
  Hypothesis Hut : u <> t.

  Lemma st_sleeper X : ~ taken_by_any x t -> sleeperX x u X -> sleeperX x' u X.
  Proof.
    intros NT [[A [B C]]|[A [B [C D]]]]; [left|right]; repeat split; auto.
    - eapply st_gfin_nn; eauto.
    - destruct (r_na _ _ _ HR) as [E|E]; [congruence | contradiction].
    - now rewrite (r_late _ _ _ HR u Hut).
  Qed.

  Lemma st_isreg (P : Prop) : released (gh x) = true ->
    (is_reg (mb (gh x)) = true -> P) -> is_reg (mb (gh x')) = true -> P.
  Proof.
    intros Rl H H'. apply H.
    destruct (r_mb _ _ _ HR) as [E|[[E _]|[[E F]|[s [E [F _]]]]]].
    - now rewrite <- E.
    - now apply (g_relmb _ HG) in Rl.
    - rewrite E. rewrite F in H'. exact H'.
    - rewrite F in H'. discriminate.
  Qed.

  Lemma st_cw X : cwX x u X -> cwX x' u X.
  Proof.
    intros [[A [B [C D]]]|[[A [[p [k [r [B B']]]] [C D]]]|[A [B [C D]]]]].
    - left. repeat split; auto. eapply st_gfin_nn; eauto. now apply (r_rel _ _ _ HR).
    - right; left. repeat split; auto.
      + exists p, k, r. split; auto. eapply st_gfin_some; eauto.
      + now apply (r_rel _ _ _ HR).
      + intros H. apply (r_jwr _ _ _ HR). revert H. now apply st_isreg.
    - right; right. repeat split; auto.
      + now apply (r_rel _ _ _ HR).
      + intros H. apply (r_dwr _ _ _ HR). revert H. now apply st_isreg.
  Qed.

  Lemma st_tdone : (forall X, stk (base x) u <> [Asleep; YLoop; FC X]) -> u = tgt -> tdone_st x -> tdone_st x'.
  Proof.
    intros Hna -> [A [B [C D]]]. unfold tdone_st.
    rewrite (st_fstate x x' t tgt HG HR Hut Hna), (st_blocked x x' t tgt HG HR Hut Hna), (r_slot _ _ _ HR tgt Hut).
    split; [|split; [|split]]; auto. eapply st_tfin; eauto.
  Qed.
End Stable2.

Section Stable3.
  Variables (x x' : gst) (t u : nat).
  Hypothesis HG : G x.
  Hypothesis HR : rely x x' t.
  Hypothesis Hut : u <> t.

  Lemma st_woken_false j : mb (gh x) = MBTaken j u -> woken (gh x) = false -> woken (gh x') = false.
  Proof.
    intros E W. destruct (r_wk _ _ _ HR) as [[F _]|[_ [_ [_ [s [F _]]]]]]; congruence.
  Qed.
  Lemma st_gave_eq j : mb (gh x) = MBTaken j u -> gave (gh x') = gave (gh x).
  Proof. intros E. destruct (r_cell _ _ _ HR) as [[F _]|[_ [_ [_ [j' [F _]]]]]]; congruence. Qed.
  Lemma st_na : ~ taken_by_any x t -> na (gh x') = na (gh x).
  Proof. intros N. destruct (r_na _ _ _ HR) as [E|E]; [auto | contradiction]. Qed.
  Lemma st_na_taken : taken_by_any x u -> na (gh x') = na (gh x).
  Proof. intros [v E]. apply st_na. intros [w F]. congruence. Qed.
  Lemma st_nb j : mb (gh x) = MBTaken j u -> nb (gh x') = nb (gh x).
  Proof. intros E. destruct (r_nb _ _ _ HR) as [F|[s F]]; [auto | congruence]. Qed.
  Lemma st_ds_nwfj : u = tgt -> ds_of (base x) <> D_WFJ -> ds_of (base x') <> D_WFJ.
  Proof.
    intros E N. destruct (r_ds _ _ _ HR) as [F|[F|[F|[F _]]]]; unfold D_WFJ, D_WTJ, D_DET in *; try congruence; lia.
  Qed.
  Lemma st_ds_nz : ds_of (base x) <> D_NONE -> ds_of (base x') <> D_NONE.
  Proof.
    intros N. destruct (r_ds _ _ _ HR) as [F|[F|[F|[_ F]]]]; unfold D_NONE, D_WFJ, D_WTJ, D_DET in *; try congruence; lia.
  Qed.
  Lemma st_late : late (gh x') u = late (gh x) u.
  Proof. now apply (r_late _ _ _ HR). Qed.
  Lemma st_nt_taken : taken_by_any x u -> ~ taken_by_any x t.
  Proof. intros [v E] [w F]. congruence. Qed.
  Lemma st_nt_full : mb (gh x) = MBFull u -> ~ taken_by_any x t.
  Proof. intros E [w F]. congruence. Qed.
  Lemma st_nt_pending : mb (gh x) = MBPending u -> ~ taken_by_any x t.
  Proof. intros E [w F]. congruence. Qed.
End Stable3.

Section Stable4.
  Variables (x x' : gst) (t u : nat).
  Hypothesis HG : G x.
  Hypothesis HR : rely x x' t.
  Hypothesis Hut : u <> t.
  Hypothesis Hna : forall X, stk (base x) u <> [Asleep; YLoop; FC X].
  Lemma st_blocked_v v : blocked (gm x) u = v -> blocked (gm x') u = v.
  Proof. intros <-. eapply st_blocked; eauto. Qed.
  Lemma st_fstate_v v : fstate (gm x) u = v -> fstate (gm x') u = v.
  Proof. intros <-. eapply st_fstate; eauto. Qed.
End Stable4.
Section Stable5.
  Variables (x x' : gst) (t u : nat).
  Hypothesis HG : G x.
  Hypothesis HR : rely x x' t.
  Hypothesis Hut : u <> t.
  Lemma st_slot_v v : slot_wait (gm x) u = v -> slot_wait (gm x') u = v.
  Proof. intros <-. now apply (r_slot _ _ _ HR). Qed.
  Lemma st_na0 : ~ taken_by_any x t -> na (gh x) = O -> na (gh x') = O.
  Proof. intros N <-. eapply st_na; eauto. Qed.
  Lemma st_nb0 j : mb (gh x) = MBTaken j u -> nb (gh x) = O -> nb (gh x') = O.
  Proof. intros E <-. eapply st_nb; eauto. Qed.
  Lemma st_late_v v : late (gh x) u = v -> late (gh x') u = v.
  Proof. intros <-. now apply (r_late _ _ _ HR). Qed.
  Lemma st_gave_v j v : mb (gh x) = MBTaken j u -> gave (gh x) = v -> gave (gh x') = v.
  Proof. intros E <-. eapply st_gave_eq; eauto. Qed.
  Lemma st_gave_imp (P : Prop) j : mb (gh x) = MBTaken j u -> (P -> gave (gh x) = true) -> P -> gave (gh x') = true.
  Proof. intros E H HP. erewrite st_gave_eq; eauto. Qed.
  Lemma st_sj_imp (P : Prop) : (P -> stolen_j (gh x) = true) -> P -> stolen_j (gh x') = true.
  Proof. intros H HP. apply (r_sj _ _ _ HR). auto. Qed.
  Lemma st_released : released (gh x) = true -> released (gh x') = true.
  Proof. apply (r_rel _ _ _ HR). Qed.
  Lemma st_jwr_reg : released (gh x) = true -> (is_reg (mb (gh x)) = true -> jwr (gh x) = true) ->
    is_reg (mb (gh x')) = true -> jwr (gh x') = true.
  Proof. intros Rl H H'. apply (r_jwr _ _ _ HR). revert H'. eapply st_isreg; eauto. Qed.
  Lemma st_val v : (nostolen x -> gfin (gh x) = Some v) -> nostolen x' -> gfin (gh x') = Some v.
  Proof. intros H NS. eapply st_gfin_some; eauto. apply H. eapply st_nostolen; eauto. Qed.
End Stable5.

Ltac not_asleep Hs := let X := fresh in let H := fresh in intros X H; rewrite Hs in H; discriminate H.

Lemma stable x x' t u stku : G x -> rely x x' t -> u <> t -> stk (base x) u = stku ->
  tshape x u stku -> tshape x' u stku.
Proof.
  intros HG HR Hut Hs H.
  destruct H.
  all: try (assert (Hna : forall X, stk (base x) u <> [Asleep; YLoop; FC X]) by not_asleep Hs).
  all: try (econstructor; eauto 6 using st_run, st_idle, st_tpre, st_gfin_nn, st_gfin_some, st_mb_pending,
              st_mb_taken, st_taken_any, st_woken, st_cw, st_tfin, st_tdone, st_sleeper, st_mail, st_mailv, st_gave_imp,
              st_blocked_v, st_fstate_v, st_slot_v, st_na0, st_nb0, st_late_v, st_gave_v, st_released,
              st_jwr_reg, st_val, st_woken_false, st_sj_imp, st_ds_nwfj, st_ds_nz, st_nt_taken, st_nt_full,
              st_nt_pending; fail).
  all: try (subst u; econstructor; eauto 6 using st_run, st_gfin_some, st_mb_taken, st_tfin, st_gave_v,
              st_woken_false; fail).
  (* the fiber asleep in the slot *)
  assert (NT : ~ taken_by_any x t).
  { destruct H1 as [[E _]|E]; [eapply st_nt_full | eapply st_nt_taken]; eauto. }
  constructor.
  - eapply st_slot_v; eauto.
  - destruct (r_wk _ _ _ HR) as [[E F]|[W [W' [_ [s [E [_ [B _]]]]]]]].
    + now rewrite E, F.
    + destruct H1 as [[E1 _]|[w E1]]; [congruence|].
      assert (s = u) by congruence. subst s. now rewrite B, W'.
  - destruct H1 as [[E W]|E].
    + destruct (r_mb _ _ _ HR) as [F|[[F _]|[[F _]|[s [F [F' _]]]]]]; try congruence.
      * left. split; [congruence|].
        destruct (r_wk _ _ _ HR) as [[Q _]|[_ [_ [_ [s [Q _]]]]]]; congruence.
      * right. exists t. congruence.
    + right. eapply st_taken_any; eauto.
  - intros W' Nt. destruct (woken (gh x)) eqn:W.
    + eapply st_mail; eauto.
    + destruct (r_wk _ _ _ HR) as [[Q _]|[_ [_ [_ [s [E [Gv _]]]]]]]; [congruence|].
      destruct H1 as [[E1 _]|[w E1]]; [congruence|].
      assert (s = u) by congruence. subst s. assert (w = t) by congruence. subst w.
      intros NS. pose proof (st_nostolen _ _ _ HR NS) as NS0.
      destruct (H3 (Gv Nt NS0) _ E) as [GA GB].
      assert (C : cell (gm x') (c_res u) = cell (gm x) (c_res u)).
      { destruct (r_cell _ _ _ HR) as [[_ C]|[C _]]; [now apply C | rewrite (Gv Nt NS0) in C; discriminate]. }
      destruct (Nat.eq_dec t tgt) as [Et|Nt'].
      * destruct (GA Et) as [R [A B]]. left. exists R. split; [eapply st_gfin_some; eauto | now rewrite C].
      * right. rewrite C. now apply GB.
  - intros Gv' w E'.
    destruct (r_cell _ _ _ HR) as [[Gq C]|[Gf [_ [_ [j [E [V C]]]]]]].
    + assert (E0 : mb (gh x) = MBTaken u w).
      { destruct (r_mb _ _ _ HR) as [F|[[F [F'|F']]|[[F F']|[s [F [F' _]]]]]]; try congruence.
        rewrite Gq in Gv'. destruct (g_gave _ HG Gv') as [s' [u' Q]]. congruence. }
      rewrite Gq in Gv'. destruct (H3 Gv' _ E0) as [GA GB]. rewrite (C u Hut). split.
      * intros Ew. destruct (GA Ew) as [R [A B]]. exists R. split; [eapply st_gfin_some; eauto | exact B].
      * exact GB.
    + pose proof (st_mb_taken _ _ _ HR _ _ E) as E2. assert (j = u) by congruence. subst j.
      assert (w = t) by congruence. subst w.
      destruct V as [[Et [R [A B]]]|[Nt' B]]; split; intros Q; try contradiction.
      * exists R. split; [eapply st_gfin_some; eauto | exact B].
      * exact B.
  - eapply st_sleeper; eauto.
Qed.
