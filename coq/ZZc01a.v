From Coq Require Import List Arith Lia Bool.
From LF Require Import Conc Kernel KernelInv.
Lemma pres_write_saving n s t f s' : KInv n s -> t < n -> kstep s (LWrite t f FSaving) = Some s' -> KInv n s'.
Proof. intros I Ht H. start H s'. Show. 
 all: constructor. 
 Time all: try (timeout 20 (clause n s I)). Show.
Abort.
