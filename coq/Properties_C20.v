(* C20 - double-word-CAS structures are ABA-safe: mpmc_lifo.h (coq/Lifo.v),
   mpmc_stack.h (coq/MStack.v), dist_fifo.h (coq/DistFifo.v) and the
   multi-waiter signal of fiber_signal.h (coq/MultiSignal.v).
   Every statement is over every reachable state of the (instrumented) model:
   any number of threads, any programs respecting node ownership, any schedule,
   immediate adversarial node reuse.  [ireach] is reachability of the model
   instrumented with ghost state (its erasure is the executable model:
   [lstep_erase], [reachable_ireach]).
   Guard (all counters): unbounded Z, i.e. fewer than 2^64 successful updates
   between a thread's counter load and its DCAS. *)
From Coq Require Import List ZArith Arith.
From LF Require Import Conc DcasLib.
From LF Require Lifo LifoProofs MStack MStackProofs DistFifo DistFifoProofs MultiSignal MultiSignalProofs.
Import ListNotations.

(* ====================================================================== *)
(* LIFO (mpmc_lifo.h)                                                     *)
Module L.
Import Lifo LifoProofs.

(* ver x = number of successful DCAS so far; sver x t = ver when thread t last
   loaded the counter.  If the counter word the DCAS compares is equal to the
   thread's snapshot, then no DCAS succeeded since the snapshot's counter load
   (sver = ver) and everything the thread read afterwards is still current:
   the head, and the [next] it wrote (push) or read from the head node (pop);
   for pop the head node is the top of the abstract stack and the value it
   installs is the rest of the stack. *)
Theorem lifo_dcas_snapshot_valid : forall k start progs x t,
  ireach k start progs x ->
  let s := base x in let T := thr s t in
  ctr s = sc T ->
  (pc T = PCas ->
     sver x t = ver x /\ head s = sh T /\ next s (node T) = sh T /\
     In (node T) (own T) /\ ~ In (node T) (stk x)) /\
  (pc T = QCas ->
     sver x t = ver x /\ head s = sh T /\ next s (sh T) = sn T /\
     exists r, stk x = sh T :: r /\ chain (next s) (sn T) r).
Proof.
  intros k start progs x t R s T Hc. pose proof (ireach_linv k start progs x R) as I.
  split; intros Hpc; [exact (push_snapshot_of_linv _ _ x t I Hpc Hc) | exact (pop_snapshot_of_linv _ _ x t I Hpc Hc)].
Qed.
Print Assumptions lifo_dcas_snapshot_valid.

(* the same, stated on the executable machine alone *)
Theorem lifo_dcas_compares_current : forall k start progs s t,
  reachable M (init k start progs) s ->
  ctr s = sc (thr s t) ->
  (pc (thr s t) = PCas -> head s = sh (thr s t) /\ next s (node (thr s t)) = sh (thr s t)) /\
  (pc (thr s t) = QCas -> head s = sh (thr s t) /\ next s (sh (thr s t)) = sn (thr s t)).
Proof.
  intros k start progs s t R Hc. destruct (reachable_ireach k start progs s R) as (x & Rx & <-).
  pose proof (ireach_linv k start progs x Rx) as I.
  split; intros Hpc.
  - destruct (push_snapshot_of_linv _ _ x t I Hpc Hc) as (_ & A & B & _). auto.
  - destruct (pop_snapshot_of_linv _ _ x t I Hpc Hc) as (_ & A & B & _). auto.
Qed.
Print Assumptions lifo_dcas_compares_current.

(* hist x = pushes and pops at their successful DCAS, empty pops at their head
   load, in the order they took effect.  It is a history of a sequential stack
   ([replay]: a push conses, a pop removes and returns the top, an empty pop
   needs the empty stack) ending in the current abstract content, which is
   what is linked from the head.  Hence every pushed node is handed to exactly
   one popper or is still inside, once. *)
Theorem lifo_exactly_once : forall k start progs x,
  ireach k start progs x ->
  replay (hist x) [] = Some (stk x) /\
  chain (next (base x)) (head (base x)) (stk x) /\
  forall n, pushes n (hist x) = pops n (hist x) + (if in_dec Nat.eq_dec n (stk x) then 1 else 0).
Proof. intros k start progs x R. exact (exactly_once_of_linv _ _ x (ireach_linv k start progs x R)). Qed.
Print Assumptions lifo_exactly_once.

(* pop answers NULL only if the stack is empty at its head load *)
Theorem lifo_null_only_when_empty : forall k start progs x t,
  ireach k start progs x ->
  pc (thr (base x) t) = QHead -> head (base x) = 0 -> stk x = [].
Proof. intros k start progs x t R. exact (pop_null_of_linv _ _ x t (ireach_linv k start progs x R)). Qed.
Print Assumptions lifo_null_only_when_empty.

(* under reuse: a node is never in the stack twice, never in the stack and
   owned by a thread, never owned by two threads, and never lost *)
Theorem lifo_no_lost_no_dup : forall k start progs x,
  ireach k start progs x ->
  NoDup (stk x) /\
  (forall t, NoDup (own (thr (base x) t))) /\
  (forall t n, In n (own (thr (base x) t)) -> ~ In n (stk x)) /\
  (forall t u n, In n (own (thr (base x) t)) -> In n (own (thr (base x) u)) -> t = u) /\
  (forall n, 1 <= n <= k * length progs -> In n (stk x) \/ exists t, In n (own (thr (base x) t))).
Proof.
  intros k start progs x R.
  destruct (no_lost_no_dup_of_linv _ _ x (ireach_linv k start progs x R)) as (A & B & C & D & E).
  repeat split; auto. intros n Hn. apply E. apply univ_range. exact Hn.
Qed.
Print Assumptions lifo_no_lost_no_dup.

(* ---- non-vacuity ---- *)
(* thread 0 builds the stack [1;2] and starts a pop: it reads counter 2, head 1,
   next 2.  Thread 1 pops 1, pops 2, pushes 1 back.  The head is 1 again but
   the counter moved on: thread 0's DCAS fails (had it succeeded, node 2 -
   now owned by thread 1 - would have become the head). *)
Definition aba_progs := [[OPush 1; OPush 0; OPop]; [OPop; OPop; OPush 1]].
Definition aba_sched := [0;0;0;0; 0;0;0;0; 0;0;0; 1;1;1;1; 1;1;1;1; 1;1;1;1].
Definition aba_state := irun (iinit 2 0 aba_progs) aba_sched.

Example ex_aba_stale_snapshot :
  ireach 2 0 aba_progs aba_state /\
  pc (thr (base aba_state) 0) = QCas /\
  head (base aba_state) = sh (thr (base aba_state) 0) /\          (* same head pointer again *)
  next (base aba_state) (sh (thr (base aba_state) 0)) <> sn (thr (base aba_state) 0) /\ (* stale next *)
  In (sn (thr (base aba_state) 0)) (own (thr (base aba_state) 1)) /\ (* ... a node thread 1 owns *)
  ctr (base aba_state) <> sc (thr (base aba_state) 0) /\         (* but the counter differs *)
  pc (thr (base (lstep aba_state 0)) 0) = QCtr /\                (* so the DCAS fails: retry *)
  stk (lstep aba_state 0) = [1].
Proof.
  split; [apply ireach_irun; constructor|]. vm_compute.
  repeat split; try reflexivity; try discriminate; auto.
Qed.

(* hypotheses of the snapshot theorem are met: a pop whose DCAS is about to succeed *)
Example ex_pop_dcas_succeeds :
  let x := irun (iinit 2 0 aba_progs) [0;0;0;0; 0;0;0;0; 0;0;0] in
  ireach 2 0 aba_progs x /\ pc (thr (base x) 0) = QCas /\ ctr (base x) = sc (thr (base x) 0) /\
  stk x = [1; 2] /\ stk (lstep x 0) = [2] /\ hist (lstep x 0) = [HPush 0 2; HPush 0 1; HPop 0 1].
Proof. split; [apply ireach_irun; constructor|]. vm_compute. repeat split; reflexivity. Qed.

Example ex_push_dcas_succeeds :
  let x := irun (iinit 2 0 aba_progs) [0;0;0] in
  ireach 2 0 aba_progs x /\ pc (thr (base x) 0) = PCas /\ ctr (base x) = sc (thr (base x) 0).
Proof. split; [apply ireach_irun; constructor|]. vm_compute. repeat split; reflexivity. Qed.

Example ex_empty_pop :
  let x := irun (iinit 1 0 [[OPop]]) [0] in
  ireach 1 0 [[OPop]] x /\ pc (thr (base x) 0) = QHead /\ head (base x) = 0 /\
  hist (lstep x 0) = [HEmpty 0].
Proof. split; [apply ireach_irun; constructor|]. vm_compute. repeat split; reflexivity. Qed.
End L.

(* ====================================================================== *)
(* flushable stack (mpmc_stack.h)                                         *)
Module S.
Import MStack MStackProofs.

(* hist x = pushes at their successful CAS and flushes at their exchange (with
   the list they took).  It is a history of the sequential object "push
   conses, flush takes the whole list": every flush took exactly the nodes
   pushed and not yet flushed, most recent first; every node pushed is
   flushed exactly once or still inside.  [done x] records for every completed
   flush what the caller then walked through: exactly the list taken (lifo
   flush) or its reversal (fifo flush = mpmc_stack_reverse of it). *)
Theorem mstack_flush_exact : forall k progs x,
  ireach k progs x ->
  replay (hist x) [] = Some (stk x) /\
  chain (next (base x)) (head (base x)) (stk x) /\
  Forall done_ok (done x) /\
  forall n, pushes n (hist x) = flushed n (hist x) + (if in_dec Nat.eq_dec n (stk x) then 1 else 0).
Proof. intros k progs x R. exact (flush_exact_of_linv _ x (ireach_linv k progs x R)). Qed.
Print Assumptions mstack_flush_exact.

(* a flush in progress: returned-so-far ++ still-linked = the list taken (or
   its reversal); during mpmc_stack_reverse the reversed part and the rest
   recompose the list taken: reverse is list reversal *)
Theorem mstack_reverse_is_rev : forall k progs x t,
  ireach k progs x ->
  (pc (thr (base x) t) = WRead ->
     (if rev (thr (base x) t) then List.rev (fl x t) else fl x t) = got x t ++ pa x t /\
     chain (next (base x)) (cur (thr (base x) t)) (pa x t)) /\
  (pc (thr (base x) t) = RRead ->
     fl x t = List.rev (pb x t) ++ pa x t /\
     chain (next (base x)) (cur (thr (base x) t)) (pa x t) /\
     chain (next (base x)) (fifo (thr (base x) t)) (pb x t)).
Proof. intros k progs x t R. exact (flush_progress_of_linv _ x t (ireach_linv k progs x R)). Qed.
Print Assumptions mstack_reverse_is_rev.

(* a push publishes a node it owns whose next field holds the head value its
   CAS compares against (so a recurring head value is harmless here) *)
Theorem mstack_push_links_current : forall k progs x t,
  ireach k progs x -> pc (thr (base x) t) = PCas ->
  next (base x) (node (thr (base x) t)) = sh (thr (base x) t) /\
  In (node (thr (base x) t)) (own (thr (base x) t)).
Proof. intros k progs x t R. exact (push_next_of_linv _ x t (ireach_linv k progs x R)). Qed.
Print Assumptions mstack_push_links_current.

(* every node is in exactly one place: in the stack, or held by one thread
   (owned, or in the list it flushed and is still walking / reversing) *)
Theorem mstack_no_lost_no_dup : forall k progs x,
  ireach k progs x -> OwnInv (univ k (length progs)) (stk x) (held x).
Proof. intros k progs x R. exact (no_lost_no_dup_of_linv _ x (ireach_linv k progs x R)). Qed.
Print Assumptions mstack_no_lost_no_dup.

(* ---- non-vacuity ---- *)
Definition ex_progs := [[OPush 0; OPush 0; OFifoFlush]; [OPush 0; OLifoFlush]].

Example ex_fifo_flush_done :
  let x := irun (iinit 2 ex_progs) [0;0;0; 1;1;1; 0;0;0; 0; 0;0;0;0;0;0; 0;0;0] in
  ireach 2 ex_progs x /\
  hist x = [HPush 0 1; HPush 1 3; HPush 0 2; HFlush 0 [2; 3; 1]] /\
  done x = [(true, [2; 3; 1], [1; 3; 2])] /\ stk x = [].
Proof. split; [apply ireach_irun; constructor|]. vm_compute. repeat split; reflexivity. Qed.

Example ex_reverse_midway :
  let x := irun (iinit 2 ex_progs) [0;0;0; 1;1;1; 0;0;0; 0; 0;0] in
  ireach 2 ex_progs x /\ pc (thr (base x) 0) = RRead /\ fl x 0 = [2; 3; 1] /\ pb x 0 = [2] /\ pa x 0 = [3; 1].
Proof. split; [apply ireach_irun; constructor|]. vm_compute. repeat split; reflexivity. Qed.

(* a push whose expected head value recurs (0, then 1 pushed and flushed, 0 again): the CAS succeeds, correctly *)
Example ex_push_head_recurs :
  let x := irun (iinit 1 [[OPush 0]; [OPush 0; OLifoFlush]]) [0;0; 1;1;1;1] in
  ireach 1 [[OPush 0]; [OPush 0; OLifoFlush]] x /\ pc (thr (base x) 0) = PCas /\
  head (base x) = sh (thr (base x) 0) /\ stk (lstep x 0) = [1].
Proof. split; [apply ireach_irun; constructor|]. vm_compute. repeat split; reflexivity. Qed.
End S.

(* ====================================================================== *)
(* distinguished FIFO (dist_fifo.h)                                       *)
Module D.
Import DistFifo DistFifoProofs.

(* counter equality at the DCAS => no pop took effect since the counter read,
   head.node is still the node read, its next is still the node read, whose
   data is still the value read: the first two nodes linked from the head *)
Theorem distfifo_dcas_snapshot_valid : forall p start progs x t,
  ireach p start progs x ->
  pc (thr (base x) t) = QCas -> ctr (base x) = sc (thr (base x) t) ->
  sver x t = ver x /\ hnode (base x) = sh (thr (base x) t) /\
  next (base x) (sh (thr (base x) t)) = sn (thr (base x) t) /\
  data (base x) (sn (thr (base x) t)) = sd (thr (base x) t) /\
  exists r, qs x = sh (thr (base x) t) :: sn (thr (base x) t) :: r.
Proof. intros p start progs x t R. exact (pop_snapshot_of_linv _ _ x t (ireach_linv p start progs x R)). Qed.
Print Assumptions distfifo_dcas_snapshot_valid.

(* hist x = pushed values (at the write tail->next = node), popped values (at
   the successful DCAS), EMPTY answers given from an up-to-date snapshot.  It
   is a history of a sequential FIFO queue; the popped values are a prefix of
   the pushed values, in push order, and the remainder is exactly what is
   linked behind the dummy; the value the caller reads from the returned node
   is the value taken at the DCAS; only thread 0 pushes. *)
Theorem distfifo_exactly_once_fifo : forall p start progs x,
  ireach p start progs x ->
  replay (hist x) [] = Some (map (data (base x)) (tl (qs x))) /\
  pushed (hist x) = popped (hist x) ++ map (data (base x)) (tl (qs x)) /\
  chain (next (base x)) (hnode (base x)) (qs x) /\ qs x <> [].
Proof. intros p start progs x R. exact (fifo_of_linv _ _ x (ireach_linv p start progs x R)). Qed.
Print Assumptions distfifo_exactly_once_fifo.

Theorem distfifo_pop_returns_taken_value : forall p start progs x t,
  ireach p start progs x -> pc (thr (base x) t) = QRData ->
  data (base x) (sh (thr (base x) t)) = pv x t.
Proof. intros p start progs x t R. exact (pop_value_of_linv _ _ x t (ireach_linv p start progs x R)). Qed.
Print Assumptions distfifo_pop_returns_taken_value.

(* RETRY only if a pop took effect since this call read the counter; EMPTY only
   if the queue is empty at the read of head->next or a pop took effect since
   this call read the counter (see ex_spurious_empty: in the second case the
   queue need not have been empty at any time during the call) *)
Theorem distfifo_retry_empty_justified : forall p start progs x t,
  ireach p start progs x ->
  (pc (thr (base x) t) = QCas -> cas_ok (base x) (thr (base x) t) = false -> sver x t < ver x) /\
  (pc (thr (base x) t) = QNext -> next (base x) (sh (thr (base x) t)) = 0 ->
     (sver x t = ver x /\ qs x = [sh (thr (base x) t)]) \/ sver x t < ver x).
Proof.
  intros p start progs x t R. pose proof (ireach_linv p start progs x R) as I.
  split; [exact (retry_justified_of_linv _ _ x t I) | exact (empty_justified_of_linv _ _ x t I)].
Qed.
Print Assumptions distfifo_retry_empty_justified.

(* every node is in exactly one place: linked from the head, in the free pool
   (holder 0) or held by one thread (holder S t); only thread 0 pushes *)
Theorem distfifo_no_lost_no_dup : forall p start progs x,
  ireach p start progs x ->
  OwnInv (univ p) (qs x) (held x) /\
  forall t, match pc (thr (base x) t) with
            | HData | PTail | PNull | PLink | PSetTail => t = 0 | _ => True end.
Proof.
  intros p start progs x R. pose proof (ireach_linv p start progs x R) as I.
  split; [exact (no_lost_no_dup_of_linv _ _ x I) | intros t; exact (single_pusher_of_linv _ _ x t I)].
Qed.
Print Assumptions distfifo_no_lost_no_dup.

(* ---- non-vacuity ---- *)
Definition ex_progs := [[OPush 0; OPush 8; OPop; OPush 16]; [OPop]].

(* thread 1 reads counter and head.node = 1 (the dummy); thread 0 pops (node 1
   returns to the pool, value 1), re-pushes node 1 up to the write
   node1->next = NULL; thread 1 now reads node1->next = NULL and answers EMPTY
   although the queue held value 2 during its whole call *)
Example ex_spurious_empty :
  let x := irun (iinit 2 0 ex_progs) [0;0;0;0;0; 0;0;0;0;0; 1;1; 0;0;0;0;0;0;0; 0;0;0] in
  ireach 2 0 ex_progs x /\ pc (thr (base x) 1) = QNext /\ next (base x) (sh (thr (base x) 1)) = 0 /\
  map (data (base x)) (tl (qs x)) = [2] /\ sver x 1 < ver x /\
  hist (lstep x 1) = [HPush 1; HPush 2; HPop 0 1; HSpur 1].
Proof. split; [apply ireach_irun; constructor|]. vm_compute. repeat split; auto. Qed.

(* stale snapshot whose head.node value recurs?  Here the DCAS fails on the counter *)
Example ex_retry :
  let x := irun (iinit 2 0 ex_progs) [0;0;0;0;0; 0;0;0;0;0; 1;1;1;1; 0;0;0;0;0] in
  ireach 2 0 ex_progs x /\ pc (thr (base x) 1) = QCas /\ cas_ok (base x) (thr (base x) 1) = false /\
  pc (thr (base (lstep x 1)) 1) = Fin.
Proof. split; [apply ireach_irun; constructor|]. vm_compute. repeat split; reflexivity. Qed.

Example ex_pop_succeeds :
  let x := irun (iinit 2 0 ex_progs) [0;0;0;0;0; 0;0;0;0;0; 1;1;1;1] in
  ireach 2 0 ex_progs x /\ pc (thr (base x) 1) = QCas /\ ctr (base x) = sc (thr (base x) 1) /\
  hist (lstep x 1) = [HPush 1; HPush 2; HPop 1 1].
Proof. split; [apply ireach_irun; constructor|]. vm_compute. repeat split; reflexivity. Qed.

Example ex_true_empty :
  let x := irun (iinit 2 0 [[OPop]]) [0;0] in
  ireach 2 0 [[OPop]] x /\ pc (thr (base x) 0) = QNext /\ next (base x) (sh (thr (base x) 0)) = 0 /\
  hist (lstep x 0) = [HEmpty 0].
Proof. split; [apply ireach_irun; constructor|]. vm_compute. repeat split; reflexivity. Qed.
End D.

(* ====================================================================== *)
(* multi-waiter signal (fiber_multi_signal_* of fiber_signal.h) on the
   thread-with-sleep abstraction: thread t = fiber t+1 = wait node t+1      *)
Module G.
Import MultiSignal MultiSignalProofs.

(* counter equality at any of the four DCAS => no DCAS succeeded since the
   counter load and the branch the code took is right for the current state:
   consuming wait / raise-to-RAISED see no waiter; a queueing wait links its
   node in front of the current waiter list; a releasing raise removes the
   first waiter and installs the rest of the list *)
Theorem multisignal_dcas_snapshot_valid : forall start progs x t,
  ireach start progs x -> ctr (base x) = sc (thr (base x) t) ->
  match pc (thr (base x) t) with
  | WCasC => sver x t = ver x /\ head (base x) = shd (thr (base x) t) /\ W x = []
  | WCasQ => sver x t = ver x /\ head (base x) = shd (thr (base x) t) /\
             next (base x) (S t) = Z.to_nat (shd (thr (base x) t)) /\ ~ In (S t) (W x) /\
             chain (next (base x)) (Z.to_nat (shd (thr (base x) t))) (W x)
  | RCasR => sver x t = ver x /\ head (base x) = shd (thr (base x) t) /\ W x = []
  | RCasP => sver x t = ver x /\ head (base x) = shd (thr (base x) t) /\
             next (base x) (Z.to_nat (shd (thr (base x) t))) = sn (thr (base x) t) /\
             exists r, W x = Z.to_nat (shd (thr (base x) t)) :: r /\
                       chain (next (base x)) (sn (thr (base x) t)) r
  | _ => True
  end.
Proof. intros start progs x t R. exact (snapshot_of_linv start x t (ireach_linv start progs x R)). Qed.
Print Assumptions multisignal_dcas_snapshot_valid.

(* hist x is a history of the sequential object (waiters, raised):
     wait : raised ? (raised := false, go on) : (push self, sleep)
     raise: waiters = w :: r ? (release exactly w, waiters := r) : raised := true
   so a raise releases exactly one waiter or leaves the signal raised (raised ->
   raised coalesces), never two, and is never dropped while a fiber is listed
   ([replay] rejects HRaiseR with a non-empty list); the list is what is linked
   from the head, without repetition *)
Theorem multisignal_raise_one_or_remember : forall start progs x,
  ireach start progs x ->
  replay (hist x) ([], false) = Some (W x, (head (base x) =? -1)%Z) /\
  cell_ok (head (base x)) (next (base x)) (W x) /\ NoDup (W x).
Proof. intros start progs x R. exact (spec_of_linv start x (ireach_linv start progs x R)). Qed.
Print Assumptions multisignal_raise_one_or_remember.

(* wake-up accounting: at most one wake-up is pending per fiber; a listed fiber
   is asleep (or about to sleep) and has no wake-up pending, i.e. it never
   runs before a raise released it; a pending wake-up belongs to a sleeping,
   unlisted fiber; every fiber that sleeps is listed, or some raiser that
   released it is on its way to schedule it, or its wake-up is pending *)
Theorem multisignal_wait_blocks_or_consumes : forall start progs x t,
  ireach start progs x ->
  wk (base x) t <= 1 /\
  (In (S t) (W x) -> sleepy (pc (thr (base x) t)) /\ wk (base x) t = 0) /\
  (wk (base x) t = 1 -> pc (thr (base x) t) = WSleep /\ ~ In (S t) (W x)) /\
  (sleepy (pc (thr (base x) t)) ->
     In (S t) (W x) \/ (exists r, holds (base x) r (S t)) \/ wk (base x) t = 1).
Proof. intros start progs x t R. exact (sleeping_of_linv start x t (ireach_linv start progs x R)). Qed.
Print Assumptions multisignal_wait_blocks_or_consumes.

(* every fiber is in exactly one state (fs x t); listed <-> queued; a released
   fiber is held by exactly the raiser recorded for it, and a raiser in its
   wake-up path holds exactly one released fiber *)
Theorem multisignal_no_lost_no_dup : forall start progs x t,
  ireach start progs x ->
  fs_ok (base x) (fs x) t /\ (fs x t = FQueued <-> In (S t) (W x)) /\
  (forall r, fs x t = FReleased r -> holds (base x) r (S t)) /\
  (forall r n, holds (base x) r n -> n <> 0 /\ fs x (pred n) = FReleased r).
Proof. intros start progs x t R. exact (accounting_of_linv start x t (ireach_linv start progs x R)). Qed.
Print Assumptions multisignal_no_lost_no_dup.

(* ---- non-vacuity ---- *)
(* fibers 2 and 3 wait (W = [3;2]); raiser 0 reads counter 2, head 3, next 2;
   raiser 3 releases 3 then 2; fiber 3 resumes and waits again: head = 3 again,
   but the list below it is now empty and the counter is 5: raiser 0's DCAS fails *)
Definition aba_progs := [[ORaise]; [OWait]; [OWait; OWait]; [ORaise; ORaise]].
Definition aba_sched := [1;1;1;1;1;1;1; 2;2;2;2;2;2;2; 0;0;0; 3;3;3;3;3;3; 3;3;3;3;3;3; 2;2; 2;2;2;2;2;2].
Definition aba_state := irun (iinit 0 aba_progs) aba_sched.

Example ex_aba_stale_snapshot :
  ireach 0 aba_progs aba_state /\
  pc (thr (base aba_state) 0) = RCasP /\
  head (base aba_state) = shd (thr (base aba_state) 0) /\
  W aba_state = [3] /\ sn (thr (base aba_state) 0) = 2 /\
  ctr (base aba_state) <> sc (thr (base aba_state) 0) /\
  pc (thr (base (lstep aba_state 0)) 0) = RCtr /\ W (lstep aba_state 0) = [3] /\
  hist aba_state = [HWaitQ 1; HWaitQ 2; HRaiseW 3 3; HRaiseW 3 2; HWaitQ 2].
Proof.
  split; [apply ireach_irun; constructor|]. vm_compute.
  repeat split; try reflexivity; try discriminate.
Qed.

Example ex_release_succeeds :
  let x := irun (iinit 0 aba_progs) [1;1;1;1;1;1;1; 0;0;0] in
  ireach 0 aba_progs x /\ pc (thr (base x) 0) = RCasP /\ ctr (base x) = sc (thr (base x) 0) /\
  W x = [2] /\ W (lstep x 0) = [] /\ fs (lstep x 0) 1 = FReleased 0.
Proof. split; [apply ireach_irun; constructor|]. vm_compute. repeat split; reflexivity. Qed.

Example ex_raise_remembered_then_consumed :
  let p := [[ORaise; ORaise]; [OWait]] in
  let x := irun (iinit 0 p) [0;0;0; 0;0;0; 1;1;1;1;1] in
  ireach 0 p x /\ hist x = [HRaiseR 0; HRaiseR 0; HWaitC 1] /\ head (base x) = 0%Z /\
  pc (thr (base x) 1) = Fin.
Proof. split; [apply ireach_irun; constructor|]. vm_compute. repeat split; reflexivity. Qed.

Example ex_sleeper_is_listed :
  let x := irun (iinit 0 aba_progs) [1;1;1;1;1;1;1] in
  ireach 0 aba_progs x /\ pc (thr (base x) 1) = WSleep /\ In 2 (W x) /\ wk (base x) 1 = 0 /\
  status_of (base x) 1 = SBlocked.
Proof. split; [apply ireach_irun; constructor|]. vm_compute. repeat split; auto. Qed.
End G.
