(* C11, multi channel (include/fiber_multi_channel.h), model coq/MChan.v on the T1
   machine: mutual exclusion of the channel lock for this client, and the
   UNCONDITIONAL capacity / exactly-once-in-order theorems obtained from it.
   (Properties_C11.v states multichan_capacity_partial and
   multichan_exactly_once_in_order_partial relative to the hypothesis
   [MChanProofs2.reach_excl]; the theorem multichan_lock_exclusion below discharges it.)

   MChan.init_ol false k progs (= MChan.init k progs) is the protocol in /repo (separate
   waiter lists); MChan.init_ol true k progs the original one-list protocol.  All theorems
   hold for both, for any number of fibers, any programs, any schedule, any size 2^k.

   [MChanProofs2.holds s t]: fiber t holds the channel lock in state s: from the return of
   fiber_mutex_lock until the fetch_add of its unlock has executed -- in fiber_mutex_unlock,
   or, for a fiber that blocks on the channel, in the DEFERRED unlock: while its manager's
   mutex_to_unlock slot is set and until the UAdd step of the maintenance of its yield
   (including the wake loop retried without yield point inside maintenance).
   Proof: coq/MChanExclBase.v (ghost ownership machine and invariant), MChanExclSteps.v,
   MChanExclNodes.v, MChanExclCs.v (preservation), MChanExcl.v (conclusions). *)
From Coq Require Import List ZArith Lia Bool Arith.
From LF Require Import Conc T1K.
From LF Require MChan MChanProofs MChanProofs2 MChanExclBase MChanExcl.
Import ListNotations.
Local Open Scope Z_scope.

(* at most one fiber is inside the channel's critical section *)
Theorem multichan_lock_exclusion :
  forall (ol : bool) (k : nat) (progs : list (list MChan.mop)) (s : MChan.st),
    reachable MChan.M (MChan.init_ol ol k progs) s ->
    forall t u, MChanProofs2.holds s t -> MChanProofs2.holds s u -> t = u.
Proof. exact MChanExcl.lock_exclusion. Qed.
Print Assumptions multichan_lock_exclusion.

(* the hypothesis of the _partial theorems of Properties_C11.v holds of every execution *)
Theorem multichan_reach_excl :
  forall (ol : bool) (k : nat) (progs : list (list MChan.mop)) (s : MChan.st),
    reachable MChan.M (MChan.init_ol ol k progs) s -> MChanProofs2.reach_excl ol k progs s.
Proof. exact MChanExcl.reachable_reach_excl. Qed.
Print Assumptions multichan_reach_excl.

(* capacity: the channel never holds more than size messages, and the slot a send
   writes (slot high mod size) holds 0 when it is written *)
Theorem multichan_capacity :
  forall (ol : bool) (k : nat) (progs : list (list MChan.mop)) (s : MChan.st),
    reachable MChan.M (MChan.init_ol ol k progs) s ->
    0 <= cell (MChan.mem s) MChan.c_high - cell (MChan.mem s) MChan.c_low <= MChan.csize s /\
    forall t c x p kk,
      MChan.stk s t = [CWrite c x; FC (MChan.MSBuf p kk)] ->
      c = MChan.c_buf (MChan.bidx (MChan.csize s) (cell (MChan.mem s) MChan.c_high)) /\
      cell (MChan.mem s) c = 0.
Proof. exact MChanExcl.capacity_full. Qed.
Print Assumptions multichan_capacity.

(* exactly once, in order: in the instrumented machine (MChanProofs2.istep: slog = messages
   in the order of the  high := hi + 1  writes, rlog = returned values in the order of the
   low := lo + 1  writes; [MChanExcl.ireach] = all its runs, no hypothesis on the states)
   rlog is a prefix of slog and the counters are the lengths of the logs *)
Theorem multichan_exactly_once_in_order :
  forall (ol : bool) (k : nat) (progs : list (list MChan.mop)) (x : MChanProofs2.ist),
    MChanExcl.ireach ol k progs x ->
    MChanProofs2.prefix (MChanProofs2.rlog x) (MChanProofs2.slog x) /\
    cell (MChan.mem (MChanProofs2.base x)) MChan.c_high = MChanProofs2.Zlen (MChanProofs2.slog x) /\
    cell (MChan.mem (MChanProofs2.base x)) MChan.c_low = MChanProofs2.Zlen (MChanProofs2.rlog x).
Proof. exact MChanExcl.exactly_once_in_order_full. Qed.
Print Assumptions multichan_exactly_once_in_order.

(* every reachable state of the model is the erasure of a run of the instrumented machine *)
Theorem multichan_exactly_once_in_order_states :
  forall (ol : bool) (k : nat) (progs : list (list MChan.mop)) (s : MChan.st),
    reachable MChan.M (MChan.init_ol ol k progs) s ->
    exists x, MChanExcl.ireach ol k progs x /\ MChanProofs2.base x = s /\
              MChanProofs2.prefix (MChanProofs2.rlog x) (MChanProofs2.slog x).
Proof. exact MChanExcl.exactly_once_in_order_states_full. Qed.
Print Assumptions multichan_exactly_once_in_order_states.

(* ================= non-vacuity ================= *)
(* one receiver on an empty channel of size 1, one sender *)
Definition ex_progs : list (list MChan.mop) := [[MChan.ORecv]; [MChan.OSend 5]].

(* (1) the deferred unlock: after its 8th step the receiver has queued itself, set its state to
   WAITING and handed the unlock to its maintenance: it still HOLDS the lock (slot set), its
   stack is the yield of internal_wait; the sender that announces itself now does not hold *)
Definition ex_s_deferred : MChan.st :=
  fst (run_sched MChan.M (MChan.init 0 ex_progs) (repeat 0%nat 8 ++ [1; 1]%nat)).
Example ex_deferred_holder :
  reachable MChan.M (MChan.init 0 ex_progs) ex_s_deferred /\
  MChan.stk ex_s_deferred 0 = [YRead; FC (MChan.MWt5 MChan.ARecv [] 1)] /\
  slot_mutex (MChan.mem ex_s_deferred) 0 = Some 0%nat /\
  MChanProofs2.holds ex_s_deferred 0 /\ ~ MChanProofs2.holds ex_s_deferred 1 /\
  word (MChan.mem ex_s_deferred) 0 = -1.
Proof.
  split; [apply run_sched_reachable; apply reach_init|].
  split; [vm_compute; reflexivity|]. split; [vm_compute; reflexivity|].
  split; [unfold MChanProofs2.holds; vm_compute; left; reflexivity|].
  split; [unfold MChanProofs2.holds; vm_compute; discriminate|vm_compute; reflexivity].
Qed.

(* (2) the receiver's maintenance performs the unlock, finds the sender announced but not yet
   linked, and retries the pop inside maintenance (MSlots on the stack) without a yield point:
   12 steps later it is in the wake loop again, nobody holds the lock, the counter says
   "one waiter" *)
Definition ex_s_maint : MChan.st :=
  fst (run_sched MChan.M (MChan.init 0 ex_progs) (repeat 0%nat 8 ++ [1; 1]%nat ++ repeat 0%nat 12)).
Example ex_maintenance_retry :
  reachable MChan.M (MChan.init 0 ex_progs) ex_s_maint /\
  MChan.stk ex_s_maint 0 = [KHead 0 1 0; UWoke; MSlots; YLoop; FC (MChan.MWt5 MChan.ARecv [] 1)] /\
  MChan.stk ex_s_maint 1 = [WSaving 0; LWaited; FC (MChan.MLocked (MChan.ASend 5) [] 1)] /\
  word (MChan.mem ex_s_maint) 0 = 0 /\
  ~ MChanProofs2.holds ex_s_maint 0 /\ ~ MChanProofs2.holds ex_s_maint 1.
Proof.
  split; [apply run_sched_reachable; apply reach_init|].
  split; [vm_compute; reflexivity|]. split; [vm_compute; reflexivity|]. split; [vm_compute; reflexivity|].
  split; unfold MChanProofs2.holds; vm_compute; intuition discriminate.
Qed.

(* (3) the hypothesis of the slot clause of multichan_capacity is met: a sender at its buffer write *)
Definition ex_s_write : MChan.st := fst (run_sched MChan.M (MChan.init 0 ex_progs) (repeat 1%nat 5)).
Example ex_capacity_slot :
  reachable MChan.M (MChan.init 0 ex_progs) ex_s_write /\
  MChan.stk ex_s_write 1 = [CWrite 1 5; FC (MChan.MSBuf [] 1)] /\ MChanProofs2.holds ex_s_write 1.
Proof.
  split; [apply run_sched_reachable; apply reach_init|].
  split; [vm_compute; reflexivity|unfold MChanProofs2.holds; vm_compute; reflexivity].
Qed.

(* (4) a complete run through blocking, deferred unlock, hand-off and wake-up: the message
   is sent once and received once, both fibers finish *)
Definition ex_x_done : MChanProofs2.ist :=
  MChanExcl.irun (MChanProofs2.iinit false 0 ex_progs) (repeat 0%nat 30 ++ repeat 1%nat 60 ++ repeat 0%nat 60).
Example ex_logs :
  MChanExcl.ireach false 0 ex_progs ex_x_done /\
  MChanProofs2.slog ex_x_done = [5] /\ MChanProofs2.rlog ex_x_done = [5] /\
  MChan.status_of (MChanProofs2.base ex_x_done) 0 = SDone /\
  MChan.status_of (MChanProofs2.base ex_x_done) 1 = SDone.
Proof.
  split; [apply MChanExcl.ireach_irun; constructor|].
  vm_compute. repeat split; reflexivity.
Qed.
