(* C11: history theorem for the unbounded MPSC channel of include/fiber_channel.h
   (mpsc_fifo.h push / trypop + fiber_signal) ON THE ChanK MACHINE (ChanK.M /
   ChanK.step / ChanK.init), for any number of threads, any programs obeying
   [uchan_progs_ok w progs], any schedule (chan_exactly_once_in_sender_order):

     uchan_fifo                    rlog is a prefix of map snd xlog
     uchan_received_was_sent       In v rlog -> some sender t logged (t, v) and v is in t's program
     uchan_no_duplicate            distinct sent values -> NoDup (map snd xlog), NoDup rlog
     uchan_sender_order            sender_proj t xlog is a prefix of usends (nth t progs [])
     uchan_received_sender_order   xlog = rx ++ rest, map snd rx = rlog, and every sender's
                                   projection of rx is a prefix of its program order
     uchan_xlog_is_cell            the logged value is the node's data cell at the exchange
     uchan_ireach_sound / _complete   ireach <-> reachable ChanK.M (erasure [istep_erase])

   [uchan_progs_ok w progs]: OURecv / OUTry occur only in thread w's program; the
   node ids of all OUSend ops are pairwise distinct (within and across programs)
   and >= 2.  Everything else is unrestricted: any thread (w too) may send, and
   OWait / ORaise / OBSend / OBRecv / OBTry may occur anywhere.

   Ghosts (instrumented machine [ist] / [istep]; the phase of a thread is read
   off its stack by [phase], see [phase_xchg_shape] / [phase_use_shape]):
     nodeat i   the node installed by the i-th tail exchange (nodeat 0 = stub 1)
     nval n     the value written into node n's data cell by its sender (shape sh_udata)
     hi, lo     number of tail exchanges / of head advances so far
     nret       number of receives that have returned
     xlog       (sender, nval n) appended at the tail exchange (shape sh_uxchg)
     rlog       the value read by the harness at shape sh_uuse = the value in the
                call's return event ([uuse_reports])
   Proof: SInv (the deferred set_wait_location of a yield always names the
   fiber's own scratch cell, so the signal never writes a queue cell), then the
   MPSC invariant GInv; [frame_step] for steps private to a thread, one lemma
   per global step (xchg, link, sethead, uwrite). *)
From Coq Require Import List ZArith Lia Bool Arith.
From LF Require Import Conc T1K ChanK ChanKBase.
Import ListNotations.
Local Open Scope nat_scope.

Arguments start : simpl never.

(* ------------------------------------------------------------------ *)
(* queue phase of a thread, read off its stack *)
Inductive ph :=
| PhIdle (p : list cop)                 (* not in a queue call (or only signalling) *)
| PhData (n : nat) (v : Z) (p : list cop)
| PhNull (n : nat) (p : list cop)
| PhXchg (n : nat) (p : list cop)
| PhLink (c : nat) (v : Z) (p : list cop)   (* about to write cell c := v *)
| PhHead (p : list cop)                 (* in receive, holding nothing (also: waiting for the signal) *)
| PhNxt (hd : nat) (p : list cop)
| PhSet (hd : nat) (v : Z) (p : list cop)
| PhRead (hd : nat) (c : nat) (p : list cop)
| PhWrite (hd : nat) (v : Z) (p : list cop)
| PhUse (c : nat) (p : list cop).

Definition cc_prog (c : cc) : list cop :=
  match c with
  | ChanK.KNext p _ => p
  | KWClr _ p _ | KWCas _ p _ | KWSlept _ p _ | KWClr2 _ p _ | KWEnd _ p _ => p
  | KRX p _ | KRSt _ p _ | KRSpin _ p _ | KRRdy _ p _ => p
  | KUData _ p _ | KUNull _ p _ | KUXchg _ p _ | KULink p _ => p
  | KUHead _ p _ | KUNxt _ _ p _ | KUSetHead _ _ p _ | KURead _ p _ | KUWrite _ p _ | KUUse p _ => p
  | KBLow _ p _ | KBHigh _ _ p _ | KBSlot _ _ _ p _ | KBCas _ _ p _ | KBWrite p _ | KBYield _ p _ => p
  | KQHigh _ p _ | KQLow _ _ p _ | KQSlot _ _ _ p _ | KQClear _ _ p _ | KQStore _ p _ => p
  end.

Definition wph (a : wk) (p : list cop) : ph :=
  match a with WKURecv => PhHead p | _ => PhIdle p end.

(* f = the access on top of the continuation c *)
Definition cph (f : frame cc) (c : cc) : ph :=
  match c with
  | KUData n p _ => match f with CWrite _ v => PhData n v p | _ => PhIdle p end
  | KUNull n p _ => PhNull n p
  | KUXchg n p _ => PhXchg n p
  | KULink p _ => match f with CWrite c v => PhLink c v p | _ => PhIdle p end
  | KUHead _ p _ => PhHead p
  | KUNxt _ hd p _ => PhNxt hd p
  | KUSetHead hd _ p _ => match f with CWrite _ v => PhSet hd v p | _ => PhIdle p end
  | KURead hd p _ => match f with CRead c => PhRead hd c p | _ => PhIdle p end
  | KUWrite hd p _ => match f with CWrite _ v => PhWrite hd v p | _ => PhIdle p end
  | KUUse p _ => match f with CRead c => PhUse c p | _ => PhIdle p end
  | KWClr a p _ | KWCas a p _ | KWSlept a p _ | KWClr2 a p _ | KWEnd a p _ => wph a p
  | _ => PhIdle (cc_prog c)
  end.

Definition phase (S : stack cc) : ph :=
  match S with
  | [f; FC c] => cph f c
  | [f; _; FC c] => cph f c
  | _ => PhIdle []
  end.

Definition ph_prog (h : ph) : list cop :=
  match h with
  | PhIdle p | PhData _ _ p | PhNull _ p | PhXchg _ p | PhLink _ _ p | PhHead p | PhNxt _ p
  | PhSet _ _ p | PhRead _ _ p | PhWrite _ _ p | PhUse _ p => p
  end.

(* ------------------------------------------------------------------ *)
(* instrumented machine *)
Record ist := { base : st; nodeat : nat -> nat; nval : nat -> Z;
                hi : nat; lo : nat; nret : nat;
                xlog : list (nat * Z); rlog : list Z }.

Definition istep (x : ist) (t : nat) : ist :=
  let s := base x in
  let s' := fst (step s t) in
  match phase (stk s t) with
  | PhData n v _ => {| base := s'; nodeat := nodeat x; nval := upd (nval x) n v;
                       hi := hi x; lo := lo x; nret := nret x; xlog := xlog x; rlog := rlog x |}
  | PhXchg n _ => {| base := s'; nodeat := upd (nodeat x) (S (hi x)) n; nval := nval x;
                     hi := S (hi x); lo := lo x; nret := nret x;
                     xlog := xlog x ++ [(t, nval x n)]; rlog := rlog x |}
  | PhSet _ _ _ => {| base := s'; nodeat := nodeat x; nval := nval x;
                      hi := hi x; lo := S (lo x); nret := nret x; xlog := xlog x; rlog := rlog x |}
  | PhUse c _ => {| base := s'; nodeat := nodeat x; nval := nval x;
                    hi := hi x; lo := lo x; nret := S (nret x); xlog := xlog x;
                    rlog := rlog x ++ [cell (mem s) c] |}
  | _ => {| base := s'; nodeat := nodeat x; nval := nval x;
            hi := hi x; lo := lo x; nret := nret x; xlog := xlog x; rlog := rlog x |}
  end.

Lemma istep_erase x t : base (istep x t) = fst (step (base x) t).
Proof. unfold istep. destruct (phase (stk (base x) t)); reflexivity. Qed.

Definition iinit (size : Z) (progs : list (list cop)) : ist :=
  {| base := init size progs; nodeat := fun _ => 1%nat; nval := fun _ => 0%Z;
     hi := 0; lo := 0; nret := 0; xlog := []; rlog := [] |}.

Inductive ireach (size : Z) (progs : list (list cop)) : ist -> Prop :=
| ir_init : ireach size progs (iinit size progs)
| ir_step x t : ireach size progs x -> status_of (base x) t = SReady ->
                ireach size progs (istep x t).

Lemma ireach_reachable size progs x :
  ireach size progs x -> reachable M (init size progs) (base x).
Proof.
  induction 1 as [|x t R IH St].
  - constructor.
  - rewrite istep_erase. apply (reach_step M (init size progs) (base x) t IH St).
Qed.

Lemma reachable_ireach size progs s :
  reachable M (init size progs) s -> exists x, ireach size progs x /\ base x = s.
Proof.
  induction 1 as [|s t R [x [Rx E]] St].
  - exists (iinit size progs). split; [constructor|reflexivity].
  - exists (istep x t). split.
    + constructor; [exact Rx|]. rewrite E. exact St.
    + rewrite istep_erase, E. reflexivity.
Qed.

Definition igrant (x : ist) (t : nat) : ist :=
  match status_of (base x) t with SReady => istep x t | _ => x end.
Definition irun (x : ist) (sch : list nat) : ist := fold_left igrant sch x.
Lemma ireach_irun size progs sch : forall x, ireach size progs x -> ireach size progs (irun x sch).
Proof.
  induction sch as [|t r IH]; intros x R; cbn; auto. apply IH.
  unfold igrant. destruct (status_of (base x) t) eqn:E; auto. constructor; assumption.
Qed.


(* ------------------------------------------------------------------ *)
(* cells *)
Ltac cells := unfold c_dat, c_nxt, c_head, c_tail, c_scr, c_waiter, c_buf, c_high, c_low in *; lia.

(* a cell that is not a queue cell *)
Definition nq (a : nat) : Prop :=
  a <> c_head /\ a <> c_tail /\ forall n, a <> c_dat n /\ a <> c_nxt n.

Lemma nq_scr t : nq (c_scr t).
Proof. repeat split; try intros n; try split; cells. Qed.
Lemma nq_waiter : nq c_waiter.
Proof. repeat split; try intros n; try split; cells. Qed.
Lemma nq_buf i : nq (c_buf i).
Proof. repeat split; try intros n; try split; cells. Qed.
Lemma nq_high : nq c_high.
Proof. repeat split; try intros n; try split; cells. Qed.
Lemma nq_low : nq c_low.
Proof. repeat split; try intros n; try split; cells. Qed.

Lemma dat_inj n m : c_dat n = c_dat m -> n = m. Proof. cells. Qed.
Lemma nxt_inj n m : c_nxt n = c_nxt m -> n = m. Proof. cells. Qed.
Lemma dat_nxt n m : c_dat n <> c_nxt m. Proof. cells. Qed.

Lemma set_cell_changed m c v a : cell (set_cell m c v) a <> cell m a -> a = c.
Proof.
  cbn. intros H. destruct (Nat.eq_dec a c) as [|N]; auto. rewrite upd_other in H by exact N. congruence.
Qed.

Lemma wake_cell m f : cell (wake m f) = cell m.
Proof. unfold wake. destruct (blocked m f); reflexivity. Qed.
Lemma wake_slot_wait m f : slot_wait (wake m f) = slot_wait m.
Proof. unfold wake. destruct (blocked m f); reflexivity. Qed.

(* ------------------------------------------------------------------ *)
(* the deferred set_wait_location always names the fiber's own scratch cell *)
Definition sw_ok (m : kmem) : Prop :=
  forall u c v, slot_wait m u = Some (c, v) -> c = c_scr u.

Record SInv (s : st) : Prop := {
  s_slot : sw_ok (mem s);
  s_msw : forall t c v r, stk s t = MSetWait c v :: r -> c = c_scr t
}.

Lemma sleep_facts m t r :
  let '(m1, e1, s1) := sleep cc m t r in
  cell m1 = cell m /\ slot_wait m1 = slot_wait m /\ (s1 = Asleep :: r \/ s1 = Resume :: r).
Proof. unfold sleep. destruct (pend m t); cbn; auto. Qed.

Lemma run_slots_facts m t r :
  (forall u, slot_mutex m u = None) -> sw_ok m ->
  let '(m1, e1, s1) := run_slots cc m t r in
  cell m1 = cell m /\ sw_ok m1 /\
  (s1 = Asleep :: r \/ s1 = Resume :: r \/ exists v, s1 = MSetWait (c_scr t) v :: r).
Proof.
  intros Nm Sw. unfold run_slots.
  destruct (if slot_sched m t then (wake (set_slot_sched m t false) t, ev t 901 919 (Zn t)) else (m, []))
    as [ma ea] eqn:Ea.
  assert (A : cell ma = cell m /\ slot_mutex ma = slot_mutex m /\ slot_wait ma = slot_wait m).
  { destruct (slot_sched m t); inversion Ea; subst; auto.
    unfold wake. destruct (blocked _ t); cbn; auto. }
  destruct A as (A1 & A2 & A3).
  set (mb := match slot_mpmc ma t with
             | Some q => set_mq (set_slot_mpmc ma t None) q (mq ma q ++ [t])
             | None => ma end).
  assert (B : cell mb = cell ma /\ slot_mutex mb = slot_mutex ma /\ slot_wait mb = slot_wait ma).
  { unfold mb. destruct (slot_mpmc ma t); cbn; auto. }
  destruct B as (B1 & B2 & B3). clearbody mb.
  rewrite B2, A2, Nm.
  destruct (slot_wait mb t) as [[c v]|] eqn:W.
  - cbn. split; [congruence|]. split.
    + intros u c0 v0. cbn. unfold upd. destruct (u =? t); [discriminate|].
      rewrite B3, A3. apply Sw.
    + right; right. exists v. rewrite B3, A3 in W. rewrite (Sw _ _ _ W). reflexivity.
  - pose proof (sleep_facts mb t r) as S. destruct (sleep cc mb t r) as [[m2 e2] s2].
    destruct S as (S1 & S2 & S3). split; [congruence|]. split.
    + intros u c0 v0. rewrite S2, B3, A3. apply Sw.
    + destruct S3; auto.
Qed.

Lemma ycont_cph c f f' : ycont c -> cph f c = cph f' c.
Proof. destruct c; cbn; try contradiction; reflexivity. Qed.

Lemma yield_phase y c : ycont c -> phase (ystack y ++ [FC c]) = cph YRead c.
Proof. intros H. destruct y; cbn; apply ycont_cph; exact H. Qed.

Lemma yield_kstep size m t y c :
  ycont c -> (forall u, slot_mutex m u = None) -> sw_ok m ->
  (forall c0 v0, y = YfMSet c0 v0 -> c0 = c_scr t) ->
  let '(m1, e1, s1) := kstep cc (cret size) m t (ystack y ++ [FC c]) in
  (forall a, cell m1 a <> cell m a -> a = c_scr t) /\ sw_ok m1 /\
  ((exists y', s1 = ystack y' ++ [FC c] /\ forall c0 v0, y' = YfMSet c0 v0 -> c0 = c_scr t)
   \/ (exists f c', s1 = [f; FC c'] /\ cph f c' = cph YRead c /\ forall c0 v0, f <> MSetWait c0 v0)).
Proof.
  intros Hc Nm Sw Hy.
  assert (L : forall y', (forall c0 v0, y' <> YfMSet c0 v0) ->
              (exists y'', ystack y' ++ [FC c] = ystack y'' ++ [FC c] /\
                           forall c0 v0, y'' = YfMSet c0 v0 -> c0 = c_scr t)).
  { intros y' N. exists y'. split; auto. intros c0 v0 E. destruct (N _ _ E). }
  assert (RS : forall m0, cell m0 = cell m -> (forall u, slot_mutex m0 u = None) -> sw_ok m0 ->
     let '(m1, e1, s1) := run_slots cc m0 t [YLoop; FC c] in
     (forall a, cell m1 a <> cell m a -> a = c_scr t) /\ sw_ok m1 /\
     ((exists y', s1 = ystack y' ++ [FC c] /\ forall c0 v0, y' = YfMSet c0 v0 -> c0 = c_scr t)
      \/ (exists f c', s1 = [f; FC c'] /\ cph f c' = cph YRead c /\ forall c0 v0, f <> MSetWait c0 v0))).
  { intros m0 E0 Nm0 Sw0. pose proof (run_slots_facts m0 t [YLoop; FC c] Nm0 Sw0) as R.
    destruct (run_slots cc m0 t [YLoop; FC c]) as [[m1 e1] s1]. destruct R as (R1 & R2 & R3).
    split; [intros a Ha; rewrite R1, E0 in Ha; congruence|]. split; [exact R2|]. left.
    destruct R3 as [->|[->|[v ->]]].
    - apply (L YfAsleep). discriminate.
    - apply (L YfResume). discriminate.
    - exists (YfMSet (c_scr t) v). split; auto. intros c0 v0 E. inversion E; reflexivity. }
  destruct y; cbn.
  - (* YRead *) split; [congruence|]. split; [exact Sw|]. left. apply (L (YfNext _)). discriminate.
  - (* YNext *)
    destruct ((st =? ST_WAITING) || (st =? ST_DONE) || (st =? ST_SAVING))%Z.
    + split; [congruence|]. split; [exact Sw|]. left. apply (L YfSwRead). discriminate.
    + destruct c; cbn in Hc; try contradiction; cbn.
      * split; [congruence|]. split; [exact Sw|]. right. eexists _, _. split; [reflexivity|].
        split; [reflexivity|]. discriminate.
      * split; [congruence|]. split; [exact Sw|]. right. eexists _, _. split; [reflexivity|].
        split; [reflexivity|]. discriminate.
  - (* SwRead *)
    destruct (fstate m t =? ST_RUNNING)%Z; (split; [congruence|]); (split; [exact Sw|]); left.
    + apply (L YfSwReady). discriminate.
    + apply (L YfSwDone). discriminate.
  - split; [cbn; congruence|]. split; [intros u c0 v0; cbn; apply Sw|]. left. apply (L YfSwDone). discriminate.
  - split; [congruence|]. split; [exact Sw|]. left. apply (L YfMRead). discriminate.
  - (* MRead *)
    destruct (fstate m t =? ST_SAVING)%Z.
    + split; [congruence|]. split; [exact Sw|]. left. apply (L YfMFlip). discriminate.
    + pose proof (RS m eq_refl Nm Sw) as R.
      destruct (run_slots cc m t [YLoop; FC c]) as [[m1 e1] s1]. exact R.
  - (* MFlip *)
    pose proof (RS (set_fstate m t ST_WAITING) eq_refl Nm Sw) as R.
    destruct (run_slots cc (set_fstate m t ST_WAITING) t [YLoop; FC c]) as [[m1 e1] s1]. exact R.
  - (* MSetWait *)
    pose proof (sleep_facts (set_cell m c0 v) t [YLoop; FC c]) as R.
    destruct (sleep cc (set_cell m c0 v) t [YLoop; FC c]) as [[m1 e1] s1].
    destruct R as (R1 & R2 & R3). rewrite (Hy c0 v eq_refl) in *.
    split; [intros a Ha; rewrite R1 in Ha; apply (set_cell_changed _ _ _ _ Ha)|].
    split; [intros u c1 v1; rewrite R2; cbn; apply Sw|]. left.
    destruct R3 as [->| ->]; [apply (L YfAsleep)|apply (L YfResume)]; discriminate.
  - (* Asleep *) split; [congruence|]. split; [exact Sw|]. left. apply (L YfResume). discriminate.
  - (* Resume *) split; [cbn; congruence|]. split; [intros u c0 v0; cbn; apply Sw|]. left.
    apply (L YfRead). discriminate.
Qed.

Lemma start_not_msw t p k c v r : start t p k <> MSetWait c v :: r.
Proof. unfold start. destruct p as [|[| |n v0| | |v0| |] p]; discriminate. Qed.

Lemma sinv_of_kstep s t :
  SInv s ->
  (let '(m1, e1, s1) := kstep cc (cret (csize s)) (mem s) t (stk s t) in
   sw_ok m1 /\ (forall c v r, s1 = MSetWait c v :: r -> c = c_scr t)) ->
  SInv (fst (step s t)).
Proof.
  intros [S1 S2] H. unfold step.
  destruct (kstep cc (cret (csize s)) (mem s) t (stk s t)) as [[m1 e1] s1].
  destruct H as [H1 H2]. constructor; cbn.
  - exact H1.
  - intros u c v r. destruct (Nat.eq_dec u t) as [->|Hne].
    + rewrite upd_same. apply H2.
    + rewrite upd_other by assumption. apply S2.
Qed.

Lemma init_sinv size progs : SInv (init size progs).
Proof. constructor; cbn; intros; discriminate. Qed.

Lemma sinv_step s t : BInv s -> SInv s -> SInv (fst (step s t)).
Proof.
  intros B S. apply sinv_of_kstep; [exact S|].
  pose proof (b_shape s B t) as Sh. pose proof (b_nomutex s B) as Nm.
  pose proof (s_slot s S) as Sw. pose proof (s_msw s S t) as Ms.
  remember (stk s t) as St eqn:ES. remember (csize s) as size eqn:Esz. clear ES.
  destruct Sh; cbn.
  all: try (try match goal with a : wk |- _ => destruct a end;
            repeat match goal with
                   | |- context [if ?b then _ else _] => destruct b eqn:?
                   end; cbn;
            (split; [intros u c0 v0; cbn; rewrite ?wake_slot_wait; try apply Sw
                    | intros c0 v0 r0 E; rewrite ?app_nil_r in E;
                      first [discriminate | exact (False_ind _ (start_not_msw _ _ _ _ _ _ E))]]); fail).
  - (* SWState *)
    split; [|discriminate]. intros u c0 v0. cbn. unfold upd. destruct (u =? t) eqn:E.
    + apply Nat.eqb_eq in E. subst u. intros H; inversion H; reflexivity.
    + apply Sw.
  - (* yield *)
    pose proof (yield_kstep size (mem s) t y c H Nm Sw) as Y.
    assert (Hy : forall c0 v0, y = YfMSet c0 v0 -> c0 = c_scr t).
    { intros c0 v0 ->. cbn in Ms. eapply Ms. reflexivity. }
    specialize (Y Hy).
    destruct (kstep cc (cret size) (mem s) t (ystack y ++ [FC c])) as [[m1 e1] s1].
    destruct Y as (_ & Y2 & Y3). split; [exact Y2|].
    intros c0 v0 r0 E. destruct Y3 as [[y' [-> Y3]]|[f [c' [-> [_ Y3]]]]].
    + destruct y'; cbn in E; try discriminate. inversion E; subst. eapply Y3; reflexivity.
    + inversion E. destruct (Y3 _ _ H1).
Qed.

Lemma reachable_sinv size progs s : reachable M (init size progs) s -> SInv s.
Proof.
  intros R. assert (H : BInv s /\ SInv s); [|tauto].
  revert s R. apply (invariant_ind M).
  - split; [apply init_binv|apply init_sinv].
  - intros s0 t [B S] _. split; [apply binv_step; exact B|apply sinv_step; assumption].
Qed.

(* ------------------------------------------------------------------ *)
(* usage discipline *)
Fixpoint pushed (p : list cop) : list nat :=
  match p with
  | [] => []
  | OUSend n _ :: r => n :: pushed r
  | _ :: r => pushed r
  end.

(* the values a program sends, in program order *)
Fixpoint usends (p : list cop) : list Z :=
  match p with
  | [] => []
  | OUSend _ v :: r => v :: usends r
  | _ :: r => usends r
  end.

Fixpoint norecv (p : list cop) : Prop :=
  match p with
  | [] => True
  | OURecv :: _ => False
  | OUTry :: _ => False
  | _ :: r => norecv r
  end.

(* single receiver w; every node is sent at most once, by one thread, and is
   neither NULL nor the initial stub (node 1) *)
Record uchan_progs_ok (w : nat) (progs : list (list cop)) : Prop := {
  ok_recv : forall t, t <> w -> norecv (nth t progs []);
  ok_nodup : forall t, NoDup (pushed (nth t progs []));
  ok_disj : forall t u n, In n (pushed (nth t progs [])) -> In n (pushed (nth u progs [])) -> t = u;
  ok_node : forall t n, In n (pushed (nth t progs [])) -> 2 <= n
}.

(* nodes a thread will still install (including the one it is preparing) *)
Definition own (h : ph) : list nat :=
  match h with
  | PhData n _ p | PhNull n p | PhXchg n p => n :: pushed p
  | _ => pushed (ph_prog h)
  end.

(* values the thread will still log at a tail exchange *)
Definition pend (nv : nat -> Z) (h : ph) : list Z :=
  match h with
  | PhData _ v p => v :: usends p
  | PhNull n p | PhXchg n p => nv n :: usends p
  | _ => usends (ph_prog h)
  end.

Definition recv_ph (h : ph) : bool :=
  match h with
  | PhHead _ | PhNxt _ _ | PhSet _ _ _ | PhRead _ _ _ | PhWrite _ _ _ | PhUse _ _ => true
  | _ => false
  end.
Definition popping (h : ph) : bool :=
  match h with PhRead _ _ _ | PhWrite _ _ _ | PhUse _ _ => true | _ => false end.
Definition is_link (h : ph) : bool :=
  match h with PhLink _ _ _ => true | _ => false end.
Definition plain (h : ph) : Prop :=
  match h with PhIdle _ | PhHead _ => True | _ => False end.

(* what a thread in phase h knows *)
Definition lok (lo hi : nat) (na : nat -> nat) (nv : nat -> Z) (C : nat -> Z) (h : ph) : Prop :=
  match h with
  | PhNull n _ => C (c_dat n) = nv n
  | PhXchg n _ => C (c_dat n) = nv n /\ C (c_nxt n) = 0%Z
  | PhLink c v _ => exists i, lo <= i < hi /\ c = c_nxt (na i) /\ v = Zn (na (S i)) /\ C c = 0%Z
  | PhNxt hd _ => hd = na lo
  | PhSet hd v _ => hd = na lo /\ v = Zn (na (S lo)) /\ lo < hi /\ C (c_nxt (na lo)) = v
  | PhRead hd c _ => 1 <= lo /\ hd = na (lo - 1) /\ c = c_dat (na lo) /\ C c = nv (na lo)
  | PhWrite hd v _ => 1 <= lo /\ hd = na (lo - 1) /\ v = nv (na lo)
  | PhUse c _ => 1 <= lo /\ c = c_dat (na (lo - 1)) /\ C c = nv (na lo)
  | _ => True
  end.

(* phase of the first access of the next call *)
Definition sph (p : list cop) : ph :=
  match p with
  | [] => PhIdle []
  | OUSend n v :: r => PhData n v r
  | OURecv :: r => PhHead r
  | OUTry :: r => PhHead r
  | _ :: r => PhIdle r
  end.

Lemma start_phase t p k : phase (start t p k) = sph p.
Proof. unfold start. destruct p as [|[| |n v| | |v| |] p]; reflexivity. Qed.
Lemma sph_own p : own (sph p) = pushed p.
Proof. destruct p as [|[| |n v| | |v| |] p]; reflexivity. Qed.
Lemma sph_pend nv p : pend nv (sph p) = usends p.
Proof. destruct p as [|[| |n v| | |v| |] p]; reflexivity. Qed.
Lemma sph_lok lo hi na nv C p : lok lo hi na nv C (sph p).
Proof. destruct p as [|[| |n v| | |v| |] p]; exact I. Qed.
Lemma sph_link p : is_link (sph p) = false.
Proof. destruct p as [|[| |n v| | |v| |] p]; reflexivity. Qed.
Lemma sph_popping p : popping (sph p) = false.
Proof. destruct p as [|[| |n v| | |v| |] p]; reflexivity. Qed.
Lemma sph_recv p : norecv p -> recv_ph (sph p) = false /\ norecv (ph_prog (sph p)).
Proof. destruct p as [|[| |n v| | |v| |] p]; cbn; auto; contradiction. Qed.

Lemma seq_snoc a n : seq a (S n) = seq a n ++ [a + n].
Proof. rewrite <- Nat.add_1_r, seq_app. reflexivity. Qed.

(* stability of cells / ghosts outside a set O of nodes *)
Lemma mem_stable (C C' : nat -> Z) (O : list nat) m :
  (forall a, C' a <> C a -> nq a \/ exists n, In n O /\ (a = c_dat n \/ a = c_nxt n)) ->
  ~ In m O -> C' (c_dat m) = C (c_dat m) /\ C' (c_nxt m) = C (c_nxt m).
Proof.
  intros H Nin. split.
  - destruct (Z.eq_dec (C' (c_dat m)) (C (c_dat m))) as [|N]; auto. exfalso.
    destruct (H _ N) as [(_ & _ & Q)|[n [Hn [E|E]]]].
    + destruct (Q m); congruence.
    + apply dat_inj in E. congruence.
    + exact (dat_nxt _ _ E).
  - destruct (Z.eq_dec (C' (c_nxt m)) (C (c_nxt m))) as [|N]; auto. exfalso.
    destruct (H _ N) as [(_ & _ & Q)|[n [Hn [E|E]]]].
    + destruct (Q m); congruence.
    + symmetry in E. exact (dat_nxt _ _ E).
    + apply nxt_inj in E. congruence.
Qed.

Lemma mem_stable_ht (C C' : nat -> Z) (O : list nat) :
  (forall a, C' a <> C a -> nq a \/ exists n, In n O /\ (a = c_dat n \/ a = c_nxt n)) ->
  C' c_head = C c_head /\ C' c_tail = C c_tail.
Proof.
  intros H. split.
  - destruct (Z.eq_dec (C' c_head) (C c_head)) as [|N]; auto. exfalso.
    destruct (H _ N) as [(Q & _)|[n [Hn [E|E]]]]; [congruence|cells|cells].
  - destruct (Z.eq_dec (C' c_tail) (C c_tail)) as [|N]; auto. exfalso.
    destruct (H _ N) as [(_ & Q & _)|[n [Hn [E|E]]]]; [congruence|cells|cells].
Qed.

Lemma nv_stable (nv nv' : nat -> Z) (O : list nat) m :
  (forall n, nv' n <> nv n -> In n O) -> ~ In m O -> nv' m = nv m.
Proof.
  intros H Nin. destruct (Z.eq_dec (nv' m) (nv m)) as [|N]; auto. destruct (Nin (H _ N)).
Qed.

Lemma pend_stable nv nv' h :
  (forall n, In n (own h) -> nv' n = nv n) -> pend nv' h = pend nv h.
Proof.
  intros H. destruct h; cbn; auto; f_equal; apply H; left; reflexivity.
Qed.

Lemma lok_frame lo hi na nv nv' (C C' : nat -> Z) h :
  lok lo hi na nv C h -> lo <= hi ->
  (forall i, i <= hi -> C' (c_dat (na i)) = C (c_dat (na i)) /\
                        C' (c_nxt (na i)) = C (c_nxt (na i)) /\ nv' (na i) = nv (na i)) ->
  (forall n, In n (own h) -> C' (c_dat n) = C (c_dat n) /\ C' (c_nxt n) = C (c_nxt n) /\ nv' n = nv n) ->
  lok lo hi na nv' C' h.
Proof.
  intros L O Hc Ho. destruct h; cbn in *; auto.
  - destruct (Ho n (or_introl eq_refl)) as (A & B & D). congruence.
  - destruct (Ho n (or_introl eq_refl)) as (A & B & D). destruct L. split; congruence.
  - destruct L as [i (Hi & -> & -> & Z)]. exists i. repeat split; try lia.
    destruct (Hc i ltac:(lia)) as (_ & B & _). congruence.
  - destruct L as (-> & -> & Hl & E). repeat split; auto.
    destruct (Hc lo ltac:(lia)) as (_ & B & _). congruence.
  - destruct L as (Hl & -> & -> & E). repeat split; auto.
    destruct (Hc lo ltac:(lia)) as (A & _ & D). congruence.
  - destruct L as (Hl & -> & ->). repeat split; auto.
    destruct (Hc lo ltac:(lia)) as (_ & _ & D). congruence.
  - destruct L as (Hl & -> & E). repeat split; auto.
    destruct (Hc lo ltac:(lia)) as (_ & _ & D). destruct (Hc (lo - 1) ltac:(lia)) as (A & _ & _). congruence.
Qed.

(* ------------------------------------------------------------------ *)
Definition phs (x : ist) (t : nat) : ph := phase (stk (base x) t).
Definition Cx (x : ist) : nat -> Z := cell (mem (base x)).

Section Inv.
Variable w : nat.
Variable progs : list (list cop).

Record GInv (x : ist) : Prop := {
  g_ord : lo x <= hi x;
  g_head : Cx x c_head = Zn (nodeat x (lo x));
  g_tail : Cx x c_tail = Zn (nodeat x (hi x));
  g_inj : forall i j, i <= hi x -> j <= hi x -> nodeat x i = nodeat x j -> i = j;
  g_nz : forall i, i <= hi x -> nodeat x i <> 0;
  g_link : forall i, lo x <= i < hi x ->
             Cx x (c_nxt (nodeat x i)) = 0%Z \/ Cx x (c_nxt (nodeat x i)) = Zn (nodeat x (S i));
  g_last : Cx x (c_nxt (nodeat x (hi x))) = 0%Z;
  g_dat : forall i, lo x < i <= hi x -> Cx x (c_dat (nodeat x i)) = nval x (nodeat x i);
  g_loc : forall t, lok (lo x) (hi x) (nodeat x) (nval x) (Cx x) (phs x t);
  g_luni : forall t u c v p v' p', phs x t = PhLink c v p -> phs x u = PhLink c v' p' -> t = u;
  g_recv : forall t, t <> w -> recv_ph (phs x t) = false /\ norecv (ph_prog (phs x t));
  g_ret : if popping (phs x w) then nret x + 1 = lo x else nret x = lo x;
  g_own_nd : forall t, NoDup (own (phs x t));
  g_own_dj : forall t u n, In n (own (phs x t)) -> In n (own (phs x u)) -> t = u;
  g_own_nq : forall t n, In n (own (phs x t)) -> n <> 0 /\ forall i, i <= hi x -> nodeat x i <> n;
  g_xlog : map snd (xlog x) = map (fun i => nval x (nodeat x i)) (seq 1 (hi x));
  g_rlog : rlog x = map (fun i => nval x (nodeat x i)) (seq 1 (nret x));
  g_snd : forall t, usends (nth t progs []) =
                    map snd (filter (fun e => fst e =? t) (xlog x)) ++ pend (nval x) (phs x t)
}.

Lemma init_inv size : uchan_progs_ok w progs -> GInv (iinit size progs).
Proof.
  intros [Wr Wn Wd Wz].
  assert (P : forall t, phs (iinit size progs) t = PhIdle (nth t progs [])) by reflexivity.
  constructor; cbn [iinit lo hi nodeat nval nret xlog rlog]; intros; rewrite ?P in *; cbn;
    auto; try lia; try discriminate.
  - eapply Wd; eassumption.
  - match goal with H : In _ _ |- _ => cbn in H; pose proof (Wz _ _ H) end.
    split; [lia|]. intros i _. lia.
Qed.

Lemma nret_le x : GInv x -> nret x <= lo x.
Proof. intros G. pose proof (g_ret x G) as R. destruct (popping (phs x w)); lia. Qed.

(* Steps that change only thread t's stack, cells outside the queue or cells
   of nodes t owns, and nval of nodes t owns; the chain ghosts are unchanged. *)
Lemma frame_step x x' t :
  GInv x ->
  nodeat x' = nodeat x -> hi x' = hi x -> lo x' = lo x -> xlog x' = xlog x ->
  (forall u, u <> t -> stk (base x') u = stk (base x) u) ->
  (forall a, Cx x' a <> Cx x a ->
             nq a \/ exists n, In n (own (phs x t)) /\ (a = c_dat n \/ a = c_nxt n)) ->
  (forall n, nval x' n <> nval x n -> In n (own (phs x t))) ->
  is_link (phs x t) = false -> is_link (phs x' t) = false ->
  NoDup (own (phs x' t)) -> incl (own (phs x' t)) (own (phs x t)) ->
  pend (nval x') (phs x' t) = pend (nval x) (phs x t) ->
  (t <> w -> recv_ph (phs x' t) = false /\ norecv (ph_prog (phs x' t))) ->
  (if popping (phs x' w) then nret x' + 1 = lo x else nret x' = lo x) ->
  rlog x' = map (fun i => nval x (nodeat x i)) (seq 1 (nret x')) ->
  lok (lo x) (hi x) (nodeat x) (nval x') (Cx x') (phs x' t) ->
  GInv x'.
Proof.
  intros G En Eh El Ex Hst Hmem Hnv L L' Nd Inc Pe Rc Rt Rl Lk.
  assert (Po : forall u, u <> t -> phs x' u = phs x u).
  { intros u Hu. unfold phs. rewrite Hst by exact Hu. reflexivity. }
  destruct G as [Go Gh Gt Gi Gz Gl Gla Gd Gloc Gu Gr Gret Ond Odj Onq Gx Gq Gs].
  destruct (mem_stable_ht _ _ _ Hmem) as [Sh St].
  assert (SC : forall i, i <= hi x ->
             Cx x' (c_dat (nodeat x i)) = Cx x (c_dat (nodeat x i)) /\
             Cx x' (c_nxt (nodeat x i)) = Cx x (c_nxt (nodeat x i)) /\
             nval x' (nodeat x i) = nval x (nodeat x i)).
  { intros i Hi.
    assert (Nin : ~ In (nodeat x i) (own (phs x t))).
    { intros H. destruct (Onq t _ H) as [_ Q]. exact (Q i Hi eq_refl). }
    destruct (mem_stable _ _ _ _ Hmem Nin). split; [|split]; auto. apply (nv_stable _ _ _ _ Hnv Nin). }
  assert (SO : forall u n, u <> t -> In n (own (phs x u)) ->
             Cx x' (c_dat n) = Cx x (c_dat n) /\ Cx x' (c_nxt n) = Cx x (c_nxt n) /\ nval x' n = nval x n).
  { intros u n Hu Hn.
    assert (Nin : ~ In n (own (phs x t))).
    { intros H. apply Hu. apply (Odj u t n); assumption. }
    destruct (mem_stable _ _ _ _ Hmem Nin). split; [|split]; auto. apply (nv_stable _ _ _ _ Hnv Nin). }
  constructor; rewrite ?En, ?Eh, ?El, ?Ex.
  - exact Go.
  - congruence.
  - congruence.
  - exact Gi.
  - exact Gz.
  - intros i Hi. destruct (SC i ltac:(lia)) as (_ & B & _). rewrite B. apply Gl; exact Hi.
  - destruct (SC (hi x) ltac:(lia)) as (_ & B & _). congruence.
  - intros i Hi. destruct (SC i ltac:(lia)) as (A & _ & D). rewrite A, D. apply Gd; exact Hi.
  - intros u. destruct (Nat.eq_dec u t) as [->|Hu]; [exact Lk|].
    rewrite Po by exact Hu. apply lok_frame with (nv := nval x) (C := Cx x); auto.
    intros n Hn. apply (SO u); assumption.
  - intros u1 u2 c v p v' p' H1 H2.
    destruct (Nat.eq_dec u1 t) as [->|N1]; [rewrite H1 in L'; discriminate|].
    destruct (Nat.eq_dec u2 t) as [->|N2]; [rewrite H2 in L'; discriminate|].
    rewrite Po in H1, H2 by assumption. exact (Gu _ _ _ _ _ _ _ H1 H2).
  - intros u Hu. destruct (Nat.eq_dec u t) as [->|N]; [apply Rc; exact Hu|].
    rewrite Po by exact N. apply Gr; exact Hu.
  - exact Rt.
  - intros u. destruct (Nat.eq_dec u t) as [->|N]; [exact Nd|]. rewrite Po by exact N. apply Ond.
  - intros u1 u2 n H1 H2.
    destruct (Nat.eq_dec u1 t) as [->|N1]; destruct (Nat.eq_dec u2 t) as [->|N2]; auto.
    + rewrite Po in H2 by exact N2. apply (Odj t u2 n); auto.
    + rewrite Po in H1 by exact N1. apply (Odj u1 t n); auto.
    + rewrite Po in H1, H2 by assumption. apply (Odj u1 u2 n); auto.
  - intros u n H. destruct (Nat.eq_dec u t) as [->|N].
    + apply (Onq t). apply Inc; exact H.
    + rewrite Po in H by exact N. apply (Onq u); exact H.
  - rewrite Gx. apply map_ext_in. intros i Hi. apply in_seq in Hi.
    destruct (SC i ltac:(lia)) as (_ & _ & D). congruence.
  - rewrite Rl. apply map_ext_in. intros i Hi. apply in_seq in Hi.
    assert (nret x' <= lo x) by (destruct (popping (phs x' w)); lia).
    destruct (SC i ltac:(lia)) as (_ & _ & D). congruence.
  - intros u. destruct (Nat.eq_dec u t) as [->|N].
    + rewrite Pe. apply Gs.
    + rewrite Po by exact N. rewrite (pend_stable (nval x) (nval x')); [apply Gs|].
      intros n Hn. apply (SO u); assumption.
Qed.

Definition with_base (x : ist) (s' : st) : ist :=
  {| base := s'; nodeat := nodeat x; nval := nval x; hi := hi x; lo := lo x; nret := nret x;
     xlog := xlog x; rlog := rlog x |}.

Lemma istep_plain x t : plain (phs x t) -> istep x t = with_base x (fst (step (base x) t)).
Proof. unfold istep, phs. destruct (phase _); cbn; try contradiction; reflexivity. Qed.

Lemma plain_facts h : plain h -> is_link h = false /\ popping h = false /\
  forall lo hi na nv C, lok lo hi na nv C h.
Proof. destruct h; cbn; try contradiction; intros _; repeat split. Qed.

(* signal / bounded-channel / yield steps: no queue cell changes, the phase stays
   or goes from idle to the first access of the next call *)
Lemma nonq_step x t :
  GInv x -> plain (phs x t) ->
  (let '(m1, e1, s1) := kstep cc (cret (csize (base x))) (mem (base x)) t (stk (base x) t) in
   (forall a, cell m1 a <> cell (mem (base x)) a -> nq a) /\
   (phase s1 = phs x t \/ exists p k, phs x t = PhIdle p /\ s1 = start t p k)) ->
  GInv (istep x t).
Proof.
  intros G Pl H. rewrite istep_plain by exact Pl. unfold step.
  destruct (kstep cc (cret (csize (base x))) (mem (base x)) t (stk (base x) t)) as [[m1 e1] s1].
  destruct H as [Hm Hp]. cbn [fst].
  match goal with |- GInv ?y => set (x' := y) end.
  assert (P' : phs x' t = phase s1) by (unfold phs; cbn; rewrite upd_same; reflexivity).
  assert (Po : forall u, u <> t -> phs x' u = phs x u).
  { intros u Hu. unfold phs. cbn. rewrite upd_other by exact Hu. reflexivity. }
  destruct (plain_facts _ Pl) as (F1 & F2 & F3).
  assert (F : is_link (phase s1) = false /\ own (phase s1) = own (phs x t) /\
              (forall nv, pend nv (phase s1) = pend nv (phs x t)) /\ popping (phase s1) = false /\
              (forall lo hi na nv C, lok lo hi na nv C (phase s1)) /\
              (recv_ph (phs x t) = false /\ norecv (ph_prog (phs x t)) ->
               recv_ph (phase s1) = false /\ norecv (ph_prog (phase s1)))).
  { destruct Hp as [->|[p [k [E ->]]]]; [repeat split; tauto|].
    rewrite E, start_phase. split; [apply sph_link|]. split; [apply sph_own|].
    split; [intros nv; apply sph_pend|]. split; [apply sph_popping|].
    split; [intros; apply sph_lok|]. intros [_ N]. apply sph_recv. exact N. }
  destruct F as (A1 & A2 & A3 & A4 & A5 & A6).
  apply (frame_step x x' t G eq_refl eq_refl eq_refl eq_refl).
  - intros u Hu. cbn. apply upd_other; exact Hu.
  - intros a Ha. left. apply Hm. exact Ha.
  - intros n Hn. destruct (Hn eq_refl).
  - exact F1.
  - rewrite P'. exact A1.
  - rewrite P', A2. apply (g_own_nd x G).
  - rewrite P', A2. apply incl_refl.
  - rewrite P'. apply A3.
  - intros Ht. rewrite P'. apply A6. apply (g_recv x G); exact Ht.
  - pose proof (g_ret x G) as R. cbn [nret x'].
    destruct (Nat.eq_dec w t) as [->|N].
    + rewrite P', A4. rewrite F2 in R. exact R.
    + rewrite Po by exact N. exact R.
  - apply (g_rlog x G).
  - rewrite P'. apply A5.
Qed.

Lemma Zn_id n : Z.to_nat (Zn n) = n.
Proof. unfold Zn. apply Nat2Z.id. Qed.
Lemma Zn_inj n m : Zn n = Zn m -> n = m.
Proof. unfold Zn. apply Nat2Z.inj. Qed.
Lemma Zn_nz n : n <> 0 -> Zn n <> 0%Z.
Proof. unfold Zn. lia. Qed.

(* lok when the chain grows at the tail / cells of no node change *)
Lemma lok_ext lo hi hi' na na' nv (C C' : nat -> Z) h :
  lok lo hi na nv C h -> lo <= hi -> hi <= hi' ->
  (forall i, i <= hi -> na' i = na i) ->
  (forall n, C' (c_dat n) = C (c_dat n) /\ C' (c_nxt n) = C (c_nxt n)) ->
  lok lo hi' na' nv C' h.
Proof.
  intros L O O' Hn Hc. destruct h; cbn in *; auto.
  - rewrite (proj1 (Hc n)). exact L.
  - rewrite (proj1 (Hc n)), (proj2 (Hc n)). exact L.
  - destruct L as [i (Hi & -> & -> & Z)]. exists i. rewrite !Hn by lia.
    repeat split; try lia. rewrite (proj2 (Hc _)). exact Z.
  - rewrite Hn by lia. exact L.
  - destruct L as (-> & -> & Hl & E). rewrite !Hn by lia. repeat split; try lia.
    rewrite (proj2 (Hc _)). exact E.
  - destruct L as (Hl & -> & -> & E). rewrite !Hn by lia. repeat split; auto.
    rewrite (proj1 (Hc _)). exact E.
  - destruct L as (Hl & -> & ->). rewrite !Hn by lia. repeat split; auto.
  - destruct L as (Hl & -> & E). rewrite !Hn by lia. repeat split; auto.
    rewrite (proj1 (Hc _)). exact E.
Qed.

(* ---- the tail exchange ---- *)
Lemma xchg_step x x' t n p :
  GInv x -> phs x t = PhXchg n p ->
  (forall u, u <> t -> stk (base x') u = stk (base x) u) ->
  phs x' t = PhLink (c_nxt (Z.to_nat (Cx x c_tail))) (Zn n) p ->
  Cx x' = upd (Cx x) c_tail (Zn n) ->
  nodeat x' = upd (nodeat x) (S (hi x)) n -> nval x' = nval x -> hi x' = S (hi x) ->
  lo x' = lo x -> nret x' = nret x -> xlog x' = xlog x ++ [(t, nval x n)] -> rlog x' = rlog x ->
  GInv x'.
Proof.
  intros G Ph Hst Ph' Ec En Ev Eh El Er Ex Eq.
  assert (Po : forall u, u <> t -> phs x' u = phs x u).
  { intros u Hu. unfold phs. rewrite Hst by exact Hu. reflexivity. }
  pose proof (nret_le x G) as Nle.
  destruct G as [Go Gh Gt Gi Gz Gl Gla Gd Gloc Gu Gr Gret Ond Odj Onq Gx Gq Gs].
  pose proof (Gloc t) as Lt. rewrite Ph in Lt. cbn in Lt. destruct Lt as [D1 D2].
  pose proof (Onq t n) as Qn. rewrite Ph in Qn. destruct (Qn (or_introl eq_refl)) as [Nz Q]. clear Qn.
  pose proof (Ond t) as Ndt. rewrite Ph in Ndt. cbn in Ndt. apply NoDup_cons_iff in Ndt. destruct Ndt as [Nin Ndp].
  assert (NA : forall i, i <= hi x -> nodeat x' i = nodeat x i).
  { intros i Hi. rewrite En. apply upd_other. lia. }
  assert (NS : nodeat x' (S (hi x)) = n) by (rewrite En; apply upd_same).
  assert (CT : forall a, a <> c_tail -> Cx x' a = Cx x a).
  { intros a Ha. rewrite Ec. apply upd_other. exact Ha. }
  assert (CN : forall m, Cx x' (c_dat m) = Cx x (c_dat m) /\ Cx x' (c_nxt m) = Cx x (c_nxt m)).
  { intros m. split; apply CT; cells. }
  assert (Tail : Z.to_nat (Cx x c_tail) = nodeat x (hi x)) by (rewrite Gt; apply Zn_id).
  rewrite Tail in Ph'.
  assert (Inc : forall u m, In m (own (phs x' u)) -> In m (own (phs x u))).
  { intros u m. destruct (Nat.eq_dec u t) as [->|N].
    - rewrite Ph, Ph'. cbn. auto.
    - rewrite Po by exact N. auto. }
  constructor; rewrite ?Eh, ?El, ?Ev, ?Er, ?Eq.
  - lia.
  - rewrite CT by cells. rewrite NA by lia. exact Gh.
  - rewrite Ec, upd_same, NS. reflexivity.
  - intros i j Hi Hj E.
    destruct (Nat.eq_dec i (S (hi x))) as [->|Ni]; destruct (Nat.eq_dec j (S (hi x))) as [->|Nj]; auto.
    + rewrite NS, NA in E by lia. exfalso. apply (Q j ltac:(lia)). congruence.
    + rewrite NS, NA in E by lia. exfalso. apply (Q i ltac:(lia)). congruence.
    + rewrite !NA in E by lia. apply Gi; auto; lia.
  - intros i Hi. destruct (Nat.eq_dec i (S (hi x))) as [->|Ni]; [rewrite NS; exact Nz|].
    rewrite NA by lia. apply Gz. lia.
  - intros i Hi. rewrite (proj2 (CN _)).
    destruct (Nat.eq_dec i (hi x)) as [->|N].
    + left. rewrite NA by lia. exact Gla.
    + rewrite !NA by lia. apply Gl. lia.
  - rewrite NS, (proj2 (CN _)). exact D2.
  - intros i Hi. rewrite (proj1 (CN _)).
    destruct (Nat.eq_dec i (S (hi x))) as [->|N]; [rewrite NS; exact D1|].
    rewrite NA by lia. apply Gd. lia.
  - intros u. destruct (Nat.eq_dec u t) as [->|N].
    + rewrite Ph'. cbn. exists (hi x). rewrite NA, NS by lia. repeat split; try lia.
      rewrite (proj2 (CN _)). exact Gla.
    + rewrite Po by exact N. apply lok_ext with (hi := hi x) (na := nodeat x) (C := Cx x); auto.
  - intros u1 u2 c v q v' q' H1 H2.
    assert (K : forall u, u <> t -> forall v0 q0, phs x u = PhLink (c_nxt (nodeat x (hi x))) v0 q0 -> False).
    { intros u Hu v0 q0 H. pose proof (Gloc u) as L. rewrite H in L. cbn in L.
      destruct L as [i (Hi & E & _)]. apply nxt_inj in E. apply Gi in E; lia. }
    destruct (Nat.eq_dec u1 t) as [->|N1]; destruct (Nat.eq_dec u2 t) as [->|N2]; auto.
    + rewrite Ph' in H1. inversion H1; subst. rewrite Po in H2 by exact N2. destruct (K _ N2 _ _ H2).
    + rewrite Ph' in H2. inversion H2; subst. rewrite Po in H1 by exact N1. destruct (K _ N1 _ _ H1).
    + rewrite Po in H1, H2 by assumption. exact (Gu _ _ _ _ _ _ _ H1 H2).
  - intros u Hu. destruct (Nat.eq_dec u t) as [->|N].
    + pose proof (Gr t Hu) as R. rewrite Ph in R. rewrite Ph'. exact R.
    + rewrite Po by exact N. apply Gr; exact Hu.
  - destruct (Nat.eq_dec w t) as [->|N].
    + rewrite Ph in Gret. rewrite Ph'. exact Gret.
    + rewrite Po by exact N. exact Gret.
  - intros u. destruct (Nat.eq_dec u t) as [->|N]; [rewrite Ph'; exact Ndp|].
    rewrite Po by exact N. apply Ond.
  - intros u1 u2 m H1 H2. apply (Odj u1 u2 m); apply Inc; assumption.
  - intros u m H. destruct (Onq u m (Inc _ _ H)) as [Mz Mq]. split; [exact Mz|].
    intros i Hi. destruct (Nat.eq_dec i (S (hi x))) as [->|Ni]; [|rewrite NA by lia; apply Mq; lia].
    rewrite NS. intros <-. destruct (Nat.eq_dec u t) as [->|N].
    + rewrite Ph' in H. cbn in H. exact (Nin H).
    + apply N. apply (Odj u t n); [apply Inc; exact H|]. rewrite Ph. left; reflexivity.
  - rewrite Ex, map_app, Gx, seq_snoc, map_app. cbn [map snd]. f_equal.
    + apply map_ext_in. intros i Hi. apply in_seq in Hi. rewrite NA by lia. reflexivity.
    + replace (1 + hi x) with (S (hi x)) by lia. rewrite NS. reflexivity.
  - rewrite Gq. apply map_ext_in. intros i Hi. apply in_seq in Hi. rewrite NA by lia. reflexivity.
  - intros u. rewrite Ex, filter_app, map_app. cbn [filter fst].
    destruct (Nat.eq_dec u t) as [->|N].
    + rewrite Nat.eqb_refl. rewrite Ph'. cbn [pend ph_prog map snd].
      rewrite (Gs t), Ph. cbn [pend]. rewrite <- app_assoc. reflexivity.
    + destruct (Nat.eqb_spec t u) as [E|_]; [congruence|]. cbn [map]. rewrite app_nil_r.
      rewrite Po by exact N. apply Gs.
Qed.

(* ---- the link write  prev->next := n ---- *)
Lemma link_step x x' t c v p :
  GInv x -> phs x t = PhLink c v p ->
  (forall u, u <> t -> stk (base x') u = stk (base x) u) ->
  phs x' t = PhIdle p ->
  Cx x' = upd (Cx x) c v ->
  nodeat x' = nodeat x -> nval x' = nval x -> hi x' = hi x ->
  lo x' = lo x -> nret x' = nret x -> xlog x' = xlog x -> rlog x' = rlog x ->
  GInv x'.
Proof.
  intros G Ph Hst Ph' Ec En Ev Eh El Er Ex Eq.
  assert (Po : forall u, u <> t -> phs x' u = phs x u).
  { intros u Hu. unfold phs. rewrite Hst by exact Hu. reflexivity. }
  destruct G as [Go Gh Gt Gi Gz Gl Gla Gd Gloc Gu Gr Gret Ond Odj Onq Gx Gq Gs].
  pose proof (Gloc t) as Lt. rewrite Ph in Lt. cbn in Lt.
  destruct Lt as [i0 (Hi0 & -> & -> & Z0)].
  assert (CD : forall m, Cx x' (c_dat m) = Cx x (c_dat m)).
  { intros m. rewrite Ec. apply upd_other. apply dat_nxt. }
  assert (CN : forall m, m <> nodeat x i0 -> Cx x' (c_nxt m) = Cx x (c_nxt m)).
  { intros m Hm. rewrite Ec. apply upd_other. intros E. apply nxt_inj in E. congruence. }
  assert (CS : Cx x' (c_nxt (nodeat x i0)) = Zn (nodeat x (S i0))) by (rewrite Ec; apply upd_same).
  assert (CH : Cx x' c_head = Cx x c_head) by (rewrite Ec; apply upd_other; cells).
  assert (CT : Cx x' c_tail = Cx x c_tail) by (rewrite Ec; apply upd_other; cells).
  assert (OW : forall u, own (phs x' u) = own (phs x u)).
  { intros u. destruct (Nat.eq_dec u t) as [->|N]; [rewrite Ph, Ph'; reflexivity|rewrite Po by exact N; reflexivity]. }
  assert (NI : forall i, i <= hi x -> i <> i0 -> nodeat x i <> nodeat x i0).
  { intros i Hi Ne E. apply Ne. apply Gi; auto; lia. }
  constructor; rewrite ?En, ?Ev, ?Eh, ?El, ?Er, ?Ex, ?Eq; auto; try congruence.
  - intros i Hi. destruct (Nat.eq_dec i i0) as [->|N]; [right; exact CS|].
    rewrite CN by (apply NI; lia). apply Gl; exact Hi.
  - rewrite CN by (apply NI; lia). exact Gla.
  - intros i Hi. rewrite CD. apply Gd; exact Hi.
  - intros u. destruct (Nat.eq_dec u t) as [->|N]; [rewrite Ph'; exact I|].
    rewrite Po by exact N. pose proof (Gloc u) as L. pose proof (Onq u) as Qu.
    destruct (phs x u) eqn:Pu; cbn in *; auto.
    + rewrite CD. exact L.
    + rewrite CD. destruct (Qu n (or_introl eq_refl)) as [_ Q].
      rewrite CN; [exact L|]. intros E. exact (Q i0 ltac:(lia) (eq_sym E)).
    + destruct L as [i (Hi & -> & -> & Z)]. exists i. repeat split; try lia.
      rewrite CN; [exact Z|]. apply NI; [lia|]. intros ->. apply N. exact (Gu _ _ _ _ _ _ _ Pu Ph).
    + destruct L as (-> & -> & Hl & E). repeat split; auto.
      rewrite CN; [exact E|]. apply NI; [lia|]. intros E0. rewrite E0, Z0 in E.
      symmetry in E. revert E. apply Zn_nz. apply Gz. lia.
    + destruct L as (Hl & -> & -> & E). repeat split; auto. rewrite CD. exact E.
    + destruct L as (Hl & -> & E). repeat split; auto. rewrite CD. exact E.
  - intros u1 u2 c v p0 v' p' H1 H2.
    destruct (Nat.eq_dec u1 t) as [->|N1]; [rewrite Ph' in H1; discriminate|].
    destruct (Nat.eq_dec u2 t) as [->|N2]; [rewrite Ph' in H2; discriminate|].
    rewrite Po in H1, H2 by assumption. exact (Gu _ _ _ _ _ _ _ H1 H2).
  - intros u Hu. destruct (Nat.eq_dec u t) as [->|N].
    + pose proof (Gr t Hu) as R. rewrite Ph in R. rewrite Ph'. exact R.
    + rewrite Po by exact N. apply Gr; exact Hu.
  - destruct (Nat.eq_dec w t) as [->|N].
    + rewrite Ph in Gret. rewrite Ph'. exact Gret.
    + rewrite Po by exact N. exact Gret.
  - intros u. rewrite OW. apply Ond.
  - intros u1 u2 m. rewrite !OW. apply Odj.
  - intros u m. rewrite OW. apply Onq.
  - intros u. destruct (Nat.eq_dec u t) as [->|N].
    + rewrite Ph'. rewrite (Gs t), Ph. reflexivity.
    + rewrite Po by exact N. apply Gs.
Qed.

(* lok of a thread that is not the receiver, when only cells of no interest change *)
Lemma lok_sender lo lo' hi na nv (C C' : nat -> Z) h :
  lok lo hi na nv C h -> recv_ph h = false ->
  (forall n, In n (own h) -> C' (c_dat n) = C (c_dat n)) ->
  (forall n, C' (c_nxt n) = C (c_nxt n)) ->
  (forall i, lo <= i < hi -> C (c_nxt (na i)) = 0%Z -> lo' <= i) ->
  lok lo' hi na nv C' h.
Proof.
  intros L R Hd Hn Hl. destruct h; cbn in *; auto; try discriminate.
  - rewrite Hd by (left; reflexivity). exact L.
  - rewrite Hd by (left; reflexivity). rewrite Hn. exact L.
  - destruct L as [i (Hi & -> & -> & Z)]. exists i. repeat split; try lia.
    + apply Hl; auto.
    + rewrite Hn. exact Z.
Qed.

(* ---- head := hn ---- *)
Lemma sethead_step x x' t hd v p :
  GInv x -> phs x t = PhSet hd v p ->
  (forall u, u <> t -> stk (base x') u = stk (base x) u) ->
  phs x' t = PhRead hd (c_dat (Z.to_nat v)) p ->
  Cx x' = upd (Cx x) c_head v ->
  nodeat x' = nodeat x -> nval x' = nval x -> hi x' = hi x ->
  lo x' = S (lo x) -> nret x' = nret x -> xlog x' = xlog x -> rlog x' = rlog x ->
  GInv x'.
Proof.
  intros G Ph Hst Ph' Ec En Ev Eh El Er Ex Eq.
  assert (Po : forall u, u <> t -> phs x' u = phs x u).
  { intros u Hu. unfold phs. rewrite Hst by exact Hu. reflexivity. }
  destruct G as [Go Gh Gt Gi Gz Gl Gla Gd Gloc Gu Gr Gret Ond Odj Onq Gx Gq Gs].
  pose proof (Gloc t) as Lt. rewrite Ph in Lt. cbn in Lt.
  destruct Lt as (-> & -> & Hl & E0).
  assert (Tw : t = w).
  { destruct (Nat.eq_dec t w) as [|N]; auto. destruct (Gr t N) as [R _]. rewrite Ph in R. discriminate. }
  subst t. rewrite Zn_id in Ph'.
  assert (CD : forall m, Cx x' (c_dat m) = Cx x (c_dat m)).
  { intros m. rewrite Ec. apply upd_other. cells. }
  assert (CN : forall m, Cx x' (c_nxt m) = Cx x (c_nxt m)).
  { intros m. rewrite Ec. apply upd_other. cells. }
  assert (OW : forall u, own (phs x' u) = own (phs x u)).
  { intros u. destruct (Nat.eq_dec u w) as [->|N]; [rewrite Ph, Ph'; reflexivity|rewrite Po by exact N; reflexivity]. }
  constructor; rewrite ?En, ?Ev, ?Eh, ?El, ?Er, ?Ex, ?Eq; auto.
  - rewrite Ec. apply upd_same.
  - rewrite Ec, upd_other by cells. exact Gt.
  - intros i Hi. rewrite CN. apply Gl. lia.
  - rewrite CN. exact Gla.
  - intros i Hi. rewrite CD. apply Gd. lia.
  - intros u. destruct (Nat.eq_dec u w) as [->|N].
    + rewrite Ph'. cbn [lok]. replace (S (lo x) - 1) with (lo x) by lia. repeat split; try lia.
      rewrite CD. apply Gd. lia.
    + rewrite Po by exact N. apply lok_sender with (lo := lo x) (C := Cx x); auto.
      * apply (Gr u N).
      * intros i Hi Z. destruct (Nat.eq_dec i (lo x)) as [->|]; [|lia].
        exfalso. rewrite Z in E0. symmetry in E0. revert E0. apply Zn_nz. apply Gz. lia.
  - intros u1 u2 c v p0 v' p' H1 H2.
    destruct (Nat.eq_dec u1 w) as [->|N1]; [rewrite Ph' in H1; discriminate|].
    destruct (Nat.eq_dec u2 w) as [->|N2]; [rewrite Ph' in H2; discriminate|].
    rewrite Po in H1, H2 by assumption. exact (Gu _ _ _ _ _ _ _ H1 H2).
  - intros u Hu. rewrite Po by exact Hu. apply Gr; exact Hu.
  - rewrite Ph'. rewrite Ph in Gret. cbn in *. lia.
  - intros u. rewrite OW. apply Ond.
  - intros u1 u2 m. rewrite !OW. apply Odj.
  - intros u m. rewrite OW. apply Onq.
  - intros u. destruct (Nat.eq_dec u w) as [->|N].
    + rewrite Ph'. rewrite (Gs w), Ph. reflexivity.
    + rewrite Po by exact N. apply Gs.
Qed.

(* ---- hd->data := d  (hd is the consumed stub) ---- *)
Lemma uwrite_step x x' t hd v p :
  GInv x -> phs x t = PhWrite hd v p ->
  (forall u, u <> t -> stk (base x') u = stk (base x) u) ->
  phs x' t = PhUse (c_dat hd) p ->
  Cx x' = upd (Cx x) (c_dat hd) v ->
  nodeat x' = nodeat x -> nval x' = nval x -> hi x' = hi x ->
  lo x' = lo x -> nret x' = nret x -> xlog x' = xlog x -> rlog x' = rlog x ->
  GInv x'.
Proof.
  intros G Ph Hst Ph' Ec En Ev Eh El Er Ex Eq.
  assert (Po : forall u, u <> t -> phs x' u = phs x u).
  { intros u Hu. unfold phs. rewrite Hst by exact Hu. reflexivity. }
  destruct G as [Go Gh Gt Gi Gz Gl Gla Gd Gloc Gu Gr Gret Ond Odj Onq Gx Gq Gs].
  pose proof (Gloc t) as Lt. rewrite Ph in Lt. cbn in Lt.
  destruct Lt as (Hl & -> & ->).
  assert (Tw : t = w).
  { destruct (Nat.eq_dec t w) as [|N]; auto. destruct (Gr t N) as [R _]. rewrite Ph in R. discriminate. }
  subst t.
  assert (CD : forall m, m <> nodeat x (lo x - 1) -> Cx x' (c_dat m) = Cx x (c_dat m)).
  { intros m Hm. rewrite Ec. apply upd_other. intros E. apply dat_inj in E. congruence. }
  assert (CN : forall m, Cx x' (c_nxt m) = Cx x (c_nxt m)).
  { intros m. rewrite Ec. apply upd_other. intros E. symmetry in E. exact (dat_nxt _ _ E). }
  assert (OW : forall u, own (phs x' u) = own (phs x u)).
  { intros u. destruct (Nat.eq_dec u w) as [->|N]; [rewrite Ph, Ph'; reflexivity|rewrite Po by exact N; reflexivity]. }
  constructor; rewrite ?En, ?Ev, ?Eh, ?El, ?Er, ?Ex, ?Eq; auto.
  - rewrite Ec, upd_other by cells. exact Gh.
  - rewrite Ec, upd_other by cells. exact Gt.
  - intros i Hi. rewrite CN. apply Gl. lia.
  - rewrite CN. exact Gla.
  - intros i Hi. rewrite CD; [apply Gd; lia|]. intros E. apply Gi in E; lia.
  - intros u. destruct (Nat.eq_dec u w) as [->|N].
    + rewrite Ph'. cbn. repeat split; auto. rewrite Ec. apply upd_same.
    + rewrite Po by exact N. apply lok_sender with (lo := lo x) (C := Cx x); auto.
      * apply (Gr u N).
      * intros n Hn. apply CD. intros ->. destruct (Onq u _ Hn) as [_ Q]. apply (Q (lo x - 1)); [lia|reflexivity].
      * intros i Hi _. lia.
  - intros u1 u2 c v p0 v' p' H1 H2.
    destruct (Nat.eq_dec u1 w) as [->|N1]; [rewrite Ph' in H1; discriminate|].
    destruct (Nat.eq_dec u2 w) as [->|N2]; [rewrite Ph' in H2; discriminate|].
    rewrite Po in H1, H2 by assumption. exact (Gu _ _ _ _ _ _ _ H1 H2).
  - intros u Hu. rewrite Po by exact Hu. apply Gr; exact Hu.
  - rewrite Ph'. rewrite Ph in Gret. exact Gret.
  - intros u. rewrite OW. apply Ond.
  - intros u1 u2 m. rewrite !OW. apply Odj.
  - intros u m. rewrite OW. apply Onq.
  - intros u. destruct (Nat.eq_dec u w) as [->|N].
    + rewrite Ph'. rewrite (Gs w), Ph. reflexivity.
    + rewrite Po by exact N. apply Gs.
Qed.

(* frame_step for steps that keep the receiver's return count *)
Lemma frame_step2 x x' t :
  GInv x ->
  nodeat x' = nodeat x -> hi x' = hi x -> lo x' = lo x -> xlog x' = xlog x ->
  nret x' = nret x -> rlog x' = rlog x ->
  (forall u, u <> t -> stk (base x') u = stk (base x) u) ->
  (forall a, Cx x' a <> Cx x a ->
             nq a \/ exists n, In n (own (phs x t)) /\ (a = c_dat n \/ a = c_nxt n)) ->
  (forall n, nval x' n <> nval x n -> In n (own (phs x t))) ->
  is_link (phs x t) = false -> is_link (phs x' t) = false ->
  NoDup (own (phs x' t)) -> incl (own (phs x' t)) (own (phs x t)) ->
  pend (nval x') (phs x' t) = pend (nval x) (phs x t) ->
  (t <> w -> recv_ph (phs x' t) = false /\ norecv (ph_prog (phs x' t))) ->
  popping (phs x' t) = popping (phs x t) ->
  lok (lo x) (hi x) (nodeat x) (nval x') (Cx x') (phs x' t) ->
  GInv x'.
Proof.
  intros G En Eh El Ex Er Eq Hst Hmem Hnv L L' Nd Inc Pe Rc Pp Lk.
  apply (frame_step x x' t G En Eh El Ex Hst Hmem Hnv L L' Nd Inc Pe Rc); auto.
  - rewrite Er. pose proof (g_ret x G) as R. destruct (Nat.eq_dec w t) as [->|N].
    + rewrite Pp. exact R.
    + unfold phs in *. rewrite Hst by exact N. exact R.
  - rewrite Eq, Er. apply (g_rlog x G).
Qed.

Lemma ycont_plain c : ycont c -> plain (cph YRead c).
Proof. destruct c; cbn; try contradiction; intros _; try exact I. destruct a; exact I. Qed.

Lemma upd_changed {A} (f : nat -> A) k v j : upd f k v j <> f j -> j = k.
Proof. intros H. destruct (Nat.eq_dec j k); auto. rewrite upd_other in H by assumption. congruence. Qed.

Ltac solve_mem :=
  let a := fresh "a" in let Ha := fresh "Ha" in
  intros a Ha;
  first [ exfalso; apply Ha; reflexivity
        | rewrite wake_cell in Ha; exfalso; apply Ha; reflexivity
        | apply set_cell_changed in Ha; subst a;
          first [apply nq_scr|apply nq_waiter|apply nq_buf|apply nq_high|apply nq_low] ].

Ltac solve_ph :=
  rewrite ?app_nil_r;
  first [ left; reflexivity | right; eexists _, _; split; reflexivity ].

Ltac qnew x x' t :=
  match goal with |- GInv ?y => set (x' := y) end;
  assert (Hst : forall u, u <> t -> stk (base x') u = stk (base x) u)
    by (let u := fresh in let Hu := fresh in intros u Hu; cbn; apply upd_other; exact Hu).

Ltac solve_recv G t Ph Ph' :=
  let Hw := fresh in let R1 := fresh in let R2 := fresh in
  intros Hw; destruct (g_recv _ G t Hw) as [R1 R2]; rewrite Ph in R1, R2; cbn in R1, R2;
  first [ discriminate R1 | rewrite ?Ph'; split; [reflexivity | exact R2] ].

Lemma ginv_step x t : BInv (base x) -> SInv (base x) -> GInv x -> GInv (istep x t).
Proof.
  intros B SI G.
  pose proof (b_shape _ B t) as Sh. pose proof (b_nomutex _ B) as Nm.
  pose proof (s_slot _ SI) as Sw. pose proof (s_msw _ SI t) as Ms.
  remember (stk (base x) t) as St eqn:ES.
  destruct Sh.
  (* signal, bounded channel, start, done *)
  all: try (apply nonq_step;
            [ exact G
            | unfold phs; rewrite <- ES; cbn; try match goal with a : wk |- _ => destruct a end; exact I
            | unfold phs; rewrite <- ES; cbn; try match goal with a : wk |- _ => destruct a end;
              repeat match goal with
                     | |- context [if ?b then _ else _] => destruct b eqn:?
                     end; cbn; (split; [solve_mem | solve_ph]) ]; fail).
  - (* udata: n->data := v *)
    assert (Ph : phs x t = PhData n v p) by (unfold phs; rewrite <- ES; reflexivity).
    unfold istep, step; rewrite <- ES; cbn. qnew x x' t.
    assert (Ph' : phs x' t = PhNull n p) by (unfold phs; cbn; rewrite upd_same; reflexivity).
    apply (frame_step2 x x' t G); try reflexivity; auto; rewrite ?Ph, ?Ph'; try reflexivity.
    + intros a Ha. apply set_cell_changed in Ha. right. exists n. split; [left; reflexivity|auto].
    + intros m Hm. apply upd_changed in Hm. left; auto.
    + pose proof (g_own_nd x G t) as N. rewrite Ph in N. exact N.
    + apply incl_refl.
    + cbn. rewrite upd_same. reflexivity.
    + solve_recv G t Ph Ph'.
    + cbn. unfold Cx. cbn. rewrite !upd_same. reflexivity.
  - (* unull: n->next := NULL *)
    assert (Ph : phs x t = PhNull n p) by (unfold phs; rewrite <- ES; reflexivity).
    unfold istep, step; rewrite <- ES; cbn. qnew x x' t.
    assert (Ph' : phs x' t = PhXchg n p) by (unfold phs; cbn; rewrite upd_same; reflexivity).
    apply (frame_step2 x x' t G); try reflexivity; auto; rewrite ?Ph, ?Ph'; try reflexivity.
    + intros a Ha. apply set_cell_changed in Ha. right. exists n. split; [left; reflexivity|auto].
    + intros m Hm. destruct (Hm eq_refl).
    + pose proof (g_own_nd x G t) as N. rewrite Ph in N. exact N.
    + apply incl_refl.
    + solve_recv G t Ph Ph'.
    + pose proof (g_loc x G t) as L. rewrite Ph in L. cbn in L.
      cbn. unfold Cx. cbn. rewrite upd_same, upd_other by apply dat_nxt. split; auto.
  - (* uxchg *)
    assert (Ph : phs x t = PhXchg n p) by (unfold phs; rewrite <- ES; reflexivity).
    unfold istep, step; rewrite <- ES; cbn. qnew x x' t.
    assert (Ph' : phs x' t = PhLink (c_nxt (Z.to_nat (Cx x c_tail))) (Zn n) p)
      by (unfold phs; cbn; rewrite upd_same; reflexivity).
    apply (xchg_step x x' t n p G Ph Hst Ph'); reflexivity.
  - (* ulink *)
    assert (Ph : phs x t = PhLink (c_nxt pv) (Zn n) p) by (unfold phs; rewrite <- ES; reflexivity).
    unfold istep, step; rewrite <- ES; cbn. qnew x x' t.
    assert (Ph' : phs x' t = PhIdle p) by (unfold phs; cbn; rewrite upd_same; reflexivity).
    apply (link_step x x' t _ _ p G Ph Hst Ph'); reflexivity.
  - (* uhead: hd := head *)
    assert (Ph : phs x t = PhHead p) by (unfold phs; rewrite <- ES; reflexivity).
    unfold istep, step; rewrite <- ES; cbn. qnew x x' t.
    assert (Ph' : phs x' t = PhNxt (Z.to_nat (Cx x c_head)) p)
      by (unfold phs; cbn; rewrite upd_same; reflexivity).
    apply (frame_step2 x x' t G); try reflexivity; auto; rewrite ?Ph, ?Ph'; try reflexivity.
    + intros a Ha. destruct (Ha eq_refl).
    + intros m Hm. destruct (Hm eq_refl).
    + pose proof (g_own_nd x G t) as N. rewrite Ph in N. exact N.
    + apply incl_refl.
    + solve_recv G t Ph Ph'.
    + cbn. rewrite (g_head x G). apply Zn_id.
  - (* unxt: hn := hd->next *)
    assert (Ph : phs x t = PhNxt hd p) by (unfold phs; rewrite <- ES; reflexivity).
    pose proof (g_loc x G t) as L. rewrite Ph in L. cbn in L. subst hd.
    unfold istep, step; rewrite <- ES; cbn.
    destruct (cell (mem (base x)) (c_nxt (nodeat x (lo x))) =? 0)%Z eqn:Ez; [destruct blk|]; cbn.
    + (* empty, blocking: wait *)
      qnew x x' t.
      assert (Ph' : phs x' t = PhHead p) by (unfold phs; cbn; rewrite upd_same; reflexivity).
      apply (frame_step2 x x' t G); try reflexivity; auto; rewrite ?Ph, ?Ph'; try reflexivity.
      * intros a Ha. destruct (Ha eq_refl).
      * intros m Hm. destruct (Hm eq_refl).
      * pose proof (g_own_nd x G t) as N. rewrite Ph in N. exact N.
      * apply incl_refl.
      * solve_recv G t Ph Ph'.
    + (* empty, try: return 0 *)
      rewrite app_nil_r. qnew x x' t.
      assert (Ph' : phs x' t = sph p) by (unfold phs; cbn; rewrite upd_same; apply start_phase).
      apply (frame_step2 x x' t G); try reflexivity; auto; rewrite ?Ph, ?Ph'.
      * intros a Ha. destruct (Ha eq_refl).
      * intros m Hm. destruct (Hm eq_refl).
      * reflexivity.
      * apply sph_link.
      * rewrite sph_own. pose proof (g_own_nd x G t) as N. rewrite Ph in N. exact N.
      * rewrite sph_own. apply incl_refl.
      * rewrite sph_pend. reflexivity.
      * intros Hw. destruct (g_recv _ G t Hw) as [R1 _]. rewrite Ph in R1. discriminate R1.
      * rewrite sph_popping. reflexivity.
      * apply sph_lok.
    + (* non-empty *)
      qnew x x' t.
      assert (Ph' : phs x' t = PhSet (nodeat x (lo x)) (Cx x (c_nxt (nodeat x (lo x)))) p)
        by (unfold phs; cbn; rewrite upd_same; reflexivity).
      apply (frame_step2 x x' t G); try reflexivity; auto; rewrite ?Ph, ?Ph'; try reflexivity.
      * intros a Ha. destruct (Ha eq_refl).
      * intros m Hm. destruct (Hm eq_refl).
      * pose proof (g_own_nd x G t) as N. rewrite Ph in N. exact N.
      * apply incl_refl.
      * solve_recv G t Ph Ph'.
      * apply Z.eqb_neq in Ez. fold (Cx x) in Ez. cbn.
        pose proof (g_ord x G) as O. pose proof (g_last x G) as La.
        destruct (Nat.eq_dec (lo x) (hi x)) as [E|N]; [rewrite E in Ez; contradiction|].
        destruct (g_link x G (lo x) ltac:(lia)) as [Z|Z]; [contradiction|].
        change (Cx x' ) with (Cx x). repeat split; auto. lia.
  - (* usethead *)
    assert (Ph : phs x t = PhSet hd v p) by (unfold phs; rewrite <- ES; reflexivity).
    unfold istep, step; rewrite <- ES; cbn. qnew x x' t.
    assert (Ph' : phs x' t = PhRead hd (c_dat (Z.to_nat v)) p)
      by (unfold phs; cbn; rewrite upd_same; reflexivity).
    apply (sethead_step x x' t hd v p G Ph Hst Ph'); reflexivity.
  - (* uread: d := hn->data *)
    assert (Ph : phs x t = PhRead hd (c_dat hn) p) by (unfold phs; rewrite <- ES; reflexivity).
    pose proof (g_loc x G t) as L. rewrite Ph in L. cbn in L. destruct L as (L1 & L2 & L3 & L4).
    unfold istep, step; rewrite <- ES; cbn. qnew x x' t.
    assert (Ph' : phs x' t = PhWrite hd (Cx x (c_dat hn)) p)
      by (unfold phs; cbn; rewrite upd_same; reflexivity).
    apply (frame_step2 x x' t G); try reflexivity; auto; rewrite ?Ph, ?Ph'; try reflexivity.
    + intros a Ha. destruct (Ha eq_refl).
    + intros m Hm. destruct (Hm eq_refl).
    + pose proof (g_own_nd x G t) as N. rewrite Ph in N. exact N.
    + apply incl_refl.
    + solve_recv G t Ph Ph'.
    + cbn. repeat split; auto.
  - (* uwrite *)
    assert (Ph : phs x t = PhWrite hd v p) by (unfold phs; rewrite <- ES; reflexivity).
    unfold istep, step; rewrite <- ES; cbn. qnew x x' t.
    assert (Ph' : phs x' t = PhUse (c_dat hd) p) by (unfold phs; cbn; rewrite upd_same; reflexivity).
    apply (uwrite_step x x' t hd v p G Ph Hst Ph'); reflexivity.
  - (* uuse: the harness reads the returned node *)
    assert (Ph : phs x t = PhUse (c_dat hd) p) by (unfold phs; rewrite <- ES; reflexivity).
    pose proof (g_loc x G t) as L. rewrite Ph in L. cbn in L. destruct L as (L1 & L2 & L3).
    assert (Tw : t = w).
    { destruct (Nat.eq_dec t w) as [|N]; auto. destruct (g_recv x G t N) as [R _]. rewrite Ph in R. discriminate. }
    unfold istep, step; rewrite <- ES; cbn. rewrite app_nil_r. qnew x x' t.
    assert (Ph' : phs x' t = sph p) by (unfold phs; cbn; rewrite upd_same; apply start_phase).
    pose proof (g_ret x G) as R. rewrite <- Tw, Ph in R. cbn in R.
    apply (frame_step x x' t G); try reflexivity; auto; rewrite <- ?Tw; rewrite ?Ph, ?Ph'.
    + intros a Ha. destruct (Ha eq_refl).
    + intros m Hm. destruct (Hm eq_refl).
    + reflexivity.
    + apply sph_link.
    + rewrite sph_own. pose proof (g_own_nd x G t) as N. rewrite Ph in N. exact N.
    + rewrite sph_own. apply incl_refl.
    + rewrite sph_pend. reflexivity.
    + intros Hw. destruct (Hw eq_refl).
    + rewrite sph_popping. cbn. lia.
    + cbn [rlog nret x']. rewrite seq_snoc, map_app, <- (g_rlog x G). cbn [map]. f_equal. f_equal.
      replace (1 + nret x) with (lo x) by lia. exact L3.
    + apply sph_lok.
  - (* a yield in progress *)
    pose proof (yield_kstep (csize (base x)) (mem (base x)) t y c H Nm Sw) as Y.
    assert (Hy : forall c0 v0, y = YfMSet c0 v0 -> c0 = c_scr t).
    { intros c0 v0 ->. cbn in Ms. eapply Ms. reflexivity. }
    specialize (Y Hy).
    assert (Ph : phs x t = cph YRead c) by (unfold phs; rewrite <- ES; apply yield_phase; exact H).
    apply nonq_step; [exact G | rewrite Ph; apply ycont_plain; exact H |].
    rewrite Ph, <- ES.
    destruct (kstep cc (cret (csize (base x))) (mem (base x)) t (ystack y ++ [FC c])) as [[m1 e1] s1].
    destruct Y as (Y1 & _ & Y3). split.
    + intros a Ha. rewrite (Y1 a Ha). apply nq_scr.
    + left. destruct Y3 as [[y' [-> _]]|[f [c' [-> [E _]]]]].
      * apply yield_phase; exact H.
      * exact E.
Qed.

Theorem ireach_inv size x :
  uchan_progs_ok w progs -> ireach size progs x -> BInv (base x) /\ SInv (base x) /\ GInv x.
Proof.
  intros W R. induction R as [|x t R (B & SI & G) St].
  - split; [apply init_binv|]. split; [apply init_sinv|]. apply init_inv; exact W.
  - split; [|split].
    + rewrite istep_erase. apply binv_step; exact B.
    + rewrite istep_erase. apply sinv_step; assumption.
    + apply ginv_step; assumption.
Qed.

(* ---------------- consequences of the invariant ---------------- *)
Lemma fifo_of_inv x : GInv x ->
  exists rest, map snd (xlog x) = rlog x ++ rest /\ length rest = hi x - nret x.
Proof.
  intros G. pose proof (nret_le x G) as N. pose proof (g_ord x G) as O.
  exists (map (fun i => nval x (nodeat x i)) (seq (1 + nret x) (hi x - nret x))). split.
  - rewrite (g_xlog x G), (g_rlog x G), <- map_app, <- seq_app. do 2 f_equal. lia.
  - rewrite map_length, seq_length. reflexivity.
Qed.

Lemma sender_order_of_inv x t : GInv x ->
  exists rest, usends (nth t progs []) = map snd (filter (fun e => fst e =? t) (xlog x)) ++ rest.
Proof. intros G. eexists. apply (g_snd x G). Qed.

End Inv.

(* ------------------------------------------------------------------ *)
(* list facts for the corollaries *)
Definition sender_proj (t : nat) (l : list (nat * Z)) : list Z :=
  map snd (filter (fun e => fst e =? t) l).

Lemma sender_proj_app t l1 l2 : sender_proj t (l1 ++ l2) = sender_proj t l1 ++ sender_proj t l2.
Proof. unfold sender_proj. rewrite filter_app, map_app. reflexivity. Qed.

Lemma sender_proj_in t v l : In (t, v) l -> In v (sender_proj t l).
Proof.
  intros H. unfold sender_proj. apply in_map_iff. exists (t, v). split; [reflexivity|].
  apply filter_In. split; [exact H|]. cbn. apply Nat.eqb_refl.
Qed.

Lemma nodup_by_sender (l : list (nat * Z)) :
  (forall t, NoDup (sender_proj t l)) ->
  (forall t u v, In (t, v) l -> In (u, v) l -> t = u) ->
  NoDup (map snd l).
Proof.
  induction l as [|[t v] l IH]; intros H1 H2; cbn; [constructor|].
  constructor.
  - intros Hin. apply in_map_iff in Hin. destruct Hin as [[u v'] [E Hu]]. cbn in E. subst v'.
    assert (u = t) by (apply (H2 u t v); [right; exact Hu|left; reflexivity]). subst u.
    pose proof (H1 t) as N. unfold sender_proj in N. cbn in N. rewrite Nat.eqb_refl in N. cbn in N.
    apply NoDup_cons_iff in N. destruct N as [N _]. apply N. apply sender_proj_in. exact Hu.
  - apply IH.
    + intros u. pose proof (H1 u) as N. unfold sender_proj in *. cbn in N.
      destruct (t =? u); [cbn in N; apply NoDup_cons_iff in N; tauto|exact N].
    + intros a b v0 Ha Hb. apply (H2 a b v0); right; assumption.
Qed.

Lemma NoDup_app_l {A} (l1 l2 : list A) : NoDup (l1 ++ l2) -> NoDup l1.
Proof.
  induction l1 as [|a l1 IH]; cbn; intros H; [constructor|].
  apply NoDup_cons_iff in H. destruct H as [H1 H2]. constructor; auto.
  intros Hin. apply H1. apply in_or_app. left; exact Hin.
Qed.

(* the sent values are pairwise distinct (within a program and across programs) *)
Definition distinct_values (progs : list (list cop)) : Prop :=
  (forall t, NoDup (usends (nth t progs []))) /\
  (forall t u v, In v (usends (nth t progs [])) -> In v (usends (nth u progs [])) -> t = u).

(* ------------------------------------------------------------------ *)
(* chan_exactly_once_in_sender_order, self-contained statements *)

(* the received values are, in order, a prefix of the values sent, in the
   order of the tail exchanges *)
Theorem uchan_fifo w size progs x :
  uchan_progs_ok w progs -> ireach size progs x ->
  exists rest, map snd (xlog x) = rlog x ++ rest.
Proof.
  intros W R. destruct (ireach_inv w progs size x W R) as (_ & _ & G).
  destruct (fifo_of_inv w progs x G) as [rest [E _]]. exists rest. exact E.
Qed.

(* every received value was sent *)
Theorem uchan_received_was_sent w size progs x v :
  uchan_progs_ok w progs -> ireach size progs x ->
  In v (rlog x) -> exists t, In (t, v) (xlog x) /\ In v (usends (nth t progs [])).
Proof.
  intros W R Hin. destruct (ireach_inv w progs size x W R) as (_ & _ & G).
  destruct (fifo_of_inv w progs x G) as [rest [E _]].
  assert (H : In v (map snd (xlog x))) by (rewrite E; apply in_or_app; left; exact Hin).
  apply in_map_iff in H. destruct H as [[t v'] [Ev Ht]]. cbn in Ev. subst v'.
  exists t. split; [exact Ht|]. rewrite (g_snd w progs x G t). apply in_or_app. left.
  apply (sender_proj_in t v _ Ht).
Qed.

(* each sender's messages enter the channel in its program order *)
Theorem uchan_sender_order w size progs x t :
  uchan_progs_ok w progs -> ireach size progs x ->
  exists rest, usends (nth t progs []) = sender_proj t (xlog x) ++ rest.
Proof.
  intros W R. destruct (ireach_inv w progs size x W R) as (_ & _ & G).
  apply (sender_order_of_inv w progs x t G).
Qed.

(* the received part of the exchange log, with its senders: each sender's
   received messages are a prefix of its program order *)
Theorem uchan_received_sender_order w size progs x :
  uchan_progs_ok w progs -> ireach size progs x ->
  exists rx rest, xlog x = rx ++ rest /\ map snd rx = rlog x /\
    forall t, exists r, usends (nth t progs []) = sender_proj t rx ++ r.
Proof.
  intros W R. destruct (ireach_inv w progs size x W R) as (_ & _ & G).
  destruct (fifo_of_inv w progs x G) as [rest [E _]].
  exists (firstn (length (rlog x)) (xlog x)), (skipn (length (rlog x)) (xlog x)).
  split; [symmetry; apply firstn_skipn|]. split.
  - rewrite <- firstn_map, E, firstn_app, Nat.sub_diag, firstn_all. cbn. apply app_nil_r.
  - intros t. destruct (sender_order_of_inv w progs x t G) as [r Er].
    fold (sender_proj t (xlog x)) in Er.
    rewrite <- (firstn_skipn (length (rlog x)) (xlog x)), sender_proj_app, <- app_assoc in Er.
    eexists. exact Er.
Qed.

(* no value is received twice when the sent values are pairwise distinct *)
Theorem uchan_no_duplicate w size progs x :
  uchan_progs_ok w progs -> distinct_values progs -> ireach size progs x ->
  NoDup (map snd (xlog x)) /\ NoDup (rlog x).
Proof.
  intros W [D1 D2] R. destruct (ireach_inv w progs size x W R) as (_ & _ & G).
  assert (N : NoDup (map snd (xlog x))).
  { apply nodup_by_sender.
    - intros t. pose proof (D1 t) as N. rewrite (g_snd w progs x G t) in N.
      apply NoDup_app_l in N. exact N.
    - intros t u v Ht Hu. apply (D2 t u v).
      + rewrite (g_snd w progs x G t). apply in_or_app. left. apply (sender_proj_in t v _ Ht).
      + rewrite (g_snd w progs x G u). apply in_or_app. left. apply (sender_proj_in u v _ Hu). }
  split; [exact N|].
  destruct (fifo_of_inv w progs x G) as [rest [E _]]. rewrite E in N. apply NoDup_app_l in N. exact N.
Qed.

(* where the ghost logs are written: on a shaped stack, phase PhXchg is exactly
   the tail exchange of shape sh_uxchg, and phase PhUse exactly the harness read
   of shape sh_uuse, whose value is the one reported in the call's return event *)
Lemma phase_xchg_shape size t S n p :
  shaped size t S -> phase S = PhXchg n p ->
  exists k, S = [CXchgC c_tail (Zn n) 3; FC (KUXchg n p k)].
Proof.
  intros Sh. destruct Sh; cbn; intros E; try discriminate;
    try (match goal with a : wk |- _ => destruct a end; discriminate).
  - inversion E; subst. eexists; reflexivity.
  - rewrite yield_phase in E by assumption. destruct c; cbn in *; try contradiction; try discriminate.
    destruct a; discriminate.
Qed.

Lemma phase_use_shape size t S c p :
  shaped size t S -> phase S = PhUse c p ->
  exists hd k, c = c_dat hd /\ S = [CRead (c_dat hd); FC (KUUse p k)].
Proof.
  intros Sh. destruct Sh; cbn; intros E; try discriminate;
    try (match goal with a : wk |- _ => destruct a end; discriminate).
  - inversion E; subst. eexists _, _; split; reflexivity.
  - rewrite yield_phase in E by assumption. destruct c0; cbn in *; try contradiction; try discriminate.
    destruct a; discriminate.
Qed.

Lemma uuse_reports s t hd p k :
  stk s t = [CRead (c_dat hd); FC (KUUse p k)] ->
  snd (step s t) = ev t (l_cell (c_dat hd)) 9 (cell (mem s) (c_dat hd)) ++
                   retev t k (cell (mem s) (c_dat hd)).
Proof. intros E. unfold step. rewrite E. cbn. reflexivity. Qed.

(* the value logged at the exchange (ghost nval = the v of OUSend n v, written
   at shape sh_udata) is the content of the node's data cell at that moment *)
Theorem uchan_xlog_is_cell w size progs x t n p :
  uchan_progs_ok w progs -> ireach size progs x ->
  phs x t = PhXchg n p -> cell (mem (base x)) (c_dat n) = nval x n.
Proof.
  intros W R Ph. destruct (ireach_inv w progs size x W R) as (_ & _ & G).
  pose proof (g_loc w progs x G t) as L. rewrite Ph in L. exact (proj1 L).
Qed.

(* the instrumented machine is the executable one plus ghosts *)
Theorem uchan_ireach_sound size progs x :
  ireach size progs x -> reachable M (init size progs) (base x).
Proof. apply ireach_reachable. Qed.
Theorem uchan_ireach_complete size progs s :
  reachable M (init size progs) s -> exists x, ireach size progs x /\ base x = s.
Proof. apply reachable_ireach. Qed.

(* ------------------------------------------------------------------ *)
(* non-vacuity: two senders, one receiver; both messages are received *)
Definition ex_progs : list (list cop) :=
  [[OURecv; OUTry; OUTry]; [OUSend 2 41]; [OUSend 3 42; ORaise]].

Lemma ex_progs_ok : uchan_progs_ok 0 ex_progs.
Proof.
  constructor.
  - intros [|[|[|[|t]]]] H; cbn; auto; congruence.
  - intros [|[|[|[|t]]]]; cbn; repeat constructor; cbn; tauto.
  - intros [|[|[|[|t]]]] [|[|[|[|u]]]] n; cbn; intros; try tauto; lia.
  - intros [|[|[|[|t]]]] n; cbn; intros; try tauto; lia.
Qed.

Definition ex_sched : list nat :=
  [0; 0; 0;                       (* the receiver finds the queue empty (about to wait) *)
   2; 2; 2; 2;                    (* sender 2 exchanges the tail, has not linked yet *)
   1; 1; 1; 1; 1; 1;              (* sender 1 sends 41 completely (behind 42) and raises *)
   2; 2;                          (* sender 2 links and raises *)
   0; 0; 0; 0; 0; 0; 0; 0; 0; 0; 0; 0; 0; 0; 0; 0; 0; 0; 0; 0; 0; 0; 0; 0; 0; 0; 0; 0; 0; 0].

Example ex_reach : ireach 4 ex_progs (irun (iinit 4 ex_progs) ex_sched).
Proof. apply ireach_irun. constructor. Qed.

Example ex_logs :
  let x := irun (iinit 4 ex_progs) ex_sched in
  xlog x = [(2, 42%Z); (1, 41%Z)] /\ rlog x = [42%Z; 41%Z].
Proof. vm_compute. split; reflexivity. Qed.

(* ------------------------------------------------------------------ *)
(* only the receiver is ever inside a receive; at sh_unxt the hd it holds is the
   current head (only the receiver writes c_head) -- for plain reachability *)
Lemma uchan_receiver_head :
  forall (w : nat) (size : Z) (progs : list (list cop)) (s : st),
  uchan_progs_ok w progs -> reachable M (init size progs) s ->
  (forall t blk hd p k, stk s t = [CRead (c_nxt hd); FC (KUNxt blk hd p k)] ->
     t = w /\ cell (mem s) c_head = Zn hd) /\
  (forall t hd v p k, stk s t = [CWrite c_head v; FC (KUSetHead hd (Z.to_nat v) p k)] -> t = w) /\
  (forall t blk p k, stk s t = [CRead c_head; FC (KUHead blk p k)] -> t = w).
Proof.
  intros w size progs s W R.
  destruct (reachable_ireach size progs s R) as [x [Rx <-]].
  destruct (ireach_inv w progs size x W Rx) as (_ & _ & G).
  assert (K : forall t, recv_ph (phs x t) = true -> t = w).
  { intros t H. destruct (Nat.eq_dec t w) as [|N]; auto.
    destruct (g_recv w progs x G t N) as [E _]. congruence. }
  split; [|split].
  - intros t blk hd p k E.
    assert (Ph : phs x t = PhNxt hd p) by (unfold phs; rewrite E; reflexivity).
    split; [apply K; rewrite Ph; reflexivity|].
    pose proof (g_loc w progs x G t) as L. rewrite Ph in L. cbn in L. subst hd.
    apply (g_head w progs x G).
  - intros t hd v p k E. apply K. unfold phs. rewrite E. reflexivity.
  - intros t blk p k E. apply K. unfold phs. rewrite E. reflexivity.
Qed.
