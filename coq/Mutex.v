(* C03: client of T1K for src/fiber_mutex.c — lock / trylock / unlock by any
   number of fibers on one mutex (object 0), with a data cell (cell 0) written
   inside the critical section.  Harness: rt/h_mutex.c. *)
From Coq Require Import List ZArith Lia Bool Arith.
From LF Require Import Conc T1K.
Import ListNotations.
Local Open Scope Z_scope.

Inductive mop := MLock | MTry | MUnlock.

(* client continuation frames *)
Inductive mc :=
| MNext (prog : list mop) (k : nat) (held : bool)            (* start the next call *)
| MLocked (prog : list mop) (k : nat) (r : Z)                 (* lock/trylock returned r: write the cell *)
| MWrote (prog : list mop) (k : nat) (r : Z)                  (* cell written: report *)
| MReadBack (prog : list mop) (k : nat)                       (* cell read back before unlock *)
| MUnlocked (prog : list mop) (k : nat) (r : Z).              (* unlock returned: report r *)

Definition retev (t k : nat) (v : Z) : list Z := [Zn t; Zn k; 909; v].

(* begin the calls of the program; calls that the harness skips only emit a
   ret event with value 2.  k = index (from 1) of the call being started *)
Fixpoint start (t : nat) (prog : list mop) (k : nat) (held : bool) : list Z * stack mc :=
  match prog with
  | [] => ([], [])
  | MLock :: p => if held then let '(e, s) := start t p (S k) held in (retev t k 2 ++ e, s)
                  else ([], [LSub 0; FC (MLocked p k 1)])
  | MTry :: p => if held then let '(e, s) := start t p (S k) held in (retev t k 2 ++ e, s)
                 else ([], [TCas 0; FC (MLocked p k 0)])
  | MUnlock :: p => if held then ([], [CRead 0; FC (MReadBack p k)])
                    else let '(e, s) := start t p (S k) held in (retev t k 2 ++ e, s)
  end.

Definition cret (m : kmem) (t : nat) (c : mc) (v : Z) : kmem * list Z * stack mc :=
  match c with
  | MNext p k held => let '(e, s) := start t p k held in (m, e, s)
  | MLocked p k _ =>
      (* v = result of lock (always 1) or trylock *)
      if v =? 1 then (m, [], [CWrite 0 (Zn t + 1); FC (MWrote p k v)])
      else let '(e, s) := start t p (S k) false in (m, retev t k v ++ e, s)
  | MWrote p k r => let '(e, s) := start t p (S k) true in (m, retev t k r ++ e, s)
  | MReadBack p k =>
      let r := if v =? Zn t + 1 then 1 else 7 in
      (m, [], [UAdd 0; UYield; FC (MUnlocked p k r)])
  | MUnlocked p k r => let '(e, s) := start t p (S k) false in (m, retev t k r ++ e, s)
  end.

Record st := { mem : kmem; stk : nat -> stack mc; nthr : nat }.

Definition step (s : st) (t : nat) : st * list Z :=
  let '(m1, e1, s1) := kstep mc cret (mem s) t (stk s t) in
  ({| mem := m1; stk := upd (stk s) t s1; nthr := nthr s |}, e1).

Definition status_of (s : st) (t : nat) : status :=
  if (t <? nthr s)%nat then kstatus mc (mem s) t (stk s t) else SDone.

Definition init (progs : list (list mop)) : st :=
  {| mem := kinit 1 (fun _ => 1);
     stk := fun t => [Start; FC (MNext (nth t progs []) 1 false)];
     nthr := length progs |}.

Definition M : machine :=
  {| mstate := st; mstep := step; mstatus := status_of; mthreads := nthr |}.

Definition dec_op (p : Z * Z) : mop :=
  match fst p with 1 => MLock | 2 => MTry | _ => MUnlock end.

Definition run_case (l : list Z) : list Z :=
  match decode_case l with
  | Some c => run_all M (init (map (map dec_op) (c_progs c))) [] (c_sched c)
                      (Z.to_nat (nthZ (c_params c) 0))
  | None => [(-1)%Z]
  end.
