(* KernelStepB: preservation of KInv by the writes of a fiber's state word. *)
From Coq Require Import List Arith Lia Bool.
From LF Require Import Conc Kernel KernelInv.

Lemma pres_write_saving n s t f s' : KInv n s -> t < n -> kstep s (LWrite t f FSaving) = Some s' -> KInv n s'.
Proof. intros I Ht H. start H s'. Time all: kinv_dbg n s I. Show. Abort.

Lemma pres_write_done n s t f s' : KInv n s -> t < n -> kstep s (LWrite t f FDone) = Some s' -> KInv n s'.
Proof. intros I Ht H. start H s'. Time all: kinv_dbg n s I. Show. Abort.
