(* KernelStepB: preservation of KInv by the writes of a fiber's state word. *)
From Coq Require Import List Arith Lia Bool.
From LF Require Import Conc Kernel KernelInv.

Lemma pres_write_saving n s t f s' : KInv n s -> t < n -> kstep s (LWrite t f FSaving) = Some s' -> KInv n s'.
Proof. intros I Ht H. start H s'; kinv n s I. Qed.

Lemma pres_write_done n s t f s' : KInv n s -> t < n -> kstep s (LWrite t f FDone) = Some s' -> KInv n s'.
Proof. intros I Ht H. start H s'; kinv n s I. Qed.

Lemma pres_write_wait n s t f s' : KInv n s -> t < n -> kstep s (LWrite t f FWait) = Some s' -> KInv n s'.
Proof. intros I Ht H. start H s'; kinv n s I. Qed.

Lemma pres_write_ready n s t f s' : KInv n s -> t < n -> kstep s (LWrite t f FReady) = Some s' -> KInv n s'.
Proof. intros I Ht H. start H s'; kinv n s I. Qed.

Lemma pres_write_run n s t f s' : KInv n s -> t < n -> kstep s (LWrite t f FRun) = Some s' -> KInv n s'.
Proof. intros I Ht H. start H s'; kinv n s I. Qed.

Lemma pres_write n s t f v s' : KInv n s -> t < n -> kstep s (LWrite t f v) = Some s' -> KInv n s'.
Proof.
  intros I Ht H. destruct v.
  - cbn [kstep] in H. discriminate.
  - eapply pres_write_run; eauto.
  - eapply pres_write_ready; eauto.
  - eapply pres_write_wait; eauto.
  - eapply pres_write_done; eauto.
  - eapply pres_write_saving; eauto.
Qed.
