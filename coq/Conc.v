(* Generic interleaving machinery shared by every model (DESIGN.md 3.1).
   A machine is a deterministic step function indexed by the thread that the
   scheduler picks; the schedule is the only nondeterminism.  The same
   definitions are extracted to OCaml for the lock-step correspondence run and
   used by the theorems (reachability = any schedule, any length). *)
From Coq Require Import List ZArith Lia Bool.
Import ListNotations.



(* thread status as the controller of rt/rt.c sees it *)
Inductive status := SDone | SReady | SBlocked.

Record machine := {
  mstate : Type;
  mstep : mstate -> nat -> mstate * list Z;   (* grant one step to thread t *)
  mstatus : mstate -> nat -> status;
  mthreads : mstate -> nat
}.

Section Run.
  Variable M : machine.
  Notation St := (mstate M).

  (* the controller only grants threads that are at a point *)
  Definition grant (s : St) (t : nat) : St * list Z :=
    match mstatus M s t with
    | SReady => mstep M s t
    | _ => (s, [])
    end.

  Fixpoint run_sched (s : St) (sch : list nat) : St * list Z :=
    match sch with
    | [] => (s, [])
    | t :: r => let '(s1, e1) := grant s t in
                let '(s2, e2) := run_sched s1 r in (s2, e1 ++ e2)
    end.

  (* one round-robin pass of the drain phase; returns steps used *)
  Fixpoint drain_round (s : St) (ts : list nat) (budget : nat) : St * list Z * nat * bool :=
    match ts with
    | [] => (s, [], budget, false)
    | t :: r =>
      match budget with
      | O => (s, [], O, false)
      | S b =>
        match mstatus M s t with
        | SReady => let '(s1, e1) := mstep M s t in
                    let '(s2, e2, b2, _) := drain_round s1 r b in (s2, e1 ++ e2, b2, true)
        | _ => drain_round s r budget
        end
      end
    end.

  Fixpoint drain (fuel : nat) (s : St) (budget : nat) : St * list Z :=
    match fuel with
    | O => (s, [])
    | S f =>
      let '(s1, e1, b1, live) := drain_round s (seq 0 (mthreads M s)) budget in
      if live then (if Nat.eqb b1 0 then (s1, e1)
                    else let '(s2, e2) := drain f s1 b1 in (s2, e1 ++ e2))
      else (s1, e1)
    end.

  (* markers appended for threads that never finished (same as rt_run) *)
  Definition stuck_markers (s : St) : list Z :=
    flat_map (fun t => match mstatus M s t with
                       | SDone => []
                       | SBlocked => [Z.of_nat t; 0; 919; 7]
                       | SReady => [Z.of_nat t; 0; 919; 8]
                       end)%Z (seq 0 (mthreads M s)).

  Definition run_all (s0 : St) (e0 : list Z) (sch : list nat) (drain_max : nat) : list Z :=
    let '(s1, e1) := run_sched s0 sch in
    let '(s2, e2) := drain (S drain_max) s1 drain_max in
    e0 ++ e1 ++ e2 ++ stuck_markers s2.

  (* reachability: any schedule of any length; ungranted picks are no-ops *)
  Inductive reachable (s0 : St) : St -> Prop :=
  | reach_init : reachable s0 s0
  | reach_step s t : reachable s0 s -> mstatus M s t = SReady ->
                     reachable s0 (fst (mstep M s t)).

  Lemma invariant_ind (P : St -> Prop) (s0 : St) :
    P s0 ->
    (forall s t, P s -> mstatus M s t = SReady -> P (fst (mstep M s t))) ->
    forall s, reachable s0 s -> P s.
  Proof. intros H0 Hs s R. induction R; auto. Qed.

  Lemma grant_reachable s0 s t : reachable s0 s -> reachable s0 (fst (grant s t)).
  Proof.
    intros R. unfold grant. destruct (mstatus M s t) eqn:E; cbn; auto.
    now apply reach_step.
  Qed.

  Lemma run_sched_reachable s0 sch : forall s, reachable s0 s -> reachable s0 (fst (run_sched s sch)).
  Proof.
    induction sch as [|t r IH]; intros s R; cbn; auto.
    pose proof (grant_reachable s0 s t R) as R1. destruct (grant s t) as [s1 e1]. cbn in R1.
    specialize (IH s1 R1). destruct (run_sched s1 r) as [s2 e2]. exact IH.
  Qed.
End Run.

(* ---------- case decoding (shared by all models) ----------
   case = nparams p1..pk  nthreads (len op arg op arg ..)*  nsched s1..sn *)
Fixpoint take_pairs (n : nat) (l : list Z) : option (list (Z * Z) * list Z) :=
  match n with
  | O => Some ([], l)
  | S k => match l with
           | a :: b :: r => match take_pairs k r with
                            | Some (ps, r') => Some ((a, b) :: ps, r')
                            | None => None
                            end
           | _ => None
           end
  end.

Fixpoint take_progs (n : nat) (l : list Z) : option (list (list (Z * Z)) * list Z) :=
  match n with
  | O => Some ([], l)
  | S k => match l with
           | len :: r => match take_pairs (Z.to_nat len) r with
                         | Some (p, r') => match take_progs k r' with
                                           | Some (ps, r'') => Some (p :: ps, r'')
                                           | None => None
                                           end
                         | None => None
                         end
           | [] => None
           end
  end.

Record case := { c_params : list Z; c_progs : list (list (Z * Z)); c_sched : list nat }.

Definition decode_case (l : list Z) : option case :=
  match l with
  | np :: r =>
    let k := Z.to_nat np in
    let ps := firstn k r in
    match skipn k r with
    | nt :: r2 =>
      match take_progs (Z.to_nat nt) r2 with
      | Some (progs, ns :: r3) =>
        Some {| c_params := ps; c_progs := progs;
                c_sched := map Z.to_nat (firstn (Z.to_nat ns) r3) |}
      | _ => None
      end
    | [] => None
    end
  | [] => None
  end.

Definition nthZ (l : list Z) (i : nat) : Z := nth i l 0%Z.


(* function update on nat-indexed maps *)
Definition upd {A} (f : nat -> A) (k : nat) (x : A) : nat -> A :=
  fun j => if Nat.eqb j k then x else f j.
Lemma upd_same {A} (f : nat -> A) k x : upd f k x k = x.
Proof. unfold upd. now rewrite Nat.eqb_refl. Qed.
Lemma upd_other {A} (f : nat -> A) k x j : j <> k -> upd f k x j = f j.
Proof. unfold upd. intros H. destruct (Nat.eqb_spec j k); congruence. Qed.

(* how rt_canon prints a 64-bit unsigned value *)
Definition canon64 (v : Z) : Z :=
  (if v <? 2 ^ 40 then v
   else if 2 ^ 64 - 2 ^ 40 <? v then v - 2 ^ 64 else -777777)%Z.
