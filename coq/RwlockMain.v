(* C07: every step of coq/Rwlock.v preserves the invariant. *)
From Coq Require Import List ZArith Lia Bool Arith.
From LF Require Import Conc T1K Rwlock RwlockLemmas RwlockInv RwlockSteps RwlockGlobal.
Import ListNotations.
Local Open Scope Z_scope.

Lemma popped_waiting_asleep m f sd k :
  shape m f (RWait sd Popped) k -> fstate m f = ST_WAITING -> exists r, k = Asleep :: r.
Proof.
  intros H E. inversion H; subst;
    try (match goal with H : _ \/ _ |- _ => destruct H as [?|[? ?]]; discriminate end);
    try (match goal with H : exists _, _ = _ |- _ => destruct H; discriminate end);
    try (match goal with H : pre_ok _ _ _ |- _ => destruct H as (_ & P2 & _); rewrite E in P2; discriminate end);
    eauto.
Qed.

Section Main.
Variable s : st. Variable g : ghost. Variable t : nat.
Hypothesis G : Z.of_nat (nthr s) < 2 ^ 21.
Hypothesis I : InvG s g. Hypothesis R : status_of s t = SReady.

Lemma step_inv_local_cases : Inv (fst (step s t)).
Proof.
  pose proof (ready_lt _ _ R) as Ht.
  pose proof (i_shape _ _ I t) as Sh.
  remember (stk s t) as k0 eqn:Hk. remember (grole g t) as r0 eqn:Hr.
  destruct Sh.
  - (* done *) exfalso. unfold status_of in R. rewrite <- Hk in R. destruct (t <? nthr s)%nat; discriminate.
  - (* start *) stp Hk. local g t RIdle Hk Hr.
    apply (start_shape _ t p 1%nat HNone). apply run_ok_fstate; auto.
  - (* lsnap *) destruct (busy sd (word (mem s) 0)) eqn:B; stp Hk; local g t RIdle Hk Hr; constructor; auto.
  - (* lcasw *) destruct (word (mem s) 0 =? e) eqn:B.
    + stp Hk. exists (gset_role g t (RWait sd Pre)). eapply announce_inv; eauto.
    + stp Hk. local g t RIdle Hk Hr. constructor; auto.
  - (* lcasa *) destruct (word (mem s) 0 =? e) eqn:B.
    + stp Hk. exists (gset_role g t (ROwn sd)). exact (acquire_inv s g t sd p k e _ G I Ht Hk Hr H H0 B).
    + stp Hk. local g t RIdle Hk Hr. constructor; auto.
  - (* tsnap *) destruct (busy sd (word (mem s) 0)) eqn:B; stp Hk; local g t RIdle Hk Hr.
    + apply (start_shape _ t p (S k) HNone); auto.
    + constructor; auto.
  - (* tcasa *) destruct (word (mem s) 0 =? e) eqn:B.
    + stp Hk. exists (gset_role g t (ROwn sd)). exact (acquire_inv s g t sd p k e _ G I Ht Hk Hr H H0 B).
    + stp Hk. local g t RIdle Hk Hr. constructor; auto.
  - (* gotr *) stp Hk. local g t (ROwn SR) Hk Hr.
    apply (start_shape _ t p (S k) (HRead (cell (mem s) 0))); auto.
  - (* gotw *) stp Hk. local g t (ROwn SW) Hk Hr.
    apply (start_shape _ t p (S k) HWrite); auto.
  - (* ucheck *) stp Hk. local g t (ROwn sd) Hk Hr. constructor; auto.
  - (* usnap *) destruct (release sd (word (mem s) 0)) as [n h] eqn:B. stp Hk.
    local g t (ROwn sd) Hk Hr. econstructor; eauto.
  - (* ucas *) destruct (word (mem s) 0 =? e) eqn:B.
    + exists (gset_role g t RIdle).
      destruct h; stp Hk; exact (release_inv s g t sd p k r e n _ G I Ht Hk Hr H H0 B).
    + stp Hk. local g t (ROwn sd) Hk Hr. constructor; auto.
  - (* khead *) stp Hk. local g t RIdle Hk Hr.
    + constructor; auto.
    + unfold pop_ok. cbn [mk stk mem]. rewrite upd_same. reflexivity.
  - (* knext *) pose proof (i_pop _ _ I t) as Po. unfold pop_ok in Po. rewrite <- Hk in Po.
    destruct (nnext (mem s) h) as [|nx'] eqn:B.
    + assert (C : 0 <? cnt = true) by (apply Z.ltb_lt; unfold pq in *; lia).
      stp Hk. local g t RIdle Hk Hr. constructor; auto.
    + stp Hk. local g t RIdle Hk Hr.
      * constructor; auto.
      * unfold pop_ok. cbn [mk stk mem]. rewrite upd_same. auto.
  - (* kspin1 *) pose proof H as (A & _). stp Hk. rewrite A. local g t RIdle Hk Hr. constructor; auto.
  - (* kspin2 *) assert (C : wc <? cnt = true) by (apply Z.ltb_lt; unfold pq in *; lia).
    stp Hk. local g t RIdle Hk Hr. constructor; auto.
  - (* ksethead *) stp Hk. eapply pop_inv; eauto.
  - (* kdata *) pose proof (i_pop _ _ I t) as Po. unfold pop_ok in Po. rewrite <- Hk in Po.
    stp Hk. local g t RIdle Hk Hr.
    + constructor; auto.
    + unfold pop_ok. cbn [mk stk mem]. rewrite upd_same.
      destruct Po as (A & B & C & f & (sd' & D1 & D2 & D3) & E). split; auto. split; auto.
      exists f. split; auto. exists sd'. repeat split; auto. cbn.
      assert (f <> t) by (intros ->; congruence). rewrite upd_other; auto.
    + intros f0 Hin. unfold inflight in *. cbn [mk stk mem]. rewrite upd_same. rewrite <- Hk in Hin. exact Hin.
  - (* kcopy *) pose proof (i_pop _ _ I t) as Po. unfold pop_ok in Po. rewrite <- Hk in Po.
    destruct Po as (P1 & P2 & f & P3 & P4).
    stp Hk. exists (gset_role g t RIdle).
    apply inv_gen_keep; auto; local_prems Hk Hr.
    + intros x. cbn [set_ndata ndata nnext]. destruct (Nat.eq_dec x h) as [->|Hx].
      * left. right. split; auto. rewrite <- Hk. exact Logic.I.
      * right. rewrite upd_other by auto. auto.
    + constructor; auto.
    + unfold pop_ok. cbn [mk stk mem gset_role nown set_ndata ndata]. rewrite !upd_same.
      split; auto. split; auto. exists f. split; auto.
      destruct P3 as (sd' & Q1 & Q2 & Q3). exists sd'. repeat split; auto. cbn.
      assert (f <> t) by (intros ->; congruence). rewrite upd_other; auto.
    + intros f0 Hin. unfold inflight in *. cbn [mk stk mem set_ndata ndata]. rewrite !upd_same. rewrite <- Hk in Hin. exact Hin.
  - (* kout *) stp Hk. eapply kout_inv; eauto.
  - (* kstate *) pose proof (i_pop _ _ I t) as Po. unfold pop_ok in Po. rewrite <- Hk in Po.
    destruct Po as ((sd' & Q1 & Q2 & Q3) & FN).
    assert (Hft : f <> t) by (intros ->; congruence).
    destruct (fstate (mem s) f =? ST_WAITING) eqn:B.
    + apply Z.eqb_eq in B. pose proof (i_shape _ _ I f) as Sf. rewrite Q2 in Sf.
      destruct (popped_waiting_asleep _ _ _ _ Sf B) as [r0 AS].
      apply Z.eqb_eq in B. stp Hk. local g t RIdle Hk Hr.
      * constructor; auto.
      * unfold pop_ok. cbn [mk stk mem gset_role grole nthr]. rewrite upd_same.
        split; [exists sd'; split; [auto|]; split; [|exact Q3]; cbn [gset_role grole]; rewrite upd_other; auto|].
        split; auto. exists r0. rewrite upd_other; auto.
      * intros f0 Hin. unfold inflight in *. cbn [mk stk mem]. rewrite upd_same. rewrite <- Hk in Hin. exact Hin.
    + destruct (wc + 1 <? cnt) eqn:L.
      * stp Hk. apply Z.ltb_lt in L.
        eapply (wake_inv s g t sd cnt wc f p k r (mem s)); eauto.
      * stp Hk. apply Z.ltb_ge in L.
        eapply (wake_inv s g t sd cnt wc f p k r (mem s)); eauto. right. split; auto. unfold pq in *. lia.
  - (* kready *) pose proof (i_pop _ _ I t) as Po. unfold pop_ok in Po. rewrite <- Hk in Po.
    destruct Po as (PF & FN & AS).
    destruct (wc + 1 <? cnt) eqn:L.
    + stp Hk. apply Z.ltb_lt in L.
      eapply (wake_inv s g t sd cnt wc f p k r (set_fstate (mem s) f ST_READY)); eauto.
    + stp Hk. apply Z.ltb_ge in L.
      eapply (wake_inv s g t sd cnt wc f p k r (set_fstate (mem s) f ST_READY)); eauto.
      right. split; auto. unfold pq in *. lia.
  - (* wsaving *) stp Hk. local g t (RWait sd Pre) Hk Hr.
    destruct H as (A & B & C & D). constructor; cbn; rewrite ?upd_same; auto.
  - (* wdata *) stp Hk. exists (gset_role g t (RWait sd Pre)).
    pose proof (i_ownt _ _ I t H2) as On.
    apply inv_gen_keep; auto; local_prems Hk Hr.
    + intros x. cbn [set_fnode set_ndata ndata nnext]. destruct (Nat.eq_dec x (fnode (mem s) t)) as [->|Hx].
      * left. left. exact On.
      * right. rewrite upd_other by auto. auto.
    + cbn. rewrite upd_same. congruence.
    + intros sd' E. rewrite <- Hr in E. discriminate.
    + constructor; cbn; rewrite ?upd_same; auto.
    + unfold held_ok. cbn [mk stk mem gset_role nown set_fnode set_ndata ndata]. rewrite !upd_same. auto.
  - (* wnext *) pose proof (i_held _ _ I t) as Hd. unfold held_ok in Hd. rewrite <- Hk in Hd. destruct Hd as (D1 & D2 & D3).
    stp Hk. exists (gset_role g t (RWait sd Pre)).
    apply inv_gen_keep; auto; local_prems Hk Hr.
    + intros x. cbn [set_nnext ndata nnext]. destruct (Nat.eq_dec x n) as [->|Hx].
      * left. left. exact D2.
      * right. rewrite upd_other by auto. auto.
    + constructor; auto.
    + unfold held_ok. cbn [mk stk mem gset_role nown set_nnext ndata nnext]. rewrite !upd_same. auto.
  - (* wxchg *) stp Hk. eapply push_inv; eauto.
  - (* wlink *) stp Hk. exists g. eapply link_inv; eauto.
  - (* pyread *) pose proof H as (A & B & C). stp Hk. rewrite B. local g t (RWait sd w) Hk Hr. constructor; auto.
  - (* pynext *) stp Hk. local g t (RWait sd w) Hk Hr. constructor; auto.
  - (* pswread *) pose proof H as (A & B & C).
    assert (E : (fstate (mem s) t =? ST_RUNNING) = false) by (rewrite B; reflexivity).
    stp Hk. local g t (RWait sd w) Hk Hr. constructor; auto.
  - (* pswdone *) stp Hk. local g t (RWait sd w) Hk Hr. constructor; auto.
  - (* pmread *) pose proof H as (A & B & C).
    assert (E : (fstate (mem s) t =? ST_SAVING) = true) by (rewrite B; reflexivity).
    stp Hk. local g t (RWait sd w) Hk Hr. constructor; auto.
  - (* pmflip *) destruct H as (A & B & C & D & E & F).
    assert (STP : forall m1 k1, match pend (mem s) t with
              | S k' => (set_pend (set_fstate (mem s) t ST_WAITING) t k', Resume :: YLoop :: [FC (LWoken sd p k)])
              | O => (set_blocked (set_fstate (mem s) t ST_WAITING) t true, Asleep :: YLoop :: [FC (LWoken sd p k)])
              end = (m1, k1) -> fst (step s t) = mk s t m1 k1).
    { intros m1 k1 E1. unfold step. rewrite <- Hk. cbn [kstep].
      rewrite run_slots_empty by (apply (i_slots _ _ I)). unfold sleep. cbn [pend set_fstate].
      destruct (pend (mem s) t); inversion E1; subst; reflexivity. }
    destruct A as [-> | [-> | ->]]; rewrite D in STP.
    + rewrite (STP _ _ eq_refl). local g t (RWait sd InL) Hk Hr.
      constructor; cbn; rewrite ?upd_same; auto; discriminate.
    + rewrite (STP _ _ eq_refl). local g t (RWait sd Popped) Hk Hr.
      constructor; cbn; rewrite ?upd_same; auto; discriminate.
    + rewrite (STP _ _ eq_refl). exists (gset_role g t (RWait sd Resumed)). apply inv_local; auto; local_prems Hk Hr.
      * constructor; cbn; rewrite ?upd_same; auto.
      * right. rewrite <- Hr. auto.
  - (* asleep *) assert (B : blocked (mem s) t = false).
    { unfold status_of in R. rewrite <- Hk in R. cbn [kstatus] in R. destruct (t <? nthr s)%nat; [|discriminate].
      destruct (blocked (mem s) t); [discriminate|reflexivity]. }
    assert (w = Woken) as -> by (destruct w; congruence).
    stp Hk. exists (gset_role g t (RWait sd Resumed)). apply inv_local; auto; local_prems Hk Hr.
    + constructor; auto.
    + right. rewrite <- Hr. auto.
    + intros _ sd'. rewrite <- Hr. discriminate.
  - (* resume *) stp Hk. local g t (RWait sd Resumed) Hk Hr.
    apply sh_ryread. apply run_ok_fstate; auto.
  - (* ryread *) pose proof H as (A & B). stp Hk. rewrite A. local g t (RWait sd Resumed) Hk Hr. constructor; auto.
  - (* rynext *) stp Hk. exists (gset_role g t (ROwn sd)). apply inv_local; auto; local_prems Hk Hr.
    + destruct sd; constructor; auto.
    + right. rewrite <- Hr. auto.
    + intros sd0. rewrite <- Hk, <- Hr. destruct sd, sd0; reflexivity.
    + intros sd0. rewrite <- Hk, <- Hr. destruct sd, sd0; reflexivity.
    + destruct sd; cbn; tauto.
    + destruct sd; cbn; tauto.
    + apply pop_ok_nonpopper. cbn [mk stk]. rewrite upd_same. destruct sd; cbn; tauto.
    + destruct sd; cbn; tauto.
Qed.
End Main.

Lemma step_inv s t : Z.of_nat (nthr s) < 2 ^ 21 -> Inv s -> status_of s t = SReady -> Inv (fst (step s t)).
Proof. intros G [g I] R. eapply step_inv_local_cases; eauto. Qed.

Lemma step_nthr s t : nthr (fst (step s t)) = nthr s.
Proof. unfold step. destruct (kstep rwc cret (mem s) t (stk s t)) as [[m1 e1] s1]. reflexivity. Qed.

Lemma reachable_inv progs s : Z.of_nat (length progs) < 2 ^ 21 ->
  reachable M (init progs) s -> Inv s /\ nthr s = length progs.
Proof.
  intros G R. induction R as [|s t R IH RD].
  - split; [apply init_inv|reflexivity].
  - destruct IH as [IH1 IH2]. split.
    + apply step_inv; auto. rewrite IH2. exact G.
    + cbn [mstep M]. rewrite step_nthr. exact IH2.
Qed.

