(* C11, multi channel (include/fiber_multi_channel.h): the ABSTRACT attempt-level
   protocol.  Each attempt of a send / receive runs under the channel lock, so
   it is atomic here.  Blocked senders AND receivers share ONE LIFO waiter list;
   every completed operation wakes the TOP entry; a woken fiber that cannot
   proceed re-queues itself (same protocol as notes/probes/mc_path.py).

   Results:
     abs_no_stranded_single_sender   : exactly one sender   -> no reachable state is stranded
     abs_no_stranded_single_receiver : exactly one receiver -> no reachable state is stranded
     abs_stranded_example            : 3 senders + 2 receivers, capacity 2: a stranded
                                       state is reachable (finding F-C11)
   Second part (end of the file): the TWO-LIST protocol (the repair: separate
   lists of blocked senders and blocked receivers):
     abs2_no_stranded                : any senders / receivers / counts / capacity:
                                       no reachable state is stranded
     abs2_obligation                 : the same as an obligation per kind
   Stdlib only. *)
From Coq Require Import List Arith Lia Bool.
Import ListNotations.

(* ---------- the protocol ---------- *)

Inductive kind := Sender | Receiver.

(* per fiber: its kind, the number of operations it still has to perform, awake / blocked *)
Record fiber := { fkind : kind; frem : nat; fawake : bool }.

(* cnt = messages buffered; wl = the waiter list, TOP FIRST *)
Record ast := { cnt : nat; wl : list nat; fib : nat -> fiber }.

Definition updf (f : nat -> fiber) (i : nat) (x : fiber) : nat -> fiber :=
  fun j => if Nat.eqb j i then x else f j.

(* can a fiber of kind k proceed when c messages are buffered (capacity size)? *)
Definition can (size : nat) (k : kind) (c : nat) : bool :=
  match k with Sender => c <? size | Receiver => 0 <? c end.

Definition bump (k : kind) (c : nat) : nat :=
  match k with Sender => S c | Receiver => pred c end.

Definition set_awake (f : fiber) (b : bool) : fiber :=
  {| fkind := fkind f; frem := frem f; fawake := b |}.

(* one attempt of fiber i *)
Definition astep (size : nat) (st : ast) (i : nat) : ast :=
  let f := fib st i in
  if can size (fkind f) (cnt st) then
    let fb := updf (fib st) i {| fkind := fkind f; frem := pred (frem f); fawake := true |} in
    match wl st with
    | [] => {| cnt := bump (fkind f) (cnt st); wl := []; fib := fb |}
    | j :: r => {| cnt := bump (fkind f) (cnt st); wl := r; fib := updf fb j (set_awake (fb j) true) |}
    end
  else {| cnt := cnt st; wl := i :: wl st; fib := updf (fib st) i (set_awake f false) |}.

(* fiber i may make an attempt: it exists, is awake and has something left to do *)
Definition enabled (nfib : nat) (st : ast) (i : nat) : Prop :=
  i < nfib /\ fawake (fib st i) = true /\ 0 < frem (fib st i).

(* initial states: empty channel, nobody waits, everybody awake; kinds and
   remaining counts arbitrary *)
Definition ainit (st : ast) : Prop :=
  cnt st = 0 /\ wl st = [] /\ forall i, fawake (fib st i) = true.

Inductive areach (size nfib : nat) (st0 : ast) : ast -> Prop :=
| ar_init : areach size nfib st0 st0
| ar_step st i : areach size nfib st0 st -> enabled nfib st i ->
                 areach size nfib st0 (astep size st i).

(* nobody can make an attempt, yet some blocked fiber could proceed *)
Definition stranded (size nfib : nat) (st : ast) : Prop :=
  (forall i, i < nfib -> ~ (fawake (fib st i) = true /\ 0 < frem (fib st i))) /\
  exists i, i < nfib /\ fawake (fib st i) = false /\
            ((fkind (fib st i) = Sender /\ cnt st < size) \/
             (fkind (fib st i) = Receiver /\ 0 < cnt st)).

(* ---------- arithmetic of the counter, uniformly in the kind ---------- *)

Definition opp (k : kind) : kind := match k with Sender => Receiver | Receiver => Sender end.

(* number of operations of kind k the buffer allows right now *)
Definition avail (size : nat) (k : kind) (c : nat) : nat :=
  match k with Sender => size - c | Receiver => c end.

Lemma can_avail size k c : can size k c = true <-> 0 < avail size k c.
Proof.
  destruct k; unfold can, avail; rewrite Nat.ltb_lt; lia.
Qed.

Lemma cannot_avail size k c : can size k c = false -> avail size k c = 0.
Proof.
  intros H. destruct (avail size k c) eqn:E; [reflexivity|].
  assert (can size k c = true) by (apply can_avail; lia). congruence.
Qed.

Lemma avail_sum size k c : c <= size -> avail size k c + avail size (opp k) c = size.
Proof. destruct k; cbn; lia. Qed.

Lemma bump_le size k c : c <= size -> can size k c = true -> bump k c <= size.
Proof. destruct k; unfold can, avail, bump, opp; rewrite Nat.ltb_lt; lia. Qed.

Lemma avail_bump_same size k c :
  c <= size -> can size k c = true -> avail size k (bump k c) + 1 = avail size k c.
Proof. destruct k; unfold can, avail, bump, opp; rewrite Nat.ltb_lt; lia. Qed.

Lemma avail_bump_opp size k c :
  c <= size -> can size k c = true -> avail size (opp k) (bump k c) = avail size (opp k) c + 1.
Proof. destruct k; unfold can, avail, bump, opp; rewrite Nat.ltb_lt; lia. Qed.

Lemma opp_opp k : opp (opp k) = k.
Proof. destruct k; reflexivity. Qed.

Lemma kind_neq_opp k k0 : k <> k0 -> k = opp k0.
Proof. destruct k, k0; cbn; congruence. Qed.

(* ---------- counting over fibers < n ---------- *)

Definition b2n (b : bool) : nat := if b then 1 else 0.

Fixpoint count (P : nat -> bool) (n : nat) : nat :=
  match n with O => 0 | S m => count P m + b2n (P m) end.

Lemma count_ext P Q n : (forall j, j < n -> P j = Q j) -> count P n = count Q n.
Proof.
  induction n as [|n IH]; intros H; cbn; [reflexivity|].
  rewrite IH by (intros; apply H; lia). rewrite (H n) by lia. reflexivity.
Qed.

Lemma count_upd1 P Q n i :
  i < n -> (forall j, j <> i -> P j = Q j) ->
  count Q n + b2n (P i) = count P n + b2n (Q i).
Proof.
  induction n as [|n IH]; intros Hi H; [lia|]. cbn.
  destruct (Nat.eq_dec i n) as [->|Hne].
  - rewrite (count_ext P Q n) by (intros; apply H; lia). lia.
  - rewrite (H n) by lia. specialize (IH ltac:(lia) H). lia.
Qed.

Lemma count_pos P n : 0 < count P n -> exists i, i < n /\ P i = true.
Proof.
  induction n as [|n IH]; cbn; intros H; [lia|].
  destruct (P n) eqn:E.
  - exists n. split; [lia | exact E].
  - cbn in H. destruct IH as (i & Hi & Hp); [lia|]. exists i. split; [lia | exact Hp].
Qed.

(* ---------- the invariant, for "exactly one fiber (s) has kind k0" ---------- *)

(* fiber i is not the single one, is awake and has something left to do *)
Definition actf (s : nat) (f : nat -> fiber) (i : nat) : bool :=
  negb (i =? s) && fawake (f i) && (0 <? frem (f i)).

Record Inv (size nfib : nat) (k0 : kind) (s : nat) (st : ast) : Prop := {
  i_cnt : cnt st <= size;
  i_kind : forall i, i < nfib -> (fkind (fib st i) = k0 <-> i = s);
  i_nodup : NoDup (wl st);
  (* I0 *)
  i_wl : forall i, In i (wl st) -> i < nfib /\ fawake (fib st i) = false /\ 0 < frem (fib st i);
  i_blk : forall i, i < nfib -> fawake (fib st i) = false -> In i (wl st);
  (* I1: the single fiber waits only at the TOP, and then it really cannot proceed *)
  i_top : In s (wl st) -> exists r, wl st = s :: r /\ avail size k0 (cnt st) = 0;
  (* I2: if one of the others waits, what they could consume is covered by
     those of them that are awake with work left *)
  i_cov : (exists j, In j (wl st) /\ j <> s) ->
          avail size (opp k0) (cnt st) <= count (actf s (fib st)) nfib
}.

Lemma updf_same f i x : updf f i x i = x.
Proof. unfold updf. rewrite Nat.eqb_refl. reflexivity. Qed.

Lemma updf_other f i x j : j <> i -> updf f i x j = f j.
Proof. unfold updf. intros H. destruct (Nat.eqb_spec j i); [contradiction | reflexivity]. Qed.

Lemma inv_init size nfib k0 s st :
  cnt st <= size -> wl st = [] -> (forall i, fawake (fib st i) = true) ->
  (forall i, i < nfib -> (fkind (fib st i) = k0 <-> i = s)) ->
  Inv size nfib k0 s st.
Proof.
  intros Hc Hw Ha Hk. split; try rewrite Hw; cbn; auto.
  - constructor.
  - intros i [].
  - intros i _ H. rewrite Ha in H. discriminate.
  - intros [].
  - intros (j & [] & _).
Qed.

Lemma inv_step size nfib k0 s st i :
  0 < size -> s < nfib ->
  Inv size nfib k0 s st -> enabled nfib st i -> Inv size nfib k0 s (astep size st i).
Proof.
  intros Hsz Hs I (Hi & Haw & Hrem).
  destruct I as [Icnt Ikind Ind Iwl Iblk Itop Icov].
  assert (Hnotin : ~ In i (wl st)).
  { intros H. apply Iwl in H. destruct H as (_ & H & _). congruence. }
  unfold astep. set (f := fib st i) in *.
  destruct (can size (fkind f) (cnt st)) eqn:Hcan.
  - (* the operation is performed *)
    set (fi := {| fkind := fkind f; frem := pred (frem f); fawake := true |}).
    set (fb := updf (fib st) i fi).
    assert (Hfb_kind : forall j, fkind (fb j) = fkind (fib st j)).
    { intros j. unfold fb. destruct (Nat.eq_dec j i) as [->|N].
      - rewrite updf_same. reflexivity.
      - rewrite updf_other by exact N. reflexivity. }
    (* effect of the first update on the count *)
    assert (Hc1 : count (actf s fb) nfib + b2n (actf s (fib st) i)
                  = count (actf s (fib st)) nfib + b2n (actf s fb i)).
    { apply count_upd1; [exact Hi|]. intros j N. unfold actf, fb. rewrite updf_other by exact N. reflexivity. }
    destruct (wl st) as [|j r] eqn:Hwl.
    + (* nobody to wake *)
      split; cbn [cnt wl fib].
      * apply bump_le; assumption.
      * intros x Hx. rewrite Hfb_kind. apply Ikind. exact Hx.
      * constructor.
      * intros x [].
      * intros x Hx Hb. unfold fb in Hb. destruct (Nat.eq_dec x i) as [->|N].
        -- rewrite updf_same in Hb. discriminate.
        -- rewrite updf_other in Hb by exact N. exact (Iblk x Hx Hb).
      * intros [].
      * intros (x & [] & _).
    + (* wake the top j *)
      assert (Hj : In j (j :: r)) by (left; reflexivity).
      destruct (Iwl j Hj) as (Hjn & Hjb & Hjr).
      assert (Hji : j <> i) by (intros ->; apply Hnotin; exact Hj).
      inversion Ind as [|? ? Hjr' Ndr]; subst.
      set (fj := set_awake (fb j) true).
      assert (Hfbj : fb j = fib st j) by (unfold fb; apply updf_other; exact Hji).
      assert (Hc2 : count (actf s (updf fb j fj)) nfib + b2n (actf s fb j)
                    = count (actf s fb) nfib + b2n (actf s (updf fb j fj) j)).
      { apply count_upd1; [exact Hjn|]. intros x N. unfold actf. rewrite updf_other by exact N. reflexivity. }
      assert (Ha_fbj : actf s fb j = false).
      { unfold actf. rewrite Hfbj, Hjb. rewrite andb_false_r. reflexivity. }
      assert (Ha_newj : actf s (updf fb j fj) j = negb (j =? s)).
      { unfold actf. rewrite updf_same. unfold fj, set_awake. cbn [frem fawake fkind]. rewrite Hfbj.
        assert (0 <? frem (fib st j) = true) as -> by (apply Nat.ltb_lt; exact Hjr).
        rewrite !andb_true_r. reflexivity. }
      rewrite Ha_fbj, Ha_newj in Hc2. cbn [b2n] in Hc2.
      split; cbn [cnt wl fib].
      * apply bump_le; assumption.
      * intros x Hx. destruct (Nat.eq_dec x j) as [->|N].
        -- rewrite updf_same. unfold fj. cbn. rewrite Hfb_kind. apply Ikind. exact Hx.
        -- rewrite updf_other by exact N. rewrite Hfb_kind. apply Ikind. exact Hx.
      * exact Ndr.
      * intros x Hx.
        assert (x <> j) by (intros ->; contradiction).
        assert (x <> i) by (intros ->; apply Hnotin; right; exact Hx).
        rewrite updf_other by assumption. unfold fb. rewrite updf_other by assumption.
        apply Iwl. right. exact Hx.
      * intros x Hx Hb. destruct (Nat.eq_dec x j) as [->|N].
        -- rewrite updf_same in Hb. unfold fj in Hb. cbn in Hb. discriminate.
        -- rewrite updf_other in Hb by exact N. unfold fb in Hb.
           destruct (Nat.eq_dec x i) as [->|N2].
           ++ rewrite updf_same in Hb. discriminate.
           ++ rewrite updf_other in Hb by exact N2.
              destruct (Iblk x Hx Hb) as [E|E]; [congruence | exact E].
      * (* I1 *)
        intros Hsr. exfalso.
        destruct Itop as (r' & Er & _); [right; exact Hsr|].
        inversion Er; subst. contradiction.
      * (* I2 *)
        intros (x & Hx & Hxs).
        assert (Pre : avail size (opp k0) (cnt st) <= count (actf s (fib st)) nfib).
        { apply Icov. exists x. split; [right; exact Hx | exact Hxs]. }
        destruct (Nat.eq_dec i s) as [Eis|Nis].
        -- (* the single fiber performed its operation; j is one of the others *)
           assert (Hk : fkind f = k0) by (apply Ikind; assumption).
           assert (Hjs : j <> s) by congruence.
           rewrite Hk. rewrite avail_bump_opp by (try rewrite <- Hk; assumption).
           assert (actf s (fib st) i = false) as E1
             by (unfold actf; subst i; rewrite Nat.eqb_refl; reflexivity).
           assert (actf s fb i = false) as E2
             by (unfold actf; subst i; rewrite Nat.eqb_refl; reflexivity).
           rewrite E1, E2 in Hc1.
           assert (negb (j =? s) = true) as E3
             by (destruct (Nat.eqb_spec j s); [contradiction | reflexivity]).
           rewrite E3 in Hc2. cbn [b2n] in Hc1, Hc2. lia.
        -- (* one of the others performed its operation *)
           assert (Hk : fkind f = opp k0).
           { apply kind_neq_opp. intros E. apply Ikind in E; [contradiction | exact Hi]. }
           assert (actf s (fib st) i = true) as E1.
           { unfold actf. fold f. rewrite Haw.
             destruct (Nat.eqb_spec i s); [contradiction|].
             assert (0 <? frem f = true) as -> by (apply Nat.ltb_lt; exact Hrem). reflexivity. }
           rewrite E1 in Hc1. cbn [b2n] in Hc1.
           pose proof (avail_bump_same size (fkind f) (cnt st) Icnt Hcan) as Hb.
           rewrite Hk in Hb |- *.
           destruct (actf s fb i); destruct (negb (j =? s)); cbn [b2n] in Hc1, Hc2; lia.
  - (* fiber i blocks: push it *)
    pose proof (cannot_avail _ _ _ Hcan) as Hav0.
    assert (Hc1 : forall x, x <> i -> updf (fib st) i (set_awake f false) x = fib st x)
      by (intros; apply updf_other; assumption).
    split; cbn [cnt wl fib].
    + exact Icnt.
    + intros x Hx. destruct (Nat.eq_dec x i) as [->|N].
      * rewrite updf_same. cbn. apply Ikind. exact Hx.
      * rewrite Hc1 by exact N. apply Ikind. exact Hx.
    + constructor; assumption.
    + intros x [<-|Hx].
      * rewrite updf_same. cbn. repeat split; assumption.
      * assert (x <> i) by (intros ->; contradiction).
        rewrite Hc1 by assumption. apply Iwl. exact Hx.
    + intros x Hx Hb. destruct (Nat.eq_dec x i) as [->|N]; [left; reflexivity|].
      rewrite Hc1 in Hb by exact N. right. apply Iblk; assumption.
    + (* I1 *)
      intros [E|Hin].
      * subst i. exists (wl st). split; [reflexivity|].
        assert (Hk : fkind f = k0) by (apply Ikind; [exact Hi | reflexivity]).
        rewrite <- Hk. exact Hav0.
      * (* s already waits (so at the top with avail k0 = 0) and i is another
           kind that cannot proceed either: impossible since size > 0 *)
        exfalso.
        destruct (Itop Hin) as (r' & _ & Hz).
        assert (i <> s) by (intros ->; contradiction).
        assert (Hk : fkind f = opp k0).
        { apply kind_neq_opp. intros E. apply Ikind in E; [contradiction | exact Hi]. }
        rewrite Hk in Hav0.
        pose proof (avail_sum size k0 (cnt st) Icnt). lia.
    + (* I2 *)
      intros (x & Hx & Hxs).
      destruct (Nat.eq_dec i s) as [Eis|Nis].
      * (* the single fiber blocks: the count over the others is unchanged *)
        destruct Hx as [E|Hx]; [congruence|].
        assert (Pre : avail size (opp k0) (cnt st) <= count (actf s (fib st)) nfib).
        { apply Icov. exists x. split; assumption. }
        rewrite (count_ext _ (actf s (fib st))); [exact Pre|].
        intros y _. unfold actf. destruct (Nat.eqb_spec y s) as [->|N]; [reflexivity|].
        rewrite Hc1 by congruence. reflexivity.
      * assert (Hk : fkind f = opp k0).
        { apply kind_neq_opp. intros E. apply Ikind in E; [contradiction | exact Hi]. }
        rewrite Hk in Hav0. rewrite Hav0. lia.
Qed.

Lemma inv_reach size nfib k0 s st0 st :
  0 < size -> s < nfib ->
  cnt st0 <= size -> wl st0 = [] -> (forall i, fawake (fib st0 i) = true) ->
  (forall i, i < nfib -> (fkind (fib st0 i) = k0 <-> i = s)) ->
  areach size nfib st0 st -> Inv size nfib k0 s st.
Proof.
  intros Hsz Hs Hc Hw Ha Hk R. induction R.
  - apply inv_init; assumption.
  - apply inv_step; assumption.
Qed.

Lemma inv_not_stranded size nfib k0 s st :
  0 < size -> s < nfib -> Inv size nfib k0 s st -> ~ stranded size nfib st.
Proof.
  intros Hsz Hs I (Hnone & i & Hi & Hb & Hcan).
  destruct I as [Icnt Ikind Ind Iwl Iblk Itop Icov].
  assert (Hc : can size (fkind (fib st i)) (cnt st) = true).
  { destruct Hcan as [(-> & H)|(-> & H)]; unfold can; apply Nat.ltb_lt; exact H. }
  apply can_avail in Hc.
  pose proof (Iblk i Hi Hb) as Hin.
  destruct (Nat.eq_dec i s) as [->|N].
  - destruct (Itop Hin) as (r & _ & Hz).
    assert (Hk : fkind (fib st s) = k0) by (apply Ikind; [exact Hs | reflexivity]).
    rewrite Hk in Hc. lia.
  - assert (Hk : fkind (fib st i) = opp k0).
    { apply kind_neq_opp. intros E. apply Ikind in E; [contradiction | exact Hi]. }
    rewrite Hk in Hc.
    assert (Hcv : avail size (opp k0) (cnt st) <= count (actf s (fib st)) nfib).
    { apply Icov. exists i. split; assumption. }
    destruct (count_pos (actf s (fib st)) nfib ltac:(lia)) as (x & Hx & Hact).
    unfold actf in Hact. apply andb_prop in Hact. destruct Hact as (Hact & Hr).
    apply andb_prop in Hact. destruct Hact as (_ & Ha).
    apply (Hnone x Hx). split; [exact Ha | apply Nat.ltb_lt; exact Hr].
Qed.

(* the uniform statement: exactly one fiber of kind k0 *)
Theorem abs_no_stranded_single :
  forall (size nfib : nat) (k0 : kind) (s : nat) (st0 st : ast),
    0 < size -> ainit st0 -> s < nfib ->
    (forall i, i < nfib -> (fkind (fib st0 i) = k0 <-> i = s)) ->
    areach size nfib st0 st -> ~ stranded size nfib st.
Proof.
  intros size nfib k0 s st0 st Hsz (Hc & Hw & Ha) Hs Hk R.
  apply (inv_not_stranded size nfib k0 s); [assumption | assumption |].
  apply (inv_reach size nfib k0 s st0); try assumption. lia.
Qed.

(* (1) exactly one sender (fiber s), all other fibers receivers *)
Theorem abs_no_stranded_single_sender :
  forall (size nfib : nat) (s : nat) (st0 st : ast),
    0 < size -> ainit st0 -> s < nfib ->
    (forall i, i < nfib -> (fkind (fib st0 i) = Sender <-> i = s)) ->
    areach size nfib st0 st -> ~ stranded size nfib st.
Proof. intros size nfib s st0 st. apply (abs_no_stranded_single size nfib Sender s). Qed.

(* (2) exactly one receiver (fiber s), all other fibers senders *)
Theorem abs_no_stranded_single_receiver :
  forall (size nfib : nat) (s : nat) (st0 st : ast),
    0 < size -> ainit st0 -> s < nfib ->
    (forall i, i < nfib -> (fkind (fib st0 i) = Receiver <-> i = s)) ->
    areach size nfib st0 st -> ~ stranded size nfib st.
Proof. intros size nfib s st0 st. apply (abs_no_stranded_single size nfib Receiver s). Qed.

(* ---------- (3) with several senders and several receivers a fiber can be stranded ---------- *)

(* run a list of attempts, checking that every one is enabled *)
Definition enabledb (nfib : nat) (st : ast) (i : nat) : bool :=
  (i <? nfib) && fawake (fib st i) && (0 <? frem (fib st i)).

Lemma enabledb_ok nfib st i : enabledb nfib st i = true -> enabled nfib st i.
Proof.
  unfold enabledb, enabled. intros H.
  apply andb_prop in H. destruct H as (H & H3). apply andb_prop in H. destruct H as (H1 & H2).
  apply Nat.ltb_lt in H1. apply Nat.ltb_lt in H3. auto.
Qed.

Fixpoint arun (size nfib : nat) (st : ast) (l : list nat) : option ast :=
  match l with
  | [] => Some st
  | i :: r => if enabledb nfib st i then arun size nfib (astep size st i) r else None
  end.

Lemma arun_reach size nfib st0 l : forall st st',
  areach size nfib st0 st -> arun size nfib st l = Some st' -> areach size nfib st0 st'.
Proof.
  induction l as [|i r IH]; intros st st' R H; cbn in H.
  - inversion H; subst. exact R.
  - destruct (enabledb nfib st i) eqn:E; [|discriminate].
    apply (IH (astep size st i)); [|exact H].
    apply ar_step; [exact R | apply enabledb_ok; exact E].
Qed.

(* capacity 2; fibers 0,1,2 senders with 2 operations, fibers 3,4 receivers with 3 *)
Definition ex_init : ast :=
  {| cnt := 0; wl := [];
     fib := fun i => if i <? 3 then {| fkind := Sender; frem := 2; fawake := true |}
                     else {| fkind := Receiver; frem := 3; fawake := true |} |}.

(* the 16 attempts of the history printed by notes/probes/mc_path.py *)
Definition ex_attempts : list nat := [0; 1; 2; 0; 1; 3; 3; 3; 4; 0; 4; 4; 3; 1; 3; 4].

Definition ex_final : ast :=
  match arun 2 5 ex_init ex_attempts with Some st => st | None => ex_init end.

Lemma ex_run : arun 2 5 ex_init ex_attempts = Some ex_final.
Proof. vm_compute. reflexivity. Qed.

(* final state: cnt = 0, waiter list [4; 2] (receiver 4 on top of sender 2),
   fibers 0,1,3 finished, sender 2 blocked with the buffer EMPTY *)
Lemma ex_facts :
  cnt ex_final = 0 /\ wl ex_final = [4; 2] /\
  frem (fib ex_final 0) = 0 /\ frem (fib ex_final 1) = 0 /\ frem (fib ex_final 3) = 0 /\
  fawake (fib ex_final 2) = false /\ fawake (fib ex_final 4) = false /\
  frem (fib ex_final 2) = 2 /\ frem (fib ex_final 4) = 2 /\
  fkind (fib ex_final 2) = Sender.
Proof. vm_compute. repeat split; reflexivity. Qed.

Lemma stranded_from_facts (st : ast) :
  cnt st = 0 ->
  frem (fib st 0) = 0 -> frem (fib st 1) = 0 -> frem (fib st 3) = 0 ->
  fawake (fib st 2) = false -> fawake (fib st 4) = false ->
  fkind (fib st 2) = Sender ->
  stranded 2 5 st.
Proof.
  intros Hc H0 H1 H3 H2 H4 Hk. split.
  - intros i Hi (Ha & Hr).
    assert (i = 0 \/ i = 1 \/ i = 2 \/ i = 3 \/ i = 4) as D by lia.
    destruct D as [-> | [-> | [-> | [-> | ->]]]]; try congruence; lia.
  - exists 2. split; [lia|]. split; [exact H2|]. left. split; [exact Hk|]. rewrite Hc. lia.
Qed.

Theorem abs_stranded_example :
  ainit ex_init /\
  areach 2 5 ex_init ex_final /\
  stranded 2 5 ex_final.
Proof.
  split; [|split].
  - repeat split. intros i. unfold ex_init. cbn [fib]. destruct (i <? 3); reflexivity.
  - apply (arun_reach 2 5 ex_init ex_attempts ex_init); [apply ar_init | exact ex_run].
  - destruct ex_facts as (Hc & _ & H0 & H1 & H3 & H2 & H4 & _ & _ & Hk).
    apply stranded_from_facts; assumption.
Qed.

(* the example has 3 senders and 2 receivers: the hypotheses of (1) and (2) fail *)
Lemma ex_kinds :
  map (fun i => fkind (fib ex_init i)) [0; 1; 2; 3; 4] = [Sender; Sender; Sender; Receiver; Receiver].
Proof. reflexivity. Qed.

(* ====================================================================== *)
(* THE TWO-LIST PROTOCOL (the repair in /repo: blocked senders and blocked
   receivers wait in SEPARATE lists; a completed send wakes the top blocked
   receiver, a completed receive wakes the top blocked sender).
   Result: abs2_no_stranded -- for ANY number of senders and receivers, any
   remaining counts, any capacity > 0, no reachable state is stranded. *)

(* ws = blocked senders, wr = blocked receivers, both TOP FIRST *)
Record ast2 := { cnt2 : nat; ws : list nat; wr : list nat; fib2 : nat -> fiber }.

(* the list fibers of kind k wait in *)
Definition wlk (k : kind) (st : ast2) : list nat :=
  match k with Sender => ws st | Receiver => wr st end.

(* build a state from the list of kind k (lk) and the list of the other kind (lo) *)
Definition mk2 (c : nat) (k : kind) (lk lo : list nat) (f : nat -> fiber) : ast2 :=
  match k with
  | Sender => {| cnt2 := c; ws := lk; wr := lo; fib2 := f |}
  | Receiver => {| cnt2 := c; ws := lo; wr := lk; fib2 := f |}
  end.

(* one attempt of fiber i (of kind k): if it can proceed, the counter moves,
   one operation is done and the top of the OTHER kind's list is woken;
   otherwise it blocks on its OWN kind's list *)
Definition astep2 (size : nat) (st : ast2) (i : nat) : ast2 :=
  let f := fib2 st i in
  let k := fkind f in
  if can size k (cnt2 st) then
    let fb := updf (fib2 st) i {| fkind := k; frem := pred (frem f); fawake := true |} in
    match wlk (opp k) st with
    | [] => mk2 (bump k (cnt2 st)) k (wlk k st) [] fb
    | j :: r => mk2 (bump k (cnt2 st)) k (wlk k st) r (updf fb j (set_awake (fb j) true))
    end
  else mk2 (cnt2 st) k (i :: wlk k st) (wlk (opp k) st) (updf (fib2 st) i (set_awake f false)).

(* the step, spelled out by kind (sanity: this is the protocol as specified) *)
Lemma astep2_sender size st i :
  fkind (fib2 st i) = Sender ->
  astep2 size st i =
  let f := fib2 st i in
  if cnt2 st <? size then
    let fb := updf (fib2 st) i {| fkind := Sender; frem := pred (frem f); fawake := true |} in
    match wr st with
    | [] => {| cnt2 := S (cnt2 st); ws := ws st; wr := []; fib2 := fb |}
    | j :: r => {| cnt2 := S (cnt2 st); ws := ws st; wr := r;
                   fib2 := updf fb j (set_awake (fb j) true) |}
    end
  else {| cnt2 := cnt2 st; ws := i :: ws st; wr := wr st;
          fib2 := updf (fib2 st) i (set_awake f false) |}.
Proof. intros H. unfold astep2. rewrite H. reflexivity. Qed.

Lemma astep2_receiver size st i :
  fkind (fib2 st i) = Receiver ->
  astep2 size st i =
  let f := fib2 st i in
  if 0 <? cnt2 st then
    let fb := updf (fib2 st) i {| fkind := Receiver; frem := pred (frem f); fawake := true |} in
    match ws st with
    | [] => {| cnt2 := pred (cnt2 st); ws := []; wr := wr st; fib2 := fb |}
    | j :: r => {| cnt2 := pred (cnt2 st); ws := r; wr := wr st;
                   fib2 := updf fb j (set_awake (fb j) true) |}
    end
  else {| cnt2 := cnt2 st; ws := ws st; wr := i :: wr st;
          fib2 := updf (fib2 st) i (set_awake f false) |}.
Proof. intros H. unfold astep2. rewrite H. reflexivity. Qed.

Definition enabled2 (nfib : nat) (st : ast2) (i : nat) : Prop :=
  i < nfib /\ fawake (fib2 st i) = true /\ 0 < frem (fib2 st i).

Definition ainit2 (st : ast2) : Prop :=
  cnt2 st = 0 /\ ws st = [] /\ wr st = [] /\ forall i, fawake (fib2 st i) = true.

Inductive areach2 (size nfib : nat) (st0 : ast2) : ast2 -> Prop :=
| ar2_init : areach2 size nfib st0 st0
| ar2_step st i : areach2 size nfib st0 st -> enabled2 nfib st i ->
                  areach2 size nfib st0 (astep2 size st i).

Definition stranded2 (size nfib : nat) (st : ast2) : Prop :=
  (forall i, i < nfib -> ~ (fawake (fib2 st i) = true /\ 0 < frem (fib2 st i))) /\
  exists i, i < nfib /\ fawake (fib2 st i) = false /\
            ((fkind (fib2 st i) = Sender /\ cnt2 st < size) \/
             (fkind (fib2 st i) = Receiver /\ 0 < cnt2 st)).

(* ---------- accessors of mk2 ---------- *)
Lemma wlk_mk2_same c k a b f : wlk k (mk2 c k a b f) = a.
Proof. destruct k; reflexivity. Qed.
Lemma wlk_mk2_opp c k a b f : wlk (opp k) (mk2 c k a b f) = b.
Proof. destruct k; reflexivity. Qed.
Lemma cnt2_mk2 c k a b f : cnt2 (mk2 c k a b f) = c.
Proof. destruct k; reflexivity. Qed.
Lemma fib2_mk2 c k a b f : fib2 (mk2 c k a b f) = f.
Proof. destruct k; reflexivity. Qed.

Lemma kind_cases k k' : k' = k \/ k' = opp k.
Proof. destruct k, k'; auto. Qed.
Lemma opp_neq k : opp k <> k.
Proof. destruct k; discriminate. Qed.

Definition kind_eqb (a b : kind) : bool :=
  match a, b with Sender, Sender => true | Receiver, Receiver => true | _, _ => false end.
Lemma kind_eqb_refl k : kind_eqb k k = true. Proof. destruct k; reflexivity. Qed.
Lemma kind_eqb_eq a b : kind_eqb a b = true -> a = b.
Proof. destruct a, b; cbn; congruence. Qed.
Lemma kind_eqb_neq a b : a <> b -> kind_eqb a b = false.
Proof. destruct a, b; cbn; congruence. Qed.

(* fiber i has kind k, is awake and has something left to do *)
Definition actk (k : kind) (f : nat -> fiber) (i : nat) : bool :=
  kind_eqb (fkind (f i)) k && fawake (f i) && (0 <? frem (f i)).

Record Inv2 (size nfib : nat) (st : ast2) : Prop := {
  j_cnt : cnt2 st <= size;
  j_nodup : forall k, NoDup (wlk k st);
  (* I0 *)
  j_wl : forall k i, In i (wlk k st) ->
         i < nfib /\ fkind (fib2 st i) = k /\ fawake (fib2 st i) = false /\ 0 < frem (fib2 st i);
  j_blk : forall i, i < nfib -> fawake (fib2 st i) = false -> In i (wlk (fkind (fib2 st i)) st);
  (* IS (k = Sender) / IR (k = Receiver): if a fiber of kind k waits, what that kind
     could still do to the buffer is covered by its awake members with work left *)
  j_cov : forall k, wlk k st <> [] -> avail size k (cnt2 st) <= count (actk k (fib2 st)) nfib
}.

Lemma inv2_init size nfib st : ainit2 st -> Inv2 size nfib st.
Proof.
  intros (Hc & Hs & Hr & Ha). split.
  - lia.
  - intros []; cbn; [rewrite Hs | rewrite Hr]; constructor.
  - intros [] i; cbn; [rewrite Hs | rewrite Hr]; intros [].
  - intros i _ H. rewrite Ha in H. discriminate.
  - intros []; cbn; [rewrite Hs | rewrite Hr]; congruence.
Qed.

Lemma inv2_step size nfib st i :
  Inv2 size nfib st -> enabled2 nfib st i -> Inv2 size nfib (astep2 size st i).
Proof.
  intros I (Hi & Haw & Hrem).
  destruct I as [Icnt Ind Iwl Iblk Icov].
  assert (Hnotin : forall k, ~ In i (wlk k st)).
  { intros k H. apply Iwl in H. destruct H as (_ & _ & H & _). congruence. }
  unfold astep2. set (f := fib2 st i) in *. set (k := fkind f) in *.
  destruct (can size k (cnt2 st)) eqn:Hcan.
  - (* the operation is performed *)
    set (fi := {| fkind := k; frem := pred (frem f); fawake := true |}).
    set (fb := updf (fib2 st) i fi).
    assert (Hfb_kind : forall x, fkind (fb x) = fkind (fib2 st x)).
    { intros x. unfold fb. destruct (Nat.eq_dec x i) as [->|N].
      - rewrite updf_same. reflexivity.
      - rewrite updf_other by exact N. reflexivity. }
    (* the first update and the two counts *)
    assert (Hck : count (actk k fb) nfib + 1 = count (actk k (fib2 st)) nfib + b2n (actk k fb i)).
    { assert (actk k (fib2 st) i = true) as E1.
      { unfold actk. fold f. fold k. rewrite kind_eqb_refl, Haw.
        assert (0 <? frem f = true) as -> by (apply Nat.ltb_lt; exact Hrem). reflexivity. }
      pose proof (count_upd1 (actk k (fib2 st)) (actk k fb) nfib i Hi) as C.
      rewrite E1 in C. apply C. intros x N. unfold actk, fb. rewrite updf_other by exact N. reflexivity. }
    assert (Hco : count (actk (opp k) fb) nfib = count (actk (opp k) (fib2 st)) nfib).
    { apply count_ext. intros x _. unfold actk, fb. destruct (Nat.eq_dec x i) as [->|N].
      - rewrite updf_same. change (fkind fi) with k. change (fkind (fib2 st i)) with k.
        rewrite (kind_eqb_neq k (opp k)) by (intros E; symmetry in E; exact (opp_neq k E)). reflexivity.
      - rewrite updf_other by exact N. reflexivity. }
    pose proof (avail_bump_same size k (cnt2 st) Icnt Hcan) as Hbs.
    pose proof (avail_bump_opp size k (cnt2 st) Icnt Hcan) as Hbo.
    destruct (wlk (opp k) st) as [|j r] eqn:Hwl.
    + (* nobody to wake *)
      split.
      * rewrite cnt2_mk2. apply bump_le; assumption.
      * intros k'. destruct (kind_cases k k') as [->| ->].
        -- rewrite wlk_mk2_same. apply Ind.
        -- rewrite wlk_mk2_opp. constructor.
      * intros k' x. rewrite fib2_mk2. destruct (kind_cases k k') as [->| ->].
        -- rewrite wlk_mk2_same. intros Hx.
           assert (x <> i) by (intros ->; exact (Hnotin k Hx)).
           unfold fb. rewrite updf_other by assumption. apply Iwl. exact Hx.
        -- rewrite wlk_mk2_opp. intros [].
      * intros x Hx. rewrite fib2_mk2. rewrite Hfb_kind. intros Hb.
        unfold fb in Hb. destruct (Nat.eq_dec x i) as [->|N].
        -- rewrite updf_same in Hb. discriminate.
        -- rewrite updf_other in Hb by exact N. pose proof (Iblk x Hx Hb) as Hin.
           destruct (kind_cases k (fkind (fib2 st x))) as [E|E]; rewrite E in *.
           ++ rewrite wlk_mk2_same. exact Hin.
           ++ rewrite Hwl in Hin. destruct Hin.
      * intros k'. rewrite cnt2_mk2, fib2_mk2. destruct (kind_cases k k') as [->| ->].
        -- rewrite wlk_mk2_same. intros Hne. specialize (Icov k Hne).
           destruct (actk k fb i); cbn [b2n] in Hck; lia.
        -- rewrite wlk_mk2_opp. congruence.
    + (* wake the top j of the other kind's list *)
      assert (Hj : In j (wlk (opp k) st)) by (rewrite Hwl; left; reflexivity).
      destruct (Iwl (opp k) j Hj) as (Hjn & Hjk & Hjb & Hjr).
      assert (Hji : j <> i) by (intros ->; exact (Hnotin (opp k) Hj)).
      pose proof (Ind (opp k)) as Ndo. rewrite Hwl in Ndo.
      inversion Ndo as [|? ? Hjr' Ndr]; subst.
      set (fj := set_awake (fb j) true).
      assert (Hfbj : fb j = fib2 st j) by (unfold fb; apply updf_other; exact Hji).
      (* the second update and the two counts *)
      assert (Hck2 : count (actk k (updf fb j fj)) nfib = count (actk k fb) nfib).
      { apply count_ext. intros x _. unfold actk. destruct (Nat.eq_dec x j) as [->|N].
        - rewrite updf_same. unfold fj, set_awake. cbn [fkind frem fawake]. rewrite Hfbj, Hjk.
          rewrite (kind_eqb_neq (opp k) k) by (apply opp_neq). reflexivity.
        - rewrite updf_other by exact N. reflexivity. }
      assert (Hco2 : count (actk (opp k) (updf fb j fj)) nfib = count (actk (opp k) fb) nfib + 1).
      { pose proof (count_upd1 (actk (opp k) fb) (actk (opp k) (updf fb j fj)) nfib j Hjn) as C.
        assert (actk (opp k) fb j = false) as E1.
        { unfold actk. rewrite Hfbj, Hjb. rewrite andb_false_r. reflexivity. }
        assert (actk (opp k) (updf fb j fj) j = true) as E2.
        { unfold actk. rewrite updf_same. unfold fj, set_awake. cbn [fkind frem fawake].
          rewrite Hfbj, Hjk, kind_eqb_refl.
          assert (0 <? frem (fib2 st j) = true) as -> by (apply Nat.ltb_lt; exact Hjr). reflexivity. }
        rewrite E1, E2 in C. cbn [b2n] in C. rewrite Nat.add_0_r in C. apply C.
        intros x N. unfold actk. rewrite updf_other by exact N. reflexivity. }
      split.
      * rewrite cnt2_mk2. apply bump_le; assumption.
      * intros k'. destruct (kind_cases k k') as [->| ->].
        -- rewrite wlk_mk2_same. apply Ind.
        -- rewrite wlk_mk2_opp. exact Ndr.
      * intros k' x. rewrite fib2_mk2. destruct (kind_cases k k') as [->| ->].
        -- rewrite wlk_mk2_same. intros Hx.
           assert (x <> i) by (intros ->; exact (Hnotin k Hx)).
           assert (x <> j).
           { intros ->. destruct (Iwl k j Hx) as (_ & Ek & _). rewrite Hjk in Ek. exact (opp_neq k Ek). }
           rewrite updf_other by assumption. unfold fb. rewrite updf_other by assumption.
           apply Iwl. exact Hx.
        -- rewrite wlk_mk2_opp. intros Hx.
           assert (x <> j) by (intros ->; contradiction).
           assert (Hx' : In x (wlk (opp k) st)) by (rewrite Hwl; right; exact Hx).
           assert (x <> i) by (intros ->; exact (Hnotin (opp k) Hx')).
           rewrite updf_other by assumption. unfold fb. rewrite updf_other by assumption.
           apply Iwl. exact Hx'.
      * intros x Hx. rewrite fib2_mk2.
        destruct (Nat.eq_dec x j) as [->|N].
        -- rewrite updf_same. unfold fj, set_awake. cbn [fawake]. discriminate.
        -- rewrite updf_other by exact N. rewrite Hfb_kind. intros Hb.
           unfold fb in Hb. destruct (Nat.eq_dec x i) as [->|N2].
           ++ rewrite updf_same in Hb. discriminate.
           ++ rewrite updf_other in Hb by exact N2. pose proof (Iblk x Hx Hb) as Hin.
              destruct (kind_cases k (fkind (fib2 st x))) as [E|E]; rewrite E in *.
              ** rewrite wlk_mk2_same. exact Hin.
              ** rewrite wlk_mk2_opp. rewrite Hwl in Hin. destruct Hin as [E2|E2]; [congruence | exact E2].
      * intros k'. rewrite cnt2_mk2, fib2_mk2. destruct (kind_cases k k') as [->| ->].
        -- rewrite wlk_mk2_same. intros Hne. specialize (Icov k Hne).
           rewrite Hck2. destruct (actk k fb i); cbn [b2n] in Hck; lia.
        -- rewrite wlk_mk2_opp. intros _.
           assert (Pre : avail size (opp k) (cnt2 st) <= count (actk (opp k) (fib2 st)) nfib).
           { apply Icov. rewrite Hwl. discriminate. }
           rewrite Hco2, Hco. lia.
  - (* fiber i blocks on the list of its own kind *)
    pose proof (cannot_avail _ _ _ Hcan) as Hav0.
    assert (Hc1 : forall x, x <> i -> updf (fib2 st) i (set_awake f false) x = fib2 st x)
      by (intros; apply updf_other; assumption).
    split.
    + rewrite cnt2_mk2. exact Icnt.
    + intros k'. destruct (kind_cases k k') as [->| ->].
      * rewrite wlk_mk2_same. constructor; [apply Hnotin | apply Ind].
      * rewrite wlk_mk2_opp. apply Ind.
    + intros k' x. rewrite fib2_mk2. destruct (kind_cases k k') as [->| ->].
      * rewrite wlk_mk2_same. intros [<-|Hx].
        -- rewrite updf_same. unfold set_awake. cbn [fkind frem fawake]. repeat split; try assumption; try reflexivity.
        -- assert (x <> i) by (intros ->; exact (Hnotin k Hx)).
           rewrite Hc1 by assumption. apply Iwl. exact Hx.
      * rewrite wlk_mk2_opp. intros Hx.
        assert (x <> i) by (intros ->; exact (Hnotin (opp k) Hx)).
        rewrite Hc1 by assumption. apply Iwl. exact Hx.
    + intros x Hx. rewrite fib2_mk2. destruct (Nat.eq_dec x i) as [->|N].
      * rewrite updf_same. unfold set_awake. cbn [fkind fawake]. fold k. intros _.
        rewrite wlk_mk2_same. left. reflexivity.
      * rewrite Hc1 by exact N. intros Hb. pose proof (Iblk x Hx Hb) as Hin.
        destruct (kind_cases k (fkind (fib2 st x))) as [E|E]; rewrite E in *.
        -- rewrite wlk_mk2_same. right. exact Hin.
        -- rewrite wlk_mk2_opp. exact Hin.
    + intros k'. rewrite cnt2_mk2, fib2_mk2. destruct (kind_cases k k') as [->| ->].
      * intros _. rewrite Hav0. lia.
      * rewrite wlk_mk2_opp. intros Hne. specialize (Icov (opp k) Hne).
        rewrite (count_ext _ (actk (opp k) (fib2 st))); [exact Icov|].
        intros x _. unfold actk. destruct (Nat.eq_dec x i) as [->|N].
        -- rewrite updf_same. unfold set_awake. cbn [fkind frem fawake].
           change (fkind f) with k. change (fkind (fib2 st i)) with k.
           rewrite (kind_eqb_neq k (opp k)) by (intros E; symmetry in E; exact (opp_neq k E)). reflexivity.
        -- rewrite Hc1 by exact N. reflexivity.
Qed.

Lemma inv2_reach size nfib st0 st :
  ainit2 st0 -> areach2 size nfib st0 st -> Inv2 size nfib st.
Proof.
  intros H0 R. induction R; [apply inv2_init; exact H0 | apply inv2_step; assumption].
Qed.

(* a blocked fiber of kind k that could proceed implies an awake fiber of the
   same kind with work left *)
Lemma inv2_obligation size nfib st k :
  Inv2 size nfib st ->
  (exists i, i < nfib /\ fawake (fib2 st i) = false /\ fkind (fib2 st i) = k /\
             can size k (cnt2 st) = true) ->
  exists j, j < nfib /\ fkind (fib2 st j) = k /\ fawake (fib2 st j) = true /\ 0 < frem (fib2 st j).
Proof.
  intros I (i & Hi & Hb & Hk & Hc).
  pose proof (j_blk _ _ _ I i Hi Hb) as Hin. rewrite Hk in Hin.
  assert (Hne : wlk k st <> []) by (intros E; rewrite E in Hin; destruct Hin).
  pose proof (j_cov _ _ _ I k Hne) as Hcov. apply can_avail in Hc.
  destruct (count_pos (actk k (fib2 st)) nfib ltac:(lia)) as (x & Hx & Hact).
  unfold actk in Hact. apply andb_prop in Hact. destruct Hact as (Hact & Hr).
  apply andb_prop in Hact. destruct Hact as (Hkx & Ha).
  exists x. repeat split; [exact Hx | apply kind_eqb_eq; exact Hkx | exact Ha | apply Nat.ltb_lt; exact Hr].
Qed.

(* the obligation form: while a sender is blocked although the buffer has room,
   some sender is awake with work left (so the system is not stuck on it);
   symmetrically for receivers *)
Theorem abs2_obligation :
  forall (size nfib : nat) (st0 st : ast2),
    0 < size -> ainit2 st0 -> areach2 size nfib st0 st ->
    ((exists i, i < nfib /\ fawake (fib2 st i) = false /\ fkind (fib2 st i) = Sender) /\
     cnt2 st < size ->
     exists j, j < nfib /\ fkind (fib2 st j) = Sender /\ fawake (fib2 st j) = true /\
               0 < frem (fib2 st j)) /\
    ((exists i, i < nfib /\ fawake (fib2 st i) = false /\ fkind (fib2 st i) = Receiver) /\
     0 < cnt2 st ->
     exists j, j < nfib /\ fkind (fib2 st j) = Receiver /\ fawake (fib2 st j) = true /\
               0 < frem (fib2 st j)).
Proof.
  intros size nfib st0 st _ H0 R. pose proof (inv2_reach size nfib st0 st H0 R) as I.
  split; intros ((i & Hi & Hb & Hk) & Hc).
  - apply (inv2_obligation size nfib st Sender I). exists i. repeat split; try assumption.
    unfold can. apply Nat.ltb_lt. exact Hc.
  - apply (inv2_obligation size nfib st Receiver I). exists i. repeat split; try assumption.
    unfold can. apply Nat.ltb_lt. exact Hc.
Qed.

(* any number of senders and receivers, any remaining counts, any capacity *)
Theorem abs2_no_stranded :
  forall (size nfib : nat) (st0 st : ast2),
    0 < size -> ainit2 st0 -> areach2 size nfib st0 st -> ~ stranded2 size nfib st.
Proof.
  intros size nfib st0 st _ H0 R (Hnone & i & Hi & Hb & Hcan).
  pose proof (inv2_reach size nfib st0 st H0 R) as I.
  assert (exists j, j < nfib /\ fawake (fib2 st j) = true /\ 0 < frem (fib2 st j)) as (j & Hj & Ha & Hr).
  { destruct Hcan as [(Hk & Hc)|(Hk & Hc)].
    - destruct (inv2_obligation size nfib st Sender I) as (j & Hj & _ & Ha & Hr).
      + exists i. repeat split; try assumption. unfold can. apply Nat.ltb_lt. exact Hc.
      + exists j. auto.
    - destruct (inv2_obligation size nfib st Receiver I) as (j & Hj & _ & Ha & Hr).
      + exists i. repeat split; try assumption. unfold can. apply Nat.ltb_lt. exact Hc.
      + exists j. auto. }
  apply (Hnone j Hj). split; assumption.
Qed.
