(* C05 proofs, part 5: the statements used by Properties_C05.v, derived from
   the invariant [inv_reach] of CondSteps.v. *)
From Coq Require Import List ZArith Lia Bool Arith.
From LF Require Import Conc T1K Cond CondPhase CondProofs CondInv CondSteps.
Import ListNotations.
Local Open Scope Z_scope.

Definition vw (x : ist) (t : nat) : view := view_of (ph x t).

(* is somebody holding the internal mutex of the cond? (decided through the token ghost) *)
Lemma holder_dec x : IX x ->
  (exists t, v_h1 (vw x t) = true) \/ (forall t, v_h1 (vw x t) = false).
Proof.
  intros [K C]. destruct (tok (kg x) 1%nat) as [|t|t] eqn:E.
  - right. intros u. destruct (v_h1 (vw x u)) eqn:H; auto.
    pose proof (tk_hold _ _ _ K u 1%nat H) as Q. congruence.
  - destruct (v_h1 (vw x t)) eqn:Ht; [left; eauto|]. right. intros u.
    destruct (v_h1 (vw x u)) eqn:H; auto.
    pose proof (tk_hold _ _ _ K u 1%nat H) as Q. rewrite E in Q. inversion Q; subst. unfold vw in *. congruence.
  - right. intros u. destruct (v_h1 (vw x u)) eqn:H; auto.
    pose proof (tk_hold _ _ _ K u 1%nat H) as Q. congruence.
Qed.

Lemma vout_nonneg x t : IX x -> 0 <= vout (vw x t).
Proof.
  intros [K C]. unfold vout. destruct (v_wake (vw x t)) as [[[[q cnt] wc] w]|] eqn:E; [|lia].
  destruct q as [|[|[|q]]]; try lia.
  destruct (cn_wc _ _ _ C t cnt wc w E) as (A & B & _). destruct w; lia.
Qed.

(* ---- count ---- *)
Lemma count_of_inv progs x : ireach progs x ->
  word (mem (base x)) COND = g_reg (cg x) - g_claimed (cg x) - g_trans (cg x) /\
  (g_trans (cg x) = 0 \/ g_trans (cg x) = 1) /\
  (forall t, holds1 (ph x t) = true ->
     g_trans (cg x) = (if v_trans (vw x t) then 1 else 0)) /\
  ((forall t, holds1 (ph x t) = false) -> g_trans (cg x) = 0).
Proof.
  intros R. destruct (inv_reach _ _ R) as [I0 I]. pose proof I as [K C].
  split; [apply (i0_count _ I0)|]. split; [|split].
  - destruct (holder_dec x I) as [[t H]|H].
    + destruct (cn_hold _ _ _ C t H) as [A _]. rewrite A. destruct (v_trans _); auto.
    + destruct (cn_free _ _ _ C H) as [A _]. auto.
  - intros t H. exact (proj1 (cn_hold _ _ _ C t H)).
  - intros H. exact (proj1 (cn_free _ _ _ C H)).
Qed.

(* ---- no spurious release ---- *)
Lemma nospurious_of_inv progs x : ireach progs x ->
  g_rel (cg x) <= g_claimed (cg x) /\
  (forall t c cnt wc kp, ph x t = PRun c (KWake COND cnt wc kp) ->
     g_claimed (cg x) - g_rel (cg x) = cnt - wc /\ 0 <= wc < cnt /\
     cnt = myclaim (cg x) t /\ wc = myrel (cg x) t) /\
  ((forall t c cnt wc kp, ph x t <> PRun c (KWake COND cnt wc kp)) -> g_claimed (cg x) = g_rel (cg x)).
Proof.
  intros R. destruct (inv_reach _ _ R) as [I0 I]. pose proof I as [K C].
  split; [|split].
  - destruct (holder_dec x I) as [[t H]|H].
    + destruct (cn_hold _ _ _ C t H) as [_ A]. pose proof (vout_nonneg x t I). unfold vw in *. lia.
    + destruct (cn_free _ _ _ C H) as [_ A]. lia.
  - intros t c cnt wc kp E.
    pose proof (l0_shape _ _ _ _ (i0_loc _ I0 t)) as Ok. rewrite E in Ok. destruct Ok as [Hc _].
    destruct c; try discriminate Hc.
    assert (Hw : v_wake (vw x t) = Some (COND, cnt, wc, VP kp)) by (unfold vw; rewrite E; reflexivity).
    assert (Hh : v_h1 (vw x t) = true) by (unfold vw; rewrite E; reflexivity).
    destruct (cn_hold _ _ _ C t Hh) as [_ A]. unfold vout in A. unfold vw in Hw. rewrite Hw in A.
    destruct (cn_wc _ _ _ C t cnt wc (VP kp) Hw) as (B1 & B2 & B3 & B4).
    repeat split; auto; lia.
  - intros H. destruct (holder_dec x I) as [[t Ht]|Hn].
    + destruct (cn_hold _ _ _ C t Ht) as [_ A]. unfold vout in A.
      destruct (v_wake (view_of (ph x t))) as [[[[q cnt] wc] w]|] eqn:E; [|lia].
      destruct q as [|[|[|q]]]; try lia.
      exfalso. unfold vw in Ht. destruct (ph x t) as [| |c kp] eqn:Ep; try discriminate E.
      destruct kp as [| a | q0 lp | q0 wp | q0 up | q0 cnt0 wc0 kp0]; cbn in E.
      * discriminate E.
      * discriminate E.
      * destruct lp as [|[| | | | |[| | | | | |q1 [|wc1 kp1]| |]]]; try discriminate E.
        pose proof (l0_shape _ _ _ _ (i0_loc _ I0 t)) as Ok. rewrite Ep in Ok. destruct Ok as [_ Hk]. cbn in Hk.
        destruct Hk as [-> _]. discriminate E.
      * destruct wp as [| | | | |[| | | | | |q1 [|wc1 kp1]| |]]; try discriminate E.
        pose proof (l0_shape _ _ _ _ (i0_loc _ I0 t)) as Ok. rewrite Ep in Ok. destruct Ok as [_ Hk]. cbn in Hk.
        destruct Hk as [-> _]. discriminate E.
      * destruct up; try discriminate E.
        pose proof (l0_shape _ _ _ _ (i0_loc _ I0 t)) as Ok. rewrite Ep in Ok. destruct Ok as [Hc _].
        destruct c; try discriminate Hc; destruct q0 as [|[|q0]]; try discriminate Hc; discriminate E.
      * injection E as -> -> -> <-. eapply H; eauto.
    + exact (proj2 (cn_free _ _ _ C Hn)).
Qed.

(* ---- single consumer ---- *)
Lemma consumer_of_inv progs x t u q kp kp' : ireach progs x ->
  wake_ctx (ph x t) = Some (q, kp) -> wake_ctx (ph x u) = Some (q, kp') -> t = u.
Proof.
  intros R A B. destruct (inv_reach _ _ R) as [I0 [K C]].
  assert (W : forall (p0 : phase) q0 kp0, wake_ctx p0 = Some (q0, kp0) -> exists cnt wc, v_wake (view_of p0) = Some (q0, cnt, wc, VP kp0)).
  { intros p0 q0 kp0 H. destruct p0 as [| |c kp1]; try discriminate H.
    destruct kp1 as [| a | q1 lp | q1 wp | q1 up | q1 cnt1 wc1 kp2]; cbn in H |- *; try discriminate H.
    - destruct lp as [|[| | | | |[| | | | | |q2 [|wc2 kp3]| |]]]; try discriminate H. injection H as <- <-. eauto.
    - destruct wp as [| | | | |[| | | | | |q2 [|wc2 kp3]| |]]; try discriminate H. injection H as <- <-. eauto.
    - destruct up; try discriminate H. injection H as <- <-. eauto.
    - injection H as <- <-. eauto. }
  destruct (W _ _ _ A) as (c1 & w1 & A'). destruct (W _ _ _ B) as (c2 & w2 & B').
  eapply (popper_unique _ _ _ t u); eauto.
Qed.

(* ---- mutual exclusion of the two mutexes; cond_wait returns locked ---- *)
Lemma exclusion_of_inv progs x t u : ireach progs x ->
  (holds0 (ph x t) = true -> holds0 (ph x u) = true -> t = u) /\
  (holds1 (ph x t) = true -> holds1 (ph x u) = true -> t = u).
Proof.
  intros R. destruct (inv_reach _ _ R) as [I0 [K C]]. split; intros A B.
  - pose proof (tk_hold _ _ _ K t 0%nat A) as P. pose proof (tk_hold _ _ _ K u 0%nat B) as Q. congruence.
  - pose proof (tk_hold _ _ _ K t 1%nat A) as P. pose proof (tk_hold _ _ _ K u 1%nat B) as Q. congruence.
Qed.

Lemma owner_of_inv progs x t : ireach progs x -> holds0 (ph x t) = true -> tok (kg x) UMUTEX = THeld t.
Proof. intros R A. destruct (inv_reach _ _ R) as [I0 [K C]]. exact (tk_hold _ _ _ K t 0%nat A). Qed.

(* ---- atomic unlock-and-wait ---- *)
Lemma unlockwait_of_inv progs x : ireach progs x ->
  (* the registered and not yet released waiters are exactly those inside the wait of cond_wait that were not yet granted *)
  (forall t, In t (gwl (cg x)) <-> (v_cw3 (vw x t) = true /\ got (kg x) t = false)) /\
  NoDup (gwl (cg x)) /\ Z.of_nat (length (gwl (cg x))) = g_reg (cg x) - g_rel (cg x) /\
  (* when the user mutex is about to be released on behalf of a waiter, it is registered (or already released) *)
  (forall t p k, ph x t = PRun (CW3 p k) (KWait COND (WPYield (YPMaint UMUTEX IPAdd))) ->
     tok (kg x) UMUTEX = THeld t /\ (In t (gwl (cg x)) \/ got (kg x) t = true)) /\
  (* a signal at its fetch_sub / a broadcast at its exchange sees every registered, unreleased waiter *)
  (forall t um p k a, (ph x t = PRun (CS2 um p k) (KAcc a) \/ ph x t = PRun (CB2 um p k) (KAcc a)) ->
     word (mem (base x)) COND = Z.of_nat (length (gwl (cg x)))).
Proof.
  intros R. destruct (inv_reach _ _ R) as [I0 [K C]].
  split; [exact (cn_wl _ _ _ C)|]. split; [exact (cn_nodup _ _ _ C)|]. split; [exact (cn_len _ _ _ C)|]. split.
  - intros t p k E. split.
    + apply (tk_hold _ _ _ K t 0%nat). rewrite E. reflexivity.
    + destruct (got (kg x) t) eqn:G; auto. left. apply (cn_wl _ _ _ C t). rewrite E. auto.
  - intros t um p k a E.
    assert (H : v_h1 (vw x t) = true /\ v_trans (vw x t) = false /\ vout (vw x t) = 0).
    { unfold vw. destruct E as [-> | ->]; cbn; auto. }
    destruct H as (H1 & H2 & H3). destruct (cn_hold _ _ _ C t H1) as [A B]. unfold vw in *. rewrite H2 in A. rewrite H3 in B.
    rewrite (i0_count _ I0), (cn_len _ _ _ C). lia.
Qed.

(* ---- a signal / broadcast releases exactly what it claimed ---- *)
Definition done_ok (c : gc) (t : nat) (p : phase) : Prop :=
  match p with
  | PRun (CS4 _ _ _) _ => myrel c t = myclaim c t
  | PRun (CS3 _ _ _) (KAcc _) => myclaim c t = 0 /\ myrel c t = 0
  | _ => True
  end.

Definition client_of (p : phase) : option cc := match p with PRun c _ => Some c | _ => None end.

(* one step either keeps the client continuation or returns to it *)
Lemma client_step m t c0 kp m' c' kp' :
  pstep m t (PRun c0 kp) = (m', PRun c' kp') ->
  c' = c0 \/ exists m0 v, creturn m0 t c0 v = (m', PRun c' kp').
Proof.
  intros E. destruct kp as [| a | q lp | q wp | q up | q cnt wc kp]; cbn [pstep] in E.
  - right. eauto.
  - right. destruct a; eauto.
  - destruct lp as [|wp].
    + destruct (word m q - 1 =? 0); [right; eauto|left; congruence].
    + destruct (wait_step m t q wp) as [m1 [wp'| |]]; [left; congruence|right; eauto|].
      unfold junk in E. destruct (kstepC _ _ _) as [[? ?] ?]. discriminate E.
  - destruct (wait_step m t q wp) as [m1 [wp'| |]]; [left; congruence|right; eauto|].
    unfold junk in E. destruct (kstepC _ _ _) as [[? ?] ?]. discriminate E.
  - destruct up as [|wc kp|[|st]].
    + destruct (word m q + 1 =? 1); [right; eauto|left; congruence].
    + destruct (wake_step m t q 1 wc kp false) as [m1 [wc' kp1|v|]]; [left; congruence|left; congruence|].
      unfold junk in E. destruct (kstepC _ _ _) as [[? ?] ?]. discriminate E.
    + left; congruence.
    + destruct (waitingish st); [|right; eauto].
      unfold junk in E. destruct (kstepC _ _ _) as [[? ?] ?]. discriminate E.
  - destruct (wake_step m t q cnt wc kp false) as [m1 [wc' kp1|v|]]; [left; congruence|right; eauto|].
    unfold junk in E. destruct (kstepC _ _ _) as [[? ?] ?]. discriminate E.
Qed.

Lemma start_client p k c' kp' : phase_of_start (start p k) = PRun c' kp' ->
  match c' with CS3 _ _ _ | CS4 _ _ _ => False | _ => True end.
Proof. destruct p as [|[] p]; cbn; intros E; inversion E; subst; exact Logic.I. Qed.

Lemma creturn_client m0 t c0 v m' c' kp' :
  creturn m0 t c0 v = (m', PRun c' kp') ->
  match c' with
  | CS3 _ _ _ => exists um p k, c0 = CS2 um p k \/ c0 = CB2 um p k
  | CS4 _ _ _ => exists um p k, c0 = CB2 um p k \/ c0 = CS3 um p k
  | _ => True
  end.
Proof.
  intros E. unfold creturn in E. destruct c0; cbn in E;
    try (injection E as <- E; try (apply start_client in E; destruct c'; auto; contradiction);
         try (inversion E; subst; exact Logic.I)).
  - destruct o; inversion E; subst; exact Logic.I.
  - destruct (v =? 0); inversion E; subst; exact Logic.I.
  - destruct (0 <=? v - 1); inversion E; subst; eauto.
  - destruct (v =? 0); inversion E; subst; eauto.
  - inversion E; subst; eauto.
  - destruct um; injection E as <- E; [inversion E; subst; exact Logic.I|].
    apply start_client in E. destruct c'; auto; contradiction.
Qed.

Lemma wake_ret_val m t q cnt wc kp inm m1 v :
  wake_step m t q cnt wc kp inm = (m1, WRet v) -> wc < cnt -> v = cnt.
Proof.
  intros E L.
  assert (WL : forall w, wloop cnt w = WRet v -> w <= cnt -> v = cnt).
  { intros w H Hw. unfold wloop in H. destruct (w <? cnt) eqn:Q; inversion H; subst. apply Z.ltb_ge in Q. lia. }
  destruct kp as [|h|h nx|h nx|h d|h|f|f|sp]; cbn in E; try discriminate E.
  - destruct (nnext m h); [destruct (0 <? cnt); [destruct inm|]|]; try discriminate E; injection E as _ E; apply (WL wc); auto; lia.
  - destruct (fstate m f =? ST_WAITING); [discriminate E|]. injection E as _ E. apply (WL (wc + 1)); auto; lia.
  - injection E as _ E. apply (WL (wc + 1)); auto; lia.
  - destruct sp as [|st]; [discriminate E|]. destruct (waitingish st); [discriminate E|].
    injection E as _ E. apply (WL wc); auto; lia.
Qed.

Definition Inv2 (x : ist) : Prop := forall t, done_ok (cg x) t (ph x t).

Lemma inv2_reach progs x : ireach progs x -> Inv2 x.
Proof.
  induction 1 as [|x t R IH St].
  - intros u. exact Logic.I.
  - destruct (inv_reach _ _ R) as [I0 I]. pose proof I as [K C].
    intros u. cbn [lstep ph cg].
    destruct (Nat.eq_dec u t) as [->|Hu].
    2:{ rewrite upd_other by auto. specialize (IH u).
        destruct (gc_other (mem (base x)) t (ph x t) (cg x) u Hu) as [G1 G2].
        unfold done_ok in *. rewrite G1, G2. exact IH. }
    rewrite upd_same. specialize (IH t).
    set (m := mem (base x)) in *. set (c := cg x) in *.
    destruct (pstep m t (ph x t)) as [m' p'] eqn:E. cbn [snd].
    destruct p' as [| s |c' kp']; try exact Logic.I.
    destruct (ph x t) as [| s0 |c0 kp] eqn:Ep.
    { cbn in E. discriminate E. }
    { unfold pstep, junk in E. destruct (kstepC _ _ _) as [[? ?] ?]. discriminate E. }
    pose proof (l0_shape _ _ _ _ (i0_loc _ I0 t)) as Ok. rewrite Ep in Ok. destruct Ok as [Hc Hk].
    (* what the step did to the ghosts of t *)
    destruct c'; try exact Logic.I.
    + (* the new client is CS3 *)
      destruct kp'; try exact Logic.I.
      destruct (client_step _ _ _ _ _ _ _ E) as [<-|(m0 & v & Cr)].
      * (* stays inside CS3 on an access: impossible, the access returns *)
        destruct kp as [| a0 | | | |]; try discriminate Hc.
        -- cbn [pstep] in E. destruct a0; try discriminate Hc.
           unfold creturn in E. cbn in E. inversion E.
        -- cbn [pstep] in E. destruct (wake_step m t q cnt wc kp false) as [m1 [wc' kp1|v|]]; try discriminate E;
             try (unfold creturn in E; cbn in E; inversion E; fail).
           unfold junk in E. destruct (kstepC _ _ _) as [[? ?] ?]. discriminate E.
      * destruct (creturn_client _ _ _ _ _ _ _ Cr) as (um0 & p0 & k0 & [->| ->]).
        -- (* from CS2 *)
           destruct kp as [| a0 | | | |]; try discriminate Hc. destruct a0; try discriminate Hc.
           destruct (okb_cs2 _ _ _ _ _ _ Hc) as (-> & -> & ->).
           cbn [pstep] in E. unfold creturn in E. cbn [cret] in E.
           cbn [gc_step]. fold m. unfold COND in *.
           destruct (0 <=? word m 2 - 1) eqn:E1; cbn in E; [inversion E|].
           destruct (1 <=? word m 2) eqn:E2.
           { apply Z.leb_gt in E1. apply Z.leb_le in E2. lia. }
           unfold set_myclaim. cbn. rewrite !upd_same. auto.
        -- (* from CB2: goes to the wake, not to an access *)
           destruct kp as [| a0 | | | |]; try discriminate Hc. destruct a0; try discriminate Hc.
           cbn [pstep] in E. unfold creturn in E. cbn [cret] in E.
           destruct (word m q =? 0); cbn in E; inversion E.
    + (* the new client is CS4 *)
      destruct (client_step _ _ _ _ _ _ _ E) as [<-|(m0 & v & Cr)].
      * (* already in the unlock of the internal mutex *)
        destruct kp; try discriminate Hc.
        assert (G : gc_step m t (PRun (CS4 um p k) (KUnlock q up)) c = c).
        { destruct (sched_now m (PRun (CS4 um p k) (KUnlock q up))) as [[q1 f]|] eqn:S.
          - eapply gc_sched_mutex; eauto.
            + destruct q as [|[|q]]; try discriminate Hc. unfold sched_now in S. cbn in S.
              destruct up; try discriminate S. destruct (sched_of m kp); inversion S; subst. discriminate.
            + intros c1 kp1 Q. inversion Q; subst; auto.
          - apply gc_nosched; auto. intros c1 kp1 Q. inversion Q; subst; auto. }
        rewrite G. exact IH.
      * destruct (creturn_client _ _ _ _ _ _ _ Cr) as (um0 & p0 & k0 & [->| ->]).
        -- (* from CB2 with nobody registered *)
           destruct kp as [| a0 | | | |]; try discriminate Hc. destruct a0; try discriminate Hc.
           destruct (okb_cb2 _ _ _ _ _ _ Hc) as (-> & -> & ->).
           cbn [pstep] in E. unfold creturn in E. cbn [cret] in E. cbn [gc_step]. fold m.
           unfold set_myclaim. cbn. rewrite !upd_same.
           destruct (word m COND =? 0) eqn:E1; cbn in E; [|inversion E]. apply Z.eqb_eq in E1. lia.
        -- (* from CS3 *)
           destruct kp as [| a0 | | | | q cnt wc kp]; try discriminate Hc.
           ++ destruct a0; try discriminate Hc. cbn [gc_step]. cbn. cbn in IH. lia.
           ++ destruct q as [|[|[|q]]]; try discriminate Hc.
              cbn [pstep] in E.
              destruct (wake_step m t 2 cnt wc kp false) as [m1 r] eqn:Ws.
              assert (Hw : v_wake (view_of (ph x t)) = Some (COND, cnt, wc, VP kp)) by (rewrite Ep; reflexivity).
              destruct (cn_wc _ _ _ C t _ _ _ Hw) as (W0 & W1 & W2 & W3).
              destruct r as [wc' kp1|v1|].
              ** inversion E.
              ** pose proof (wake_ret_val _ _ _ _ _ _ _ _ _ Ws W1) as ->.
                 assert (NJ : WRet cnt <> WJunk) by discriminate.
                 pose proof (wake_step_wc _ _ _ _ _ _ _ _ _ Ws NJ) as WC. cbn in WC.
                 unfold gc_step, sched_now. cbn [wake_ctx]. fold m c.
                 destruct (sched_of m kp); cbn; rewrite ?upd_same; lia.
              ** unfold junk in E. destruct (kstepC _ _ _) as [[? ?] ?]. discriminate E.
Qed.

Lemma notlost_of_inv progs x : ireach progs x ->
  (forall t um p k up, ph x t = PRun (CS4 um p k) (KUnlock IMUTEX up) -> myrel (cg x) t = myclaim (cg x) t) /\
  (forall t um p k a, ph x t = PRun (CS3 um p k) (KAcc a) -> myclaim (cg x) t = 0 /\ myrel (cg x) t = 0).
Proof.
  intros R. pose proof (inv2_reach _ _ R) as I2. split.
  - intros t um p k up E. specialize (I2 t). rewrite E in I2. exact I2.
  - intros t um p k a E. specialize (I2 t). rewrite E in I2. exact I2.
Qed.

(* what a signal / a broadcast claims, by definition of the ghosts *)
Lemma claim_signal x t um p k a : ph x t = PRun (CS2 um p k) (KAcc a) ->
  myclaim (cg (lstep x t)) t = (if 1 <=? word (mem (base x)) COND then 1 else 0) /\
  myrel (cg (lstep x t)) t = 0 /\
  g_claimed (cg (lstep x t)) = g_claimed (cg x) + (if 1 <=? word (mem (base x)) COND then 1 else 0).
Proof.
  intros E. cbn [lstep cg]. rewrite E. cbn [gc_step].
  destruct (1 <=? word (mem (base x)) COND); unfold set_myclaim; cbn; rewrite !upd_same; repeat split; lia.
Qed.

Lemma claim_bcast x t um p k a : ph x t = PRun (CB2 um p k) (KAcc a) ->
  myclaim (cg (lstep x t)) t = word (mem (base x)) COND /\ myrel (cg (lstep x t)) t = 0 /\
  g_claimed (cg (lstep x t)) = g_claimed (cg x) + word (mem (base x)) COND.
Proof.
  intros E. cbn [lstep cg]. rewrite E. cbn [gc_step]. unfold set_myclaim; cbn; rewrite !upd_same; auto.
Qed.

(* the stacks of the executable machine are those of the phases *)
Lemma stack_phase progs x t : ireach progs x -> stk (base x) t = stack_of (ph x t) /\ phase_ok (ph x t).
Proof.
  intros R. destruct (inv_reach _ _ R) as [I0 _]. split; [apply (i0_sim _ I0)|apply (l0_shape _ _ _ _ (i0_loc _ I0 t))].
Qed.

(* ------------------------------------------------------------------ *)
(* the statements of Properties_C05.v *)
Lemma single_consumer_of_inv : forall progs x t u q kp kp',
  ireach progs x ->
  wake_ctx (ph x t) = Some (q, kp) -> wake_ctx (ph x u) = Some (q, kp') ->
  t = u /\ (q = COND -> holds1 (ph x t) = true).
Proof.
  intros progs x t u q kp kp' R A B. split; [exact (consumer_of_inv progs x t u q kp kp' R A B)|].
  intros ->. destruct (stack_phase progs x t R) as [_ Ok].
  destruct (ph x t) as [| |c kp0]; try discriminate A.
  destruct Ok as [Hc Hk].
  destruct kp0 as [| a | q0 lp | q0 wp | q0 up | q0 cnt wc kp1]; try discriminate A.
  - destruct lp as [|[| | | | |[| | | | | |q1 [|wc1 kp2]| |]]]; try discriminate A. cbn in Hk. destruct Hk as [-> _]. discriminate A.
  - destruct wp as [| | | | |[| | | | | |q1 [|wc1 kp2]| |]]; try discriminate A. cbn in Hk. destruct Hk as [-> _]. discriminate A.
  - destruct up; try discriminate A. cbn in A. injection A as -> _. destruct c; try discriminate Hc.
  - destruct c; try discriminate Hc. reflexivity.
Qed.

Lemma signal_not_lost_of_inv : forall progs x,
  ireach progs x ->
  (forall t um p k up, ph x t = PRun (CS4 um p k) (KUnlock IMUTEX up) ->
     myrel (cg x) t = myclaim (cg x) t) /\
  (forall t um p k a, ph x t = PRun (CS3 um p k) (KAcc a) ->
     myclaim (cg x) t = 0 /\ myrel (cg x) t = 0) /\
  (forall t um p k a, ph x t = PRun (CS2 um p k) (KAcc a) ->
     myclaim (cg (lstep x t)) t = (if 1 <=? word (mem (base x)) COND then 1 else 0) /\
     myrel (cg (lstep x t)) t = 0) /\
  (forall t um p k a, ph x t = PRun (CB2 um p k) (KAcc a) ->
     myclaim (cg (lstep x t)) t = word (mem (base x)) COND /\ myrel (cg (lstep x t)) t = 0 /\
     word (mem (base x)) COND = Z.of_nat (length (gwl (cg x)))).
Proof.
  intros progs x R. destruct (notlost_of_inv progs x R) as [A B].
  split; [exact A|]. split; [exact B|]. split.
  - intros t um p k a E. destruct (claim_signal x t um p k a E) as (C1 & C2 & _). auto.
  - intros t um p k a E. destruct (claim_bcast x t um p k a E) as (C1 & C2 & _).
    destruct (unlockwait_of_inv progs x R) as (_ & _ & _ & _ & W). repeat split; auto.
    eapply W. right. exact E.
Qed.

Lemma atomic_unlock_wait_of_inv : forall progs x,
  ireach progs x ->
  (forall t, In t (gwl (cg x)) <-> (v_cw3 (view_of (ph x t)) = true /\ got (kg x) t = false)) /\
  NoDup (gwl (cg x)) /\ Z.of_nat (length (gwl (cg x))) = g_reg (cg x) - g_rel (cg x) /\
  (forall t p k, ph x t = PRun (CW3 p k) (KWait COND (WPYield (YPMaint UMUTEX IPAdd))) ->
     tok (kg x) UMUTEX = THeld t /\ (In t (gwl (cg x)) \/ got (kg x) t = true)) /\
  (forall t u um p k a,
     (ph x t = PRun (CS2 um p k) (KAcc a) \/ ph x t = PRun (CB2 um p k) (KAcc a)) ->
     In u (gwl (cg x)) -> 1 <= word (mem (base x)) COND).
Proof.
  intros progs x R. destruct (unlockwait_of_inv progs x R) as (A & B & C & D & E).
  split; [exact A|]. split; [exact B|]. split; [exact C|]. split; [exact D|].
  intros t u um p k a Ht Hu. rewrite (E t um p k a Ht).
  destruct (gwl (cg x)); [destruct Hu|cbn [length]; lia].
Qed.

Lemma wait_returns_locked_of_inv : forall progs x t,
  ireach progs x ->
  (forall p k r0 a, ph x t = PRun (CUnl p k r0) (KAcc a) -> tok (kg x) UMUTEX = THeld t) /\
  (holds0 (ph x t) = true -> tok (kg x) UMUTEX = THeld t) /\
  (forall u, holds0 (ph x t) = true -> holds0 (ph x u) = true -> t = u) /\
  (forall u, holds1 (ph x t) = true -> holds1 (ph x u) = true -> t = u).
Proof.
  intros progs x t R. split; [|split; [|split]].
  - intros p k r0 a E. apply (owner_of_inv progs x t R). rewrite E. reflexivity.
  - exact (owner_of_inv progs x t R).
  - intros u. exact (proj1 (exclusion_of_inv progs x t u R)).
  - intros u. exact (proj2 (exclusion_of_inv progs x t u R)).
Qed.

Lemma erasure_of_inv : forall progs s,
  reachable M (init progs) s ->
  exists x, ireach progs x /\ base x = s /\ forall t, stk s t = stack_of (ph x t).
Proof.
  intros progs s R. destruct (reachable_ireach progs s R) as [x [Rx E]]. exists x. split; [exact Rx|]. split; [exact E|].
  intros t. rewrite <- E. exact (proj1 (stack_phase progs x t Rx)).
Qed.
