(* Kernel: the switch / deferred-action / wake protocol of the libfiber runtime
   (src/fiber_manager.c, src/fiber.c, src/fiber_scheduler_wsd.c) as a labelled
   transition system, for any number of kernel threads and fibers (C01, runtime
   half of C02).

   A label is one protocol event as it appears in the trace of a run of the
   whole real runtime under the baton scheduler (rt/t2.c): a write of a fiber's
   state word, schedule / next / steal / switch / resumed / destroy / create.
   [kstep s l = Some s'] iff the event is one the protocol allows in s.  The
   ENABLING conditions are only those the code enforces by its control flow or
   by the data structures it uses (what can be popped must have been pushed;
   next() skips fibers that are still saving; a waker of a directly-published
   waiter only turns WAITING into READY; deferred actions run after the swap;
   a manager's maintenance fiber only runs thread_func's loop: it never yields
   as READY, never publishes itself through a deferred slot and never becomes
   a done_fiber -- without these three guards the machine lets a maintenance
   fiber migrate while its manager can still switch to it, see the refutation
   recorded in Properties_C01.v).
   The SAFETY facts (a fiber runs on one thread; it is switched to only when
   saved; it is reclaimed only when finished, saved and unreferenced; it is
   queued at most once per wake-up) are NOT guards: they are theorems about
   every reachable state (KernelProofs.v / Properties_C01.v).

   Tie to the code: the extracted [accept] runs over the event sequence of real
   executions; a rejected event is a correspondence failure.  Abstractions, all
   over-approximating what wakers may do: (1) the run queues of all threads are
   one bag (stealing only moves entries); (2) a wait object is represented by
   the availability of its entries: a directly-published waiter (mpsc list;
   pattern P1) becomes available when it marks itself SAVING, a waiter
   published by a deferred action (mailbox, lock-protected list, mpmc queue;
   patterns P2/P3) when the maintenance after its swap starts; (3) an available
   entry is obtained by at most one waker (exactly-once of the containers:
   C13/C15, lock discipline: C03/C18).                                        *)
From Coq Require Import List ZArith Lia Bool Arith.
From LF Require Import Conc.
Import ListNotations.

Inductive fstat := FNone | FRun | FReady | FWait | FDone | FSaving.
Inductive ctxs := CNone | CFresh | CLive (t : nat) | CSaved | CFreed.
Inductive akind := AP1 | ASlot.

Record ks := {
  fs : nat -> fstat;                 (* the state word of each fiber *)
  cx : nat -> ctxs;                (* where its machine context is *)
  cur : nat -> nat;                (* manager->current_fiber of each kernel thread *)
  q : nat -> bool;                 (* queued in some run queue *)
  hand : nat -> option nat;        (* returned by next() to thread t, not yet switched to *)
  avail : nat -> option akind;     (* its wait-object entry can be obtained by a waker *)
  holder : nat -> option nat;      (* the waker (thread) that obtained its entry *)
  tosched : nat -> option nat;     (* manager->to_schedule *)
  donef : nat -> option nat;       (* manager->done_fiber *)
  pubpend : nat -> option nat;     (* a publication of this fiber is pending in the manager's slots *)
  maintf : nat -> option nat;      (* manager->maintenance_fiber *)
  oldf : nat -> option nat;        (* the old fiber left SAVING at the swap: its flip to WAITING is owed by this maintenance *)
  inmaint : nat -> bool;           (* thread is inside do_maintenance *)
  born : nat -> option nat         (* created by thread t, not yet scheduled *)
}.

Inductive label :=
| LCreate (t g : nat)              (* fiber_create_no_sched *)
| LWrite (t f : nat) (v : fstat)     (* f->state = v by thread t *)
| LSlotDone (t f : nat)            (* manager->done_fiber = f *)
| LSched (t f : nat)               (* fiber_scheduler_schedule *)
| LNext (t f : nat)                (* fiber_scheduler_next returned f *)
| LSteal (t f : nat)
| LSwitch (t o n : nat)            (* fiber_context_swap from o to n on thread t *)
| LResumed (t : nat)               (* first instruction after the swap: do_maintenance starts *)
| LDestroy (t f : nat)
| LMaintEnd (t : nat)              (* do_maintenance returned *)
| LSlotAccess (t owner : nat).     (* thread t touches the deferred-action slots of manager [owner] *)

Definition fst_eqb (a b : fstat) : bool :=
  match a, b with
  | FNone, FNone | FRun, FRun | FReady, FReady | FWait, FWait | FDone, FDone | FSaving, FSaving => true
  | _, _ => false
  end.
Definition oeqb (a : option nat) (b : nat) : bool :=
  match a with Some x => Nat.eqb x b | None => false end.
Definition isnone {A} (a : option A) : bool := match a with None => true | _ => false end.

(* field updates *)
Definition set_fs s f v := {| fs := upd (fs s) f v; cx := cx s; cur := cur s; q := q s; hand := hand s; avail := avail s; holder := holder s; tosched := tosched s; donef := donef s; pubpend := pubpend s; maintf := maintf s; oldf := oldf s; inmaint := inmaint s; born := born s |}.
Definition set_cx s f v := {| fs := fs s; cx := upd (cx s) f v; cur := cur s; q := q s; hand := hand s; avail := avail s; holder := holder s; tosched := tosched s; donef := donef s; pubpend := pubpend s; maintf := maintf s; oldf := oldf s; inmaint := inmaint s; born := born s |}.
Definition set_cur s t v := {| fs := fs s; cx := cx s; cur := upd (cur s) t v; q := q s; hand := hand s; avail := avail s; holder := holder s; tosched := tosched s; donef := donef s; pubpend := pubpend s; maintf := maintf s; oldf := oldf s; inmaint := inmaint s; born := born s |}.
Definition set_q s f v := {| fs := fs s; cx := cx s; cur := cur s; q := upd (q s) f v; hand := hand s; avail := avail s; holder := holder s; tosched := tosched s; donef := donef s; pubpend := pubpend s; maintf := maintf s; oldf := oldf s; inmaint := inmaint s; born := born s |}.
Definition set_hand s t v := {| fs := fs s; cx := cx s; cur := cur s; q := q s; hand := upd (hand s) t v; avail := avail s; holder := holder s; tosched := tosched s; donef := donef s; pubpend := pubpend s; maintf := maintf s; oldf := oldf s; inmaint := inmaint s; born := born s |}.
Definition set_avail s f v := {| fs := fs s; cx := cx s; cur := cur s; q := q s; hand := hand s; avail := upd (avail s) f v; holder := holder s; tosched := tosched s; donef := donef s; pubpend := pubpend s; maintf := maintf s; oldf := oldf s; inmaint := inmaint s; born := born s |}.
Definition set_holder s f v := {| fs := fs s; cx := cx s; cur := cur s; q := q s; hand := hand s; avail := avail s; holder := upd (holder s) f v; tosched := tosched s; donef := donef s; pubpend := pubpend s; maintf := maintf s; oldf := oldf s; inmaint := inmaint s; born := born s |}.
Definition set_tosched s t v := {| fs := fs s; cx := cx s; cur := cur s; q := q s; hand := hand s; avail := avail s; holder := holder s; tosched := upd (tosched s) t v; donef := donef s; pubpend := pubpend s; maintf := maintf s; oldf := oldf s; inmaint := inmaint s; born := born s |}.
Definition set_donef s t v := {| fs := fs s; cx := cx s; cur := cur s; q := q s; hand := hand s; avail := avail s; holder := holder s; tosched := tosched s; donef := upd (donef s) t v; pubpend := pubpend s; maintf := maintf s; oldf := oldf s; inmaint := inmaint s; born := born s |}.
Definition set_pubpend s t v := {| fs := fs s; cx := cx s; cur := cur s; q := q s; hand := hand s; avail := avail s; holder := holder s; tosched := tosched s; donef := donef s; pubpend := upd (pubpend s) t v; maintf := maintf s; oldf := oldf s; inmaint := inmaint s; born := born s |}.
Definition set_maintf s t v := {| fs := fs s; cx := cx s; cur := cur s; q := q s; hand := hand s; avail := avail s; holder := holder s; tosched := tosched s; donef := donef s; pubpend := pubpend s; maintf := upd (maintf s) t v; oldf := oldf s; inmaint := inmaint s; born := born s |}.
Definition set_oldf s t v := {| fs := fs s; cx := cx s; cur := cur s; q := q s; hand := hand s; avail := avail s; holder := holder s; tosched := tosched s; donef := donef s; pubpend := pubpend s; maintf := maintf s; oldf := upd (oldf s) t v; inmaint := inmaint s; born := born s |}.
Definition set_inmaint s t v := {| fs := fs s; cx := cx s; cur := cur s; q := q s; hand := hand s; avail := avail s; holder := holder s; tosched := tosched s; donef := donef s; pubpend := pubpend s; maintf := maintf s; oldf := oldf s; inmaint := upd (inmaint s) t v; born := born s |}.
Definition set_born s f v := {| fs := fs s; cx := cx s; cur := cur s; q := q s; hand := hand s; avail := avail s; holder := holder s; tosched := tosched s; donef := donef s; pubpend := pubpend s; maintf := maintf s; oldf := oldf s; inmaint := inmaint s; born := upd (born s) f v |}.

(* may thread t switch to n?  (control flow of fiber_manager_yield / thread_func) *)
Definition switch_target (s : ks) (t n : nat) : bool :=
  oeqb (hand s t) n || oeqb (maintf s t) n || oeqb (born s n) t.

Definition kstep (s : ks) (l : label) : option ks :=
  match l with
  | LCreate t g =>
      if fst_eqb (fs s g) FNone
      then Some (set_born (set_cx (set_fs s g FReady) g CFresh) g (Some t))
      else None
  | LWrite t f v =>
      let c := cur s t in
      match v with
      | FSaving =>        (* a fiber marks itself before publishing itself directly (P1) / the scheduler loop before leaving *)
          if Nat.eqb f c && fst_eqb (fs s c) FRun && negb (inmaint s t)
          then Some (if oeqb (maintf s t) c then set_fs s c FSaving
                     else set_avail (set_fs s c FSaving) c (Some AP1))
          else None
      | FWait =>
          if Nat.eqb f c && fst_eqb (fs s c) FRun && negb (inmaint s t) && negb (oeqb (maintf s t) c)
          then Some (set_pubpend (set_fs s c FWait) t (Some c))          (* published by a deferred action *)
          else if inmaint s t && oeqb (oldf s t) f && fst_eqb (fs s f) FSaving
          then Some (set_oldf (set_fs s f FWait) t None)                 (* the flip done by the successor *)
          else None
      | FDone =>
          if Nat.eqb f c && fst_eqb (fs s c) FRun && negb (inmaint s t)
          then Some (set_fs s c FDone) else None
      | FReady =>
          if Nat.eqb f c
          then (* switch_to: the yielding fiber will be re-queued by its successor *)
               if fst_eqb (fs s c) FRun && negb (inmaint s t) && negb (oeqb (maintf s t) c)
               then Some (set_tosched (set_fs s c FReady) t (Some c)) else None
          else if oeqb (born s f) t && fst_eqb (fs s f) FReady then Some s   (* fiber_create_no_sched's own initialisation *)
          else (* a waker *)
            match avail s f, holder s f with
            | Some AP1, _ =>     (* wake_from_mpsc_queue: only WAITING -> READY *)
                if fst_eqb (fs s f) FWait
                then Some (set_holder (set_avail (set_fs s f FReady) f None) f (Some t)) else None
            | Some ASlot, _ =>
                Some (set_holder (set_avail (set_fs s f FReady) f None) f (Some t))
            | None, Some h => if Nat.eqb h t then Some (set_fs s f FReady) else None
            | None, None => None
            end
      | FRun =>
          if switch_target s t f && negb (Nat.eqb f c) then Some (set_fs s f FRun) else None
      | FNone => None
      end
  | LSlotDone t f =>
      if Nat.eqb f (cur s t) && fst_eqb (fs s f) FDone && negb (oeqb (maintf s t) f) then Some (set_donef s t (Some f)) else None
  | LSched t f =>
      if inmaint s t && oeqb (tosched s t) f
      then Some (set_q (set_tosched s t None) f true)
      else if oeqb (born s f) t
      then Some (set_q (set_born s f None) f true)
      else match avail s f, holder s f with
           | Some AP1, _ =>       (* directly-published waiter taken by a waker that found it not (yet) WAITING *)
               Some (set_q (set_avail s f None) f true)
           | _, Some h => if Nat.eqb h t then Some (set_q (set_holder s f None) f true) else None
           | _, _ => None
           end
  | LNext t f =>
      if q s f && negb (fst_eqb (fs s f) FSaving) && isnone (hand s t)
      then Some (set_hand (set_q s f false) t (Some f)) else None
  | LSteal t f => if q s f then Some s else None
  | LSwitch t o n =>
      if Nat.eqb o (cur s t) && switch_target s t n && fst_eqb (fs s n) FRun && negb (Nat.eqb o n)
      then
        let s1 := set_cx (set_cx s o CSaved) n (CLive t) in
        let s2 := set_cur s1 t n in
        let s3 := set_hand s2 t None in
        let s4 := set_oldf s3 t (if fst_eqb (fs s o) FSaving then Some o else None) in
        let s5 := set_inmaint s4 t true in
        Some (if oeqb (born s n) t then set_born (set_maintf s5 t (Some n)) n None else s5)
      else None
  | LResumed t =>
      if inmaint s t
      then match pubpend s t with
           | Some p => Some (set_pubpend (set_avail s p (Some ASlot)) t None)
           | None => Some s
           end
      else None
  | LDestroy t f =>
      if inmaint s t && oeqb (donef s t) f
      then Some (set_cx (set_donef s t None) f CFreed) else None
  | LMaintEnd t =>
      if inmaint s t && isnone (tosched s t) && isnone (donef s t) && isnone (pubpend s t) && isnone (oldf s t)
      then Some (set_inmaint s t false) else None
  | LSlotAccess t owner => if Nat.eqb t owner then Some s else None
  end.

Definition thread_of (l : label) : nat :=
  match l with
  | LCreate t _ | LWrite t _ _ | LSlotDone t _ | LSched t _ | LNext t _ | LSteal t _
  | LSwitch t _ _ | LResumed t | LDestroy t _ | LMaintEnd t | LSlotAccess t _ => t
  end.

(* the end of do_maintenance is not an event of its own: it is inferred when
   the thread's next event is not a maintenance action *)
Definition kstep_auto (s : ks) (l : label) : option ks :=
  match kstep s l with
  | Some s' => Some s'
  | None => match kstep s (LMaintEnd (thread_of l)) with
            | Some s1 => kstep s1 l
            | None => None
            end
  end.

(* n kernel threads; thread t's thread fiber is fiber t; thread t >= 1 runs its
   scheduler loop on it (it is that manager's maintenance fiber) *)
Definition kinit (n : nat) : ks :=
  {| fs := fun f => if f <? n then FRun else FNone;
     cx := fun f => if f <? n then CLive f else CNone;
     cur := fun t => t;
     q := fun _ => false; hand := fun _ => None; avail := fun _ => None; holder := fun _ => None;
     tosched := fun _ => None; donef := fun _ => None; pubpend := fun _ => None;
     maintf := fun t => if (0 <? t) && (t <? n) then Some t else None;
     oldf := fun _ => None; inmaint := fun _ => false; born := fun _ => None |}.

(* reachable states: any sequence of enabled events of the n kernel threads *)
Inductive kreach (n : nat) : ks -> Prop :=
| kr_init : kreach n (kinit n)
| kr_step s l s' : kreach n s -> thread_of l < n -> kstep s l = Some s' -> kreach n s'.

(* ---- acceptor over an event sequence: index of the first rejected label ---- *)
Fixpoint accept (s : ks) (ls : list label) (i : nat) : option nat * ks :=
  match ls with
  | [] => (None, s)
  | l :: r => match kstep_auto s l with
              | Some s' => accept s' r (S i)
              | None => (Some i, s)
              end
  end.

Definition dec_fst (z : Z) : fstat :=
  match z with 1%Z => FRun | 2%Z => FReady | 3%Z => FWait | 4%Z => FDone | 5%Z => FSaving | _ => FNone end.

(* labels are sent as quadruples (code, a, b, c) *)
Fixpoint dec_labels (l : list Z) : list label :=
  match l with
  | k :: a :: b :: c :: r =>
      let a' := Z.to_nat a in let b' := Z.to_nat b in let c' := Z.to_nat c in
      (match k with
       | 1%Z => LCreate a' b' | 2%Z => LWrite a' b' (dec_fst c) | 3%Z => LSlotDone a' b'
       | 4%Z => LSched a' b' | 5%Z => LNext a' b' | 6%Z => LSteal a' b' | 7%Z => LSwitch a' b' c'
       | 8%Z => LResumed a' | 9%Z => LDestroy a' b' | 11%Z => LSlotAccess a' b' | _ => LMaintEnd a'
       end) :: dec_labels r
  | _ => []
  end.

Definition fst_code (v : fstat) : Z :=
  match v with FNone => 0 | FRun => 1 | FReady => 2 | FWait => 3 | FDone => 4 | FSaving => 5 end%Z.
Definition cx_code (c : ctxs) : Z :=
  match c with CNone => 0 | CFresh => 1 | CLive t => 100 + Z.of_nat t | CSaved => 2 | CFreed => 3 end%Z.
Definition on_code (o : option nat) : Z := match o with Some x => Z.of_nat x | None => (-1)%Z end.

(* input: nthreads, then label quadruples; output: -1 if all accepted, else the
   index of the rejected label followed by a summary of the state it was
   rejected in (for the replay file): state and context of the fiber named by
   the label, the thread's current fiber, inmaint, hand, tosched, donef,
   pubpend, whether the fiber is queued / available / held *)
Definition run_case (l : list Z) : list Z :=
  match l with
  | n :: r =>
      let ls := dec_labels r in
      match accept (kinit (Z.to_nat n)) ls 0 with
      | (None, _) => [(-1)%Z]
      | (Some i, s) =>
          let lab := nth i ls (LMaintEnd 0) in
          let t := thread_of lab in
          let f := match lab with
                   | LCreate _ g => g | LWrite _ g _ => g | LSlotDone _ g => g | LSched _ g => g
                   | LNext _ g => g | LSteal _ g => g | LSwitch _ _ g => g | LDestroy _ g => g
                   | _ => 0 end in
          [Z.of_nat i; fst_code (fs s f); cx_code (cx s f); Z.of_nat (cur s t);
           (if inmaint s t then 1 else 0)%Z; on_code (hand s t); on_code (tosched s t);
           on_code (donef s t); on_code (pubpend s t); (if q s f then 1 else 0)%Z;
           match avail s f with Some AP1 => 1 | Some ASlot => 2 | None => 0 end%Z; on_code (holder s f);
           on_code (oldf s t)]
      end
  | [] => [(-2)%Z]
  end.
