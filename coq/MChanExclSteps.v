(* C11, multi channel: mutual exclusion of the channel lock -- part 2: the
   invariant of MChanExclBase.v is preserved by the steps that are private to
   the stepping fiber, and by lock / unlock (LSub, UAdd in fiber_mutex_unlock,
   UAdd of the deferred unlock inside maintenance). *)
From Coq Require Import List ZArith Lia Bool Arith.
From LF Require Import Conc T1K MChan MChanExclBase.
Import ListNotations.
Local Open Scope Z_scope.

Ltac Lunf := unfold L, Lw, Lk, Ly, kbase, mbase, obase, ypre, ypost, cwait, calm, quiet, nochan,
               preflip, resumed, prelink, wq, settled, csettled;
             cbn [vfs vfn vpd vbl vro vha vch vsm vinq].
Ltac gred Hs := unfold gstep, step; rewrite Hs; cbn [stk_of wframes kframes yframes ktail app].
Ltac loc_tac := unfold loc_eq; cbn; repeat split; try reflexivity; intros;
                rewrite ?upd_other by assumption; auto.
Ltac vw := unfold view_of; cbn [mk gb mem stk nthr role hand gq debt chand cq];
           cbn [set_fstate set_pend set_blocked set_word set_cell set_ndata set_nnext set_qtail set_qhead set_fnode
                set_slot_mutex fstate fnode pend blocked word cell ndata nnext qhead qtail slot_mutex];
           rewrite ?upd_same.

Lemma start_cases p k : start p k = [] \/ exists a p', start p k = stk_of (PLSub a p' k).
Proof.
  destruct p as [|[v|] r]; cbn; [left; reflexivity | right | right].
  - exists (ASend v), r. reflexivity.
  - exists ARecv, r. reflexivity.
Qed.

Section Steps.
Variable x : gst.
Variable t : nat.
Hypothesis HI : Inv x.
Notation m := (mem (gb x)).

Lemma no_debt p :
  stk (gb x) t = stk_of p -> (forall kf tl, p <> PK kf tl) -> debt x = Some t -> False.
Proof.
  intros Hs Hn Hd. destruct (I_debt_k x HI t Hd) as (kf & tl & E & _).
  rewrite Hs in E. apply stk_of_K_inj in E. destruct (Hn _ _ E).
Qed.

Lemma settled_not_node h u : settled h -> h <> HNode u.
Proof. intros [->| ->]; discriminate. Qed.

Ltac local p' Hs := apply (inv_local x t _ _ p' HI); [loc_tac | reflexivity | rewrite Hs; reflexivity | .. ].
Ltac nodebt Hs := let Hd := fresh in intros Hd; exfalso; revert Hd; apply (no_debt _ Hs); discriminate.

(* a call returned with the lock not held: the next call starts *)
Lemma to_start m' p0 k0 :
  loc_eq m m' t -> extra (stk (gb x) t) = [] -> (debt x = Some t -> False) ->
  (fstate m' t = fstate m t \/ fstate m t <> ST_WAITING \/ forall u, hand x t <> HNode u) ->
  let s' := start p0 k0 in
  let v := view_of (mk x t m' s' (role x) (hand x) (gq x) (debt x) (chand x) (cq x)) t in
  calm v /\ vro v = Idle /\ vfs v = ST_RUNNING ->
  Inv (mk x t m' s' (role x) (hand x) (gq x) (debt x) (chand x) (cq x)).
Proof.
  intros Hl He Hd Hf s' v Hv. subst s' v.
  destruct (start_cases p0 k0) as [E|(a & p' & E)]; rewrite E in *.
  - apply (inv_local x t _ _ PDone HI); [exact Hl|reflexivity|rewrite He; reflexivity| |exact I|exact Hf|intros D; destruct (Hd D)].
    revert Hv. unfold L. tauto.
  - apply (inv_local x t _ _ (PLSub a p' k0) HI); [exact Hl|reflexivity|rewrite He; reflexivity| |exact I|exact Hf|intros D; destruct (Hd D)].
    revert Hv. unfold L. tauto.
Qed.

Lemma step_PInit pr :
  stk (gb x) t = stk_of (PInit pr) -> L (view_of x t) (PInit pr) -> Inv (gstep x t).
Proof.
  intros Hs HL. gred Hs. cbn. rewrite app_nil_r.
  apply to_start; [loc_tac|rewrite Hs; reflexivity|apply (no_debt _ Hs); discriminate| |].
  - right. right. intros u. apply settled_not_node. apply HL.
  - revert HL. Lunf. vw. cbn. tauto.
Qed.

(* ---- fiber_mutex_lock: the wait path (private steps) ---- *)
Lemma step_WfSaving a p k :
  stk (gb x) t = stk_of (PW WfSaving a p k) -> L (view_of x t) (PW WfSaving a p k) -> Inv (gstep x t).
Proof.
  intros Hs HL. gred Hs. cbn.
  local (PW WfData a p k) Hs; [|exact I| |nodebt Hs].
  - revert HL. Lunf. vw. cbn. tauto.
  - right. right. intros u. apply settled_not_node. apply HL.
Qed.

Lemma step_WfY a p k :
  stk (gb x) t = stk_of (PW WfY a p k) -> L (view_of x t) (PW WfY a p k) -> Inv (gstep x t).
Proof.
  intros Hs HL. gred Hs. cbn.
  local (PW (WfYN (fstate m t)) a p k) Hs; [|exact I|auto|nodebt Hs].
  revert HL. unfold L, Lw. cbn. tauto.
Qed.

Lemma step_WfYN st a p k :
  stk (gb x) t = stk_of (PW (WfYN st) a p k) -> L (view_of x t) (PW (WfYN st) a p k) -> Inv (gstep x t).
Proof.
  intros Hs HL. destruct HL as [Hnc [Est HL]]. cbn [view_of vfs] in Est. subst st.
  gred Hs. destruct HL as [HL|HL].
  - assert (E : fstate m t = ST_SAVING) by apply HL. cbn in E. rewrite E. cbn.
    local (PW WfSw a p k) Hs; [|exact I|auto|nodebt Hs].
    split; [exact Hnc|exact HL].
  - assert (E : fstate m t = ST_RUNNING) by apply HL. cbn in E. rewrite E. cbn.
    local (PCs (CRead c_high) (MHigh a p k)) Hs; [|reflexivity|auto|nodebt Hs].
    revert HL Hnc. Lunf. cbn.
    intros (W & H & R) Hl. rewrite H in W. tauto.
Qed.

Lemma step_WfSw a p k :
  stk (gb x) t = stk_of (PW WfSw a p k) -> L (view_of x t) (PW WfSw a p k) -> Inv (gstep x t).
Proof.
  intros Hs HL. gred Hs. destruct HL as [Hnc HL].
  assert (E : fstate m t = ST_SAVING) by apply HL. cbn in E. cbn. rewrite E. cbn.
  local (PW WfSd a p k) Hs; [|exact I|auto|nodebt Hs].
  split; [exact Hnc|exact HL].
Qed.

Lemma step_WfSd a p k :
  stk (gb x) t = stk_of (PW WfSd a p k) -> L (view_of x t) (PW WfSd a p k) -> Inv (gstep x t).
Proof.
  intros Hs HL. gred Hs. cbn.
  local (PW WfMr a p k) Hs; [exact HL|exact I|auto|nodebt Hs].
Qed.

Lemma step_WfMr a p k :
  stk (gb x) t = stk_of (PW WfMr a p k) -> L (view_of x t) (PW WfMr a p k) -> Inv (gstep x t).
Proof.
  intros Hs HL. gred Hs. destruct HL as [Hnc HL].
  assert (E : fstate m t = ST_SAVING) by apply HL. cbn in E. cbn. rewrite E. cbn.
  local (PW WfMf a p k) Hs; [|exact I|auto|nodebt Hs].
  split; [exact Hnc|exact HL].
Qed.

Lemma run_slots_none (mm : kmem) r :
  slots_ok mm -> slot_mutex mm t = None ->
  run_slots mc mm t r = (let '(m2, e2, s2) := sleep mc mm t r in (m2, [] ++ e2, s2)).
Proof.
  intros S S1. destruct (S t) as (S2 & S3 & S4). unfold run_slots. rewrite S2, S4, S1, S3. reflexivity.
Qed.

Lemma step_WfMf a p k :
  stk (gb x) t = stk_of (PW WfMf a p k) -> L (view_of x t) (PW WfMf a p k) -> Inv (gstep x t).
Proof.
  intros Hs HL. gred Hs. destruct HL as [Hnc HL].
  cbn -[run_slots]. rewrite run_slots_none; [|intros u; apply (I_slots x HI)|apply Hnc].
  unfold sleep. cbn [set_fstate pend].
  destruct HL as (W & Hf & Hb & Hp). cbn [view_of vfs vbl vha vpd] in Hf, Hb, Hp.
  assert (NW : fstate m t <> ST_WAITING) by (rewrite Hf; discriminate).
  destruct (hand x t) eqn:Hh.
  1-3: assert (E : pend m t = O) by (revert W; unfold wq; cbn; rewrite Hh; tauto); rewrite E; cbn;
       local (PW WfAs a p k) Hs; [|exact I|auto|nodebt Hs];
       revert W Hnc; Lunf; vw; cbn; rewrite Hh;
       intros W Hl; (split; [exact Hl|split; [tauto|left; repeat split; try reflexivity; discriminate]]).
  rewrite (Hp eq_refl). cbn.
  local (PW WfRe a p k) Hs; [|exact I|auto|nodebt Hs].
  revert W Hnc. Lunf. vw. cbn. rewrite Hh. tauto.
Qed.

Lemma step_WfAs a p k :
  stk (gb x) t = stk_of (PW WfAs a p k) -> L (view_of x t) (PW WfAs a p k) ->
  blocked m t = false -> Inv (gstep x t).
Proof.
  intros Hs HL Hb. gred Hs. cbn.
  local (PW WfRe a p k) Hs; [|exact I|auto|nodebt Hs].
  revert HL. unfold L, Lw. cbn. rewrite Hb. intuition discriminate.
Qed.

Lemma step_WfRe a p k :
  stk (gb x) t = stk_of (PW WfRe a p k) -> L (view_of x t) (PW WfRe a p k) -> Inv (gstep x t).
Proof.
  intros Hs HL. gred Hs. cbn.
  local (PW WfY a p k) Hs; [|exact I| |nodebt Hs].
  - destruct HL as [Hnc (W & Hh & Hb & Hp)]. cbn in Hh, Hb, Hp.
    revert W Hnc. Lunf. vw. cbn. rewrite Hh. tauto.
  - right. right. intros u. destruct HL as [_ (_ & Hh & _)]. cbn in Hh. congruence.
Qed.

(* ---- the wake loop of a contended unlock: private steps ---- *)
Lemma step_KfHead tl :
  stk (gb x) t = stk_of (PK KfHead tl) -> L (view_of x t) (PK KfHead tl) ->
  X x t (PK KfHead tl) -> Inv (gstep x t).
Proof.
  intros Hs HL HX. gred Hs. cbn.
  local (PK (KfNext (qhead m 0)) tl) Hs; [exact HL| |auto|intros _; eauto].
  cbn in HX. cbn. auto.
Qed.

Lemma step_KfNext h tl :
  stk (gb x) t = stk_of (PK (KfNext h) tl) -> L (view_of x t) (PK (KfNext h) tl) ->
  X x t (PK (KfNext h) tl) -> Inv (gstep x t).
Proof.
  intros Hs HL HX. gred Hs. destruct HX as [HX1 HX2]. cbn in HX1, HX2.
  destruct tl as [r p k|a p k]; cbn; destruct (nnext m h) as [|nx] eqn:En; cbn.
  - local (PK KfSpY (TU r p k)) Hs; [exact HL|exact HX1|auto|intros _; eauto].
  - local (PK (KfSet h (S nx)) (TU r p k)) Hs; [exact HL| |auto|intros _; eauto].
    cbn. repeat split; auto.
  - local (PK KfHead (TM a p k)) Hs; [exact HL|exact HX1|auto|intros _; eauto].
  - local (PK (KfSet h (S nx)) (TM a p k)) Hs; [exact HL| |auto|intros _; eauto].
    cbn. repeat split; auto.
Qed.

Lemma step_KfSpY tl :
  stk (gb x) t = stk_of (PK KfSpY tl) -> L (view_of x t) (PK KfSpY tl) ->
  X x t (PK KfSpY tl) -> Inv (gstep x t).
Proof.
  intros Hs HL HX. destruct tl as [r p k|a p k]; [|destruct HL as [_ HL]; discriminate].
  gred Hs. cbn.
  local (PK (KfSpN (fstate m t)) (TU r p k)) Hs; [|exact HX|auto|intros _; eauto].
  revert HL. unfold L, Lk. cbn. tauto.
Qed.

Lemma step_KfSpN st tl :
  stk (gb x) t = stk_of (PK (KfSpN st) tl) -> L (view_of x t) (PK (KfSpN st) tl) ->
  X x t (PK (KfSpN st) tl) -> Inv (gstep x t).
Proof.
  intros Hs HL HX. destruct tl as [r p k|a p k]; [|destruct HL as [_ HL]; discriminate].
  destruct HL as (Hk & Est). cbn [view_of vfs] in Est. subst st.
  gred Hs. assert (E : fstate m t = ST_RUNNING) by apply Hk. cbn in E. rewrite E. cbn.
  local (PK KfHead (TU r p k)) Hs; [|exact HX|auto|intros _; eauto].
  unfold L, Lk. auto.
Qed.

Lemma step_KfData h nx tl :
  stk (gb x) t = stk_of (PK (KfData h nx) tl) -> L (view_of x t) (PK (KfData h nx) tl) ->
  X x t (PK (KfData h nx) tl) -> Inv (gstep x t).
Proof.
  intros Hs HL HX. gred Hs. cbn.
  local (PK (KfCopy h (ndata m nx)) tl) Hs; [exact HL| |auto|].
  - destruct HX as (_ & f & Hf & Hp). exists f. split; [exact Hf|exact Hp].
  - intros Hd. destruct HX as (_ & f & _ & _ & Ho).
    destruct (I_debt_own x (I_C x HI) t f Hd Ho).
Qed.

Lemma step_PUY r p k :
  stk (gb x) t = stk_of (PUY r p k) -> L (view_of x t) (PUY r p k) -> Inv (gstep x t).
Proof.
  intros Hs HL. gred Hs. cbn.
  local (PUYN (fstate m t) r p k) Hs; [|exact I|auto|nodebt Hs].
  revert HL. unfold L. cbn. tauto.
Qed.

Lemma step_PUYN st r p k :
  stk (gb x) t = stk_of (PUYN st r p k) -> L (view_of x t) (PUYN st r p k) -> Inv (gstep x t).
Proof.
  intros Hs HL. destruct HL as (Hk & Est). cbn [view_of vfs] in Est. subst st.
  gred Hs. assert (E : fstate m t = ST_RUNNING) by apply Hk. cbn in E. rewrite E. cbn.
  rewrite app_nil_r.
  apply to_start; [loc_tac|rewrite Hs; reflexivity|apply (no_debt _ Hs); discriminate|auto|].
  exact Hk.
Qed.

(* ---- internal_wait: the yield whose maintenance unlocks (private steps) ---- *)
Lemma step_YfY a p k :
  stk (gb x) t = stk_of (PY YfY a p k) -> L (view_of x t) (PY YfY a p k) -> Inv (gstep x t).
Proof.
  intros Hs HL. gred Hs. cbn.
  local (PY (YfYN (fstate m t)) a p k) Hs; [|exact I|auto|nodebt Hs].
  revert HL. unfold L, Ly. cbn. tauto.
Qed.

Lemma step_YfYN st a p k :
  stk (gb x) t = stk_of (PY (YfYN st) a p k) -> L (view_of x t) (PY (YfYN st) a p k) -> Inv (gstep x t).
Proof.
  intros Hs HL. destruct HL as [Est HL]. cbn [view_of vfs] in Est. subst st.
  gred Hs. destruct HL as [HL|HL].
  - assert (E : fstate m t = ST_WAITING) by apply HL. cbn in E. rewrite E. cbn.
    local (PY YfSw a p k) Hs; [exact HL|exact I|auto|nodebt Hs].
  - assert (E : fstate m t = ST_RUNNING) by apply HL. cbn in E. rewrite E. cbn.
    local (PLSub a p k) Hs; [exact HL|exact I|auto|nodebt Hs].
Qed.

Lemma step_YfSw a p k :
  stk (gb x) t = stk_of (PY YfSw a p k) -> L (view_of x t) (PY YfSw a p k) -> Inv (gstep x t).
Proof.
  intros Hs HL. gred Hs.
  assert (E : fstate m t = ST_WAITING) by apply HL. cbn in E. cbn. rewrite E. cbn.
  local (PY YfSd a p k) Hs; [exact HL|exact I|auto|nodebt Hs].
Qed.

Lemma step_YfSd a p k :
  stk (gb x) t = stk_of (PY YfSd a p k) -> L (view_of x t) (PY YfSd a p k) -> Inv (gstep x t).
Proof.
  intros Hs HL. gred Hs. cbn.
  local (PY YfMr a p k) Hs; [exact HL|exact I|auto|nodebt Hs].
Qed.

Lemma run_slots_some (mm : kmem) q r :
  slots_ok mm -> slot_mutex mm t = Some q ->
  run_slots mc mm t r = (set_slot_mutex mm t None, [], UAdd q :: MSlots :: r).
Proof.
  intros S S1. destruct (S t) as (S2 & S3 & S4). unfold run_slots. rewrite S2, S4, S1. reflexivity.
Qed.

Lemma step_YfMr a p k :
  stk (gb x) t = stk_of (PY YfMr a p k) -> L (view_of x t) (PY YfMr a p k) -> Inv (gstep x t).
Proof.
  intros Hs HL. gred Hs.
  assert (E : fstate m t = ST_WAITING) by apply HL. cbn in E. cbn -[run_slots]. rewrite E. cbn -[run_slots].
  rewrite (run_slots_some m 0%nat); [|intros u; apply (I_slots x HI)|apply HL]. cbn.
  local (PY YfUAdd a p k) Hs; [|exact I|auto|nodebt Hs].
  revert HL. Lunf. vw. cbn. tauto.
Qed.

Lemma step_YfAs a p k :
  stk (gb x) t = stk_of (PY YfAs a p k) -> L (view_of x t) (PY YfAs a p k) ->
  blocked m t = false -> Inv (gstep x t).
Proof.
  intros Hs HL Hb. gred Hs. cbn.
  local (PY YfRe a p k) Hs; [|exact I|auto|nodebt Hs].
  revert HL. Lunf. cbn. rewrite Hb. intuition discriminate.
Qed.

Lemma step_YfRe a p k :
  stk (gb x) t = stk_of (PY YfRe a p k) -> L (view_of x t) (PY YfRe a p k) -> Inv (gstep x t).
Proof.
  intros Hs HL. gred Hs. cbn.
  local (PY YfY a p k) Hs; [|exact I| |nodebt Hs].
  - revert HL. Lunf. vw. cbn. intros HL. right. intuition congruence.
  - right. right. intros u. apply settled_not_node. apply HL.
Qed.

(* ---- non-local steps: generic helpers ---- *)
Lemma others_ok x' :
  (forall u, u <> t -> stk (gb x') u = stk (gb x) u) ->
  (forall u, u <> t -> view_eqv (view_of x u) (view_of x' u)) ->
  (forall u p, u <> t -> stk (gb x) u = stk_of p -> L (view_of x u) p -> X x u p -> X x' u p) ->
  forall u, u <> t -> thr_ok x' u.
Proof.
  intros H1 H2 H3 u Hu. destruct (I_thr x HI u) as (p & P1 & P2 & P3).
  exists p. rewrite (H1 u Hu). split; [exact P1|]. split.
  - eapply L_eqv; [apply (H2 u Hu)|exact P2].
  - apply H3; auto.
Qed.

Lemma debt_k_frame x' :
  debt x' = debt x -> (forall u, u <> t -> stk (gb x') u = stk (gb x) u) ->
  (debt x = Some t -> exists kf tl, stk (gb x') t = stk_of (PK kf tl) /\ kpre kf = true) ->
  forall d, debt x' = Some d ->
  exists kf tl, stk (gb x') d = stk_of (PK kf tl) /\ kpre kf = true.
Proof.
  intros E H1 H2 d Hd. rewrite E in Hd. destruct (Nat.eq_dec d t) as [->|N]; [auto|].
  rewrite (H1 d N). apply (I_debt_k x HI d Hd).
Qed.

Ltac stk_other := let u := fresh "u" in let Hu := fresh "Hu" in
  intros u Hu; cbn; apply upd_other; exact Hu.
Ltac view_other := let u := fresh "u" in let Hu := fresh "Hu" in
  intros u Hu; unfold view_eqv, view_of; cbn; rewrite ?upd_other by exact Hu; tauto.

(* ---- counting roles ---- *)
Definition b2n (b : bool) : nat := if b then 1%nat else O.

Lemma nown_upd x' r' :
  (t < nthr (gb x))%nat -> nthr (gb x') = nthr (gb x) -> role x' = upd (role x) t r' ->
  (nown x' + b2n (is_owner (role x t)) = nown x + b2n (is_owner r'))%nat /\
  (nann x' + b2n (is_ann (role x t)) = nann x + b2n (is_ann r'))%nat.
Proof.
  intros Ht En Er. unfold nown, nann. rewrite En, Er. split.
  - pose proof (cnt_upd (fun u => is_owner (upd (role x) t r' u)) (fun u => is_owner (role x u))
                  (nthr (gb x)) t Ht) as H. cbn beta in H. rewrite upd_same in H.
    unfold b2n. rewrite <- H; [lia|]. intros u Hu. now rewrite upd_other.
  - pose proof (cnt_upd (fun u => is_ann (upd (role x) t r' u)) (fun u => is_ann (role x u))
                  (nthr (gb x)) t Ht) as H. cbn beta in H. rewrite upd_same in H.
    unfold b2n. rewrite <- H; [lia|]. intros u Hu. now rewrite upd_other.
Qed.

Lemma nown_le1 : (nown x <= 1)%nat.
Proof.
  apply cnt_le1. intros a b Ha Hb. apply (I_own1 x (I_C x HI)).
  - destruct (role x a); try discriminate; reflexivity.
  - destruct (role x b); try discriminate; reflexivity.
Qed.

Lemma owner_counted u : role x u = Owner -> (1 <= nown x)%nat.
Proof.
  intros H. apply (cnt_pos _ _ u); [|now rewrite H]. apply (I_role_lt x (I_C x HI)). congruence.
Qed.

Lemma ann_counted u : role x u = Announced -> (1 <= nann x)%nat.
Proof.
  intros H. apply (cnt_pos _ _ u); [|now rewrite H]. apply (I_role_lt x (I_C x HI)). congruence.
Qed.

Lemma nown0_no_owner u : nown x = O -> role x u <> Owner.
Proof. intros H E. pose proof (owner_counted u E). lia. Qed.

Lemma debt_facts d : debt x = Some d -> nown x = O /\ (1 <= nann x)%nat.
Proof.
  intros Hd. split.
  - destruct (Nat.eq_dec (nown x) 0) as [E|N]; [exact E|].
    destruct (cnt_ex (fun u => is_owner (role x u)) (nthr (gb x))) as (u & _ & Hu); [unfold nown in N; lia|].
    exfalso. apply (I_debt_own x (I_C x HI) d u Hd). destruct (role x u); try discriminate; reflexivity.
  - destruct (I_debt_ann x (I_C x HI) d Hd) as (u & Hu). apply (ann_counted u Hu).
Qed.

Lemma gq_fst_in u n : In (u, n) (gq x) -> In u (map fst (gq x)).
Proof. intros H. apply (in_map fst) in H. exact H. Qed.

(* X of another thread survives a change of role/hand of t (t not a hand-off target) and of word *)
Lemma X_other_rh x' u q :
  role x t <> Owner \/ settled (hand x t) ->
  cell (mem (gb x')) = cell m -> ndata (mem (gb x')) = ndata m -> nnext (mem (gb x')) = nnext m ->
  qhead (mem (gb x')) = qhead m -> fstate (mem (gb x')) = fstate m ->
  gq x' = gq x -> debt x = None \/ debt x' = debt x ->
  chand x' = chand x -> cq x' = cq x -> onelist (gb x') = onelist (gb x) ->
  (forall f, f <> t -> hand x' f = hand x f /\ role x' f = role x f) ->
  X x u q -> X x' u q.
Proof.
  intros Hrn Ec Ed En Eh Ef Eq Eb Ech Ecq Eol Ho.
  assert (P : forall f h, h = HPopped u \/ h = HNode u -> popping x u f h -> popping x' u f h).
  { intros f h Hh P. assert (Nf : f <> t).
    { intros ->. destruct P as (P1 & P2). destruct Hrn as [A|A]; [auto|].
      apply (settled_not_node _ u) in A as A'. destruct A as [A| A], Hh as [-> | ->]; congruence. }
    destruct (Ho f Nf) as [A B]. revert P. unfold popping. rewrite A, B. tauto. }
  assert (D : forall w, debt x = Some w -> debt x' = Some w).
  { intros w Hw. destruct Eb as [Eb|Eb]; congruence. }
  destruct q as [| | |f c| |[] ? ? ?|[] ?| | |y ? ? ?]; unfold X, Xk, csx;
    rewrite ?Ec, ?Ed, ?En, ?Eh, ?Ef, ?Eq, ?Ech, ?Ecq, ?Eol; auto.
  - intros (A & B). auto.
  - intros (A & B). auto.
  - intros (A & f & B & Q). split; [exact A|]. exists f. auto.
  - intros (f & B & Q). exists f. auto.
  - intros (f & B & Q). exists f. auto.
  - intros (Q & B). auto.
Qed.

(* ---- fiber_mutex_lock: the fetch_sub ---- *)
Lemma acquire_ok a p k :
  (t < nthr (gb x))%nat ->
  stk (gb x) t = stk_of (PLSub a p k) ->
  L (view_of x t) (PLSub a p k) -> word m 0 = 1 ->
  Inv (mk x t (set_word m 0 0) (stk_of (PCs (CRead c_high) (MHigh a p k)))
          (upd (role x) t Owner) (upd (hand x) t HNone) (gq x) (debt x) (chand x) (cq x)).
Proof.
  intros Ht Hs HL Hw. destruct HL as (Hc & Hr & Hf). cbn in Hr.
  assert (Hrn : role x t <> Owner) by congruence.
  pose proof (I_count x (I_C x HI)) as Hcnt. rewrite Hw in Hcnt.
  assert (Hno : nown x = O) by lia. assert (Hna : nann x = O) by lia.
  assert (Hnd : debt x = None).
  { destruct (debt x) as [d|] eqn:Hd; [|reflexivity]. destruct (debt_facts d Hd). lia. }
  set (x' := mk x t _ _ _ _ _ _ _ _).
  destruct (nown_upd x' Owner Ht eq_refl eq_refl) as [N1 N2]. rewrite Hr in N1, N2. cbn [b2n is_owner is_ann] in N1, N2.
  constructor.
  - intros u. destruct (Nat.eq_dec u t) as [->|N].
    + exists (PCs (CRead c_high) (MHigh a p k)). split; [cbn; apply upd_same|]. split; [|reflexivity].
      revert Hc Hf. Lunf. subst x'. vw. cbn. tauto.
    + revert u N. apply others_ok; [stk_other|view_other|].
      intros u q Hu Hq HLq HXq. apply X_other_rh; auto.
      intros f Nf. cbn. now rewrite !upd_other.
  - apply (I_slots x HI).
  - intros d Hd. cbn in Hd. congruence.
  - constructor; cbn [x' mk gb role debt gq mem nthr set_word word]; rewrite ?upd_same.
    + intros u Hu. destruct (Nat.eq_dec u t) as [->|N]; [exact Ht|].
      rewrite upd_other in Hu by exact N. apply (I_role_lt x (I_C x HI) u Hu).
    + intros a0 b. unfold upd. destruct (Nat.eqb_spec a0 t), (Nat.eqb_spec b t); try congruence;
      intros Ha Hb; exfalso; first [apply (nown0_no_owner b Hno Hb)|apply (nown0_no_owner a0 Hno Ha)].
    + congruence.
    + congruence.
    + intros _. left. fold x'. lia.
    + fold x'. lia.
    + intros u n Hu. rewrite upd_other; [apply (I_gq_role x (I_C x HI) u n Hu)|].
      intros ->. apply Hc. cbn. apply (gq_fst_in _ _ Hu).
  - apply (invN_frame x); try reflexivity; [|apply (I_N x HI)].
    intros u. cbn. destruct (Nat.eq_dec u t) as [->|N]; [|now rewrite upd_other].
    rewrite upd_same, Hs. reflexivity.
  - apply (invQ_frame x); try reflexivity. apply (I_Q x HI).
Qed.

Lemma step_PLSub a p k :
  (t < nthr (gb x))%nat ->
  stk (gb x) t = stk_of (PLSub a p k) -> L (view_of x t) (PLSub a p k) -> Inv (gstep x t).
Proof.
  intros Ht Hs HL. gred Hs. cbn -[Z.sub].
  destruct (word m 0 - 1 =? 0) eqn:E.
  { apply Z.eqb_eq in E. cbn -[Z.sub]. replace (word m 0 - 1) with 0 by lia.
    apply (acquire_ok a p k Ht Hs HL). lia. }
  apply Z.eqb_neq in E. cbn -[Z.sub].
  destruct HL as (Hc & Hr & Hf). cbn in Hr.
  assert (Hrn : role x t <> Owner) by congruence.
  pose proof (I_count x (I_C x HI)) as Hcnt.
  set (x' := mkG _ _ _ _ _ _ _).
  destruct (nown_upd x' Announced Ht eq_refl eq_refl) as [N1 N2]. rewrite Hr in N1, N2.
  cbn [b2n is_owner is_ann] in N1, N2.
  constructor.
  - intros u. destruct (Nat.eq_dec u t) as [->|N].
    + exists (PW WfSaving a p k). split; [cbn; apply upd_same|]. split; [|exact I].
      revert Hc Hf. Lunf. subst x'. vw. cbn. tauto.
    + revert u N. apply others_ok; [stk_other|view_other|].
      intros u q Hu Hq HLq HXq. apply X_other_rh; auto.
      intros f Nf. cbn. now rewrite !upd_other.
  - apply (I_slots x HI).
  - apply debt_k_frame; [reflexivity|stk_other|nodebt Hs].
  - constructor; cbn [x' gb role debt gq mem nthr set_word word]; rewrite ?upd_same.
    + intros u Hu. destruct (Nat.eq_dec u t) as [->|N]; [exact Ht|].
      rewrite upd_other in Hu by exact N. apply (I_role_lt x (I_C x HI) u Hu).
    + intros a0 b. unfold upd. destruct (Nat.eqb_spec a0 t), (Nat.eqb_spec b t); try discriminate.
      apply (I_own1 x (I_C x HI)).
    + intros d u Hd. unfold upd. destruct (Nat.eqb_spec u t); [discriminate|].
      apply (I_debt_own x (I_C x HI) d u Hd).
    + intros d Hd. exists t. apply upd_same.
    + intros Hd. fold x'. destruct (I_nodebt x (I_C x HI) Hd) as [A|A]; [left; lia|].
      pose proof nown_le1. left. lia.
    + fold x'. lia.
    + intros u n Hu. rewrite upd_other; [apply (I_gq_role x (I_C x HI) u n Hu)|].
      intros ->. apply Hc. cbn. apply (gq_fst_in _ _ Hu).
  - apply (invN_frame x); try reflexivity; [|apply (I_N x HI)].
    intros u. cbn. destruct (Nat.eq_dec u t) as [->|N]; [|now rewrite upd_other].
    rewrite upd_same, Hs. reflexivity.
  - apply (invQ_frame x); try reflexivity. apply (I_Q x HI).
Qed.

(* ---- releasing the lock: the fetch_add of fiber_mutex_unlock or of the deferred unlock ---- *)
Lemma release_ok m' s' p' d' :
  (t < nthr (gb x))%nat -> role x t = Owner -> settled (hand x t) -> ~ In t (map fst (gq x)) ->
  extra (stk (gb x) t) = [] -> extra s' = [] -> s' = stk_of p' ->
  loc_eq (set_word m 0 (word m 0 + 1)) m' t -> fstate m' = fstate m ->
  d' = (if word m 0 + 1 =? 1 then debt x else Some t) ->
  let x' := mk x t m' s' (upd (role x) t Idle) (hand x) (gq x) d' (chand x) (cq x) in
  (word m 0 + 1 <> 1 -> exists kf tl, p' = PK kf tl /\ kpre kf = true) ->
  L (view_of x' t) p' -> X x' t p' -> Inv x'.
Proof.
  intros Ht Hr Hset Hnq Hex Hex' Es (Ed & En & Ew & Eh & Et & Ef & Ec & S2 & S3 & S4 & Eo) Efs Hd' x' Hk HL HX.
  cbn [set_word ndata nnext word qhead qtail fnode cell slot_sched slot_wait slot_mpmc fstate blocked pend slot_mutex] in *.
  pose proof (I_count x (I_C x HI)) as Hcnt.
  pose proof (owner_counted t Hr) as Ho1. pose proof nown_le1 as Ho2.
  assert (Hnd : debt x = None).
  { destruct (debt x) as [d|] eqn:Hd; [|reflexivity]. destruct (debt_facts d Hd). lia. }
  destruct (nown_upd x' Idle Ht eq_refl eq_refl) as [N1 N2]. rewrite Hr in N1, N2.
  cbn [b2n is_owner is_ann] in N1, N2.
  assert (Hst : forall u, u <> t -> stk (gb x') u = stk (gb x) u) by (intros u Hu; cbn; apply upd_other; exact Hu).
  constructor.
  - intros u. destruct (Nat.eq_dec u t) as [->|N].
    + exists p'. split; [cbn; rewrite upd_same; exact Es|]. split; assumption.
    + revert u N. apply others_ok; [exact Hst| |].
      * intros u Hu. destruct (Eo u Hu) as (F1 & F2 & F3 & F4).
        unfold view_eqv, view_of. cbn. rewrite F1, F2, F3, F4, Ef, upd_other by exact Hu. tauto.
      * intros u q Hu Hq HLq HXq. apply X_other_rh; auto.
        -- cbn. intros f Nf. now rewrite upd_other.
  - intros u. cbn. rewrite S2, S3, S4. apply (I_slots x HI).
  - intros d Hd. cbn in Hd. subst d'. destruct (Z.eqb_spec (word m 0 + 1) 1) as [E|E]; [congruence|].
    injection Hd as <-. destruct (Hk E) as (kf & tl & -> & K). exists kf, tl. cbn. rewrite upd_same. auto.
  - assert (Ew0 : word m' 0%nat = word m 0 + 1) by (rewrite Ew; apply upd_same).
    constructor; cbn [x' mk gb role debt gq mem nthr]; rewrite ?Ew0.
    + intros u Hu. destruct (Nat.eq_dec u t) as [->|N]; [exact Ht|].
      rewrite upd_other in Hu by exact N. apply (I_role_lt x (I_C x HI) u Hu).
    + intros a0 b. unfold upd. destruct (Nat.eqb_spec a0 t), (Nat.eqb_spec b t); try discriminate.
      apply (I_own1 x (I_C x HI)).
    + intros d u _. unfold upd. destruct (Nat.eqb_spec u t); [discriminate|].
      intros Hu. apply n. apply (I_own1 x (I_C x HI)); assumption.
    + intros d Hd. subst d'. destruct (Z.eqb_spec (word m 0 + 1) 1) as [E|E]; [congruence|].
      destruct (cnt_ex (fun u => is_ann (role x u)) (nthr (gb x))) as (u & _ & Hu).
      { fold (nann x). lia. }
      exists u. rewrite upd_other; [destruct (role x u); try discriminate; reflexivity|].
      intros ->. rewrite Hr in Hu. discriminate.
    + subst d'. destruct (Z.eqb_spec (word m 0 + 1) 1) as [E|E]; [|discriminate].
      intros _. right. fold x'. lia.
    + fold x'. lia.
    + intros u n Hu. rewrite upd_other; [apply (I_gq_role x (I_C x HI) u n Hu)|].
      intros ->. apply Hnq. apply (gq_fst_in _ _ Hu).
  - apply (invN_frame x); cbn [x' mk gb mem gq stk]; auto; [|apply (I_N x HI)].
    intros u. destruct (Nat.eq_dec u t) as [->|N]; [rewrite upd_same; congruence|now rewrite upd_other].
  - apply (invQ_frame x); cbn [x' mk gb mem cq chand]; auto. apply (I_Q x HI).
Qed.

Lemma step_PUAdd r p k :
  (t < nthr (gb x))%nat ->
  stk (gb x) t = stk_of (PUAdd r p k) -> L (view_of x t) (PUAdd r p k) -> Inv (gstep x t).
Proof.
  intros Ht Hs HL. gred Hs. cbn -[Z.add].
  destruct HL as ((Hpd & Hq & Hsm & Hr & Hf) & Hch). cbn in Hr.
  assert (Hset : settled (hand x t)) by apply Hq.
  assert (Hnq : ~ In t (map fst (gq x))) by apply Hq.
  assert (Hex : extra (stk (gb x) t) = []) by (rewrite Hs; reflexivity).
  destruct (word m 0 + 1 =? 1) eqn:E; cbn -[Z.add].
  - rewrite app_nil_r. apply Z.eqb_eq in E.
    destruct (start_cases p (S k)) as [Es|(a & p' & Es)]; rewrite Es.
    + apply (release_ok _ _ PDone _ Ht Hr Hset Hnq Hex); [reflexivity|reflexivity|loc_tac|reflexivity| | | |exact I].
      * rewrite (proj2 (Z.eqb_eq _ _) E). reflexivity.
      * intros N. destruct (N E).
      * revert Hpd Hq Hsm Hch Hf. Lunf. vw. cbn. tauto.
    + apply (release_ok _ _ (PLSub a p' (S k)) _ Ht Hr Hset Hnq Hex); [reflexivity|reflexivity|loc_tac|reflexivity| | | |exact I].
      * rewrite (proj2 (Z.eqb_eq _ _) E). reflexivity.
      * intros N. destruct (N E).
      * revert Hpd Hq Hsm Hch Hf. Lunf. vw. cbn. tauto.
  - apply (release_ok _ _ (PK KfHead (TU r p k)) _ Ht Hr Hset Hnq Hex); [reflexivity|reflexivity|loc_tac|reflexivity| | | |].
    + rewrite E. reflexivity.
    + intros _. eauto.
    + revert Hpd Hq Hsm Hch Hf. Lunf. vw. cbn. tauto.
    + reflexivity.
Qed.

Lemma step_YfUAdd a p k :
  (t < nthr (gb x))%nat ->
  stk (gb x) t = stk_of (PY YfUAdd a p k) -> L (view_of x t) (PY YfUAdd a p k) -> Inv (gstep x t).
Proof.
  intros Ht Hs HL. gred Hs. cbn -[Z.add run_slots].
  destruct HL as (Hpd & Hq & Hr & Hch & Hsm). cbn in Hr, Hpd, Hch, Hsm.
  assert (Hset : settled (hand x t)) by apply Hq.
  assert (Hnq : ~ In t (map fst (gq x))) by apply Hq.
  assert (Hex : extra (stk (gb x) t) = []) by (rewrite Hs; reflexivity).
  destruct (word m 0 + 1 =? 1) eqn:E; cbn -[Z.add run_slots].
  - rewrite run_slots_none; [|intros u; apply (I_slots x HI)|exact Hsm].
    unfold sleep. cbn [set_word pend]. rewrite Hpd. cbn -[Z.add].
    apply (release_ok _ _ (PY YfAs a p k) _ Ht Hr Hset Hnq Hex); [reflexivity|reflexivity|loc_tac|reflexivity| | | |exact I].
    + rewrite E. reflexivity.
    + apply Z.eqb_eq in E. intros N. destruct (N E).
    + revert Hq. Lunf. vw. cbn. rewrite Hch, Hsm, Hpd. intros Hq. intuition.
  - apply (release_ok _ _ (PK KfHead (TM a p k)) _ Ht Hr Hset Hnq Hex); [reflexivity|reflexivity|loc_tac|reflexivity| | | |].
    + rewrite E. reflexivity.
    + intros _. eauto.
    + revert Hq. Lunf. vw. cbn. rewrite Hch, Hsm, Hpd. tauto.
    + reflexivity.
Qed.
End Steps.
