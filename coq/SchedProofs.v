(* Proofs for C10 (fiber_yield is fair) and the scheduler-level conservation
   statement used by C02, over the model coq/Sched.v, for ONE kernel thread
   (nthr = 1), any program, any schedule, any length.

   Contents:
     cnt, fibp, lok, Inv, step_inv, reachable_inv   the conservation invariant
     conservation_of_inv                              its consequences (C02)
     ist, lstep, ireach, irun (+ erasure lemmas)      machine with ghosts byp / hand
     GI, gloc, GInv, gstep, ireach_ginv               the bypass invariant
     bypass_bound, bypass_bound_by_position           C10 bound 2(N-1)
     queue_mono, pending_step, pending_run, poll_progress   C10 corollary
     starvation_witness, starve_cycA/B, starvation_unbounded  pinned code (init false)

   Logical view of the two deques of scheduler 0:
     Fq s = dq s (sfrom s 0)        the batch being drained  (head = next pop)
     Sq s = dq s (3 - sfrom s 0)    the batch being filled   (head = last push)
   The deque ids of thread 0 are 1 and 2, so "3 - d" is "the other deque".
   The field store_to equals 3 - schedule_from except between the two writes
   of the swap in fiber_scheduler_next (pc PN5), where both fields point to the
   same deque; the invariant records that.

   Facts about the model that the invariant establishes and relies on:
   with nthr = 1 load_balance never steals, so pc PL2 is unreachable; fiber ids
   outside 1..NF are refused by the model itself (bad_id), so prog_ok only
   bounds the spawned ids from above; a fiber scheduled while SAVING (park-
   saving) stays in the deques (or in the local of PN8/PN9/PSched) until the
   flip, is re-queued by next() without a hand-out, and is handed out only
   after the flip; wake / park-saving act only on fibers parked in a wait queue
   (inwq), which are in no place.  *)
From Coq Require Import List ZArith Lia Bool Arith.
From LF Require Import Conc Sched.
Import ListNotations.

(* ------------------------------------------------------------------ *)
(* multiplicity of a fiber in a list                                   *)
Fixpoint cnt (l : list nat) (f : nat) : nat :=
  match l with [] => 0 | y :: r => (if Nat.eqb y f then 1 else 0) + cnt r f end.

Lemma cnt_app l1 l2 f : cnt (l1 ++ l2) f = cnt l1 f + cnt l2 f.
Proof. induction l1; cbn; lia. Qed.

Lemma cnt_In l f : In f l <-> 1 <= cnt l f.
Proof.
  induction l as [|y r IH]; cbn. { split; [tauto|lia]. }
  destruct (Nat.eqb_spec y f); split; intros H; try lia; auto.
  - destruct H; [congruence|]. apply IH in H. lia.
  - right. apply IH. lia.
Qed.

Lemma cnt_notin l f : ~ In f l -> cnt l f = 0.
Proof. intros H. destruct (cnt l f) eqn:E; auto. exfalso. apply H, cnt_In. lia. Qed.

Lemma cnt_NoDup l : (forall f, cnt l f <= 1) -> NoDup l.
Proof.
  induction l as [|y r IH]; intros H; constructor.
  - intros Hin. apply cnt_In in Hin. specialize (H y). cbn in H. rewrite Nat.eqb_refl in H. lia.
  - apply IH. intros f. specialize (H f). cbn in H. lia.
Qed.

Lemma NoDup_range_length (l : list nat) N :
  NoDup l -> (forall f, In f l -> 1 <= f <= N) -> length l <= N.
Proof.
  intros ND H. rewrite <- (seq_length N 1). apply NoDup_incl_length; auto.
  intros f Hf. apply in_seq. specialize (H f Hf). lia.
Qed.

(* ------------------------------------------------------------------ *)
(* one kernel thread: load_balance has no remote queue                 *)
Lemma lb_iend_1 : lb_iend 0 1 = 2.
Proof. reflexivity. Qed.

Lemma lb_scan_1thread dqs lc ms rc :
  lb_scan (2 * 1 + 60) dqs 1 (2 * (0 + 1)) (lb_iend 0 1) lc ms rc = (dqs, None).
Proof. reflexivity. Qed.

Lemma lb_scan_1thread' fuel dqs i lc ms rc :
  2 <= i -> lb_scan fuel dqs 1 i (lb_iend 0 1) lc ms rc = (dqs, None).
Proof.
  intros H. destruct fuel; cbn [lb_scan]; auto.
  rewrite lb_iend_1. destruct (Nat.leb_spec 2 i); auto. lia.
Qed.

(* ------------------------------------------------------------------ *)
(* places                                                              *)
Definition T0 (s : st) : tst := thr s 0.
Definition Fq (s : st) : list nat := dq s (sfrom s 0).
Definition Sq (s : st) : list nat := dq s (3 - sfrom s 0).

Definition opt (c : nat) : list nat := match c with O => [] | S _ => [c] end.

(* fibers held by the kernel thread itself: the current fiber and the locals
   of the pc.  At PY4 nf ts and PSched f (KRequeue nf) the fiber ts / f is the
   current fiber (cur), so it is listed once. *)
Definition held (T : tst) : list nat :=
  match pc T with
  | PSched f (KRequeue nf) => nf :: opt (cur T)
  | PSched f _ => f :: opt (cur T)
  | PN8 _ x | PN9 _ x => x :: opt (cur T)
  | PY2 nf | PY3 nf | PY4 nf _ | PI1 nf => nf :: opt (cur T)
  | PL2 _ _ _ _ _ x => x :: opt (cur T)
  | PW2 f | PP2 f => f :: opt (cur T)      (* popped from its wait queue by this waker *)
  | _ => opt (cur T)
  end.

Definition places (s : st) : list nat := held (T0 s) ++ Fq s ++ Sq s.

(* per fiber: at most one place; queued => state >= 2 (READY, SAVING, or WAITING
   again after a flip, then not in a wait queue by f_wq); existing and not in a
   wait queue => has a place; in a wait queue => WAITING and no place;
   states are 0 (none) 1 RUNNING 2 READY 3 WAITING 5 SAVING; ids in 1..N.
   h = held fibers, F / S = the two deques, w f = 1 iff inwq f *)
Record fibp (N : nat) (fs : nat -> Z) (w : nat -> Z) (h F S : list nat) (f : nat) : Prop := {
  f_once : cnt h f + cnt F f + cnt S f <= 1;
  f_queued : 1 <= cnt F f + cnt S f -> (2 <= fs f)%Z;
  f_placed : (1 <= fs f)%Z -> w f = 0%Z -> 1 <= cnt h f + cnt F f + cnt S f;
  f_wq : w f = 1%Z -> fs f = 3%Z /\ cnt h f + cnt F f + cnt S f = 0;
  f_wb : (0 <= w f <= 1)%Z;
  f_state : (0 <= fs f <= 5 /\ fs f <> 4)%Z;
  f_range : fs f <> 0%Z -> 1 <= f <= N
}.
Definition wqz (s : st) (f : nat) : Z := if inwq s f then 1%Z else 0%Z.
Definition fib_ok (N : nat) (s : st) (f : nat) : Prop :=
  fibp N (fstt s) (wqz s) (held (T0 s)) (Fq s) (Sq s) f.

Definition run (s : st) (c : nat) : Prop := c = 0 \/ fstt s c = 1%Z.

Definition kok (s : st) (c : nat) (k : kont) : Prop :=
  match k with
  | KYield stv => c <> 0 /\ fstt s c = stv /\ (stv = 1 \/ stv = 3)%Z
  | KIdle => c = 0
  | _ => False
  end.

(* a fiber that next() has handed out: READY, or WAITING after a flip *)
Definition hok (s : st) (nf : nat) : Prop := fstt s nf = 2%Z \/ fstt s nf = 3%Z.

Definition lok (N : nat) (s : st) (T : tst) : Prop :=
  let c := cur T in
  match pc T with
  | PSpawnR f => run s c /\ 1 <= f <= N
  | PSpawnW f => run s c /\ 1 <= f <= N /\ fstt s f = 0%Z
  | PSched f k =>
      match k with
      | KSpawn _ => fstt s f = 2%Z /\ run s c
      | KWake _ => (fstt s f = 2%Z \/ fstt s f = 5%Z) /\ run s c
      | KRequeue nf => fstt s f = 2%Z /\ c = f /\ fstt s nf = 1%Z
      | _ => False
      end
  | PBlockW => c <> 0 /\ fstt s c = 1%Z
  | PYRead => c <> 0 /\ (fstt s c = 1 \/ fstt s c = 3)%Z
  | PN1 k | PN6 k | PN7 k => kok s c k
  | PN2 k => kok s c k /\ Fq s = []
  | PN3 k tmp => kok s c k /\ Fq s = [] /\ tmp = sfrom s 0
  | PN4 k tmp sv => kok s c k /\ Fq s = [] /\ tmp = sfrom s 0 /\ sv = 3 - sfrom s 0
  | PN5 k tmp => kok s c k /\ sto s 0 = sfrom s 0 /\ tmp = 3 - sfrom s 0
  | PN8 k x => kok s c k /\ (fstt s x = 2 \/ fstt s x = 5 \/ fstt s x = 3)%Z
  | PN9 k x => kok s c k /\ fstt s x = 5%Z
  | PY2 nf => c <> 0 /\ (fstt s c = 1 \/ fstt s c = 3)%Z /\ hok s nf
  | PY3 nf => c <> 0 /\ fstt s c = 1%Z /\ hok s nf
  | PY4 nf ts => c <> 0 /\ hok s nf /\
                 ((ts = 0 /\ fstt s c = 3%Z) \/ (ts = c /\ fstt s c = 2%Z))
  | PL1 k => (k = KIdleLB /\ c = 0) \/ (k = KBalLB /\ run s c)
  | PL2 _ _ _ _ _ _ => False
  | PI1 nf => c = 0 /\ hok s nf
  | PW1 f | PP1 f | PF1 f => run s c
  | PW2 f | PP2 f => run s c /\ fstt s f = 3%Z
  | PF2 f => run s c /\ fstt s f = 5%Z
  | Fin => run s c
  end.

(* the fiber ids spawned by the program are at most N (ids outside 1..NF are
   refused by the model itself) *)
Definition prog_ok (N : nat) (p : list op) : Prop := forall f, In (OSpawn f) p -> f <= N.

Record Inv (N : nat) (s : st) : Prop := {
  i_n : nthr s = 1;
  i_ts : to_store s = true;
  i_from : sfrom s 0 = 1 \/ sfrom s 0 = 2;
  i_to : (forall k tmp, pc (T0 s) <> PN5 k tmp) -> sto s 0 = 3 - sfrom s 0;
  i_fib : forall f, fib_ok N s f;
  i_prog : prog_ok N (prog (T0 s));
  i_loc : lok N s (T0 s)
}.

(* ------------------------------------------------------------------ *)
(* the next call of the program                                        *)
Definition startpc (p : pcT) : Prop :=
  match p with Fin | PSpawnR _ | PYRead | PBlockW | PL1 _ | PW1 _ | PP1 _ | PF1 _ => True | _ => False end.

Lemma start_spec N s t : forall p c k, prog_ok N p -> run s c ->
  let T' := snd (start t c p k) in
  cur T' = c /\ prog_ok N (prog T') /\ lok N s T' /\ held T' = opt c /\ startpc (pc T').
Proof.
  induction p as [|o r IH]; intros c k Hp Hr; cbn [start].
  - cbn. split; [reflexivity|]. split; [intros f []|]. repeat split; auto.
  - assert (Hr' : prog_ok N r) by (intros f Hf; apply Hp; right; exact Hf).
    assert (Hrec : forall (e0 : list Z),
               let T' := snd (let '(e, T) := start t c r (S k) in (e0 ++ e, T)) in
               cur T' = c /\ prog_ok N (prog T') /\ lok N s T' /\ held T' = opt c /\ startpc (pc T')).
    { intros e0. specialize (IH c (S k) Hr' Hr). destruct (start t c r (S k)) as [e T]. exact IH. }
    assert (Hpl : forall pc0, startpc pc0 -> held {| pc := pc0; cur := c; prog := r; opi := k |} = opt c).
    { intros pc0 H0. unfold held; cbn. destruct pc0; try reflexivity; destruct H0. }
    assert (Hgo : forall pc0, startpc pc0 -> lok N s {| pc := pc0; cur := c; prog := r; opi := k |} ->
               let T' := {| pc := pc0; cur := c; prog := r; opi := k |} in
               cur T' = c /\ prog_ok N (prog T') /\ lok N s T' /\ held T' = opt c /\ startpc (pc T')).
    { intros pc0 H0 H1. split; [reflexivity|]. split; [exact Hr'|]. split; [exact H1|]. split; [apply Hpl|]; exact H0. }
    destruct o; cbn [snd].
    + (* spawn *) unfold bad_id. destruct (Nat.eqb_spec f 0) as [E|E]; [apply Hrec|].
      destruct (Nat.ltb NF f); [apply Hrec|]. cbn [orb snd]. apply Hgo; [exact I|].
      unfold lok; cbn. split; auto. split; [lia|]. apply Hp; left; reflexivity.
    + destruct (Nat.eqb_spec c 0) as [E|E]; [apply Hrec|]. apply Hgo; [exact I|].
      unfold lok; cbn. split; auto. destruct Hr; [contradiction|auto].
    + destruct (Nat.eqb_spec c 0) as [E|E]; [apply Hrec|]. apply Hgo; [exact I|].
      unfold lok; cbn. split; auto. destruct Hr; [contradiction|auto].
    + destruct (Nat.eqb_spec c 0) as [E|E]; [|apply Hrec]. apply Hgo; [exact I|].
      unfold lok; cbn. auto.
    + destruct (bad_id f); [apply Hrec|]. apply Hgo; [exact I|]. unfold lok; cbn. auto.
    + apply Hgo; [exact I|]. unfold lok; cbn. auto.
    + destruct (bad_id f); [apply Hrec|]. apply Hgo; [exact I|]. unfold lok; cbn. auto.
    + destruct (bad_id f); [apply Hrec|]. apply Hgo; [exact I|]. unfold lok; cbn. auto.
Qed.

Lemma finish_spec N s t T c v : prog_ok N (prog T) -> run s c ->
  let T' := snd (finish t T c v) in
  cur T' = c /\ prog_ok N (prog T') /\ lok N s T' /\ held T' = opt c /\ startpc (pc T').
Proof.
  intros Hp Hr. unfold finish.
  pose proof (start_spec N s t (prog T) c (S (opi T)) Hp Hr) as H.
  destruct (start t c (prog T) (S (opi T))) as [e T']. exact H.
Qed.

Lemma startpc_not_PN5 p : startpc p -> forall k tmp, p <> PN5 k tmp.
Proof. intros H k tmp E. subst. exact H. Qed.

Lemma cnt_opt c f : cnt (opt c) f = if Nat.eqb c 0 then 0 else if Nat.eqb c f then 1 else 0.
Proof. destruct c; cbn [opt cnt Nat.eqb]; auto; try lia. Qed.

(* ------------------------------------------------------------------ *)
(* rebuilding the invariant after a step of thread 0                   *)
Lemma inv_mk N s T' :
  nthr s = 1 -> to_store s = true -> (sfrom s 0 = 1 \/ sfrom s 0 = 2) ->
  ((forall k tmp, pc T' <> PN5 k tmp) -> sto s 0 = 3 - sfrom s 0) ->
  (forall f, fibp N (fstt s) (wqz s) (held T') (Fq s) (Sq s) f) ->
  prog_ok N (prog T') -> lok N s T' -> Inv N (set_thr s 0 T').
Proof.
  intros. constructor; unfold fib_ok, T0, Fq, Sq in *; cbn [nthr to_store sfrom sto fstt dq thr set_thr];
    rewrite ?upd_same; auto.
Qed.

Lemma inv_finish N s T c v :
  nthr s = 1 -> to_store s = true -> (sfrom s 0 = 1 \/ sfrom s 0 = 2) ->
  sto s 0 = 3 - sfrom s 0 ->
  (forall f, fibp N (fstt s) (wqz s) (opt c) (Fq s) (Sq s) f) ->
  prog_ok N (prog T) -> run s c -> Inv N (set_thr s 0 (snd (finish 0 T c v))).
Proof.
  intros Hn Hts Hf Hto Hfib Hp Hr.
  destruct (finish_spec N s 0 T c v Hp Hr) as (Hc & Hp' & Hl & Hh & Hs).
  apply inv_mk; auto. rewrite Hh. exact Hfib.
Qed.

Lemma fst_let_finish {A} (X : list Z * tst) (g : tst -> A) (h : list Z -> list Z) :
  fst (let '(e1, T') := X in (g T', h e1)) = g (snd X).
Proof. destruct X; reflexivity. Qed.

Ltac neq :=
  repeat match goal with
  | H : context [Nat.eqb ?a ?b] |- _ =>
      let E := fresh "E" in destruct (Nat.eqb_spec a b) as [E|E]; [try (is_var a; subst a); try (is_var b; subst b)|]
  | |- context [Nat.eqb ?a ?b] =>
      let E := fresh "E" in destruct (Nat.eqb_spec a b) as [E|E]; [try (is_var a; subst a); try (is_var b; subst b)|]
  end.

(* solve a per-fiber goal from the per-fiber facts of the old state at g
   (and at the named fibers posed before) *)
Lemma wqz_set_wq s f b g : wqz (set_wq s f b) g = if Nat.eqb g f then (if b then 1%Z else 0%Z) else wqz s g.
Proof. unfold wqz, upd; cbn [inwq set_wq]. unfold upd. destruct (Nat.eqb g f); reflexivity. Qed.
Lemma wqz_set_fs s f v g : wqz (set_fs s f v) g = wqz s g. Proof. reflexivity. Qed.
Lemma wqz_set_dq s d l g : wqz (set_dq s d l) g = wqz s g. Proof. reflexivity. Qed.
Lemma wqz_set_from s t d g : wqz (set_from s t d) g = wqz s g. Proof. reflexivity. Qed.
Lemma wqz_set_to s t d g : wqz (set_to s t d) g = wqz s g. Proof. reflexivity. Qed.
Lemma wqz_set_thr s t x g : wqz (set_thr s t x) g = wqz s g. Proof. reflexivity. Qed.

Ltac clr :=
  repeat match goal with
  | H : Inv _ _ |- _ => clear H
  | H : nthr _ = _ |- _ => clear H
  | H : to_store _ = _ |- _ => clear H
  | H : prog_ok _ _ |- _ => clear H
  | H : sfrom _ _ = _ \/ _ |- _ => clear H
  | H : _ -> sto _ _ = _ |- _ => clear H
  | H : sto _ _ = _ |- _ => clear H
  end.
Ltac fibs Hfib g :=
  let H := fresh "Hg" in pose proof (Hfib g) as H; destruct H;
  unfold run, kok, hok in *;
  clr;
  constructor; cbn [cnt fstt set_wq set_fs set_thr set_dq set_from set_to] in *;
  rewrite ?wqz_set_wq, ?wqz_set_fs, ?wqz_set_dq, ?wqz_set_from, ?wqz_set_to, ?wqz_set_thr in *;
  rewrite ?cnt_opt in *; unfold upd in *; neq; cbv iota in *; try lia.

Lemma Fq_push s l : sfrom s 0 = 1 \/ sfrom s 0 = 2 ->
  Fq (set_dq s (3 - sfrom s 0) l) = Fq s /\ Sq (set_dq s (3 - sfrom s 0) l) = l.
Proof. unfold Fq, Sq; cbn [dq sfrom set_dq]. intros [E|E]; rewrite E; cbn; auto. Qed.

Lemma Fq_pop s l : sfrom s 0 = 1 \/ sfrom s 0 = 2 ->
  Fq (set_dq s (sfrom s 0) l) = l /\ Sq (set_dq s (sfrom s 0) l) = Sq s.
Proof. unfold Fq, Sq; cbn [dq sfrom set_dq]. intros [E|E]; rewrite E; cbn; auto. Qed.

Lemma Fq_swap s : sfrom s 0 = 1 \/ sfrom s 0 = 2 ->
  Fq (set_from s 0 (3 - sfrom s 0)) = Sq s /\ Sq (set_from s 0 (3 - sfrom s 0)) = Fq s.
Proof. unfold Fq, Sq; cbn [dq sfrom set_from]. rewrite upd_same. intros [E|E]; rewrite E; cbn; auto. Qed.

Ltac pz Hfib z :=
  pose proof (f_once _ _ _ _ _ _ _ (Hfib z)); pose proof (f_wq _ _ _ _ _ _ _ (Hfib z));
  pose proof (f_wb _ _ _ _ _ _ _ (Hfib z)).
Ltac mk := apply inv_mk; [assumption|assumption|assumption| | | |].
Ltac mkfin := rewrite fst_let_finish; apply inv_finish; [assumption|assumption|assumption| | | |].
Ltac hsimp :=
  unfold held; cbn [pc with_pc cur prog fstt set_fs set_to set_from set_dq set_wq];
  repeat match goal with
  | |- context [Fq (set_fs ?s ?f ?v)] => change (Fq (set_fs s f v)) with (Fq s)
  | |- context [Sq (set_fs ?s ?f ?v)] => change (Sq (set_fs s f v)) with (Sq s)
  | |- context [Fq (set_wq ?s ?f ?v)] => change (Fq (set_wq s f v)) with (Fq s)
  | |- context [Sq (set_wq ?s ?f ?v)] => change (Sq (set_wq s f v)) with (Sq s)
  | |- context [Fq (set_to ?s ?f ?v)] => change (Fq (set_to s f v)) with (Fq s)
  | |- context [Sq (set_to ?s ?f ?v)] => change (Sq (set_to s f v)) with (Sq s)
  end.
Ltac same Hto' Hprog Hfib :=
  cbn [fst]; mk; try (intros _; exact Hto'); try exact Hprog; try (intros g; hsimp; exact (Hfib g)).
Ltac dfin :=
  match goal with |- context [finish ?a ?b ?c ?d] =>
    let EX := fresh "EX" in
    destruct (finish a b c d) as [?e1 ?T1] eqn:EX; cbn [fst];
    match goal with |- Inv _ (set_thr _ _ ?T1) => replace T1 with (snd (finish a b c d)) by (rewrite EX; reflexivity) end
  end.

Theorem step_inv N s : Inv N s -> Inv N (fst (step s 0)).
Proof.
  intros I0. pose proof I0 as [Hn Hts Hfrom Hto Hfib Hprog Hloc].
  unfold fib_ok, T0 in *. unfold step.
  remember (thr s 0) as T eqn:HT.
  unfold lok in Hloc.
  destruct (pc T) eqn:Hpc; unfold held in Hfib; rewrite Hpc in Hfib;
    try (assert (Hto' : sto s 0 = 3 - sfrom s 0) by (apply Hto; congruence)).
  - (* PSpawnR *)
    destruct Hloc as [Hr Hf].
    destruct (Z.eqb_spec (fstt s f) 0) as [E|E].
    + same Hto' Hprog Hfib. unfold lok; cbn. auto.
    + mkfin; auto.
  - (* PSpawnW *)
    destruct Hloc as (Hr & Hf & Hz). cbn [fst].
    mk.
    + intros _. exact Hto'.
    + intros g. hsimp. pz Hfib f. fibs Hfib g.
    + exact Hprog.
    + unfold lok, run in *; cbn. rewrite upd_same. split; auto.
      destruct Hr as [Hr|Hr]; auto. right. rewrite upd_other; auto. congruence.
  - (* PSched *)
    rewrite Hts, Hto'.
    destruct (Fq_push s (f :: dq s (3 - sfrom s 0)) Hfrom) as [EF ES].
    destruct k; try contradiction.
    + (* KSpawn *)
      destruct Hloc as [Hf2 Hk]. mkfin.
      * exact Hto'.
      * intros g. rewrite EF, ES. change (dq s (3 - sfrom s 0)) with (Sq s).
        pz Hfib f. fibs Hfib g.
      * exact Hprog.
      * exact Hk.
    + (* KRequeue *)
      destruct Hloc as (Hf2 & Hc & Hnf).
      mkfin.
      * exact Hto'.
      * intros g. rewrite EF, ES. change (dq s (3 - sfrom s 0)) with (Sq s).
        rewrite Hc in *. pz Hfib f. pz Hfib nf. fibs Hfib g.
      * exact Hprog.
      * right. exact Hnf.
    + (* KWake *)
      destruct Hloc as [Hf2 Hk]. mkfin.
      * exact Hto'.
      * intros g. rewrite EF, ES. change (dq s (3 - sfrom s 0)) with (Sq s).
        pz Hfib f. fibs Hfib g.
      * exact Hprog.
      * exact Hk.
  - (* PBlockW *)
    destruct Hloc as [Hc H1]. cbn [fst]. mk.
    + intros _. exact Hto'.
    + intros g. hsimp. pz Hfib (cur T). fibs Hfib g.
    + exact Hprog.
    + unfold lok; cbn. rewrite upd_same. auto.
  - (* PYRead *)
    destruct Hloc as [Hc H1]. same Hto' Hprog Hfib.
    unfold lok, kok; cbn. auto.
  - (* PN1 *)
    destruct (dq s (sfrom s 0)) eqn:EF; same Hto' Hprog Hfib.
    + unfold lok; cbn. split; auto.
    + unfold lok; cbn. auto.
  - (* PN2 *)
    same Hto' Hprog Hfib. unfold lok; cbn. tauto.
  - (* PN3 *)
    same Hto' Hprog Hfib. unfold lok; cbn. tauto.
  - (* PN4 *)
    destruct Hloc as (Hk & HF & Htmp & Hsv). subst sv tmp. cbn [fst].
    destruct (Fq_swap s Hfrom) as [EF ES].
    apply inv_mk; try assumption.
    + cbn [sfrom set_from]. rewrite upd_same. lia.
    + intros H. exfalso. eapply H. reflexivity.
    + intros g. rewrite EF, ES. hsimp. fibs Hfib g.
    + unfold lok, kok in *; cbn [pc cur with_pc sto sfrom set_from fstt]. rewrite upd_same. split; auto. lia.
  - (* PN5 *)
    destruct Hloc as (Hk & Hst & Htmp). cbn [fst]. mk.
    + intros _. cbn [sto sfrom set_to]. rewrite upd_same. exact Htmp.
    + intros g. hsimp. exact (Hfib g).
    + exact Hprog.
    + unfold lok; cbn. exact Hk.
  - (* PN6 *)
    destruct (dq s (sfrom s 0)) eqn:EF.
    + unfold next_ret. destruct k; try contradiction.
      * destruct Hloc as (Hc & Hst & H13).
        destruct (Z.eqb_spec st 3) as [E3|E3]; dfin; apply inv_finish; auto.
        -- intros g. hsimp. pz Hfib (cur T). fibs Hfib g.
        -- left; reflexivity.
        -- right; lia.
      * dfin. apply inv_finish; auto. left. exact Hloc.
    + same Hto' Hprog Hfib. unfold lok; cbn. exact Hloc.
  - (* PN7 *)
    destruct (dq s (sfrom s 0)) as [|x rest] eqn:EF.
    + same Hto' Hprog Hfib. unfold lok; cbn. exact Hloc.
    + cbn [fst]. destruct (Fq_pop s rest Hfrom) as [E1 E2]. unfold Fq in Hfib at 1. rewrite EF in Hfib.
      mk.
      * intros _. exact Hto'.
      * intros g. rewrite E1, E2. hsimp. fibs Hfib g.
      * exact Hprog.
      * unfold lok; cbn. split; auto. pose proof (Hfib x) as [_ Hq _ _ _ Hs _]. cbn [cnt] in Hq. rewrite Nat.eqb_refl in Hq. lia.
  - (* PN8 *)
    destruct Hloc as [Hk Hx].
    destruct (Z.eqb_spec (fstt s x) 5) as [E5|E5].
    + same Hto' Hprog Hfib. unfold lok; cbn. auto.
    + pose proof (Hfib x) as [_ _ _ _ _ _ Hrx]. destruct x as [|x']; [lia|].
      unfold next_ret. destruct k; try contradiction; same Hto' Hprog Hfib;
        unfold lok, kok, hok in *; cbn; intuition lia.
  - (* PN9 *)
    destruct Hloc as [Hk Hx]. cbn [fst]. rewrite Hto'.
    destruct (Fq_push s (x :: dq s (3 - sfrom s 0)) Hfrom) as [EF ES].
    mk.
    + intros _. exact Hto'.
    + intros g. rewrite EF, ES. change (dq s (3 - sfrom s 0)) with (Sq s). hsimp.
      pz Hfib x. fibs Hfib g.
    + exact Hprog.
    + unfold lok; cbn. exact Hk.
  - (* PY2 *)
    destruct Hloc as (Hc & H13 & Hnf).
    destruct (Z.eqb_spec (fstt s (cur T)) 1); same Hto' Hprog Hfib.
    + unfold lok; cbn. auto.
    + unfold lok; cbn. split; auto. split; auto. left. split; auto. lia.
  - (* PY3 *)
    destruct Hloc as (Hc & H1 & Hnf). cbn [fst]. mk; try (intros _; exact Hto'); try exact Hprog.
    + intros g. hsimp. pz Hfib (cur T). pz Hfib nf. fibs Hfib g.
    + unfold lok, hok in *; cbn. rewrite upd_same. split; auto. split; [|right; auto].
      unfold upd. destruct (Nat.eqb nf (cur T)); auto.
  - (* PY4 *)
    destruct Hloc as (Hc & Hnf & Hts0).
    assert (Hne : cur T <> nf).
    { intros E. pose proof (Hfib nf) as [H1 _ _ _ _ _ _]. cbn [cnt] in H1.
      rewrite cnt_opt, <- E, !Nat.eqb_refl in H1. destruct (Nat.eqb_spec (cur T) 0); lia. }
    destruct ts as [|ts'].
    + destruct Hts0 as [[_ H3]|[Habs _]]; [|congruence].
      mkfin.
      * exact Hto'.
      * intros g. hsimp. pz Hfib (cur T). pz Hfib nf. fibs Hfib g.
      * exact Hprog.
      * right. cbn. apply upd_same.
    + destruct Hts0 as [[Habs _]|[Hts1 H2]]; [discriminate|].
      cbn [fst]. mk; try (intros _; exact Hto'); try exact Hprog.
      * intros g. hsimp. pz Hfib (cur T). pz Hfib nf. fibs Hfib g.
      * unfold lok; cbn. rewrite upd_same, Hts1. rewrite upd_other by auto. auto.
  - (* PL1 *)
    unfold lb_continue. rewrite Hn. rewrite lb_scan_1thread.
    match goal with |- context [lb_ret ?s1 _ _ _] => set (s1' := s1) end.
    destruct Hloc as [[-> Hc]|[-> Hr]]; unfold lb_ret.
    + cbn [fst]. apply inv_mk; auto;
        try (intros g; hsimp; rewrite Hc; exact (Hfib g)); try (unfold lok; cbn; exact Hc).
    + dfin. apply inv_finish; auto.
  - (* PL2 *) contradiction.
  - (* PI1 *)
    destruct Hloc as [Hc Hnf]. dfin.
    apply inv_finish; auto.
    + intros g. hsimp. rewrite Hc in *. pz Hfib nf. fibs Hfib g.
    + right. cbn. apply upd_same.
  - (* PW1 *)
    destruct (Z.eqb_spec (fstt s f) 3) as [E3|E3]; destruct (inwq s f) eqn:Ew; cbn [andb];
      try (mkfin; auto; fail).
    assert (Hw : wqz s f = 1%Z) by (unfold wqz; rewrite Ew; reflexivity).
    cbn [fst]. mk.
    + intros _. exact Hto'.
    + intros g. hsimp. pz Hfib f. pz Hfib (cur T). fibs Hfib g.
    + exact Hprog.
    + unfold lok; cbn. auto.
  - (* PW2 *)
    destruct Hloc as [Hr H3]. cbn [fst]. mk; try (intros _; exact Hto'); try exact Hprog.
    + intros g. hsimp. pz Hfib f. pz Hfib (cur T). fibs Hfib g.
    + unfold lok, run in *; cbn. rewrite upd_same. split; auto.
      destruct Hr as [Hr|Hr]; auto. right. rewrite upd_other; auto. congruence.
  - (* PP1 *)
    destruct (Z.eqb_spec (fstt s f) 3) as [E3|E3]; destruct (inwq s f) eqn:Ew; cbn [andb];
      try (mkfin; auto; fail).
    assert (Hw : wqz s f = 1%Z) by (unfold wqz; rewrite Ew; reflexivity).
    cbn [fst]. mk.
    + intros _. exact Hto'.
    + intros g. hsimp. pz Hfib f. pz Hfib (cur T). fibs Hfib g.
    + exact Hprog.
    + unfold lok; cbn. auto.
  - (* PP2 *)
    destruct Hloc as [Hr H3]. cbn [fst]. mk; try (intros _; exact Hto'); try exact Hprog.
    + intros g. hsimp. pz Hfib f. pz Hfib (cur T). fibs Hfib g.
    + unfold lok, run in *; cbn. rewrite upd_same. split; auto.
      destruct Hr as [Hr|Hr]; auto. right. rewrite upd_other; auto. congruence.
  - (* PF1 *)
    destruct (Z.eqb_spec (fstt s f) 5) as [E5|E5].
    + same Hto' Hprog Hfib. unfold lok; cbn. auto.
    + mkfin; auto.
  - (* PF2 *)
    destruct Hloc as [Hr H5]. dfin. apply inv_finish; auto.
    + intros g. hsimp. pz Hfib f. pz Hfib (cur T). fibs Hfib g.
    + unfold run in *. destruct Hr as [Hr|Hr]; auto. right. cbn. rewrite upd_other; auto. congruence.
  - (* Fin *)
    exact I0.
Qed.

Lemma init_inv N prog : prog_ok N prog -> Inv N (fst (init true [prog])).
Proof.
  intros Hp.
  assert (Hr : run (fst (init true [prog])) 0) by (left; reflexivity).
  destruct (start_spec N (fst (init true [prog])) 0 prog 0 1 Hp Hr) as (Hc & Hp' & Hl & Hh & Hs).
  constructor; unfold fib_ok, T0; cbn [init fst nthr to_store sfrom sto fstt dq thr length map combine seq nth snd]; auto.
  intros f. unfold Fq, Sq; cbn [dq init fst]. rewrite Hh. constructor; cbn; try lia.
Qed.

Lemma ready_thread0 N s t : Inv N s -> mstatus M s t = SReady -> t = 0.
Proof.
  intros I H. cbn in H. unfold status_of in H. rewrite (i_n N s I) in H.
  destruct (Nat.ltb_spec t 1); [lia|discriminate].
Qed.

Theorem reachable_inv N prog s :
  prog_ok N prog -> reachable M (fst (init true [prog])) s -> Inv N s.
Proof.
  intros Hp R. induction R as [|s t R IH Hst].
  - apply init_inv; exact Hp.
  - rewrite (ready_thread0 N s t IH Hst). apply step_inv. exact IH.
Qed.

(* every held fiber exists (state <> 0) *)
Lemma held_exists N s f : Inv N s -> In f (held (T0 s)) -> fstt s f <> 0%Z.
Proof.
  intros I Hin. pose proof (i_loc N s I) as L. unfold lok, held, run, kok, hok in *.
  destruct (pc (T0 s)); try contradiction;
    try (destruct k; try contradiction; try (exfalso; tauto));
    destruct (cur (T0 s)) eqn:Ec; cbn [opt In] in Hin;
    intuition (subst; try lia; try congruence).
Qed.

Lemma wqz_true s f : inwq s f = true <-> wqz s f = 1%Z.
Proof. unfold wqz. destruct (inwq s f); split; intros; auto; discriminate. Qed.
Lemma wqz_false s f : inwq s f = false <-> wqz s f = 0%Z.
Proof. unfold wqz. destruct (inwq s f); split; intros; auto; discriminate. Qed.

Lemma places_range N s f : Inv N s -> In f (places s) -> fstt s f <> 0%Z /\ 1 <= f <= N.
Proof.
  intros I Hin. pose proof (i_fib N s I f) as [_ Hq _ _ _ _ Hr].
  assert (H0 : fstt s f <> 0%Z).
  { unfold places in Hin. apply in_app_or in Hin. destruct Hin as [Hin|Hin].
    - eapply held_exists; eauto.
    - rewrite <- cnt_app in Hq. apply cnt_In in Hin. specialize (Hq Hin). lia. }
  auto.
Qed.

Lemma places_NoDup N s : Inv N s -> NoDup (places s).
Proof.
  intros I. apply cnt_NoDup. intros f. pose proof (i_fib N s I f) as [H _ _ _ _ _ _].
  unfold places. rewrite !cnt_app. lia.
Qed.

Lemma places_length N s : Inv N s -> length (held (T0 s)) + length (Fq s) + length (Sq s) <= N.
Proof.
  intros I. pose proof (NoDup_range_length (places s) N (places_NoDup N s I)) as H.
  unfold places in H at 2. rewrite !app_length in H. rewrite Nat.add_assoc in H. apply H.
  intros f Hf. apply (places_range N s f I Hf).
Qed.

(* a fiber that next() has handed out and that is not yet RUNNING *)
Definition handed (s : st) (nf : nat) : Prop :=
  match pc (T0 s) with
  | PY2 x | PY3 x | PY4 x _ | PI1 x => x = nf
  | _ => False
  end.

(* the conservation statement (C02, scheduler half; used by C10) *)
Lemma conservation_of_inv N s : Inv N s ->
  NoDup (places s) /\
  (forall f, In f (Fq s ++ Sq s) ->
     fstt s f = 2%Z \/ fstt s f = 5%Z \/ (fstt s f = 3%Z /\ inwq s f = false)) /\
  (forall f, fstt s f = 1%Z \/ fstt s f = 2%Z \/ fstt s f = 5%Z \/ (fstt s f = 3%Z /\ inwq s f = false) ->
     In f (places s)) /\
  (forall f, inwq s f = true -> fstt s f = 3%Z /\ ~ In f (places s)) /\
  (forall nf, handed s nf -> fstt s nf = 2%Z \/ fstt s nf = 3%Z) /\
  (forall f, In f (places s) -> fstt s f <> 0%Z /\ 1 <= f <= N) /\
  (forall f, fstt s f = 0 \/ fstt s f = 1 \/ fstt s f = 2 \/ fstt s f = 3 \/ fstt s f = 5)%Z /\
  length (places s) <= N /\
  (sfrom s 0 = 1 \/ sfrom s 0 = 2) /\
  ((forall k tmp, pc (thr s 0) <> PN5 k tmp) -> sto s 0 = 3 - sfrom s 0).
Proof.
  intros I. split; [apply (places_NoDup N s I)|].
  split. { intros f Hf. pose proof (i_fib N s I f) as [Ho Hq Hp Hw Hb Hs Hr].
           rewrite <- cnt_app in Hq. apply cnt_In in Hf. specialize (Hq Hf). rewrite cnt_app in Hf.
           destruct (inwq s f) eqn:E; [apply wqz_true in E; lia|]. lia. }
  split. { intros f Hf. apply cnt_In. unfold places. rewrite !cnt_app.
           pose proof (i_fib N s I f) as [Ho Hq Hp Hw Hb Hs Hr].
           destruct (inwq s f) eqn:E; [apply wqz_true in E|apply wqz_false in E].
           - destruct (Hw E) as [H3 _]. destruct Hf as [Hf|[Hf|[Hf|[_ Hf]]]]; try lia; try discriminate.
           - assert (1 <= fstt s f)%Z by lia. specialize (Hp H E). lia. }
  split. { intros f Hf. apply wqz_true in Hf. pose proof (i_fib N s I f) as [Ho Hq Hp Hw Hb Hs Hr].
           destruct (Hw Hf) as [H3 H0]. split; auto. intros Hin. apply cnt_In in Hin.
           unfold places in Hin. rewrite !cnt_app in Hin. lia. }
  split. { intros nf Hh. pose proof (i_loc N s I) as L. unfold handed, lok, hok in *.
           destruct (pc (T0 s)); try contradiction; subst; tauto. }
  split. { intros f Hf. apply (places_range N s f I Hf). }
  split. { intros f. pose proof (f_state _ _ _ _ _ _ _ (i_fib N s I f)). lia. }
  split. { pose proof (places_length N s I). unfold places. rewrite !app_length. lia. }
  split. { apply (i_from N s I). }
  apply (i_to N s I).
Qed.

(* ------------------------------------------------------------------ *)
(* Fairness: the machine instrumented with
     byp g  = number of times fiber_scheduler_next handed out ANOTHER fiber
              while g was queued and not SAVING, since g was last handed out
              (byp g is 0 whenever g is SAVING or not in the deques, see
              g_zero, so this counts "since g became runnable": since it was
              scheduled READY, or since the flip if it was scheduled SAVING);
     hand   = the log of the fibers handed out by next, oldest first.
   A hand-out is the PN8 step that does not take the SAVING branch; the
   SAVING branch (PN8 -> PN9: re-queue on store_to) changes no counter. *)
Record ist := { base : st; byp : nat -> nat; hand : list nat }.

(* g sits in one of the two deques of scheduler t and is not SAVING: next()
   may hand it out *)
Definition elig (s : st) (t g : nat) : bool :=
  negb (Z.eqb (fstt s g) 5) && existsb (Nat.eqb g) (dq s (2 * t + 1) ++ dq s (2 * t + 2)).

Definition lstep (x : ist) (t : nat) : ist :=
  let s := base x in
  let s' := fst (step s t) in
  match pc (thr s t) with
  | PN8 _ y =>
      if Z.eqb (fstt s y) 5 then {| base := s'; byp := byp x; hand := hand x |}
      else {| base := s';
              byp := fun g => if Nat.eqb g y then 0
                              else if elig s t g then S (byp x g) else byp x g;
              hand := hand x ++ [y] |}
  | _ => {| base := s'; byp := byp x; hand := hand x |}
  end.

Lemma lstep_erase x t : base (lstep x t) = fst (step (base x) t).
Proof.
  unfold lstep. destruct (pc (thr (base x) t)); try reflexivity.
  destruct (Z.eqb (fstt (base x) x0) 5); reflexivity.
Qed.

Definition iinit (fixed : bool) (prog : list op) : ist :=
  {| base := fst (init fixed [prog]); byp := fun _ => 0; hand := [] |}.

Inductive ireach (fixed : bool) (prog : list op) : ist -> Prop :=
| ir_init : ireach fixed prog (iinit fixed prog)
| ir_step x t : ireach fixed prog x -> mstatus M (base x) t = SReady -> ireach fixed prog (lstep x t).

Lemma ireach_base fixed prog x :
  ireach fixed prog x -> reachable M (fst (init fixed [prog])) (base x).
Proof.
  induction 1 as [|x t R IH Hst]; [constructor|].
  rewrite lstep_erase. apply (reach_step M _ (base x) t IH Hst).
Qed.

Lemma reachable_ireach fixed prog s :
  reachable M (fst (init fixed [prog])) s -> exists x, ireach fixed prog x /\ base x = s.
Proof.
  induction 1 as [|s t R [x [Hx Hb]] Hst].
  - exists (iinit fixed prog). split; [constructor|reflexivity].
  - exists (lstep x t). split.
    + constructor; auto. rewrite Hb. exact Hst.
    + rewrite lstep_erase, Hb. reflexivity.
Qed.

(* executing a schedule on the instrumented machine (ungranted picks are no-ops) *)
Definition igrant (x : ist) (t : nat) : ist :=
  match mstatus M (base x) t with SReady => lstep x t | _ => x end.
Definition irun (x : ist) (sch : list nat) : ist := fold_left igrant sch x.

Lemma ireach_irun fixed prog sch : forall x, ireach fixed prog x -> ireach fixed prog (irun x sch).
Proof.
  induction sch as [|t r IH]; intros x R; cbn; auto.
  apply IH. unfold igrant. destruct (mstatus M (base x) t) eqn:E; auto. constructor; auto.
Qed.

Lemma irun_erase sch : forall x, base (irun x sch) = fst (run_sched M (base x) sch).
Proof.
  induction sch as [|t r IH]; intros x; cbn [irun fold_left run_sched]; auto.
  fold (irun (igrant x t) r). rewrite IH. unfold igrant, grant.
  destruct (mstatus M (base x) t) eqn:E.
  - cbn. destruct (run_sched M (base x) r); reflexivity.
  - rewrite lstep_erase. change (mstep M (base x) t) with (step (base x) t).
    destruct (step (base x) t) as [s1 e1]. cbn [fst].
    destruct (run_sched M s1 r); reflexivity.
  - cbn. destruct (run_sched M (base x) r); reflexivity.
Qed.

(* ---- the bypass invariant ---- *)
Definition pendT (T : tst) : nat := match pc T with PN8 _ _ => 1 | _ => 0 end.
Definition popT (T : tst) : option nat := match pc T with PN8 _ x => Some x | _ => None end.

(* fs = fiber states, F / S = the deques, pd = 1 iff a fiber has been popped and
   its state is about to be examined (pp = that fiber), b = the bypass counters *)
Record GI (N : nat) (fs : nat -> Z) (F S : list nat) (pd : nat) (pp : option nat) (b : nat -> nat) : Prop := {
  g_zero : forall g, fs g = 5%Z \/ (~ In g F /\ ~ In g S /\ pp <> Some g) -> b g = 0;
  g_S : forall g, In g S -> b g + length F + pd + 1 <= N;
  g_F : forall p g, nth_error F p = Some g -> b g + p + pd + 2 <= 2 * N;
  g_all : forall g, b g <= 2 * (N - 1)
}.

Record GInv (N : nat) (x : ist) : Prop := {
  g_inv : Inv N (base x);
  g_gi : GI N (fstt (base x)) (Fq (base x)) (Sq (base x)) (pendT (T0 (base x))) (popT (T0 (base x))) (byp x)
}.

Lemma GI_frame N fs fs' F S pd pp b :
  GI N fs F S pd pp b -> (forall g, fs' g = 5%Z -> fs g = 5%Z \/ b g = 0) -> GI N fs' F S pd pp b.
Proof.
  intros [Hz HS HF Ha] H. constructor; auto.
  intros g [Hg|Hg]; auto. destruct (H g Hg); auto.
Qed.

Lemma startpc_g T : startpc (pc T) -> pendT T = 0 /\ popT T = None.
Proof. unfold pendT, popT. destruct (pc T); cbn; tauto. Qed.

Lemma finish_g t T c v : pendT (snd (finish t T c v)) = 0 /\ popT (snd (finish t T c v)) = None.
Proof.
  apply startpc_g.
  unfold finish.
  assert (G : forall p k, startpc (pc (snd (start t c p k)))).
  { induction p as [|o r IH]; intros k; cbn [start]; [exact I|].
    assert (Hrec : forall e0 : list Z, startpc (pc (snd (let '(e, T) := start t c r (S k) in (e0 ++ e, T))))).
    { intros e0. specialize (IH (S k)). destruct (start t c r (S k)); exact IH. }
    destruct o; try (destruct (bad_id f)); try (destruct (Nat.eqb c 0)); try apply Hrec; exact I. }
  specialize (G (prog T) (S (opi T))). destruct (start t c (prog T) (S (opi T))). exact G.
Qed.

Lemma T0_set_thr s T' : T0 (set_thr s 0 T') = T'.
Proof. reflexivity. Qed.
Lemma Fq_set_thr s T' : Fq (set_thr s 0 T') = Fq s. Proof. reflexivity. Qed.
Lemma Sq_set_thr s T' : Sq (set_thr s 0 T') = Sq s. Proof. reflexivity. Qed.

(* schedule() / the SAVING re-queue: push on the batch being filled *)
Lemma GI_push N fs F S b f :
  GI N fs F S 0 None b -> b f = 0 -> length F + 1 <= N -> GI N fs F (f :: S) 0 None b.
Proof.
  intros [Hz HS HF Ha] H0 Hl. constructor; auto.
  - intros g [Hg|(A & B & C)]; apply Hz; auto. right. repeat split; auto. intros Hin; apply B; right; exact Hin.
  - intros g [<-|Hg]; [lia|auto].
Qed.

(* next(): the swap, done only when the drained batch is empty *)
Lemma GI_swap N fs S b :
  GI N fs [] S 0 None b -> length S <= N -> GI N fs S [] 0 None b.
Proof.
  intros [Hz HS HF Ha] Hl. constructor; auto.
  - intros g [Hg|(A & B & C)]; apply Hz; auto.
  - intros g [].
  - intros p g Hp. assert (Hin : In g S) by (eapply nth_error_In; eauto).
    assert (p < length S) by (apply nth_error_Some; congruence).
    specialize (HS g Hin). cbn in HS. lia.
Qed.

(* next(): pop_bottom *)
Lemma GI_pop N fs y F S b : GI N fs (y :: F) S 0 None b -> GI N fs F S 1 (Some y) b.
Proof.
  intros [Hz HS HF Ha]. constructor; auto.
  - intros g [Hg|(A & B & C)]; apply Hz; auto. right. repeat split; auto; try discriminate.
    intros [E|Hin]; [subst; congruence|auto].
  - intros g Hg. specialize (HS g Hg). cbn [length] in HS. lia.
  - intros p g Hp. specialize (HF (Datatypes.S p) g Hp). lia.
Qed.

(* next(): the popped fiber is SAVING: no hand-out *)
Lemma GI_unpop N fs y F S b : GI N fs F S 1 (Some y) b -> fs y = 5%Z -> GI N fs F S 0 None b.
Proof.
  intros [Hz HS HF Ha] H5. constructor; auto.
  - intros g [Hg|(A & B & C)]; apply Hz; auto.
    destruct (Nat.eq_dec g y) as [->|Hne]; [left; exact H5|].
    right. repeat split; auto. congruence.
  - intros g Hg. specialize (HS g Hg). lia.
  - intros p g Hp. specialize (HF p g Hp). lia.
Qed.

(* next() returns y: every other fiber that could have been returned is
   bypassed once more *)
Lemma GI_hand N fs F S b y (e : nat -> bool) :
  GI N fs F S 1 (Some y) b ->
  (forall g, e g = true -> fs g <> 5%Z /\ (In g F \/ In g S)) ->
  GI N fs F S 0 None (fun g => if Nat.eqb g y then 0 else if e g then Datatypes.S (b g) else b g).
Proof.
  intros [Hz HS HF Ha] Hq. constructor.
  - intros g Hg. destruct (Nat.eqb_spec g y); auto. destruct (e g) eqn:Eg.
    + destruct (Hq g Eg) as [A B]. exfalso. destruct Hg as [Hg|(C & D & _)]; tauto.
    + apply Hz. destruct Hg as [Hg|(C & D & _)]; auto. right. repeat split; auto. congruence.
  - intros g Hg. specialize (HS g Hg). destruct (Nat.eqb g y); [lia|]. destruct (e g); lia.
  - intros p g Hp. specialize (HF p g Hp). destruct (Nat.eqb g y); [lia|]. destruct (e g); lia.
  - intros g. destruct (Nat.eqb_spec g y); [lia|]. destruct (e g) eqn:Eg; auto.
    destruct (Hq g Eg) as [_ [Hin|Hin]].
    + apply In_nth_error in Hin. destruct Hin as [p Hp]. specialize (HF p g Hp). lia.
    + specialize (HS g Hin). lia.
Qed.

Lemma held_not_queued N s f : Inv N s -> In f (held (T0 s)) -> ~ In f (Fq s) /\ ~ In f (Sq s).
Proof.
  intros I Hin. pose proof (f_once _ _ _ _ _ _ _ (i_fib N s I f)) as H. apply cnt_In in Hin.
  split; intros Hq; apply cnt_In in Hq; lia.
Qed.

Lemma queued_12 s g : sfrom s 0 = 1 \/ sfrom s 0 = 2 ->
  (In g (dq s 1 ++ dq s 2) <-> In g (Fq s ++ Sq s)).
Proof. unfold Fq, Sq. intros [E|E]; rewrite E; cbn [Nat.sub]; rewrite !in_app_iff; tauto. Qed.

Lemma elig_spec s g : sfrom s 0 = 1 \/ sfrom s 0 = 2 ->
  (elig s 0 g = true <-> fstt s g <> 5%Z /\ In g (Fq s ++ Sq s)).
Proof.
  intros Hf. unfold elig. cbn [Nat.mul Nat.add]. rewrite andb_true_iff, negb_true_iff, Z.eqb_neq.
  rewrite <- (queued_12 s g Hf). rewrite existsb_exists. split; intros [A B]; split; auto.
  - destruct B as (y & Hy & E). apply Nat.eqb_eq in E. subst. exact Hy.
  - exists g. split; auto. apply Nat.eqb_refl.
Qed.

Ltac fin_g :=
  match goal with |- context [finish ?a ?b ?c ?d] =>
    let A := fresh "A" in let B := fresh "B" in let EX := fresh "EX" in
    pose proof (finish_g a b c d) as [A B];
    destruct (finish a b c d) as [?e1 ?T1] eqn:EX; cbn [snd] in A, B;
    cbn [fst]; rewrite T0_set_thr, ?Fq_set_thr, ?Sq_set_thr; rewrite A, B
  end.
Ltac gsame G := cbn [fst]; rewrite T0_set_thr; exact G.

Theorem gstep N x : GInv N x -> GInv N (lstep x 0).
Proof.
  intros [I0 G]. pose proof (step_inv N _ I0) as I'.
  cut (GI N (fstt (base (lstep x 0))) (Fq (base (lstep x 0))) (Sq (base (lstep x 0)))
          (pendT (T0 (base (lstep x 0)))) (popT (T0 (base (lstep x 0)))) (byp (lstep x 0))).
  { intros A. constructor; auto. rewrite lstep_erase. exact I'. }
  pose proof (places_length N _ I0) as Hlen.
  pose proof (fun f => held_not_queued N _ f I0) as Hnq.
  pose proof I0 as [Hn Hts Hfrom Hto Hfib Hprog Hloc].
  unfold lstep. set (s := base x) in *. unfold step.
  unfold fib_ok in Hfib. unfold T0 in Hlen, Hnq, Hfib, Hprog, Hloc, Hto, G.
  remember (thr s 0) as T eqn:HT.
  unfold lok in Hloc. unfold pendT, popT in G. unfold held in Hlen, Hnq, Hfib.
  destruct (pc T) eqn:Hpc; cbn [base byp];
    try (assert (Hto' : sto s 0 = 3 - sfrom s 0) by (apply Hto; congruence)).
  - (* PSpawnR *)
    destruct (Z.eqb_spec (fstt s f) 0) as [E|E]; [gsame G|fin_g; exact G].
  - (* PSpawnW *)
    cbn [fst]. rewrite T0_set_thr.
    eapply GI_frame; [exact G|]. intros g Hg. cbn [fstt set_thr set_fs] in Hg. unfold upd in Hg.
    destruct (Nat.eqb_spec g f); [discriminate|auto].
  - (* PSched *)
    rewrite Hts, Hto'.
    destruct (Fq_push s (f :: dq s (3 - sfrom s 0)) Hfrom) as [EF ES].
    assert (Hinf : In f (match k with KRequeue nf => nf :: opt (cur T) | _ => f :: opt (cur T) end)).
    { destruct k; try (left; reflexivity). destruct Hloc as (H2 & Hc & _). rewrite Hc.
      pose proof (f_range _ _ _ _ _ _ _ (Hfib f)) as Hr. destruct f; [lia|]. right; left; reflexivity. }
    destruct (Hnq f Hinf) as [HnF HnS].
    assert (Hb0 : byp x f = 0) by (apply (g_zero _ _ _ _ _ _ _ G); right; repeat split; auto; discriminate).
    assert (Hl1 : length (Fq s) + 1 <= N).
    { destruct k; cbn [length] in Hlen; lia. }
    destruct k; try contradiction; fin_g; rewrite EF, ES;
      apply GI_push; auto; exact G.
  - (* PBlockW *)
    cbn [fst]. rewrite T0_set_thr.
    eapply GI_frame; [exact G|]. intros g Hg. cbn [fstt set_thr set_fs] in Hg. unfold upd in Hg.
    destruct (Nat.eqb_spec g (cur T)); [discriminate|auto].
  - (* PYRead *) gsame G.
  - (* PN1 *) destruct (dq s (sfrom s 0)); gsame G.
  - (* PN2 *) gsame G.
  - (* PN3 *) gsame G.
  - (* PN4 *)
    destruct Hloc as (Hk & HF & Htmp & Hsv). subst sv tmp. cbn [fst].
    destruct (Fq_swap s Hfrom) as [EF ES].
    rewrite T0_set_thr, Fq_set_thr, Sq_set_thr, EF, ES.
    rewrite HF in *. apply GI_swap; [exact G|]. cbn [length] in Hlen. lia.
  - (* PN5 *) gsame G.
  - (* PN6 *)
    destruct (dq s (sfrom s 0)) eqn:EF.
    + unfold next_ret. destruct k; try contradiction; try destruct (Z.eqb st 3); fin_g; exact G.
    + gsame G.
  - (* PN7 *)
    destruct (dq s (sfrom s 0)) as [|y rest] eqn:EF.
    + gsame G.
    + cbn [fst]. destruct (Fq_pop s rest Hfrom) as [E1 E2].
      rewrite T0_set_thr, Fq_set_thr, Sq_set_thr, E1, E2.
      unfold Fq in G at 1. rewrite EF in G. apply (GI_pop _ _ _ _ _ _ G).
  - (* PN8 *)
    destruct Hloc as [Hk Hx].
    destruct (Z.eqb_spec (fstt s x0) 5) as [E5|E5]; cbn [base byp].
    + cbn [fst]. rewrite T0_set_thr. apply (GI_unpop _ _ _ _ _ _ G E5).
    + pose proof (f_range _ _ _ _ _ _ _ (Hfib x0)) as Hrx. destruct x0 as [|y']; [lia|].
      assert (HG : GI N (fstt s) (Fq s) (Sq s) 0 None
                     (fun g => if Nat.eqb g (S y') then 0 else if elig s 0 g then S (byp x g) else byp x g)).
      { apply GI_hand; [exact G|]. intros g Hg. apply (elig_spec s g Hfrom) in Hg.
        destruct Hg as [A B]. split; auto. apply in_app_or; exact B. }
      unfold next_ret. destruct k; try contradiction; cbn [fst]; rewrite T0_set_thr; exact HG.
  - (* PN9 *)
    destruct Hloc as [Hk Hx]. cbn [fst]. rewrite Hto'.
    destruct (Fq_push s (x0 :: dq s (3 - sfrom s 0)) Hfrom) as [EF ES].
    rewrite T0_set_thr, Fq_set_thr, Sq_set_thr, EF, ES.
    apply GI_push; [exact G| |cbn [length] in Hlen; lia].
    apply (g_zero _ _ _ _ _ _ _ G). left; exact Hx.
  - (* PY2 *)
    destruct (Z.eqb_spec (fstt s (cur T)) 1); gsame G.
  - (* PY3 *)
    cbn [fst]. rewrite T0_set_thr.
    eapply GI_frame; [exact G|]. intros g Hg. cbn [fstt set_thr set_fs] in Hg. unfold upd in Hg.
    destruct (Nat.eqb_spec g (cur T)); [discriminate|auto].
  - (* PY4 *)
    assert (HG : GI N (upd (fstt s) nf 1%Z) (Fq s) (Sq s) 0 None (byp x)).
    { eapply GI_frame; [exact G|]. intros g Hg. unfold upd in Hg.
      destruct (Nat.eqb_spec g nf); [discriminate|auto]. }
    destruct ts as [|ts'].
    + fin_g. exact HG.
    + cbn [fst]. rewrite T0_set_thr. exact HG.
  - (* PL1 *)
    unfold lb_continue. rewrite Hn. rewrite lb_scan_1thread.
    destruct Hloc as [[-> Hc]|[-> Hr]]; unfold lb_ret.
    + gsame G.
    + fin_g. exact G.
  - (* PL2 *) contradiction.
  - (* PI1 *)
    fin_g.
    eapply GI_frame; [exact G|]. intros g Hg. cbn [fstt set_thr set_fs] in Hg. unfold upd in Hg.
    destruct (Nat.eqb_spec g nf); [discriminate|auto].
  - (* PW1 *)
    destruct (Z.eqb (fstt s f) 3 && inwq s f); [gsame G|fin_g; exact G].
  - (* PW2 *)
    cbn [fst]. rewrite T0_set_thr.
    eapply GI_frame; [exact G|]. intros g Hg. cbn [fstt set_thr set_fs] in Hg. unfold upd in Hg.
    destruct (Nat.eqb_spec g f); [discriminate|auto].
  - (* PP1 *)
    destruct (Z.eqb (fstt s f) 3 && inwq s f); [gsame G|fin_g; exact G].
  - (* PP2 *)
    destruct (Hnq f (or_introl eq_refl)) as [HnF HnS].
    cbn [fst]. rewrite T0_set_thr.
    eapply GI_frame; [exact G|]. intros g Hg. cbn [fstt set_thr set_fs] in Hg. unfold upd in Hg.
    destruct (Nat.eqb_spec g f); [subst g|auto]. right.
    apply (g_zero _ _ _ _ _ _ _ G). right. repeat split; auto. discriminate.
  - (* PF1 *)
    destruct (Z.eqb_spec (fstt s f) 5); [gsame G|fin_g; exact G].
  - (* PF2 *)
    fin_g.
    eapply GI_frame; [exact G|]. intros g Hg. cbn [fstt set_thr set_fs] in Hg. unfold upd in Hg.
    destruct (Nat.eqb_spec g f); [discriminate|auto].
  - (* Fin *)
    cbn [fst]. unfold pendT, popT, T0. fold s. rewrite <- HT, Hpc. exact G.
Qed.

Lemma ginit N prog : prog_ok N prog -> GInv N (iinit true prog).
Proof.
  intros Hp. pose proof (init_inv N prog Hp) as I0.
  assert (Hr : run (fst (init true [prog])) 0) by (left; reflexivity).
  destruct (start_spec N (fst (init true [prog])) 0 prog 0 1 Hp Hr) as (_ & _ & _ & _ & Hs).
  destruct (startpc_g _ Hs) as [A B].
  constructor; cbn [base byp iinit]; auto.
  change (T0 (fst (init true [prog]))) with (snd (start 0 0 prog 1)). rewrite A, B.
  constructor; auto; try lia.
  - intros g [].
  - intros [|p] g H; discriminate.
Qed.

Theorem ireach_ginv N prog x : prog_ok N prog -> ireach true prog x -> GInv N x.
Proof.
  intros Hp R. induction R as [|x t R IH Hst].
  - apply ginit; exact Hp.
  - rewrite (ready_thread0 N (base x) t (g_inv N x IH) Hst). apply gstep. exact IH.
Qed.

(* C10: the bypass bound *)
Lemma bypass_bound N prog x g :
  prog_ok N prog -> ireach true prog x -> byp x g <= 2 * (N - 1).
Proof. intros Hp R. apply (g_all _ _ _ _ _ _ _ (g_gi N x (ireach_ginv N prog x Hp R))). Qed.

(* sharper bounds by position (the invariant itself) *)
Lemma bypass_bound_by_position N prog x :
  prog_ok N prog -> ireach true prog x ->
  (forall g, fstt (base x) g = 5%Z \/
             (~ In g (Fq (base x) ++ Sq (base x)) /\ forall k, pc (thr (base x) 0) <> PN8 k g) ->
             byp x g = 0) /\
  (forall g, In g (Sq (base x)) -> byp x g + length (Fq (base x)) + 1 <= N) /\
  (forall p g, nth_error (Fq (base x)) p = Some g -> byp x g + p + 2 <= 2 * N).
Proof.
  intros Hp R. destruct (g_gi N x (ireach_ginv N prog x Hp R)) as [Hz HS HF _].
  split; [|split].
  - intros g [Hg|[Hg Hk]]; apply Hz; auto. right. rewrite in_app_iff in Hg.
    repeat split; try tauto. unfold popT, T0. destruct (pc (thr (base x) 0)) eqn:E; try discriminate.
    intros E1. inversion E1; subst. eapply Hk; reflexivity.
  - intros g Hg. specialize (HS g Hg). lia.
  - intros p g Hg. specialize (HF p g Hg). lia.
Qed.

(* ------------------------------------------------------------------ *)
(* progress of a runnable fiber, without liveness: count the hand-outs   *)
Definition queued (s : st) (g : nat) : Prop := In g (Fq s ++ Sq s).
(* g can be handed out: not SAVING, and in the deques or just popped *)
Definition pendingR (x : ist) (g : nat) : Prop :=
  fstt (base x) g <> 5%Z /\ (queued (base x) g \/ exists k, pc (T0 (base x)) = PN8 k g).

(* a queued fiber stays queued until next() pops it *)
Lemma queue_mono N s g : Inv N s -> queued s g ->
  queued (fst (step s 0)) g \/ exists k, pc (T0 (fst (step s 0))) = PN8 k g.
Proof.
  intros I0 H. pose proof I0 as [Hn Hts Hfrom Hto Hfib Hprog Hloc].
  unfold queued in *. unfold step. unfold T0 in Hloc, Hto. remember (thr s 0) as T eqn:HT.
  unfold lok in Hloc.
  destruct (pc T) eqn:Hpc; try contradiction;
    try (assert (Hto' : sto s 0 = 3 - sfrom s 0) by (apply Hto; congruence)).
  all: try (left; repeat match goal with |- context [match ?b with _ => _ end] => destruct b end; exact H).
  - (* PSched *)
    rewrite Hts, Hto'. destruct (Fq_push s (f :: dq s (3 - sfrom s 0)) Hfrom) as [EF ES].
    left.
    destruct k; try contradiction;
      match goal with |- context [finish ?a ?b ?c ?d] => destruct (finish a b c d) end; cbn [fst];
      rewrite Fq_set_thr, Sq_set_thr, EF, ES; apply in_app_or in H; apply in_or_app;
      (destruct H; [left; auto|right; right; auto]).
  - (* PN4 *)
    destruct Hloc as (Hk & HF & Htmp & Hsv). subst sv tmp. cbn [fst].
    destruct (Fq_swap s Hfrom) as [EF ES]. left.
    rewrite Fq_set_thr, Sq_set_thr, EF, ES. apply in_app_or in H; apply in_or_app; tauto.
  - (* PN6 *)
    left. destruct (dq s (sfrom s 0)); [|exact H].
    unfold next_ret. destruct k; try contradiction; try destruct (Z.eqb st 3);
      match goal with |- context [finish ?a ?b ?c ?d] => destruct (finish a b c d) end; exact H.
  - (* PN7 *)
    destruct (dq s (sfrom s 0)) as [|y rest] eqn:EF; [left; exact H|].
    cbn [fst]. destruct (Fq_pop s rest Hfrom) as [E1 E2].
    rewrite T0_set_thr, Fq_set_thr, Sq_set_thr, E1, E2. cbn [pc with_pc].
    unfold Fq in H at 1. rewrite EF in H. destruct H as [<-|H]; [right; eauto|left; exact H].
  - (* PN8 *)
    left. destruct (Z.eqb (fstt s x) 5); [exact H|].
    unfold next_ret. destruct k; try (exfalso; tauto); destruct x; try destruct (Z.eqb st 3);
      try match goal with |- context [finish ?a ?b ?c ?d] => destruct (finish a b c d) end; exact H.
  - (* PN9 *)
    rewrite Hto'. destruct (Fq_push s (x :: dq s (3 - sfrom s 0)) Hfrom) as [EF ES].
    left. cbn [fst]. rewrite Fq_set_thr, Sq_set_thr, EF, ES. apply in_app_or in H; apply in_or_app.
    destruct H; [left; auto|right; right; auto].
  - (* PL1 *)
    left. unfold lb_continue. rewrite Hn, lb_scan_1thread. unfold lb_ret.
    destruct k; try match goal with |- context [finish ?a ?b ?c ?d] => destruct (finish a b c d) end; exact H.
Qed.

(* only park-saving writes SAVING *)
Lemma saving_step N s g : Inv N s -> fstt (fst (step s 0)) g = 5%Z ->
  fstt s g = 5%Z \/ pc (T0 s) = PP2 g.
Proof.
  intros I0 H. pose proof (i_n N s I0) as Hn.
  pose proof (i_loc N s I0) as L. unfold lok in L.
  unfold step, T0 in *. destruct (pc (thr s 0)) eqn:Hpc; try contradiction; clear L.
  all: try (unfold lb_continue in H; rewrite Hn, lb_scan_1thread in H; unfold lb_ret in H).
  all: try (unfold next_ret in H).
  all: repeat match type of H with
       | context [match ?b with _ => _ end] =>
           lazymatch b with context [match _ with _ => _ end] => fail | _ => destruct b end
       end.
  all: cbn [fst fstt set_thr set_fs set_wq set_dq set_from set_to] in H; unfold upd in H.
  all: try (left; exact H).
  all: try (match type of H with context [Nat.eqb ?a ?b] => destruct (Nat.eqb_spec a b) end;
            [try discriminate H; subst; auto|left; exact H]).
Qed.

(* one step of the instrumented machine, seen from a runnable fiber g *)
Lemma pending_step N x g : GInv N x -> pendingR x g ->
  let x' := lstep x 0 in
  (hand x' = hand x /\ byp x' g = byp x g /\ pendingR x' g) \/
  (exists y, y <> g /\ hand x' = hand x ++ [y] /\ byp x' g = S (byp x g) /\ pendingR x' g) \/
  hand x' = hand x ++ [g].
Proof.
  intros GI0 [H5 P]. pose proof (g_inv N x GI0) as I0.
  pose proof (i_from N _ I0) as Hfrom.
  assert (H5' : fstt (base (lstep x 0)) g <> 5%Z).
  { rewrite lstep_erase. intros E. destruct (saving_step N _ g I0 E) as [E1|E1]; [contradiction|].
    assert (Hin : In g (held (T0 (base x)))) by (unfold held; rewrite E1; left; reflexivity).
    destruct (held_not_queued N _ g I0 Hin) as [A B].
    destruct P as [Hq|[k Hk]]; [|congruence].
    unfold queued in Hq. apply in_app_or in Hq. tauto. }
  destruct P as [Hq|[k Hk]].
  - assert (P' : pendingR (lstep x 0) g).
    { split; [exact H5'|]. rewrite lstep_erase. apply (queue_mono N _ g I0 Hq). }
    revert P'. unfold lstep. cbv zeta.
    destruct (pc (thr (base x) 0)) eqn:Hpc; intros P'; try (left; cbn [hand byp]; auto; fail).
    destruct (Z.eqb_spec (fstt (base x) x0) 5) as [E5|E5]; [left; cbn [hand byp]; auto|].
    cbn [hand byp]. destruct (Nat.eqb_spec g x0) as [E|E].
    + right; right. subst; reflexivity.
    + right; left. exists x0.
      assert (He : elig (base x) 0 g = true) by (apply (elig_spec _ g Hfrom); split; auto).
      split; [auto|]. split; [reflexivity|]. split; [|exact P'].
      cbn beta. rewrite ?He. reflexivity.
  - right; right. unfold lstep. unfold T0 in Hk. rewrite Hk.
    destruct (Z.eqb_spec (fstt (base x) g) 5); [contradiction|reflexivity].
Qed.

Lemma hand_prefix sch : forall x, exists l, hand (irun x sch) = hand x ++ l.
Proof.
  induction sch as [|t r IH]; intros x; cbn [irun fold_left].
  - exists []. rewrite app_nil_r. reflexivity.
  - fold (irun (igrant x t) r). destruct (IH (igrant x t)) as [l Hl]. rewrite Hl.
    assert (exists l0, hand (igrant x t) = hand x ++ l0) as [l0 H0].
    { unfold igrant. destruct (mstatus M (base x) t); try (exists []; rewrite app_nil_r; reflexivity).
      unfold lstep. destruct (pc (thr (base x) t)); try (exists []; rewrite app_nil_r; reflexivity).
      destruct (Z.eqb (fstt (base x) x0) 5); [exists []; rewrite app_nil_r; reflexivity|].
      eexists; reflexivity. }
    rewrite H0. exists (l0 ++ l). rewrite app_assoc. reflexivity.
Qed.

Lemma GInv_igrant N x t : GInv N x -> GInv N (igrant x t).
Proof.
  intros G. unfold igrant. destruct (mstatus M (base x) t) eqn:E; auto.
  rewrite (ready_thread0 N (base x) t (g_inv N x G) E). apply gstep; exact G.
Qed.

Lemma pending_run N g sch : forall x, GInv N x -> pendingR x g ->
  exists l, hand (irun x sch) = hand x ++ l /\
            (In g l \/ (byp (irun x sch) g = byp x g + length l /\ pendingR (irun x sch) g)).
Proof.
  induction sch as [|t r IH]; intros x G P; cbn [irun fold_left].
  - exists []. rewrite app_nil_r. split; [reflexivity|]. right. cbn. split; [lia|exact P].
  - fold (irun (igrant x t) r).
    pose proof (GInv_igrant N x t G) as G1.
    unfold igrant in *. destruct (mstatus M (base x) t) eqn:E; try (apply IH; assumption).
    rewrite (ready_thread0 N (base x) t (g_inv N x G) E) in *.
    destruct (pending_step N x g G P) as [(Hh & Hb & P1)|[(y & Hy & Hh & Hb & P1)|Hh]].
    + destruct (IH _ G1 P1) as (l & Hl & Hc). exists l. rewrite Hl, Hh. split; auto.
      destruct Hc as [Hc|[Hc1 Hc2]]; auto. right. split; [lia|auto].
    + destruct (IH _ G1 P1) as (l & Hl & Hc). exists (y :: l). rewrite Hl, Hh, <- app_assoc. split; auto.
      destruct Hc as [Hc|[Hc1 Hc2]]; [left; right; auto|]. right. cbn [length]. split; [lia|auto].
    + destruct (hand_prefix r (lstep x 0)) as [l Hl]. exists (g :: l). rewrite Hl, Hh, <- app_assoc.
      split; auto. left; left; reflexivity.
Qed.

(* C10 corollary: once g is queued and not SAVING, at most 2(N-1) - byp g
   further hand-outs can take place without g being handed out *)
Lemma poll_progress N prog x g sch :
  prog_ok N prog -> ireach true prog x -> fstt (base x) g <> 5%Z -> queued (base x) g ->
  exists l, hand (irun x sch) = hand x ++ l /\ (In g l \/ byp x g + length l <= 2 * (N - 1)).
Proof.
  intros Hp R H5 Hq. pose proof (ireach_ginv N prog x Hp R) as G.
  destruct (pending_run N g sch x G (conj H5 (or_introl Hq))) as (l & Hl & Hc).
  exists l. split; auto. destruct Hc as [Hc|[Hc _]]; auto. right.
  rewrite <- Hc. apply (bypass_bound N prog); auto. apply ireach_irun; exact R.
Qed.

(* ------------------------------------------------------------------ *)
(* the originally pinned code (schedule() pushes on schedule_from): the
   regression example.  Program: spawn 1,2,3; one scheduler-loop iteration;
   k yields.  Fibers 3 and 2 alternate, fiber 1 is never handed out. *)
Definition starve_prog (k : nat) : list op :=
  [OSpawn 1; OSpawn 2; OSpawn 3; OIdle] ++ repeat OYield k.

(* the fibers made RUNNING, in order, as seen in a harness trace
   (events t loc kind val; a write of 1 to loc 200+f) *)
Fixpoint running_writes (tr : list Z) : list Z :=
  match tr with
  | _ :: loc :: kind :: v :: r =>
      if ((kind =? 19) && (v =? 1) && (200 <=? loc))%Z then (loc - 200)%Z :: running_writes r
      else running_writes r
  | _ => []
  end.

Lemma starvation_witness :
  let prog := starve_prog 40 in
  let sch := repeat 0 400 in
  let x := irun (iinit false prog) sch in
  let tr := run_all M (fst (init false [prog])) (snd (init false [prog])) [] 3000 in
  base x = fst (run_sched M (fst (init false [prog])) sch) /\
  pc (thr (base x) 0) = Fin /\
  fstt (base x) 1 = 2%Z /\ queued (base x) 1 /\
  ~ In 1 (hand x) /\ length (hand x) = 41 /\ byp x 1 = 41 /\
  2 * (3 - 1) < byp x 1 /\
  ~ In 1%Z (running_writes tr) /\ length (running_writes tr) = 41.
Proof.
  cbv zeta. split; [apply irun_erase|].
  vm_compute. repeat split; try reflexivity; lia.
Qed.

(* ------------------------------------------------------------------ *)
(* The unbounded version of the regression example: the 2-yield cycle of the
   pinned code, by symbolic execution.  V x ... lists the components of the
   state that the run reads: pc, cur, prog, opi of thread 0, deque 1
   (= schedule_from), the states of fibers 1 2 3, the hand-out log and the
   bypass counter of fiber 1. *)
Record V (x : ist) (P : pcT) (c : nat) (r : list op) (o : nat) (q : list nat) (f1 f2 f3 : Z)
         (h : list nat) (n : nat) : Prop := {
  v_n : nthr (base x) = 1; v_ts : to_store (base x) = false; v_from : sfrom (base x) 0 = 1;
  v_pc : pc (thr (base x) 0) = P; v_cur : cur (thr (base x) 0) = c;
  v_prog : prog (thr (base x) 0) = r; v_opi : opi (thr (base x) 0) = o;
  v_q : dq (base x) 1 = q;
  v_f1 : fstt (base x) 1 = f1; v_f2 : fstt (base x) 2 = f2; v_f3 : fstt (base x) 3 = f3;
  v_h : hand x = h; v_b : byp x 1 = n }.

Ltac vstep H :=
  let Hn := fresh in let Hts := fresh in let Hfrom := fresh in let Hpc := fresh in let Hcur := fresh in
  let Hprog := fresh in let Hopi := fresh in let Hq := fresh in let H1 := fresh in let H2 := fresh in
  let H3 := fresh in let Hh := fresh in let Hb := fresh in
  destruct H as [Hn Hts Hfrom Hpc Hcur Hprog Hopi Hq H1 H2 H3 Hh Hb];
  unfold igrant; cbn [mstatus M]; unfold status_of; rewrite Hn, Hpc; cbn [Nat.ltb Nat.leb];
  unfold lstep; rewrite Hpc; unfold step; rewrite Hpc;
  try (unfold lb_continue; rewrite Hn, lb_scan_1thread; unfold lb_ret);
  rewrite ?Hts, ?Hfrom, ?Hcur, ?Hq, ?H1, ?H2, ?H3;
  cbn [Z.eqb Pos.eqb fst next_ret];
  rewrite ?Hts, ?Hfrom, ?Hcur, ?Hq, ?H1, ?H2, ?H3;
  try (unfold finish; rewrite Hprog, Hopi; cbn [start bad_id NF Nat.eqb Nat.ltb Nat.leb orb app fst snd repeat]);
  constructor; cbn [base byp hand fst nthr to_store sfrom sto dq fstt thr set_thr set_dq set_fs set_from set_to
                     pc cur prog opi with_pc];
  unfold upd, elig; cbn [Nat.eqb Nat.mul Nat.add pc cur prog opi with_pc];
  rewrite ?Hn, ?Hts, ?Hfrom, ?Hcur, ?Hq, ?H1, ?H2, ?H3, ?Hh, ?Hb, ?Hprog, ?Hopi;
  cbn [Z.eqb Pos.eqb negb andb orb existsb app Nat.eqb]; try reflexivity.

Ltac adv :=
  match goal with
  | H : V ?x _ _ _ _ _ _ _ _ _ _ |- _ =>
    let H' := fresh "V" in let x' := fresh "x" in
    eassert (H' : V (igrant x 0) _ _ _ _ _ _ _ _ _ _) by (vstep H); clear H;
    revert H'; generalize (igrant x 0); intros x' H'
  end.

Lemma irun_app x l1 l2 : irun x (l1 ++ l2) = irun (irun x l1) l2.
Proof. unfold irun. apply fold_left_app. Qed.

(* the prefix: spawn 1,2,3 and one scheduler-loop iteration hand out fiber 3 *)
Lemma starve_prefix_gen x k :
  V x (PSpawnR 1) 0 ([OSpawn 2; OSpawn 3; OIdle] ++ repeat OYield (S k)) 1 [] 0 0 0 [] 0 ->
  V (irun x (repeat 0 15)) PYRead 3 (repeat OYield k) 5 [2;1] 2 2 1 [3] 1.
Proof.
  intros H. cbn [irun fold_left repeat].
  do 15 adv. assumption.
Qed.

Lemma starve_prefix k :
  V (irun (iinit false (starve_prog (S k))) (repeat 0 15)) PYRead 3 (repeat OYield k) 5 [2;1] 2 2 1 [3] 1.
Proof. apply starve_prefix_gen. constructor; reflexivity. Qed.

Lemma start_cur t c : forall p k, cur (snd (start t c p k)) = c.
Proof.
  induction p as [|a r IH]; intros k; cbn [start]; auto.
  assert (Hrec : forall e0 : list Z, cur (snd (let '(e, T) := start t c r (S k) in (e0 ++ e, T))) = c).
  { intros e0. specialize (IH (S k)). destruct (start t c r (S k)); exact IH. }
  destruct a; try (destruct (bad_id f)); try (destruct (Nat.eqb c 0)); try apply Hrec; reflexivity.
Qed.

(* one yield of fiber 3 (fiber 2 on top of the drained deque, then 1) ... *)
Lemma starve_cycA x r o h n : V x PYRead 3 r o [2;1] 2 2 1 h n ->
  V (irun x (repeat 0 9)) (pc (snd (start 0 2 r (S o)))) 2 (prog (snd (start 0 2 r (S o))))
    (opi (snd (start 0 2 r (S o)))) [3;1] 2 1 2 (h ++ [2]) (S n).
Proof.
  intros H. cbn [irun fold_left repeat]. do 8 adv.
  match goal with HV : V _ _ _ _ _ _ _ _ _ _ _ |- _ =>
    destruct HV as [Hn Hts Hfrom Hpc Hcur Hprog Hopi Hq H1 H2 H3 Hh Hb] end.
  assert (Hc : cur (snd (start 0 2 r (S o))) = 2) by apply start_cur.
  unfold igrant; cbn [mstatus M]; unfold status_of; rewrite Hn, Hpc; cbn [Nat.ltb Nat.leb].
  unfold lstep; rewrite Hpc; unfold step; rewrite Hpc. rewrite Hts, Hfrom, Hq.
  unfold finish. rewrite Hprog, Hopi. destruct (start 0 2 r (S o)) as [e1 T1]. cbn [snd] in *.
  constructor; cbn [base byp hand fst nthr to_store sfrom sto dq fstt thr set_thr set_dq]; auto;
    unfold upd; cbn [Nat.eqb]; auto.
Qed.

(* ... and one yield of fiber 2 (fiber 3 on top, then 1) *)
Lemma starve_cycB x r o h n : V x PYRead 2 r o [3;1] 2 1 2 h n ->
  V (irun x (repeat 0 9)) (pc (snd (start 0 3 r (S o)))) 3 (prog (snd (start 0 3 r (S o))))
    (opi (snd (start 0 3 r (S o)))) [2;1] 2 2 1 (h ++ [3]) (S n).
Proof.
  intros H. cbn [irun fold_left repeat]. do 8 adv.
  match goal with HV : V _ _ _ _ _ _ _ _ _ _ _ |- _ =>
    destruct HV as [Hn Hts Hfrom Hpc Hcur Hprog Hopi Hq H1 H2 H3 Hh Hb] end.
  assert (Hc : cur (snd (start 0 3 r (S o))) = 3) by apply start_cur.
  unfold igrant; cbn [mstatus M]; unfold status_of; rewrite Hn, Hpc; cbn [Nat.ltb Nat.leb].
  unfold lstep; rewrite Hpc; unfold step; rewrite Hpc. rewrite Hts, Hfrom, Hq.
  unfold finish. rewrite Hprog, Hopi. destruct (start 0 3 r (S o)) as [e1 T1]. cbn [snd] in *.
  constructor; cbn [base byp hand fst nthr to_store sfrom sto dq fstt thr set_thr set_dq]; auto;
    unfold upd; cbn [Nat.eqb]; auto.
Qed.

Lemma starve_loop : forall j (ph : bool) x o h n,
  (if ph then V x PYRead 3 (repeat OYield j) o [2;1] 2 2 1 h n
   else V x PYRead 2 (repeat OYield j) o [3;1] 2 1 2 h n) ->
  ~ In 1 h ->
  let x' := irun x (repeat 0 (9 * S j)) in
  pc (thr (base x') 0) = Fin /\ fstt (base x') 1 = 2%Z /\ In 1 (dq (base x') 1) /\
  sfrom (base x') 0 = 1 /\ ~ In 1 (hand x') /\ length (hand x') = length h + S j /\
  byp x' 1 = n + S j.
Proof.
  induction j as [|j IH]; intros ph x o h n H Hh; cbv zeta.
  - change (9 * 1) with 9. change (repeat OYield 0) with (@nil op) in H.
    destruct ph; [apply starve_cycA in H|apply starve_cycB in H];
      cbn [start snd pc prog opi] in H;
      destruct H as [Hn Hts Hfrom Hpc Hcur Hprog Hopi Hq H1 H2 H3 Hh' Hb];
      rewrite Hpc, H1, Hq, Hfrom, Hh', Hb, app_length; cbn [length];
      (repeat split; auto; try lia; [cbn; auto | rewrite in_app_iff; cbn; intuition lia]).
  - replace (9 * S (S j)) with (9 + 9 * S j) by lia. rewrite repeat_app, irun_app.
    change (repeat OYield (S j)) with (OYield :: repeat OYield j) in H.
    destruct ph; [apply starve_cycA in H|apply starve_cycB in H];
      cbn [start snd pc prog opi Nat.eqb] in H.
    + specialize (IH false _ _ _ _ H). cbv zeta in IH.
      destruct IH as (A & B & C & D & E & F & G).
      { rewrite in_app_iff; cbn; intuition lia. }
      rewrite app_length in F. cbn [length] in F. repeat split; auto; lia.
    + specialize (IH true _ _ _ _ H). cbv zeta in IH.
      destruct IH as (A & B & C & D & E & F & G).
      { rewrite in_app_iff; cbn; intuition lia. }
      rewrite app_length in F. cbn [length] in F. repeat split; auto; lia.
Qed.

(* the unbounded version: for EVERY k, after spawn 1,2,3; idle; k+1 yields
   run to completion on the pinned code, fiber 1 is still READY and queued,
   was never handed out, and next() handed out k+2 other fibers *)
Theorem starvation_unbounded k :
  let x := irun (iinit false (starve_prog (S k))) (repeat 0 (15 + 9 * S k)) in
  pc (thr (base x) 0) = Fin /\ fstt (base x) 1 = 2%Z /\ queued (base x) 1 /\
  ~ In 1 (hand x) /\ length (hand x) = S (S k) /\ byp x 1 = S (S k).
Proof.
  cbv zeta. rewrite repeat_app, irun_app.
  pose proof (starve_prefix k) as H.
  destruct (starve_loop k true _ _ _ _ H) as (A & B & C & D & E & F & G).
  { cbn; intuition lia. }
  repeat split; auto.
  unfold queued, Fq. rewrite D. apply in_or_app; left; exact C.
Qed.
