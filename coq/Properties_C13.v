(* C13 — MPMC FIFO over hazard pointers: exactly-once FIFO in tail-CAS order,
   NULL only if empty or the oldest push is still in flight, no access to a
   reclaimed node, the head CAS never succeeds on a recycled head.
   Statements over every reachable state of coq/MpmcHp.v (base machine) and of
   its instrumentation with history logs and allocation generations
   (MpmcHpProofs.ist / lstep, erasure: lstep_erase): any number of threads,
   hazard records created before the run or joining at any time, any programs
   of join / push / trypop / scan, any schedule, any pool size (nodes are
   recycled through a LIFO pool as soon as a scan reclaims them).
   qsort is external: [good_sort sort] is a premise (HazardProofs.isort_good
   discharges it for the executable model).
   Guards (DESIGN.md C13): SC interleaving; pushed values non-NULL; counters do
   not overflow. *)
From Coq Require Import List ZArith Arith Permutation Sorted.
From LF Require Import Conc Hazard HazardProofs MpmcHp MpmcHpProofs.
Import ListNotations.

(* plog = values in the order the pushes took effect (successful tail CAS,
   inside the call: the order respects real time and program order);
   qlog = values returned by the pops in the order they took effect (successful
   head CAS).  The popped values are a prefix of the pushed ones, the
   remainder is exactly the current content: every value is popped at most
   once, only pushed values are popped, in FIFO order. *)
Theorem mpmc_exactly_once_fifo : forall sort, good_sort sort ->
  forall P NN Mq progs x, ireach sort P NN Mq progs x ->
  exists rest, plog x = qlog x ++ rest /\ rest = map (nval (base x)) (tl (qs (base x))).
Proof.
  intros sort [Hp Hs] P NN Mq progs x R.
  exact (fifo_of_linv x (ireach_linv sort Hp Hs P NN Mq progs x R)).
Qed.
Print Assumptions mpmc_exactly_once_fifo.

(* the pop whose head CAS is about to succeed returns the oldest unpopped value *)
Theorem mpmc_pop_returns_oldest : forall sort, good_sort sort ->
  forall P NN Mq progs x t, ireach sort P NN Mq progs x ->
  pc (thr (base x) t) = Q8 -> qhead (base x) = hh (thr (base x) t) ->
  nth_error (plog x) (length (qlog x)) = Some (rv (thr (base x) t)).
Proof.
  intros sort [Hp Hs] P NN Mq progs x t R.
  exact (pop_oldest_of_linv x t (ireach_linv sort Hp Hs P NN Mq progs x R)).
Qed.
Print Assumptions mpmc_pop_returns_oldest.

(* trypop returns NULL exactly from Q4 with head->prev = NULL (the head was
   validated at Q3).  At that read the node is still the dummy, and either
   every push that took effect has been popped, or the oldest unpopped push is
   between its tail CAS and its link write tail->prev = new_node *)
Theorem mpmc_empty_justified : forall sort, good_sort sort ->
  forall P NN Mq progs x t, ireach sort P NN Mq progs x ->
  pc (thr (base x) t) = Q4 -> nprev (base x) (hh (thr (base x) t)) = 0 ->
  hh (thr (base x) t) = qhead (base x) /\
  (plog x = qlog x \/
   exists u, pc (thr (base x) u) = P6 /\ hh (thr (base x) u) = qhead (base x) /\
             nn (thr (base x) u) = hd 0 (tl (qs (base x)))).
Proof.
  intros sort [Hp Hs] P NN Mq progs x t R.
  exact (empty_of_linv x t (ireach_linv sort Hp Hs P NN Mq progs x R)).
Qed.
Print Assumptions mpmc_empty_justified.

(* [accessed s t] = the node whose field (value / prev / next) the next step of
   thread t reads or writes (MpmcHpProofs.accessed lists the five accesses of
   push and trypop).  It is never NULL and never a node that sits in the free
   pool, i.e. that was reclaimed and not yet re-allocated *)
Theorem mpmc_no_deref_reclaimed : forall sort, good_sort sort ->
  forall P NN Mq progs s t n, reachable (M sort) (init P NN Mq progs) s ->
  accessed s t = Some n -> n <> 0 /\ ~ In n (pool s).
Proof.
  intros sort [Hp Hs] P NN Mq progs s t n R.
  exact (no_deref_of_inv s t n (reachable_inv sort Hp Hs P NN Mq progs s R)).
Qed.
Print Assumptions mpmc_no_deref_reclaimed.

(* gen x n counts the allocations of node n ([mpmc_gen_counts_allocations]);
   hgen x t is the generation of the head that t validated.  At the head CAS
   the head is still the incarnation that was validated; if the CAS succeeds
   it is the dummy, prev is its successor and ret is that successor's value *)
Theorem mpmc_aba_safe : forall sort, good_sort sort ->
  forall P NN Mq progs x t, ireach sort P NN Mq progs x ->
  pc (thr (base x) t) = Q8 ->
  gen x (hh (thr (base x) t)) = hgen x t /\
  (qhead (base x) = hh (thr (base x) t) ->
     exists r2, qs (base x) = hh (thr (base x) t) :: pv (thr (base x) t) :: r2 /\
                rv (thr (base x) t) = nval (base x) (pv (thr (base x) t))).
Proof.
  intros sort [Hp Hs] P NN Mq progs x t R.
  exact (aba_of_linv x t (ireach_linv sort Hp Hs P NN Mq progs x R)).
Qed.
Print Assumptions mpmc_aba_safe.

Theorem mpmc_gen_counts_allocations : forall sort x t n,
  gen (lstep sort x t) n <> gen x n ->
  pc (thr (base x) t) = PA /\ hd 0 (pool (base x)) = n /\ In n (pool (base x)) /\
  gen (lstep sort x t) n = S (gen x n).
Proof. intros sort x t n. exact (gen_alloc sort x t n). Qed.
Print Assumptions mpmc_gen_counts_allocations.

(* hp_safe for the combined machine: a node with a validated protection
   (slot written, then fifo.head / fifo.tail re-read equal) is never in the
   list a scan passes to the gc callback *)
Theorem mpmc_hp_safe : forall sort, good_sort sort ->
  forall P NN Mq progs s t u i, reachable (M sort) (init P NN Mq progs) s ->
  held (thr s u) i <> 0 -> ~ In (held (thr s u) i) (gc_list sort s t).
Proof.
  intros sort [Hp Hs] P NN Mq progs s t u i R.
  exact (safe_of_inv sort Hp Hs s t u i (reachable_inv sort Hp Hs P NN Mq progs s R)).
Qed.
Print Assumptions mpmc_hp_safe.

(* ---- non-vacuity: the hypotheses are met by concrete reachable states ---- *)
Definition exA := [[OPush 4; OPop]; [OPush 6; OPop]].
Definition ones (t n : nat) : list nat := repeat t n.

Example ex_history :
  let x := irun isort (iinit 2 4 0 exA) (ones 0 9 ++ ones 1 9 ++ ones 0 11) in
  ireach isort 2 4 0 exA x /\ plog x = [5; 7] /\ qlog x = [5] /\ qs (base x) = [2; 3].
Proof. split; [apply ireach_irun; constructor | vm_compute; auto]. Qed.

Example ex_head_cas_state :
  let x := irun isort (iinit 2 4 0 exA) (ones 0 9 ++ ones 0 7) in
  ireach isort 2 4 0 exA x /\ pc (thr (base x) 0) = Q8 /\ qhead (base x) = hh (thr (base x) 0) /\
  rv (thr (base x) 0) = 5.
Proof. split; [apply ireach_irun; constructor | vm_compute; auto]. Qed.

(* NULL on an empty queue *)
Example ex_empty :
  let x := irun isort (iinit 1 2 0 [[OPop]]) [0; 0; 0] in
  ireach isort 1 2 0 [[OPop]] x /\ pc (thr (base x) 0) = Q4 /\ nprev (base x) (hh (thr (base x) 0)) = 0 /\
  plog x = qlog x.
Proof. split; [apply ireach_irun; constructor | vm_compute; auto]. Qed.

(* NULL while the only push is between its tail CAS and its link write *)
Example ex_push_in_flight :
  let x := irun isort (iinit 2 3 0 [[OPush 4]; [OPop]]) (ones 0 7 ++ ones 1 3) in
  ireach isort 2 3 0 [[OPush 4]; [OPop]] x /\ pc (thr (base x) 1) = Q4 /\
  nprev (base x) (hh (thr (base x) 1)) = 0 /\ plog x = [5] /\ qlog x = [] /\ pc (thr (base x) 0) = P6.
Proof. split; [apply ireach_irun; constructor | vm_compute; repeat split; auto]. Qed.

(* a popper (thread 1) holds the old head validated while thread 0 pops it,
   retires it and scans: the node stays retired, it is not reclaimed *)
Definition exB := [[OPop; OScan]; [OPop]].
Example ex_protected_head_survives_scan :
  let x := irun isort (iinit 2 3 1 exB) (ones 1 3 ++ ones 0 11 ++ ones 0 8) in
  ireach isort 2 3 1 exB x /\ pc (thr (base x) 1) = Q4 /\ held (thr (base x) 1) 0 = 1 /\
  rlist (thr (base x) 0) = [1] /\ pool (base x) = [3] /\ qlog x = [101].
Proof. split; [apply ireach_irun; constructor | vm_compute; repeat split; auto]. Qed.

(* without the protection the same scan reclaims the node and the next push
   recycles it: generation 1 *)
Definition exC := [[OPop; OScan; OPush 7]].
Example ex_recycled :
  let x := irun isort (iinit 1 2 1 exC) (ones 0 11 ++ ones 0 5 ++ ones 0 1) in
  ireach isort 1 2 1 exC x /\ nn (thr (base x) 0) = 1 /\ gen x 1 = 1 /\ accessed (base x) 0 = Some 1.
Proof. split; [apply ireach_irun; constructor | vm_compute; repeat split; auto]. Qed.
