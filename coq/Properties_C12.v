(* C12 — barrier (src/fiber_barrier.c on fiber_manager.c's wait_in_mpsc_queue /
   wake_from_mpsc_queue).  Statements over the reachable states of coq/Barrier.v
   (client of the T1 kernel model coq/T1K.v), instrumented with ghost logs
   (BarrierProofs.ist: ent / arr / rets = "entered round k" / fetch_add executed
   with value v / returned r; erasure: lstep_erase, reachable_ireach). *)
From Coq Require Import List ZArith Lia.
From LF Require Import Conc T1K Barrier BarrierProofs.
Import ListNotations.
Local Open Scope Z_scope.

(* FINDING F-C12.  Full statement (barrier_round_safety), which the pinned code VIOLATES:
     forall count rounds x, 1 <= count -> length rounds = Z.to_nat count ->
       ireach count rounds x -> round_safe count x.
   Refutation: count = 3, three fibers performing two consecutive rounds each, and a
   49-step schedule after which fiber 0 has returned from its 2nd wait although only
   fibers 0 and 2 have entered their 2nd wait (and only fiber 0 has arrived in it).
   The same case replays on the real code: corpus/C12.txt. *)
Theorem barrier_round_safety_refuted :
  exists (count : Z) (rounds : list nat) (x : ist),
    count = 3 /\ rounds = [2; 2; 2]%nat /\
    ireach count rounds x /\ reachable M (init count rounds) (base x) /\
    returned x 0 2 /\ entered_fibers x 2 = [0; 2]%nat /\ arrived_fibers x 2 = [0]%nat /\
    ~ round_safe count x.
Proof.
  exists 3, [2; 2; 2]%nat, w_state.
  pose proof w_facts as [Hr [He [Ha _]]].
  split; [reflexivity|]. split; [reflexivity|]. split; [exact w_reach|].
  split; [exact (ireach_base _ _ _ w_reach)|].
  split; [exists 0; rewrite Hr; cbn; auto|].
  split; [exact He|]. split; [exact Ha|exact w_not_round_safe].
Qed.
Print Assumptions barrier_round_safety_refuted.

(* Two serial fibers inside the pop loop of the waiter list at once (the MPSC
   single-consumer discipline is broken): count = 3, six fibers, one round each.
   This needs more participants than count; see barrier_single_consumer below for
   exactly count participants. *)
Theorem barrier_single_consumer_refuted :
  exists (count : Z) (rounds : list nat) (s : st) (t u : nat),
    count = 3 /\ reachable M (init count rounds) s /\ t <> u /\
    in_pop_loop s t /\ in_pop_loop s u.
Proof.
  exists 3, [1; 1; 1; 1; 1; 1]%nat, (base c_state), 2%nat, 5%nat.
  pose proof c_facts as [H2 H5].
  split; [reflexivity|]. split; [exact (ireach_base _ _ _ c_reach)|].
  split; [discriminate|]. split; [exact H2|exact H5].
Qed.
Print Assumptions barrier_single_consumer_refuted.

(* In every configuration (any count >= 1, any number of fibers, any numbers of
   rounds, any schedule): the k-th executed fetch_add fetches k-1 (arrival numbers
   are 0,1,2,... in execution order, one arrival per (fiber, call)), and a call
   returns 1 (serial fiber) exactly when its arrival number is = count-1 modulo
   count, 0 otherwise — hence exactly one serial fiber in every group of count
   consecutive arrivals, whatever else goes wrong. *)
Theorem barrier_one_serial_per_round : forall count rounds x,
  ireach count rounds x ->
  word (mem (base x)) 0%nat = Z.of_nat (length (arr x)) /\
  (forall i t k v, nth_error (arr x) i = Some (t, k, v) -> v = Z.of_nat i) /\
  NoDup (map fst (arr x)) /\ NoDup (map fst (rets x)) /\
  (forall t k r, In (t, k, r) (rets x) ->
     exists v, In (t, k, v) (arr x) /\
               ((r = 1 /\ (v + 1) mod count = 0) \/ (r = 0 /\ (v + 1) mod count <> 0))).
Proof. intros count rounds x R. exact (one_serial_of_l1 count x (ireach_l1 count rounds x R)). Qed.
Print Assumptions barrier_one_serial_per_round.

(* In every configuration: no call returns before count fetch_adds were executed. *)
Theorem barrier_no_return_before_count : forall count rounds x t k r,
  1 <= count -> ireach count rounds x -> In (t, k, r) (rets x) ->
  count <= Z.of_nat (length (arr x)).
Proof. intros count rounds x t k r. exact (no_return_before_count count rounds x t k r). Qed.
Print Assumptions barrier_no_return_before_count.

(* Exactly count fibers, one round each, any schedule.
   (1) nobody has returned unless count distinct fibers executed their fetch_add;
   (2) at most count fetch_adds;
   (3) a fiber that returned 1 is the one that fetched count-1, and (4) it is unique. *)
Theorem barrier_single_round_safety : forall count rounds x,
  1 <= count -> length rounds = Z.to_nat count -> Forall (fun r => r = 1%nat) rounds ->
  ireach count rounds x ->
  round_safe_arrived count x /\
  Z.of_nat (length (arr x)) <= count /\
  (forall t k, In (t, k, 1) (rets x) -> k = 1%nat /\ In (t, 1%nat, count - 1) (arr x)) /\
  (forall t t' k k', In (t, k, 1) (rets x) -> In (t', k', 1) (rets x) -> t = t' /\ k = k').
Proof. exact single_round_facts. Qed.
Print Assumptions barrier_single_round_safety.

(* count = 1 (every call is serial): round safety for any number of rounds. *)
Theorem barrier_reuse_count_1 : forall rounds x, ireach 1 rounds x -> round_safe 1 x.
Proof. exact round_safe_count1. Qed.
Print Assumptions barrier_reuse_count_1.
