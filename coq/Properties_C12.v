(* C12 — barrier (src/fiber_barrier.c on fiber_manager.c's wait_in_mpsc_queue /
   wake_from_mpsc_queue).  Statements over the reachable states of coq/Barrier.v
   (client of the T1 kernel model coq/T1K.v), instrumented with ghost logs
   (BarrierProofs.ist: ent / arr / rets = "entered round k" / fetch_add executed
   with value v / returned r; erasure: lstep_erase, reachable_ireach). *)
From Coq Require Import List ZArith Lia.
From LF Require Import Conc T1K Barrier BarrierProofs.
Import ListNotations.
Local Open Scope Z_scope.

(* FINDING F-C12.  Full statement (barrier_round_safety), which the pinned code VIOLATES:
     forall count rounds x, 1 <= count -> length rounds = Z.to_nat count ->
       ireach count rounds x -> round_safe count x.
   Refutation: count = 3, three fibers performing two consecutive rounds each, and a
   49-step schedule after which fiber 0 has returned from its 2nd wait although only
   fibers 0 and 2 have entered their 2nd wait (and only fiber 0 has arrived in it).
   The same case replays on the real code: corpus/C12.txt. *)
Theorem barrier_round_safety_refuted :
  exists (count : Z) (rounds : list nat) (x : ist),
    count = 3 /\ rounds = [2; 2; 2]%nat /\
    ireach count rounds x /\ reachable M (init count rounds) (base x) /\
    returned x 0 2 /\ entered_fibers x 2 = [0; 2]%nat /\ arrived_fibers x 2 = [0]%nat /\
    ~ round_safe count x.
Proof.
  exists 3, [2; 2; 2]%nat, w_state.
  pose proof w_facts as [Hr [He [Ha _]]].
  split; [reflexivity|]. split; [reflexivity|]. split; [exact w_reach|].
  split; [exact (ireach_base _ _ _ w_reach)|].
  split; [exists 0; rewrite Hr; cbn; auto|].
  split; [exact He|]. split; [exact Ha|exact w_not_round_safe].
Qed.
Print Assumptions barrier_round_safety_refuted.

(* Two serial fibers inside the pop loop of the waiter list at once (the MPSC
   single-consumer discipline is broken): count = 3, six fibers, one round each.
   This needs more participants than count; see barrier_single_consumer below for
   exactly count participants. *)
Theorem barrier_single_consumer_refuted :
  exists (count : Z) (rounds : list nat) (s : st) (t u : nat),
    count = 3 /\ reachable M (init count rounds) s /\ t <> u /\
    in_pop_loop s t /\ in_pop_loop s u.
Proof.
  exists 3, [1; 1; 1; 1; 1; 1]%nat, (base c_state), 2%nat, 5%nat.
  pose proof c_facts as [H2 H5].
  split; [reflexivity|]. split; [exact (ireach_base _ _ _ c_reach)|].
  split; [discriminate|]. split; [exact H2|exact H5].
Qed.
Print Assumptions barrier_single_consumer_refuted.
