(* C12 — barrier (src/fiber_barrier.c on fiber_manager.c's wait_in_mpsc_queue /
   wake_from_mpsc_queue).  Statements over the reachable states of coq/Barrier.v
   (client of the T1 kernel model coq/T1K.v), instrumented with ghost logs
   (BarrierProofs.ist: ent / arr / rets = "entered round k" / fetch_add executed
   with value v / returned r; erasure: lstep_erase, reachable_ireach).
   [init count rounds]: fiber t performs [nth t rounds 0] consecutive
   fiber_barrier_wait calls on one barrier initialised with [count].

   round_safe count x          : returned x t k -> count fibers entered their k-th wait
   round_safe_arrived count x  : returned x t k -> count DISTINCT fibers executed the
                                 fetch_add of their k-th wait (what correct code gives) *)
From Coq Require Import List ZArith Lia.
From LF Require Import Conc T1K Barrier BarrierProofs BarrierInv.
Import ListNotations.
Local Open Scope Z_scope.

(* FINDING F-C12.  Full statement (barrier_round_safety), which the pinned code VIOLATES:
     forall count rounds x, 1 <= count -> length rounds = Z.to_nat count ->
       ireach count rounds x -> round_safe count x.
   Refutation: count = 3, three fibers performing two consecutive rounds each, and a
   49-step schedule after which fiber 0 has returned from its 2nd wait although only
   fibers 0 and 2 have entered their 2nd wait (and only fiber 0 has arrived in it):
   the serial fiber 2 of round 1, still one entry short because fiber 1 has incremented
   the counter but not yet enqueued, pops the round-2 entry of fiber 0, which it had
   already released.  The same case replays on the real code: corpus/C12.txt. *)
Theorem barrier_round_safety_refuted :
  exists (count : Z) (rounds : list nat) (x : ist),
    count = 3 /\ rounds = [2; 2; 2]%nat /\
    ireach count rounds x /\ reachable M (init count rounds) (base x) /\
    returned x 0 2 /\ entered_fibers x 2 = [0; 2]%nat /\ arrived_fibers x 2 = [0]%nat /\
    ~ round_safe count x.
Proof.
  exists 3, [2; 2; 2]%nat, w_state.
  pose proof w_facts as [Hr [He [Ha _]]].
  split; [reflexivity|]. split; [reflexivity|]. split; [exact w_reach|].
  split; [exact (ireach_base _ _ _ w_reach)|].
  split; [exists 0; rewrite Hr; cbn; auto|].
  split; [exact He|]. split; [exact Ha|exact w_not_round_safe].
Qed.
Print Assumptions barrier_round_safety_refuted.

(* Exactly count fibers, ONE round each, any count >= 1, any schedule:
   (1) nobody has returned unless count distinct fibers executed their fetch_add
       (hence also: unless count fibers entered);
   (2) at most count fetch_adds are ever executed;
   (3) a fiber that returned 1 (serial) is the one that fetched count-1, and
   (4) at most one fiber returns 1;
   (5) at quiescence (no fiber can take a step) every fiber has returned and
       one of them returned 1. *)
Theorem barrier_single_round : forall count rounds x,
  1 <= count -> length rounds = Z.to_nat count -> Forall (fun r => r = 1%nat) rounds ->
  ireach count rounds x ->
  round_safe_arrived count x /\ round_safe count x /\
  Z.of_nat (length (arr x)) <= count /\
  (forall t k, In (t, k, 1) (rets x) -> k = 1%nat /\ In (t, 1%nat, count - 1) (arr x)) /\
  (forall t t' k k', In (t, k, 1) (rets x) -> In (t', k', 1) (rets x) -> t = t' /\ k = k') /\
  (quiescent x ->
     (forall t, (t < length rounds)%nat -> returned x t 1) /\ (exists t, In (t, 1%nat, 1) (rets x))).
Proof.
  intros count rounds x Hc Hl F R.
  destruct (single_round_facts count rounds x Hc Hl F R) as (A & B & C & D).
  pose proof (ireach_G count Hc rounds x Hl (or_intror F) R) as Gx.
  destruct (round_safe_of_G count Hc x (ireach_l1 _ _ _ R) Gx) as [_ RS].
  split; [exact A|]. split; [exact RS|]. split; [exact B|]. split; [exact C|]. split; [exact D|].
  exact (single_round_quiescent count Hc rounds x Hl F R).
Qed.
Print Assumptions barrier_single_round.

(* count = 1 or 2, exactly count fibers, ANY numbers of consecutive rounds, any
   schedule: round safety (both forms), one serial fiber per round, and at most
   one fiber inside the pop loop of the waiter list at any time. *)
Theorem barrier_reuse_count_le_2 : forall count rounds x,
  1 <= count <= 2 -> length rounds = Z.to_nat count ->
  ireach count rounds x ->
  round_safe_arrived count x /\ round_safe count x /\
  (forall t t' k, In (t, k, 1) (rets x) -> In (t', k, 1) (rets x) -> t = t') /\
  (forall t u, in_pop_loop (base x) t -> in_pop_loop (base x) u -> t = u).
Proof.
  intros count rounds x [Hc Hc2] Hl R.
  pose proof (ireach_l1 _ _ _ R) as L.
  pose proof (ireach_G count Hc rounds x Hl (or_introl Hc2) R) as Gx.
  destruct (round_safe_of_G count Hc x L Gx) as [RA RS].
  split; [exact RA|]. split; [exact RS|]. split.
  - intros t t' k. exact (one_serial_round count Hc x t t' k L Gx).
  - intros t u. exact (single_consumer_of_G count x t u L Gx).
Qed.
Print Assumptions barrier_reuse_count_le_2.

(* In EVERY configuration (any count, any number of fibers, any numbers of rounds,
   any schedule — including the ones in which round safety fails): the k-th
   executed fetch_add fetches k-1 (arrival numbers are 0,1,2,... in execution
   order, one arrival per (fiber, call)), and a call returns 1 (serial fiber)
   exactly when its arrival number is = count-1 modulo count, 0 otherwise — hence
   exactly one serial fiber in every group of count consecutive arrivals. *)
Theorem barrier_one_serial_per_round : forall count rounds x,
  ireach count rounds x ->
  word (mem (base x)) 0%nat = Z.of_nat (length (arr x)) /\
  (forall i t k v, nth_error (arr x) i = Some (t, k, v) -> v = Z.of_nat i) /\
  NoDup (map fst (arr x)) /\ NoDup (map fst (rets x)) /\
  (forall t k r, In (t, k, r) (rets x) ->
     exists v, In (t, k, v) (arr x) /\
               ((r = 1 /\ (v + 1) mod count = 0) \/ (r = 0 /\ (v + 1) mod count <> 0))).
Proof. intros count rounds x R. exact (one_serial_of_l1 count x (ireach_l1 count rounds x R)). Qed.
Print Assumptions barrier_one_serial_per_round.

(* In every configuration: no call returns before count fetch_adds were executed. *)
Theorem barrier_no_return_before_count : forall count rounds x t k r,
  1 <= count -> ireach count rounds x -> In (t, k, r) (rets x) ->
  count <= Z.of_nat (length (arr x)).
Proof. intros count rounds x t k r. exact (no_return_before_count count rounds x t k r). Qed.
Print Assumptions barrier_no_return_before_count.

(* Two serial fibers inside the pop loop of the waiter list at once (the MPSC
   single-consumer discipline is broken): count = 3, SIX fibers, one round each.
   This needs more participants than count.  With exactly count participants and
   one round, or count <= 2, it cannot happen (barrier_single_consumer below). *)
Theorem barrier_single_consumer_refuted :
  exists (count : Z) (rounds : list nat) (s : st) (t u : nat),
    count = 3 /\ reachable M (init count rounds) s /\ t <> u /\
    in_pop_loop s t /\ in_pop_loop s u.
Proof.
  exists 3, [1; 1; 1; 1; 1; 1]%nat, (base c_state), 2%nat, 5%nat.
  pose proof c_facts as [H2 H5].
  split; [reflexivity|]. split; [exact (ireach_base _ _ _ c_reach)|].
  split; [discriminate|]. split; [exact H2|exact H5].
Qed.
Print Assumptions barrier_single_consumer_refuted.

Theorem barrier_single_consumer : forall count rounds x t u,
  1 <= count -> length rounds = Z.to_nat count ->
  (count <= 2 \/ Forall (fun r => r = 1%nat) rounds) ->
  ireach count rounds x ->
  in_pop_loop (base x) t -> in_pop_loop (base x) u -> t = u.
Proof.
  intros count rounds x t u Hc Hl Hr R.
  exact (single_consumer_of_G count x t u (ireach_l1 _ _ _ R) (ireach_G count Hc rounds x Hl Hr R)).
Qed.
Print Assumptions barrier_single_consumer.

(* ---- non-vacuity ---- *)
(* count = 2, two fibers, two rounds each, run to completion: everybody returned
   from both rounds, one serial fiber per round *)
Definition ex2 : ist := irun (iinit 2 [2; 2]%nat) (repeat 0%nat 40 ++ repeat 1%nat 60 ++ repeat 0%nat 60 ++ repeat 1%nat 60 ++ repeat 0%nat 60).
Example ex_count2_reuse :
  ireach 2 [2; 2]%nat ex2 /\
  rets ex2 = [(1%nat, 1%nat, 1); (0%nat, 1%nat, 0); (0%nat, 2%nat, 1); (1%nat, 2%nat, 0)] /\
  map (status_of (base ex2)) [0; 1]%nat = [SDone; SDone].
Proof. split; [unfold ex2; apply ireach_irun; apply ir_init|vm_compute; auto]. Qed.

(* count = 3, one round: quiescent final state, all returned *)
Definition ex3 : ist := irun (iinit 3 [1; 1; 1]%nat) (repeat 0%nat 20 ++ repeat 1%nat 20 ++ repeat 2%nat 40 ++ repeat 0%nat 10 ++ repeat 1%nat 10).
Example ex_single_round_quiescent :
  ireach 3 [1; 1; 1]%nat ex3 /\
  map (status_of (base ex3)) [0; 1; 2]%nat = [SDone; SDone; SDone] /\
  rets ex3 = [(2%nat, 1%nat, 1); (0%nat, 1%nat, 0); (1%nat, 1%nat, 0)].
Proof. split; [unfold ex3; apply ireach_irun; apply ir_init|vm_compute; auto]. Qed.
