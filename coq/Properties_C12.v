(* C12 — barrier (src/fiber_barrier.c on fiber_manager.c's wait_in_mpsc_queue /
   wake_from_mpsc_queue).  Statements over the reachable states of coq/Barrier.v
   (client of the T1 kernel model coq/T1K.v), instrumented with ghost logs
   (BarrierProofs.ist: ent / arr / rets = "entered round k" / fetch_add executed
   with value v / returned r; erasure: lstep_erase, reachable_ireach).
   [init two count rounds]: fiber t performs [nth t rounds 0] consecutive
   fiber_barrier_wait calls on one barrier initialised with [count];
   two = true is the code in /repo (20d3952: one waiter list per round parity),
   two = false the original one-list protocol (kept as a regression only).
   The counter starts at 0, which is what fiber_barrier_init sets.  Barrier.init_at has an
   extra [start] parameter (initial counter value, a whole number of completed rounds): it
   exists for the lock-step cases only (long-lived barrier whose counter is near or beyond
   2^32) and no theorem below is stated for start <> 0.  The model's counter is an
   unbounded Z; the C counter is uint64 — guard: fewer than 2^64 arrivals.

   round_safe count x          : returned x t k -> count fibers entered their k-th wait
   round_safe_arrived count x  : returned x t k -> count DISTINCT fibers executed the
                                 fetch_add of their k-th wait *)
From Coq Require Import List ZArith Lia.
From LF Require Import Conc T1K Barrier BarrierProofs BarrierInv.
Import ListNotations.
Local Open Scope Z_scope.

(* ---- the repaired protocol: exactly count fibers, any count >= 1, any numbers of
   consecutive rounds per fiber, any schedule ---- *)

(* nobody returns from its k-th wait before count fibers entered (even: count distinct
   fibers executed the fetch_add of) their k-th wait *)
Theorem barrier_round_safety : forall count rounds x,
  1 <= count -> length rounds = Z.to_nat count -> ireach true count rounds x ->
  round_safe_arrived count x /\ round_safe count x.
Proof.
  intros count rounds x Hc Hl R.
  exact (round_safe_of_G count Hc x (ireach_l1 _ _ _ _ R) (ireach_G count Hc rounds x Hl R)).
Qed.
Print Assumptions barrier_round_safety.

(* (a) In EVERY configuration of either protocol (any count, any number of fibers, any
   rounds, any schedule): arrival numbers are 0,1,2,.. in execution order, one arrival
   per (fiber, call), and a call returns 1 exactly when its arrival number is
   = count-1 modulo count.  (b) For the repaired protocol with exactly count fibers:
   at most one fiber returns 1 in every round. *)
Theorem barrier_one_serial_per_round : forall count,
  (forall tw rounds x, ireach tw count rounds x ->
     word (mem (base x)) 0%nat = Z.of_nat (length (arr x)) /\
     (forall i t k v, nth_error (arr x) i = Some (t, k, v) -> v = Z.of_nat i) /\
     NoDup (map fst (arr x)) /\ NoDup (map fst (rets x)) /\
     (forall t k r, In (t, k, r) (rets x) ->
        exists v, In (t, k, v) (arr x) /\
                  ((r = 1 /\ (v + 1) mod count = 0) \/ (r = 0 /\ (v + 1) mod count <> 0)))) /\
  (forall rounds x t t' k, 1 <= count -> length rounds = Z.to_nat count -> ireach true count rounds x ->
     In (t, k, 1) (rets x) -> In (t', k, 1) (rets x) -> t = t').
Proof.
  intros count. split.
  - intros tw rounds x R. exact (one_serial_of_l1 count x (ireach_l1 tw count rounds x R)).
  - intros rounds x t t' k Hc Hl R.
    exact (one_serial_round count Hc x t t' k (ireach_l1 _ _ _ _ R) (ireach_G count Hc rounds x Hl R)).
Qed.
Print Assumptions barrier_one_serial_per_round.

(* at most one fiber is inside a pop loop at any time — hence a single consumer per list *)
Theorem barrier_single_consumer : forall count rounds x t u q q',
  1 <= count -> length rounds = Z.to_nat count -> ireach true count rounds x ->
  in_pop_loop (base x) t q -> in_pop_loop (base x) u q' -> t = u.
Proof.
  intros count rounds x t u q q' Hc Hl R.
  exact (single_consumer_of_G count x t u q q' (ireach_l1 _ _ _ _ R) (ireach_G count Hc rounds x Hl R)).
Qed.
Print Assumptions barrier_single_consumer.

(* every fiber performs R rounds: at quiescence (no fiber can take a step) every fiber has
   returned from every round and every round had a fiber that returned 1 *)
Theorem barrier_all_return : forall count R rounds x,
  1 <= count -> length rounds = Z.to_nat count -> Forall (fun r => r = R) rounds ->
  ireach true count rounds x -> quiescent x ->
  (forall t k, (t < length rounds)%nat -> (1 <= k <= R)%nat -> returned x t k) /\
  (forall k, (1 <= k <= R)%nat -> exists t, In (t, k, 1) (rets x)).
Proof. intros count R rounds x Hc. exact (all_return_quiescent count Hc R rounds x). Qed.
Print Assumptions barrier_all_return.

(* one round each (either protocol): nobody returns before count distinct fibers executed
   their fetch_add; at most count fetch_adds; the fiber that returns 1 is the one that
   fetched count-1 and it is unique *)
Theorem barrier_single_round : forall tw count rounds x,
  1 <= count -> length rounds = Z.to_nat count -> Forall (fun r => r = 1%nat) rounds ->
  ireach tw count rounds x ->
  round_safe_arrived count x /\
  Z.of_nat (length (arr x)) <= count /\
  (forall t k, In (t, k, 1) (rets x) -> k = 1%nat /\ In (t, 1%nat, count - 1) (arr x)) /\
  (forall t t' k k', In (t, k, 1) (rets x) -> In (t', k', 1) (rets x) -> t = t' /\ k = k').
Proof. exact single_round_facts. Qed.
Print Assumptions barrier_single_round.

(* in every configuration of either protocol: no call returns before count fetch_adds *)
Theorem barrier_no_return_before_count : forall tw count rounds x t k r,
  1 <= count -> ireach tw count rounds x -> In (t, k, r) (rets x) ->
  count <= Z.of_nat (length (arr x)).
Proof. intros tw count rounds x t k r. exact (no_return_before_count tw count rounds x t k r). Qed.
Print Assumptions barrier_no_return_before_count.

(* ---- regression: the ORIGINAL one-list protocol violates round safety (F-C12, fixed
   in /repo by 20d3952).  count = 3, three fibers, two rounds each, 49 steps: the serial
   fiber 2 of round 1, still one entry short because fiber 1 has incremented the counter
   but not yet enqueued, pops the round-2 entry of fiber 0, which returns from round 2
   although only fibers 0 and 2 have entered it.  corpus/C12.txt replays the same case on
   the real code (it passes on the repaired code; the same schedule on the two-list model:
   w_facts2). *)
Theorem barrier_round_safety_one_list_refuted :
  exists (count : Z) (rounds : list nat) (x : ist),
    count = 3 /\ rounds = [2; 2; 2]%nat /\
    ireach false count rounds x /\ reachable M (init false count rounds) (base x) /\
    returned x 0 2 /\ entered_fibers x 2 = [0; 2]%nat /\ arrived_fibers x 2 = [0]%nat /\
    ~ round_safe count x.
Proof.
  exists 3, [2; 2; 2]%nat, w_state.
  pose proof w_facts as [Hr [He [Ha _]]].
  split; [reflexivity|]. split; [reflexivity|]. split; [exact w_reach|].
  split; [exact (ireach_base _ _ _ _ w_reach)|].
  split; [exists 0; rewrite Hr; cbn; auto|].
  split; [exact He|]. split; [exact Ha|exact w_not_round_safe].
Qed.
Print Assumptions barrier_round_safety_one_list_refuted.

(* ---- outside the property's setting (F-C12b, documented, not fixed): with MORE
   participants than count two serial fibers pop the same list at once, also in the
   repaired protocol: count = 2, six fibers, one round each ---- *)
Theorem barrier_more_participants_refuted :
  exists (count : Z) (rounds : list nat) (s : st) (t u q : nat),
    count = 2 /\ length rounds = 6%nat /\ reachable M (init true count rounds) s /\ t <> u /\
    in_pop_loop s t q /\ in_pop_loop s u q.
Proof.
  exists 2, [1; 1; 1; 1; 1; 1]%nat, (base c_state), 1%nat, 5%nat, 0%nat.
  pose proof c_facts as [H2 H5].
  split; [reflexivity|]. split; [reflexivity|]. split; [exact (ireach_base _ _ _ _ c_reach)|].
  split; [discriminate|]. split; [exact H2|exact H5].
Qed.
Print Assumptions barrier_more_participants_refuted.

(* ---- non-vacuity ---- *)
(* count = 3, three fibers, two rounds each, repaired protocol, run to completion *)
Definition ex3 : ist :=
  irun (iinit true 3 [2; 2; 2]%nat) (w_sched ++ repeat 1%nat 40 ++ repeat 2%nat 80 ++ repeat 0%nat 60
                                      ++ repeat 1%nat 60 ++ repeat 2%nat 60 ++ repeat 0%nat 60 ++ repeat 1%nat 60).
Example ex_count3_reuse :
  ireach true 3 [2; 2; 2]%nat ex3 /\
  map (status_of (base ex3)) [0; 1; 2]%nat = [SDone; SDone; SDone] /\
  length (rets ex3) = 6%nat /\ (forall t, status_of (base ex3) t <> SReady).
Proof.
  split; [unfold ex3; apply ireach_irun; apply ir_init|]. split; [vm_compute; reflexivity|].
  split; [vm_compute; reflexivity|]. intros t.
  destruct t as [|[|[|t]]]; vm_compute; discriminate.
Qed.
