(* C04: client of T1K for fiber_join / fiber_tryjoin / fiber_detach against the
   completion of the target fiber (src/fiber.c: fiber_mark_completed,
   fiber_join_routine, fiber_join, fiber_tryjoin, fiber_detach;
   src/fiber_manager.c: set_and_wait, clear_or_wait, done_fiber reclamation in
   do_maintenance).  Harness: rt/h_join.c.

   Thread 0 is the TARGET fiber; threads 1.. are client fibers operating on the
   target's handle.  Client cells (trace loc 500+c):
     cell 0        target->detach_state  (0 NONE 1 WAIT_FOR_JOINER 2 WAIT_TO_JOIN 3 DETACHED)
     cell 1        target->join_info     (fiber name 1000+t, 0 = NULL)
     cell 10+t     fiber t's result field (target's result for t = 0; the
                   joiner's mailbox for t > 0)
   Silent harness-side cells (never in the trace):
     cell 3        "handle given up": a join/tryjoin/detach returned SUCCESS
     cell 4        number of times the target fiber was handed to free()
   Trace loc 600 (kind 919, value 1000): fiber_destroy() freed the target.
   Case params: [0] drain_max, [1] 1 = unguarded, [2] 1 = repaired fiber_detach/fiber_join
   (commit 4ff1f32, the current code), 0 = the code before it (regression of F-C04a).   *)
From Coq Require Import List ZArith Lia Bool Arith.
From LF Require Import Conc T1K.
Import ListNotations.
Local Open Scope Z_scope.

Definition D_NONE := 0. Definition D_WFJ := 1. Definition D_WTJ := 2. Definition D_DET := 3.

Definition c_ds : nat := 0%nat.
Definition c_ji : nat := 1%nat.
Definition c_inv : nat := 3%nat.
Definition c_recl : nat := 4%nat.
Definition c_res (t : nat) : nat := (10 + t)%nat.
Definition tgt : nat := 0%nat.
Definition l_reclaim : Z := 600.
(* FIBER_JOIN_DETACHED: the address of a file-static object in fiber.c; it is in no
   named range, so the runtime prints it as -777777 *)
Definition SENT : Z := -777777.

Inductive jop := JJoin | JTry | JDetach | JYield | JFinish (r : Z) | JSkip.

(* client continuation frames; p = rest of the program, k = index of the call *)
Inductive jc :=
| JNext (p : list jop) (k : nat)                 (* start the next call *)
| JYielded (p : list jop) (k : nat)
(* fiber_mark_completed + body of fiber_join_routine, on the target *)
| TStored | TLoaded | TXchg | TWoke | TTook | TReadRes (j : nat) | TGave (j : nat) | TReady (j : nat)
| TDoneW | TY1 | TY2 | TY3 | TY4 | TY5
(* fiber_join *)
| JLoaded (p : list jop) (k : nat) | JXchg (p : list jop) (k : nat)
| JWoke (p : list jop) (k : nat) | JChk (p : list jop) (k : nat) | JDetd (p : list jop) (k : nat) | JMail (p : list jop) (k : nat) | JCleared (p : list jop) (k : nat) (v : Z)
| JReadRes (p : list jop) (k : nat) | JTook (p : list jop) (k : nat) (r : Z) | JReady (p : list jop) (k : nat) (r : Z) (j : nat)
(* fiber_tryjoin *)
| TrL1 (p : list jop) (k : nat) | TrL2 (p : list jop) (k : nat) | TrX (p : list jop) (k : nat)
(* fiber_detach *)
| DX (p : list jop) (k : nat) | DTook (p : list jop) (k : nat) | DSent (p : list jop) (k : nat) (j : nat) | DReady (p : list jop) (k : nat) (j : nat).

Definition retev (t k : nat) (v : Z) : list Z := [Zn t; Zn k; 909; v].

Section Client.
  Variable guarded : bool.
  (* true: the repaired code (commit 4ff1f32: fiber_detach marks the joiner it wakes with
     FIBER_JOIN_DETACHED, the woken fiber_join returns FIBER_ERROR); false: the code before it *)
  Variable fixd : bool.

  (* begin the calls of the program; skipped calls only emit ret -1.
     inv = the harness-side "handle given up" flag *)
  Fixpoint start (t : nat) (inv : bool) (prog : list jop) (k : nat) : list Z * stack jc :=
    match prog with
    | [] => ([], [])
    | o :: p =>
      let skip := let '(e, s) := start t inv p (S k) in (retev t k (-1) ++ e, s) in
      match o with
      | JYield => ([], [YRead; FC (JYielded p k)])
      | JFinish r => if (t =? tgt)%nat then ([], [CStoreC (c_res tgt) r 3; FC TStored]) else skip
      | JJoin => if (t =? tgt)%nat || (guarded && inv) then skip
                 else ([], [CLoadC c_ds 5; FC (JLoaded p k)])
      | JTry => if (t =? tgt)%nat || (guarded && inv) then skip
                else ([], [CLoadC c_ds 5; FC (TrL1 p k)])
      | JDetach => if (t =? tgt)%nat || (guarded && inv) then skip
                   else ([], [CXchgC c_ds D_DET 5; FC (DX p k)])
      | JSkip => skip
      end
    end.

  Definition given_up (m : kmem) : bool := negb (cell m c_inv =? 0).

  (* call k returns v (and gives the handle up if it succeeded): report, go on *)
  Definition fin (m : kmem) (t : nat) (p : list jop) (k : nat) (v : Z) (giveup : bool)
    : kmem * list Z * stack jc :=
    let m1 := if giveup then set_cell m c_inv 1 else m in
    let '(e, s) := start t (given_up m1) p (S k) in (m1, retev t k v ++ e, s).

  (* the_fiber->state = DONE; done_fiber = self; fiber_manager_yield *)
  Definition tdone : stack jc := [FStWrite tgt ST_DONE; FC TDoneW].

  (* to_schedule->state = READY done: fiber_manager_schedule(to_schedule) *)
  Definition sched (m : kmem) (t j : nat) : kmem * list Z := (wake m j, ev t 901 919 (Zn j)).

  Definition cret (m : kmem) (t : nat) (c : jc) (v : Z) : kmem * list Z * stack jc :=
    match c with
    | JNext p k => let '(e, s) := start t (given_up m) p k in (m, e, s)
    | JYielded p k => fin m t p k 3 false
    (* ---- target: fiber_mark_completed(self, r) ---- *)
    | TStored => (m, [], [CLoadC c_ds 5; FC TLoaded])
    | TLoaded => if v =? D_DET then (m, [], tdone) else (m, [], [CXchgC c_ds D_WFJ 5; FC TXchg])
    | TXchg => if v =? D_NONE then (m, [], [SWState c_ji (fname tgt); FC TWoke])
               else if v =? D_WTJ then (m, [], [CWXchg c_ji; FC TTook])
               else (m, [], tdone)
    | TWoke => (m, [], tdone)
    | TTook => (m, [], [CLoadC (c_res tgt) 5; FC (TReadRes (tid_of_name v))])
    | TReadRes j => (m, [], [CStoreC (c_res j) v 5; FC (TGave j)])
    | TGave j => (m, [], [FStWrite j ST_READY; FC (TReady j)])
    | TReady j => let '(m1, e1) := sched m t j in (m1, e1, tdone)
    (* ---- target: done_fiber = self; yield; the switch never returns:
            t1.c's fiber_context_swap runs do_maintenance, which destroys
            done_fiber, and leaves ---- *)
    | TDoneW => (m, [], [FStRead tgt; FC TY1])                 (* yield: state = current->state *)
    | TY1 => (m, [], [YNext ST_RUNNING; FC TY2])               (* fiber_scheduler_next point *)
    | TY2 => (m, [], [FStRead tgt; FC TY3])                    (* switch_to: old->state == RUNNING ? *)
    | TY3 => (m, [], [FStRead tgt; FC TY4])                    (* t1 adapter: self->state == DONE ? *)
    | TY4 => (m, [], [FStRead tgt; FC TY5])                    (* do_maintenance: old->state == SAVING ? *)
    | TY5 => (set_cell m c_recl (cell m c_recl + 1), ev t l_reclaim 919 (fname tgt), [])
    (* ---- fiber_join ---- *)
    | JLoaded p k => if v =? D_DET then fin m t p k 0 false
                     else (m, [], [CXchgC c_ds D_WTJ 5; FC (JXchg p k)])
    | JXchg p k => if v =? D_NONE then (m, [], [SWState c_ji (fname t); FC (JWoke p k)])
                   else if v =? D_WFJ then (m, [], [CLoadC (c_res tgt) 5; FC (JReadRes p k)])
                   else fin m t p k 0 false
    | JWoke p k => if fixd then (m, [], [CLoadC (c_res t) 5; FC (JChk p k)])   (* result == FIBER_JOIN_DETACHED ? *)
                   else (m, [], [CLoadC (c_res t) 5; FC (JMail p k)])
    | JChk p k => if v =? SENT then (m, [], [CStoreC (c_res t) 0 5; FC (JDetd p k)])
                  else (m, [], [CLoadC (c_res t) 5; FC (JMail p k)])
    | JDetd p k => fin m t p k 0 false
    | JMail p k => (m, [], [CStoreC (c_res t) 0 5; FC (JCleared p k v)])
    | JCleared p k r => fin m t p k (100 + r) true
    | JReadRes p k => (m, [], [CWXchg c_ji; FC (JTook p k v)])
    | JTook p k r => (m, [], [FStWrite (tid_of_name v) ST_READY; FC (JReady p k r (tid_of_name v))])
    | JReady p k r j => let '(m1, e1) := sched m t j in
                      let '(m2, e2, s2) := fin m1 t p k (100 + r) true in (m2, e1 ++ e2, s2)
    (* ---- fiber_tryjoin ---- *)
    | TrL1 p k => if v =? D_DET then fin m t p k 0 false
                  else (m, [], [CLoadC c_ds 5; FC (TrL2 p k)])
    | TrL2 p k => if v =? D_WFJ then (m, [], [CXchgC c_ds D_WTJ 5; FC (TrX p k)])
                  else fin m t p k 0 false
    | TrX p k => if v =? D_WFJ then (m, [], [CLoadC (c_res tgt) 5; FC (JReadRes p k)])
                 else fin m t p k 0 false
    (* ---- fiber_detach ---- *)
    | DX p k => if (v =? D_WFJ) || (v =? D_WTJ) then (m, [], [CWXchg c_ji; FC (DTook p k)])
                else if v =? D_DET then fin m t p k 0 false
                else fin m t p k 100 true
    | DTook p k => if fixd && negb (tid_of_name v =? tgt)%nat
                   then (m, [], [CStoreC (c_res (tid_of_name v)) SENT 5; FC (DSent p k (tid_of_name v))])
                   else (m, [], [FStWrite (tid_of_name v) ST_READY; FC (DReady p k (tid_of_name v))])
    | DSent p k j => (m, [], [FStWrite j ST_READY; FC (DReady p k j)])
    | DReady p k j => let '(m1, e1) := sched m t j in
                    let '(m2, e2, s2) := fin m1 t p k 100 true in (m2, e1 ++ e2, s2)
    end.
End Client.

Record st := { mem : kmem; stk : nat -> stack jc; nthr : nat; grd : bool; fxd : bool }.

Definition step (s : st) (t : nat) : st * list Z :=
  let '(m1, e1, s1) := kstep jc (cret (grd s) (fxd s)) (mem s) t (stk s t) in
  ({| mem := m1; stk := upd (stk s) t s1; nthr := nthr s; grd := grd s; fxd := fxd s |}, e1).

Definition status_of (s : st) (t : nat) : status :=
  if (t <? nthr s)%nat then kstatus jc (mem s) t (stk s t) else SDone.

Definition init (fx g : bool) (progs : list (list jop)) : st :=
  {| mem := kinit 0 (fun _ => 0);
     stk := fun t => [Start; FC (JNext (nth t progs []) 1)];
     nthr := length progs; grd := g; fxd := fx |}.

Definition M : machine :=
  {| mstate := st; mstep := step; mstatus := status_of; mthreads := nthr |}.

Definition dec_op (p : Z * Z) : jop :=
  match fst p with
  | 1 => JJoin | 2 => JTry | 3 => JDetach | 4 => JYield
  | 5 => JFinish (if (0 <? snd p) && (snd p <? 100) then snd p else 1)
  | _ => JSkip
  end.

Definition run_case (l : list Z) : list Z :=
  match decode_case l with
  | Some c => run_all M (init (nthZ (c_params c) 2 =? 1) (negb (nthZ (c_params c) 1 =? 1))
                              (map (map dec_op) (c_progs c))) []
                      (c_sched c) (Z.to_nat (nthZ (c_params c) 0))
  | None => [(-1)%Z]
  end.
