(* C05 proofs, part 1: the stacks of the T1K kernel as used by coq/Cond.v,
   flattened into a "phase" per thread (where in which kernel call, on behalf
   of which client continuation), with a hand-written flat transition function
   [pstep] and the proof that it is exactly [Cond.kstepC] on the stack the
   phase stands for ([pstep_sim]).  All invariants of CondProofs.v are stated
   on phases; no statement here is trusted: everything is tied back to the
   executable machine by [pstep_sim]. *)
From Coq Require Import List ZArith Lia Bool Arith.
From LF Require Import Conc T1K Cond.
Import ListNotations.
Local Open Scope Z_scope.

(* a yield made by a running fiber (spin of a failed pop, contended unlock) *)
Inductive spinpos := SPRead | SPNext (st : Z).

(* fiber_manager_wake_from_mpsc_queue *)
Inductive wakepos :=
| KPHead | KPNext (h : nat) | KPSetHead (h nx : nat) | KPData (h nx : nat) | KPCopy (h : nat) (d : Z)
| KPOut (h : nat) | KPState (f : nat) | KPReady (f : nat) | KPSpin (sp : spinpos).

(* fiber_mutex_unlock_internal *)
Inductive unlkipos := IPAdd | IPWake (wc : Z) (kp : wakepos).

(* the yield of a fiber that is going to wait; [resumed] is ghost *)
Inductive yieldpos :=
| YPRead (resumed : bool) | YPNext (resumed : bool) (st : Z) | YPSwRead | YPSwDone | YPMRead | YPMFlip
| YPMaint (q : nat) (ip : unlkipos) | YPAsleep | YPResume.

(* fiber_manager_wait_in_mpsc_queue *)
Inductive waitpos :=
| WPSaving | WPData | WPNext (n : nat) | WPXchg (n : nat) | WPLink (p n : nat) | WPYield (yp : yieldpos).

Inductive lockpos := LPSub | LPWait (wp : waitpos).
Inductive unlockpos := UPAdd | UPWake (wc : Z) (kp : wakepos) | UPYield (sp : spinpos).

Inductive acc :=
| ACWrite (c : nat) (v : Z) | ACRead (c : nat)
| AWFAdd (q : nat) (d mo : Z) | AWFSub (q : nat) (d mo : Z) | AWXchg (q : nat) (v mo : Z) | AWLoad (q : nat) (mo : Z).

Inductive kpos :=
| KStart | KAcc (a : acc) | KLock (q : nat) (lp : lockpos) | KWait (q : nat) (wp : waitpos)
| KUnlock (q : nat) (up : unlockpos) | KWake (q : nat) (cnt wc : Z) (kp : wakepos).

Inductive phase := PDone | PJunk (s : stack cc) | PRun (c : cc) (kp : kpos).

(* ---- the stack a phase stands for ---- *)
Definition spin_stack (sp : spinpos) : stack cc :=
  match sp with SPRead => [YRead] | SPNext st => [YNext st] end.

Definition wake_stack (q : nat) (cnt wc : Z) (kp : wakepos) : stack cc :=
  match kp with
  | KPHead => [KHead q cnt wc] | KPNext h => [KNext q cnt wc h]
  | KPSetHead h nx => [KSetHead q cnt wc h nx] | KPData h nx => [KData q cnt wc h nx]
  | KPCopy h d => [KCopy q cnt wc h d] | KPOut h => [KOut q cnt wc h]
  | KPState f => [KState q cnt wc f] | KPReady f => [KReady q cnt wc f]
  | KPSpin sp => spin_stack sp ++ [KSpin q cnt wc]
  end.

Definition unlki_stack (q : nat) (ip : unlkipos) : stack cc :=
  match ip with IPAdd => [UAdd q] | IPWake wc kp => wake_stack q 1 wc kp ++ [UWoke] end.

Definition yield_stack (yp : yieldpos) : stack cc :=
  match yp with
  | YPRead _ => [YRead] | YPNext _ st => [YNext st]
  | YPSwRead => [SwRead; YLoop] | YPSwDone => [SwDone; YLoop]
  | YPMRead => [MRead; YLoop] | YPMFlip => [MFlip; YLoop]
  | YPMaint q ip => unlki_stack q ip ++ [MSlots; YLoop]
  | YPAsleep => [Asleep; YLoop] | YPResume => [Resume; YLoop]
  end.

Definition wait_stack (q : nat) (wp : waitpos) : stack cc :=
  match wp with
  | WPSaving => [WSaving q] | WPData => [WData q] | WPNext n => [WNext q n]
  | WPXchg n => [WXchg q n] | WPLink p n => [WLink q p n] | WPYield yp => yield_stack yp
  end.

Definition lock_stack (q : nat) (lp : lockpos) : stack cc :=
  match lp with LPSub => [LSub q] | LPWait wp => wait_stack q wp ++ [LWaited] end.

Definition unlock_stack (q : nat) (up : unlockpos) : stack cc :=
  match up with
  | UPAdd => [UAdd q; UYield]
  | UPWake wc kp => wake_stack q 1 wc kp ++ [UWoke; UYield]
  | UPYield sp => spin_stack sp ++ [UDone]
  end.

Definition acc_frame (a : acc) : frame cc :=
  match a with
  | ACWrite c v => CWrite c v | ACRead c => CRead c
  | AWFAdd q d mo => WFAdd q d mo | AWFSub q d mo => WFSub q d mo
  | AWXchg q v mo => WXchgW q v mo | AWLoad q mo => WLoadW q mo
  end.

Definition kstack (kp : kpos) : stack cc :=
  match kp with
  | KStart => [Start] | KAcc a => [acc_frame a]
  | KLock q lp => lock_stack q lp | KWait q wp => wait_stack q wp
  | KUnlock q up => unlock_stack q up | KWake q cnt wc kp => wake_stack q cnt wc kp
  end.

Definition stack_of (ph : phase) : stack cc :=
  match ph with PDone => [] | PJunk s => s | PRun c kp => kstack kp ++ [FC c] end.

(* the phase at the first access of a call the client starts *)
Definition phase_of_start (s : stack cc) : phase :=
  match s with
  | [] => PDone
  | [LSub q; FC c] => PRun c (KLock q LPSub)
  | [UAdd q; UYield; FC c] => PRun c (KUnlock q UPAdd)
  | [WSaving q; FC c] => PRun c (KWait q WPSaving)
  | [KHead q cnt wc; FC c] => PRun c (KWake q cnt wc KPHead)
  | [CWrite i v; FC c] => PRun c (KAcc (ACWrite i v))
  | [CRead i; FC c] => PRun c (KAcc (ACRead i))
  | [WFAdd q d mo; FC c] => PRun c (KAcc (AWFAdd q d mo))
  | [WFSub q d mo; FC c] => PRun c (KAcc (AWFSub q d mo))
  | [WXchgW q v mo; FC c] => PRun c (KAcc (AWXchg q v mo))
  | [WLoadW q mo; FC c] => PRun c (KAcc (AWLoad q mo))
  | _ => PJunk s
  end.

Lemma stack_of_start s : stack_of (phase_of_start s) = s.
Proof.
  destruct s as [|f s]; [reflexivity|].
  destruct f; try reflexivity;
    (destruct s as [|g s]; [reflexivity|]; destruct g; try reflexivity;
     destruct s as [|g' s]; try reflexivity).
  destruct g'; try reflexivity. destruct s; reflexivity.
Qed.

(* ---- the flat transition function ---- *)
Definition waitingish (st : Z) : bool := (st =? ST_WAITING) || (st =? ST_DONE) || (st =? ST_SAVING).

(* control returns to the client continuation c with value v *)
Definition creturn (m : kmem) (t : nat) (c : cc) (v : Z) : kmem * phase :=
  let '(m1, _, s1) := cret m t c v in (m1, phase_of_start s1).

(* fallback: whatever the kernel does on the stack itself *)
Definition junk (m : kmem) (t : nat) (ph : phase) : kmem * phase :=
  let '(m1, _, s1) := kstepC m t (stack_of ph) in (m1, PJunk s1).

Inductive wres := WCont (wc : Z) (kp : wakepos) | WRet (v : Z) | WJunk.

Definition wloop (cnt wc : Z) : wres := if wc <? cnt then WCont wc KPHead else WRet wc.

Definition wake_step (m : kmem) (t : nat) (q : nat) (cnt wc : Z) (kp : wakepos) (inm : bool) : kmem * wres :=
  match kp with
  | KPHead => (m, WCont wc (KPNext (qhead m q)))
  | KPNext h =>
      match nnext m h with
      | S _ => (m, WCont wc (KPSetHead h (nnext m h)))
      | O => if 0 <? cnt then (if inm then (m, wloop cnt wc) else (m, WCont wc (KPSpin SPRead)))
             else (m, wloop cnt wc)
      end
  | KPSetHead h nx => (set_qhead m q nx, WCont wc (KPData h nx))
  | KPData h nx => (m, WCont wc (KPCopy h (ndata m nx)))
  | KPCopy h d => (set_ndata m h d, WCont wc (KPOut h))
  | KPOut h => let f := tid_of_name (ndata m h) in (set_fnode m f h, WCont wc (KPState f))
  | KPState f =>
      if fstate m f =? ST_WAITING then (m, WCont wc (KPReady f))
      else (wake m f, wloop cnt (wc + 1))
  | KPReady f => (wake (set_fstate m f ST_READY) f, wloop cnt (wc + 1))
  | KPSpin SPRead => (m, WCont wc (KPSpin (SPNext (fstate m t))))
  | KPSpin (SPNext st) => if waitingish st then (m, WJunk) else (m, wloop cnt wc)
  end.

Inductive ires := ICont (ip : unlkipos) | IRet (v : Z) | IJunk.

Definition unlki_step (m : kmem) (t : nat) (q : nat) (ip : unlkipos) (inm : bool) : kmem * ires :=
  match ip with
  | IPAdd => let o := word m q in
             let m0 := set_word m q (o + 1) in
             if o + 1 =? 1 then (m0, IRet 0) else (m0, ICont (IPWake 0 KPHead))
  | IPWake wc kp =>
      match wake_step m t q 1 wc kp inm with
      | (m1, WCont wc' kp') => (m1, ICont (IPWake wc' kp'))
      | (m1, WRet _) => (m1, IRet 1)
      | (m1, WJunk) => (m1, IJunk)
      end
  end.

Inductive yres := YCont (yp : yieldpos) | YRet | YJunk.

Definition sleep_p (m : kmem) (t : nat) : kmem * yres :=
  match pend m t with
  | S k => (set_pend m t k, YCont YPResume)
  | O => (set_blocked m t true, YCont YPAsleep)
  end.

Definition slots_p (m : kmem) (t : nat) : kmem * yres :=
  if slot_sched m t then (m, YJunk) else
  match slot_mpmc m t with
  | Some _ => (m, YJunk)
  | None =>
    match slot_mutex m t with
    | Some q => (set_slot_mutex m t None, YCont (YPMaint q IPAdd))
    | None => match slot_wait m t with
              | Some _ => (m, YJunk)
              | None => sleep_p m t
              end
    end
  end.

Definition yield_step (m : kmem) (t : nat) (yp : yieldpos) : kmem * yres :=
  match yp with
  | YPRead b => (m, YCont (YPNext b (fstate m t)))
  | YPNext b st => if waitingish st then (m, YCont YPSwRead) else (m, YRet)
  | YPSwRead => if fstate m t =? ST_RUNNING then (m, YJunk) else (m, YCont YPSwDone)
  | YPSwDone => (m, YCont YPMRead)
  | YPMRead => if fstate m t =? ST_SAVING then (m, YCont YPMFlip) else slots_p m t
  | YPMFlip => slots_p (set_fstate m t ST_WAITING) t
  | YPMaint q ip =>
      match unlki_step m t q ip true with
      | (m1, ICont ip') => (m1, YCont (YPMaint q ip'))
      | (m1, IRet _) => slots_p m1 t
      | (m1, IJunk) => (m1, YJunk)
      end
  | YPAsleep => (m, YCont YPResume)
  | YPResume => (set_fstate m t ST_RUNNING, YCont (YPRead true))
  end.

Inductive wtres := TCont (wp : waitpos) | TRet | TJunk.

Definition wait_step (m : kmem) (t : nat) (q : nat) (wp : waitpos) : kmem * wtres :=
  match wp with
  | WPSaving => (set_fstate m t ST_SAVING, TCont WPData)
  | WPData => let n := fnode m t in (set_fnode (set_ndata m n (fname t)) t O, TCont (WPNext n))
  | WPNext n => (set_nnext m n O, TCont (WPXchg n))
  | WPXchg n => (set_qtail m q n, TCont (WPLink (qtail m q) n))
  | WPLink p n => (set_nnext m p n, TCont (WPYield (YPRead false)))
  | WPYield yp =>
      match yield_step m t yp with
      | (m1, YCont yp') => (m1, TCont (WPYield yp'))
      | (m1, YRet) => (m1, TRet)
      | (m1, YJunk) => (m1, TJunk)
      end
  end.

Definition pstep (m : kmem) (t : nat) (ph : phase) : kmem * phase :=
  match ph with
  | PDone => (m, PDone)
  | PJunk _ => junk m t ph
  | PRun c kp =>
    match kp with
    | KStart => creturn (set_fstate m t ST_RUNNING) t c 0
    | KAcc a =>
        match a with
        | ACWrite i v => creturn (set_cell m i v) t c 0
        | ACRead i => creturn m t c (cell m i)
        | AWFAdd q d _ => creturn (set_word m q (word m q + d)) t c (word m q)
        | AWFSub q d _ => creturn (set_word m q (word m q - d)) t c (word m q)
        | AWXchg q v _ => creturn (set_word m q v) t c (word m q)
        | AWLoad q _ => creturn m t c (word m q)
        end
    | KLock q LPSub =>
        let o := word m q in
        let m0 := set_word m q (o - 1) in
        if o - 1 =? 0 then creturn m0 t c 1 else (m0, PRun c (KLock q (LPWait WPSaving)))
    | KLock q (LPWait wp) =>
        match wait_step m t q wp with
        | (m1, TCont wp') => (m1, PRun c (KLock q (LPWait wp')))
        | (m1, TRet) => creturn m1 t c 1
        | (m1, TJunk) => junk m t ph
        end
    | KWait q wp =>
        match wait_step m t q wp with
        | (m1, TCont wp') => (m1, PRun c (KWait q wp'))
        | (m1, TRet) => creturn m1 t c 0
        | (m1, TJunk) => junk m t ph
        end
    | KUnlock q UPAdd =>
        let o := word m q in
        let m0 := set_word m q (o + 1) in
        if o + 1 =? 1 then creturn m0 t c 1 else (m0, PRun c (KUnlock q (UPWake 0 KPHead)))
    | KUnlock q (UPWake wc kp) =>
        match wake_step m t q 1 wc kp false with
        | (m1, WCont wc' kp') => (m1, PRun c (KUnlock q (UPWake wc' kp')))
        | (m1, WRet _) => (m1, PRun c (KUnlock q (UPYield SPRead)))
        | (m1, WJunk) => junk m t ph
        end
    | KUnlock q (UPYield SPRead) => (m, PRun c (KUnlock q (UPYield (SPNext (fstate m t)))))
    | KUnlock q (UPYield (SPNext st)) => if waitingish st then junk m t ph else creturn m t c 1
    | KWake q cnt wc kp =>
        match wake_step m t q cnt wc kp false with
        | (m1, WCont wc' kp') => (m1, PRun c (KWake q cnt wc' kp'))
        | (m1, WRet v) => creturn m1 t c v
        | (m1, WJunk) => junk m t ph
        end
    end
  end.

(* ---- pstep is kstepC on the stack of the phase ---- *)
Arguments ev : simpl never.
Arguments l_state : simpl never. Arguments l_data : simpl never. Arguments l_next : simpl never.
Arguments l_word : simpl never. Arguments l_head : simpl never. Arguments l_tail : simpl never.
Arguments l_cell : simpl never. Arguments sx32 : simpl never. Arguments fname : simpl never.
Arguments tid_of_name : simpl never. Arguments Z.add : simpl never. Arguments Z.sub : simpl never.
Arguments in_maint : simpl never. Arguments Z.ltb : simpl never. Arguments Z.eqb : simpl never. Arguments Z.leb : simpl never.

Definition noev (x : kmem * list Z * stack cc) : kmem * stack cc := (fst (fst x), snd x).

Ltac ret_destr :=
  repeat match goal with
  | |- context [ret cc cret ?m ?t ?v ?r] =>
      let E := fresh "E" in destruct (ret cc cret m t v r) as [[? ?] ?] eqn:E; cbn
  end.

Definition wake_sim_P (m : kmem) (t q : nat) (cnt wc : Z) (kp : wakepos) (r : stack cc) : Prop :=
  match wake_step m t q cnt wc kp (in_maint r) with
  | (m1, WCont wc' kp') => noev (kstepC m t (wake_stack q cnt wc kp ++ r)) = (m1, wake_stack q cnt wc' kp' ++ r)
  | (m1, WRet v) => noev (kstepC m t (wake_stack q cnt wc kp ++ r)) = noev (ret cc cret m1 t v r)
  | (_, WJunk) => True
  end.

Lemma wake_sim m t q cnt wc kp r : wake_sim_P m t q cnt wc kp r.
Proof.
  unfold wake_sim_P.
  destruct kp as [|h|h nx|h nx|h d|h|f|f|sp]; cbn.
  - reflexivity.
  - destruct (nnext m h) eqn:En; cbn; [|reflexivity].
    destruct (0 <? cnt) eqn:Ec; cbn.
    + destruct (in_maint r) eqn:Em; cbn; [|reflexivity].
      unfold wloop, kloop. destruct (wc <? cnt); cbn; [reflexivity|]. ret_destr. reflexivity.
    + unfold wloop, kloop. destruct (wc <? cnt); cbn; [reflexivity|]. ret_destr. reflexivity.
  - reflexivity.
  - reflexivity.
  - reflexivity.
  - reflexivity.
  - destruct (fstate m f =? ST_WAITING); cbn; [reflexivity|].
    unfold ksched, wloop, kloop. destruct (wc + 1 <? cnt); cbn; [reflexivity|]. ret_destr. reflexivity.
  - unfold ksched, wloop, kloop. destruct (wc + 1 <? cnt); cbn; [reflexivity|]. ret_destr. reflexivity.
  - destruct sp as [|st]; cbn; [reflexivity|].
    unfold waitingish. destruct ((st =? ST_WAITING) || (st =? ST_DONE) || (st =? ST_SAVING)); cbn; [exact I|].
    unfold wloop, kloop. destruct (wc <? cnt); cbn; [reflexivity|]. ret_destr. reflexivity.
Qed.

Lemma in_maint_cons f r : in_maint (f :: r) = is_mslots f || in_maint r.
Proof. reflexivity. Qed.

Definition unlki_sim_P (m : kmem) (t q : nat) (ip : unlkipos) (r : stack cc) : Prop :=
  match unlki_step m t q ip (in_maint r) with
  | (m1, ICont ip') => noev (kstepC m t (unlki_stack q ip ++ r)) = (m1, unlki_stack q ip' ++ r)
  | (m1, IRet v) => noev (kstepC m t (unlki_stack q ip ++ r)) = noev (ret cc cret m1 t v r)
  | (_, IJunk) => True
  end.

Lemma unlki_sim m t q ip r : unlki_sim_P m t q ip r.
Proof.
  unfold unlki_sim_P. destruct ip as [|wc kp].
  - cbn. destruct (word m q + 1 =? 1); cbn; [|reflexivity]. ret_destr. reflexivity.
  - cbn [unlki_step unlki_stack]. rewrite <- app_assoc. cbn [app].
    pose proof (wake_sim m t q 1 wc kp (UWoke :: r)) as W. unfold wake_sim_P in W.
    rewrite in_maint_cons in W. cbn [is_mslots orb] in W.
    destruct (wake_step m t q 1 wc kp (in_maint r)) as [m1 [wc' kp'|v|]].
    + rewrite W. cbn [unlki_stack]. rewrite <- app_assoc. reflexivity.
    + rewrite W. reflexivity.
    + exact I.
Qed.

Definition slots_sim_P (m : kmem) (t : nat) (r : stack cc) : Prop :=
  match slots_p m t with
  | (m1, YCont yp) => noev (run_slots cc m t (YLoop :: r)) = (m1, yield_stack yp ++ r)
  | (_, YRet) => False
  | (_, YJunk) => True
  end.

Lemma slots_sim m t r : slots_sim_P m t r.
Proof.
  unfold slots_sim_P, slots_p, run_slots, sleep_p, sleep.
  destruct (slot_sched m t); [exact I|].
  destruct (slot_mpmc m t); [exact I|].
  destruct (slot_mutex m t); [reflexivity|].
  destruct (slot_wait m t) as [[? ?]|]; [exact I|].
  destruct (pend m t); reflexivity.
Qed.

Definition yield_sim_P (m : kmem) (t : nat) (yp : yieldpos) (r : stack cc) : Prop :=
  match yield_step m t yp with
  | (m1, YCont yp') => noev (kstepC m t (yield_stack yp ++ r)) = (m1, yield_stack yp' ++ r)
  | (m1, YRet) => noev (kstepC m t (yield_stack yp ++ r)) = noev (ret cc cret m1 t 0 r)
  | (_, YJunk) => True
  end.

Lemma yield_sim m t yp r : yield_sim_P m t yp r.
Proof.
  unfold yield_sim_P.
  destruct yp as [b|b st| | | | |q ip| |].
  - reflexivity.
  - cbn. unfold waitingish. destruct ((st =? ST_WAITING) || (st =? ST_DONE) || (st =? ST_SAVING)); cbn; [reflexivity|].
    ret_destr. reflexivity.
  - cbn. destruct (fstate m t =? ST_RUNNING); cbn; [exact I|reflexivity].
  - reflexivity.
  - cbn. destruct (fstate m t =? ST_SAVING); cbn; [reflexivity|].
    pose proof (slots_sim m t r) as S. unfold slots_sim_P in S.
    destruct (slots_p m t) as [m1 [yp'| |]]; try exact I; [|destruct S].
    destruct (run_slots cc m t (YLoop :: r)) as [[? ?] ?]. cbn in *. exact S.
  - cbn. pose proof (slots_sim (set_fstate m t ST_WAITING) t r) as S. unfold slots_sim_P in S.
    destruct (slots_p (set_fstate m t ST_WAITING) t) as [m1 [yp'| |]]; try exact I; [|destruct S].
    destruct (run_slots cc (set_fstate m t ST_WAITING) t (YLoop :: r)) as [[? ?] ?]. cbn in *. exact S.
  - cbn [yield_step yield_stack]. rewrite <- app_assoc. cbn [app].
    pose proof (unlki_sim m t q ip (MSlots :: YLoop :: r)) as U. unfold unlki_sim_P in U.
    rewrite in_maint_cons in U. cbn [is_mslots orb] in U.
    destruct (unlki_step m t q ip true) as [m1 [ip'|v|]].
    + rewrite U. cbn [yield_stack]. rewrite <- app_assoc. reflexivity.
    + rewrite U. cbn [ret].
      pose proof (slots_sim m1 t r) as S. unfold slots_sim_P in S.
      destruct (slots_p m1 t) as [m2 [yp'| |]]; try exact I; [exact S|destruct S].
    + exact I.
  - reflexivity.
  - reflexivity.
Qed.

Definition wait_sim_P (m : kmem) (t q : nat) (wp : waitpos) (r : stack cc) : Prop :=
  match wait_step m t q wp with
  | (m1, TCont wp') => noev (kstepC m t (wait_stack q wp ++ r)) = (m1, wait_stack q wp' ++ r)
  | (m1, TRet) => noev (kstepC m t (wait_stack q wp ++ r)) = noev (ret cc cret m1 t 0 r)
  | (_, TJunk) => True
  end.

Lemma wait_sim m t q wp r : wait_sim_P m t q wp r.
Proof.
  unfold wait_sim_P. destruct wp as [| |n|n|p n|yp]; try reflexivity.
  cbn [wait_step wait_stack].
  pose proof (yield_sim m t yp r) as Y. unfold yield_sim_P in Y.
  destruct (yield_step m t yp) as [m1 [yp'| |]]; auto.
Qed.

Lemma ret_client m t c v :
  noev (ret cc cret m t v [FC c]) = (fst (creturn m t c v), stack_of (snd (creturn m t c v))).
Proof.
  cbn. unfold creturn. destruct (cret m t c v) as [[m1 e1] s1]. cbn.
  now rewrite app_nil_r, stack_of_start.
Qed.

Lemma noev_junk m t ph : noev (kstepC m t (stack_of ph)) = (fst (junk m t ph), stack_of (snd (junk m t ph))).
Proof. unfold junk. destruct (kstepC m t (stack_of ph)) as [[m1 e1] s1]. reflexivity. Qed.

Lemma noev_let (x : kmem * list Z * stack cc) (e : list Z) :
  noev (let '(m1, e1, s1) := x in (m1, e ++ e1, s1)) = noev x.
Proof. destruct x as [[? ?] ?]. reflexivity. Qed.

Theorem pstep_sim m t ph :
  noev (kstepC m t (stack_of ph)) = (fst (pstep m t ph), stack_of (snd (pstep m t ph))).
Proof.
  destruct ph as [| s | c kp].
  - reflexivity.
  - apply noev_junk.
  - destruct kp as [| a | q lp | q wp | q up | q cnt wc kp].
    + cbn. rewrite noev_let. apply ret_client.
    + destruct a; cbn; rewrite noev_let; apply ret_client.
    + destruct lp as [|wp].
      * cbn. destruct (word m q - 1 =? 0); [|reflexivity]. rewrite noev_let. apply ret_client.
      * cbn [stack_of kstack lock_stack pstep]. rewrite <- app_assoc. cbn [app].
        pose proof (wait_sim m t q wp [LWaited; FC c]) as W. unfold wait_sim_P in W.
        destruct (wait_step m t q wp) as [m1 [wp'| |]].
        -- rewrite W. cbn [fst snd stack_of kstack lock_stack]. now rewrite <- app_assoc.
        -- rewrite W. cbn [ret]. apply ret_client.
        -- pose proof (noev_junk m t (PRun c (KLock q (LPWait wp)))) as J.
           cbn [stack_of kstack lock_stack] in J. rewrite <- app_assoc in J. exact J.
    + cbn [stack_of kstack pstep].
      pose proof (wait_sim m t q wp [FC c]) as W. unfold wait_sim_P in W.
      destruct (wait_step m t q wp) as [m1 [wp'| |]].
      * rewrite W. reflexivity.
      * rewrite W. apply ret_client.
      * exact (noev_junk m t (PRun c (KWait q wp))).
    + destruct up as [|wc kp|sp].
      * cbn. destruct (word m q + 1 =? 1); [|reflexivity]. rewrite noev_let. cbn. apply ret_client.
      * cbn [stack_of kstack unlock_stack pstep]. rewrite <- app_assoc. cbn [app].
        pose proof (wake_sim m t q 1 wc kp [UWoke; UYield; FC c]) as W. unfold wake_sim_P in W.
        change (in_maint [UWoke; UYield; FC c]) with false in W.
        destruct (wake_step m t q 1 wc kp false) as [m1 [wc' kp'|v|]].
        -- rewrite W. cbn [fst snd stack_of kstack unlock_stack]. now rewrite <- app_assoc.
        -- rewrite W. reflexivity.
        -- pose proof (noev_junk m t (PRun c (KUnlock q (UPWake wc kp)))) as J.
           cbn [stack_of kstack unlock_stack] in J. rewrite <- app_assoc in J. exact J.
      * destruct sp as [|st]; [reflexivity|].
        cbn [pstep]. unfold waitingish.
        destruct ((st =? ST_WAITING) || (st =? ST_DONE) || (st =? ST_SAVING)) eqn:Ew.
        -- apply noev_junk.
        -- cbn. rewrite Ew. rewrite noev_let. cbn. apply ret_client.
    + cbn [stack_of kstack pstep].
      pose proof (wake_sim m t q cnt wc kp [FC c]) as W. unfold wake_sim_P in W.
      change (in_maint [FC c]) with false in W.
      destruct (wake_step m t q cnt wc kp false) as [m1 [wc' kp'|v|]].
      * rewrite W. reflexivity.
      * rewrite W. apply ret_client.
      * exact (noev_junk m t (PRun c (KWake q cnt wc kp))).
Qed.
Print Assumptions pstep_sim.
