(* C11 model "spchan": the unbounded single-producer channel of
   include/fiber_channel.h (fiber_unbounded_sp_channel_send / _receive /
   _try_receive over include/spsc_fifo.h) with its ready signal, on the T1
   machine.  Same cell layout and same signal code as ChanK.v (the signal part
   below is a copy of ChanK's: the client type of T1K is closed); lock-step
   only, the theorems of Properties_C11.v are about ChanK / MChan.
   Harness: rt/h_spchan.c.

   spsc push(n):  [harness: n->data := v]  store_rel(n->next, NULL);
                  prev := load_acq(tail); store_rel(tail, n); store_rel(prev->next, n);  raise
   spsc trypop:   hd := load_acq(head); hn := load_acq(hd->next);
                  if hn { store_rel(head, hn); d := hn->data; hd->data := d; return hd }
   receive = loop { trypop; if NULL wait }     (try_receive: one turn)
   case: params = dmax; ops (3, n*1000+v) send node n carrying v, (4,_) receive,
   (7,_) try_receive. *)
From Coq Require Import List ZArith Lia Bool Arith.
From LF Require Import Conc T1K.
Import ListNotations.
Local Open Scope Z_scope.

Definition c_waiter : nat := 3.
Definition c_head : nat := 7.
Definition c_tail : nat := 11.
Definition c_scr (t : nat) : nat := (4 * t + 2)%nat.
Definition c_dat (n : nat) : nat := (8 * n)%nat.
Definition c_nxt (n : nat) : nat := (8 * n + 4)%nat.

Definition NO_WAITER := 0.
Definition RAISED := -1.
Definition READY_TO_WAKE := -1.

Inductive sop := OSend (n : nat) (v : Z) | ORecv | OTry.

Inductive sc :=
| KNext (p : list sop) (k : nat)
(* fiber_signal_wait (called from receive) *)
| KWClr (p : list sop) (k : nat)
| KWCas (p : list sop) (k : nat)
| KWSlept (p : list sop) (k : nat)
| KWClr2 (p : list sop) (k : nat)
| KWEnd (p : list sop) (k : nat)
(* fiber_signal_raise *)
| KRX (p : list sop) (k : nat)
| KRSt (f : nat) (p : list sop) (k : nat)
| KRSpin (f : nat) (p : list sop) (k : nat)
| KRRdy (f : nat) (p : list sop) (k : nat)
(* send *)
| KSData (n : nat) (p : list sop) (k : nat)
| KSNull (n : nat) (p : list sop) (k : nat)
| KSTail (n : nat) (p : list sop) (k : nat)
| KSSet (n : nat) (pv : nat) (p : list sop) (k : nat)
| KSLink (p : list sop) (k : nat)
(* receive / try_receive *)
| KPHead (blk : bool) (p : list sop) (k : nat)
| KPNxt (blk : bool) (hd : nat) (p : list sop) (k : nat)
| KPSetHead (hd hn : nat) (p : list sop) (k : nat)
| KPRead (hd : nat) (p : list sop) (k : nat)
| KPWrite (hd : nat) (p : list sop) (k : nat)
| KPUse (p : list sop) (k : nat).

Definition retev (t k : nat) (v : Z) : list Z := [Zn t; Zn k; 909; v].

Definition wait_start (t : nat) (p : list sop) (k : nat) : stack sc :=
  [CWrite (c_scr t) 0; FC (KWClr p k)].
Definition raise_start (p : list sop) (k : nat) : stack sc :=
  [CXchgC c_waiter RAISED 3; FC (KRX p k)].
Definition recv_start (blk : bool) (p : list sop) (k : nat) : stack sc :=
  [CLoadC c_head 2; FC (KPHead blk p k)].

Definition start (t : nat) (p : list sop) (k : nat) : stack sc :=
  match p with
  | [] => []
  | OSend n v :: r => [CWrite (c_dat n) v; FC (KSData n r k)]
  | ORecv :: r => recv_start true r k
  | OTry :: r => recv_start false r k
  end.

Definition fin (m : kmem) (t : nat) (p : list sop) (k : nat) (v : Z) : kmem * list Z * stack sc :=
  (m, retev t k v, start t p (S k)).

Definition cret (m : kmem) (t : nat) (c : sc) (v : Z) : kmem * list Z * stack sc :=
  match c with
  | KNext p k => (m, [], start t p k)
  | KWClr p k => (m, [], [CCasC c_waiter NO_WAITER (fname t) 3; FC (KWCas p k)])
  | KWCas p k =>
      if v =? 1 then (m, [], [SWState (c_scr t) READY_TO_WAKE; FC (KWSlept p k)])
      else (m, [], [CStoreC c_waiter NO_WAITER 5; FC (KWEnd p k)])
  | KWSlept p k => (m, [], [CWrite (c_scr t) 0; FC (KWClr2 p k)])
  | KWClr2 p k => (m, [], [CStoreC c_waiter NO_WAITER 5; FC (KWEnd p k)])
  | KWEnd p k => (m, [], recv_start true p k)
  | KRX p k =>
      if (v =? NO_WAITER) || (v =? RAISED) then fin m t p k 0
      else (m, [], [CStoreC c_waiter NO_WAITER 5; FC (KRSt (tid_of_name v) p k)])
  | KRSt f p k => (m, [], [CRead (c_scr f); FC (KRSpin f p k)])
  | KRSpin f p k =>
      if v =? READY_TO_WAKE then (m, [], [FStWrite f ST_READY; FC (KRRdy f p k)])
      else (m, [], [CRead (c_scr f); FC (KRSpin f p k)])
  | KRRdy f p k => (wake m f, ev t 901 919 (Zn f) ++ retev t k 1, start t p (S k))
  | KSData n p k => (m, [], [CStoreC (c_nxt n) 0 3; FC (KSNull n p k)])
  | KSNull n p k => (m, [], [CLoadC c_tail 2; FC (KSTail n p k)])
  | KSTail n p k => (m, [], [CStoreC c_tail (Zn n) 3; FC (KSSet n (Z.to_nat v) p k)])
  | KSSet n pv p k => (m, [], [CStoreC (c_nxt pv) (Zn n) 3; FC (KSLink p k)])
  | KSLink p k => (m, [], raise_start p k)
  | KPHead blk p k => (m, [], [CLoadC (c_nxt (Z.to_nat v)) 2; FC (KPNxt blk (Z.to_nat v) p k)])
  | KPNxt blk hd p k =>
      if v =? 0 then (if blk then (m, [], wait_start t p k) else fin m t p k 0)
      else (m, [], [CStoreC c_head v 3; FC (KPSetHead hd (Z.to_nat v) p k)])
  | KPSetHead hd hn p k => (m, [], [CRead (c_dat hn); FC (KPRead hd p k)])
  | KPRead hd p k => (m, [], [CWrite (c_dat hd) v; FC (KPWrite hd p k)])
  | KPWrite hd p k => (m, [], [CRead (c_dat hd); FC (KPUse p k)])
  | KPUse p k => fin m t p k v
  end.

Record st := { mem : kmem; stk : nat -> stack sc; nthr : nat }.

Definition step (s : st) (t : nat) : st * list Z :=
  let '(m1, e1, s1) := kstep sc cret (mem s) t (stk s t) in
  ({| mem := m1; stk := upd (stk s) t s1; nthr := nthr s |}, e1).

Definition status_of (s : st) (t : nat) : status :=
  if (t <? nthr s)%nat then kstatus sc (mem s) t (stk s t) else SDone.

Definition init_mem : kmem :=
  set_cell (set_cell (kinit 0 (fun _ => 0)) c_head 1) c_tail 1.

Definition init (progs : list (list sop)) : st :=
  {| mem := init_mem;
     stk := fun t => [Start; FC (KNext (nth t progs []) 1)];
     nthr := length progs |}.

Definition M : machine :=
  {| mstate := st; mstep := step; mstatus := status_of; mthreads := nthr |}.

Definition dec_op (p : Z * Z) : sop :=
  match fst p with
  | 3 => OSend (Z.to_nat (snd p / 1000)) (snd p mod 1000)
  | 4 => ORecv
  | _ => OTry
  end.

Definition run_case (l : list Z) : list Z :=
  match decode_case l with
  | Some c => run_all M (init (map (map dec_op) (c_progs c))) [] (c_sched c)
                      (Z.to_nat (nthZ (c_params c) 0))
  | None => [(-1)%Z]
  end.
