(* C16 — lock-free ring buffer: bounded, exactly-once, never overwrites an
   unread slot.  Statements over every reachable state of coq/Ring.v: any
   capacity 2^k, any number of threads, any programs, any schedule.
   Guard (DESIGN.md C16): the counters do not reach 2^64 (unbounded nat). *)
From Coq Require Import List Arith.
From LF Require Import Conc Ring RingProofs.
Import ListNotations.

(* never holds more than its capacity *)
Theorem ring_bounded : forall k start progs s,
  reachable M (init k start progs) s ->
  low s <= high s /\ high s - low s <= size s.
Proof. intros k start progs s R. exact (bounded_of_inv s (reachable_inv k start progs s R)). Qed.
Print Assumptions ring_bounded.

(* a slot is written only while empty and only by the unique claimer of that
   slot; a slot is cleared only by the unique popper that claimed it, while
   it still holds the value that pop returns *)
Theorem ring_no_overwrite : forall k start progs s t,
  reachable M (init k start progs) s ->
  (pc (thr s t) = PWrite ->
     buf s (hi (thr s t) mod size s) = 0 /\
     forall u, pc (thr s u) = PWrite -> hi (thr s u) mod size s = hi (thr s t) mod size s -> u = t) /\
  (pc (thr s t) = QClear ->
     buf s (lo (thr s t) mod size s) = rd (thr s t) /\ rd (thr s t) <> 0 /\
     forall u, pc (thr s u) = QClear -> lo (thr s u) mod size s = lo (thr s t) mod size s -> u = t).
Proof.
  intros k start progs s t R. pose proof (reachable_inv k start progs s R) as I.
  split; intros H; [exact (no_overwrite_of_inv s t I H) | exact (clear_owns_of_inv s t I H)].
Qed.
Print Assumptions ring_no_overwrite.

(* the values claimed by pops, in the order the pops took effect, are a prefix
   of the values pushed, in the order the pushes took effect; the remainder
   is exactly the current content *)
Theorem ring_exactly_once_fifo : forall k start progs x,
  ireach k start progs x ->
  exists rest, plog x = qlog x ++ rest /\ length rest = high (base x) - low (base x).
Proof. intros k start progs x R. exact (fifo_of_linv x (ireach_linv k start progs x R)). Qed.
Print Assumptions ring_exactly_once_fifo.

(* the pop whose CAS on low is about to succeed returns the oldest unpopped value *)
Theorem ring_pop_returns_oldest : forall k start progs x t,
  ireach k start progs x ->
  pc (thr (base x) t) = QCas -> low (base x) = lo (thr (base x) t) ->
  nth_error (plog x) (length (qlog x)) = Some (rd (thr (base x) t)) /\ rd (thr (base x) t) <> 0.
Proof. intros k start progs x t R. exact (pop_oldest_of_linv x t (ireach_linv k start progs x R)). Qed.
Print Assumptions ring_pop_returns_oldest.

(* trypush / trypop fail at their slot test only if the buffer is full / empty
   at that instant, or another call holds a claimed slot at that instant, or a
   call took effect since this call read the counters (its CAS fails only in
   the last case, by definition of the CAS) *)
Theorem ring_failure_justified : forall k start progs s t,
  reachable M (init k start progs) s ->
  (pc (thr s t) = PSlot ->
     (buf s (hi (thr s t) mod size s) <> 0 \/ size s <= hi (thr s t) - lo (thr s t)) ->
     high s - low s = size s \/ mid_claim s \/ lo (thr s t) < low s \/ hi (thr s t) < high s) /\
  (pc (thr s t) = QSlot ->
     (buf s (lo (thr s t) mod size s) = 0 \/ hi (thr s t) <= lo (thr s t)) ->
     high s = low s \/ mid_claim s \/ lo (thr s t) < low s \/ hi (thr s t) < high s).
Proof.
  intros k start progs s t R. pose proof (reachable_inv k start progs s R) as I.
  split; [exact (push_fail_justified s t I) | exact (pop_fail_justified s t I)].
Qed.
Print Assumptions ring_failure_justified.

(* ---- non-vacuity: the hypotheses are met by concrete reachable states ---- *)
Definition ex_progs := [[OPush 4; OPop]; [OPush 6; OPop]].
Definition ex_state sch := fst (run_sched M (init 1 0 ex_progs) sch).

Example ex_writer_reachable :
  reachable M (init 1 0 ex_progs) (ex_state [0;0;0;0]) /\ pc (thr (ex_state [0;0;0;0]) 0) = PWrite.
Proof. split; [apply run_sched_reachable; constructor | vm_compute; reflexivity]. Qed.

Example ex_clearer_reachable :
  reachable M (init 1 0 ex_progs) (ex_state [0;0;0;0;0;0;0;0;0]) /\
  pc (thr (ex_state [0;0;0;0;0;0;0;0;0]) 0) = QClear.
Proof. split; [apply run_sched_reachable; constructor | vm_compute; reflexivity]. Qed.

(* two pushers race: thread 1 reads the counters, thread 0 completes a push,
   thread 1 is then at PSlot with a stale hi *)
Example ex_failing_push_reachable :
  let s := ex_state [1;1;0;0;0;0;0] in
  reachable M (init 1 0 ex_progs) s /\ pc (thr s 1) = PSlot /\ buf s (hi (thr s 1) mod size s) <> 0.
Proof. split; [apply run_sched_reachable; constructor | vm_compute; split; [reflexivity|discriminate]]. Qed.

(* a claim stalled across a lap: thread 0 is stopped between its CAS on low and its clearing store while
   thread 1 takes the counters once round the ring; thread 1's next push then finds the stalled slot still
   occupied although high - low = 0 (the state the case family "claim stalled across a lap" drives the real
   code into), and after its next step it has given up instead of overwriting *)
Definition lap_progs := [[OPush 4; OPop]; [OPush 6; OPop; OPush 8]].
Definition lap_state sch := fst (run_sched M (init 1 0 lap_progs) sch).
Definition lap_sched := [0;0;0;0;0;0;0;0;0; 1;1;1;1;1; 1;1;1;1;1; 1;1].
Example ex_claim_stalled_across_a_lap :
  let s := lap_state lap_sched in
  reachable M (init 1 0 lap_progs) s /\
  pc (thr s 0) = QClear /\ low s = lo (thr s 0) + size s /\ high s = low s /\
  pc (thr s 1) = PSlot /\ buf s (hi (thr s 1) mod size s) <> 0 /\
  buf (lap_state (lap_sched ++ [1])) (hi (thr s 1) mod size s) = buf s (hi (thr s 1) mod size s) /\
  pc (thr (lap_state (lap_sched ++ [1])) 1) = Fin.
Proof. split; [apply run_sched_reachable; constructor | vm_compute; repeat split; try reflexivity; discriminate]. Qed.

Example ex_history_nonempty :
  let x := irun (iinit 1 0 ex_progs) [0;0;0;0;0;1;1;1;1;1;0;0;0;0] in
  ireach 1 0 ex_progs x /\ plog x = [5; 7] /\ qlog x = [5].
Proof. split; [apply ireach_irun; constructor | vm_compute; auto]. Qed.

(* ---- counter-shift invariance (justifies the biased start of the lock-step
   harness: real counters start at start + bias, bias a multiple of 2^k, and
   the values of the accesses to high/low are reported minus bias) ----
   RingShift.shift_trace D adds D to the value of exactly those events
   [tid; loc; kind; val] with loc 0 or 1 and kind other than 909 / 919. *)
From Coq Require ZArith.
From LF Require RingShift.
Theorem ring_shift_invariant : forall k start d progs sch dmax,
  run_all M (init k (start + d * 2 ^ k) progs) [] sch dmax =
  RingShift.shift_trace (BinInt.Z.of_nat (d * 2 ^ k)) (run_all M (init k start progs) [] sch dmax).
Proof. exact RingShift.ring_shift_invariant_run. Qed.
Print Assumptions ring_shift_invariant.
