(* C03 — fiber mutex: mutual exclusion, hand-off, no lost or duplicated wake-up.
   Statements over every reachable state of coq/Mutex.v (src/fiber_mutex.c on the
   wait/wake protocol of src/fiber_manager.c, coq/T1K.v): any number of fibers,
   any programs of lock/trylock/unlock, any schedule.

   The statements that speak about "who owns the mutex" use the ghost-instrumented
   machine of MutexProofs.v ([ist], [gstep], [ireach]): [role x t] becomes [Owner]
   exactly when t's LSub takes the counter 1 -> 0, when t's TCas succeeds, or when an
   unlocker's pop (the KSetHead step) takes t's node off the waiter list; it becomes
   [Announced] when t's LSub sees contention and [Idle] at the UAdd of t's unlock.
   The ghosts never influence the run (mutex_ghost_erasure); role_shape ties them
   to the frames on the thread's stack. *)
From Coq Require Import List ZArith Lia Bool Arith.
From LF Require Import Conc T1K Mutex MutexProofs.
Import ListNotations.
Local Open Scope Z_scope.

(* every state of the real model is the erasure of a state of the instrumented one, and conversely *)
Theorem mutex_ghost_erasure : forall progs s,
  reachable M (init progs) s <-> exists x, ireach progs x /\ base x = s.
Proof.
  intros progs s. split; [apply reachable_ireach|].
  intros (x & R & <-). now apply ireach_reachable.
Qed.
Print Assumptions mutex_ghost_erasure.

(* 1. at most one owner; a fiber whose frames are inside the critical section
   (about to write the cell, read it back, or do the fetch_add of unlock) is the
   owner; the ghost role agrees with the frames; a TCas that succeeds (it succeeds
   iff it reads 1) finds no owner and no announced waiter *)
Theorem mutex_exclusion : forall progs x, ireach progs x ->
  (forall t u, owns x t -> owns x u -> t = u) /\
  (forall t, in_cs (base x) t -> owns x t) /\
  (forall t, role_shape x t) /\
  (forall t r, stk (base x) t = TCas 0 :: r -> word (mem (base x)) 0 = 1 ->
               forall u, ~ owns x u /\ ~ announced x u).
Proof.
  intros progs x R. pose proof (ireach_inv progs x R) as HI.
  split; [|split; [|split]].
  - apply (I_own1 x (I_C x HI)).
  - intros t. apply (cs_owns x t HI).
  - intros t. apply (role_shape_inv x t HI).
  - intros t r Hs Hw u. apply (trylock_free x t r HI Hs Hw u).
Qed.
Print Assumptions mutex_exclusion.

(* ghost-free corollary: two fibers are never both inside the critical section *)
Theorem mutex_exclusion_frames : forall progs s t u,
  reachable M (init progs) s -> in_cs s t -> in_cs s u -> t = u.
Proof.
  intros progs s t u R Ht Hu. destruct (reachable_ireach progs s R) as (x & Rx & <-).
  pose proof (ireach_inv progs x Rx) as HI.
  apply (I_own1 x (I_C x HI)); apply cs_owns; assumption.
Qed.
Print Assumptions mutex_exclusion_frames.

(* 2. counter = 1 - owners - announced waiters not yet handed the lock *)
Theorem mutex_counter_inv : forall progs x, ireach progs x ->
  word (mem (base x)) 0 =
    1 - Z.of_nat (length (filter (fun t => is_owner (role x t)) (seq 0 (nthr (base x)))))
      - Z.of_nat (length (filter (fun t => is_ann (role x t)) (seq 0 (nthr (base x))))) /\
  (forall t, owns x t \/ announced x t -> (t < nthr (base x))%nat).
Proof.
  intros progs x R. pose proof (ireach_inv progs x R) as HI. split.
  - exact (I_count x (I_C x HI)).
  - intros t [H|H]; apply (I_role_lt x (I_C x HI)); unfold owns, announced in H; congruence.
Qed.
Print Assumptions mutex_counter_inv.

(* 3. what unlock reads back from the data cell is its own last write (nobody else
   wrote the cell while it owned the mutex): the result reported by unlock is 1, never 7 *)
Theorem mutex_visibility : forall progs s t, reachable M (init progs) s ->
  (forall p k r, stk s t = CRead 0 :: FC (MReadBack p k) :: r -> cell (mem s) 0 = Zn t + 1) /\
  (forall p k v, In (FC (MUnlocked p k v)) (stk s t) -> v = 1).
Proof.
  intros progs s t R. destruct (reachable_ireach progs s R) as (x & Rx & <-).
  pose proof (ireach_inv progs x Rx) as HI. split.
  - intros p k r. apply (readback_sees_own x t p k r HI).
  - intros p k v. apply (unlock_reports_1 x t p k v HI).
Qed.
Print Assumptions mutex_visibility.

(* 4. [ulog x t] = the pops (KSetHead steps) and wake-ups (rt_wake in
   fiber_manager_schedule) done by t since the fetch_add of its current/last unlock,
   [ucont x t] = that fetch_add saw waiters.  An uncontended unlock pops and wakes
   nobody; a contended one pops exactly one waiter f, which is the owner from the pop
   on, then wakes exactly f, and only then returns; a fiber marked "handed over,
   not yet woken" always has its unlocker on the way to wake it *)
Theorem mutex_handoff_once : forall progs x t, ireach progs x ->
  (ucont x t = false -> ulog x t = []) /\
  (ulog x t = [] \/
   (exists f, ulog x t = [GPop f] /\ owns x f /\ (hand x f = HPopped t \/ hand x f = HNode t) /\
              in_wake_path (base x) t) \/
   (exists f, ulog x t = [GPop f; GWake f])) /\
  (in_pop_loop (base x) t -> ucont x t = true /\ ulog x t = [] /\ debt x = Some t) /\
  (forall r, stk (base x) t = YRead :: UDone :: r -> exists f, ulog x t = [GPop f; GWake f]) /\
  (forall f w, hand x f = HPopped w \/ hand x f = HNode w -> owns x f /\ in_wake_path (base x) w).
Proof.
  intros progs x t R. pose proof (ireach_inv progs x R) as HI.
  destruct (handoff_inv x t HI) as (A & B & C & D).
  split; [exact A|]. split; [exact B|]. split; [exact C|]. split; [exact D|].
  intros f w H. destruct (ireach_J progs x R f w H) as [Ho (kf & p & k & E & K)].
  split; [exact Ho|]. exists kf, p, k. auto.
Qed.
Print Assumptions mutex_handoff_once.

(* 5. obligation invariant: an announced waiter with no owner has a runnable
   unlocker inside its pop loop; an owner that is asleep has a runnable unlocker on its
   way to wake it (no lost wake-up); at quiescence every fiber has finished, except
   queued waiters of a mutex whose owner exited without unlocking *)
Theorem mutex_no_stranded : forall progs x, ireach progs x ->
  (forall t, announced x t -> (forall u, ~ owns x u) ->
     exists d, debt x = Some d /\ in_pop_loop (base x) d /\ status_of (base x) d = SReady) /\
  (forall f r, owns x f -> stk (base x) f = Asleep :: r -> blocked (mem (base x)) f = true ->
     exists w, (hand x f = HPopped w \/ hand x f = HNode w) /\ in_wake_path (base x) w /\
               status_of (base x) w = SReady) /\
  (quiescent (base x) -> forall t, (t < nthr (base x))%nat ->
     stk (base x) t = [] \/
     (announced x t /\ (exists r, stk (base x) t = Asleep :: r) /\ blocked (mem (base x)) t = true /\
      exists u, owns x u /\ stk (base x) u = [])) /\
  (quiescent (base x) -> (forall u, stk (base x) u = [] -> ~ owns x u) ->
     forall t, (t < nthr (base x))%nat -> stk (base x) t = []).
Proof.
  intros progs x R. pose proof (ireach_inv progs x R) as HI. pose proof (ireach_J progs x R) as HJ.
  split; [|split; [|split]].
  - intros t Ha Hn. destruct (stranded_obligation x t HI Ha Hn) as (d & Hd & kf & p & k & E & K).
    exists d. split; [exact Hd|]. split; [exists kf, p, k; auto|]. apply (K_runnable progs x d kf p k R E).
  - intros f r Ho Hs Hb. destruct (sleeping_owner_has_waker x f r HI HJ Ho Hs Hb) as (w & Hw & kf & p & k & E & K).
    exists w. split; [exact Hw|]. split; [exists kf, p, k; auto|]. apply (K_runnable progs x w kf p k R E).
  - apply (quiescent_shape progs x R).
  - intros Q Hn t Ht. destruct (quiescent_shape progs x R Q t Ht) as [E|(_ & _ & _ & u & Hu & Eu)]; [exact E|].
    destruct (Hn u Eu Hu).
Qed.
Print Assumptions mutex_no_stranded.

(* ---- non-vacuity: the hypotheses are met by concrete reachable states ---- *)
Local Open Scope nat_scope.
Definition ex_progs := [[MLock; MUnlock]; [MLock; MUnlock]].
Definition ex_x (sch : list nat) : ist := irun (iinit ex_progs) sch.
Lemma ex_reach sch : ireach ex_progs (ex_x sch).
Proof. apply ireach_irun. constructor. Qed.

(* fiber 0 holds the mutex and is about to read the cell back; fiber 1 has announced itself *)
Example ex_owner_and_waiter :
  let x := ex_x [0;0;0;1;1] in
  ireach ex_progs x /\ owns x 0 /\ in_cs (base x) 0 /\ announced x 1 /\ word (mem (base x)) 0 = (-1)%Z /\
  stk (base x) 0 = [CRead 0; FC (MReadBack [] 2)] /\ cell (mem (base x)) 0 = 1%Z.
Proof.
  split; [apply ex_reach|]. vm_compute. repeat split; try reflexivity.
  eexists. right. left. reflexivity.
Qed.

(* the same state is reachable in the un-instrumented machine *)
Example ex_owner_reachable_M :
  reachable M (init ex_progs) (fst (run_sched M (init ex_progs) [0;0;0;1;1])) /\
  stk (fst (run_sched M (init ex_progs) [0;0;0;1;1])) 0 = [CRead 0; FC (MReadBack [] 2)].
Proof. split; [apply run_sched_reachable; constructor|vm_compute; reflexivity]. Qed.

(* the unlock lands between the contender's decrement and its enqueue: announced waiter,
   no owner, the unlocker is in its pop loop *)
Example ex_unlock_before_enqueue :
  let x := ex_x [0;0;0;1;1;0;0] in
  ireach ex_progs x /\ announced x 1 /\ role x 0 = Idle /\ debt x = Some 0 /\
  in_pop_loop (base x) 0 /\ ucont x 0 = true.
Proof.
  split; [apply ex_reach|]. vm_compute. repeat split; try reflexivity.
  exists KfHead, [], 2. split; reflexivity.
Qed.

(* the waiter sleeps, the unlocker pops it: owner asleep, wake-up on the way *)
Example ex_handed_asleep :
  let x := ex_x ([0;0;0] ++ repeat 1 13 ++ [0;0;0;0;0]) in
  ireach ex_progs x /\ owns x 1 /\ hand x 1 = HPopped 0 /\ ulog x 0 = [GPop 1] /\
  stk (base x) 1 = [Asleep; YLoop; LWaited; FC (MLocked [MUnlock] 1 1)] /\
  blocked (mem (base x)) 1 = true /\ in_wake_path (base x) 0.
Proof.
  split; [apply ex_reach|]. vm_compute. repeat split; try reflexivity.
  exists (KfData 1 3), [], 2. split; reflexivity.
Qed.

(* the contended unlock has popped and woken exactly fiber 1 and is at its yield *)
Example ex_handoff_done :
  let x := ex_x ([0;0;0] ++ repeat 1 13 ++ repeat 0 10) in
  ireach ex_progs x /\ ulog x 0 = [GPop 1; GWake 1] /\ owns x 1 /\
  stk (base x) 0 = [YRead; UDone; FC (MUnlocked [] 2 1)] /\ blocked (mem (base x)) 1 = false.
Proof. split; [apply ex_reach|]. vm_compute. repeat split; reflexivity. Qed.

(* a trylock that reads 1 / that reads 0 *)
Example ex_trylock :
  let x := irun (iinit [[MTry]; [MTry]]) [0;1] in
  ireach [[MTry]; [MTry]] x /\ stk (base x) 0 = [TCas 0; FC (MLocked [] 1 0)] /\ word (mem (base x)) 0 = 1%Z.
Proof. split; [apply ireach_irun; constructor|]. vm_compute. repeat split; reflexivity. Qed.

(* quiescence with a fiber that exited holding the mutex: the other one stays queued *)
Example ex_quiescent_held :
  let x := irun (iinit [[MLock]; [MLock]]) ([0;0;0] ++ repeat 1 13) in
  ireach [[MLock]; [MLock]] x /\ status_of (base x) 0 = SDone /\ status_of (base x) 1 = SBlocked /\
  owns x 0 /\ stk (base x) 0 = [] /\ announced x 1.
Proof. split; [apply ireach_irun; constructor|]. vm_compute. repeat split; reflexivity. Qed.

(* quiescence of a balanced run: everybody finished *)
Example ex_quiescent_done :
  let x := ex_x ([0;0;0] ++ repeat 1 13 ++ repeat 0 12 ++ repeat 1 12) in
  ireach ex_progs x /\ stk (base x) 0 = [] /\ stk (base x) 1 = [] /\ word (mem (base x)) 0 = 1%Z /\
  role x 0 = Idle /\ role x 1 = Idle.
Proof. split; [apply ex_reach|]. vm_compute. repeat split; reflexivity. Qed.
