(* C11 model "mchan": include/fiber_multi_channel.h (mutex-protected bounded
   channel, many senders and receivers) on the T1 machine; the channel lock is
   the fiber_mutex of T1K (object 0).  Harness: rt/h_mchan.c.

   The code in /repo keeps blocked senders and blocked receivers in SEPARATE
   lists (fix 30a0183: a completed send wakes a receiver, a completed receive
   wakes a sender).  The original code had ONE list for both (finding F-C11:
   a wake-up that landed on a fiber of the wrong kind was absorbed and a fiber
   queued underneath stayed blocked forever).  The boolean [onelist] of the
   state selects the original behaviour; it is used only by the regression
   witness multichan_no_stranded_one_list_refuted (MChanProofs.v).  Lock-step
   cases run with onelist = false (third case parameter absent or 0).

   Client cells (trace loc = 500 + cell; same layout as ChanK.v):
     3      channel->send_waiters (one-list variant: channel->waiters, the ONE list);
     23     channel->recv_waiters  (top of the list; 0 = empty, 1000+t = fiber t)
     15, 19 high, low (plain words, protected by the lock)
     4t+2   fiber t's scratch = its link in the waiter list
     4i+1   buffer[i]

   send(v):  loop { lock; hi := high; lo := low; if (hi - lo < size) break; WAIT(send_waiters) }
             hi := high; buffer[hi mod size] := v; hi := high; high := hi + 1;
             WAKE(recv_waiters); unlock
   receive:  loop { lock; hi := high; lo := low; if (hi > lo) break; WAIT(recv_waiters) }
             lo := low; m := buffer[lo mod size]; buffer[lo mod size] := 0;
             lo := low; low := lo + 1; WAKE(send_waiters); unlock; return m
   WAIT(L):  w := L; self->scratch := w; L := self; self->state := WAITING;
             mutex_to_unlock := lock (silent); yield   [maintenance unlocks, sleeps]
   WAKE(L):  w := L; if (w) { f := L; x := f->scratch; L := x;
             f->scratch := NULL; f->state := READY; schedule(f) }
   unlock = fiber_mutex_unlock (yields when it handed the lock over).
   case: params = dmax, power_of_2_size [, onelist (0/1, default 0)];
   ops (1, v) send v, (2,_) receive. *)
From Coq Require Import List ZArith Lia Bool Arith.
From LF Require Import Conc T1K.
Import ListNotations.
Local Open Scope Z_scope.

Definition c_waiters : nat := 3.
Definition c_rwaiters : nat := 23.
Definition c_high : nat := 15.
Definition c_low : nat := 19.
Definition c_scr (t : nat) : nat := (4 * t + 2)%nat.
Definition c_buf (i : nat) : nat := (4 * i + 1)%nat.

Inductive mop := OSend (v : Z) | ORecv.

(* an attempt: what the fiber is trying to do, carried through lock / wait *)
Inductive att := ASend (v : Z) | ARecv.

Inductive mc :=
| MNext (p : list mop) (k : nat)
| MLocked (a : att) (p : list mop) (k : nat)          (* fiber_mutex_lock returned *)
| MHigh (a : att) (p : list mop) (k : nat)            (* high read *)
| MLow (a : att) (hi : Z) (p : list mop) (k : nat)    (* low read: can we proceed? *)
(* send, after the loop *)
| MSIdx (v : Z) (p : list mop) (k : nat)
| MSBuf (p : list mop) (k : nat)
| MSHigh2 (p : list mop) (k : nat)
(* receive, after the loop *)
| MRIdx (p : list mop) (k : nat)
| MRBuf (i : nat) (p : list mop) (k : nat)
| MRClr (m : Z) (p : list mop) (k : nat)
| MRLow2 (m : Z) (p : list mop) (k : nat)
(* internal_wake; c = cell of the list head it pops, r = value the call will report *)
| MWk0 (c : nat) (r : Z) (p : list mop) (k : nat)     (* counter advanced: read the list head *)
| MWk1 (c : nat) (r : Z) (p : list mop) (k : nat)
| MWk2 (c : nat) (r : Z) (p : list mop) (k : nat)
| MWk3 (c : nat) (r : Z) (f : nat) (p : list mop) (k : nat)
| MWk4 (r : Z) (f : nat) (p : list mop) (k : nat)
| MWk5 (r : Z) (f : nat) (p : list mop) (k : nat)
| MWk6 (r : Z) (f : nat) (p : list mop) (k : nat)
| MUnl (r : Z) (p : list mop) (k : nat)               (* fiber_mutex_unlock returned *)
(* internal_wait *)
| MWt1 (a : att) (p : list mop) (k : nat)
| MWt2 (a : att) (p : list mop) (k : nat)
| MWt3 (a : att) (p : list mop) (k : nat)
| MWt4 (a : att) (p : list mop) (k : nat)
| MWt5 (a : att) (p : list mop) (k : nat).            (* woken: try again *)

Definition retev (t k : nat) (v : Z) : list Z := [Zn t; Zn k; 909; v].

Definition attempt (a : att) (p : list mop) (k : nat) : stack mc :=
  [LSub 0; FC (MLocked a p k)].

Definition start (p : list mop) (k : nat) : stack mc :=
  match p with
  | [] => []
  | OSend v :: r => attempt (ASend v) r k
  | ORecv :: r => attempt ARecv r k
  end.

Definition bidx (size v : Z) : nat := Z.to_nat (v mod size).

(* the list a blocked fiber queues itself on / the list a completed operation pops *)
Definition wait_list (ol : bool) (a : att) : nat :=
  if ol then c_waiters else match a with ASend _ => c_waiters | ARecv => c_rwaiters end.
Definition wake_list (ol : bool) (a : att) : nat :=
  if ol then c_waiters else match a with ASend _ => c_rwaiters | ARecv => c_waiters end.

Definition unlock (r : Z) (p : list mop) (k : nat) : stack mc :=
  [UAdd 0; UYield; FC (MUnl r p k)].

Definition cret (ol : bool) (size : Z) (m : kmem) (t : nat) (c : mc) (v : Z) : kmem * list Z * stack mc :=
  match c with
  | MNext p k => (m, [], start p k)
  | MLocked a p k => (m, [], [CRead c_high; FC (MHigh a p k)])
  | MHigh a p k => (m, [], [CRead c_low; FC (MLow a v p k)])
  | MLow a hi p k =>
      match a with
      | ASend x => if hi - v <? size then (m, [], [CRead c_high; FC (MSIdx x p k)])
                   else (m, [], [CRead (wait_list ol a); FC (MWt1 a p k)])
      | ARecv => if v <? hi then (m, [], [CRead c_low; FC (MRIdx p k)])
                 else (m, [], [CRead (wait_list ol a); FC (MWt1 a p k)])
      end
  | MSIdx x p k => (m, [], [CWrite (c_buf (bidx size v)) x; FC (MSBuf p k)])
  | MSBuf p k => (m, [], [CRead c_high; FC (MSHigh2 p k)])
  | MSHigh2 p k => (m, [], [CWrite c_high (v + 1); FC (MWk0 (wake_list ol (ASend 0)) 0 p k)])
  | MRIdx p k => (m, [], [CRead (c_buf (bidx size v)); FC (MRBuf (bidx size v) p k)])
  | MRBuf i p k => (m, [], [CWrite (c_buf i) 0; FC (MRClr v p k)])
  | MRClr x p k => (m, [], [CRead c_low; FC (MRLow2 x p k)])
  | MRLow2 x p k => (m, [], [CWrite c_low (v + 1); FC (MWk0 (wake_list ol ARecv) x p k)])
  | MWk0 c0 r p k => (m, [], [CRead c0; FC (MWk1 c0 r p k)])
  | MWk1 c0 r p k => if v =? 0 then (m, [], unlock r p k)
                     else (m, [], [CRead c0; FC (MWk2 c0 r p k)])
  | MWk2 c0 r p k => (m, [], [CRead (c_scr (tid_of_name v)); FC (MWk3 c0 r (tid_of_name v) p k)])
  | MWk3 c0 r f p k => (m, [], [CWrite c0 v; FC (MWk4 r f p k)])
  | MWk4 r f p k => (m, [], [CWrite (c_scr f) 0; FC (MWk5 r f p k)])
  | MWk5 r f p k => (m, [], [FStWrite f ST_READY; FC (MWk6 r f p k)])
  | MWk6 r f p k => (wake m f, ev t 901 919 (Zn f), unlock r p k)
  | MUnl r p k => (m, retev t k r, start p (S k))
  | MWt1 a p k => (m, [], [CWrite (c_scr t) v; FC (MWt2 a p k)])
  | MWt2 a p k => (m, [], [CWrite (wait_list ol a) (fname t); FC (MWt3 a p k)])
  | MWt3 a p k => (m, [], [FStWrite t ST_WAITING; FC (MWt4 a p k)])
  | MWt4 a p k => (set_slot_mutex m t (Some 0%nat), [], [YRead; FC (MWt5 a p k)])
  | MWt5 a p k => (m, [], attempt a p k)
  end.

(* A failed pop inside do_maintenance (the deferred unlock of the channel lock
   finds a locker announced in the counter but not yet linked) calls
   fiber_manager_yield with manager->current_fiber = the fiber running the
   scheduler loop (the maintenance fiber), state RUNNING.  Since fix 9f9cf90
   ("the scheduler-loop fiber is never queued by fiber_manager_yield") that
   call only does cpu_relax() and returns: on the T1 machine it is not a
   scheduling point and leaves no trace; the wake loop simply retries the pop.
   T1K.kstep models the yield of a failed pop as a yield of fiber t itself
   (right outside maintenance); the difference is overridden here.  We are
   inside do_maintenance iff an MSlots continuation is on the stack. *)
Definition is_mslots (f : frame mc) : bool := match f with MSlots => true | _ => false end.
Definition in_maint (r : stack mc) : bool := existsb is_mslots r.

Definition kstepC (ol : bool) (size : Z) (m : kmem) (t : nat) (s : stack mc) : kmem * list Z * stack mc :=
  match s with
  | KNext q cnt wc h :: r =>
      match nnext m h with
      | O => if (0 <? cnt) && in_maint r
             then (m, ev t (l_next h) 9 0, KHead q cnt wc :: r)
             else kstep mc (cret ol size) m t s
      | S _ => kstep mc (cret ol size) m t s
      end
  | _ => kstep mc (cret ol size) m t s
  end.

Record st := { mem : kmem; stk : nat -> stack mc; nthr : nat; csize : Z; onelist : bool }.

Definition step (s : st) (t : nat) : st * list Z :=
  let '(m1, e1, s1) := kstepC (onelist s) (csize s) (mem s) t (stk s t) in
  ({| mem := m1; stk := upd (stk s) t s1; nthr := nthr s; csize := csize s; onelist := onelist s |}, e1).

Definition status_of (s : st) (t : nat) : status :=
  if (t <? nthr s)%nat then kstatus mc (mem s) t (stk s t) else SDone.

(* size = 2^k slots; lock free (counter 1); ol = the original one-list variant *)
Definition init_ol (ol : bool) (k : nat) (progs : list (list mop)) : st :=
  {| mem := kinit 1 (fun _ => 1);
     stk := fun t => [Start; FC (MNext (nth t progs []) 1)];
     nthr := length progs; csize := 2 ^ Z.of_nat k; onelist := ol |}.
(* the code in /repo: separate lists *)
Definition init (k : nat) (progs : list (list mop)) : st := init_ol false k progs.

Definition M : machine :=
  {| mstate := st; mstep := step; mstatus := status_of; mthreads := nthr |}.

Definition dec_op (p : Z * Z) : mop :=
  match fst p with 1 => OSend (snd p) | _ => ORecv end.

Definition run_case (l : list Z) : list Z :=
  match decode_case l with
  | Some c => run_all M (init_ol (nthZ (c_params c) 2 =? 1) (Z.to_nat (nthZ (c_params c) 1))
                                 (map (map dec_op) (c_progs c))) [] (c_sched c)
                      (Z.to_nat (nthZ (c_params c) 0))
  | None => [(-1)%Z]
  end.
