(* C11, multi channel: mutual exclusion of the channel lock (the T1K fiber
   mutex, object 0) for the client coq/MChan.v -- part 1: ghost ownership
   machine, phases (the reachable stack shapes), the invariant.
   Same method as coq/MutexProofs.v (ghost roles Idle / Announced / Owner, ghost
   waiter queue of the mutex, hand-off state of a popped waiter, debt of a
   contended unlocker), extended by
   - the DEFERRED unlock: a fiber that blocks on the channel stays Owner while
     its manager's mutex_to_unlock slot is set and until the UAdd of its own
     maintenance has executed (phases PY ..), and may then run the mutex wake
     loop inside maintenance (PK .. (TM ..), failed pops retried without yield);
   - the channel's own waiter lists (ghost lists cq, hand-shake state chand):
     a fiber is woken through the channel exactly once per enqueue, so no
     spurious wake-up can reach a fiber sleeping in the mutex queue. *)
From Coq Require Import List ZArith Lia Bool Arith.
From LF Require Import Conc T1K MChan.
Import ListNotations.
Local Open Scope Z_scope.

(* ---------------- ghost state ---------------- *)
Inductive grole := Idle | Announced | Owner.
(* hand-off of the mutex to a waiter: not popped / popped by u / node given back by u / woken *)
Inductive hst := HNone | HPopped (u : nat) | HNode (u : nat) | HWoken.
(* channel wait: not waiting / in a waiter list / popped by u (wake-up pending) / woken *)
Inductive chst := CNone | CQueued | CPopped (u : nat) | CWoken.

Record gst := mkG {
  gb : st;
  role : nat -> grole;
  hand : nat -> hst;
  gq : list (nat * nat);        (* mutex queue: (waiter, its node), oldest first *)
  debt : option nat;            (* the unlocker that saw contention and has not popped yet *)
  chand : nat -> chst;
  cq : nat -> list nat          (* channel waiter list by head cell, top first *)
}.

Definition cont_of (r : stack mc) : option mc :=
  match r with FC c :: _ => Some c | _ => None end.

Definition gstep (x : gst) (t : nat) : gst :=
  let s := gb x in
  let m := mem s in
  let s' := fst (step s t) in
  let same := mkG s' (role x) (hand x) (gq x) (debt x) (chand x) (cq x) in
  match stk s t with
  | LSub q :: _ =>
      mkG s' (upd (role x) t (if word m q - 1 =? 0 then Owner else Announced))
          (upd (hand x) t HNone) (gq x) (debt x) (chand x) (cq x)
  | UAdd q :: _ =>
      mkG s' (upd (role x) t Idle) (hand x) (gq x)
          (if word m q + 1 =? 1 then debt x else Some t) (chand x) (cq x)
  | WXchg q n :: _ =>
      mkG s' (role x) (hand x) (gq x ++ [(t, n)]) (debt x) (chand x) (cq x)
  | KSetHead q _ _ h nx :: _ =>
      let f := tid_of_name (ndata m nx) in
      mkG s' (upd (role x) f Owner) (upd (hand x) f (HPopped t)) (tl (gq x)) None (chand x) (cq x)
  | KOut q _ _ h :: _ =>
      let f := tid_of_name (ndata m h) in
      mkG s' (role x) (upd (hand x) f (HNode t)) (gq x) (debt x) (chand x) (cq x)
  | KState q _ _ f :: _ =>
      if fstate m f =? ST_WAITING then same
      else mkG s' (role x) (upd (hand x) f HWoken) (gq x) (debt x) (chand x) (cq x)
  | KReady q _ _ f :: _ =>
      mkG s' (role x) (upd (hand x) f HWoken) (gq x) (debt x) (chand x) (cq x)
  | CWrite c v :: r =>
      match cont_of r with
      | Some (MWt3 _ _ _) =>
          mkG s' (role x) (hand x) (gq x) (debt x) (upd (chand x) t CQueued) (upd (cq x) c (t :: cq x c))
      | Some (MWk4 _ f _ _) =>
          mkG s' (role x) (hand x) (gq x) (debt x) (upd (chand x) f (CPopped t)) (upd (cq x) c (tl (cq x c)))
      | _ => same
      end
  | FStWrite f _ :: r =>
      match cont_of r with
      | Some (MWk6 _ _ _ _) =>
          mkG s' (role x) (hand x) (gq x) (debt x) (upd (chand x) f CWoken) (cq x)
      | _ => same
      end
  | _ => same
  end.

Lemma gstep_base x t : gb (gstep x t) = fst (step (gb x) t).
Proof.
  unfold gstep. destruct (stk (gb x) t) as [|f r]; [reflexivity|].
  destruct f; try reflexivity.
  - destruct (cont_of r) as [[]|]; reflexivity.
  - destruct (cont_of r) as [[]|]; reflexivity.
  - destruct (fstate (mem (gb x)) f =? ST_WAITING); reflexivity.
Qed.

Definition ginit (ol : bool) (k : nat) (progs : list (list mop)) : gst :=
  mkG (init_ol ol k progs) (fun _ => Idle) (fun _ => HNone) [] None (fun _ => CNone) (fun _ => []).

Inductive greach (ol : bool) (k : nat) (progs : list (list mop)) : gst -> Prop :=
| greach_init : greach ol k progs (ginit ol k progs)
| greach_step x t : greach ol k progs x -> status_of (gb x) t = SReady -> greach ol k progs (gstep x t).

(* erasure: the ghosts do not influence the run *)
Lemma reachable_greach ol k progs s :
  reachable M (init_ol ol k progs) s -> exists x, greach ol k progs x /\ gb x = s.
Proof.
  induction 1 as [|s t R [x [I E]] St].
  - exists (ginit ol k progs). split; [constructor|reflexivity].
  - exists (gstep x t). split.
    + constructor; [exact I|]. rewrite E. exact St.
    + rewrite gstep_base, E. reflexivity.
Qed.

(* ---------------- phases: the reachable stack shapes ---------------- *)
(* fiber_mutex_lock waiting *)
Inductive wfr := WfSaving | WfData | WfNext (n : nat) | WfXchg (n : nat) | WfLink (a n : nat)
  | WfY | WfYN (st : Z) | WfSw | WfSd | WfMr | WfMf | WfAs | WfRe.
(* wake_from_mpsc_queue of a contended unlock *)
Inductive kfr := KfHead | KfNext (h : nat) | KfSet (h nx : nat) | KfSpY | KfSpN (st : Z)
  | KfData (h nx : nat) | KfCopy (h : nat) (d : Z) | KfOut (h : nat) | KfState (f : nat) | KfReady (f : nat).
(* the yield of internal_wait: maintenance performs the deferred unlock *)
Inductive yfr := YfY | YfYN (st : Z) | YfSw | YfSd | YfMr | YfUAdd | YfAs | YfRe.
(* who runs the wake loop: fiber_mutex_unlock, or the maintenance of a blocking fiber *)
Inductive ktl := TU (r : Z) (p : list mop) (k : nat) | TM (a : att) (p : list mop) (k : nat).

Inductive ph :=
  | PInit (pr : list mop) | PDone
  | PLSub (a : att) (p : list mop) (k : nat)
  | PCs (f : frame mc) (c : mc)
  | PUAdd (r : Z) (p : list mop) (k : nat)
  | PW (w : wfr) (a : att) (p : list mop) (k : nat)
  | PK (kf : kfr) (tl : ktl)
  | PUY (r : Z) (p : list mop) (k : nat) | PUYN (st : Z) (r : Z) (p : list mop) (k : nat)
  | PY (y : yfr) (a : att) (p : list mop) (k : nat).

Definition wframes (w : wfr) : stack mc :=
  match w with
  | WfSaving => [WSaving 0] | WfData => [WData 0] | WfNext n => [WNext 0 n] | WfXchg n => [WXchg 0 n]
  | WfLink a n => [WLink 0 a n] | WfY => [YRead] | WfYN st => [YNext st]
  | WfSw => [SwRead; YLoop] | WfSd => [SwDone; YLoop] | WfMr => [MRead; YLoop] | WfMf => [MFlip; YLoop]
  | WfAs => [Asleep; YLoop] | WfRe => [Resume; YLoop]
  end.
Definition kframes (kf : kfr) : stack mc :=
  match kf with
  | KfHead => [KHead 0 1 0] | KfNext h => [KNext 0 1 0 h] | KfSet h nx => [KSetHead 0 1 0 h nx]
  | KfSpY => [YRead; KSpin 0 1 0] | KfSpN st => [YNext st; KSpin 0 1 0]
  | KfData h nx => [KData 0 1 0 h nx] | KfCopy h d => [KCopy 0 1 0 h d] | KfOut h => [KOut 0 1 0 h]
  | KfState f => [KState 0 1 0 f] | KfReady f => [KReady 0 1 0 f]
  end.
Definition yframes (y : yfr) : stack mc :=
  match y with
  | YfY => [YRead] | YfYN st => [YNext st] | YfSw => [SwRead; YLoop] | YfSd => [SwDone; YLoop]
  | YfMr => [MRead; YLoop] | YfUAdd => [UAdd 0; MSlots; YLoop] | YfAs => [Asleep; YLoop] | YfRe => [Resume; YLoop]
  end.
Definition ktail (tl : ktl) : stack mc :=
  match tl with
  | TU r p k => [UWoke; UYield; FC (MUnl r p k)]
  | TM a p k => [UWoke; MSlots; YLoop; FC (MWt5 a p k)]
  end.
Definition stk_of (p : ph) : stack mc :=
  match p with
  | PInit pr => [Start; FC (MNext pr 1)]
  | PDone => []
  | PLSub a p k => [LSub 0; FC (MLocked a p k)]
  | PCs f c => [f; FC c]
  | PUAdd r p k => [UAdd 0; UYield; FC (MUnl r p k)]
  | PW w a p k => wframes w ++ [LWaited; FC (MLocked a p k)]
  | PK kf tl => kframes kf ++ ktail tl
  | PUY r p k => [YRead; UDone; FC (MUnl r p k)]
  | PUYN st r p k => [YNext st; UDone; FC (MUnl r p k)]
  | PY y a p k => yframes y ++ [FC (MWt5 a p k)]
  end.

(* thread t's own scalars *)
Record view := mkV { vfs : Z; vfn : nat; vpd : nat; vbl : bool; vro : grole; vha : hst;
                     vch : chst; vsm : option nat; vinq : Prop }.
Definition view_of (x : gst) (t : nat) : view :=
  let m := mem (gb x) in
  mkV (fstate m t) (fnode m t) (pend m t) (blocked m t) (role x t) (hand x t) (chand x t)
      (slot_mutex m t) (In t (map fst (gq x))).

Definition settled (h : hst) := h = HNone \/ h = HWoken.
Definition csettled (c : chst) := c = CNone \/ c = CWoken.
(* not involved in a channel wait *)
Definition nochan (v : view) := csettled (vch v) /\ vsm v = None.
(* scalars common to all phases outside the mutex wait path *)
Definition quiet (v : view) := vbl v = false /\ vfn v <> O /\ ~ vinq v /\ settled (vha v).
Definition calm (v : view) := vpd v = O /\ quiet v /\ nochan v.

(* a waiter that has linked its node: queued, or handed the lock *)
Definition wq (v : view) :=
  match vha v with
  | HNone => vro v = Announced /\ vinq v /\ vfn v = O /\ vpd v = O
  | HPopped _ => vro v = Owner /\ ~ vinq v /\ vfn v = O /\ vpd v = O
  | HNode _ => vro v = Owner /\ ~ vinq v /\ vfn v <> O /\ vpd v = O
  | HWoken => vro v = Owner /\ ~ vinq v /\ vfn v <> O
  end.
Definition preflip (v : view) :=
  wq v /\ vfs v = ST_SAVING /\ vbl v = false /\ (vha v = HWoken -> vpd v = 1%nat) .
Definition resumed (v : view) :=
  wq v /\ vha v = HWoken /\ vfs v = ST_RUNNING /\ vpd v = O /\ vbl v = false.
Definition prelink (v : view) :=
  vpd v = O /\ vbl v = false /\ vfn v = O /\ vha v = HNone /\ vro v = Announced /\ vfs v = ST_SAVING.

Definition kbase (v : view) := calm v /\ vro v = Idle /\ vfs v = ST_RUNNING.
(* in the channel wait, after the deferred unlock *)
Definition cwait (v : view) :=
  match vch v with
  | CNone => False
  | CQueued | CPopped _ => vpd v = O
  | CWoken => vpd v = 1%nat
  end.
Definition mbase (v : view) := quiet v /\ vsm v = None /\ vro v = Idle /\ cwait v.
(* the lock holder in its critical section *)
Definition obase (v : view) := vpd v = O /\ quiet v /\ vsm v = None /\ vro v = Owner /\ vfs v = ST_RUNNING.
(* internal_wait: before / after the deferred unlock slot is consumed *)
Definition ypre (v : view) :=
  vpd v = O /\ quiet v /\ vro v = Owner /\ vch v = CQueued /\ vfs v = ST_WAITING /\ vsm v = Some O.
Definition ypost (v : view) :=
  vpd v = O /\ quiet v /\ vro v = Owner /\ vch v = CQueued /\ vsm v = None.

Definition Lw (v : view) (w : wfr) : Prop :=
  nochan v /\
  match w with
  | WfSaving => calm v /\ vha v = HNone /\ vro v = Announced /\ vfs v = ST_RUNNING
  | WfData => calm v /\ vha v = HNone /\ vro v = Announced /\ vfs v = ST_SAVING
  | WfNext _ | WfXchg _ => prelink v /\ ~ vinq v
  | WfLink _ _ => prelink v /\ vinq v
  | WfY => preflip v \/ resumed v
  | WfYN st => st = vfs v /\ (preflip v \/ resumed v)
  | WfSw | WfSd | WfMr | WfMf => preflip v
  | WfAs => wq v /\ ((vha v <> HWoken /\ vfs v = ST_WAITING /\ vbl v = true) \/
                     (vha v = HWoken /\ vbl v = false /\ vpd v = O))
  | WfRe => wq v /\ vha v = HWoken /\ vbl v = false /\ vpd v = O
  end.

Definition kpre (kf : kfr) : bool :=
  match kf with KfHead | KfNext _ | KfSet _ _ | KfSpY | KfSpN _ => true | _ => false end.
Definition kspin (kf : kfr) : bool :=
  match kf with KfSpY | KfSpN _ => true | _ => false end.

Definition Lk (v : view) (kf : kfr) (tl : ktl) : Prop :=
  match tl with
  | TU _ _ _ => kbase v /\ match kf with KfSpN st => st = vfs v | _ => True end
  | TM _ _ _ => mbase v /\ kspin kf = false
  end.

Definition Ly (v : view) (y : yfr) : Prop :=
  match y with
  | YfY => ypre v \/ kbase v
  | YfYN st => st = vfs v /\ (ypre v \/ kbase v)
  | YfSw | YfSd | YfMr => ypre v
  | YfUAdd => ypost v
  | YfAs => vfn v <> O /\ ~ vinq v /\ settled (vha v) /\ vsm v = None /\ vro v = Idle /\ vpd v = O /\
            (((vch v = CQueued \/ exists u, vch v = CPopped u) /\ vbl v = true) \/
             (vch v = CWoken /\ vbl v = false))
  | YfRe => quiet v /\ vsm v = None /\ vro v = Idle /\ vpd v = O /\ vch v = CWoken
  end.

Definition is_wt4 (c : mc) : bool := match c with MWt4 _ _ _ => true | _ => false end.

Definition L (v : view) (p : ph) : Prop :=
  match p with
  | PInit _ | PDone => calm v /\ vro v = Idle
  | PLSub _ _ _ => calm v /\ vro v = Idle /\ vfs v = ST_RUNNING
  | PCs f c => obase v /\ (if is_wt4 c then vch v = CQueued else csettled (vch v))
  | PUAdd _ _ _ => obase v /\ csettled (vch v)
  | PW w _ _ _ => Lw v w
  | PK kf tl => Lk v kf tl
  | PUY _ _ _ => kbase v
  | PUYN st _ _ _ => kbase v /\ st = vfs v
  | PY y _ _ _ => Ly v y
  end.

(* ---------------- cross-thread facts per phase ---------------- *)
(* predecessor (in the chain head :: nodes of gq) of thread t's node *)
Fixpoint pred_of (a : nat) (l : list (nat * nat)) (t : nat) : option nat :=
  match l with
  | [] => None
  | (u, n) :: r => if Nat.eqb u t then Some a else pred_of n r t
  end.

Definition popping (x : gst) (t f : nat) (h : hst) : Prop :=
  hand x f = h /\ role x f = Owner.

Definition Xk (x : gst) (t : nat) (kf : kfr) : Prop :=
  let m := mem (gb x) in
  match kf with
  | KfHead | KfSpY | KfSpN _ => debt x = Some t
  | KfNext h => debt x = Some t /\ h = qhead m 0
  | KfSet h nx => debt x = Some t /\ h = qhead m 0 /\ nnext m h = nx /\ nx <> O
  | KfData h nx => nx = qhead m 0 /\ exists f, ndata m nx = fname f /\ popping x t f (HPopped t)
  | KfCopy h d => exists f, d = fname f /\ popping x t f (HPopped t)
  | KfOut h => exists f, ndata m h = fname f /\ popping x t f (HPopped t)
  | KfState f => popping x t f (HNode t)
  | KfReady f => popping x t f (HNode t) /\ fstate m f = ST_WAITING
  end.

(* the cells of the two list heads *)
Definition lhd (c : nat) : Prop := c = c_waiters \/ c = c_rwaiters.

(* the critical section: the access on top of continuation c, and what the
   holder knows about the channel's waiter lists *)
Definition csx (x : gst) (t : nat) (f : frame mc) (c : mc) : Prop :=
  let C := cell (mem (gb x)) in
  let ol := onelist (gb x) in
  match c with
  | MNext _ _ | MLocked _ _ _ | MUnl _ _ _ | MWt5 _ _ _ => False
  | MHigh _ _ _ | MSIdx _ _ _ | MSHigh2 _ _ => f = CRead c_high
  | MLow _ _ _ _ | MRIdx _ _ | MRLow2 _ _ _ => f = CRead c_low
  | MSBuf _ _ => exists i v, f = CWrite (c_buf i) v
  | MRBuf i _ _ => f = CRead (c_buf i)
  | MRClr _ _ _ => exists i, f = CWrite (c_buf i) 0
  | MWk0 c0 _ _ _ => lhd c0 /\ exists v, f = CWrite c_high v \/ f = CWrite c_low v
  | MWk1 c0 _ _ _ => lhd c0 /\ f = CRead c0
  | MWk2 c0 _ _ _ => lhd c0 /\ f = CRead c0 /\ cq x c0 <> []
  | MWk3 c0 _ g _ _ => lhd c0 /\ f = CRead (c_scr g) /\ exists rest, cq x c0 = g :: rest
  | MWk4 _ g _ _ => exists c0 rest, lhd c0 /\ f = CWrite c0 (C (c_scr g)) /\ cq x c0 = g :: rest
  | MWk5 _ g _ _ => f = CWrite (c_scr g) 0 /\ chand x g = CPopped t
  | MWk6 _ g _ _ => f = FStWrite g ST_READY /\ chand x g = CPopped t
  | MWt1 a _ _ => f = CRead (wait_list ol a)
  | MWt2 a _ _ => f = CWrite (c_scr t) (C (wait_list ol a))
  | MWt3 _ _ _ => exists c0, lhd c0 /\ f = CWrite c0 (fname t) /\ C (c_scr t) = C c0
  | MWt4 _ _ _ => f = FStWrite t ST_WAITING
  end.

Definition X (x : gst) (t : nat) (p : ph) : Prop :=
  let m := mem (gb x) in
  match p with
  | PCs f c => csx x t f c
  | PW (WfNext n) _ _ _ => ndata m n = fname t
  | PW (WfXchg n) _ _ _ => ndata m n = fname t /\ nnext m n = O
  | PW (WfLink a n) _ _ _ => pred_of (qhead m 0) (gq x) t = Some a /\ nnext m a = O /\ In (t, n) (gq x)
  | PK kf _ => Xk x t kf
  | _ => True
  end.

(* nodes privately owned by thread t *)
Definition extra (s : stack mc) : list nat :=
  match s with
  | WNext _ n :: _ | WXchg _ n :: _ => [n]
  | KData _ _ _ h _ :: _ | KCopy _ _ _ h _ :: _ | KOut _ _ _ h :: _ => [h]
  | _ => []
  end.
Definition priv (x : gst) (t : nat) : list nat :=
  (if Nat.eqb (fnode (mem (gb x)) t) 0 then [] else [fnode (mem (gb x)) t]) ++ extra (stk (gb x) t).
Definition chain (x : gst) : list nat := qhead (mem (gb x)) 0 :: map snd (gq x).

Fixpoint chain_ok (m : kmem) (a : nat) (l : list (nat * nat)) : Prop :=
  match l with
  | [] => nnext m a = O /\ qtail m 0 = a
  | (_, n) :: r => (nnext m a = n \/ nnext m a = O) /\ chain_ok m n r
  end.

Definition cnt (P : nat -> bool) (n : nat) : nat := length (filter P (seq 0 n)).
Definition is_owner (r : grole) := match r with Owner => true | _ => false end.
Definition is_ann (r : grole) := match r with Announced => true | _ => false end.
Definition nown (x : gst) := cnt (fun t => is_owner (role x t)) (nthr (gb x)).
Definition nann (x : gst) := cnt (fun t => is_ann (role x t)) (nthr (gb x)).

(* roles, debt and the counter *)
Record InvC (x : gst) : Prop := {
  I_role_lt : forall t, role x t <> Idle -> (t < nthr (gb x))%nat;
  I_own1 : forall t u, role x t = Owner -> role x u = Owner -> t = u;
  I_debt_own : forall d t, debt x = Some d -> role x t <> Owner;
  I_debt_ann : forall d, debt x = Some d -> exists t, role x t = Announced;
  I_nodebt : debt x = None -> nown x = 1%nat \/ nann x = O;
  I_count : word (mem (gb x)) 0 = 1 - Z.of_nat (nown x) - Z.of_nat (nann x);
  I_gq_role : forall t n, In (t, n) (gq x) -> role x t = Announced
}.
(* the waiter list of object 0 and node ownership *)
Record InvN (x : gst) : Prop := {
  I_gq_nd : NoDup (map fst (gq x));
  I_chain_nd : NoDup (chain x);
  I_chain_nz : forall n, In n (chain x) -> n <> O;
  I_chain : chain_ok (mem (gb x)) (qhead (mem (gb x)) 0) (gq x);
  I_gq_ent : forall t n, In (t, n) (gq x) -> ndata (mem (gb x)) n = fname t;
  I_priv_nz : forall t n, In n (priv x t) -> n <> O;
  I_priv_nd : forall t, NoDup (priv x t);
  I_priv_disj : forall t u n, t <> u -> In n (priv x t) -> ~ In n (priv x u);
  I_priv_chain : forall t n, In n (priv x t) -> ~ In n (chain x)
}.
(* the channel's waiter lists: linked through the scratch cells *)
Fixpoint clist_ok (C : nat -> Z) (c : nat) (l : list nat) : Prop :=
  match l with
  | [] => C c = 0
  | f :: r => C c = fname f /\ clist_ok C (c_scr f) r
  end.
Record InvQ (x : gst) : Prop := {
  Q_ok : forall c, lhd c -> clist_ok (cell (mem (gb x))) c (cq x c);
  Q_nd : NoDup (cq x c_waiters ++ cq x c_rwaiters);
  Q_in : forall c f, lhd c -> In f (cq x c) -> chand x f = CQueued
}.

Definition thr_ok (x : gst) (t : nat) : Prop :=
  exists p, stk (gb x) t = stk_of p /\ L (view_of x t) p /\ X x t p.
Definition slots_ok (m : kmem) : Prop :=
  forall t, slot_sched m t = false /\ slot_wait m t = None /\ slot_mpmc m t = None.
Record Inv (x : gst) : Prop := {
  I_thr : forall t, thr_ok x t;
  I_slots : slots_ok (mem (gb x));
  I_debt_k : forall d, debt x = Some d ->
             exists kf tl, stk (gb x) d = stk_of (PK kf tl) /\ kpre kf = true;
  I_C : InvC x;
  I_N : InvN x;
  I_Q : InvQ x
}.

(* ---------------- counting (as in MutexProofs.v) ---------------- *)
Lemma cnt_S P n : cnt P (S n) = (cnt P n + (if P n then 1 else 0))%nat.
Proof.
  unfold cnt. rewrite seq_S, filter_app, app_length. cbn.
  destruct (P n); reflexivity.
Qed.

Lemma cnt_ext P Q n : (forall t, (t < n)%nat -> P t = Q t) -> cnt P n = cnt Q n.
Proof.
  induction n as [|n IH]; intros H; [reflexivity|].
  rewrite !cnt_S, IH, (H n) by (intros; auto with arith). reflexivity.
Qed.

Lemma cnt_upd P Q n t : (t < n)%nat -> (forall u, u <> t -> P u = Q u) ->
  (cnt P n + (if Q t then 1 else 0) = cnt Q n + (if P t then 1 else 0))%nat.
Proof.
  induction n as [|n IH]; intros Ht H; [lia|].
  rewrite !cnt_S. destruct (Nat.eq_dec t n) as [->|N].
  - rewrite (cnt_ext P Q n) by (intros u Hu; apply H; lia). lia.
  - rewrite (H n) by congruence. assert (t < n)%nat by lia. specialize (IH H0 H). lia.
Qed.

Lemma cnt_pos P n t : (t < n)%nat -> P t = true -> (1 <= cnt P n)%nat.
Proof.
  induction n as [|n IH]; intros Ht H; [lia|]. rewrite cnt_S.
  destruct (Nat.eq_dec t n) as [->|N]; [rewrite H; lia|].
  assert (t < n)%nat by lia. specialize (IH H0 H). lia.
Qed.

Lemma cnt_zero P n : (forall t, (t < n)%nat -> P t = false) -> cnt P n = O.
Proof.
  induction n as [|n IH]; intros H; [reflexivity|].
  rewrite cnt_S, IH, (H n) by (intros; auto with arith). reflexivity.
Qed.

Lemma cnt_ex P n : (1 <= cnt P n)%nat -> exists t, (t < n)%nat /\ P t = true.
Proof.
  induction n as [|n IH]; intros H; [cbn in H; lia|]. rewrite cnt_S in H.
  destruct (P n) eqn:E; [exists n; auto|].
  destruct IH as [t [Ht Pt]]; [lia|]. exists t. auto.
Qed.

Lemma cnt_le1 P n : (forall t u, P t = true -> P u = true -> t = u) -> (cnt P n <= 1)%nat.
Proof.
  intros U. induction n as [|n IH]; [cbn; lia|]. rewrite cnt_S.
  destruct (P n) eqn:E; [|lia].
  rewrite cnt_zero; [lia|]. intros t Ht. destruct (P t) eqn:E2; [|reflexivity].
  specialize (U _ _ E E2). lia.
Qed.

Lemma tid_of_fname f : tid_of_name (fname f) = f.
Proof. unfold tid_of_name, fname, Zn. replace (1000 + Z.of_nat f - 1000) with (Z.of_nat f) by lia. apply Nat2Z.id. Qed.

Lemma fname_inj t u : fname t = fname u -> t = u.
Proof. unfold fname, Zn. lia. Qed.

Lemma chain_ok_ext m m' a l :
  nnext m' = nnext m -> qtail m' 0%nat = qtail m 0%nat -> chain_ok m a l -> chain_ok m' a l.
Proof.
  intros E1 E2. revert a. induction l as [|[u n] r IH]; intros a; cbn; rewrite E1; [rewrite E2; tauto|].
  intros [H1 H2]. split; [exact H1|]. apply IH. exact H2.
Qed.

(* ---------------- cells ---------------- *)
Ltac cells := unfold c_scr, c_waiters, c_rwaiters, c_buf, c_high, c_low in *; lia.
Lemma lhd_wait ol a : lhd (wait_list ol a).
Proof. unfold lhd, wait_list. destruct ol; [auto|]. destruct a; auto. Qed.
Lemma lhd_wake ol a : lhd (wake_list ol a).
Proof. unfold lhd, wake_list. destruct ol; [auto|]. destruct a; auto. Qed.
Lemma lhd_scr c f : lhd c -> c <> c_scr f.
Proof. intros [-> | ->]; cells. Qed.
Lemma scr_inj f g : c_scr f = c_scr g -> f = g.
Proof. cells. Qed.

Lemma clist_ok_head C c1 c2 l : C c1 = C c2 -> clist_ok C c1 l -> clist_ok C c2 l.
Proof. destruct l; cbn; intros E; rewrite E; auto. Qed.

Lemma clist_ok_upd C c l c' v :
  c <> c' -> (forall f, In f l -> c_scr f <> c') -> clist_ok C c l -> clist_ok (upd C c' v) c l.
Proof.
  revert c. induction l as [|f r IH]; intros c Hc Hs; cbn.
  - rewrite upd_other by exact Hc. auto.
  - rewrite upd_other by exact Hc. intros [H1 H2]. split; [exact H1|].
    apply IH; [apply Hs; cbn; auto | intros g Hg; apply Hs; cbn; auto | exact H2].
Qed.

Lemma clist_ok_ext C C' c l : (forall j, C' j = C j) -> clist_ok C c l -> clist_ok C' c l.
Proof.
  intros E. revert c. induction l as [|f r IH]; intros c; cbn; rewrite E; [auto|].
  intros [H1 H2]. split; [exact H1 | apply IH; exact H2].
Qed.

(* ---------------- the initial state ---------------- *)
Lemma inv_init ol k progs : Inv (ginit ol k progs).
Proof.
  assert (Z0 : forall n, cnt (fun _ => false) n = O) by (intros; apply cnt_zero; reflexivity).
  constructor; [| | |constructor|constructor|constructor]; unfold slots_ok, nown, nann, chain, priv;
  cbn [ginit gb role hand gq debt chand cq init_ol mem stk nthr kinit
    slot_mutex slot_sched slot_wait slot_mpmc word qhead qtail nnext ndata fnode cell map is_owner is_ann chain_ok];
    try discriminate; try tauto.
  - intros t. exists (PInit (nth t progs [])). split; [reflexivity|]. split; [|exact I].
    cbn. unfold calm, quiet, nochan, settled, csettled; cbn. intuition discriminate.
  - right. apply Z0.
  - rewrite !Z0. reflexivity.
  - intros t n [].
  - constructor.
  - constructor; [intros []|constructor].
  - intros n [<-|[]]. discriminate.
  - intros t n [].
  - cbn. intros t n [<-|[]]. lia.
  - cbn. intros t. constructor; [intros []|constructor].
  - cbn. intros t u n N [<-|[]] [E|[]]. lia.
  - cbn. intros t n [<-|[]] [E|[]]. lia.
  - intros c _. reflexivity.
  - constructor.
  - intros c f _ [].
Qed.

(* ---------------- frame lemmas ---------------- *)
Lemma invN_frame x x' :
  qhead (mem (gb x')) = qhead (mem (gb x)) -> qtail (mem (gb x')) = qtail (mem (gb x)) ->
  nnext (mem (gb x')) = nnext (mem (gb x)) -> ndata (mem (gb x')) = ndata (mem (gb x)) ->
  fnode (mem (gb x')) = fnode (mem (gb x)) -> gq x' = gq x ->
  (forall u, extra (stk (gb x') u) = extra (stk (gb x) u)) ->
  InvN x -> InvN x'.
Proof.
  intros Eh Et En Ed Ef Eq Ex N.
  assert (Ec : chain x' = chain x) by (unfold chain; rewrite Eh, Eq; reflexivity).
  assert (Ep : forall u, priv x' u = priv x u) by (intros u; unfold priv; rewrite Ef, Ex; reflexivity).
  destruct N. constructor; rewrite ?Ec, ?Eq, ?Eh, ?Ed; auto.
  - apply (chain_ok_ext (mem (gb x))); auto. now rewrite Et.
  - intros t n. rewrite Ep. apply I_priv_nz0.
  - intros t. rewrite Ep. auto.
  - intros t u n. rewrite !Ep. apply I_priv_disj0.
  - intros t n. rewrite Ep. apply I_priv_chain0.
Qed.

Lemma invC_frame x x' :
  role x' = role x -> debt x' = debt x -> gq x' = gq x ->
  word (mem (gb x')) 0%nat = word (mem (gb x)) 0%nat -> nthr (gb x') = nthr (gb x) ->
  InvC x -> InvC x'.
Proof.
  intros Er Ed Eq Ew En C.
  assert (E1 : nown x' = nown x) by (unfold nown; rewrite Er, En; reflexivity).
  assert (E2 : nann x' = nann x) by (unfold nann; rewrite Er, En; reflexivity).
  destruct C. constructor; rewrite ?E1, ?E2, ?Er, ?Ed, ?Eq, ?Ew, ?En; auto.
Qed.

Lemma invQ_frame x x' :
  cell (mem (gb x')) = cell (mem (gb x)) -> cq x' = cq x -> chand x' = chand x ->
  InvQ x -> InvQ x'.
Proof.
  intros Ec Eq Eh Q. destruct Q. constructor; rewrite ?Ec, ?Eq, ?Eh; auto.
Qed.

Definition view_eqv (v v' : view) : Prop :=
  vfs v' = vfs v /\ vfn v' = vfn v /\ vpd v' = vpd v /\ vbl v' = vbl v /\ vro v' = vro v /\
  vha v' = vha v /\ vch v' = vch v /\ vsm v' = vsm v /\ (vinq v' <-> vinq v).

Ltac Lunf := unfold L, Lw, Lk, Ly, kbase, mbase, obase, ypre, ypost, cwait, calm, quiet, nochan,
               preflip, resumed, prelink, wq, settled, csettled;
             cbn [vfs vfn vpd vbl vro vha vch vsm vinq].

Lemma L_eqv v v' p : view_eqv v v' -> L v p -> L v' p.
Proof.
  destruct v, v'. unfold view_eqv. cbn [vfs vfn vpd vbl vro vha vch vsm vinq].
  intros (-> & -> & -> & -> & -> & -> & -> & -> & Hq).
  destruct p as [| | | | |w ? ? ?|kf tl| | |y ? ? ?]; try destruct w; try destruct kf; try destruct tl; try destruct y;
  Lunf; try destruct vha0; try destruct vch0; tauto.
Qed.

Lemma X_frame x x' u p :
  cell (mem (gb x')) = cell (mem (gb x)) -> ndata (mem (gb x')) = ndata (mem (gb x)) ->
  nnext (mem (gb x')) = nnext (mem (gb x)) -> qhead (mem (gb x')) = qhead (mem (gb x)) ->
  gq x' = gq x -> debt x' = debt x -> hand x' = hand x -> role x' = role x ->
  chand x' = chand x -> cq x' = cq x -> onelist (gb x') = onelist (gb x) ->
  (forall f w, hand x f = HNode w -> fstate (mem (gb x)) f = ST_WAITING -> fstate (mem (gb x')) f = ST_WAITING) ->
  X x u p -> X x' u p.
Proof.
  intros Ec Ed En Eh Eq Eb Ea Er Ech Ecq Eol Hf.
  destruct p as [| | |f c| |w ? ? ?|kf tl| | |y ? ? ?]; try destruct w; try destruct kf; try destruct c;
  unfold X, Xk, csx, popping; rewrite ?Ec, ?Ed, ?En, ?Eh, ?Eq, ?Eb, ?Ea, ?Er, ?Ech, ?Ecq, ?Eol; auto.
  intros [H1 H2]. split; [exact H1|]. eapply Hf; [apply H1 | exact H2].
Qed.

Definition mk (x : gst) (t : nat) (m' : kmem) (s' : stack mc) r h q d ch cl : gst :=
  mkG {| mem := m'; stk := upd (stk (gb x)) t s'; nthr := nthr (gb x); csize := csize (gb x);
         onelist := onelist (gb x) |} r h q d ch cl.

(* memory changed at most in thread t's own state / sleep bookkeeping / unlock slot *)
Definition loc_eq (m m' : kmem) (t : nat) : Prop :=
  ndata m' = ndata m /\ nnext m' = nnext m /\ word m' = word m /\ qhead m' = qhead m /\
  qtail m' = qtail m /\ fnode m' = fnode m /\ cell m' = cell m /\
  slot_sched m' = slot_sched m /\ slot_wait m' = slot_wait m /\ slot_mpmc m' = slot_mpmc m /\
  (forall u, u <> t -> fstate m' u = fstate m u /\ blocked m' u = blocked m u /\ pend m' u = pend m u /\
                       slot_mutex m' u = slot_mutex m u).

Lemma stk_of_K_inj p kf tl : stk_of p = stk_of (PK kf tl) -> p = PK kf tl.
Proof.
  destruct p as [| | |f c| |w ? ? ?|kf' tl'| | |y ? ? ?]; try destruct w; try destruct y;
  destruct kf; try destruct kf'; destruct tl; try destruct tl';
  cbn; intros E; try discriminate; injection E; intros; subst; reflexivity.
Qed.

Lemma inv_local x t m' s' p' :
  Inv x ->
  loc_eq (mem (gb x)) m' t ->
  s' = stk_of p' -> extra s' = extra (stk (gb x) t) ->
  let x' := mk x t m' s' (role x) (hand x) (gq x) (debt x) (chand x) (cq x) in
  L (view_of x' t) p' -> X x' t p' ->
  (fstate m' t = fstate (mem (gb x)) t \/ fstate (mem (gb x)) t <> ST_WAITING \/
   forall u, hand x t <> HNode u) ->
  (debt x = Some t -> exists kf tl, p' = PK kf tl /\ kpre kf = true) ->
  Inv x'.
Proof.
  intros I (Ed & En & Ew & Eh & Et & Ef & Ec & S2 & S3 & S4 & Eo) Es Ee x' HL HX Hfs Hd.
  assert (Est : forall u, u <> t -> stk (gb x') u = stk (gb x) u)
    by (intros u Hu; cbn; apply upd_other; exact Hu).
  assert (Est' : stk (gb x') t = s') by (cbn; apply upd_same).
  constructor.
  - intros u. destruct (Nat.eq_dec u t) as [->|N].
    + exists p'. rewrite Est'. auto.
    + destruct (I_thr x I u) as [p [P1 [P2 P3]]]. exists p. rewrite (Est u N). split; [exact P1|].
      destruct (Eo u N) as (F1 & F2 & F3 & F4). split.
      * eapply L_eqv; [|exact P2]. unfold view_eqv, view_of; cbn. rewrite F1, F2, F3, F4, Ef. tauto.
      * eapply X_frame; [..|exact P3]; cbn; auto.
        intros f w Hp Hw. destruct (Nat.eq_dec f t) as [->|Nf].
        -- destruct Hfs as [E|[E|E]]; [congruence|contradiction|]. now apply E in Hp.
        -- destruct (Eo f Nf) as (G1 & _). congruence.
  - intros u. cbn. rewrite S2, S3, S4. apply (I_slots x I).
  - intros d Hdd. cbn in Hdd. destruct (Nat.eq_dec d t) as [->|N].
    + destruct (Hd Hdd) as (kf & tl & -> & K). exists kf, tl. rewrite Est'. auto.
    + rewrite (Est d N). apply (I_debt_k x I). exact Hdd.
  - apply (invC_frame x); cbn; auto. now rewrite Ew. apply (I_C x I).
  - apply (invN_frame x); cbn; auto.
    + intros u. destruct (Nat.eq_dec u t) as [->|N]; [rewrite upd_same; exact Ee|now rewrite upd_other].
    + apply (I_N x I).
  - apply (invQ_frame x); cbn; auto. apply (I_Q x I).
Qed.
