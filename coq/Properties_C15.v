(* C15 — MPSC / SPSC / relaxed-MPSC queues (include/mpsc_fifo.h, spsc_fifo.h,
   mpsc_relaxed_fifo.h): every pushed item is returned at most once and only
   pushed items are returned, in the order of the tail exchanges (hence in
   per-producer program order); trypop reports empty only when justified; the
   node handed to the consumer is private to it.
   Statements over every reachable state of coq/Mpsc.v, Spsc.v, Mpscr.v
   (one step per shared access): any number of threads, any programs obeying
   the usage discipline [wf] (thread 0 is the only consumer; a node is pushed
   by at most one OPush op and is not a stub; Spsc: one producer thread pt;
   Mpscr: at most one pushing thread per queue, producer numbers < np), any
   schedule.  Nodes returned by trypop may be pushed again (Mpsc: ORepush by
   the consumer; Spsc/Mpscr: ORecyc by a producer through a free stack): a
   recycled node carries an arbitrary stale next pointer.  The history theorems are about the machine instrumented with
   ghost logs (lstep in the *Proofs files; erasure: lstep_erase):
     plog = (thread, value) of each push in the order of the tail exchanges /
            tail stores (Mpscr: (thread, queue, value)),
     qlog = the value the consumer read from each node returned by trypop, in
            return order (Mpscr: (queue, value)).
   Guards: sequentially consistent interleaving of the accesses; Mpscr: the
   plain counter does not reach 2^64 (unbounded nat). *)
From Coq Require Import List Arith Bool Lia.
From LF Require Import Conc.
From LF Require Mpsc MpscProofs Spsc SpscProofs Mpscr MpscrProofs.
Import ListNotations.

(* ================================================================== *)
Module MPSC.
Import Mpsc MpscProofs.

(* The values returned by successful pops, in return order, are a prefix of the
   values pushed, in the order of the tail exchanges; the remainder is exactly
   the value being returned by an in-progress pop (if any) followed by the data
   of the nodes currently queued behind the stub.  Since a push whose exchange
   happened before another push began precedes it in plog, it is returned
   first. *)
Theorem mpsc_exactly_once_fifo : forall progs x,
  wf progs -> ireach progs x ->
  exists pend, map snd (plog x) = qlog x ++ pend ++ content x /\
               length pend = if popping (pc (thr (base x) 0)) then 1 else 0.
Proof. intros progs x W R. exact (fifo_of_inv x (ireach_inv progs x W R)). Qed.
Print Assumptions mpsc_exactly_once_fifo.

(* at most once: the k-th returned value is the k-th exchanged value *)
Theorem mpsc_kth_pop_is_kth_push : forall progs x k v,
  wf progs -> ireach progs x ->
  nth_error (qlog x) k = Some v -> nth_error (map snd (plog x)) k = Some v.
Proof. intros progs x k v W R. exact (kth_of_inv x k v (ireach_inv progs x W R)). Qed.
Print Assumptions mpsc_kth_pop_is_kth_push.

Theorem mpsc_pop_returns_pushed_only : forall progs x v,
  wf progs -> ireach progs x ->
  In v (qlog x) -> exists t, In (t, v) (plog x).
Proof. intros progs x v W R. exact (pushed_only_of_inv x v (ireach_inv progs x W R)). Qed.
Print Assumptions mpsc_pop_returns_pushed_only.

(* per-producer order: what producer t has exchanged so far, followed by what
   it has still to push, is its program *)
Theorem mpsc_per_producer_order : forall progs x t,
  wf progs -> ireach progs x -> t <> 0 ->
  tagged t (plog x) ++ pendvals (thr (base x) t) = pushvals (nth t progs []).
Proof. intros progs x t W R. exact (ireach_pinv progs x W R t). Qed.
Print Assumptions mpsc_per_producer_order.

(* trypop is about to return NULL (it reads a NULL next pointer) only if at
   that instant every exchanged push has been returned, or the oldest
   unreturned exchanged push has not yet executed its link store *)
Theorem mpsc_empty_justified : forall progs x t,
  wf progs -> ireach progs x ->
  pc (thr (base x) t) = QNext -> nxt (base x) (hd (thr (base x) t)) = 0 ->
  map snd (plog x) = qlog x \/
  exists u, pc (thr (base x) u) = PLink /\ prev (thr (base x) u) = head (base x) /\
            nth_error (map snd (plog x)) (length (qlog x)) = Some (arg (thr (base x) u)).
Proof. intros progs x t W R. exact (empty_justified_of_inv x t (ireach_inv progs x W R)). Qed.
Print Assumptions mpsc_empty_justified.

(* the node being returned by trypop, or returned by the thread's last trypop
   and not yet re-pushed, is not NULL, not reachable from head, not the tail,
   not referenced by any push in flight and not owned by any other thread *)
Theorem mpsc_node_ownership : forall progs s t n,
  wf progs -> reachable M (init progs) s -> holds (thr s t) n ->
  n <> 0 /\
  (forall k, Nat.iter k (nxt s) (head s) <> n) /\
  tail s <> n /\
  (forall u, pc (thr s u) = PLink -> prev (thr s u) <> n /\ node (thr s u) <> n) /\
  (forall u, u <> t -> ~ In n (own_list (thr s u))).
Proof. intros progs s t n. exact (ownership_reachable progs s t n). Qed.
Print Assumptions mpsc_node_ownership.

(* ---- non-vacuity ---- *)
Definition ex_progs := [[OPop; OPop; ORepush 9; OPop]; [OPush 2 7]; [OPush 3 8]].

Example ex_wf : wf ex_progs.
Proof.
  constructor.
  - intros [|[|[|[|t]]]] H; cbn; auto; contradiction.
  - intros [|[|[|[|t]]]]; cbn; repeat constructor; cbn; tauto.
  - intros [|[|[|[|t]]]] [|[|[|[|u]]]] n; cbn; intros H1 H2; try tauto; lia.
  - intros [|[|[|[|t]]]] n; cbn; intros H; try tauto; lia.
Qed.

(* producer 1 has exchanged but not linked; the consumer is about to read NULL:
   the right disjunct of mpsc_empty_justified is the one that holds *)
Example ex_in_flight :
  let x := irun (iinit ex_progs) [1;1;1;0] in
  ireach ex_progs x /\ pc (thr (base x) 0) = QNext /\ nxt (base x) (hd (thr (base x) 0)) = 0 /\
  pc (thr (base x) 1) = PLink /\ plog x = [(1, 7)] /\ qlog x = [].
Proof. split; [apply ireach_irun; constructor | vm_compute; auto 10]. Qed.

(* both producers push, the consumer pops both, re-pushes the first returned
   node with a new value and pops it *)
Example ex_history :
  let x := irun (iinit ex_progs)
             [1;1;1;1; 2;2;2;2; 0;0;0;0;0;0; 0;0;0;0;0;0; 0;0;0;0; 0;0;0;0;0;0] in
  ireach ex_progs x /\ plog x = [(1, 7); (2, 8); (0, 9)] /\ qlog x = [7; 8; 9].
Proof. split; [apply ireach_irun; constructor | vm_compute; auto]. Qed.

Example ex_holds :
  let s := fst (run_sched M (init ex_progs) [1;1;1;1; 0;0;0;0]) in
  reachable M (init ex_progs) s /\ holds (thr s 0) 1.
Proof. split; [apply run_sched_reachable; constructor | vm_compute; auto]. Qed.
End MPSC.

(* ================================================================== *)
Module SPSC.
Import Spsc SpscProofs.

(* as for MPSC, with pt the single producer thread; plog is in the order of the
   stores to tail *)
Theorem spsc_exactly_once_fifo : forall pt progs x,
  wf pt progs -> ireach progs x ->
  exists pend, map snd (plog x) = qlog x ++ pend ++ content x /\
               length pend = if popping (pc (thr (base x) 0)) then 1 else 0.
Proof. intros pt progs x W R. exact (fifo_of_inv pt x (ireach_inv pt progs x W R)). Qed.
Print Assumptions spsc_exactly_once_fifo.

Theorem spsc_kth_pop_is_kth_push : forall pt progs x k v,
  wf pt progs -> ireach progs x ->
  nth_error (qlog x) k = Some v -> nth_error (map snd (plog x)) k = Some v.
Proof. intros pt progs x k v W R. exact (kth_of_inv pt x k v (ireach_inv pt progs x W R)). Qed.
Print Assumptions spsc_kth_pop_is_kth_push.

Theorem spsc_pop_returns_pushed_only : forall pt progs x v,
  wf pt progs -> ireach progs x ->
  In v (qlog x) -> exists t, In (t, v) (plog x).
Proof. intros pt progs x v W R. exact (pushed_only_of_inv pt x v (ireach_inv pt progs x W R)). Qed.
Print Assumptions spsc_pop_returns_pushed_only.

(* strict FIFO: the values stored to tail so far, followed by the values the
   producer has still to push, and hence the values returned so far, are a
   subsequence of the values of the producer's program, in program order
   (subsequence, not equality: a recycled push that finds the free stack empty
   pushes nothing) *)
Theorem spsc_program_order : forall pt progs x,
  wf pt progs -> ireach progs x ->
  subseq (map snd (plog x) ++ pendvals (thr (base x) pt)) (pushvals (nth pt progs [])) /\
  subseq (qlog x) (pushvals (nth pt progs [])).
Proof.
  intros pt progs x W R. split.
  - exact (ireach_pinv pt progs x W R).
  - exact (program_order_of_inv pt progs x (ireach_inv pt progs x W R) (ireach_pinv pt progs x W R)).
Qed.
Print Assumptions spsc_program_order.

Theorem spsc_empty_justified : forall pt progs x t,
  wf pt progs -> ireach progs x ->
  pc (thr (base x) t) = QNext -> nxt (base x) (hd (thr (base x) t)) = 0 ->
  map snd (plog x) = qlog x \/
  exists u, pc (thr (base x) u) = PLink /\ prev (thr (base x) u) = head (base x) /\
            nth_error (map snd (plog x)) (length (qlog x)) = Some (arg (thr (base x) u)).
Proof. intros pt progs x t W R. exact (empty_justified_of_inv pt x t (ireach_inv pt progs x W R)). Qed.
Print Assumptions spsc_empty_justified.

Theorem spsc_node_ownership : forall pt progs s t n,
  wf pt progs -> reachable M (init progs) s -> holds (thr s t) n ->
  n <> 0 /\
  (forall k, Nat.iter k (nxt s) (head s) <> n) /\
  tail s <> n /\
  (forall u, pc (thr s u) = PLink -> prev (thr s u) <> n /\ node (thr s u) <> n) /\
  (forall u, u <> t -> ~ In n (own_list (thr s u))).
Proof. intros pt progs s t n. exact (ownership_reachable pt progs s t n). Qed.
Print Assumptions spsc_node_ownership.

(* ---- non-vacuity ---- *)
Definition ex_progs := [[OPop; OPop; OPop]; [OPush 2 7; OPush 3 8; ORecyc 9]].

Example ex_wf : wf 1 ex_progs.
Proof.
  constructor.
  - intros [|[|[|t]]] H; cbn; auto; contradiction.
  - intros [|[|[|t]]] H; cbn; auto; contradiction.
  - intros [|[|[|t]]]; cbn; repeat constructor; cbn; intuition lia.
  - intros [|[|[|t]]] n; cbn; intros H; try tauto; lia.
Qed.

(* recycling: the consumer frees the old stub (node 1, whose stale next still
   points to node 2); the producer takes it from the free stack and pushes it
   again with value 9; all three values come out in order and node 1 ends up
   as the stub once more *)
Example ex_recycled :
  let x := irun (iinit ex_progs) [1;1;1;1;1; 1;1;1;1;1; 0;0;0;0;0;0; 1;1;1;1;1;1; 0;0;0;0;0;0; 0;0;0;0;0;0] in
  ireach ex_progs x /\ plog x = [(1, 7); (1, 8); (1, 9)] /\ qlog x = [7; 8; 9] /\
  freed (base x) = [3; 2] /\ tail (base x) = 1 /\ head (base x) = 1.
Proof. split; [apply ireach_irun; constructor | vm_compute; auto 10]. Qed.

Example ex_in_flight :
  let x := irun (iinit ex_progs) [1;1;1;1;0] in
  ireach ex_progs x /\ pc (thr (base x) 0) = QNext /\ nxt (base x) (hd (thr (base x) 0)) = 0 /\
  pc (thr (base x) 1) = PLink /\ plog x = [(1, 7)] /\ qlog x = [].
Proof. split; [apply ireach_irun; constructor | vm_compute; auto 10]. Qed.

Example ex_history :
  let x := irun (iinit ex_progs) [1;1;1;1;1; 1;1;1;1;1; 0;0;0;0;0;0] in
  ireach ex_progs x /\ plog x = [(1, 7); (1, 8)] /\ qlog x = [7] /\ content x = [8].
Proof. split; [apply ireach_irun; constructor | vm_compute; auto]. Qed.

Example ex_holds :
  let s := fst (run_sched M (init ex_progs) [1;1;1;1;1; 0;0;0;0]) in
  reachable M (init ex_progs) s /\ holds (thr s 0) 1.
Proof. split; [apply run_sched_reachable; constructor | vm_compute; auto]. Qed.
End SPSC.

(* ================================================================== *)
Module MPSCR.
Import Mpscr MpscrProofs.

(* per-producer FIFO: for every queue q, the values returned from q are a
   prefix of the values stored into q, in the order of the stores to tail[q];
   the remainder is the value being returned from q by an in-progress pop (if
   any) followed by the data of the nodes queued behind q's stub *)
Theorem mpscr_per_producer_fifo : forall npr progs x q,
  wf npr progs -> ireach npr progs x -> q < npr ->
  exists pend, ptag q (plog x) = qtag q (qlog x) ++ pend ++ content x q /\
               length pend = if popping (pc (thr (base x) 0)) && (qi (thr (base x) 0) =? q) then 1 else 0.
Proof.
  intros npr progs x q W R Hq. apply (fifo_of_inv x q (ireach_inv npr progs x W R)).
  rewrite (np_const npr progs x R). exact Hq.
Qed.
Print Assumptions mpscr_per_producer_fifo.

(* exactly once: the k-th value returned from queue q is the k-th value stored
   into q, and every returned (queue, value) was pushed into that queue *)
Theorem mpscr_exactly_once : forall npr progs x q,
  wf npr progs -> ireach npr progs x -> q < npr ->
  (forall k v, nth_error (qtag q (qlog x)) k = Some v -> nth_error (ptag q (plog x)) k = Some v) /\
  (forall v, In (q, v) (qlog x) -> exists t, In (t, q, v) (plog x)).
Proof.
  intros npr progs x q W R Hq. pose proof (ireach_inv npr progs x W R) as G.
  rewrite <- (np_const npr progs x R) in Hq. split.
  - intros k v. exact (kth_of_inv x q k v G Hq).
  - intros v. exact (pushed_only_of_inv x q v G Hq).
Qed.
Print Assumptions mpscr_exactly_once.

(* the stores of thread t into queue q happen in t's program order: what t has
   stored into q so far, followed by what it has still to push to q, is a
   subsequence of the values t's program pushes to q (a recycled push that
   finds the free stack empty pushes nothing) *)
Theorem mpscr_per_producer_order : forall npr progs x t q,
  ireach npr progs x ->
  subseq (tqvals t q (plog x) ++ pendq npr q (thr (base x) t)) (pushvalsq npr q (nth t progs [])).
Proof. intros npr progs x t q R. exact (ireach_pinv npr progs x R t q). Qed.
Print Assumptions mpscr_per_producer_order.

(* a visit of trypop reads a NULL next pointer in queue q only if at that
   instant everything stored into q has been returned, or the oldest
   unreturned push into q has not yet executed its link store *)
Theorem mpscr_empty_justified : forall npr progs x t,
  wf npr progs -> ireach npr progs x ->
  pc (thr (base x) t) = QNext -> nxt (base x) (hd (thr (base x) t)) = 0 ->
  let q := qi (thr (base x) t) in
  ptag q (plog x) = qtag q (qlog x) \/
  exists u, pc (thr (base x) u) = PLink /\ qi (thr (base x) u) = q /\
            prev (thr (base x) u) = heads (base x) q /\
            nth_error (ptag q (plog x)) (length (qtag q (qlog x))) = Some (arg (thr (base x) u)).
Proof. intros npr progs x t W R. exact (empty_justified_of_inv x t (ireach_inv npr progs x W R)). Qed.
Print Assumptions mpscr_empty_justified.

(* trypop returns NULL only after having made such a visit (visits = the queues
   in which this call read a NULL next pointer, see lstep) to every queue *)
Theorem mpscr_null_visits_all : forall npr progs x t,
  wf npr progs -> ireach npr progs x ->
  pc (thr (base x) t) = QNext -> nxt (base x) (hd (thr (base x) t)) = 0 ->
  ~ S (it (thr (base x) t)) < np (base x) ->
  forall q, q < npr -> In q (visits x ++ [qi (thr (base x) t)]).
Proof.
  intros npr progs x t W R H1 H2 H3 q Hq.
  apply (null_visits_all_of_inv x t (ireach_inv npr progs x W R) H1 H2 H3).
  rewrite (np_const npr progs x R). exact Hq.
Qed.
Print Assumptions mpscr_null_visits_all.

Theorem mpscr_node_ownership : forall npr progs s t n,
  wf npr progs -> reachable M (init npr progs) s -> holds (thr s t) n ->
  n <> 0 /\
  (forall q k, q < np s -> Nat.iter k (nxt s) (heads s q) <> n) /\
  (forall q, q < np s -> tails s q <> n) /\
  (forall u, pc (thr s u) = PLink -> prev (thr s u) <> n /\ node (thr s u) <> n) /\
  (forall u, u <> t -> ~ In n (own_list (thr s u))).
Proof. intros npr progs s t n. exact (ownership_reachable npr progs s t n). Qed.
Print Assumptions mpscr_node_ownership.

(* ---- non-vacuity ---- *)
Definition ex_progs := [[OPop; OPop; OPop]; [OPush 0 20 7; ORecyc 0 9]; [OPush 1 21 8]].

Example ex_wf : wf 2 ex_progs.
Proof.
  constructor.
  - lia.
  - intros [|[|[|[|t]]]] H; cbn; auto; contradiction.
  - intros [|[|[|[|t]]]] [|[|[|[|u]]]] q; cbn; intros H1 H2; try tauto; lia.
  - intros [|[|[|[|t]]]]; cbn; repeat constructor; cbn; tauto.
  - intros [|[|[|[|t]]]] [|[|[|[|u]]]] n; cbn; intros H1 H2; try tauto; lia.
  - intros [|[|[|[|t]]]] n; cbn; intros H; try tauto; lia.
Qed.

(* queue 0 has a push in flight, queue 1 is empty: trypop is about to return
   NULL having visited both *)
Example ex_null :
  let x := irun (iinit 2 ex_progs) [1;1;1;1; 0;0;0;0;0; 0;0;0;0] in
  ireach 2 ex_progs x /\ pc (thr (base x) 0) = QNext /\ nxt (base x) (hd (thr (base x) 0)) = 0 /\
  it (thr (base x) 0) = 1 /\ visits x = [0] /\ qi (thr (base x) 0) = 1 /\
  pc (thr (base x) 1) = PLink /\ plog x = [(1, 0, 7)].
Proof. split; [apply ireach_irun; constructor | vm_compute; auto 10]. Qed.

Example ex_history :
  let x := irun (iinit 2 ex_progs)
             [2;2;2;2;2; 1;1;1;1;1; 0;0;0;0;0;0;0;0;0; 0;0;0;0;0;0;0;0;0] in
  ireach 2 ex_progs x /\ plog x = [(2, 1, 8); (1, 0, 7)] /\ qlog x = [(0, 7); (1, 8)].
Proof. split; [apply ireach_irun; constructor | vm_compute; auto]. Qed.
End MPSCR.
