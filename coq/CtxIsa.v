(* C19 - the small x86-64 ISA into which tools/gen/gen_ctx.py translates the
   __asm__ template of fiber_context_swap, with a small-step interpreter, and
   the model of the frame that fiber_context_init builds.

   Machine state: the 16 general registers (reg -> Z), rip, and a memory
   Z -> Z of 8-byte cells addressed by BYTE address.  Every access must be
   8-byte aligned; an unaligned access is a fault (so the theorems exclude
   it, and aligned cells at different addresses never overlap).
   Code addresses are abstract: [la l] is the address of local label l of the
   template (the "resume address" when l is the label that ends it); data
   addresses are plain Z.  The interpreter executes a [list instr] with a
   program-counter index; `jmp *r` leaves the template with rip := r.

   Modelling limits (stated, not proved): values are unbounded Z, i.e. address
   arithmetic does not wrap at 2^64; flags are not modelled ("cc" is declared
   by the template); only the instruction forms below exist - the translator
   aborts on anything else. *)
From Coq Require Import List ZArith Lia Bool.
Import ListNotations.
Open Scope Z_scope.

Inductive reg := RAX | RCX | RDX | RBX | RSP | RBP | RSI | RDI
               | R8 | R9 | R10 | R11 | R12 | R13 | R14 | R15.

Definition regno (r : reg) : Z :=
  match r with
  | RAX => 0 | RCX => 1 | RDX => 2 | RBX => 3 | RSP => 4 | RBP => 5 | RSI => 6 | RDI => 7
  | R8 => 8 | R9 => 9 | R10 => 10 | R11 => 11 | R12 => 12 | R13 => 13 | R14 => 14 | R15 => 15
  end.

Definition reg_eqb (a b : reg) : bool :=
  match a, b with
  | RAX, RAX | RCX, RCX | RDX, RDX | RBX, RBX | RSP, RSP | RBP, RBP | RSI, RSI | RDI, RDI
  | R8, R8 | R9, R9 | R10, R10 | R11, R11 | R12, R12 | R13, R13 | R14, R14 | R15, R15 => true
  | _, _ => false
  end.

Lemma reg_eqb_spec a b : reflect (a = b) (reg_eqb a b).
Proof. destruct a, b; cbn; constructor; congruence. Qed.

Lemma reg_eqb_refl a : reg_eqb a a = true.
Proof. now destruct a. Qed.

Definition all_regs : list reg :=
  [RAX; RCX; RDX; RBX; RSP; RBP; RSI; RDI; R8; R9; R10; R11; R12; R13; R14; R15].

Definition mem_reg (r : reg) (l : list reg) : bool := existsb (reg_eqb r) l.

Lemma mem_reg_In r l : mem_reg r l = true <-> In r l.
Proof.
  unfold mem_reg. rewrite existsb_exists. split.
  - intros [x [Hx E]]. destruct (reg_eqb_spec r x); congruence.
  - intros H. exists r. split; auto. apply reg_eqb_refl.
Qed.

(* ---------- instructions (AT&T operand order: source first) ---------- *)
Inductive instr :=
| ILeaLabel (l : nat) (d : reg)          (* leaq  <l>f(%rip), d *)
| ILoad (disp : Z) (b d : reg)           (* movq  disp(b), d    *)
| IStore (s : reg) (disp : Z) (b : reg)  (* movq  s, disp(b)    *)
| IMov (s d : reg)                       (* movq  s, d          *)
| IPush (s : reg)                        (* pushq s             *)
| IPop (d : reg)                         (* popq  d             *)
| IAddImm (imm : Z) (d : reg)            (* add   $imm, d       *)
| IJmp (r : reg)                         (* jmp   *r            *)
| ILabel (l : nat).                      (* <l>:                *)

(* what the C code binds to an input operand of the template *)
Inductive operand_src :=
| SrcFromSlot      (* &from_context->ctx_stack_pointer *)
| SrcToSp.         (* to_context->ctx_stack_pointer    *)

Inductive clobber := CReg (r : reg) | CCc | CMemory.

(* the statements of fiber_context_init that build the first frame *)
Inductive init_item :=
| IFiller   (* --sp;  (no store)                 *)
| IParam    (* *--sp = param;                    *)
| INull     (* *--sp = NULL;                     *)
| IFn       (* *--sp = (void* )run_function;     *)
| IZero.    (* *--sp = 0;                        *)

(* the statements of fiber_context_swap that precede the asm: the preprocessor
   condition a statement is under, what it is, and whether it is executed
   unconditionally (false: wrapped in a C `if`) *)
Inductive pguard := GAlways | GSplit (* FIBER_STACK_SPLIT *) | GTsan (* __SANITIZE_THREAD__ *).
Inductive pkind :=
| KAssert           (* assert(from) / assert(to)                                  *)
| KDeclFromSlot     (* void*** const from_sp = &from->ctx_stack_pointer           *)
| KDeclToSp         (* void** const to_sp = to->ctx_stack_pointer                 *)
| KSplitGetFrom     (* __splitstack_getcontext(from->splitstack_context)          *)
| KSplitSetTo       (* __splitstack_setcontext(to->splitstack_context)            *)
| KTsanSwitchTo     (* __tsan_switch_to_fiber(to->tsan_fiber, 0)                  *)
| KPrefetchTo.      (* __builtin_prefetch(to_sp +- k, rw, locality)               *)
Inductive pcall := PCall (g : pguard) (k : pkind) (unconditional : bool).

Definition pc_guard (c : pcall) : pguard := match c with PCall g _ _ => g end.
Definition pc_kind (c : pcall) : pkind := match c with PCall _ k _ => k end.
Definition pc_uncond (c : pcall) : bool := match c with PCall _ _ u => u end.
Definition is_split_kind (k : pkind) : bool :=
  match k with KSplitGetFrom | KSplitSetTo => true | _ => false end.
Definition is_split_guard (g : pguard) : bool := match g with GSplit => true | _ => false end.

(* ---------- machine ---------- *)
Record mach := { rg : reg -> Z; mm : Z -> Z; rip : Z }.

Definition upd_reg (f : reg -> Z) (r : reg) (v : Z) : reg -> Z :=
  fun x => if reg_eqb x r then v else f x.
Definition upd_mem (f : Z -> Z) (a v : Z) : Z -> Z :=
  fun x => if Z.eqb x a then v else f x.

Definition setr (m : mach) (r : reg) (v : Z) : mach :=
  {| rg := upd_reg (rg m) r v; mm := mm m; rip := rip m |}.
Definition setm (m : mach) (a v : Z) : mach :=
  {| rg := rg m; mm := upd_mem (mm m) a v; rip := rip m |}.
Definition set_rip (m : mach) (v : Z) : mach :=
  {| rg := rg m; mm := mm m; rip := v |}.

Definition aligned8 (a : Z) : bool := Z.eqb (a mod 8) 0.

Inductive outcome := Next (m : mach) | Jump (m : mach) | Fault.

Definition step (la : nat -> Z) (i : instr) (m : mach) : outcome :=
  match i with
  | ILeaLabel l d => Next (setr m d (la l))
  | ILoad disp b d =>
      let a := rg m b + disp in
      if aligned8 a then Next (setr m d (mm m a)) else Fault
  | IStore s disp b =>
      let a := rg m b + disp in
      if aligned8 a then Next (setm m a (rg m s)) else Fault
  | IMov s d => Next (setr m d (rg m s))
  | IPush s =>
      let a := rg m RSP - 8 in
      if aligned8 a then Next (setm (setr m RSP a) a (rg m s)) else Fault
  | IPop d =>
      let a := rg m RSP in
      if aligned8 a then Next (setr (setr m RSP (a + 8)) d (mm m a)) else Fault
  | IAddImm imm d => Next (setr m d (rg m d + imm))
  | IJmp r => Jump (set_rip m (rg m r))
  | ILabel _ => Next m
  end.

Inductive result :=
| Exited (m : mach)     (* left the template through jmp; rip m is the target *)
| Fell (m : mach)       (* ran off the end of the template *)
| Faulted.              (* unaligned access (or out of fuel) *)

Fixpoint run (la : nat -> Z) (code : list instr) (fuel pc : nat) (m : mach) : result :=
  match fuel with
  | O => Faulted
  | S f =>
    match nth_error code pc with
    | None => Fell m
    | Some i =>
      match step la i m with
      | Next m' => run la code f (S pc) m'
      | Jump m' => Exited m'
      | Fault => Faulted
      end
    end
  end.

Definition exec (la : nat -> Z) (code : list instr) (m : mach) : result :=
  run la code (S (length code)) 0 m.

(* ---------- registers an instruction writes (syntactic) ---------- *)
Definition writes (i : instr) : list reg :=
  match i with
  | ILeaLabel _ d => [d]
  | ILoad _ _ d => [d]
  | IStore _ _ _ => []
  | IMov _ d => [d]
  | IPush _ => [RSP]
  | IPop d => [RSP; d]
  | IAddImm _ d => [d]
  | IJmp _ => []
  | ILabel _ => []
  end.
Definition written (code : list instr) : list reg := flat_map writes code.

Lemma upd_reg_other f r v x : x <> r -> upd_reg f r v x = f x.
Proof. unfold upd_reg. destruct (reg_eqb_spec x r); congruence. Qed.
Lemma upd_reg_same f r v : upd_reg f r v r = v.
Proof. unfold upd_reg. now rewrite reg_eqb_refl. Qed.
Lemma upd_mem_other f a v x : x <> a -> upd_mem f a v x = f x.
Proof. unfold upd_mem. destruct (Z.eqb_spec x a); congruence. Qed.
Lemma upd_mem_same f a v : upd_mem f a v a = v.
Proof. unfold upd_mem. now rewrite Z.eqb_refl. Qed.

Lemma step_unwritten la i m m' r :
  (step la i m = Next m' \/ step la i m = Jump m') -> ~ In r (writes i) -> rg m' r = rg m r.
Proof.
  destruct i; cbn; intros [H|H] N;
    repeat match type of H with context [if ?c then _ else _] => destruct c end;
    inversion H; subst; cbn; auto;
    repeat (rewrite upd_reg_other; [|intro; subst; apply N; cbn; tauto]); auto.
Qed.

Lemma run_unwritten la code : forall fuel pc m m' r,
  (run la code fuel pc m = Exited m' \/ run la code fuel pc m = Fell m') ->
  ~ In r (written code) -> rg m' r = rg m r.
Proof.
  induction fuel as [|f IH]; intros pc m m' r H N; cbn in H.
  - destruct H; discriminate.
  - destruct (nth_error code pc) as [i|] eqn:E.
    + assert (Ni : ~ In r (writes i)).
      { intro Hi. apply N. unfold written. apply in_flat_map. exists i. split; auto.
        eapply nth_error_In; eauto. }
      destruct (step la i m) as [m1|m1|] eqn:S1.
      * rewrite (IH _ _ _ _ H N). eapply step_unwritten; eauto.
      * destruct H as [H|H]; inversion H; subst. eapply step_unwritten; eauto.
      * destruct H; discriminate.
    + destruct H as [H|H]; inversion H; subst; auto.
Qed.

(* ---------- fiber_context_init ---------- *)
(* x & ~mask for mask = 2^k - 1 *)
Definition align_down (x mask : Z) : Z := x - x mod (mask + 1).

Definition init_top (base size back mask : Z) : Z :=
  align_down (base + size - 8 * back) mask.

(* replay the pushes: returns (sp, memory); None if a store is unaligned *)
Fixpoint do_pushes (items : list init_item) (sp : Z) (m : Z -> Z) (param fn : Z)
  : option (Z * (Z -> Z)) :=
  match items with
  | [] => Some (sp, m)
  | it :: r =>
    let sp' := sp - 8 in
    match it with
    | IFiller => do_pushes r sp' m param fn
    | _ =>
      if aligned8 sp' then
        do_pushes r sp' (upd_mem m sp' (match it with
                                        | IParam => param | IFn => fn | _ => 0 end)) param fn
      else None
    end
  end.

Definition init_context (back mask : Z) (items : list init_item)
           (base size param fn : Z) (m : Z -> Z) : option (Z * (Z -> Z)) :=
  do_pushes items (init_top base size back mask) m param fn.

(* ---------- operand lookup ---------- *)
Definition src_eqb (a b : operand_src) : bool :=
  match a, b with SrcFromSlot, SrcFromSlot | SrcToSp, SrcToSp => true | _, _ => false end.
Definition input_reg (s : operand_src) (l : list (operand_src * reg)) : option reg :=
  match find (fun p => src_eqb (fst p) s) l with Some p => Some (snd p) | None => None end.

(* ---------- integer fingerprint of a generated model (driver self-check) ---------- *)
Definition encode_instr (i : instr) : list Z :=
  match i with
  | ILeaLabel l d => [1; Z.of_nat l; regno d; 0]
  | ILoad disp b d => [2; disp; regno b; regno d]
  | IStore s disp b => [3; regno s; disp; regno b]
  | IMov s d => [4; regno s; regno d; 0]
  | IPush s => [5; regno s; 0; 0]
  | IPop d => [6; regno d; 0; 0]
  | IAddImm imm d => [7; imm; regno d; 0]
  | IJmp r => [8; regno r; 0; 0]
  | ILabel l => [9; Z.of_nat l; 0; 0]
  end.
Definition encode_item (i : init_item) : Z :=
  match i with IFiller => 1 | IParam => 2 | INull => 3 | IFn => 4 | IZero => 5 end.
Definition encode_model (code : list instr) (ins : list (operand_src * reg))
           (back mask : Z) (items : list init_item) : list Z :=
  flat_map encode_instr code ++ [-1] ++
  flat_map (fun p => [match fst p with SrcFromSlot => 1 | SrcToSp => 2 end; regno (snd p)]) ins ++
  [-2; back; mask] ++ map encode_item items ++ [-3].
