(* C11, multi channel: proofs about coq/MChan.v.
   Part 1: the stranding witness of the ORIGINAL one-list protocol (finding
   F-C11, repaired in /repo by 30a0183), by computation on the model with
   onelist = true.  Kept as a regression of the analysis: the same schedule on
   the two-list model (and on the code in /repo) completes (strand_fixed_completes). *)
From Coq Require Import List ZArith Lia Bool Arith.
From LF Require Import Conc T1K MChan.
Import ListNotations.
Local Open Scope Z_scope.

(* ---------- what "stranded" means on a state of the model ---------- *)

(* the attempt a sleeping fiber will retry when it is woken *)
Definition sleeping_attempt (stk : stack mc) : option att :=
  match stk with
  | Asleep :: YLoop :: FC (MWt5 a _ _) :: _ => Some a
  | _ => None
  end.

Definition occupancy (s : st) : Z := cell (mem s) c_high - cell (mem s) c_low.

Definition blocked_sender (s : st) (t : nat) : Prop :=
  (t < nthr s)%nat /\ status_of s t = SBlocked /\
  exists v, sleeping_attempt (stk s t) = Some (ASend v).
Definition blocked_receiver (s : st) (t : nat) : Prop :=
  (t < nthr s)%nat /\ status_of s t = SBlocked /\ sleeping_attempt (stk s t) = Some ARecv.

Definition nobody_runnable (s : st) : Prop := forall t, status_of s t <> SReady.

(* a sender sleeps although the buffer has room, or a receiver sleeps although
   a message is buffered, and no fiber can take a step: nothing will ever
   resume it *)
Definition stranded (s : st) : Prop :=
  nobody_runnable s /\
  ((exists t, blocked_sender s t /\ occupancy s < csize s) \/
   (exists t, blocked_receiver s t /\ 0 < occupancy s)).

(* ---------- the witness: capacity 2, senders 0,1,2 x 2, receivers 3,4 x 3 ---------- *)
Definition strand_progs : list (list mop) :=
  [[OSend 101; OSend 102]; [OSend 201; OSend 202]; [OSend 301; OSend 302];
   [ORecv; ORecv; ORecv]; [ORecv; ORecv; ORecv]].

Definition strand_sched : list nat :=
  [0; 0; 0; 0; 0; 0; 0; 0; 0; 0; 1; 1; 1; 1; 1; 1; 1; 1; 1; 1; 2; 2; 2; 2; 2; 2; 2; 2; 2; 2; 2; 2; 2; 2; 0; 0; 0; 0; 0; 0; 0; 0; 0; 0; 0; 0; 0; 1; 1; 1; 1; 1; 1; 1; 1; 1; 1; 1; 1; 1; 3; 3; 3; 3; 3; 3; 3; 3; 3; 3; 3; 3; 3; 3; 3; 3; 3; 3; 3; 3; 3; 3; 3; 3; 3; 3; 3; 3; 3; 3; 3; 3; 3; 3; 3; 3; 3; 3; 3; 3; 3; 3; 3; 3; 4; 4; 4; 4; 4; 4; 4; 4; 4; 4; 4; 4; 4; 4; 0; 0; 0; 0; 0; 0; 0; 0; 0; 0; 0; 0; 0; 0; 0; 0; 0; 0; 4; 4; 4; 4; 4; 4; 4; 4; 4; 4; 4; 4; 4; 4; 4; 4; 4; 4; 4; 4; 4; 4; 4; 4; 4; 4; 4; 4; 4; 4; 4; 4; 3; 3; 3; 3; 3; 3; 3; 3; 3; 3; 3; 3; 3; 3; 3; 3; 3; 1; 1; 1; 1; 1; 1; 1; 1; 1; 1; 1; 1; 1; 1; 1; 1; 1; 1; 3; 3; 3; 3; 3; 3; 3; 3; 3; 3; 3; 3; 3; 3; 3; 3; 3; 3; 3; 4; 4; 4; 4; 4; 4; 4; 4; 4; 4; 4; 4; 4; 4; 4; 4; 4]%nat.

Definition strand_state : st := fst (run_sched M (init_ol true 1 strand_progs) strand_sched).

Lemma strand_reachable : reachable M (init_ol true 1 strand_progs) strand_state.
Proof. apply run_sched_reachable. apply reach_init. Qed.

Lemma strand_facts :
  status_of strand_state 0 = SDone /\ status_of strand_state 1 = SDone /\
  status_of strand_state 2 = SBlocked /\ status_of strand_state 3 = SDone /\
  status_of strand_state 4 = SBlocked /\
  nthr strand_state = 5%nat /\
  cell (mem strand_state) c_high = 4 /\ cell (mem strand_state) c_low = 4 /\ csize strand_state = 2 /\
  sleeping_attempt (stk strand_state 2) = Some (ASend 301) /\
  sleeping_attempt (stk strand_state 4) = Some ARecv /\
  cell (mem strand_state) c_waiters = fname 4 /\ cell (mem strand_state) (c_scr 4) = fname 2 /\
  cell (mem strand_state) (c_scr 2) = 0.
Proof. vm_compute. repeat split; reflexivity. Qed.

Lemma status_outside s t : (nthr s <= t)%nat -> status_of s t = SDone.
Proof. unfold status_of. intros H. destruct (Nat.ltb_spec t (nthr s)); [lia | reflexivity]. Qed.

Lemma strand_stranded : stranded strand_state.
Proof.
  destruct strand_facts as (H0 & H1 & H2 & H3 & H4 & Hn & Hh & Hl & Hs & Ha2 & Ha4 & _).
  split.
  - intros t Ht.
    destruct (Nat.ltb_spec t 5) as [Hlt | Hge].
    + assert (t = 0 \/ t = 1 \/ t = 2 \/ t = 3 \/ t = 4)%nat as D by lia.
      destruct D as [-> | [-> | [-> | [-> | ->]]]]; congruence.
    + rewrite status_outside in Ht by (rewrite Hn; exact Hge). discriminate.
  - left. exists 2%nat. split.
    + split; [rewrite Hn; lia|]. split; [exact H2|]. exists 301. exact Ha2.
    + unfold occupancy. rewrite Hh, Hl, Hs. lia.
Qed.

(* the same programs and schedule on the repaired (two-list) protocol: after the schedule and
   a round-robin drain every fiber has finished *)
Definition strand_fixed_end : st :=
  fst (drain M 3000 (fst (run_sched M (init 1 strand_progs) strand_sched)) 3000).
Lemma strand_fixed_completes :
  map (fun t => status_of strand_fixed_end t) [0;1;2;3;4]%nat = [SDone; SDone; SDone; SDone; SDone] /\
  cell (mem strand_fixed_end) c_high = 6 /\ cell (mem strand_fixed_end) c_low = 6.
Proof. vm_compute. repeat split; reflexivity. Qed.
