(* C11, multi channel (include/fiber_multi_channel.h), faithful model coq/MChan.v with the
   two-list protocol of /repo (MChan.init k progs = init_ol false): NO STRANDED sender /
   receiver, for any number of fibers, ANY programs (a fiber may mix sends and receives; the
   abstract protocol MChanAbs fixes one kind per fiber), any schedule, any size 2^k.
   This is the full statement announced next to multichan_no_stranded_partial in
   Properties_C11.v.  (For the original one-list protocol the statement is false:
   Properties_C11.multichan_no_stranded_one_list_refuted, finding F-C11.)

   Proof: coq/MChanRefBase.v (the wake-credit invariant Cov of MChanAbs.Inv2 carried out on
   the concrete states, over the ghost ownership machine of MChanExclBase.v; a generic lemma
   for kernel steps), MChanRefInv.v, MChanRefCs.v (preservation: kernel steps; decision,
   commit, pop, wake-up, push under the lock), MChanRef.v (liveness pointers J: a mutex
   hand-off in flight has a live popper, CJ: a fiber popped from a channel list has a live
   waker; analysis of the states in which nobody can run). *)
From Coq Require Import List ZArith Lia Bool Arith.
From LF Require Import Conc T1K.
From LF Require MChan MChanProofs MChanExclBase MChanRefBase MChanRef.
Import ListNotations.
Local Open Scope Z_scope.

(* MChanProofs.stranded s: no fiber can take a step, and a sender sleeps on the channel
   although the buffer has room, or a receiver sleeps although a message is buffered *)
Theorem multichan_no_stranded :
  forall (k : nat) (progs : list (list MChan.mop)) (s : MChan.st),
    reachable MChan.M (MChan.init k progs) s -> ~ MChanProofs.stranded s.
Proof. exact MChanRef.no_stranded. Qed.
Print Assumptions multichan_no_stranded.

(* the stronger statement: when no fiber can take a step, every fiber is finished, or a sender
   asleep on a FULL channel, or a receiver asleep on an EMPTY channel.  In particular no fiber
   is left asleep in the queue of the channel mutex (no stranded locker), and no wake-up is
   lost between the channel's lists, the deferred unlock and the mutex hand-off *)
Theorem multichan_quiescent_shape :
  forall (k : nat) (progs : list (list MChan.mop)) (s : MChan.st),
    reachable MChan.M (MChan.init k progs) s -> MChanProofs.nobody_runnable s ->
    forall t, (t < MChan.nthr s)%nat ->
      MChan.status_of s t = SDone \/
      (MChanProofs.blocked_sender s t /\ MChanProofs.occupancy s = MChan.csize s) \/
      (MChanProofs.blocked_receiver s t /\ MChanProofs.occupancy s = 0).
Proof. exact MChanRef.quiescent_shape. Qed.
Print Assumptions multichan_quiescent_shape.

(* the same as a negative statement; MChanRef.stranded_strong s: nobody can run and some fiber
   is blocked for another reason than a full (sender) / empty (receiver) channel *)
Theorem multichan_no_stranded_strong :
  forall (k : nat) (progs : list (list MChan.mop)) (s : MChan.st),
    reachable MChan.M (MChan.init k progs) s -> ~ MChanRef.stranded_strong s.
Proof. exact MChanRef.no_stranded_strong. Qed.
Print Assumptions multichan_no_stranded_strong.

(* the old notion is an instance of the strengthened one *)
Theorem multichan_stranded_is_strong :
  forall s : MChan.st, MChanProofs.stranded s -> MChanRef.stranded_strong s.
Proof. exact MChanRef.stranded_strong_of_stranded. Qed.
Print Assumptions multichan_stranded_is_strong.

(* the wake-credit invariant (the concrete form of MChanAbs.abs2_obligation), in every state of
   the ghost machine MChanExclBase.gstep (its erasure is the model: MChanExclBase.reachable_greach):
   while the waiter list of kind kk (true = senders) is not empty, what the buffer still allows
   to that kind (size - (high - low) for sends, high - low for receives) is at most the number
   of fibers that will make an attempt of that kind before they sleep on the channel, plus a
   pending pop of that list by the lock holder *)
Theorem multichan_wake_credit :
  forall (k : nat) (progs : list (list MChan.mop)) (x : MChanExclBase.gst) (kk : bool),
    MChanExclBase.greach false k progs x ->
    MChanExclBase.cq x (MChanRefBase.lcell kk) <> [] ->
    MChanRefBase.avail x kk <= Z.of_nat (MChanRefBase.cover x kk).
Proof. exact MChanRef.wake_credit. Qed.
Print Assumptions multichan_wake_credit.

(* ================= non-vacuity ================= *)
Lemma ex_quiet1 (s : MChan.st) :
  MChan.nthr s = 1%nat -> MChan.status_of s 0 <> SReady -> MChanProofs.nobody_runnable s.
Proof.
  intros Hn H0 t Ht. destruct t as [|t]; [exact (H0 Ht)|].
  rewrite MChanProofs.status_outside in Ht by lia. discriminate.
Qed.

(* (1) a lone receiver on an empty channel: nobody can run, the receiver sleeps on the empty
   channel: the hypothesis of multichan_quiescent_shape is met and its third case occurs *)
Definition ex_s_recv : MChan.st :=
  fst (run_sched MChan.M (MChan.init 0 [[MChan.ORecv]]) (repeat 0%nat 40)).
Example ex_blocked_receiver_empty :
  reachable MChan.M (MChan.init 0 [[MChan.ORecv]]) ex_s_recv /\
  MChanProofs.nobody_runnable ex_s_recv /\
  MChanProofs.blocked_receiver ex_s_recv 0 /\ MChanProofs.occupancy ex_s_recv = 0.
Proof.
  split; [apply run_sched_reachable; apply reach_init|].
  split; [apply ex_quiet1; vm_compute; [reflexivity|discriminate]|].
  split; [|vm_compute; reflexivity].
  split; [vm_compute; reflexivity|]. split; vm_compute; reflexivity.
Qed.

(* (2) a lone sender, two messages, size 1: it sleeps on the FULL channel (second case) *)
Definition ex_s_send : MChan.st :=
  fst (run_sched MChan.M (MChan.init 0 [[MChan.OSend 1; MChan.OSend 2]]) (repeat 0%nat 80)).
Example ex_blocked_sender_full :
  reachable MChan.M (MChan.init 0 [[MChan.OSend 1; MChan.OSend 2]]) ex_s_send /\
  MChanProofs.nobody_runnable ex_s_send /\
  MChanProofs.blocked_sender ex_s_send 0 /\ MChanProofs.occupancy ex_s_send = MChan.csize ex_s_send.
Proof.
  split; [apply run_sched_reachable; apply reach_init|].
  split; [apply ex_quiet1; vm_compute; [reflexivity|discriminate]|].
  split; [|vm_compute; reflexivity].
  split; [vm_compute; reflexivity|]. split; [vm_compute; reflexivity|]. exists 2. vm_compute. reflexivity.
Qed.

(* (3) fibers DO sleep in the queue of the channel mutex (status SBlocked, stack of
   fiber_mutex_lock) -- while somebody else can run: the receiver holds the lock, the sender
   went to sleep in the mutex queue *)
Definition ex_s_mutexq : MChan.st :=
  fst (run_sched MChan.M (MChan.init 0 [[MChan.ORecv]; [MChan.OSend 5]]) (repeat 0%nat 2 ++ repeat 1%nat 14)).
Example ex_sleeps_in_mutex_queue :
  reachable MChan.M (MChan.init 0 [[MChan.ORecv]; [MChan.OSend 5]]) ex_s_mutexq /\
  MChan.stk ex_s_mutexq 1 = [Asleep; YLoop; LWaited; FC (MChan.MLocked (MChan.ASend 5) [] 1)] /\
  MChan.status_of ex_s_mutexq 1 = SBlocked /\ MChan.status_of ex_s_mutexq 0 = SReady.
Proof.
  split; [apply run_sched_reachable; apply reach_init|]. vm_compute. repeat split; reflexivity.
Qed.

(* (4) the credit invariant is not vacuous: in the state of example (1) the receiver is queued on
   the receivers' list of the ghost machine *)
Fixpoint grun (x : MChanExclBase.gst) (sch : list nat) : MChanExclBase.gst :=
  match sch with
  | [] => x
  | t :: r => match MChan.status_of (MChanExclBase.gb x) t with
              | SReady => grun (MChanExclBase.gstep x t) r
              | _ => grun x r
              end
  end.
Lemma greach_grun ol k progs sch : forall x,
  MChanExclBase.greach ol k progs x -> MChanExclBase.greach ol k progs (grun x sch).
Proof.
  induction sch as [|t r IH]; intros x R; cbn; [exact R|].
  destruct (MChan.status_of (MChanExclBase.gb x) t) eqn:St; try (apply IH; exact R).
  apply IH. constructor; assumption.
Qed.
Definition ex_x_recv : MChanExclBase.gst :=
  grun (MChanExclBase.ginit false 0 [[MChan.ORecv]]) (repeat 0%nat 40).
Example ex_credit_queue :
  MChanExclBase.greach false 0 [[MChan.ORecv]] ex_x_recv /\
  MChanExclBase.cq ex_x_recv (MChanRefBase.lcell false) = [0%nat] /\
  MChanRefBase.avail ex_x_recv false = 0 /\ MChanRefBase.cover ex_x_recv false = 0%nat.
Proof.
  split; [apply greach_grun; constructor|]. vm_compute. repeat split; reflexivity.
Qed.
