(* Proofs about the sleepers tree (coq/SleepTree.v): BST invariant, nothing is
   lost or duplicated by insert, and the removal loop returns exactly the
   chains with key < bound in increasing key order. *)
From Coq Require Import List ZArith NArith Lia Bool Arith Sorting.Sorted Permutation.
From LF Require Import SleepTree.
Import ListNotations.
Local Open Scope N_scope.

Definition klt (a c : N * list nat) : Prop := fst a < fst c.

Inductive bst : tr -> Prop :=
| bst_leaf : bst Leaf
| bst_node l k ch r : bst l -> bst r ->
    (forall c, In c (flat l) -> fst c < k) ->
    (forall c, In c (flat r) -> k < fst c) ->
    bst (Node l k ch r).

(* ---------- insert ---------- *)
Lemma insert_keys t k id c :
  In c (flat (insert t k id)) -> fst c = k \/ exists c', In c' (flat t) /\ fst c' = fst c.
Proof.
  induction t as [|l IHl k' ch r IHr]; cbn.
  - intros [<-|[]]. now left.
  - destruct (k <? k') eqn:E1; [|destruct (k =? k') eqn:E2]; cbn; rewrite !in_app_iff; cbn.
    + intros [H|[H|H]].
      * destruct (IHl H) as [?|(c' & ? & ?)]; auto. right. exists c'. rewrite in_app_iff. auto.
      * right. exists (k', ch). rewrite in_app_iff. subst c. cbn. auto.
      * right. exists c. rewrite in_app_iff. cbn. auto.
    + intros [H|[H|H]].
      * right. exists c. rewrite in_app_iff. auto.
      * right. exists (k', ch). rewrite in_app_iff. subst c. cbn. auto.
      * right. exists c. rewrite in_app_iff. cbn. auto.
    + intros [H|[H|H]].
      * right. exists c. rewrite in_app_iff. auto.
      * right. exists (k', ch). rewrite in_app_iff. subst c. cbn. auto.
      * destruct (IHr H) as [?|(c' & ? & ?)]; auto. right. exists c'. rewrite in_app_iff. cbn. auto.
Qed.

Lemma insert_bst t k id : bst t -> bst (insert t k id).
Proof.
  induction 1 as [|l k' ch r Hl IHl Hr IHr Hlt Hgt]; cbn.
  - constructor; try constructor; cbn; intros c [].
  - destruct (k <? k') eqn:E1; [|destruct (k =? k') eqn:E2].
    + apply N.ltb_lt in E1. constructor; auto.
      intros c Hc. destruct (insert_keys _ _ _ _ Hc) as [->|(c' & Hc' & <-)]; auto.
    + constructor; auto.
    + apply N.ltb_ge in E1. apply N.eqb_neq in E2. constructor; auto.
      intros c Hc. destruct (insert_keys _ _ _ _ Hc) as [->|(c' & Hc' & <-)]; auto. lia.
Qed.

Lemma chain_add_perm ch id k :
  Permutation (pairs_of (k, chain_add ch id)) ((k, id) :: pairs_of (k, ch)).
Proof.
  destruct ch as [|h tl]; cbn; [constructor; constructor|]. apply perm_swap.
Qed.

Lemma elems_node l k ch r : elems (Node l k ch r) = elems l ++ pairs_of (k, ch) ++ elems r.
Proof. unfold elems. cbn. rewrite flat_map_app. reflexivity. Qed.

Lemma insert_elems t k id : Permutation (elems (insert t k id)) ((k, id) :: elems t).
Proof.
  induction t as [|l IHl k' ch r IHr].
  - cbn. constructor. constructor.
  - cbn [insert]. destruct (k <? k') eqn:E1; [|destruct (k =? k') eqn:E2]; rewrite !elems_node.
    + rewrite IHl. reflexivity.
    + apply N.eqb_eq in E2. subst k'.
      rewrite chain_add_perm. cbn.
      symmetry. apply Permutation_middle.
    + rewrite IHr.
      rewrite app_assoc. rewrite <- Permutation_middle. rewrite <- app_assoc. reflexivity.
Qed.

(* shape of the chains: insert puts the new node directly after the head *)
Lemma insert_flat_new t k id :
  (forall c, In c (flat t) -> fst c <> k) ->
  exists l1 l2, flat t = l1 ++ l2 /\ flat (insert t k id) = l1 ++ (k, [id]) :: l2.
Proof.
  induction t as [|l IHl k' ch r IHr]; cbn; intros Hn.
  - exists [], []. auto.
  - destruct (k <? k') eqn:E1; [|destruct (k =? k') eqn:E2]; cbn.
    + destruct IHl as (l1 & l2 & H1 & H2). { intros c Hc. apply Hn. rewrite in_app_iff. auto. }
      exists l1, (l2 ++ (k', ch) :: flat r). rewrite H1, H2, <- !app_assoc. auto.
    + apply N.eqb_eq in E2. exfalso. apply (Hn (k', ch)); [rewrite in_app_iff; cbn; auto | cbn; auto].
    + destruct IHr as (l1 & l2 & H1 & H2). { intros c Hc. apply Hn. rewrite in_app_iff. cbn. auto. }
      exists (flat l ++ (k', ch) :: l1), l2. rewrite H1, H2, <- !app_assoc. auto.
Qed.

Lemma insert_flat_equal t k id :
  bst t -> (exists c, In c (flat t) /\ fst c = k) ->
  exists l1 ch l2, flat t = l1 ++ (k, ch) :: l2 /\ flat (insert t k id) = l1 ++ (k, chain_add ch id) :: l2.
Proof.
  induction 1 as [|l k' ch r Hl IHl Hr IHr Hlt Hgt]; cbn; intros (c & Hc & Hk).
  - destruct Hc.
  - rewrite in_app_iff in Hc. cbn in Hc.
    destruct (k <? k') eqn:E1; [|destruct (k =? k') eqn:E2]; cbn.
    + apply N.ltb_lt in E1.
      destruct Hc as [Hc|[Hc|Hc]].
      * destruct IHl as (l1 & ch1 & l2 & H1 & H2); [eauto|].
        exists l1, ch1, (l2 ++ (k', ch) :: flat r). rewrite H1, H2, <- !app_assoc. auto.
      * subst c. cbn in Hk. lia.
      * specialize (Hgt _ Hc). lia.
    + apply N.eqb_eq in E2. subst k'. exists (flat l), ch, (flat r). auto.
    + apply N.ltb_ge in E1. apply N.eqb_neq in E2.
      destruct Hc as [Hc|[Hc|Hc]].
      * specialize (Hlt _ Hc). lia.
      * subst c. cbn in Hk. lia.
      * destruct IHr as (l1 & ch1 & l2 & H1 & H2); [eauto|].
        exists (flat l ++ (k', ch) :: l1), ch1, l2. rewrite H1, H2, <- !app_assoc. auto.
Qed.

(* ---------- one removal ---------- *)
Lemma remove_lt_spec t b :
  match flat t with
  | [] => remove_lt t b = (None, t)
  | c :: rest => if fst c <? b
                 then exists t', remove_lt t b = (Some c, t') /\ flat t' = rest
                 else remove_lt t b = (None, t)
  end.
Proof.
  induction t as [|l IHl k ch r _]; cbn [flat]; [reflexivity|].
  destruct l as [|ll lk lch lr].
  - cbn. destruct (k <? b); eauto.
  - remember (Node ll lk lch lr) as l eqn:El.
    assert (Hne : flat l <> []).
    { subst l. cbn. destruct (flat ll); discriminate. }
    destruct (flat l) as [|c rest] eqn:Ef; [congruence|].
    cbn [app].
    assert (Hrm : remove_lt (Node l k ch r) b = let '(res, l') := remove_lt l b in (res, Node l' k ch r)).
    { subst l. reflexivity. }
    rewrite Hrm. destruct (fst c <? b).
    + destruct IHl as (l' & H1 & H2). rewrite H1. eexists. split; [reflexivity|]. cbn. now rewrite H2.
    + rewrite IHl. reflexivity.
Qed.

Lemma remove_lt_subset t b c : In c (flat (snd (remove_lt t b))) -> In c (flat t).
Proof.
  pose proof (remove_lt_spec t b) as H. destruct (flat t) as [|c0 rest] eqn:Ef.
  - rewrite H. cbn. now rewrite Ef.
  - destruct (fst c0 <? b).
    + destruct H as (t' & H1 & H2). rewrite H1. cbn. rewrite H2. cbn. auto.
    + rewrite H. cbn. now rewrite Ef.
Qed.

Lemma remove_lt_bst t b : bst t -> bst (snd (remove_lt t b)).
Proof.
  induction 1 as [|l k ch r Hl IHl Hr IHr Hlt Hgt]; [cbn; constructor|].
  destruct l as [|ll lk lch lr].
  - cbn. destruct (k <? b); cbn; auto. constructor; auto.
  - remember (Node ll lk lch lr) as l eqn:El.
    assert (Hrm : remove_lt (Node l k ch r) b = let '(res, l') := remove_lt l b in (res, Node l' k ch r)).
    { subst l. reflexivity. }
    rewrite Hrm.
    destruct (remove_lt l b) as [res l'] eqn:Er. cbn in *.
    constructor; auto. intros c Hc. apply Hlt.
    apply (remove_lt_subset l b). now rewrite Er.
Qed.

(* ---------- the removal loop ---------- *)
Fixpoint tw (b : N) (l : list (N * list nat)) : list (N * list nat) :=
  match l with [] => [] | c :: r => if fst c <? b then c :: tw b r else [] end.
Fixpoint dw (b : N) (l : list (N * list nat)) : list (N * list nat) :=
  match l with [] => [] | c :: r => if fst c <? b then dw b r else l end.

Lemma tw_dw b l : tw b l ++ dw b l = l.
Proof. induction l as [|c r IH]; cbn; auto. destruct (fst c <? b); cbn; congruence. Qed.

Lemma size_flat t : size t = length (flat t).
Proof. induction t; cbn; auto. rewrite app_length. cbn. lia. Qed.

Lemma drain_fuel_spec f : forall t b cs t',
  (length (flat t) < f)%nat -> drain_fuel f t b = (cs, t') ->
  cs = tw b (flat t) /\ flat t' = dw b (flat t).
Proof.
  induction f as [|f IH]; intros t b cs t' Hf; [lia|]. cbn.
  pose proof (remove_lt_spec t b) as H. destruct (flat t) as [|c rest] eqn:Ef.
  - rewrite H. intros [= <- <-]. cbn. auto.
  - cbn. destruct (fst c <? b) eqn:E.
    + destruct H as (t1 & H1 & H2). rewrite H1.
      destruct (drain_fuel f t1 b) as [cs1 t2] eqn:Ed. intros [= <- <-].
      apply IH in Ed; [|rewrite H2; cbn in Hf; lia]. rewrite H2 in Ed. destruct Ed as [-> ->]. auto.
    + rewrite H. intros [= <- <-]. rewrite Ef. auto.
Qed.

Lemma drain_spec t b cs t' : drain t b = (cs, t') -> cs = tw b (flat t) /\ flat t' = dw b (flat t).
Proof. unfold drain. apply drain_fuel_spec. rewrite size_flat. lia. Qed.

Lemma drain_fuel_bst f : forall t b, bst t -> bst (snd (drain_fuel f t b)).
Proof.
  induction f as [|f IH]; intros t b Hb; cbn; auto.
  pose proof (remove_lt_bst t b Hb) as H1. destruct (remove_lt t b) as [[c|] t1]; cbn in *; auto.
  specialize (IH t1 b H1). destruct (drain_fuel f t1 b). cbn in *. auto.
Qed.

Lemma drain_done t b cs t' : drain t b = (cs, t') -> fst (remove_lt t' b) = None.
Proof.
  intros H. apply drain_spec in H. destruct H as [_ H].
  pose proof (remove_lt_spec t' b) as S. rewrite H in S.
  clear H. induction (flat t) as [|c r IH]; cbn in S |- *.
  - now rewrite S.
  - destruct (fst c <? b) eqn:E; auto. rewrite E in S. now rewrite S.
Qed.

(* ---------- sortedness ---------- *)
Lemma ss_app (l1 l2 : list (N * list nat)) :
  StronglySorted klt l1 -> StronglySorted klt l2 ->
  (forall a c, In a l1 -> In c l2 -> klt a c) -> StronglySorted klt (l1 ++ l2).
Proof.
  induction 1 as [|a l H IH Hf]; cbn; auto. intros H2 Hx. constructor.
  - apply IH; auto; intros; apply Hx; cbn; auto.
  - rewrite Forall_app. split; auto. rewrite Forall_forall. intros c Hc. apply Hx; cbn; auto.
Qed.

Lemma bst_sorted t : bst t -> StronglySorted klt (flat t).
Proof.
  induction 1 as [|l k ch r Hl IHl Hr IHr Hlt Hgt]; cbn; [constructor|].
  apply ss_app; auto.
  - constructor; auto. rewrite Forall_forall. intros c Hc. apply Hgt, Hc.
  - intros a c Ha [<-|Hc]; unfold klt; cbn; [apply Hlt, Ha|].
    specialize (Hlt _ Ha). specialize (Hgt _ Hc). lia.
Qed.

Lemma sorted_tw_filter b l : StronglySorted klt l -> tw b l = filter (fun c => fst c <? b) l.
Proof.
  induction 1 as [|a l H IH Hf]; cbn; auto. destruct (fst a <? b) eqn:E; [now rewrite IH|].
  apply N.ltb_ge in E. symmetry. clear IH H. induction l as [|c r IHr]; cbn; auto.
  inversion Hf as [|? ? Hc Hr]; subst. unfold klt in Hc.
  destruct (fst c <? b) eqn:E2; [apply N.ltb_lt in E2; lia|]. auto.
Qed.

Lemma sorted_dw_filter b l : StronglySorted klt l -> dw b l = filter (fun c => negb (fst c <? b)) l.
Proof.
  induction 1 as [|a l H IH Hf]; cbn; auto. destruct (fst a <? b) eqn:E; cbn; auto.
  apply N.ltb_ge in E. f_equal. clear IH H. induction l as [|c r IHr]; cbn; auto.
  inversion Hf as [|? ? Hc Hr]; subst. unfold klt in Hc.
  destruct (fst c <? b) eqn:E2; [apply N.ltb_lt in E2; lia|]. cbn. f_equal. auto.
Qed.

Lemma sorted_filter p (l : list (N * list nat)) : StronglySorted klt l -> StronglySorted klt (filter p l).
Proof.
  induction 1 as [|a l H IH Hf]; cbn; [constructor|]. destruct (p a); auto. constructor; auto.
  rewrite Forall_forall in *. intros c Hc. apply Hf. apply filter_In in Hc. tauto.
Qed.

(* ---------- the statements used by Properties_C09.v ---------- *)
Lemma tree_bst_inv_l t : bst t -> (forall k id, bst (insert t k id)) /\ (forall b, bst (snd (remove_lt t b))).
Proof. intros H. split; intros; [now apply insert_bst | now apply remove_lt_bst]. Qed.

Lemma tree_remove_exact_l t b cs t' :
  bst t -> drain t b = (cs, t') ->
  cs = filter (fun c => fst c <? b) (flat t) /\
  flat t' = filter (fun c => negb (fst c <? b)) (flat t) /\
  cs ++ flat t' = flat t /\
  StronglySorted klt cs /\
  fst (remove_lt t' b) = None /\ bst t'.
Proof.
  intros Hb Hd. pose proof (drain_spec _ _ _ _ Hd) as [H1 H2].
  pose proof (bst_sorted t Hb) as Hs.
  repeat split.
  - now rewrite H1, sorted_tw_filter.
  - now rewrite H2, sorted_dw_filter.
  - rewrite H1, H2. apply tw_dw.
  - rewrite H1, sorted_tw_filter by auto. now apply sorted_filter.
  - eapply drain_done; eauto.
  - unfold drain in Hd. pose proof (drain_fuel_bst (S (size t)) t b Hb) as X. now rewrite Hd in X.
Qed.

(* ids: nothing lost, nothing duplicated *)
Lemma drain_elems t b cs t' :
  drain t b = (cs, t') -> flat_map pairs_of cs ++ elems t' = elems t.
Proof.
  intros Hd. destruct (drain_spec _ _ _ _ Hd) as [H1 H2]. unfold elems.
  rewrite <- flat_map_app, H1, H2, tw_dw. reflexivity.
Qed.
