(* C07 — read/write lock (src/fiber_rwlock.c on fiber_manager.c's wait/wake protocol).
   Statements over every reachable state of coq/Rwlock.v (client of coq/T1K.v): any
   number of fibers, any programs of rdlock / wrlock / tryrdlock / trywrlock / unlock,
   any schedule.  Guard (include/fiber_rwlock.h: "21 bits counters; supports up to roughly
   2 million readers or writers"): fewer than 2^21 fibers use the lock.

   Observable notions (coq/RwlockProofs.v): [holds s t sd] fiber t is inside a critical
   section of side sd (SR reader / SW writer): its acquiring call has returned or is touching
   the data cell and its releasing CAS has not yet succeeded; [waiting s t sd] t is inside
   the wait of rdlock / wrlock; [trying s t sd] t is inside a try variant; [popping s t q]
   t is inside wake_from_mpsc_queue on list q (0 write_waiters, 1 read_waiters). *)
From Coq Require Import List ZArith Lia.
From LF Require Import Conc T1K Rwlock RwlockLemmas RwlockInv RwlockSteps RwlockGlobal RwlockMain RwlockProofs.
Import ListNotations.
Local Open Scope Z_scope.

Definition guard (progs : list (list rop)) : Prop := Z.of_nat (length progs) < 2 ^ 21.

(* the bit-field layout: the compiled probe printed blob = 1, 2, 4194304, 8796093022208 for unit
   write_locked, reader_count, waiting_readers, waiting_writers and 61572672126983 for (1,3,5,7);
   pack/unpack round trip; += 1 / -= 1 on a field is +- its unit on the blob below 2^21 (no carry) *)
Theorem rw_pack_layout :
  (rw_pack {| f_wl := 1; f_rc := 0; f_wr := 0; f_ww := 0 |} = 1 /\
   rw_pack {| f_wl := 0; f_rc := 1; f_wr := 0; f_ww := 0 |} = 2 /\
   rw_pack {| f_wl := 0; f_rc := 0; f_wr := 1; f_ww := 0 |} = 4194304 /\
   rw_pack {| f_wl := 0; f_rc := 0; f_wr := 0; f_ww := 1 |} = 8796093022208 /\
   rw_pack {| f_wl := 1; f_rc := 3; f_wr := 5; f_ww := 7 |} = 61572672126983) /\
  (forall f, fields_ok f -> rw_unpack (rw_pack f) = f) /\
  (forall b, 0 <= b < 2 ^ 64 -> rw_pack (rw_unpack b) = b) /\
  (forall f, fields_ok f ->
     (f_rc f + 1 < FW -> rw_pack (set_rc f (finc (f_rc f))) = rw_pack f + 2) /\
     (f_wr f + 1 < FW -> rw_pack (set_wr f (finc (f_wr f))) = rw_pack f + 2 ^ 22) /\
     (f_ww f + 1 < FW -> rw_pack (set_ww f (finc (f_ww f))) = rw_pack f + 2 ^ 43) /\
     (0 < f_rc f -> rw_pack (set_rc f (fdec (f_rc f))) = rw_pack f - 2) /\
     (0 < f_ww f -> rw_pack (set_ww f (fdec (f_ww f))) = rw_pack f - 2 ^ 43)).
Proof.
  split; [exact rw_pack_units|]. split; [exact rw_unpack_pack|]. split; [exact rw_pack_unpack|exact rw_no_carry].
Qed.
Print Assumptions rw_pack_layout.

(* beyond the guard a field wraps silently inside its 21 bits (what the C bit-field does):
   with 2^21 - 1 waiting writers one more "waiting_writers += 1" yields blob 0 *)
Theorem rw_overflow_refuted :
  finc (FW - 1) = 0 /\
  rw_pack (set_ww {| f_wl := 0; f_rc := 0; f_wr := 0; f_ww := FW - 1 |} (finc (FW - 1))) = 0.
Proof. exact rw_overflow_wraps. Qed.
Print Assumptions rw_overflow_refuted.

(* a writer inside its critical section excludes every other writer and every reader *)
Theorem rw_exclusion : forall progs s t,
  guard progs -> reachable M (init progs) s ->
  holds s t SW -> forall u, u <> t -> ~ holds s u SW /\ ~ holds s u SR.
Proof.
  intros progs s t G R. destruct (reachable_inv progs s G R) as [I _]. exact (exclusion_of_inv s t I).
Qed.
Print Assumptions rw_exclusion.

(* the four fields of the word are the counts of the fibers' roles: there is a role assignment
   g, consistent with every fiber's stack ([shape]) and with the observable notions, such that
     write_locked    = # writers that own the lock or have been handed it
     reader_count    = # readers that own the lock or have been handed it
     waiting_readers = # readers announced and not yet handed ownership
     waiting_writers = # writers announced and not yet handed ownership
   ([counts], RwlockInv.v: "handed" = popped / woken / resumed waiters plus the admissions a
   releasing fiber has granted in its CAS and not yet popped, [tp]); moreover write_locked = 1
   excludes readers and announced waiters imply that the lock is owned or handed over *)
Theorem rw_word_inv : forall progs s,
  guard progs -> reachable M (init progs) s ->
  exists g, (forall t, shape (mem s) t (grole g t) (stk s t)) /\
            word (mem s) 0 = rw_pack (counts s g) /\ fields_ok (counts s g) /\
            (forall t sd, holds s t sd -> grole g t = ROwn sd) /\
            (forall t sd, waiting s t sd -> exists w, grole g t = RWait sd w) /\
            (f_wl (counts s g) = 1 -> f_rc (counts s g) = 0) /\
            (0 < f_ww (counts s g) + f_wr (counts s g) -> 0 < f_wl (counts s g) + f_rc (counts s g)).
Proof.
  intros progs s G R. destruct (reachable_inv progs s G R) as [I _]. exact (word_inv_of_inv s I).
Qed.
Print Assumptions rw_word_inv.

(* the try variants consist of plain reads of the word and CASes only (no wait, no yield), and
   the CAS that is about to succeed finds the word in a state where acquisition is legal:
   tryrdlock: no writer inside, none waiting or handed the lock (and waiting_readers = 0);
   trywrlock: the word is 0: nobody inside, nobody waiting *)
Theorem rw_try_nonblocking_legal : forall progs s t sd,
  guard progs -> reachable M (init progs) s ->
  (trying s t sd ->
     (exists c, stk s t = [WReadW 0; FC c]) \/
     (exists e c, stk s t = [WCasW 0 e (acquire sd e) 5; FC c] /\ busy sd e = false)) /\
  (forall p k e n, stk s t = [WCasW 0 e n 5; FC (TCasA sd p k)] -> word (mem s) 0 = e ->
     busy sd e = false /\ n = acquire sd e /\
     (forall u, ~ holds s u SW /\ ~ waiting s u SW) /\
     (sd = SW -> forall u, ~ holds s u SR /\ ~ waiting s u SR)).
Proof.
  intros progs s t sd G R. destruct (reachable_inv progs s G R) as [I _]. split.
  - exact (try_nonblocking_of_inv s t sd I).
  - intros p k e n. exact (try_legal_of_inv s t sd p k e n I).
Qed.
Print Assumptions rw_try_nonblocking_legal.

(* at most one fiber at a time is inside wake_from_mpsc_queue (on either list): the one whose
   releasing CAS transferred ownership; hence each waiter list has a single consumer *)
Theorem rw_single_consumer : forall progs s u v q q',
  guard progs -> reachable M (init progs) s ->
  popping s u q -> popping s v q' -> u = v.
Proof.
  intros progs s u v q q' G R. destruct (reachable_inv progs s G R) as [I _].
  exact (single_consumer_of_inv s u v q q' I).
Qed.
Print Assumptions rw_single_consumer.

(* an unlock whose CAS is about to succeed (C = the fields it read): if it is the last holder and
   writers wait it hands the lock to exactly one of them (write_locked := 1, waiting_writers -= 1)
   and goes on to wake exactly 1 entry of write_waiters; otherwise if readers wait (only possible
   for wrunlock) it hands the lock to all of them (reader_count := waiting_readers := 0 swapped) and
   goes on to wake exactly that many entries of read_waiters; otherwise it wakes nobody and either
   nobody waits or other readers still hold the lock.  All of it in the one CAS.  Second part: a
   wake_from_mpsc_queue in progress has performed w < c of its c wake-ups (it returns only when
   w = c, one schedule event per increment of w: T1K.ksched) *)
Theorem rw_release_admits : forall progs s t,
  guard progs -> reachable M (init progs) s ->
  (forall sd p k r e n h, status_of s t = SReady ->
     stk s t = [WCasW 0 e n 5; FC (UCas sd p k r h)] -> word (mem s) 0 = e ->
     let C := rw_unpack e in
     let s' := fst (step s t) in
     (match h with
      | HoWriter =>
          0 < f_ww C /\ n = rw_pack {| f_wl := 1; f_rc := 0; f_wr := f_wr C; f_ww := f_ww C - 1 |} /\
          stk s' t = [KHead 0 1 0; FC (UWoke p k r)]
      | HoReaders c =>
          f_ww C = 0 /\ c = f_wr C /\ 0 < c /\ sd = SW /\
          n = rw_pack {| f_wl := 0; f_rc := c; f_wr := 0; f_ww := 0 |} /\
          stk s' t = [KHead 1 c 0; FC (UWoke p k r)]
      | HoNone =>
          ((f_ww C = 0 /\ f_wr C = 0) \/ (sd = SR /\ 1 < f_rc C)) /\
          f_ww (rw_unpack n) = f_ww C /\ f_wr (rw_unpack n) = f_wr C /\
          stk s' t = snd (start t p (S k) HNone)
      end) /\
     word (mem s') 0 = n /\
     (0 < f_ww (rw_unpack n) + f_wr (rw_unpack n) -> 0 < f_wl (rw_unpack n) + f_rc (rw_unpack n))) /\
  (forall q c w, pop_params (stk s t) = Some (q, c, w) ->
     0 <= w < c /\ (q = 0%nat \/ q = 1%nat) /\ exists p k r, cfr (stk s t) = Some (UWoke p k r)).
Proof.
  intros progs s t G R. destruct (reachable_inv progs s G R) as [I N]. split.
  - intros sd p k r e n h. apply release_admits_of_inv; auto. rewrite N. exact G.
  - intros q c w. exact (popper_bounds_of_inv s t q c w I).
Qed.
Print Assumptions rw_release_admits.

(* obligation: a blocked fiber is inside the wait of rdlock / wrlock, and whenever a fiber is
   blocked the word shows the lock owned or handed over (write_locked + reader_count > 0) — nobody
   is ever blocked on a lock that nobody owns or has been handed.
   Quiescence: when no fiber can run, every unit of write_locked / reader_count belongs to a fiber
   that FINISHED while holding the lock (empty stack, role ROwn): no live fiber owns the lock, no
   admission is pending, no popped or woken waiter exists (the invariant links every popped waiter
   to the live fiber that is about to schedule it: RwlockInv.i_popped).  Hence fibers can only
   remain blocked behind a fiber that terminated without unlocking; in particular if the word shows
   no owner, every fiber has finished. *)
Theorem rw_no_stranded : forall progs s,
  guard progs -> reachable M (init progs) s ->
  (forall t, status_of s t = SBlocked ->
     (exists sd, waiting s t sd) /\
     0 < f_wl (rw_unpack (word (mem s) 0)) + f_rc (rw_unpack (word (mem s) 0))) /\
  ((forall t, status_of s t <> SReady) ->
   (exists g, word (mem s) 0 = rw_pack (counts s g) /\ fields_ok (counts s g) /\
              (forall t sd, waiting s t sd -> exists w, grole g t = RWait sd w) /\
              forall u sd, 0 < c_own sd (grole g u) (stk s u) -> stk s u = [] /\ grole g u = ROwn sd) /\
   (f_wl (rw_unpack (word (mem s) 0)) + f_rc (rw_unpack (word (mem s) 0)) = 0 ->
    forall t, status_of s t = SDone)).
Proof.
  intros progs s G R. destruct (reachable_inv progs s G R) as [I _].
  assert (A : forall t, status_of s t = SBlocked ->
     (exists sd, waiting s t sd) /\
     0 < f_wl (rw_unpack (word (mem s) 0)) + f_rc (rw_unpack (word (mem s) 0)))
    by (intros t; exact (blocked_obligation_of_inv s t I)).
  split; [exact A|]. intros Q. split; [exact (quiescent_owners_of_inv s I Q)|].
  intros Z t. destruct (status_of s t) eqn:E; auto.
  - exfalso. apply (Q t E).
  - destruct (A t E) as [_ P]. lia.
Qed.
Print Assumptions rw_no_stranded.

(* ---- non-vacuity: the hypotheses are met by concrete reachable states ---- *)
Definition LU o := [o; OUnlock].
Definition ex_state progs sch := fst (run_sched M (init progs) sch).
Lemma ex_reach progs sch : reachable M (init progs) (ex_state progs sch).
Proof. apply run_sched_reachable. constructor. Qed.

(* rw_readers_share: two readers are inside their critical sections simultaneously *)
Example rw_readers_share :
  let s := ex_state [LU ORd; LU ORd] [0;0;0;0;1;1;1;1]%nat in
  reachable M (init [LU ORd; LU ORd]) s /\ holds s 0 SR /\ holds s 1 SR /\ word (mem s) 0 = 4.
Proof. split; [apply ex_reach|]. vm_compute. auto. Qed.

(* a writer inside its critical section while a reader and a writer wait: the word is
   write_locked + 1 waiting reader + 1 waiting writer; fiber 1 is blocked *)
Example ex_writer_inside_others_wait :
  let progs := [LU OWr; LU ORd; LU OWr] in
  let s := ex_state progs ([0;0;0;0] ++ repeat 1 25 ++ repeat 2 25)%nat in
  reachable M (init progs) s /\ holds s 0 SW /\ waiting s 1 SR /\ waiting s 2 SW /\
  status_of s 1 = SBlocked /\ word (mem s) 0 = rw_pack {| f_wl := 1; f_rc := 0; f_wr := 1; f_ww := 1 |}.
Proof. split; [apply ex_reach|]. vm_compute. auto 8. Qed.

(* the releasing CAS of that writer is about to succeed and hands the lock to one writer *)
Example ex_release_hands_to_writer :
  let progs := [LU OWr; LU ORd; LU OWr] in
  let s := ex_state progs ([0;0;0;0] ++ repeat 1 25 ++ repeat 2 25 ++ [0;0])%nat in
  reachable M (init progs) s /\ status_of s 0 = SReady /\
  exists e n, stk s 0 = [WCasW 0 e n 5; FC (UCas SW [] 2 1 HoWriter)] /\ word (mem s) 0 = e.
Proof. split; [apply ex_reach|]. vm_compute. split; [reflexivity|]. eexists _, _. split; reflexivity. Qed.

(* a wrunlock hands the lock to two waiting readers at once and is popping read_waiters *)
Example ex_release_hands_to_readers :
  let progs := [LU OWr; LU ORd; LU ORd] in
  let s := ex_state progs ([0;0;0;0] ++ repeat 1 25 ++ repeat 2 25 ++ [0;0;0])%nat in
  reachable M (init progs) s /\ popping s 0 1 /\ pop_params (stk s 0) = Some (1%nat, 2, 0) /\
  word (mem s) 0 = rw_pack {| f_wl := 0; f_rc := 2; f_wr := 0; f_ww := 0 |}.
Proof. split; [apply ex_reach|]. vm_compute. auto. Qed.

(* a trywrlock whose CAS is about to succeed; a tryrdlock likewise *)
Example ex_try_cas :
  let s := ex_state [LU OTryWr; LU OTryRd] [0;0;1;1]%nat in
  reachable M (init [LU OTryWr; LU OTryRd]) s /\ trying s 0 SW /\
  stk s 0 = [WCasW 0 0 1 5; FC (TCasA SW [OUnlock] 1)] /\ word (mem s) 0 = 0 /\
  stk s 1 = [WCasW 0 0 2 5; FC (TCasA SR [OUnlock] 1)].
Proof. split; [apply ex_reach|]. vm_compute. auto. Qed.

(* quiescence with a stranded-looking waiter: fiber 0 finishes while holding the write lock, fiber 1
   stays blocked; the word still shows write_locked: the owner is a finished fiber *)
Example ex_blocked_behind_finished_owner :
  let progs := [[OWr]; LU ORd] in
  let s := ex_state progs ([0;0;0;0] ++ repeat 1 25)%nat in
  reachable M (init progs) s /\ status_of s 0 = SDone /\ status_of s 1 = SBlocked /\
  word (mem s) 0 = rw_pack {| f_wl := 1; f_rc := 0; f_wr := 1; f_ww := 0 |}.
Proof. split; [apply ex_reach|]. vm_compute. auto. Qed.
