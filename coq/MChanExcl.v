(* C11, multi channel: mutual exclusion of the channel lock (fiber mutex,
   object 0 of T1K) for the client coq/MChan.v, both variants (onelist false =
   the code in /repo, true = the original protocol), any number of fibers, any
   programs, any schedule, any size.

   The invariant [Inv] of MChanExclBase.v (ghost ownership machine: roles, mutex
   waiter queue, hand-off state, debt of a contended unlocker, the channel's
   waiter lists and their wake-up hand-shake) holds in every reachable state
   (steps: MChanExclSteps.v, MChanExclNodes.v, MChanExclCs.v).  "Owner" covers
   the fiber that blocked on the channel while its deferred unlock
   (manager->mutex_to_unlock, performed by the maintenance of its yield) has
   not executed its fetch_add yet.  Here: every fiber that [holds] the lock in
   the sense of MChanProofs2.v has ghost role Owner, owners are unique, hence
   [excl] holds in every reachable state; [reach_excl] / [ireach_excl] of
   MChanProofs2.v coincide with plain reachability. *)
From Coq Require Import List ZArith Lia Bool Arith.
From LF Require Import Conc T1K MChan MChanExclBase MChanExclSteps MChanExclNodes MChanExclCs.
From LF Require MChanProofs2.
Import ListNotations.
Local Open Scope Z_scope.

Lemma step_inv x t : Inv x -> status_of (gb x) t = SReady -> Inv (gstep x t).
Proof.
  intros HI St. unfold status_of in St.
  destruct (Nat.ltb_spec t (nthr (gb x))) as [Ht|Ht]; [|discriminate].
  destruct (I_thr x HI t) as (p & Hs & HL & HX). rewrite Hs in St.
  destruct p as [pr| |a p k|f c|r p k|w a p k|kf tl|r p k|st r p k|y a p k].
  - apply (step_PInit x t HI pr Hs HL).
  - discriminate.
  - apply (step_PLSub x t HI a p k Ht Hs HL).
  - apply (step_PCs x t HI f c Hs HL HX).
  - apply (step_PUAdd x t HI r p k Ht Hs HL).
  - destruct w.
    + apply (step_WfSaving x t HI a p k Hs HL).
    + apply (step_WfData x t HI a p k Hs HL).
    + apply (step_WfNext x t HI n a p k Hs HL HX).
    + apply (step_WfXchg x t HI n a p k Hs HL HX).
    + apply (step_WfLink x t HI a0 n a p k Hs HL HX).
    + apply (step_WfY x t HI a p k Hs HL).
    + apply (step_WfYN x t HI st a p k Hs HL).
    + apply (step_WfSw x t HI a p k Hs HL).
    + apply (step_WfSd x t HI a p k Hs HL).
    + apply (step_WfMr x t HI a p k Hs HL).
    + apply (step_WfMf x t HI a p k Hs HL).
    + apply (step_WfAs x t HI a p k Hs HL). cbn in St. destruct (blocked (mem (gb x)) t); [discriminate|reflexivity].
    + apply (step_WfRe x t HI a p k Hs HL).
  - destruct kf.
    + apply (step_KfHead x t HI tl Hs HL HX).
    + apply (step_KfNext x t HI h tl Hs HL HX).
    + apply (step_KfSet x t HI h nx tl Ht Hs HL HX).
    + apply (step_KfSpY x t HI tl Hs HL HX).
    + apply (step_KfSpN x t HI st tl Hs HL HX).
    + apply (step_KfData x t HI h nx tl Hs HL HX).
    + apply (step_KfCopy x t HI h d tl Hs HL HX).
    + apply (step_KfOut x t HI h tl Hs HL HX).
    + apply (step_KfState x t HI f tl Hs HL HX).
    + apply (step_KfReady x t HI f tl Hs HL HX).
  - apply (step_PUY x t HI r p k Hs HL).
  - apply (step_PUYN x t HI st r p k Hs HL).
  - destruct y.
    + apply (step_YfY x t HI a p k Hs HL).
    + apply (step_YfYN x t HI st a p k Hs HL).
    + apply (step_YfSw x t HI a p k Hs HL).
    + apply (step_YfSd x t HI a p k Hs HL).
    + apply (step_YfMr x t HI a p k Hs HL).
    + apply (step_YfUAdd x t HI a p k Ht Hs HL).
    + apply (step_YfAs x t HI a p k Hs HL). cbn in St. destruct (blocked (mem (gb x)) t); [discriminate|reflexivity].
    + apply (step_YfRe x t HI a p k Hs HL).
Qed.

Theorem greach_inv ol k progs x : greach ol k progs x -> Inv x.
Proof.
  induction 1 as [|x t R IH St]; [apply inv_init|apply step_inv; assumption].
Qed.

(* ---------------- who holds the lock is the ghost owner ---------------- *)
Lemma holds_owner x t : Inv x -> MChanProofs2.holds (gb x) t -> role x t = Owner.
Proof.
  intros HI. destruct (I_thr x HI t) as (p & Hs & HL & _). unfold MChanProofs2.holds. rewrite Hs.
  destruct p as [pr| |a p k|f c|r p k|w a p k|kf tl|r p k|st r p k|y a p k].
  - cbn. discriminate.
  - cbn. intros [].
  - cbn. discriminate.
  - intros _. apply HL.
  - intros _. apply HL.
  - destruct w; cbn; discriminate.
  - destruct tl as [r p k|a p k].
    + destruct kf; cbn; intuition discriminate.
    + destruct HL as [(_ & Hsm & _) _]. cbn in Hsm.
      destruct kf; cbn; rewrite Hsm; intuition discriminate.
  - cbn. intuition discriminate.
  - cbn. intuition discriminate.
  - destruct y; cbn; cbn in HL.
    + destruct HL as [HL|HL]; [intros _; apply HL|].
      assert (E : slot_mutex (mem (gb x)) t = None) by apply HL. rewrite E. intuition discriminate.
    + destruct HL as [_ [HL|HL]]; [intros _; apply HL|].
      assert (E : slot_mutex (mem (gb x)) t = None) by apply HL. rewrite E. intuition discriminate.
    + intros _. apply HL.
    + intros _. apply HL.
    + intros _. apply HL.
    + intros _. apply HL.
    + destruct HL as (_ & _ & _ & E & _). cbn in E. rewrite E. intuition discriminate.
    + destruct HL as (_ & E & _). cbn in E. rewrite E. intuition discriminate.
Qed.

Lemma inv_excl x : Inv x -> MChanProofs2.excl (gb x).
Proof.
  intros HI t u Ht Hu. apply (I_own1 x (I_C x HI)); apply holds_owner; assumption.
Qed.

(* C11 / C03 for this client: at most one fiber is inside the channel's critical
   section (including a blocked fiber whose deferred unlock is still pending) *)
Theorem lock_exclusion ol k progs s :
  reachable M (init_ol ol k progs) s -> MChanProofs2.excl s.
Proof.
  intros R. destruct (reachable_greach ol k progs s R) as (x & Gx & <-).
  apply inv_excl. apply (greach_inv ol k progs x Gx).
Qed.

(* hence the relativised reachability of MChanProofs2.v is plain reachability *)
Lemma reachable_reach_excl ol k progs s :
  reachable M (init_ol ol k progs) s -> MChanProofs2.reach_excl ol k progs s.
Proof.
  induction 1 as [|s t R IH St]; [constructor|].
  constructor; [exact IH|exact St|].
  apply (lock_exclusion ol k progs). apply (reach_step M (init_ol ol k progs) s t R St).
Qed.

(* the instrumented machine of MChanProofs2.v (ghost logs of sends / receives), without
   any hypothesis on the visited states *)
Inductive ireach (ol : bool) (k : nat) (progs : list (list mop)) : MChanProofs2.ist -> Prop :=
| ireach_init : ireach ol k progs (MChanProofs2.iinit ol k progs)
| ireach_step x t : ireach ol k progs x -> status_of (MChanProofs2.base x) t = SReady ->
                    ireach ol k progs (MChanProofs2.istep x t).

Lemma ireach_reachable ol k progs x :
  ireach ol k progs x -> reachable M (init_ol ol k progs) (MChanProofs2.base x).
Proof.
  induction 1 as [|x t R IH St]; [constructor|].
  rewrite MChanProofs2.istep_erase. apply (reach_step M (init_ol ol k progs) _ t IH St).
Qed.

Lemma ireach_ireach_excl ol k progs x : ireach ol k progs x -> MChanProofs2.ireach_excl ol k progs x.
Proof.
  induction 1 as [|x t R IH St]; [constructor|].
  constructor; [exact IH|exact St|].
  apply (lock_exclusion ol k progs). apply ireach_reachable. constructor; assumption.
Qed.

(* every reachable state is the erasure of an instrumented run *)
Lemma reachable_ireach ol k progs s :
  reachable M (init_ol ol k progs) s -> exists x, ireach ol k progs x /\ MChanProofs2.base x = s.
Proof.
  induction 1 as [|s t R (x & Rx & Ex) St].
  - exists (MChanProofs2.iinit ol k progs). split; [constructor|reflexivity].
  - exists (MChanProofs2.istep x t). split.
    + constructor; [exact Rx|rewrite Ex; exact St].
    + rewrite MChanProofs2.istep_erase, Ex. reflexivity.
Qed.

(* ---------------- the unconditional C11 statements ---------------- *)
(* capacity: MChanProofs2.multichan_capacity_partial without the hypothesis on the execution *)
Theorem capacity_full :
  forall (ol : bool) (k : nat) (progs : list (list mop)) (s : st),
    reachable M (init_ol ol k progs) s ->
    0 <= cell (mem s) c_high - cell (mem s) c_low <= csize s /\
    forall t c x p kk,
      stk s t = [CWrite c x; FC (MSBuf p kk)] ->
      c = c_buf (bidx (csize s) (cell (mem s) c_high)) /\ cell (mem s) c = 0.
Proof.
  intros ol k progs s R.
  apply (MChanProofs2.multichan_capacity_partial ol k progs s). apply reachable_reach_excl. exact R.
Qed.

(* exactly once, in order: MChanProofs2.multichan_exactly_once_in_order_partial for every
   run of the instrumented machine *)
Theorem exactly_once_in_order_full :
  forall (ol : bool) (k : nat) (progs : list (list mop)) (x : MChanProofs2.ist),
    ireach ol k progs x ->
    MChanProofs2.prefix (MChanProofs2.rlog x) (MChanProofs2.slog x) /\
    cell (mem (MChanProofs2.base x)) c_high = MChanProofs2.Zlen (MChanProofs2.slog x) /\
    cell (mem (MChanProofs2.base x)) c_low = MChanProofs2.Zlen (MChanProofs2.rlog x).
Proof.
  intros ol k progs x R.
  apply (MChanProofs2.multichan_exactly_once_in_order_partial ol k progs x). apply ireach_ireach_excl. exact R.
Qed.

(* ... and every reachable state of the model is the erasure of such a run *)
Corollary exactly_once_in_order_states_full :
  forall (ol : bool) (k : nat) (progs : list (list mop)) (s : st),
    reachable M (init_ol ol k progs) s ->
    exists x, ireach ol k progs x /\ MChanProofs2.base x = s /\
              MChanProofs2.prefix (MChanProofs2.rlog x) (MChanProofs2.slog x).
Proof.
  intros ol k progs s R. destruct (reachable_ireach ol k progs s R) as (x & Rx & Ex).
  exists x. split; [exact Rx|]. split; [exact Ex|].
  apply (exactly_once_in_order_full ol k progs x Rx).
Qed.

(* running a schedule on the instrumented machine (for examples) *)
Fixpoint irun (x : MChanProofs2.ist) (sch : list nat) : MChanProofs2.ist :=
  match sch with
  | [] => x
  | t :: r => match status_of (MChanProofs2.base x) t with
              | SReady => irun (MChanProofs2.istep x t) r
              | _ => irun x r
              end
  end.

Lemma ireach_irun ol k progs sch : forall x, ireach ol k progs x -> ireach ol k progs (irun x sch).
Proof.
  induction sch as [|t r IH]; intros x R; cbn; [exact R|].
  destruct (status_of (MChanProofs2.base x) t) eqn:St; try (apply IH; exact R).
  apply IH. constructor; assumption.
Qed.

(* who is the ghost owner, for examples and for later use: a fiber holds the lock iff ... *)
Lemma greach_owner_unique ol k progs x t u :
  greach ol k progs x -> role x t = Owner -> role x u = Owner -> t = u.
Proof. intros G. apply (I_own1 x (I_C x (greach_inv ol k progs x G))). Qed.
