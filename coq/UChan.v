(* C11 model "uchan": the unbounded MPSC channel of include/fiber_channel.h with
   its ready signal, on the T1 machine = the ChanK client restricted to
   unbounded send / receive / try_receive programs.  Harness: rt/h_uchan.c.
   case: params = dmax; ops (3, n*1000+v) send node n carrying v, (4,_) receive,
   (7,_) try_receive. *)
From Coq Require Import List ZArith Lia Bool Arith.
From LF Require Import Conc T1K ChanK.
Import ListNotations.
Local Open Scope Z_scope.

Definition dec_op (p : Z * Z) : cop :=
  match fst p with
  | 3 => OUSend (Z.to_nat (snd p / 1000)) (snd p mod 1000)
  | 4 => OURecv
  | _ => OUTry
  end.

Definition init (progs : list (list cop)) : st := ChanK.init 2 progs.
Definition M : machine := ChanK.M.

Definition run_case (l : list Z) : list Z :=
  match decode_case l with
  | Some c => run_all M (init (map (map dec_op) (c_progs c))) [] (c_sched c)
                      (Z.to_nat (nthZ (c_params c) 0))
  | None => [(-1)%Z]
  end.
