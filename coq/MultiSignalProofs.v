(* Proofs about the multi-waiter signal model (coq/MultiSignal.v).
   Instrumented machine:
     W      = the waiter list linked from the head (node ids, most recent first),
     hist   = effects in the order of their successful DCAS: a wait queues itself
              (HWaitQ) or consumes a raised signal (HWaitC); a raise releases one
              waiter (HRaiseW) or leaves the signal raised (HRaiseR),
     ver    = number of successful DCAS, sver t = ver at t's last counter load,
     fs t   = where fiber t+1 is: running, queued in W, released by raiser r
              (popped, r is on its way to schedule it), woken (wake-up delivered,
              not yet consumed).
   Any number of fibers, any programs, any schedule; a released fiber may wait
   again at once (node reuse). *)
From Coq Require Import List ZArith Lia Bool Arith.
From LF Require Import Conc DcasLib MultiSignal.
Import ListNotations.

Inductive fstat := FRun | FQueued | FReleased (r : nat) | FWoken.
Inductive hev := HWaitQ (t : nat) | HWaitC (t : nat) | HRaiseW (t w : nat) | HRaiseR (t : nat).

Record ist := { base : st; W : list nat; hist : list hev; ver : nat; sver : nat -> nat;
                fs : nat -> fstat }.

Definition gh (x : ist) (s' : st) : ist :=
  {| base := s'; W := W x; hist := hist x; ver := ver x; sver := sver x; fs := fs x |}.

Definition lstep (x : ist) (t : nat) : ist :=
  let s := base x in
  let T := thr s t in
  let s' := fst (step s t) in
  match pc T with
  | WCtr | RCtr => {| base := s'; W := W x; hist := hist x; ver := ver x; sver := upd (sver x) t (ver x); fs := fs x |}
  | WCasC => if cas_ok s T
             then {| base := s'; W := W x; hist := hist x ++ [HWaitC t]; ver := S (ver x); sver := sver x; fs := fs x |}
             else gh x s'
  | WCasQ => if cas_ok s T
             then {| base := s'; W := S t :: W x; hist := hist x ++ [HWaitQ t]; ver := S (ver x); sver := sver x;
                     fs := upd (fs x) t FQueued |}
             else gh x s'
  | RCasR => if cas_ok s T
             then {| base := s'; W := W x; hist := hist x ++ [HRaiseR t]; ver := S (ver x); sver := sver x; fs := fs x |}
             else gh x s'
  | RCasP => if cas_ok s T
             then {| base := s'; W := tl (W x); hist := hist x ++ [HRaiseW t (Z.to_nat (shd T))]; ver := S (ver x);
                     sver := sver x; fs := upd (fs x) (pred (Z.to_nat (shd T))) (FReleased t) |}
             else gh x s'
  | RSpin => if (scr s (pred (tw T)) =? -1)%Z
             then {| base := s'; W := W x; hist := hist x; ver := ver x; sver := sver x;
                     fs := upd (fs x) (pred (tw T)) FWoken |}
             else gh x s'
  | WSleep => {| base := s'; W := W x; hist := hist x; ver := ver x; sver := sver x; fs := upd (fs x) t FRun |}
  | WReady => match wk s t with
              | O => gh x s'
              | S _ => {| base := s'; W := W x; hist := hist x; ver := ver x; sver := sver x; fs := upd (fs x) t FRun |}
              end
  | _ => gh x s'
  end.

Lemma lstep_erase x t : base (lstep x t) = fst (step (base x) t).
Proof.
  unfold lstep, gh. destruct (pc (thr (base x) t)); try reflexivity;
    try (destruct (cas_ok _ _); reflexivity).
  - destruct (wk _ _); reflexivity.
  - destruct (_ =? _)%Z; reflexivity.
Qed.

Definition iinit start progs : ist :=
  {| base := init start progs; W := []; hist := []; ver := 0; sver := fun _ => 0; fs := fun _ => FRun |}.

(* only threads the controller would grant take steps (a sleeping fiber does not) *)
Inductive ireach start progs : ist -> Prop :=
| ir_init : ireach start progs (iinit start progs)
| ir_step x t : ireach start progs x -> status_of (base x) t = SReady -> ireach start progs (lstep x t).

Lemma reachable_ireach start progs s :
  reachable M (init start progs) s -> exists x, ireach start progs x /\ base x = s.
Proof.
  induction 1 as [|s t R IH St].
  - exists (iinit start progs). split; [constructor|reflexivity].
  - destruct IH as (x & Rx & <-). exists (lstep x t). split; [constructor; auto|apply lstep_erase].
Qed.

(* run a schedule like the controller: picks of threads that are not ready are skipped *)
Definition gstep (x : ist) (t : nat) : ist :=
  match status_of (base x) t with SReady => lstep x t | _ => x end.
Definition irun (x : ist) (sch : list nat) : ist := fold_left gstep sch x.
Lemma ireach_irun start progs sch : forall x, ireach start progs x -> ireach start progs (irun x sch).
Proof.
  induction sch as [|t r IH]; intros x R; cbn; auto. apply IH. unfold gstep.
  destruct (status_of (base x) t) eqn:E; auto. constructor; auto.
Qed.

(* sequential specification: (waiters, raised) *)
Fixpoint replay (h : list hev) (a : list nat * bool) : option (list nat * bool) :=
  match h with
  | [] => Some a
  | HWaitQ t :: r => if snd a then None else replay r (S t :: fst a, false)
  | HWaitC _ :: r => match a with ([], true) => replay r ([], false) | _ => None end
  | HRaiseW _ w :: r => match a with
                        | (n :: l, false) => if Nat.eqb n w then replay r (l, false) else None
                        | _ => None
                        end
  | HRaiseR _ :: r => match fst a with [] => replay r ([], true) | _ :: _ => None end
  end.

Lemma replay_app h1 h2 : forall a,
  replay (h1 ++ h2) a = match replay h1 a with Some a1 => replay h2 a1 | None => None end.
Proof.
  induction h1 as [|e r IH]; intros a; cbn; auto.
  destruct e.
  - destruct (snd a); auto.
  - destruct a as [[|n l] [|]]; auto.
  - destruct a as [[|n l] [|]]; auto. destruct (Nat.eqb n w); auto.
  - destruct (fst a); auto.
Qed.

(* ---------- invariant ---------- *)
Definition sleepy (p : pcT) : Prop := p = WReady \/ p = WSleep.

Definition holds (s : st) (r n : nat) : Prop :=
  (pc (thr s r) = RData /\ shd (thr s r) = Z.of_nat n) \/ (pc (thr s r) = RSpin /\ tw (thr s r) = n).

Definition fs_ok (s : st) (f : nat -> fstat) (t : nat) : Prop :=
  match f t with
  | FRun => ~ sleepy (pc (thr s t)) /\ wk s t = 0
  | FQueued => sleepy (pc (thr s t)) /\ wk s t = 0
  | FReleased r => sleepy (pc (thr s t)) /\ wk s t = 0 /\ holds s r (S t)
  | FWoken => pc (thr s t) = WSleep /\ wk s t = 1
  end.

Definition scr_ok (s : st) (t : nat) : Prop :=
  scr s t = match pc (thr s t) with WSleep | WClear => (-1)%Z | _ => 0%Z end.

Definition scok (start : Z) (vr sv : nat) (T : tst) : Prop :=
  sc T = (start + Z.of_nat sv)%Z /\ sv <= vr.

Definition lok (start : Z) (hd : Z) (nx dt : nat -> nat) (vr sv t : nat) (T : tst) : Prop :=
  match pc T with
  | W0 | W1 | RCtr | Fin | RSpin => True
  | RData => (0 < shd T)%Z
  | WCtr | WReady | WSleep | WClear => dt (S t) = S t
  | WHead => dt (S t) = S t /\ scok start vr sv T
  | WCasC => dt (S t) = S t /\ scok start vr sv T /\ shd T = (-1)%Z /\ (sv = vr -> hd = shd T)
  | WNext => dt (S t) = S t /\ scok start vr sv T /\ shd T <> (-1)%Z /\ (sv = vr -> hd = shd T)
  | WCasQ => dt (S t) = S t /\ scok start vr sv T /\ shd T <> (-1)%Z /\
             nx (S t) = Z.to_nat (shd T) /\ (sv = vr -> hd = shd T)
  | RHead => scok start vr sv T
  | RCasR => scok start vr sv T /\ (shd T = 0%Z \/ shd T = (-1)%Z) /\ (sv = vr -> hd = shd T)
  | RNext => scok start vr sv T /\ shd T <> 0%Z /\ shd T <> (-1)%Z /\ (sv = vr -> hd = shd T)
  | RCasP => scok start vr sv T /\ shd T <> 0%Z /\ shd T <> (-1)%Z /\
             (sv = vr -> hd = shd T /\ nx (Z.to_nat (shd T)) = sn T)
  end.

Definition cell_ok (hd : Z) (nx : nat -> nat) (w : list nat) : Prop :=
  (hd = (-1)%Z /\ w = []) \/ ((0 <= hd)%Z /\ chain nx (Z.to_nat hd) w).

Record LInv (start : Z) (x : ist) : Prop := {
  g_cell : cell_ok (head (base x)) (next (base x)) (W x);
  g_nodup : NoDup (W x);
  g_ver : ctr (base x) = (start + Z.of_nat (ver x))%Z;
  g_wq : forall t, fs x t = FQueued <-> In (S t) (W x);
  g_wnz : forall n, In n (W x) -> n <> 0;
  g_fs : forall t, fs_ok (base x) (fs x) t;
  g_hold : forall r n, holds (base x) r n -> n <> 0 /\ fs x (pred n) = FReleased r;
  g_scr : forall t, scr_ok (base x) t;
  g_loc : forall t, lok start (head (base x)) (next (base x)) (data (base x)) (ver x) (sver x t) t (thr (base x) t);
  g_hist : replay (hist x) ([], false) = Some (W x, (head (base x) =? -1)%Z)
}.

Ltac thr_cases u t :=
  destruct (Nat.eq_dec u t) as [->|?];
  [ rewrite ?upd_same in * | rewrite ?(upd_other _ t _ u) in * by assumption ].

Lemma lok_bump start hd nx dt hd' vr sv t T :
  lok start hd nx dt vr sv t T -> lok start hd' nx dt (S vr) sv t T.
Proof. unfold lok, scok. destruct (pc T); intuition lia. Qed.

Lemma cell_head_in hd nx w : cell_ok hd nx w -> hd <> 0%Z -> hd <> (-1)%Z ->
  (0 < hd)%Z /\ exists r, w = Z.to_nat hd :: r /\ chain nx (nx (Z.to_nat hd)) r.
Proof.
  intros [[E _]|[P C]] H0 H1; [congruence|]. split; [lia|].
  apply chain_cons_inv; auto. intros E. apply H0. lia.
Qed.

(* a step of thread t that changes neither the cell nor W / fs / wk, writes at
   most to its own node and its own scratch, and keeps what it holds *)
Lemma frame_step start x x' t :
  LInv start x ->
  W x' = W x -> ver x' = ver x -> ctr (base x') = ctr (base x) -> head (base x') = head (base x) ->
  (forall u, fs x' u = fs x u) -> (forall u, wk (base x') u = wk (base x) u) ->
  (forall u, u <> t -> thr (base x') u = thr (base x) u /\ sver x' u = sver x u /\ scr (base x') u = scr (base x) u) ->
  (forall n, n <> S t -> next (base x') n = next (base x) n /\ data (base x') n = data (base x) n) ->
  (next (base x') (S t) = next (base x) (S t) \/ fs x t = FRun) ->
  (data (base x') (S t) = data (base x) (S t) \/ fs x t = FRun) ->
  (forall n, holds (base x') t n <-> holds (base x) t n) ->
  fs_ok (base x') (fs x) t -> scr_ok (base x') t ->
  lok start (head (base x)) (next (base x')) (data (base x')) (ver x) (sver x' t) t (thr (base x') t) ->
  hist x' = hist x ->
  LInv start x'.
Proof.
  intros [Ic Ind Iv Iwq Iwz If Ih Is Il Ihi] EW Ev Ec Ehd Efs Ewk Eo En Enx Edt Eh Ft St Lt Ehi.
  assert (Hin : forall n, In n (W x) -> next (base x') n = next (base x) n).
  { intros n Hn. destruct (Nat.eq_dec n (S t)) as [->|Hne]; [|apply En; auto].
    destruct Enx as [E|E]; auto. apply Iwq in Hn. congruence. }
  assert (Hh : forall r n, holds (base x') r n <-> holds (base x) r n).
  { intros r n. destruct (Nat.eq_dec r t) as [->|Hr]; [apply Eh|].
    unfold holds. destruct (Eo r Hr) as (-> & _). tauto. }
  constructor.
  - rewrite EW, Ehd. destruct Ic as [Ic|[P C]]; [left; auto|right; split; auto].
    revert C. apply chain_ext. auto.
  - rewrite EW; auto.
  - rewrite Ec, Ev; auto.
  - intros u. rewrite EW, Efs. auto.
  - rewrite EW; auto.
  - intros u. destruct (Nat.eq_dec u t) as [->|Hu].
    + unfold fs_ok in *. rewrite Efs. exact Ft.
    + specialize (If u). unfold fs_ok in *. rewrite Efs, Ewk. destruct (Eo u Hu) as (-> & _).
      destruct (fs x u); auto. destruct If as (A & B & C). repeat split; auto. apply Hh; auto.
  - intros r n Hn. rewrite Efs. apply Ih. apply Hh; auto.
  - intros u. destruct (Nat.eq_dec u t) as [->|Hu]; auto.
    specialize (Is u). unfold scr_ok in *. destruct (Eo u Hu) as (-> & _ & ->). auto.
  - intros u. destruct (Nat.eq_dec u t) as [->|Hu].
    + rewrite Ehd, Ev. exact Lt.
    + destruct (Eo u Hu) as (-> & -> & _). rewrite Ehd, Ev. specialize (Il u). specialize (If u).
      assert (Du : data (base x') (S u) = data (base x) (S u)) by (apply En; congruence).
      assert (Nu : next (base x') (S u) = next (base x) (S u)) by (apply En; congruence).
      unfold lok in *. destruct (pc (thr (base x) u)) eqn:Hpc; auto; try (rewrite Du; auto; fail).
      * rewrite Du, Nu. auto.
      * destruct Il as (A & B & C & D). split; auto. split; auto. split; auto.
        intros Es. destruct (D Es) as [D1 D2]. split; auto.
        rewrite Hin; auto. destruct (cell_head_in _ _ _ Ic) as (P & r & Er & _); try congruence.
        rewrite <- D1, Er. left; auto.
  - rewrite Ehi, EW, Ehd. auto.
Qed.

Lemma holds_upd s s' t T' :
  thr s' = upd (thr s) t T' ->
  forall r n, holds s' r n <->
    (if Nat.eq_dec r t then (pc T' = RData /\ shd T' = Z.of_nat n) \/ (pc T' = RSpin /\ tw T' = n)
     else holds s r n).
Proof.
  intros E r n. unfold holds. rewrite E. destruct (Nat.eq_dec r t) as [->|Hr].
  - rewrite upd_same. tauto.
  - rewrite upd_other by auto. tauto.
Qed.

Lemma fs_ok_other s s' (f f' : nat -> fstat) u :
  thr s' u = thr s u -> wk s' u = wk s u -> f' u = f u ->
  (forall r, f u = FReleased r -> holds s r (S u) -> holds s' r (S u)) ->
  fs_ok s f u -> fs_ok s' f' u.
Proof.
  unfold fs_ok. intros -> -> -> Hh. destruct (f u); auto.
  intros (A & B & C). repeat split; auto.
Qed.

Lemma not_sleepy_fs s f t : fs_ok s f t -> ~ sleepy (pc (thr s t)) -> f t = FRun /\ wk s t = 0.
Proof.
  unfold fs_ok. intros F N. destruct (f t); try tauto.
  destruct F as [E _]. exfalso. apply N. right; auto.
Qed.

Lemma next_op_pc T : pc (next_op T) = W0 \/ pc (next_op T) = RCtr \/ pc (next_op T) = Fin.
Proof. unfold next_op, begin. destruct (prog T) as [|[| |] r]; cbn; auto. Qed.

Lemma next_op_lok start hd nx dt vr sv t T : lok start hd nx dt vr sv t (next_op T).
Proof. unfold lok. destruct (next_op_pc T) as [E|[E|E]]; rewrite E; auto. Qed.

Lemma next_op_not_sleepy T : ~ sleepy (pc (next_op T)).
Proof. unfold sleepy. destruct (next_op_pc T) as [E|[E|E]]; rewrite E; intros [?|?]; discriminate. Qed.

Lemma next_op_no_hold T n : ~ ((pc (next_op T) = RData /\ shd (next_op T) = Z.of_nat n) \/
                               (pc (next_op T) = RSpin /\ tw (next_op T) = n)).
Proof. destruct (next_op_pc T) as [E|[E|E]]; rewrite E; intros [[? _]|[? _]]; discriminate. Qed.

Lemma next_op_scr T : match pc (next_op T) with WSleep | WClear => (-1)%Z | _ => 0%Z end = 0%Z.
Proof. destruct (next_op_pc T) as [E|[E|E]]; rewrite E; reflexivity. Qed.

Lemma cas_ok_true s T : cas_ok s T = true -> ctr s = sc T /\ head s = shd T.
Proof. unfold cas_ok. rewrite andb_true_iff, !Z.eqb_eq. auto. Qed.

(* a successful DCAS of thread t that neither queues nor releases a fiber
   (wait consuming RAISED, raise leaving RAISED) *)
Lemma dcas_plain_step start x t hd' e :
  LInv start x ->
  let s := base x in let T := thr s t in
  ~ sleepy (pc T) -> pc T <> RData -> pc T <> RSpin -> pc T <> WClear ->
  W x = [] -> (hd' = 0 \/ hd' = -1)%Z ->
  replay (hist x ++ [e]) ([], false) = Some ([], (hd' =? -1)%Z) ->
  LInv start {| base := cell_upd s hd' t (next_op T); W := W x; hist := hist x ++ [e];
                ver := S (ver x); sver := sver x; fs := fs x |}.
Proof.
  intros [Ic Ind Iv Iwq Iwz If Ih Is Il Ihi] s T N1 N2 N3 N4 EW Hd Hh.
  assert (Et : thr (cell_upd s hd' t (next_op T)) = upd (thr s) t (next_op T)) by reflexivity.
  destruct (not_sleepy_fs _ _ _ (If t) N1) as [Ft Wt].
  constructor; cbn [base W hist ver sver fs cell_upd ctr head next data scr wk thr].
  - rewrite EW. destruct Hd as [-> | ->]; [right; cbn; split; [lia|reflexivity]|left; auto].
  - auto.
  - fold s in Iv. lia.
  - auto.
  - auto.
  - intros u. destruct (Nat.eq_dec u t) as [->|Hu].
    + unfold fs_ok. cbn. rewrite upd_same, Ft. split; [apply next_op_not_sleepy|exact Wt].
    + apply (fs_ok_other s _ (fs x)); cbn; auto; [rewrite upd_other; auto|].
      intros r Er Hr. apply (holds_upd s _ t _ Et). destruct (Nat.eq_dec r t) as [->|]; auto.
      exfalso. unfold holds in Hr. fold T in Hr. tauto.
  - intros r n Hn. apply (holds_upd s _ t _ Et) in Hn. destruct (Nat.eq_dec r t) as [->|]; auto.
    exfalso. eapply next_op_no_hold; eauto.
  - intros u. unfold scr_ok. cbn. thr_cases u t.
    + rewrite next_op_scr. specialize (Is t). unfold scr_ok in Is. fold s T in Is. rewrite Is.
      unfold sleepy in N1. destruct (pc T); try reflexivity; tauto.
    + apply Is.
  - intros u. thr_cases u t; [apply next_op_lok|]. eapply lok_bump. apply Il.
  - rewrite EW in *. exact Hh.
Qed.

Lemma holds_same s s' t T' :
  thr s' = upd (thr s) t T' ->
  pc T' <> RData -> pc T' <> RSpin -> pc (thr s t) <> RData -> pc (thr s t) <> RSpin ->
  forall n, holds s' t n <-> holds s t n.
Proof.
  intros E A B C D n. rewrite (holds_upd s s' t T' E). destruct (Nat.eq_dec t t); [|congruence].
  unfold holds. tauto.
Qed.

Ltac others := intros ? ?; cbn; rewrite ?upd_other by assumption; auto.
Ltac frame I t :=
  eapply frame_step with (t := t);
  [exact I|reflexivity|reflexivity|reflexivity|reflexivity|intros; reflexivity|intros; reflexivity|..|reflexivity];
  cbn [base W hist ver sver fs gh set_thr ctr head next data scr wk thr].
Ltac fs_run Ft Wt :=
  unfold fs_ok; cbn; rewrite Ft, upd_same; cbn [pc with_pc]; split;
  [unfold sleepy; intros [?|?]; discriminate|exact Wt].
Ltac scr_zero Is HT Hpc t :=
  unfold scr_ok; cbn; rewrite ?upd_same; cbn [pc with_pc];
  let Q := fresh in pose proof (Is t) as Q; unfold scr_ok in Q; rewrite <- HT, Hpc in Q; exact Q.
Ltac holds_quiet HT Hpc :=
  eapply holds_same; [reflexivity|cbn; discriminate|cbn; discriminate
                                   |rewrite <- HT, Hpc; discriminate|rewrite <- HT, Hpc; discriminate].

Theorem linv_step start x t :
  LInv start x -> status_of (base x) t = SReady -> LInv start (lstep x t).
Proof.
  intros I St. unfold lstep, step. remember (thr (base x) t) as T eqn:HT.
  assert (LT := g_loc _ _ I t). rewrite <- HT in LT. unfold lok in LT.
  pose proof (g_fs _ _ I t) as Ft0. pose proof (g_scr _ _ I) as Is.
  assert (NS : ~ sleepy (pc T) -> fs x t = FRun /\ wk (base x) t = 0).
  { intros N. apply (not_sleepy_fs _ _ _ Ft0). rewrite <- HT. exact N. }
  destruct (pc T) eqn:Hpc; cbn [fst].
  - (* W0 *)
    destruct NS as [Ft Wt]; [intros [?|?]; discriminate|].
    frame I t.
    + others.
    + auto.
    + auto.
    + auto.
    + holds_quiet HT Hpc.
    + fs_run Ft Wt.
    + unfold scr_ok; cbn. rewrite !upd_same. reflexivity.
    + rewrite upd_same. unfold lok; cbn. auto.
  - (* W1 *)
    destruct NS as [Ft Wt]; [intros [?|?]; discriminate|].
    frame I t.
    + others.
    + intros n Hn. cbn. rewrite upd_other by auto. auto.
    + auto.
    + auto.
    + holds_quiet HT Hpc.
    + fs_run Ft Wt.
    + scr_zero Is HT Hpc t.
    + rewrite upd_same. unfold lok; cbn. apply upd_same.
  - (* WCtr *)
    destruct NS as [Ft Wt]; [intros [?|?]; discriminate|].
    frame I t.
    + others.
    + auto.
    + auto.
    + auto.
    + holds_quiet HT Hpc.
    + fs_run Ft Wt.
    + scr_zero Is HT Hpc t.
    + rewrite !upd_same. unfold lok, scok; cbn. split; auto. split; auto. apply (g_ver _ _ I).
  - (* WHead *)
    destruct NS as [Ft Wt]; [intros [?|?]; discriminate|]. destruct LT as (L1 & L2).
    frame I t.
    + others.
    + auto.
    + auto.
    + auto.
    + eapply holds_same; [reflexivity| | |rewrite <- HT, Hpc; discriminate|rewrite <- HT, Hpc; discriminate];
        cbn; destruct (_ =? _)%Z; discriminate.
    + unfold fs_ok; cbn. rewrite Ft, upd_same. cbn [pc]. split; [|exact Wt].
      unfold sleepy. destruct (_ =? _)%Z; intros [?|?]; discriminate.
    + unfold scr_ok; cbn. rewrite upd_same. cbn [pc].
      pose proof (Is t) as Q. unfold scr_ok in Q. rewrite <- HT, Hpc in Q. rewrite Q.
      destruct (_ =? _)%Z; reflexivity.
    + rewrite upd_same. unfold lok; cbn [pc shd sc].
      destruct (Z.eqb_spec (head (base x)) (-1)); cbn; repeat split; auto; apply L2.
  - (* WCasC *)
    destruct LT as (L1 & [L2 L2'] & L3 & L4).
    destruct (cas_ok (base x) T) eqn:Ec.
    + cbn [fst]. apply cas_ok_true in Ec. destruct Ec as [Ec Eh].
      pose proof (g_ver _ _ I) as Iv. assert (Es : sver x t = ver x) by lia.
      pose proof (g_cell _ _ I) as Ic. rewrite Eh, L3 in Ic.
      assert (EW : W x = []). { destruct Ic as [[_ E]|[P _]]; [auto|lia]. }
      subst T. apply dcas_plain_step; auto; rewrite ?Hpc; try discriminate.
      * intros [?|?]; discriminate.
      * rewrite replay_app, (g_hist _ _ I), EW, Eh, L3. reflexivity.
    + unfold cas_fail. cbn [fst].
      destruct NS as [Ft Wt]; [intros [?|?]; discriminate|].
      frame I t.
      * others.
      * auto.
      * auto.
      * auto.
      * holds_quiet HT Hpc.
      * fs_run Ft Wt.
      * scr_zero Is HT Hpc t.
      * rewrite upd_same. unfold lok; cbn. auto.
  - (* WNext *)
    destruct NS as [Ft Wt]; [intros [?|?]; discriminate|]. destruct LT as (L1 & L2 & L3 & L4).
    frame I t.
    + others.
    + intros n Hn. cbn. rewrite upd_other by auto. auto.
    + auto.
    + auto.
    + holds_quiet HT Hpc.
    + fs_run Ft Wt.
    + scr_zero Is HT Hpc t.
    + rewrite upd_same. unfold lok; cbn. rewrite upd_same. repeat split; auto; apply L2.
  - (* WCasQ *)
    destruct LT as (L1 & [L2 L2'] & L3 & L4 & L5).
    destruct (cas_ok (base x) T) eqn:Ec.
    + cbn [fst]. apply cas_ok_true in Ec. destruct Ec as [Ec Eh].
      destruct NS as [Ft Wt]; [intros [?|?]; discriminate|].
      destruct I as [Ic Ind Iv Iwq Iwz If Ih Is' Il Ihi].
      assert (Es : sver x t = ver x) by lia.
      assert (Hnw : ~ In (S t) (W x)). { intros Hi. apply Iwq in Hi. congruence. }
      set (s' := cell_upd (base x) (Z.of_nat (S t)) t (with_pc T WReady)).
      assert (Et : thr s' = upd (thr (base x)) t (with_pc T WReady)) by reflexivity.
      constructor; cbn [base W hist ver sver fs]; fold s'.
      * right. cbn [s' cell_upd head next]. split; [lia|]. rewrite Nat2Z.id. cbn. split; auto. split; auto.
        rewrite L4. destruct Ic as [[E _]|[P C]]; [congruence|]. rewrite <- Eh. exact C.
      * constructor; auto.
      * cbn. lia.
      * intros u. thr_cases u t.
        -- split; auto. intros _. left; auto.
        -- rewrite Iwq. split; [right; auto|]. intros [E|Hi]; [congruence|auto].
      * intros n [<-|Hn]; auto.
      * intros u. destruct (Nat.eq_dec u t) as [->|Hu].
        -- unfold fs_ok. rewrite upd_same. cbn. rewrite upd_same. cbn. split; [left; auto|exact Wt].
        -- apply (fs_ok_other (base x) _ (fs x)); cbn; auto; try (rewrite upd_other by auto; reflexivity).
           intros r Er Hr. apply (holds_upd (base x) _ t _ Et). destruct (Nat.eq_dec r t) as [->|]; auto.
           exfalso. unfold holds in Hr. rewrite <- HT, Hpc in Hr. destruct Hr as [[? _]|[? _]]; discriminate.
      * intros r n Hn. apply (holds_upd (base x) _ t _ Et) in Hn. destruct (Nat.eq_dec r t) as [->|].
        -- exfalso. cbn in Hn. destruct Hn as [[? _]|[? _]]; discriminate.
        -- destruct (Ih r n Hn) as [A B]. split; auto. rewrite upd_other; auto.
           intros E. rewrite E in B. congruence.
      * intros u. unfold scr_ok. cbn. thr_cases u t.
        -- cbn. pose proof (Is t) as Q. unfold scr_ok in Q. rewrite <- HT, Hpc in Q. exact Q.
        -- apply Is.
      * intros u. cbn [s' cell_upd head next data thr]. thr_cases u t; [unfold lok; cbn; exact L1|].
        eapply lok_bump. apply Il.
      * rewrite replay_app, Ihi. cbn [s' cell_upd head]. cbn.
        assert (E1 : (head (base x) =? -1)%Z = false) by (apply Z.eqb_neq; congruence).
        rewrite E1. cbn. reflexivity.
    + unfold cas_fail. cbn [fst].
      destruct NS as [Ft Wt]; [intros [?|?]; discriminate|].
      frame I t.
      * others.
      * auto.
      * auto.
      * auto.
      * holds_quiet HT Hpc.
      * fs_run Ft Wt.
      * scr_zero Is HT Hpc t.
      * rewrite upd_same. unfold lok; cbn. auto.
  - (* WReady *)
    assert (Wt : wk (base x) t = 0).
    { unfold fs_ok in Ft0. rewrite <- HT, Hpc in Ft0. destruct (fs x t); try tauto. destruct Ft0; discriminate. }
    rewrite Wt. cbn [fst].
    frame I t.
    + others.
    + auto.
    + auto.
    + auto.
    + holds_quiet HT Hpc.
    + unfold fs_ok in *. cbn. rewrite upd_same. cbn [pc with_pc]. rewrite <- HT, Hpc in Ft0.
      destruct (fs x t); try tauto.
      * destruct Ft0 as [N _]. exfalso. apply N. left; auto.
      * split; [right; auto|tauto].
      * destruct Ft0 as (A & B & C). split; [right; auto|]. split; auto.
        match goal with |- holds ?S0 _ _ => apply (holds_upd (base x) S0 t (with_pc T WSleep) eq_refl) end.
        destruct (Nat.eq_dec r t) as [->|]; auto.
        exfalso. unfold holds in C. rewrite <- HT, Hpc in C. destruct C as [[? _]|[? _]]; discriminate.
    + unfold scr_ok; cbn. rewrite !upd_same. reflexivity.
    + rewrite upd_same. unfold lok; cbn. exact LT.
  - (* WSleep *)
    assert (Wt : wk (base x) t <> 0).
    { unfold status_of in St. rewrite <- HT, Hpc in St. destruct (t <? nthr (base x)); [|discriminate].
      destruct (wk (base x) t); [discriminate|auto]. }
    assert (Fw : fs x t = FWoken /\ wk (base x) t = 1).
    { unfold fs_ok in Ft0. destruct (fs x t); try tauto; split; try tauto; destruct Ft0; congruence. }
    destruct Fw as [Fw W1]. rewrite W1. cbn [pred].
    destruct I as [Ic Ind Iv Iwq Iwz If Ih Is' Il Ihi].
    set (s' := {| ctr := ctr (base x) |}).
    assert (Et : thr s' = upd (thr (base x)) t (with_pc T WClear)) by reflexivity.
    constructor; cbn [base W hist ver sver fs]; fold s'; auto.
    + intros u. thr_cases u t; [|apply Iwq]. split; [discriminate|]. intros Hi. apply Iwq in Hi. congruence.
    + intros u. destruct (Nat.eq_dec u t) as [->|Hu].
      * unfold fs_ok. rewrite upd_same. cbn. rewrite !upd_same. cbn. split; auto. intros [?|?]; discriminate.
      * apply (fs_ok_other (base x) _ (fs x)); cbn; auto; try (rewrite upd_other by auto; reflexivity).
        intros r Er Hr. apply (holds_upd (base x) _ t _ Et). destruct (Nat.eq_dec r t) as [->|]; auto.
        exfalso. unfold holds in Hr. rewrite <- HT, Hpc in Hr. destruct Hr as [[? _]|[? _]]; discriminate.
    + intros r n Hn. apply (holds_upd (base x) _ t _ Et) in Hn. destruct (Nat.eq_dec r t) as [->|].
      * exfalso. cbn in Hn. destruct Hn as [[? _]|[? _]]; discriminate.
      * destruct (Ih r n Hn) as [A B]. split; auto. rewrite upd_other; auto.
        intros E. rewrite E in B. congruence.
    + intros u. unfold scr_ok. cbn. thr_cases u t.
      * cbn. pose proof (Is t) as Q. unfold scr_ok in Q. rewrite <- HT, Hpc in Q. exact Q.
      * apply Is.
    + intros u. cbn [s' head next data thr]. thr_cases u t; [unfold lok; cbn; exact LT|apply Il].
  - (* WClear *)
    destruct NS as [Ft Wt]; [intros [?|?]; discriminate|].
    frame I t.
    + others.
    + auto.
    + auto.
    + auto.
    + eapply holds_same; [reflexivity| | |rewrite <- HT, Hpc; discriminate|rewrite <- HT, Hpc; discriminate];
        destruct (next_op_pc T) as [E|[E|E]]; rewrite E; discriminate.
    + unfold fs_ok; cbn. rewrite Ft, upd_same. split; [apply next_op_not_sleepy|exact Wt].
    + unfold scr_ok; cbn. rewrite !upd_same, next_op_scr. reflexivity.
    + rewrite upd_same. apply next_op_lok.
  - (* RCtr *)
    destruct NS as [Ft Wt]; [intros [?|?]; discriminate|].
    frame I t.
    + others.
    + auto.
    + auto.
    + auto.
    + holds_quiet HT Hpc.
    + fs_run Ft Wt.
    + scr_zero Is HT Hpc t.
    + rewrite !upd_same. unfold lok, scok; cbn. split; auto. apply (g_ver _ _ I).
  - (* RHead *)
    destruct NS as [Ft Wt]; [intros [?|?]; discriminate|].
    set (b := ((head (base x) =? 0)%Z || (head (base x) =? -1)%Z)).
    frame I t.
    + others.
    + auto.
    + auto.
    + auto.
    + eapply holds_same; [reflexivity| | |rewrite <- HT, Hpc; discriminate|rewrite <- HT, Hpc; discriminate];
        cbn; fold b; destruct b; destruct (strict T); discriminate.
    + unfold fs_ok; cbn. rewrite Ft, upd_same. cbn [pc]. split; [|exact Wt].
      unfold sleepy. fold b. destruct b; destruct (strict T); intros [?|?]; discriminate.
    + unfold scr_ok; cbn. rewrite upd_same. cbn [pc].
      pose proof (Is t) as Q. unfold scr_ok in Q. rewrite <- HT, Hpc in Q. rewrite Q.
      fold b. destruct b; destruct (strict T); reflexivity.
    + rewrite upd_same. unfold lok; cbn [pc shd sc]. fold b. unfold b.
      destruct (Z.eqb_spec (head (base x)) 0); destruct (Z.eqb_spec (head (base x)) (-1)); cbn;
        destruct (strict T); cbn; repeat split; auto; try apply LT; try lia.
  - (* RCasR *)
    destruct LT as ([L2 L2'] & L3 & L4).
    destruct (cas_ok (base x) T) eqn:Ec.
    + cbn [fst]. apply cas_ok_true in Ec. destruct Ec as [Ec Eh].
      pose proof (g_ver _ _ I) as Iv. assert (Es : sver x t = ver x) by lia.
      pose proof (g_cell _ _ I) as Ic. rewrite Eh in Ic.
      assert (EW : W x = []).
      { destruct Ic as [[_ E]|[P C]]; [auto|]. destruct L3 as [E|E]; [|lia]. rewrite E in C. cbn in C.
        eapply chain_zero; eauto. }
      subst T. apply dcas_plain_step; auto; rewrite ?Hpc; try discriminate.
      * intros [?|?]; discriminate.
      * rewrite replay_app, (g_hist _ _ I), EW. reflexivity.
    + unfold cas_fail. cbn [fst].
      destruct NS as [Ft Wt]; [intros [?|?]; discriminate|].
      frame I t.
      * others.
      * auto.
      * auto.
      * auto.
      * holds_quiet HT Hpc.
      * fs_run Ft Wt.
      * scr_zero Is HT Hpc t.
      * rewrite upd_same. unfold lok; cbn. auto.
  - (* RNext *)
    destruct NS as [Ft Wt]; [intros [?|?]; discriminate|]. destruct LT as (L2 & L3 & L3' & L4).
    frame I t.
    + others.
    + auto.
    + auto.
    + auto.
    + holds_quiet HT Hpc.
    + fs_run Ft Wt.
    + scr_zero Is HT Hpc t.
    + rewrite upd_same. unfold lok; cbn. repeat split; auto; apply L2.
  - (* RCasP *)
    destruct LT as ([L2 L2'] & L3 & L3' & L4).
    destruct (cas_ok (base x) T) eqn:Ec.
    + cbn [fst]. apply cas_ok_true in Ec. destruct Ec as [Ec Eh].
      destruct NS as [Ft Wt]; [intros [?|?]; discriminate|].
      destruct I as [Ic Ind Iv Iwq Iwz If Ih Is' Il Ihi].
      assert (Es : sver x t = ver x) by lia. destruct (L4 Es) as [_ En].
      destruct (cell_head_in _ _ _ Ic) as (P & r & Er & Cr); try congruence.
      rewrite Eh in *. rewrite En in Cr.
      set (h := Z.to_nat (shd T)) in *.
      assert (Hh : h <> 0) by (unfold h; lia).
      assert (Hu : h = S (pred h)) by lia.
      assert (Fq : fs x (pred h) = FQueued). { apply Iwq. rewrite <- Hu, Er. left; auto. }
      assert (Hnt : pred h <> t). { intros E. rewrite E in Fq. congruence. }
      rewrite Er in Ind. apply NoDup_cons_iff in Ind. destruct Ind as [Hnr Hdr].
      set (s' := cell_upd (base x) (Z.of_nat (sn T)) t (with_pc T RData)).
      assert (Et : thr s' = upd (thr (base x)) t (with_pc T RData)) by reflexivity.
      constructor; cbn [base W hist ver sver fs]; fold s'; rewrite ?Er; cbn [tl].
      * right. cbn [s' cell_upd head next]. split; [lia|]. rewrite Nat2Z.id. exact Cr.
      * exact Hdr.
      * cbn. lia.
      * intros u. destruct (Nat.eq_dec u (pred h)) as [->|Hne].
        -- rewrite upd_same. split; [discriminate|]. intros Hi. exfalso. apply Hnr. rewrite Hu. exact Hi.
        -- rewrite upd_other by auto. rewrite Iwq, Er. split; [intros [E|Hi]; [lia|auto]|right; auto].
      * intros n Hn. apply Iwz. rewrite Er. right; auto.
      * intros u. destruct (Nat.eq_dec u t) as [->|Hut].
        -- unfold fs_ok. rewrite upd_other by auto. rewrite Ft. cbn. rewrite upd_same. cbn.
           split; auto. intros [?|?]; discriminate.
        -- destruct (Nat.eq_dec u (pred h)) as [->|Hne].
           ++ specialize (If (pred h)). unfold fs_ok in *. rewrite upd_same. rewrite Fq in If.
              cbn. rewrite upd_other by auto. destruct If as [A B]. split; auto. split; auto.
              apply (holds_upd (base x) _ t _ Et). destruct (Nat.eq_dec t t); [|congruence].
              left. split; [reflexivity|]. change (shd (with_pc T RData)) with (shd T). rewrite <- Hu. unfold h. lia.
           ++ apply (fs_ok_other (base x) _ (fs x)); cbn; auto; try (rewrite upd_other by auto; reflexivity).
              intros r0 Er0 Hr. apply (holds_upd (base x) _ t _ Et). destruct (Nat.eq_dec r0 t) as [->|]; auto.
              exfalso. unfold holds in Hr. rewrite <- HT, Hpc in Hr. destruct Hr as [[? _]|[? _]]; discriminate.
      * intros r0 n Hn. apply (holds_upd (base x) _ t _ Et) in Hn. destruct (Nat.eq_dec r0 t) as [->|].
        -- cbn in Hn. destruct Hn as [[_ E]|[? _]]; [|discriminate].
           assert (n = h) by (unfold h; lia). subst n. split; auto. apply upd_same.
        -- destruct (Ih r0 n Hn) as [A B]. split; auto. rewrite upd_other; auto.
           intros E. rewrite E in B. congruence.
      * intros u. unfold scr_ok. cbn. thr_cases u t.
        -- cbn. pose proof (Is t) as Q. unfold scr_ok in Q. rewrite <- HT, Hpc in Q. exact Q.
        -- apply Is.
      * intros u. cbn [s' cell_upd head next data thr]. thr_cases u t; [unfold lok; cbn; exact P|].
        eapply lok_bump. apply Il.
      * rewrite replay_app, Ihi, Er. cbn [s' cell_upd head]. cbn.
        assert (E1 : (shd T =? -1)%Z = false) by (apply Z.eqb_neq; congruence).
        rewrite E1. cbn. fold h. rewrite Nat.eqb_refl. f_equal. f_equal. symmetry. apply Z.eqb_neq. lia.
    + unfold cas_fail. cbn [fst].
      destruct NS as [Ft Wt]; [intros [?|?]; discriminate|].
      frame I t.
      * others.
      * auto.
      * auto.
      * auto.
      * holds_quiet HT Hpc.
      * fs_run Ft Wt.
      * scr_zero Is HT Hpc t.
      * rewrite upd_same. unfold lok; cbn. auto.
  - (* RData *)
    destruct NS as [Ft Wt]; [intros [?|?]; discriminate|].
    set (n := Z.to_nat (shd T)).
    assert (Hd : holds (base x) t n).
    { left. rewrite <- HT. split; auto. unfold n. lia. }
    destruct (g_hold _ _ I t n Hd) as [Hnz Fr].
    assert (Hn : n = S (pred n)) by lia.
    assert (Dn : data (base x) n = n).
    { pose proof (g_fs _ _ I (pred n)) as Fu. unfold fs_ok in Fu. rewrite Fr in Fu. destruct Fu as (A & _).
      pose proof (g_loc _ _ I (pred n)) as Lu. unfold lok in Lu. rewrite <- Hn in Lu.
      destruct A as [A|A]; rewrite A in Lu; exact Lu. }
    frame I t.
    + others.
    + auto.
    + auto.
    + auto.
    + intros m. unfold holds; cbn. rewrite upd_same, <- HT, Hpc. cbn. fold n. rewrite Dn.
      split.
      * intros [[? _]|[_ E]]; [discriminate|]. left. split; auto. subst m. unfold n. lia.
      * intros [[_ E]|[? _]]; [|discriminate]. right. split; auto. unfold n. lia.
    + fs_run Ft Wt.
    + scr_zero Is HT Hpc t.
    + rewrite upd_same. unfold lok; cbn. auto.
  - (* RSpin *)
    set (u := pred (tw T)).
    destruct (Z.eqb_spec (scr (base x) u) (-1)) as [Es|Es]; cbn [fst].
    + destruct NS as [Ft Wt]; [intros [?|?]; discriminate|].
      assert (Hd : holds (base x) t (tw T)) by (right; rewrite <- HT; auto).
      destruct (g_hold _ _ I t (tw T) Hd) as [Hnz Fr]. fold u in Fr.
      assert (Hn : tw T = S u) by (unfold u; lia).
      pose proof (g_fs _ _ I u) as Fu. unfold fs_ok in Fu. rewrite Fr in Fu. destruct Fu as (A & Wu & _).
      assert (Pu : pc (thr (base x) u) = WSleep).
      { pose proof (Is u) as Q. unfold scr_ok in Q. rewrite Es in Q.
        destruct A as [A|A]; rewrite A in Q; [discriminate|auto]. }
      assert (Hut : u <> t). { intros E. rewrite E, <- HT, Hpc in Pu. discriminate. }
      destruct I as [Ic Ind Iv Iwq Iwz If Ih Is' Il Ihi].
      set (s' := {| ctr := ctr (base x) |}).
      assert (Et : thr s' = upd (thr (base x)) t (next_op T)) by reflexivity.
      constructor; cbn [base W hist ver sver fs]; fold s'; auto.
      * intros v. destruct (Nat.eq_dec v u) as [->|Hv]; [|rewrite upd_other by auto; apply Iwq].
        rewrite upd_same. split; [discriminate|]. intros Hi. apply Iwq in Hi. congruence.
      * intros v. destruct (Nat.eq_dec v t) as [->|Hvt].
        -- unfold fs_ok. rewrite upd_other by auto. rewrite Ft. cbn. rewrite upd_same, upd_other by auto.
           split; [apply next_op_not_sleepy|exact Wt].
        -- destruct (Nat.eq_dec v u) as [->|Hvu].
           ++ unfold fs_ok. rewrite upd_same. cbn. rewrite upd_other by auto. rewrite upd_same. split; auto.
           ++ apply (fs_ok_other (base x) _ (fs x)); cbn; auto; try (rewrite upd_other by auto; reflexivity).
              intros r0 Er0 Hr. apply (holds_upd (base x) _ t _ Et). destruct (Nat.eq_dec r0 t) as [->|]; auto.
              exfalso. unfold holds in Hr. rewrite <- HT, Hpc in Hr. destruct Hr as [[? _]|[_ E]]; [discriminate|].
              apply Hvu. unfold u. rewrite E. reflexivity.
      * intros r0 m Hm. apply (holds_upd (base x) _ t _ Et) in Hm. destruct (Nat.eq_dec r0 t) as [->|Hr].
        -- exfalso. eapply next_op_no_hold; eauto.
        -- destruct (Ih r0 m Hm) as [B C]. split; auto. rewrite upd_other; auto.
           intros E. rewrite E in C. congruence.
      * intros v. unfold scr_ok. cbn. thr_cases v t.
        -- rewrite next_op_scr. pose proof (Is t) as Q. unfold scr_ok in Q. rewrite <- HT, Hpc in Q. exact Q.
        -- apply Is.
      * intros v. cbn [s' head next data thr]. thr_cases v t; [apply next_op_lok|apply Il].
    + destruct x; cbn in *; exact I.
  - destruct x; cbn in *; exact I.
Qed.


(* ---------- initial state ---------- *)
Lemma begin_pc p i : pc (begin p i) = W0 \/ pc (begin p i) = RCtr \/ pc (begin p i) = Fin.
Proof. unfold begin. destruct p as [|[| |] r]; cbn; auto. Qed.

Lemma init_linv start progs : LInv start (iinit start progs).
Proof.
  constructor; cbn [base W hist ver sver fs iinit]; cbn [init ctr head next data scr wk thr].
  - right. split; [lia|reflexivity].
  - constructor.
  - lia.
  - intros t. split; [discriminate|intros []].
  - intros n [].
  - intros t. unfold fs_ok. cbn. split; auto. unfold sleepy.
    destruct (begin_pc (nth t progs []) 0) as [E|[E|E]]; rewrite E; intros [?|?]; discriminate.
  - intros r n [[E _]|[E _]]; cbn in E; exfalso;
      destruct (begin_pc (nth r progs []) 0) as [F|[F|F]]; rewrite F in E; discriminate.
  - intros t. unfold scr_ok. cbn.
    destruct (begin_pc (nth t progs []) 0) as [E|[E|E]]; rewrite E; reflexivity.
  - intros t. unfold lok. destruct (begin_pc (nth t progs []) 0) as [E|[E|E]]; rewrite E; auto.
  - reflexivity.
Qed.

Theorem ireach_linv start progs x : ireach start progs x -> LInv start x.
Proof. induction 1; [apply init_linv|apply linv_step; auto]. Qed.

(* ---------- the statements used by Properties_C20.v ---------- *)
Lemma snapshot_of_linv start x t :
  LInv start x -> ctr (base x) = sc (thr (base x) t) ->
  match pc (thr (base x) t) with
  | WCasC => sver x t = ver x /\ head (base x) = shd (thr (base x) t) /\ W x = []
  | WCasQ => sver x t = ver x /\ head (base x) = shd (thr (base x) t) /\
             next (base x) (S t) = Z.to_nat (shd (thr (base x) t)) /\ ~ In (S t) (W x) /\
             chain (next (base x)) (Z.to_nat (shd (thr (base x) t))) (W x)
  | RCasR => sver x t = ver x /\ head (base x) = shd (thr (base x) t) /\ W x = []
  | RCasP => sver x t = ver x /\ head (base x) = shd (thr (base x) t) /\
             next (base x) (Z.to_nat (shd (thr (base x) t))) = sn (thr (base x) t) /\
             exists r, W x = Z.to_nat (shd (thr (base x) t)) :: r /\
                       chain (next (base x)) (sn (thr (base x) t)) r
  | _ => True
  end.
Proof.
  intros I Hc. assert (LT := g_loc _ _ I t). unfold lok, scok in LT.
  pose proof (g_ver _ _ I) as Iv. pose proof (g_cell _ _ I) as Ic.
  destruct (pc (thr (base x) t)) eqn:Hpc; auto.
  - destruct LT as (_ & [A B] & C & D). assert (Es : sver x t = ver x) by lia. specialize (D Es).
    repeat split; auto. rewrite D, C in Ic. destruct Ic as [[_ E]|[P _]]; [auto|lia].
  - destruct LT as (_ & [A B] & C & N & D). assert (Es : sver x t = ver x) by lia. specialize (D Es).
    repeat split; auto.
    + intros Hi. apply (g_wq _ _ I) in Hi. pose proof (g_fs _ _ I t) as F. unfold fs_ok in F.
      rewrite Hi, Hpc in F. destruct F as [[F|F] _]; discriminate.
    + rewrite D in Ic. destruct Ic as [[E _]|[_ Ch]]; [congruence|auto].
  - destruct LT as ([A B] & C & D). assert (Es : sver x t = ver x) by lia. specialize (D Es).
    repeat split; auto. rewrite D in Ic. destruct Ic as [[_ E]|[P Ch]]; [auto|].
    destruct C as [C|C]; [|lia]. rewrite C in Ch. cbn in Ch. eapply chain_zero; eauto.
  - destruct LT as ([A B] & C & C' & D). assert (Es : sver x t = ver x) by lia. destruct (D Es) as [D1 D2].
    repeat split; auto. rewrite D1 in Ic.
    destruct (cell_head_in _ _ _ Ic C C') as (P & r & Er & Cr). exists r. split; auto. rewrite <- D2. exact Cr.
Qed.

Lemma spec_of_linv start x :
  LInv start x ->
  replay (hist x) ([], false) = Some (W x, (head (base x) =? -1)%Z) /\
  cell_ok (head (base x)) (next (base x)) (W x) /\ NoDup (W x).
Proof. intros I. split; [apply (g_hist _ _ I)|]. split; [apply (g_cell _ _ I)|apply (g_nodup _ _ I)]. Qed.

(* where every fiber is *)
Lemma accounting_of_linv start x t :
  LInv start x ->
  fs_ok (base x) (fs x) t /\ (fs x t = FQueued <-> In (S t) (W x)) /\
  (forall r, fs x t = FReleased r -> holds (base x) r (S t)) /\
  (forall r n, holds (base x) r n -> n <> 0 /\ fs x (pred n) = FReleased r).
Proof.
  intros I. split; [apply (g_fs _ _ I)|]. split; [apply (g_wq _ _ I)|]. split; [|apply (g_hold _ _ I)].
  intros r E. pose proof (g_fs _ _ I t) as F. unfold fs_ok in F. rewrite E in F. tauto.
Qed.

(* the consequences one wants to read *)
Lemma sleeping_of_linv start x t :
  LInv start x ->
  wk (base x) t <= 1 /\
  (In (S t) (W x) -> sleepy (pc (thr (base x) t)) /\ wk (base x) t = 0) /\
  (wk (base x) t = 1 -> pc (thr (base x) t) = WSleep /\ ~ In (S t) (W x)) /\
  (sleepy (pc (thr (base x) t)) ->
     In (S t) (W x) \/ (exists r, holds (base x) r (S t)) \/ wk (base x) t = 1).
Proof.
  intros I. pose proof (g_fs _ _ I t) as F. pose proof (g_wq _ _ I t) as Q. unfold fs_ok in F.
  assert (NQ : fs x t <> FQueued -> ~ In (S t) (W x)) by (intros N Hi; apply N; apply Q; exact Hi).
  destruct (fs x t) eqn:E.
  - destruct F as [A B]. split; [lia|]. split; [intros Hi; exfalso; apply NQ; [discriminate|exact Hi]|].
    split; [intros Hw; lia|]. intros Hs. tauto.
  - destruct F as [A B]. split; [lia|]. split; [auto|]. split; [intros Hw; lia|].
    intros _. left. apply Q. reflexivity.
  - destruct F as (A & B & C). split; [lia|]. split; [intros Hi; exfalso; apply NQ; [discriminate|exact Hi]|].
    split; [intros Hw; lia|]. intros _. right. left. eauto.
  - destruct F as [A B]. split; [lia|]. split; [intros Hi; exfalso; apply NQ; [discriminate|exact Hi]|].
    split; [intros _; split; [exact A|apply NQ; discriminate]|]. intros _. right. right. exact B.
Qed.
