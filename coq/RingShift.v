(* C16: the ring-buffer model is invariant under shifting both counters by a
   multiple of the ring size.  This justifies the "biased start" of the
   lock-step harness: the real counters start at start + bias (bias a multiple
   of 2^k, chosen so that they cross 2^32), every value read from / written to /
   CASed on loc 0 (high) and loc 1 (low) is reported minus bias, and the model
   is run from the small [start]. *)
From Coq Require Import List ZArith Lia Bool Arith.
From LF Require Import Conc Ring.
Import ListNotations.

(* ---------- the shift on traces ---------- *)
(* an event is shifted iff it is an access (not K_RET 909 / K_EV 919) to one of
   the two counter locations *)
Definition shifts (loc kind : Z) : bool :=
  ((loc =? 0) || (loc =? 1))%Z && negb ((kind =? 909) || (kind =? 919))%Z.

(* traces are quadruples [tid; loc; kind; val] flattened in a list Z *)
Fixpoint shift_trace (D : Z) (l : list Z) : list Z :=
  match l with
  | t :: loc :: kind :: v :: r =>
      t :: loc :: kind :: (if shifts loc kind then (v + D)%Z else v) :: shift_trace D r
  | _ => l
  end.

Inductive quads : list Z -> Prop :=
| q_nil : quads []
| q_cons a b c d r : quads r -> quads (a :: b :: c :: d :: r).

Lemma quads_app a b : quads a -> quads b -> quads (a ++ b).
Proof. induction 1; cbn; auto using quads. Qed.

Lemma shift_app D a b : quads a -> shift_trace D (a ++ b) = shift_trace D a ++ shift_trace D b.
Proof. induction 1; cbn [app shift_trace]; [reflexivity | now rewrite IHquads]. Qed.

Lemma quads_ev t loc kind v : quads (ev t loc kind v).
Proof. unfold ev. auto using quads. Qed.
Lemma quads_ret t T v : quads (ret t T v).
Proof. unfold ret. auto using quads. Qed.

Lemma shift_ev_yes D t loc kind v : shifts loc kind = true ->
  shift_trace (Z.of_nat D) (ev t loc kind v) = ev t loc kind (v + D).
Proof. intros H. unfold ev. cbn [shift_trace]. rewrite H, Nat2Z.inj_add. reflexivity. Qed.

Lemma shift_ev_no D t loc kind v : shifts loc kind = false ->
  shift_trace D (ev t loc kind v) = ev t loc kind v.
Proof. intros H. unfold ev. cbn [shift_trace]. rewrite H. reflexivity. Qed.

Lemma shifts_buf i kind : shifts (bufloc i) kind = false.
Proof.
  unfold shifts, bufloc.
  destruct (Z.eqb_spec (10 + Z.of_nat i) 0); [lia|].
  destruct (Z.eqb_spec (10 + Z.of_nat i) 1); [lia|]. reflexivity.
Qed.

Lemma shifts_ret loc : shifts loc 909 = false.
Proof. unfold shifts. cbn. apply andb_false_r. Qed.

Lemma shift_ret D t T v : shift_trace D (ret t T v) = ret t T v.
Proof. unfold ret. cbn [shift_trace]. rewrite shifts_ret. reflexivity. Qed.

(* ---------- the simulation relation ---------- *)
(* the cached copies of the counters are meaningful only from the access that
   loads them until the end of the call *)
Definition lo_live (p : pcT) : bool :=
  match p with PHigh | PSlot | PCas | PWrite | QSlot | QCas | QClear => true | _ => false end.
Definition hi_live (p : pcT) : bool :=
  match p with PSlot | PCas | PWrite | QLow | QSlot | QCas | QClear => true | _ => false end.

Record trel (D : nat) (T T' : tst) : Prop := {
  t_pc : pc T' = pc T; t_arg : arg T' = arg T; t_rd : rd T' = rd T;
  t_prog : prog T' = prog T; t_opi : opi T' = opi T;
  t_lo : lo_live (pc T) = true -> lo T' = lo T + D;
  t_hi : hi_live (pc T) = true -> hi T' = hi T + D }.

Record srel (D : nat) (s s' : st) : Prop := {
  r_high : high s' = high s + D; r_low : low s' = low s + D;
  r_size : size s' = size s;
  r_mod : forall a, (a + D) mod size s = a mod size s;
  r_buf : forall i, buf s' i = buf s i;
  r_nthr : nthr s' = nthr s;
  r_thr : forall t, trel D (thr s t) (thr s' t) }.

Lemma next_op_rel D T T' :
  arg T' = arg T -> rd T' = rd T -> prog T' = prog T -> opi T' = opi T ->
  trel D (next_op T) (next_op T').
Proof.
  intros Ha Hr Hp Ho. unfold next_op. rewrite Hp, Ho.
  destruct (prog T) as [|[v|] r]; constructor; cbn; auto; discriminate.
Qed.

Lemma srel_set_thr D s s' t x x' :
  srel D s s' -> trel D x x' -> srel D (set_thr s t x) (set_thr s' t x').
Proof.
  intros [] Hx. constructor; cbn; auto.
  intros u. unfold upd. destruct (Nat.eqb u t); auto.
Qed.

Lemma upd_rel {A} (f f' : nat -> A) i x : (forall j, f' j = f j) -> forall j, upd f' i x j = upd f i x j.
Proof. intros H j. unfold upd. destruct (Nat.eqb j i); auto. Qed.

Lemma eqb_add a b D : (a + D =? b + D) = (a =? b).
Proof. destruct (Nat.eqb_spec a b), (Nat.eqb_spec (a + D) (b + D)); auto; lia. Qed.

Lemma ret_eq t T T' v : opi T' = opi T -> ret t T' v = ret t T v.
Proof. unfold ret. now intros ->. Qed.

Ltac tr := repeat first [ rewrite shift_app by apply quads_ev | rewrite shift_ret
                        | rewrite shift_ev_no by apply shifts_buf
                        | rewrite shift_ev_yes by reflexivity ]; try reflexivity.
Ltac qd := repeat first [apply quads_app | apply quads_ev | apply quads_ret].
Ltac trl := constructor; cbn [pc lo hi arg rd prog opi with_pc lo_live hi_live];
            intros; try discriminate; auto; try lia.

(* one step from related states: related states, shifted output *)
Lemma step_sim D s s' t : srel D s s' ->
  srel D (fst (step s t)) (fst (step s' t)) /\
  snd (step s' t) = shift_trace (Z.of_nat D) (snd (step s t)) /\
  quads (snd (step s t)).
Proof.
  intros H. pose proof H as [Hh Hl Hsz Hmod Hb Hn Ht].
  destruct (Ht t) as [Hpc Ha Hr Hp Ho Hlo Hhi].
  unfold step. remember (thr s t) as T eqn:HT. remember (thr s' t) as T' eqn:HT'. rewrite Hpc.
  destruct (pc T) eqn:E; cbn [lo_live hi_live] in Hlo, Hhi;
    try specialize (Hlo eq_refl); try specialize (Hhi eq_refl).
  - (* PLow *) cbn [fst snd]. rewrite Hl. split; [|split; [tr | qd]].
    apply srel_set_thr; auto. trl.
  - (* PHigh *) cbn [fst snd]. rewrite Hh. split; [|split; [tr | qd]].
    apply srel_set_thr; auto. trl.
  - (* PSlot *) rewrite Hsz, Hhi, Hlo, Hmod, Hb, ?(ret_eq t T T') by exact Ho.
    replace (hi T + D - (lo T + D)) with (hi T - lo T) by lia.
    destruct (buf s (hi T mod size s)); [destruct (hi T - lo T <? size s)|]; cbn [fst snd];
      (split; [|split; [tr | qd]]); apply srel_set_thr; auto;
      try (apply next_op_rel; auto). trl.
  - (* PCas *) rewrite Hh, Hhi, eqb_add, ?(ret_eq t T T') by exact Ho.
    destruct (high s =? hi T); cbn [fst snd]; (split; [|split; [tr | qd]]).
    + constructor; cbn [high low size buf nthr thr]; auto; try lia.
      intros u. unfold upd. destruct (Nat.eqb u t); auto. trl.
    + apply srel_set_thr; auto. apply next_op_rel; auto.
  - (* PWrite *) rewrite Hsz, Hhi, Hmod, Ha, ?(ret_eq t T T') by exact Ho. cbn [fst snd]. split; [|split; [tr | qd]].
    constructor; cbn [high low size buf nthr thr]; auto.
    + apply upd_rel; auto.
    + intros u. unfold upd. destruct (Nat.eqb u t); auto. apply next_op_rel; auto.
  - (* QHigh *) cbn [fst snd]. rewrite Hh. split; [|split; [tr | qd]].
    apply srel_set_thr; auto. trl.
  - (* QLow *) cbn [fst snd]. rewrite Hl. split; [|split; [tr | qd]].
    apply srel_set_thr; auto. trl.
  - (* QSlot *) rewrite Hsz, Hhi, Hlo, Hmod, Hb, ?(ret_eq t T T') by exact Ho.
    replace (lo T + D <? hi T + D) with (lo T <? hi T)
      by (destruct (Nat.ltb_spec (lo T) (hi T)), (Nat.ltb_spec (lo T + D) (hi T + D)); auto; lia).
    destruct (buf s (lo T mod size s)) eqn:EB; [|destruct (lo T <? hi T)]; cbn [fst snd];
      (split; [|split; [tr | qd]]); apply srel_set_thr; auto;
      try (apply next_op_rel; auto). trl.
  - (* QCas *) rewrite Hl, Hlo, eqb_add, ?(ret_eq t T T') by exact Ho.
    destruct (low s =? lo T); cbn [fst snd]; (split; [|split; [tr | qd]]).
    + constructor; cbn [high low size buf nthr thr]; auto; try lia.
      intros u. unfold upd. destruct (Nat.eqb u t); auto. trl.
    + apply srel_set_thr; auto. apply next_op_rel; auto.
  - (* QClear *) rewrite Hsz, Hlo, Hmod, Hr, ?(ret_eq t T T') by exact Ho. cbn [fst snd]. split; [|split; [tr | qd]].
    constructor; cbn [high low size buf nthr thr]; auto.
    + apply upd_rel; auto.
    + intros u. unfold upd. destruct (Nat.eqb u t); auto. apply next_op_rel; auto.
  - (* Fin *) cbn [fst snd]. split; [auto | split; [reflexivity | constructor]].
Qed.

(* ---------- lifting to grant / run_sched / drain / run_all ---------- *)
Lemma status_rel D s s' t : srel D s s' -> status_of s' t = status_of s t.
Proof.
  intros H. unfold status_of. rewrite (r_nthr _ _ _ H), (t_pc _ _ _ (r_thr _ _ _ H t)). reflexivity.
Qed.

Lemma grant_sim D s s' t : srel D s s' ->
  srel D (fst (grant M s t)) (fst (grant M s' t)) /\
  snd (grant M s' t) = shift_trace (Z.of_nat D) (snd (grant M s t)) /\
  quads (snd (grant M s t)).
Proof.
  intros H. unfold grant. cbn [mstatus mstep M]. rewrite (status_rel D s s' t H).
  destruct (status_of s t); cbn [fst snd]; auto using quads.
  apply step_sim; auto.
Qed.

Lemma run_sched_sim D sch : forall s s', srel D s s' ->
  srel D (fst (run_sched M s sch)) (fst (run_sched M s' sch)) /\
  snd (run_sched M s' sch) = shift_trace (Z.of_nat D) (snd (run_sched M s sch)) /\
  quads (snd (run_sched M s sch)).
Proof.
  induction sch as [|t r IH]; intros s s' H; cbn [run_sched].
  - cbn [fst snd]. auto using quads.
  - destruct (grant_sim D s s' t H) as (H1 & E1 & Q1).
    destruct (grant M s t) as [s1 e1], (grant M s' t) as [s1' e1']. cbn [fst snd] in *.
    destruct (IH s1 s1' H1) as (H2 & E2 & Q2).
    destruct (run_sched M s1 r) as [s2 e2], (run_sched M s1' r) as [s2' e2']. cbn [fst snd] in *.
    subst. rewrite shift_app by auto. auto using quads_app.
Qed.

Lemma drain_round_sim D ts : forall s s' b, srel D s s' ->
  match drain_round M s ts b, drain_round M s' ts b with
  | (s1, e1, b1, l1), (s1', e1', b1', l1') =>
      srel D s1 s1' /\ e1' = shift_trace (Z.of_nat D) e1 /\ quads e1 /\ b1' = b1 /\ l1' = l1
  end.
Proof.
  induction ts as [|t r IH]; intros s s' b H; cbn [drain_round].
  - auto 6 using quads.
  - destruct b as [|b]; [auto 6 using quads|].
    cbn [mstatus mstep M]. rewrite (status_rel D s s' t H).
    destruct (status_of s t); try (apply IH; auto).
    destruct (step_sim D s s' t H) as (H1 & E1 & Q1).
    destruct (step s t) as [s1 e1], (step s' t) as [s1' e1']. cbn [fst snd] in *.
    specialize (IH s1 s1' b H1).
    destruct (drain_round M s1 r b) as [[[s2 e2] b2] l2], (drain_round M s1' r b) as [[[s2' e2'] b2'] l2'].
    destruct IH as (H2 & E2 & Q2 & -> & _). subst.
    rewrite shift_app by auto. auto 6 using quads_app.
Qed.

Lemma drain_sim D fuel : forall s s' b, srel D s s' ->
  srel D (fst (drain M fuel s b)) (fst (drain M fuel s' b)) /\
  snd (drain M fuel s' b) = shift_trace (Z.of_nat D) (snd (drain M fuel s b)) /\
  quads (snd (drain M fuel s b)).
Proof.
  induction fuel as [|f IH]; intros s s' b H; cbn [drain].
  - cbn [fst snd]. auto using quads.
  - cbn [mthreads M]. rewrite (r_nthr _ _ _ H).
    pose proof (drain_round_sim D (seq 0 (nthr s)) s s' b H) as R.
    destruct (drain_round M s (seq 0 (nthr s)) b) as [[[s1 e1] b1] l1],
             (drain_round M s' (seq 0 (nthr s)) b) as [[[s1' e1'] b1'] l1'].
    destruct R as (H1 & E1 & Q1 & -> & ->). subst.
    destruct l1; [|cbn [fst snd]; auto].
    destruct (Nat.eqb b1 0); [cbn [fst snd]; auto|].
    destruct (IH s1 s1' b1 H1) as (H2 & E2 & Q2).
    destruct (drain M f s1 b1) as [s2 e2], (drain M f s1' b1) as [s2' e2']. cbn [fst snd] in *.
    subst. rewrite shift_app by auto. auto using quads_app.
Qed.

(* the markers of unfinished threads are K_EV events: identical on both sides *)
Lemma stuck_rel D s s' : srel D s s' -> stuck_markers M s' = stuck_markers M s.
Proof.
  intros H. unfold stuck_markers. cbn [mthreads mstatus M]. rewrite (r_nthr _ _ _ H).
  apply flat_map_ext. intros t. now rewrite (status_rel D s s' t H).
Qed.

Lemma stuck_fixed D s : shift_trace D (stuck_markers M s) = stuck_markers M s /\ quads (stuck_markers M s).
Proof.
  unfold stuck_markers. induction (seq 0 (mthreads M s)) as [|t r [IH Q]]; cbn [flat_map].
  - auto using quads.
  - destruct (mstatus M s t); cbn [app shift_trace]; auto.
    + split; [|auto using quads]. cbn [shifts]. now rewrite IH.
    + split; [|auto using quads]. now rewrite IH.
Qed.

Lemma init_rel k start d progs :
  srel (d * 2 ^ k) (init k start progs) (init k (start + d * 2 ^ k) progs).
Proof.
  constructor; cbn [high low size buf nthr thr init]; auto.
  - intros a. apply Nat.mod_add. apply Nat.pow_nonzero. discriminate.
  - intros t. unfold idle_thread. apply next_op_rel; reflexivity.
Qed.

(* the whole trace, from any pair of related states *)
Lemma run_all_sim D s s' sch dmax : srel D s s' ->
  run_all M s' [] sch dmax = shift_trace (Z.of_nat D) (run_all M s [] sch dmax).
Proof.
  intros H. unfold run_all.
  destruct (run_sched_sim D sch s s' H) as (H1 & E1 & Q1).
  destruct (run_sched M s sch) as [s1 e1], (run_sched M s' sch) as [s1' e1']. cbn [fst snd] in *.
  destruct (drain_sim D (S dmax) s1 s1' dmax H1) as (H2 & E2 & Q2).
  destruct (drain M (S dmax) s1 dmax) as [s2 e2], (drain M (S dmax) s1' dmax) as [s2' e2'].
  cbn [fst snd] in *. subst.
  destruct (stuck_fixed (Z.of_nat D) s2) as [F Q3].
  cbn [app]. rewrite !shift_app, F, (stuck_rel D s2 s2' H2) by auto. reflexivity.
Qed.

(* Shifting both counters by any multiple d*2^k of the ring size changes the
   trace only by adding d*2^k to the value of the accesses to loc 0 / loc 1. *)
Theorem ring_shift_invariant_run k start d progs sch dmax :
  run_all M (init k (start + d * 2 ^ k) progs) [] sch dmax =
  shift_trace (Z.of_nat (d * 2 ^ k)) (run_all M (init k start progs) [] sch dmax).
Proof. apply run_all_sim, init_rel. Qed.

(* ---------- a concrete instance ---------- *)
(* k=1 (2 slots), start=1, d=3 (shift 6): thread 0 pushes 4, thread 1 pops *)
Example shift_example :
  let progs := [[OPush 4]; [OPop]] in
  let sch := [0; 1; 0; 0; 1; 0; 0] in
  run_all M (init 1 1 progs) [] sch 20 =
    [0;1;22;1; 1;0;22;1; 0;0;22;1; 0;11;9;0; 1;1;22;1; 0;0;73;2; 0;11;19;5; 0;1;909;1;
     1;11;9;5; 1;1;909;0]%Z /\
  run_all M (init 1 (1 + 3 * 2 ^ 1) progs) [] sch 20 =
    [0;1;22;7; 1;0;22;7; 0;0;22;7; 0;11;9;0; 1;1;22;7; 0;0;73;8; 0;11;19;5; 0;1;909;1;
     1;11;9;5; 1;1;909;0]%Z /\
  run_all M (init 1 (1 + 3 * 2 ^ 1) progs) [] sch 20 =
    shift_trace 6 (run_all M (init 1 1 progs) [] sch 20).
Proof. vm_compute. auto. Qed.

(* same programs, the push completes before the pop: both CASes succeed *)
Example shift_example_cas :
  let progs := [[OPush 4]; [OPop]] in
  let sch := [0; 0; 0; 0; 0; 1; 1; 1] in
  run_all M (init 1 1 progs) [] sch 20 =
    [0;1;22;1; 0;0;22;1; 0;11;9;0; 0;0;73;2; 0;11;19;5; 0;1;909;1;
     1;0;22;2; 1;1;22;1; 1;11;9;5; 1;1;72;2; 1;11;19;0; 1;1;909;5]%Z /\
  run_all M (init 1 (1 + 3 * 2 ^ 1) progs) [] sch 20 =
    [0;1;22;7; 0;0;22;7; 0;11;9;0; 0;0;73;8; 0;11;19;5; 0;1;909;1;
     1;0;22;8; 1;1;22;7; 1;11;9;5; 1;1;72;8; 1;11;19;0; 1;1;909;5]%Z /\
  run_all M (init 1 (1 + 3 * 2 ^ 1) progs) [] sch 20 =
    shift_trace 6 (run_all M (init 1 1 progs) [] sch 20).
Proof. vm_compute. auto. Qed.
