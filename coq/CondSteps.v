(* C05 proofs, part 4: every step of the instrumented machine preserves the
   invariant of CondInv.v (glue between the phases of CondPhase.v and the
   effect lemmas). *)
From Coq Require Import List ZArith Lia Bool Arith.
From LF Require Import Conc T1K Cond CondPhase CondProofs CondInv.
Import ListNotations.
Local Open Scope Z_scope.

(* the ghost updates of a wake position *)
Definition gk_wake (m : kmem) (t q : nat) (kp : wakepos) (g : gk) : gk :=
  match kp with
  | KPSetHead h nx =>
      set_nown (set_hand (set_gq g q (tl (gq g q))) q (option_map fst (hd_error (gq g q)))) h (OPop t)
  | KPOut h => set_nown g h (OThread (tid_of_name (ndata m h)))
  | _ => match sched_of m kp with Some f => sched_g g q f | None => g end
  end.

Definition gc_wake (m : kmem) (t q : nat) (kp : wakepos) (c : gc) : gc :=
  match sched_of m kp with
  | Some f =>
      if (q =? COND)%nat
      then {| g_reg := g_reg c; g_claimed := g_claimed c; g_rel := g_rel c + 1; g_trans := g_trans c;
              gwl := remove_nat f (gwl c); myclaim := myclaim c; myrel := upd (myrel c) t (myrel c t + 1) |}
      else c
  | None => c
  end.

Definition res_pos (res : wres) : vwpos := match res with WCont _ kp' => VP kp' | _ => VDone end.

Lemma h1_unique m V g t u : KInv m V g -> v_h1 (V t) = true -> u <> t -> v_h1 (V u) = false.
Proof.
  intros I Ht Hu. destruct (v_h1 (V u)) eqn:E; auto. exfalso.
  pose proof (tk_hold _ _ _ I t 1%nat Ht) as A. pose proof (tk_hold _ _ _ I u 1%nat E) as B. congruence.
Qed.

Lemma wake_cnt_pos m V g c t q cnt wc kp :
  Inv1 m V g c -> v_wake (V t) = Some (q, cnt, wc, VP kp) -> wc < cnt /\ 0 <= wc.
Proof.
  intros [I C] Hw. destruct (w_wake _ (l_wf _ _ _ I t) _ _ _ _ Hw) as (Hq & _ & Hm).
  destruct Hq as [->|[->| ->]].
  - destruct (tk_pass _ _ _ I t _ _ _ _ Hw eq_refl) as [_ ->]. rewrite (Hm eq_refl). lia.
  - destruct (tk_pass _ _ _ I t _ _ _ _ Hw eq_refl) as [_ ->]. rewrite (Hm eq_refl). lia.
  - destruct (cn_wc _ _ _ C t _ _ _ Hw) as (A & B & _). lia.
Qed.

(* the old stub, owned by the consumer, receives the popped data *)
Lemma k_copy m V g t q cnt wc h d :
  KInv m V g -> v_wake (V t) = Some (q, cnt, wc, VP (KPCopy h d)) ->
  KInv (set_ndata m h d) (upd V t (set_vwake (V t) (Some (q, cnt, wc, VP (KPOut h))))) g.
Proof.
  intros I Hw. pose proof (l_wf _ _ _ I t) as Wt.
  destruct (l_pop _ _ _ I t _ _ _ _ Hw) as (Lo & Lh & e & Le & Ld).
  assert (P : mpriv t g m (set_ndata m h d)).
  { constructor; auto. intros n A B. cbn. rewrite upd_other; auto. intros ->. contradiction. }
  apply (inv_private m _ V g t _ I P).
  - eapply vwf_set_wake; eauto.
  - left; reflexivity.
  - left; reflexivity.
  - intros Hf. apply (l_own _ _ _ I t Hf).
  - intros q0. exact (tk_hold _ _ _ I t q0).
  - intros q0 wp. exact (tk_got _ _ _ I t q0 wp).
  - cbn. intros q0 cnt0 wc0 kp0 E M. inversion E; subst. eapply (tk_pass _ _ _ I t); eauto.
  - intros q0 a b A. cbn. exact A.
  - intros q0 wp A B C. cbn. eauto.
  - intros q0 cnt0 wc0 w0 A B. rewrite Hw in A. inversion A; subst. cbn. eauto.
  - cbn. intros q0 cnt0 wc0 w0 E. inversion E; subst. cbn. rewrite upd_same. repeat split; auto. exists e. auto.
  - intros q0 wp Hwt. cbn in Hwt.
    assert (wp = WPYield (YPMaint UMUTEX IPAdd)) by (eapply (w_maint _ Wt); eauto; right; congruence).
    subst wp. exact Logic.I.
  - exact (l_acct _ _ _ I t).
  - exact (l_stat _ _ _ I t).
  - exact (l_node _ _ _ I t).
  - exact (l_slot _ _ _ I t).
  - exact (l_maint _ _ _ I t).
Qed.

Definition gc_sched (c : gc) (t q f : nat) : gc :=
  if (q =? COND)%nat
  then {| g_reg := g_reg c; g_claimed := g_claimed c; g_rel := g_rel c + 1; g_trans := g_trans c;
          gwl := remove_nat f (gwl c); myclaim := myclaim c; myrel := upd (myrel c) t (myrel c t + 1) |}
  else c.

Lemma sched_inv m V g c t q cnt wc f (rd : bool) :
  Inv1 m V g c -> v_wake (V t) = Some (q, cnt, wc, VP (if rd then KPReady f else KPState f)) ->
  wc < cnt -> 0 <= wc ->
  Inv1 (wake (if rd then set_fstate m f ST_READY else m) f)
       (upd V t (set_vwake (V t) (Some (q, cnt, wc + 1, res_pos (wloop cnt (wc + 1))))))
       (sched_g g q f) (gc_sched c t q f).
Proof.
  intros [I C] Hw Hlt Hge.
  pose proof (l_wf _ _ _ I t) as Wt.
  destruct (w_wake _ Wt _ _ _ _ Hw) as (Hq & Hcq & Hmq).
  assert (Lh : hand g q = Some f).
  { pose proof (l_pop _ _ _ I t _ _ _ _ Hw) as L. destruct rd; cbn in L; tauto. }
  destruct (q_hand _ _ _ I q f Hq Lh) as (Fg & _ & (fwp & Fw & Fa) & _).
  assert (Hft : f <> t) by (eapply wake_not_wait_same; eauto).
  destruct (w_wait _ (l_wf _ _ _ I f) _ _ Fw) as (_ & _ & FL1 & FL2 & _).
  assert (Wl : res_pos (wloop cnt (wc + 1)) = VP KPHead /\ wc + 1 < cnt \/
               res_pos (wloop cnt (wc + 1)) = VDone /\ wc + 1 = cnt).
  { unfold wloop. destruct (wc + 1 <? cnt) eqn:L; cbn; [left|right]; split; auto.
    - now apply Z.ltb_lt. - apply Z.ltb_ge in L. lia. }
  split.
  - apply k_sched; auto.
    + destruct Wl as [[-> _]|[-> _]]; auto.
    + intros Mq. rewrite (Hmq Mq) in *. destruct (tk_pass _ _ _ I t _ _ _ _ Hw Mq) as [_ ->].
      destruct Wl as [[_ L]|[-> _]]; auto; try lia.
  - unfold gc_sched. destruct (Nat.eqb_spec q COND) as [->|Hn].
    + destruct (Hcq eq_refl) as [Hh1 _].
      assert (Fc : v_cw3 (V f) = true).
      { destruct (v_lockw (V f)) eqn:El; [destruct (FL1 eq_refl) as [Q _]; discriminate Q|destruct (FL2 eq_refl); auto]. }
      eapply c_sched_cond; eauto.
      * intros u Hu. eapply h1_unique; eauto.
      * destruct Wl as [[-> L]|[-> L]]; auto.
    + assert (Mq : is_mutex q = true) by (destruct Hq as [->|[->| ->]]; auto; contradiction).
      assert (Fc : v_cw3 (V f) = false).
      { destruct (v_lockw (V f)) eqn:El; [destruct (FL1 eq_refl); auto|destruct (FL2 eq_refl) as [Q _]; contradiction]. }
      apply c_sched_mutex; auto.
      * unfold vout. cbn. rewrite Hw. destruct Hq as [->|[->| ->]]; auto. contradiction.
      * cbn. intros cnt0 wc0 w0 Q. inversion Q; subst. contradiction.
Qed.

Lemma wake_inv m V g c t q cnt wc kp inm m1 res :
  Inv1 m V g c -> v_wake (V t) = Some (q, cnt, wc, VP kp) ->
  wake_step m t q cnt wc kp inm = (m1, res) -> res <> WJunk ->
  Inv1 m1 (upd V t (set_vwake (V t) (Some (q, cnt, wc_of res 0, res_pos res))))
       (gk_wake m t q kp g) (gc_wake m t q kp c).
Proof.
  intros [I C] Hw E NJ.
  destruct (wake_cnt_pos _ _ _ _ _ _ _ _ _ (conj I C) Hw) as [Hlt Hge].
  pose proof (l_wf _ _ _ I t) as Wt.
  destruct (w_wake _ Wt _ _ _ _ Hw) as (Hq & Hcq & Hmq).
  pose proof (l_pop _ _ _ I t _ _ _ _ Hw) as LP.
  assert (SIL : forall w', inhand w' = inhand (VP kp) -> pop_local m g t q w' ->
                (q = COND -> match w' with VP _ => True | VDone => wc = cnt end) ->
                Inv1 m (upd V t (set_vwake (V t) (Some (q, cnt, wc, w')))) g c).
  { intros w' A B D. split; [eapply k_wake_silent; eauto|].
    eapply cinv_wake_same; eauto. }
  assert (LOOP : wloop cnt wc = WCont wc KPHead).
  { unfold wloop. destruct (wc <? cnt) eqn:L; auto. apply Z.ltb_ge in L. lia. }
  destruct kp as [|h|h nx|h nx|h d|h|f|f|sp]; cbn [wake_step] in E.
  - inversion E; subst. cbn. apply SIL; cbn; auto.
  - cbn in LP. destruct LP as [-> LP].
    destruct (nnext m (qhead m q)) eqn:En.
    + assert (Hc : (0 <? cnt) = true) by (apply Z.ltb_lt; lia). rewrite Hc in E.
      inversion E; subst. cbn. apply SIL; cbn; auto.
    + inversion E; subst. cbn. apply SIL; cbn; auto; try (repeat split; auto; rewrite ?En; discriminate).
  - inversion E; subst. cbn [wc_of res_pos gk_wake gc_wake sched_of].
    destruct (k_sethead _ _ _ _ _ _ _ _ _ I Hw) as (e & rest & Eg & K). rewrite Eg. cbn [tl hd_error option_map fst].
    split; [exact K|]. eapply cinv_wake_same in C; eauto.
    + destruct C as [C1 C2 C3 C4 C5 C6]. constructor; auto.
    + intros _. exact Logic.I.
  - inversion E; subst. cbn. apply SIL; cbn; auto.
    cbn in LP. destruct LP as (L1 & L2 & L3 & e & L4 & L5). repeat split; auto. exists e. auto.
  - inversion E; subst. cbn [wc_of res_pos gk_wake gc_wake sched_of].
    split; [eapply k_copy; eauto|]. eapply cinv_wake_same; eauto. intros _. exact Logic.I.
  - inversion E; subst. cbn [wc_of res_pos gk_wake gc_wake sched_of].
    split; [exact (k_out _ _ _ _ _ _ _ _ I Hw)|].
    pose proof (cinv_wake_same V g c t q cnt wc (VP (KPOut h)) (VP (KPState (tid_of_name (ndata m h)))) C Hw (fun _ => Logic.I)) as C'.
    destruct C' as [C1 C2 C3 C4 C5 C6]. constructor; auto.
  - cbn in LP. destruct LP as (Lh & Lf).
    destruct (fstate m f =? ST_WAITING) eqn:Ef.
    + inversion E; subst. unfold gk_wake, gc_wake. cbn [sched_of]. rewrite Ef. cbn [wc_of res_pos].
      apply SIL; cbn; auto. repeat split; auto. now apply Z.eqb_eq.
    + unfold gk_wake, gc_wake. cbn [sched_of]. rewrite Ef. inversion E; subst.
      pose proof (sched_inv m V g c t q cnt wc f false (conj I C) Hw Hlt Hge) as S. cbn in S.
      assert (W1 : wc_of (wloop cnt (wc + 1)) 0 = wc + 1) by (unfold wloop; destruct (wc + 1 <? cnt); reflexivity).
      rewrite W1. exact S.
  - unfold gk_wake, gc_wake. cbn [sched_of]. inversion E; subst.
    pose proof (sched_inv m V g c t q cnt wc f true (conj I C) Hw Hlt Hge) as S. cbn in S.
    assert (W1 : wc_of (wloop cnt (wc + 1)) 0 = wc + 1) by (unfold wloop; destruct (wc + 1 <? cnt); reflexivity).
    rewrite W1. exact S.
  - destruct sp as [|st].
    + inversion E; subst. cbn. apply SIL; cbn; auto.
    + destruct (waitingish st); inversion E; subst; [congruence|]. rewrite LOOP. cbn. apply SIL; cbn; auto.
Qed.

(* ------------------------------------------------------------------ *)
(* the invariant only reads the views pointwise *)
Lemma KInv_ext m V V' g : (forall u, V u = V' u) -> KInv m V g -> KInv m V' g.
Proof.
  intros E I. constructor.
  - intros t q. rewrite <- (E t). apply I.
  - intros t q wp. rewrite <- (E t). apply I.
  - intros t q cnt wc kp. rewrite <- (E t). apply I.
  - apply I.
  - apply I.
  - apply I.
  - apply I.
  - intros q a b Hq Hc. destruct (q_link _ _ _ I q a b Hq Hc) as [A|[A [u B]]]; auto.
    right. split; auto. exists u. now rewrite <- (E u).
  - apply I.
  - intros q e n Hq Hin. destruct (q_ent _ _ _ I q e n Hq Hin) as (A & B & wp & C & D).
    repeat split; auto. exists wp. now rewrite <- (E e).
  - apply I.
  - intros q e Hq Hh. destruct (q_hand _ _ _ I q e Hq Hh) as (A & B & (wp & C & D) & (u & cnt & wc & w & F & G)).
    repeat split; auto; [exists wp; now rewrite <- (E e)|exists u, cnt, wc, w; now rewrite <- (E u)].
  - intros u q cnt wc w. rewrite <- (E u). apply I.
  - intros t q wp. rewrite <- (E t). apply I.
  - intros t. rewrite <- (E t). apply I.
  - intros t. rewrite <- (E t). apply I.
  - apply I.
  - intros t. rewrite <- (E t). apply I.
  - intros t q. rewrite <- (E t). apply I.
  - intros t q q' ip. rewrite <- (E t). apply I.
  - intros t. rewrite <- (E t). apply I.
Qed.

Lemma CInv_ext V V' g c : (forall u, V u = V' u) -> CInv V g c -> CInv V' g c.
Proof.
  intros E I. constructor.
  - intros t. rewrite <- (E t). apply I.
  - intros F. apply (cn_free _ _ _ I). intros u. rewrite (E u). auto.
  - intros t cnt wc w. rewrite <- (E t). apply I.
  - apply I.
  - apply I.
  - intros t. rewrite <- (E t). apply I.
Qed.

Lemma Inv1_ext m V V' g c : (forall u, V u = V' u) -> Inv1 m V g c -> Inv1 m V' g c.
Proof. intros E [A B]. split; [eapply KInv_ext|eapply CInv_ext]; eauto. Qed.

(* ------------------------------------------------------------------ *)
(* a fiber that is not waiting moves to another view in which it is not waiting
   either and pops nothing (between the calls of its program) *)
Lemma nowait_nocw3 v : vwf v -> v_wait v = None -> v_cw3 v = false.
Proof.
  intros W H. destruct (v_cw3 v) eqn:E; auto. destruct (w_cw3 _ W E) as (wp & A & _). congruence.
Qed.

Lemma jump_inv m m' V g c t v' :
  Inv1 m V g c -> mpriv t g m m' -> vwf v' ->
  (fstate m' t = fstate m t \/ forall q, isq q -> hand g q <> Some t) ->
  fnode m' t = fnode m t -> pend m' t = pend m t -> blocked m' t = blocked m t ->
  v_wait (V t) = None -> v_wait v' = None -> v_wake v' = None ->
  (v_wake (V t) = None \/ exists q cnt wc, v_wake (V t) = Some (q, cnt, wc, VDone)) ->
  (forall q, vholds q v' = true -> tok g q = THeld t) ->
  (forall q, slot_mutex m' t = Some q -> False) ->
  (v_h1 v' = true -> g_trans c = (if v_trans v' then 1 else 0) /\ g_claimed c - g_rel c = 0) ->
  (v_h1 v' = false -> v_h1 (V t) = true -> g_trans c = 0 /\ g_claimed c = g_rel c) ->
  Inv1 m' (upd V t v') g c.
Proof.
  intros [I C] P W Hst Hfn Hpd Hbl Hw Hw' Hk' Hk Hh Hs Hc1 Hc2.
  pose proof (l_wf _ _ _ I t) as Wt.
  split.
  - apply (inv_private m m' V g t _ I P); auto.
    + destruct Hst as [A|A]; auto.
    + rewrite Hfn. apply (l_own _ _ _ I t).
    + intros q wp A. congruence.
    + intros q cnt wc kp A. congruence.
    + intros q a b A. congruence.
    + intros q wp A. congruence.
    + intros q cnt wc w A B. destruct Hk as [Q|(q0 & cnt0 & wc0 & Q)]; rewrite Q in A; [discriminate|].
      inversion A; subst. discriminate B.
    + intros q cnt wc w A. congruence.
    + intros q wp A. congruence.
    + rewrite Hw'. pose proof (l_acct _ _ _ I t) as A. rewrite Hw in A. cbn in *. rewrite Hpd, Hbl. exact A.
    + rewrite Hw'. exact Logic.I.
    + intros _. rewrite Hfn. apply (l_node _ _ _ I t). rewrite Hw. exact Logic.I.
    + intros q Q. destruct (Hs q Q).
    + intros q q' ip A. congruence.
  - apply cinv_view; auto.
    + intros H. destruct (Hc1 H) as [A B]. split; auto. unfold vout. rewrite Hk'. exact B.
    + intros cnt wc w A. congruence.
    + rewrite (nowait_nocw3 _ W Hw'), (nowait_nocw3 _ Wt Hw). tauto.
Qed.
